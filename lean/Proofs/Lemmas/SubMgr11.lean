/-
Helper lemmas for C18, part 11: world level — a manager's lists under operations of other managers in any state.
-/
import Proofs.Lemmas.SubMgr10

namespace Proofs.SubMgr
open Pywbem.Model.SubMgr Pywbem.Proto

/-! ### world level: an operation of another manager and the subscriptions owned by `i` -/

/-- the acting manager's subscription list for server `s` holds no key of a subscription owned by `i` -/
def ListClean (i : Str) (w : World) (m s : Nat) : Prop :=
  ∀ l, (w.owned m s).os = some l → ∀ y ∈ l, NotKeyOfOwned i (w.store s) y.filter y.handler

/-- what the operation must respect with regard to the subscriptions owned by `i` -/
def CondS (i : Str) (w : World) : Op → Prop
  | .removeSubs _ s sel => ∀ f h, (sel = .one f h ∨ ∃ ps, sel = .many ps ∧ (f, h) ∈ ps) →
      NotKeyOfOwned i (w.store s) f h
  | .removeServer m s => ListClean i w m s
  | .removeAll m => ∀ s, ListClean i w m s
  | .exitCtx m _ => ∀ s, ListClean i w m s
  | _ => True

theorem put_sameOwned {w : World} {m s : Nat} {i : Str} (r : R)
    (h : SameOwnedSubs i (w.store s) r.st) (s' : Nat) :
    SameOwnedSubs i (w.store s') ((w.put m s r.st r.o).store s') := by
  by_cases e : s' = s
  · subst e; rw [put_store_same]; exact h
  · rw [put_store_other _ _ _ _ _ _ e]; exact SameOwnedSubs.refl i _

theorem removeServerW_sameOwned {w : World} {i : Str} (m s : Nat) (hc : ListClean i w m s) (s' : Nat) :
    SameOwnedSubs i (w.store s') ((stepRemoveServerW w m s).1.store s') := by
  unfold stepRemoveServerW
  have h := sameOwned_removeServer (i := i) (w.reg m s) (w.store s) (w.owned m s) hc
  generalize stepRemoveServer (w.reg m s) (w.store s) (w.owned m s) = rs at h
  obtain ⟨r, still⟩ := rs
  simp only []
  split <;> exact put_sameOwned (m := m) r h s'

theorem removeServerW_other {w : World} (m s : Nat) :
    (∀ s', s' ≠ s → (stepRemoveServerW w m s).1.store s' = w.store s') ∧
    (∀ m' s', ¬ (m' = m ∧ s' = s) → (stepRemoveServerW w m s).1.owned m' s' = w.owned m' s') := by
  unfold stepRemoveServerW
  generalize stepRemoveServer (w.reg m s) (w.store s) (w.owned m s) = rs
  obtain ⟨r, still⟩ := rs
  simp only []
  split
  · exact ⟨fun s' h => put_store_other w m s s' r.st r.o h, fun m' s' h => put_owned_other w m s m' s' r.st r.o h⟩
  · exact ⟨fun s' h => put_store_other w m s s' r.st r.o h, fun m' s' h => put_owned_other w m s m' s' r.st r.o h⟩

theorem removeAllLoop_sameOwned {i : Str} (m : Nat) (s' : Nat) :
    ∀ (l : List Nat) (w : World), l.Nodup → (∀ s ∈ l, ListClean i w m s) →
      SameOwnedSubs i (w.store s') ((removeAllLoop m w l).1.store s') := by
  intro l
  induction l with
  | nil => intro w _ _; exact SameOwnedSubs.refl i _
  | cons s rest ih =>
    intro w hnd hc
    simp only [List.nodup_cons] at hnd
    have h1 := removeServerW_sameOwned (i := i) m s (hc s (by simp)) s'
    obtain ⟨ho1, ho2⟩ := removeServerW_other (w := w) m s
    unfold removeAllLoop
    generalize stepRemoveServerW w m s = r at h1 ho1 ho2
    obtain ⟨w1, out1⟩ := r
    cases out1 with
    | done =>
      simp only []
      refine h1.trans (ih w1 hnd.2 (fun s2 hs2 => ?_))
      have hne : s2 ≠ s := fun e => hnd.1 (e ▸ hs2)
      intro l hl y hy
      rw [ho2 m s2 (fun h => hne h.2)] at hl
      rw [ho1 s2 hne]
      exact hc s2 (by simp [hs2]) l hl y hy
    | _ => exact h1

/-- **An operation of another manager (id ≠ i), in ANY state of that manager, leaves the subscriptions owned
    by `i` untouched in every server**, provided it does not aim at them: explicit removal targets are not
    keys of subscriptions owned by `i`, and the list(s) its remove_server / remove_all_servers / exit walks
    through hold no such key. -/
theorem step_sameOwned {w : World} (hw : WInvFD w) (i : Str) (op : Op) (m : Nat) (a : Str)
    (hact : actor op = some m) (hid : w.ids m = some a) (hne : a ≠ i) (hc : CondS i w op) (s' : Nat) :
    SameOwnedSubs i (w.store s') ((step w op).1.store s') := by
  cases op with
  | newMgr x => simp [actor] at hact
  | dropMgr x => simp [actor] at hact
  | addServer m0 s =>
    simp only [actor, Option.some.injEq] at hact; subst hact
    simp only [step, hid]
    split
    · exact SameOwnedSubs.refl i _
    · exact put_sameOwned (m := m0) ⟨w.store s, discover a (w.store s), .done⟩ (SameOwnedSubs.refl i _) s'
  | removeServer m0 s =>
    simp only [actor, Option.some.injEq] at hact; subst hact
    simp only [step, hid]
    exact removeServerW_sameOwned m0 s hc s'
  | removeAll m0 =>
    simp only [actor, Option.some.injEq] at hact; subst hact
    simp only [step, hid]
    exact removeAllLoop_sameOwned m0 s' _ w (hw.snodup m0) (fun s _ => hc s)
  | exitCtx m0 exc =>
    simp only [actor, Option.some.injEq] at hact; subst hact
    simp only [step, hid]
    have h := removeAllLoop_sameOwned (i := i) m0 s' _ w (hw.snodup m0) (fun s _ => hc s)
    generalize removeAllLoop m0 w (w.servers m0) = r at h
    obtain ⟨w1, out1⟩ := r
    cases out1 <;> exact h
  | addDest m0 s x =>
    simp only [actor, Option.some.injEq] at hact; subst hact
    simp only [step, hid, World.applyR]
    exact put_sameOwned _ (SameOwnedSubs.of_eq (addDest_subs _ a _ _ x)) s'
  | addFilter m0 s owned fid name =>
    simp only [actor, Option.some.injEq] at hact; subst hact
    simp only [step, hid, World.applyR]
    exact put_sameOwned _ (SameOwnedSubs.of_eq (addFilter_subs _ a _ _ owned fid name)) s'
  | addSubs m0 s f sel owned =>
    simp only [actor, Option.some.injEq] at hact; subst hact
    simp only [step, hid, World.applyR]
    exact put_sameOwned _ (sameOwned_addSubs hne _ _ _ f sel owned) s'
  | removeDests m0 s sel =>
    simp only [actor, Option.some.injEq] at hact; subst hact
    simp only [step, hid, World.applyR]
    exact put_sameOwned _ (SameOwnedSubs.of_eq (removeDests_subs _ _ _ sel)) s'
  | removeFilter m0 s p =>
    simp only [actor, Option.some.injEq] at hact; subst hact
    simp only [step, hid, World.applyR]
    exact put_sameOwned _ (SameOwnedSubs.of_eq (removeFilter_subs _ _ _ p)) s'
  | removeSubs m0 s sel =>
    simp only [actor, Option.some.injEq] at hact; subst hact
    simp only [step, hid, World.applyR]
    exact put_sameOwned _ (sameOwned_removeSubs _ _ _ sel hc) s'
  | getOwned m0 s which =>
    simp only [actor, Option.some.injEq] at hact; subst hact
    simp only [step, hid]; exact SameOwnedSubs.refl i _
  | getAll m0 s which =>
    simp only [actor, Option.some.injEq] at hact; subst hact
    simp only [step, hid]; exact SameOwnedSubs.refl i _

theorem removeAllLoop_owned_other (m : Nat) :
    ∀ (l : List Nat) (w : World) (n s : Nat), n ≠ m → (removeAllLoop m w l).1.owned n s = w.owned n s := by
  intro l
  induction l with
  | nil => intro w n s _; rfl
  | cons s0 rest ih =>
    intro w n s hn
    obtain ⟨_, ho2⟩ := removeServerW_other (w := w) m s0
    unfold removeAllLoop
    generalize stepRemoveServerW w m s0 = r at ho2
    obtain ⟨w1, out1⟩ := r
    have h1 : w1.owned n s = w.owned n s := ho2 n s (fun h => hn h.1)
    cases out1 with
    | done => simp only []; rw [ih w1 n s hn]; exact h1
    | _ => exact h1

/-- an operation never writes another manager object's dict entries -/
theorem step_owned_other (w : World) (op : Op) (m n s : Nat) (hact : actor op = some m) (hn : n ≠ m) :
    (step w op).1.owned n s = w.owned n s := by
  have hp : ∀ (s0 : Nat) (st : Store) (o : Owned), (w.put m s0 st o).owned n s = w.owned n s :=
    fun s0 st o => put_owned_other w m s0 n s st o (fun h => hn h.1)
  cases op with
  | newMgr x => simp [actor] at hact
  | dropMgr x => simp [actor] at hact
  | addServer m0 s0 =>
    simp only [actor, Option.some.injEq] at hact; subst hact
    simp only [step]
    cases w.ids m0 with
    | none => rfl
    | some a =>
      simp only []
      split
      · rfl
      · exact hp s0 (w.store s0) (discover a (w.store s0))
  | removeServer m0 s0 =>
    simp only [actor, Option.some.injEq] at hact; subst hact
    simp only [step]
    cases w.ids m0 with
    | none => rfl
    | some a => exact (removeServerW_other (w := w) m0 s0).2 n s (fun h => hn h.1)
  | removeAll m0 =>
    simp only [actor, Option.some.injEq] at hact; subst hact
    simp only [step]
    cases w.ids m0 with
    | none => rfl
    | some a => exact removeAllLoop_owned_other m0 _ w n s hn
  | exitCtx m0 exc =>
    simp only [actor, Option.some.injEq] at hact; subst hact
    simp only [step]
    cases w.ids m0 with
    | none => rfl
    | some a =>
      have h := removeAllLoop_owned_other m0 (w.servers m0) w n s hn
      simp only []
      generalize removeAllLoop m0 w (w.servers m0) = r at h
      obtain ⟨w1, out1⟩ := r
      cases out1 <;> exact h
  | addDest m0 s0 x =>
    simp only [actor, Option.some.injEq] at hact; subst hact
    simp only [step]; cases w.ids m0 <;> first | rfl | exact hp s0 _ _
  | addFilter m0 s0 owned fid name =>
    simp only [actor, Option.some.injEq] at hact; subst hact
    simp only [step]; cases w.ids m0 <;> first | rfl | exact hp s0 _ _
  | addSubs m0 s0 f sel owned =>
    simp only [actor, Option.some.injEq] at hact; subst hact
    simp only [step]; cases w.ids m0 <;> first | rfl | exact hp s0 _ _
  | removeDests m0 s0 sel =>
    simp only [actor, Option.some.injEq] at hact; subst hact
    simp only [step]; cases w.ids m0 <;> first | rfl | exact hp s0 _ _
  | removeFilter m0 s0 p =>
    simp only [actor, Option.some.injEq] at hact; subst hact
    simp only [step]; cases w.ids m0 <;> first | rfl | exact hp s0 _ _
  | removeSubs m0 s0 sel =>
    simp only [actor, Option.some.injEq] at hact; subst hact
    simp only [step]; cases w.ids m0 <;> first | rfl | exact hp s0 _ _
  | getOwned m0 s0 which =>
    simp only [actor, Option.some.injEq] at hact; subst hact
    simp only [step]; cases w.ids m0 <;> rfl
  | getAll m0 s0 which =>
    simp only [actor, Option.some.injEq] at hact; subst hact
    simp only [step]; cases w.ids m0 <;> rfl

/-- **A manager's three lists stay exact under any operation of another manager** that respects `WBfd` (its
    filters/destinations) and `CondS` (its subscriptions) — whatever state the acting manager is in. -/
theorem agree_stable_under_foreign_op {w : World} (hw : WInvFD w) (op : Op) (wb : WBfd w op)
    (m n : Nat) (a i : Str) (hact : actor op = some m) (hida : w.ids m = some a) (hidi : w.ids n = some i)
    (hnm : n ≠ m) (hc : CondS i w op) (s : Nat) (hag : Agree i (w.store s) (w.owned n s)) :
    Agree i ((step w op).1.store s) ((step w op).1.owned n s) := by
  have hne : a ≠ i := fun e => hnm (hw.distinct n m i hidi (e ▸ hida))
  have hci := hw.idok n i hidi
  rw [step_owned_other w op m n s hact hnm]
  have hf := step_frame_fd hw op wb m a hact hida s
  have hs := step_sameOwned hw i op m a hact hida hne hc s
  obtain ⟨⟨ld, h1, h2, h3⟩, ⟨lf, h4, h5, h6⟩, hos⟩ := hag
  exact ⟨⟨ld, h1, h2, fun d => (h3 d).trans (hf.d i (Ne.symm hne) hci d).symm⟩,
         ⟨lf, h4, h5, fun f => (h6 f).trans (hf.f i (Ne.symm hne) hci f).symm⟩,
         agree_os_stable hos hs⟩

end Proofs.SubMgr
