/-
Helper lemmas for C08 stage 3a: instance declarations (`CIMInstance.tomof`, `CIMProperty.tomof(is_instance=True)`,
`p_instanceDeclaration`, `p_valueInitializer`).
-/
import Proofs.Lemmas.MofQualList

set_option linter.unusedSimpArgs false
set_option linter.unusedVariables false

namespace Pywbem.Lemmas.MofInst
open Pywbem.Proto Pywbem.Model Pywbem.Model.MofStr Pywbem.Model.MofLex Pywbem.Model.MofVal Pywbem.Model.MofDecl
open Pywbem.Lemmas.MofStr Pywbem.Lemmas.MofNum Pywbem.Lemmas.MofTok Pywbem.Lemmas.MofValue Pywbem.Lemmas.MofDoc
open Pywbem.Lemmas.MofQual Pywbem.Lemmas.MofQualList

abbrev Str := List Nat

/-! ### joining documents -/

theorem WF_snoc_sep_append : ∀ (a : List Piece) (r : Str) (b : List Piece), WF (a ++ [.sep r]) → WF b →
    WF (a ++ [.sep r] ++ b)
  | [], r, b, _, hb => WF_sep_cons r b hb
  | [p], r, b, ha, hb => ⟨ha.1, WF_sep_cons r b hb⟩
  | p :: q :: rest, r, b, ha, hb => ⟨ha.1, WF_snoc_sep_append (q :: rest) r b ha.2 hb⟩

/-- a document: pieces that are all right, well formed, with given text and tokens -/
structure Doc (text : Str) (toks : List Tok) : Prop where
  ex : ∃ ps : List Piece, text = docText ps ∧ (∀ p ∈ ps, p.Ok) ∧ WF ps ∧ docToks ps = toks

/-- a document whose last piece is a separator run: anything may follow -/
structure DocS (text : Str) (toks : List Tok) : Prop where
  ex : ∃ (ps : List Piece) (r : Str), text = docText (ps ++ [.sep r]) ∧ (∀ p ∈ ps ++ [.sep r], p.Ok) ∧
    WF (ps ++ [.sep r]) ∧ docToks (ps ++ [.sep r]) = toks

theorem DocS.toDoc {t : Str} {k : List Tok} (h : DocS t k) : Doc t k := by
  obtain ⟨ps, r, h1, h2, h3, h4⟩ := h.ex
  exact ⟨_, h1, h2, h3, h4⟩

theorem DocS.append {ta tb : Str} {ka kb : List Tok} (ha : DocS ta ka) (hb : DocS tb kb) :
    DocS (ta ++ tb) (ka ++ kb) := by
  obtain ⟨pa, ra, a1, a2, a3, a4⟩ := ha.ex
  obtain ⟨pb, rb, b1, b2, b3, b4⟩ := hb.ex
  refine ⟨pa ++ [.sep ra] ++ pb, rb, ?_, ?_, ?_, ?_⟩
  · rw [a1, b1]; simp [docText]
  · intro p hp
    simp only [List.mem_append, List.mem_cons, List.mem_nil_iff, or_false] at hp
    rcases hp with ((hp | hp) | hp) | hp
    · exact a2 p (by simp [hp])
    · exact a2 p (by simp [hp])
    · exact b2 p (by simp [hp])
    · exact b2 p (by simp [hp])
  · have := WF_snoc_sep_append pa ra (pb ++ [.sep rb]) a3 b3
    simpa [List.append_assoc] using this
  · rw [← a4, ← b4]; simp [docToks]

theorem DocS.nil : DocS [] [] := ⟨[], [], by simp [docText, Piece.text], by intro p hp; simp at hp; subst hp; rfl,
  trivial, by simp [docToks, Piece.toks, punctToks]⟩

/-- a separator run alone -/
theorem DocS.sep (r : Str) (h : r.all isSepPlain = true) : DocS r (punctToks r) :=
  ⟨[], r, by simp [docText, Piece.text], by intro p hp; simp at hp; subst hp; exact h, trivial,
    by simp [docToks, Piece.toks]⟩

/-- pieces followed by a non-empty separator run -/
theorem DocS.ofPieces (ps : List Piece) (r : Str) (hok : ∀ p ∈ ps, p.Ok) (hr : r.all isSepPlain = true)
    (hwf : WF (ps ++ [.sep r])) : DocS (docText ps ++ r) (docToks ps ++ punctToks r) :=
  ⟨ps, r, by simp [docText, Piece.text], by
    intro p hp; simp only [List.mem_append, List.mem_cons, List.mem_nil_iff, or_false] at hp
    rcases hp with hp | hp
    · exact hok p hp
    · subst hp; exact hr, hwf, by simp [docToks, Piece.toks]⟩

theorem Doc.lex {t : Str} {k : List Tok} (h : Doc t k) : lexToks t = some k := by
  obtain ⟨ps, h1, h2, h3, h4⟩ := h.ex
  rw [h1, ← h4]; exact lex_doc_all ps h2 h3

/-- concatenation of a list of documents that end in separators -/
theorem DocS.flatten : ∀ (xs : List (Str × List Tok)), (∀ x ∈ xs, DocS x.1 x.2) →
    DocS (xs.map (·.1)).flatten (xs.map (·.2)).flatten
  | [], _ => by simpa using DocS.nil
  | x :: xs, h => by
    have h0 := h x (by simp)
    have hrest := DocS.flatten xs (fun y hy => h y (by simp [hy]))
    simpa using DocS.append h0 hrest

/-! ### `= value ;` as written by CIMProperty.tomof -/

def assignOpen (isList sp : Bool) : Str := kSpEq ++ (if isList then kSpBraceOpen else []) ++ (if sp then [32] else [])
def assignClose (isList : Bool) : Str := (if isList then kSpBrace else []) ++ kSemiNl

def assignToks (isList : Bool) (toks : List Tok) : List Tok :=
  [Tok.p 61] ++ (if isList then [Tok.p 123] else []) ++ toks ++ (if isList then [Tok.p 125] else []) ++ [Tok.p 59]

theorem assign_seps (isList sp : Bool) : (assignOpen isList sp).all isSepPlain = true ∧ assignOpen isList sp ≠ [] ∧
    (assignClose isList).all isSepPlain = true ∧ assignClose isList ≠ [] ∧
    punctToks (assignOpen isList sp) = [Tok.p 61] ++ (if isList then [Tok.p 123] else []) ∧
    punctToks (assignClose isList) = (if isList then [Tok.p 125] else []) ++ [Tok.p 59] := by
  cases isList <;> cases sp <;> decide

/-- the value part of a property: `head = value;` where `head` is already a document ending in ... a word -/
theorem assign_doc (c : Codec) (L : CodecLaws c) (ty : CimType) (v : Value c) (hv : ValueOk c L ty v)
    (indent maxline : Nat) (hm : indent + 8 ≤ maxline) (lp : Int) (r : Str × Int)
    (hr : valueToMof c ty v indent maxline lp 1 true = .ok r) (hd : List Piece)
    (hpre : ∀ p ∈ hd, p.Ok) (hwf : WF hd) :
    ∃ toks, ValueToks c v toks ∧
      DocS (docText hd ++ kSpEq ++ (if Value.isList v then kSpBraceOpen else []) ++
            (if r.1 ≠ [] ∧ r.1.head? ≠ some 10 then [32] else []) ++ r.1 ++
            (if Value.isList v then kSpBrace else []) ++ kSemiNl)
          (docToks hd ++ assignToks (Value.isList v) toks) := by
  obtain ⟨toks, hvt, hlex⟩ := value_lex c L ty v hv indent maxline hm lp 1 true r.1 r.2 hr
  refine ⟨toks, hvt, ?_⟩
  obtain ⟨s1, s2, s3, s4, s5, s6⟩ := assign_seps (Value.isList v) (decide (r.1 ≠ [] ∧ r.1.head? ≠ some 10))
  let ps : List Piece := hd ++ [.sep (assignOpen (Value.isList v) (decide (r.1 ≠ [] ∧ r.1.head? ≠ some 10))),
    .val r.1 toks]
  have hps : ∀ p ∈ ps, p.Ok := by
    intro p hp
    simp only [ps, List.mem_append, List.mem_cons, List.mem_nil_iff, or_false] at hp
    rcases hp with hp | hp | hp
    · exact hpre p hp
    · subst hp; exact s1
    · subst hp; exact hlex
  have hwf2 : WF (ps ++ [.sep (assignClose (Value.isList v))]) := by
    have h1 : WF ([Piece.sep (assignOpen (Value.isList v) (decide (r.1 ≠ [] ∧ r.1.head? ≠ some 10))), .val r.1 toks,
        .sep (assignClose (Value.isList v))]) := ⟨.inl trivial, .inr s4, trivial⟩
    have := WF_append_gap hd _ hwf h1 s2
    simpa [ps, List.append_assoc] using this
  have := DocS.ofPieces ps (assignClose (Value.isList v)) hps s3 hwf2
  have ht : docText ps ++ assignClose (Value.isList v) =
      docText hd ++ kSpEq ++ (if Value.isList v then kSpBraceOpen else []) ++
        (if r.1 ≠ [] ∧ r.1.head? ≠ some 10 then [32] else []) ++ r.1 ++
        (if Value.isList v then kSpBrace else []) ++ kSemiNl := by
    by_cases hsp : r.1 ≠ [] ∧ r.1.head? ≠ some 10 <;>
      simp [ps, docText, Piece.text, assignOpen, assignClose, hsp]
  have hk : docToks ps ++ punctToks (assignClose (Value.isList v)) =
      docToks hd ++ assignToks (Value.isList v) toks := by
    have h0 : docToks ps = docToks hd ++
        (punctToks (assignOpen (Value.isList v) (decide (r.1 ≠ [] ∧ r.1.head? ≠ some 10))) ++ toks) := by
      simp only [ps, docToks, List.map_append, List.map_cons, List.map_nil, List.flatten_append, List.flatten_cons,
        List.flatten_nil, Piece.toks, List.append_nil, List.append_assoc]
    rw [h0, s5, s6]
    simp [assignToks]
  rw [ht, hk] at this
  exact this

/-- reading `= value ;` back: the raw initializer and what follows the semicolon -/
theorem parseInit_assign (c : Codec) (v : Value c) (toks : List Tok) (ht : ValueToks c v toks) (rest : List Tok) :
    parseInit ((if Value.isList v then [Tok.p 123] else []) ++ toks ++ (if Value.isList v then [Tok.p 125] else []) ++
        Tok.p 59 :: rest) =
      some ((match v with | .scalar s => .inl (rawOf c s) | .array xs => .inr (xs.map (rawOf c))), Tok.p 59 :: rest) := by
  cases v with
  | scalar s =>
    have := parseInit_scalar c s toks (Tok.p 59 :: rest) ht trivial
    simpa [Value.isList] using this
  | array xs =>
    obtain ⟨tokss, hall, e⟩ := ht
    subst e
    have := parseInit_array c xs tokss (Tok.p 59 :: rest) hall
    simpa [Value.isList] using this

theorem punctToks_indent (n : Nat) : punctToks (indentStr n) = [] := by
  induction n with
  | zero => rfl
  | succ n ih => simp only [indentStr, List.replicate_succ] at ih ⊢; simp [punctToks, isPunct, ih]

/-! ### instance properties -/

/-- an instance property that MOF can express against the class `cls`: it is a property of the class with the
    class's spelling, type and array shape (the compiler copies those from the class), carries no qualifiers,
    its value fits the type; embedded instance / embedded object values are excluded (not modelled) -/
structure InstPropOk (c : Codec) (L : CodecLaws c) (cls : Class c) (p : Property c) : Prop where
  nameWord : IsWord p.name
  nameId : identOf p.name = some p.name
  cprop : ∃ cp, findProp cls p.name = some cp ∧ cp.name = p.name ∧ cp.ty = p.ty ∧ cp.refClass = p.refClass ∧
    cp.isArray = p.isArray ∧ cp.arraySize = p.arraySize ∧
    (p.value.isSome = true → hasQual cp "embeddedinstance" = false ∧ hasQual cp "embeddedobject" = false)
  noQuals : p.quals = []
  valueOk : ∀ v, p.value = some v → ValueOk c L p.ty v ∧ Value.isList v = p.isArray ∧ v ≠ .scalar .null

def effValue {c : Codec} (p : Property c) : Value c := p.value.getD (.scalar .null)

def instPropToks {c : Codec} (p : Property c) (toks : List Tok) : List Tok :=
  Tok.id p.name :: assignToks (Value.isList (effValue p)) toks

theorem effValue_ok (c : Codec) (L : CodecLaws c) (p : Property c)
    (h : ∀ v, p.value = some v → ValueOk c L p.ty v ∧ Value.isList v = p.isArray ∧ v ≠ .scalar .null) :
    ValueOk c L p.ty (effValue p) := by
  unfold effValue
  cases hv : p.value with
  | none => exact trivial
  | some v => exact (h v hv).1

theorem instProp_doc (c : Codec) (L : CodecLaws c) (p : Property c) (hw : IsWord p.name)
    (hv : ∀ v, p.value = some v → ValueOk c L p.ty v ∧ Value.isList v = p.isArray ∧ v ≠ .scalar .null)
    (indent maxline : Nat) (hm : indent + Generated.mofIndent + 8 ≤ maxline) (t : Str)
    (hr : propertyTomof c p true indent maxline = .ok t) :
    ∃ toks, ValueToks c (effValue p) toks ∧ DocS t (instPropToks p toks) := by
  simp only [propertyTomof, if_true, Bool.or_true] at hr
  generalize hvm : valueToMof c p.ty (p.value.getD (.scalar .null)) (indent + Generated.mofIndent) maxline _ 1 true = res at hr
  cases res with
  | error e => simp at hr
  | ok r =>
    simp only [Except.ok.injEq] at hr
    have hs : (indentStr indent).all isSepPlain = true := indent_sep indent
    obtain ⟨toks, hvt, hdoc⟩ := assign_doc c L p.ty (effValue p) (effValue_ok c L p hv) (indent + Generated.mofIndent)
      maxline hm _ r hvm [.sep (indentStr indent), .word p.name]
      (by intro q hq; simp at hq; rcases hq with hq | hq <;> subst hq; exact hs; exact hw)
      ⟨.inl trivial, trivial⟩
    refine ⟨toks, hvt, ?_⟩
    have ht : docText [Piece.sep (indentStr indent), .word p.name] = indentStr indent ++ p.name := by
      simp [docText, Piece.text]
    have hk : docToks [Piece.sep (indentStr indent), .word p.name] = [Tok.id p.name] := by
      simp [docToks, Piece.toks, punctToks_indent]
    rw [ht, hk] at hdoc
    rw [← hr]
    simp only [instPropToks, effValue, List.append_assoc, List.cons_append, List.nil_append] at hdoc ⊢
    exact hdoc

theorem parseInstProp_toks (c : Codec) (L : CodecLaws c) (cls : Class c) (p : Property c)
    (hok : InstPropOk c L cls p) (toks : List Tok) (ht : ValueToks c (effValue p) toks) (rest : List Tok) :
    parseInstProp c cls (instPropToks p toks ++ rest) = some (p, rest) := by
  obtain ⟨cp, hfind, h1, h2, h3, h4, h5, hemb⟩ := hok.cprop
  have hpi := parseInit_assign c (effValue p) toks ht rest
  have hq := hok.noQuals
  simp only [instPropToks, assignToks, List.cons_append, List.nil_append, List.append_assoc] at hpi ⊢
  simp only [parseInstProp, hok.nameId, hfind]
  obtain ⟨name, ty, rc, isArray, size, value, quals⟩ := p
  obtain ⟨cname, cty, crc, cisArray, csize, cvalue, cquals⟩ := cp
  simp only at h1 h2 h3 h4 h5 hq hemb hpi ⊢
  subst h1; subst h2; subst h3; subst h4; subst h5; subst hq
  cases value with
  | none =>
    simp only [effValue, Option.getD_none, Value.isList, Bool.false_eq_true, if_false, List.nil_append, rawOf] at hpi ⊢
    simp only [hpi]
  | some v =>
    obtain ⟨hv1, hv2, hv3⟩ := hok.valueOk v rfl
    simp only at hv1 hv2 hv3
    obtain ⟨he1, he2⟩ := hemb rfl
    simp only [effValue, Option.getD_some] at hpi ⊢
    rw [hpi]
    cases v with
    | scalar s =>
      have hne : rawOf c s ≠ .null := fun e => hv3 (by rw [rawOf_null c s e])
      have hty := typeRaw_scalar c L cty s hv1
      simp only [Value.isList] at hv2
      subst hv2
      cases hraw : rawOf c s with
      | null => exact absurd hraw hne
      | bool b => rw [hraw] at hty; simp [hraw, he1, he2, typeInit, hty]
      | int b => rw [hraw] at hty; simp [hraw, he1, he2, typeInit, hty]
      | float b => rw [hraw] at hty; simp [hraw, he1, he2, typeInit, hty]
      | str b => rw [hraw] at hty; simp [hraw, he1, he2, typeInit, hty]
      | chr b => rw [hraw] at hty; simp [hraw, he1, he2, typeInit, hty]
    | array xs =>
      simp only [Value.isList] at hv2
      subst hv2
      simp [he1, he2, typeInit, typeRaws_scalars c L cty xs hv1]

theorem instPropToks_head {c : Codec} (p : Property c) (toks rest : List Tok) :
    ∃ r, instPropToks p toks ++ rest = Tok.id p.name :: r := ⟨_, rfl⟩

inductive PAll (c : Codec) : List (Property c) → List (List Tok) → Prop where
  | nil : PAll c [] []
  | cons {p ps t ts} : ValueToks c (effValue p) t → PAll c ps ts → PAll c (p :: ps) (t :: ts)

def instPropsToks {c : Codec} : List (Property c) → List (List Tok) → List Tok
  | p :: ps, t :: ts => instPropToks p t ++ instPropsToks ps ts
  | _, _ => []

theorem instProps_doc (c : Codec) (L : CodecLaws c) (indent maxline : Nat)
    (hm : indent + Generated.mofIndent + 8 ≤ maxline) :
    ∀ (ps : List (Property c)) (ts : List Str),
      (∀ p ∈ ps, IsWord p.name ∧ ∀ v, p.value = some v → ValueOk c L p.ty v ∧ Value.isList v = p.isArray ∧ v ≠ .scalar .null) →
      mapTomof (fun p => propertyTomof c p true indent maxline) ps = .ok ts →
      ∃ tokss, PAll c ps tokss ∧ DocS ts.flatten (instPropsToks ps tokss) := by
  intro ps
  induction ps with
  | nil =>
    intro ts _ hr
    simp only [mapTomof, Except.ok.injEq] at hr
    subst hr
    exact ⟨[], .nil, by simpa [instPropsToks] using DocS.nil⟩
  | cons p ps ih =>
    intro ts hok hr
    simp only [mapTomof] at hr
    cases hp : propertyTomof c p true indent maxline with
    | error e => simp [hp] at hr
    | ok t =>
      simp only [hp] at hr
      cases hrest : mapTomof (fun p => propertyTomof c p true indent maxline) ps with
      | error e => simp [hrest, Except.map] at hr
      | ok ts' =>
        simp only [hrest, Except.map, Except.ok.injEq] at hr
        obtain ⟨hw, hv⟩ := hok p (by simp)
        obtain ⟨toks, hvt, hdoc⟩ := instProp_doc c L p hw hv indent maxline hm t hp
        obtain ⟨tokss, hall, hdocs⟩ := ih ts' (fun x hx => hok x (by simp [hx])) hrest
        refine ⟨toks :: tokss, .cons hvt hall, ?_⟩
        rw [← hr]
        simpa [instPropsToks] using DocS.append hdoc hdocs

theorem parseInstPropsF_toks (c : Codec) (L : CodecLaws c) (cls : Class c) :
    ∀ (ps : List (Property c)) (tokss : List (List Tok)), (∀ p ∈ ps, InstPropOk c L cls p) → PAll c ps tokss →
      ∀ (rest : List Tok) f, ps.length + 1 ≤ f →
      parseInstPropsF c cls f (instPropsToks ps tokss ++ Tok.p 125 :: rest) = some (ps, rest) := by
  intro ps
  induction ps with
  | nil =>
    intro tokss _ hall rest f hf
    cases hall
    match f, hf with
    | f + 1, _ => simp [instPropsToks, parseInstPropsF]
  | cons p ps ih =>
    intro tokss hok hall rest f hf
    cases hall with
    | cons hp hrest =>
      rename_i t ts
      match f, hf with
      | f + 1, hf =>
        simp only [List.length_cons] at hf
        have hpp := parseInstProp_toks c L cls p (hok p (by simp)) t hp (instPropsToks ps ts ++ Tok.p 125 :: rest)
        have hrec := ih ts (fun x hx => hok x (by simp [hx])) hrest rest f (by omega)
        simp only [instPropsToks, List.append_assoc] at hpp ⊢
        simp only [instPropToks, List.cons_append] at hpp ⊢
        simp only [parseInstPropsF, hpp, hrec]
        simp

/-! ### the instance declaration -/

def kwInstance : Str := [105, 110, 115, 116, 97, 110, 99, 101]
def kwOf : Str := [111, 102]

/-- an instance that MOF can express against its class -/
structure InstanceOk (c : Codec) (L : CodecLaws c) (cls : Class c) (inst : Instance c) : Prop where
  cnWord : IsWord inst.className
  cnId : identOf inst.className = some inst.className
  props : ∀ p ∈ inst.props, InstPropOk c L cls p
  nodup : (inst.props.map (fun p => p.name.map asciiLower)).Nodup

theorem instance_roundtrip (c : Codec) (L : CodecLaws c) (cls : Class c) (inst : Instance c)
    (hok : InstanceOk c L cls inst) (maxline : Nat)
    (hm : Generated.mofIndent + Generated.mofIndent + 8 ≤ maxline) (text : Str)
    (hr : instanceTomof c inst maxline = .ok text) : readInstance c cls text = some inst := by
  unfold instanceTomof at hr
  cases hp : mapTomof (fun p => propertyTomof c p true Generated.mofIndent maxline) inst.props with
  | error e => simp [hp] at hr
  | ok pts =>
    simp only [hp, Except.ok.injEq] at hr
    obtain ⟨tokss, hall, hdocs⟩ := instProps_doc c L Generated.mofIndent maxline hm inst.props pts
      (fun p hpm => ⟨(hok.props p hpm).nameWord, (hok.props p hpm).valueOk⟩) hp
    -- header
    have hhead : DocS (kInstanceOfSp ++ inst.className ++ kSpBraceNl)
        [Tok.id kwInstance, Tok.id kwOf, Tok.id inst.className, Tok.p 123] := by
      have := DocS.ofPieces [.word kwInstance, .sep [32], .word kwOf, .sep [32], .word inst.className] kSpBraceNl
        (by
          intro p hpm
          simp only [List.mem_cons, List.mem_nil_iff, or_false] at hpm
          rcases hpm with h | h | h | h | h <;> subst h
          · exact isWord_of_B _ (by decide)
          · show ([32] : Str).all isSepPlain = true; decide
          · exact isWord_of_B _ (by decide)
          · show ([32] : Str).all isSepPlain = true; decide
          · exact hok.cnWord)
        (by decide)
        ⟨.inr (by show ([32] : Str) ≠ []; decide), .inl trivial, .inr (by show ([32] : Str) ≠ []; decide), .inl trivial,
          .inr (by show kSpBraceNl ≠ []; decide), trivial⟩
      have e1 : punctToks [32] = [] := by decide
      have e2 : punctToks kSpBraceNl = [Tok.p 123] := by decide
      have e3 : kInstanceOfSp = kwInstance ++ [32] ++ kwOf ++ [32] := by decide
      simpa [docText, docToks, Piece.text, Piece.toks, e1, e2, e3] using this
    have htail : DocS kCloseBraceSemiNl [Tok.p 125, Tok.p 59] := by
      have := DocS.sep kCloseBraceSemiNl (by decide)
      have e : punctToks kCloseBraceSemiNl = [Tok.p 125, Tok.p 59] := by decide
      rwa [e] at this
    have hdoc := (DocS.append (DocS.append hhead hdocs) htail).toDoc
    have hlex := hdoc.lex
    rw [hr] at hlex
    have hkw : (isKw kwInstance "instance" && isKw kwOf "of") = true := by decide
    have hlen : inst.props.length + 1 ≤ (instPropsToks inst.props tokss ++ [Tok.p 125, Tok.p 59]).length + 1 := by
      have : ∀ (ps : List (Property c)) (ts : List (List Tok)), PAll c ps ts → ps.length ≤ (instPropsToks ps ts).length := by
        intro ps
        induction ps with
        | nil => intro ts _; simp
        | cons q r ih =>
          intro ts h
          cases h with
          | cons hq hrest =>
            have := ih _ hrest
            simp only [instPropsToks, instPropToks, List.length_append, List.length_cons] at this ⊢
            omega
      have := this inst.props tokss hall
      simp only [List.length_append, List.length_cons, List.length_nil]
      omega
    have hparse := parseInstPropsF_toks c L cls inst.props tokss hok.props hall [Tok.p 59] _ hlen
    simp only [readInstance, hlex, List.cons_append, List.nil_append, List.append_assoc, parseInstance, hkw,
      Bool.not_true, Bool.false_eq_true, if_false, hok.cnId]
    rw [hparse]
    simp [hok.nodup]

end Pywbem.Lemmas.MofInst
