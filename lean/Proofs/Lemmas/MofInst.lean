/-
Helper lemmas for C08 stage 3a: instance declarations (`CIMInstance.tomof`, `CIMProperty.tomof(is_instance=True)`,
`p_instanceDeclaration`, `p_valueInitializer`).
-/
import Proofs.Lemmas.MofQualList

set_option linter.unusedSimpArgs false
set_option linter.unusedVariables false

namespace Pywbem.Lemmas.MofInst
open Pywbem.Proto Pywbem.Model Pywbem.Model.MofStr Pywbem.Model.MofLex Pywbem.Model.MofVal Pywbem.Model.MofDecl
open Pywbem.Lemmas.MofStr Pywbem.Lemmas.MofNum Pywbem.Lemmas.MofTok Pywbem.Lemmas.MofValue Pywbem.Lemmas.MofDoc
open Pywbem.Lemmas.MofQual Pywbem.Lemmas.MofQualList

abbrev Str := List Nat

/-! ### joining documents -/

theorem WF_snoc_sep_append : ∀ (a : List Piece) (r : Str) (b : List Piece), WF (a ++ [.sep r]) → WF b →
    WF (a ++ [.sep r] ++ b)
  | [], r, b, _, hb => WF_sep_cons r b hb
  | [p], r, b, ha, hb => ⟨ha.1, WF_sep_cons r b hb⟩
  | p :: q :: rest, r, b, ha, hb => ⟨ha.1, WF_snoc_sep_append (q :: rest) r b ha.2 hb⟩

/-- a document: pieces that are all right, well formed, with given text and tokens -/
structure Doc (text : Str) (toks : List Tok) : Prop where
  ex : ∃ ps : List Piece, text = docText ps ∧ (∀ p ∈ ps, p.Ok) ∧ WF ps ∧ docToks ps = toks

/-- a document whose last piece is a separator run: anything may follow -/
structure DocS (text : Str) (toks : List Tok) : Prop where
  ex : ∃ (ps : List Piece) (r : Str), text = docText (ps ++ [.sep r]) ∧ (∀ p ∈ ps ++ [.sep r], p.Ok) ∧
    WF (ps ++ [.sep r]) ∧ docToks (ps ++ [.sep r]) = toks

theorem DocS.toDoc {t : Str} {k : List Tok} (h : DocS t k) : Doc t k := by
  obtain ⟨ps, r, h1, h2, h3, h4⟩ := h.ex
  exact ⟨_, h1, h2, h3, h4⟩

theorem DocS.append {ta tb : Str} {ka kb : List Tok} (ha : DocS ta ka) (hb : DocS tb kb) :
    DocS (ta ++ tb) (ka ++ kb) := by
  obtain ⟨pa, ra, a1, a2, a3, a4⟩ := ha.ex
  obtain ⟨pb, rb, b1, b2, b3, b4⟩ := hb.ex
  refine ⟨pa ++ [.sep ra] ++ pb, rb, ?_, ?_, ?_, ?_⟩
  · rw [a1, b1]; simp [docText]
  · intro p hp
    simp only [List.mem_append, List.mem_cons, List.mem_nil_iff, or_false] at hp
    rcases hp with ((hp | hp) | hp) | hp
    · exact a2 p (by simp [hp])
    · exact a2 p (by simp [hp])
    · exact b2 p (by simp [hp])
    · exact b2 p (by simp [hp])
  · have := WF_snoc_sep_append pa ra (pb ++ [.sep rb]) a3 b3
    simpa [List.append_assoc] using this
  · rw [← a4, ← b4]; simp [docToks]

theorem DocS.nil : DocS [] [] := ⟨[], [], by simp [docText, Piece.text], by intro p hp; simp at hp; subst hp; rfl,
  trivial, by simp [docToks, Piece.toks, punctToks]⟩

/-- a separator run alone -/
theorem DocS.sep (r : Str) (h : r.all isSepPlain = true) : DocS r (punctToks r) :=
  ⟨[], r, by simp [docText, Piece.text], by intro p hp; simp at hp; subst hp; exact h, trivial,
    by simp [docToks, Piece.toks]⟩

/-- pieces followed by a non-empty separator run -/
theorem DocS.ofPieces (ps : List Piece) (r : Str) (hok : ∀ p ∈ ps, p.Ok) (hr : r.all isSepPlain = true)
    (hwf : WF (ps ++ [.sep r])) : DocS (docText ps ++ r) (docToks ps ++ punctToks r) :=
  ⟨ps, r, by simp [docText, Piece.text], by
    intro p hp; simp only [List.mem_append, List.mem_cons, List.mem_nil_iff, or_false] at hp
    rcases hp with hp | hp
    · exact hok p hp
    · subst hp; exact hr, hwf, by simp [docToks, Piece.toks]⟩

theorem Doc.lex {t : Str} {k : List Tok} (h : Doc t k) : lexToks t = some k := by
  obtain ⟨ps, h1, h2, h3, h4⟩ := h.ex
  rw [h1, ← h4]; exact lex_doc_all ps h2 h3

/-- concatenation of a list of documents that end in separators -/
theorem DocS.flatten : ∀ (ts : List Str) (ks : List (List Tok)), ts.length = ks.length →
    (∀ i (h1 : i < ts.length) (h2 : i < ks.length), DocS ts[i] ks[i]) → DocS ts.flatten ks.flatten
  | [], [], _, _ => by simpa using DocS.nil
  | t :: ts, k :: ks, hl, h => by
    have h0 := h 0 (by simp) (by simp)
    have hrest := DocS.flatten ts ks (by simpa using hl)
      (fun i h1 h2 => by simpa using h (i + 1) (by simp; omega) (by simp; omega))
    simpa using DocS.append h0 hrest
  | [], _ :: _, hl, _ => by simp at hl
  | _ :: _, [], hl, _ => by simp at hl

end Pywbem.Lemmas.MofInst
