/-
C01 — the Sendable clauses are needed: witnesses, proved for every codec satisfying `CodecOk`.
-/
import Proofs.Lemmas.CimXml10

set_option linter.unusedSimpArgs false
set_option linter.unusedVariables false
set_option linter.unusedSectionVars false

namespace Proofs.CimXml
open Pywbem.Model Pywbem.Model.XmlText Pywbem.Proto

section
variable (C : DecCodec) (S : Spec) (hC : CodecOk C S)

include hC in
/-- a method without return type is written without TYPE, which `parse_method` rejects -/
theorem meth_without_type_rejected (name : Str) (origin : Option Str) (propagated : Option Bool) :
    decMethod C (encMeth C.toCodec (.mk name none [] origin propagated [])) = .error .cimXmlParseError := by
  have hp : SendableParams S [] := ⟨by intro p hp; simp at hp, by simp [NoDupNames]⟩
  have hq : SendableQuals S [] := ⟨by intro p hp; simp at hp, by simp [NoDupNames]⟩
  have hAq := allNames_encQuals C []
  have hAp := allNames_encParams C []
  have hA : AllNames (encQuals C.toCodec [] ++ encParams C.toCodec [])
      ["QUALIFIER", "PARAMETER", "PARAMETER.REFERENCE", "PARAMETER.ARRAY", "PARAMETER.REFARRAY"] :=
    allNames_append (allNames_mono hAq (by simp)) (allNames_mono hAp (by simp [paramNames]))
  rw [encMeth_eq]
  unfold decMethod
  rw [checkNode_ok_some "METHOD" _ _ _ _ _ false (methAttrs_keysOk ..)
    (kidsOk_of_allNames _ hA (by simp)) (Or.inr (noText_of_allNames hA))]
  have hps : decParameters C (encQuals C.toCodec [] ++ encParams C.toCodec []) = .ok (wdParams C.toCodec []) := by
    rw [decParameters_append, decParameters_skip C _ _ hAq (by simp), rt_params_list C S hC [] hp.1, app2_ok]
    rfl
  obtain ⟨hqs, hqd⟩ := rt_quals' C S hC [] hq _ paramNames hAp (by simp [paramNames])
  simp only [bind_ok, hps, hqs, boolAttrOf_false _ "PROPAGATED" propagated (methAttrs_P ..), methAttrs_TYPE]
  rfl

/-- a keybinding without a name is written NAME="" and comes back named '' -/
theorem unnamed_key_renamed (v : Int) :
    decKeybinding C (encKey C.toCodec (.mk none (.pyint v))) = .ok (.mk (some []) (.pyint v)) :=
  rt_key_pyint C [] v

theorem unnamed_key_differs (v : Int) :
    decKeybinding C (encKey C.toCodec (.mk none (.pyint v))) ≠ .ok (wdKey C.toCodec (.mk none (.pyint v))) := by
  rw [unnamed_key_renamed]
  simp [wdKey]

end

end Proofs.CimXml
