/-
Helper lemmas for C18 (model: Pywbem/Model/SubMgr.lean).
Part 1: the ownership marker — string split, regex fragment, re.escape.
-/
import Pywbem.Model.SubMgr

namespace Proofs.SubMgr
open Pywbem.Model.SubMgr Pywbem.Proto

/-! ### pins of the generated constants -/

theorem nameHead_eq (k : Kind) : nameHead k = markerPrefix k := by cases k <;> rfl
theorem nameSep_eq (k : Kind) : nameSep k = [':'] := by cases k <;> rfl
theorem patHead_eq (k : Kind) : patHead k = markerPrefix k := by cases k <;> rfl
theorem patTail_eq (k : Kind) : patTail k = [':', '[', '^', ':', ']', '*'] := by cases k <;> rfl
theorem idEscaped_eq (k : Kind) : idEscaped k = true := by cases k <;> rfl

/-! ### stripPrefix? / ownsSpecB -/

theorem stripPrefix?_eq_some {p s r : Str} : stripPrefix? p s = some r ↔ s = p ++ r := by
  induction p generalizing s with
  | nil => simp [stripPrefix?, eq_comm]
  | cons a p ih =>
    cases s with
    | nil => simp [stripPrefix?]
    | cons c cs =>
      by_cases h : a = c
      · subst h; simp [stripPrefix?, ih]
      · simp [stripPrefix?, h]; intro e; exact absurd e.symm h

theorem ownsSpecB_iff (k : Kind) (id name : Str) : ownsSpecB k id name = true ↔ ownsSpec k id name := by
  unfold ownsSpecB ownsSpec
  generalize hp : markerPrefix k ++ id ++ [':'] = p
  have hp' : ∀ rest, markerPrefix k ++ id ++ ':' :: rest = p ++ rest := by
    intro rest; rw [← hp]; simp
  constructor
  · intro h
    cases hs : stripPrefix? p name with
    | none => rw [hs] at h; simp at h
    | some rest =>
      rw [hs] at h
      refine ⟨rest, ?_, by simpa using h⟩
      rw [hp']; exact stripPrefix?_eq_some.mp hs
  · rintro ⟨rest, rfl, hr⟩
    rw [hp', stripPrefix?_eq_some.mpr rfl]
    simpa using hr

instance (k : Kind) (id name : Str) : Decidable (ownsSpec k id name) :=
  decidable_of_iff _ (ownsSpecB_iff k id name)

def litToks (s : Str) : List Tok := s.map (fun c => Tok.atom (.lit c))
def litItems (s : Str) : List Item := s.map (fun c => ⟨.lit c, false⟩)

theorem special_not_alnum : ∀ c ∈ specialChars, isAsciiAlnum c = false := by decide

theorem nonspecial_plain {c : Char} (h : isSpecial c = false) :
    (c == '\\') = false ∧ (c == '[') = false ∧ (c == '.') = false ∧ (c == '*') = false ∧
    unsupported c = false := by
  have hm : c ∉ specialChars := by simpa [isSpecial] using h
  have ne : ∀ x ∈ specialChars, c ≠ x := fun x hx e => hm (e ▸ hx)
  have h1 := ne '\\' (by decide)
  have h2 := ne '[' (by decide)
  have h3 := ne '.' (by decide)
  have h4 := ne '*' (by decide)
  have h5 := ne '(' (by decide)
  have h6 := ne ')' (by decide)
  have h7 := ne '|' (by decide)
  have h8 := ne '+' (by decide)
  have h9 := ne '?' (by decide)
  have h10 := ne '{' (by decide)
  have h11 := ne '}' (by decide)
  have h12 := ne '^' (by decide)
  have h13 := ne '$' (by decide)
  have h14 := ne ']' (by decide)
  simp [unsupported, *]

theorem tokenize_plain (c : Char) (r : Str) (h : isSpecial c = false) :
    tokenize (c :: r) = (tokenize r).map (Tok.atom (.lit c) :: ·) := by
  obtain ⟨h1, h2, h3, h4, h5⟩ := nonspecial_plain h
  rw [tokenize.eq_def]
  simp [h1, h2, h3, h4, h5]

theorem tokenize_escaped (c : Char) (r : Str) (h : isSpecial c = true) :
    tokenize ('\\' :: c :: r) = (tokenize r).map (Tok.atom (.lit c) :: ·) := by
  have hal := special_not_alnum c (by simpa [isSpecial] using h)
  rw [tokenize.eq_def]
  simp [hal]

theorem tokenize_escape (s t : Str) :
    tokenize (reEscape s ++ t) = (tokenize t).map (litToks s ++ ·) := by
  induction s with
  | nil => simp [reEscape, litToks]
  | cons c s ih =>
    have hsplit : reEscape (c :: s) ++ t = escChar c ++ (reEscape s ++ t) := by
      simp [reEscape, List.flatMap_cons]
    rw [hsplit]
    by_cases hc : isSpecial c = true
    · simp [escChar, hc, tokenize_escaped, ih, litToks, Option.map_map, Function.comp_def]
    · have hc' : isSpecial c = false := by simpa using hc
      simp [escChar, hc', tokenize_plain, ih, litToks, Option.map_map, Function.comp_def]

theorem reEscape_append (a b : Str) : reEscape (a ++ b) = reEscape a ++ reEscape b := by
  simp [reEscape, List.flatMap_append]

theorem reEscape_prefix (k : Kind) : reEscape (markerPrefix k) = markerPrefix k := by
  cases k <;> decide

theorem items_lit (s : Str) (t : List Tok) (ht : t.head? ≠ some Tok.star) :
    items (litToks s ++ t) = (items t).map (litItems s ++ ·) := by
  induction s with
  | nil => simp [litToks, litItems]
  | cons c s ih =>
    cases s with
    | nil =>
      cases t with
      | nil => simp [litToks, litItems, items]
      | cons x t' =>
        cases x with
        | star => simp at ht
        | atom a =>
          rw [show litToks [c] ++ Tok.atom a :: t' = Tok.atom (.lit c) :: Tok.atom a :: t' from rfl, items.eq_def]
          simp [litItems]
    | cons d s' =>
      rw [show litToks (c :: d :: s') ++ t = Tok.atom (.lit c) :: (litToks (d :: s') ++ t) from rfl]
      rw [show litToks (d :: s') ++ t = Tok.atom (.lit d) :: (litToks s' ++ t) from rfl] at ih ⊢
      rw [items.eq_def]
      simp only []
      rw [ih]
      simp [litItems, Option.map_map, Function.comp_def]

def tailItems : List Item := [⟨.lit ':', false⟩, ⟨.notColon, true⟩]

theorem compile_escaped (k : Kind) (id : Str) :
    compileBody (patBody true k id) = some (litItems (markerPrefix k ++ id) ++ tailItems) := by
  have hb : patBody true k id = reEscape (markerPrefix k ++ id) ++ [':', '[', '^', ':', ']', '*'] := by
    simp [patBody, patHead_eq, patTail_eq, reEscape_append, reEscape_prefix]
  have ht : tokenize [':', '[', '^', ':', ']', '*'] = some [Tok.atom (.lit ':'), Tok.atom .notColon, Tok.star] := by
    decide
  rw [compileBody, hb, tokenize_escape, ht]
  simp only [Option.map_some, Option.bind_some]
  rw [items_lit _ _ (by simp)]
  simp [items, tailItems]

theorem matchItems_lit (s : Str) (rest : List Item) (name : Str) :
    matchItems (litItems s ++ rest) name = true ↔ ∃ tl, name = s ++ tl ∧ matchItems rest tl = true := by
  induction s generalizing name with
  | nil => simp [litItems]
  | cons c s ih =>
    cases name with
    | nil => simp [litItems, matchItems]
    | cons x xs =>
      have : litItems (c :: s) ++ rest = ⟨.lit c, false⟩ :: (litItems s ++ rest) := rfl
      rw [this]
      simp only [matchItems, atomOk, Bool.false_eq_true, if_false, Bool.and_eq_true, beq_iff_eq, ih]
      constructor
      · rintro ⟨rfl, tl, rfl, h⟩; exact ⟨tl, rfl, h⟩
      · rintro ⟨tl, h, hm⟩
        simp at h
        exact ⟨h.1, tl, h.2, hm⟩

theorem endOk_noColon {r : Str} (h : endOk r = true) : ':' ∉ r := by
  simp [endOk] at h
  rcases h with rfl | rfl <;> simp

theorem matchStar_notColon (r : Str) : matchStar .notColon endOk r = true ↔ ':' ∉ r := by
  induction r with
  | nil => simp [matchStar, endOk]
  | cons c cs ih =>
    simp only [matchStar, Bool.or_eq_true, Bool.and_eq_true, ih, atomOk]
    constructor
    · rintro (h | ⟨h1, h2⟩)
      · exact endOk_noColon h
      · simp at h1; simp [h2]; exact fun e => h1 e.symm
    · intro h
      simp at h
      right; exact ⟨by simp; exact fun e => h.1 e.symm, h.2⟩

theorem matchTail (tl : Str) : matchItems tailItems tl = true ↔ ∃ r, tl = ':' :: r ∧ ':' ∉ r := by
  cases tl with
  | nil => simp [tailItems, matchItems]
  | cons c cs =>
    simp only [tailItems, matchItems, Bool.false_eq_true, if_false, if_true, atomOk, Bool.and_eq_true, beq_iff_eq]
    have : (matchStar Atom.notColon (fun x => endOk x) cs = true) ↔ ':' ∉ cs := matchStar_notColon cs
    rw [this]
    constructor
    · rintro ⟨rfl, h⟩; exact ⟨cs, rfl, h⟩
    · rintro ⟨r, h, hr⟩; simp at h; exact ⟨h.1, h.2 ▸ hr⟩

/-- the pattern built from the ESCAPED id decides exactly the specified marker -/
theorem ownsRe_escaped_iff (k : Kind) (id name : Str) :
    ownsRe true k id name = some true ↔ ownsSpec k id name := by
  rw [ownsRe, compile_escaped]
  simp only [Option.map_some, Option.some.injEq]
  rw [matchItems_lit]
  simp only [matchTail, ownsSpec]
  constructor
  · rintro ⟨tl, rfl, r, rfl, hr⟩; exact ⟨r, by simp, hr⟩
  · rintro ⟨r, rfl, hr⟩; exact ⟨':' :: r, by simp, r, rfl, hr⟩

theorem ownsRe_escaped_isSome (k : Kind) (id name : Str) : (ownsRe true k id name).isSome = true := by
  simp [ownsRe, compile_escaped]

theorem ownsCode_iff (k : Kind) (id name : Str) : ownsCode k id name = true ↔ ownsSpec k id name := by
  rw [ownsCode, idEscaped_eq, ← ownsRe_escaped_iff]
  cases h : ownsRe true k id name with
  | none => have := ownsRe_escaped_isSome k id name; simp [h] at this
  | some b => simp

/-! ### ids without regex metacharacters: escaping is the identity -/

theorem reEscape_plain (s : Str) (h : ∀ c ∈ s, isSpecial c = false) : reEscape s = s := by
  induction s with
  | nil => rfl
  | cons c s ih =>
    have hc := h c (by simp)
    have := ih (fun x hx => h x (by simp [hx]))
    simp [reEscape, List.flatMap_cons, escChar, hc] at this ⊢
    exact this

theorem patBody_plain (k : Kind) (id : Str) (h : ∀ c ∈ id, isSpecial c = false) :
    patBody false k id = patBody true k id := by
  simp [patBody, reEscape_plain id h]

/-! ### unique split of a Name -/

theorem split_unique {i j r1 r2 : Str} (hi : ':' ∉ i) (hj : ':' ∉ j)
    (h : i ++ ':' :: r1 = j ++ ':' :: r2) : i = j ∧ r1 = r2 := by
  induction i generalizing j with
  | nil =>
    cases j with
    | nil => simpa using h
    | cons b j => simp at h; exact absurd h.1.symm (by intro e; exact hj (by simp [e]))
  | cons a i ih =>
    cases j with
    | nil => simp at h; exact absurd h.1 (by intro e; exact hi (by simp [e]))
    | cons b j =>
      simp at h
      obtain ⟨rfl, h⟩ := h
      have := ih (fun e => hi (by simp [e])) (fun e => hj (by simp [e])) h
      exact ⟨by rw [this.1], this.2⟩

theorem ownsSpec_unique {k : Kind} {i j name : Str} (hi : ':' ∉ i) (hj : ':' ∉ j)
    (h1 : ownsSpec k i name) (h2 : ownsSpec k j name) : i = j := by
  obtain ⟨r1, rfl, _⟩ := h1
  obtain ⟨r2, h, _⟩ := h2
  simp only [List.append_assoc, List.append_cancel_left_eq] at h
  exact (split_unique hi hj h).1

theorem ownsSpec_mkName (k : Kind) (id x : Str) (hx : ':' ∉ x) : ownsSpec k id (mkName k id x) :=
  ⟨x, by simp [mkName, nameHead_eq, nameSep_eq], hx⟩

theorem ownsSpec_mkName_iff (k : Kind) (id j x : Str) (hi : ':' ∉ id) (hj : ':' ∉ j) (hx : ':' ∉ x) :
    ownsSpec k j (mkName k id x) ↔ j = id :=
  ⟨fun h => ownsSpec_unique hj hi h (ownsSpec_mkName k id x hx), fun e => e ▸ ownsSpec_mkName k id x hx⟩

end Proofs.SubMgr
