/-
C02 helper lemmas, part 4: cimvalue, the ERROR/CODE invariant, result handling, handleResponse.
-/
import Proofs.Lemmas.EnvSafe

namespace Proofs.C02
open Pywbem.Model Pywbem.Model.Resp Pywbem.Model.Envelope Pywbem.Proto Pywbem.Model.XmlText

/-- cimvalue / cimtype raise ValueError or TypeError only -/
def VT : PyExc → Prop := fun e => e = .valueError ∨ e = .typeError
instance : AllowsV VT := ⟨Or.inl rfl⟩
instance : AllowsT VT := ⟨Or.inr rfl⟩

section
variable (C : EnvCodec)

theorem cimtypeOf_safe (v : PV) : Safe VT (cimtypeOf v) := by
  unfold cimtypeOf; safe
macro_rules | `(tactic| safe_leaf) => `(tactic| exact cimtypeOf_safe _)

theorem convScalar_safe (ty : Str) (v : PV) : Safe VT (convScalar C ty v) := by
  unfold convScalar; safe
macro_rules | `(tactic| safe_leaf) => `(tactic| exact convScalar_safe _ _ _)

theorem cimvalue1_safe (ty : Str) (v : PV) : Safe VT (cimvalue1 C ty v) := by
  unfold cimvalue1; safe
macro_rules | `(tactic| safe_leaf) => `(tactic| exact cimvalue1_safe _ _ _)

theorem cimvalueStrs_safe (ty : Str) (l : List (Option Str)) : Safe VT (cimvalueStrs C ty l) := by
  fun_induction cimvalueStrs C ty l <;> safe
macro_rules | `(tactic| safe_leaf) => `(tactic| exact cimvalueStrs_safe _ _ _)

theorem cimvaluePaths_safe (ty : Str) (l : List (Option Path)) : Safe VT (cimvaluePaths C ty l) := by
  fun_induction cimvaluePaths C ty l <;> safe
macro_rules | `(tactic| safe_leaf) => `(tactic| exact cimvaluePaths_safe _ _ _)

theorem cimvaluePVs_safe (ty : Str) (l : List PV) : Safe VT (cimvaluePVs C ty l) := by
  fun_induction cimvaluePVs C ty l <;> safe
macro_rules | `(tactic| safe_leaf) => `(tactic| exact cimvaluePVs_safe _ _ _)

theorem cimvalue_safe (v : PV) (ty : Option Str) : Safe VT (cimvalue C v ty) := by
  unfold cimvalue; safe

/-- inside `try … except (TypeError, ValueError)` -/
theorem cimvalue_caught {P : PyExc → Prop} [Allows P] (v : PV) (ty : Option Str) : Safe P (catchVT (cimvalue C v ty)) := by
  apply Safe.catchVT
  refine Safe.mono ?_ (cimvalue_safe C v ty)
  intro e h
  rcases h with h | h <;> subst h <;> exact Or.inl (by decide)
macro_rules | `(tactic| safe_leaf) => `(tactic| exact cimvalue_caught _ _ _)
theorem unpackBoolStrs_safe {P : PyExc → Prop} [Allows P] (l : List (Option Str)) : Safe P (unpackBoolStrs l) := by
  fun_induction unpackBoolStrs l <;> safe
macro_rules | `(tactic| safe_leaf) => `(tactic| exact unpackBoolStrs_safe _)

theorem cimvalue_safeC {P : PyExc → Prop} (v : PV) (ty : Option Str) :
    Safe (Caught [.typeError, .valueError] P) (cimvalue C v ty) := by
  refine Safe.mono ?_ (cimvalue_safe C v ty)
  intro e h
  rcases h with h | h <;> subst h <;> exact Or.inl (by decide)
macro_rules | `(tactic| safe_leaf) => `(tactic| exact cimvalue_safeC _ _ _)

/-- `xml_cimvalue` inside `try … except (TypeError, ValueError)`: the CIMXMLParseError of unpack_boolean
    passes through, the ValueError / TypeError of cimvalue are converted -/
theorem xmlCimvalue_caught {P : PyExc → Prop} [Allows P] (v : PV) (ty : Option Str) :
    Safe P (catchVT (xmlCimvalue C v ty)) := by
  apply Safe.catchVT
  unfold xmlCimvalue
  safe
macro_rules | `(tactic| safe_leaf) => `(tactic| exact xmlCimvalue_caught _ _ _)
end

/-! ### documented classes -/

/-- what may leave `handleResponse`: CIMError, CIMXMLParseError, XMLParseError, the VersionError family —
    and RecursionError (known finding C02-KF1; in the model: embedded nesting beyond the fuel) -/
def Doc : PyExc → Prop := fun e =>
  (∃ c, e = .cimError c) ∨ e = .cimXmlParseError ∨ e = .xmlParseError ∨ e = .versionError ∨ e = .recursionError
instance : Allows Doc := ⟨Or.inr (Or.inl rfl)⟩

theorem EE_Doc (e : PyExc) (h : EE e) : Doc e := by
  rcases h with (h | h | h) | h <;> subst h
  · exact Or.inr (Or.inl rfl)
  · exact Or.inr (Or.inr (Or.inl rfl))
  · exact Or.inr (Or.inr (Or.inr (Or.inr rfl)))
  · exact Or.inr (Or.inr (Or.inr (Or.inl rfl)))

/-! ### the CODE invariant: a parsed ERROR element has a CODE that `int()` accepts -/

theorem bind_eq_ok {α β} {x : R α} {f : α → R β} {b : β} (h : x >>= f = .ok b) : ∃ a, x = .ok a ∧ f a = .ok b := by
  cases x with
  | error e => cases h
  | ok a => exact ⟨a, rfl, h⟩

def KidOk : RspKid → Prop
  | .error code _ _ => ∃ v, pyIntLim code = some v
  | _ => True

theorem catchV_pyIntE_ok (code : Str) (v : Int) (h : catchExc [.valueError] (pyIntE code) = .ok v) :
    pyIntLim code = some v := by
  unfold pyIntE at h
  cases hp : pyIntLim code with
  | none => simp [hp, Resp.catchExc] at h
  | some w => simp [hp, Resp.catchExc] at h; simp [h]

section
variable (C : EnvCodec) (fuel : Nat)

theorem decError_ok (t : Xml) (k : RspKid) (h : decError C fuel t = .ok k) : KidOk k := by
  unfold decError at h
  obtain ⟨a, _, h⟩ := bind_eq_ok h
  dsimp only at h
  obtain ⟨v, hv, h⟩ := bind_eq_ok h
  obtain ⟨i, _, h⟩ := bind_eq_ok h
  cases h
  exact ⟨v, catchV_pyIntE_ok _ _ hv⟩

theorem decReturnValue_ok (t : Xml) (k : RspKid) (h : decReturnValue C fuel t = .ok k) : KidOk k := by
  unfold decReturnValue at h
  obtain ⟨a, _, h⟩ := bind_eq_ok h
  obtain ⟨b, _, h⟩ := bind_eq_ok h
  dsimp only at h
  split at h <;> (obtain ⟨c, _, h⟩ := bind_eq_ok h; cases h; trivial)

theorem decParamValue_ok (t : Xml) (k : RspKid) (h : decParamValue C fuel t = .ok k) : KidOk k := by
  unfold decParamValue at h
  obtain ⟨a, _, h⟩ := bind_eq_ok h
  obtain ⟨b, _, h⟩ := bind_eq_ok h
  dsimp only at h
  split at h <;> (obtain ⟨c, _, h⟩ := bind_eq_ok h; cases h; trivial)

theorem decRspKids_ok (acc : List String) (ks : List Xml) (kids : List RspKid)
    (h : decRspKids C fuel acc ks = .ok kids) : ∀ k ∈ kids, KidOk k := by
  induction ks generalizing kids with
  | nil => unfold decRspKids at h; cases h; intro k hk; cases hk
  | cons x xs ih =>
    unfold decRspKids at h
    split at h
    · cases h; intro k hk; cases hk
    · rename_i heq; cases heq; exact ih _ h
    · rename_i k0 ks0 _ heq
      cases heq
      split at h
      · cases h
      · obtain ⟨x1, hx1, h⟩ := bind_eq_ok h
        obtain ⟨rest, hrest, h⟩ := bind_eq_ok h
        cases h
        intro k hk
        rcases List.mem_cons.mp hk with hk | hk
        · subst hk
          split at hx1
          · exact decError_ok C fuel _ _ hx1
          · split at hx1
            · obtain ⟨vs, _, hx1⟩ := bind_eq_ok hx1
              cases hx1; trivial
            · split at hx1
              · exact decReturnValue_ok C fuel _ _ hx1
              · exact decParamValue_ok C fuel _ _ hx1
        · exact ih _ hrest k hk


theorem decResponseElem_ok (t : Xml) (r : Rsp) (h : decResponseElem C fuel t = .ok r) : ∀ k ∈ r.kids, KidOk k := by
  unfold decResponseElem at h
  split at h
  · cases h
  · split at h
    · obtain ⟨a, _, h⟩ := bind_eq_ok h
      obtain ⟨kids, hk, h⟩ := bind_eq_ok h
      cases h; exact decRspKids_ok C fuel _ _ _ hk
    · split at h
      · obtain ⟨a, _, h⟩ := bind_eq_ok h
        obtain ⟨kids, hk, h⟩ := bind_eq_ok h
        cases h; exact decRspKids_ok C fuel _ _ _ hk
      · split at h
        · obtain ⟨a, _, h⟩ := bind_eq_ok h
          obtain ⟨kids, hk, h⟩ := bind_eq_ok h
          cases h; exact decRspKids_ok C fuel _ _ _ hk
        · cases h

def MsgOk : Msg → Prop
  | .simplersp r => ∀ k ∈ r.kids, KidOk k
  | .simpleexprsp r => ∀ k ∈ r.kids, KidOk k
  | _ => True

theorem decMessage_ok (t : Xml) (m : Msg) (h : decMessage C fuel t = .ok m) : MsgOk m := by
  unfold decMessage at h
  obtain ⟨a, _, h⟩ := bind_eq_ok h
  dsimp only at h
  split at h
  · cases h
  · obtain ⟨k, _, h⟩ := bind_eq_ok h
    split at h
    · obtain ⟨b, _, h⟩ := bind_eq_ok h
      obtain ⟨c, _, h⟩ := bind_eq_ok h
      obtain ⟨r, hr, h⟩ := bind_eq_ok h
      cases h; exact decResponseElem_ok C fuel _ _ hr
    · split at h
      · obtain ⟨b, _, h⟩ := bind_eq_ok h
        obtain ⟨c, _, h⟩ := bind_eq_ok h
        obtain ⟨r, hr, h⟩ := bind_eq_ok h
        cases h; exact decResponseElem_ok C fuel _ _ hr
      · split at h
        · obtain ⟨b, _, h⟩ := bind_eq_ok h
          cases h; trivial
        · split at h
          · obtain ⟨b, _, h⟩ := bind_eq_ok h
            cases h; trivial
          · cases h

theorem decCim_ok (t : Xml) (m : Msg) (h : decCim C fuel t = .ok m) : MsgOk m := by
  unfold decCim at h
  obtain ⟨a, _, h⟩ := bind_eq_ok h
  dsimp only at h
  split at h
  · cases h
  · split at h
    · cases h
    · obtain ⟨k, _, h⟩ := bind_eq_ok h
      split at h
      · exact decMessage_ok C fuel _ _ h
      · obtain ⟨b, _, h⟩ := bind_eq_ok h
        cases h; trivial

omit C fuel in
theorem responseKids_ok (a b : String) (meth : Str) (m : Msg) (hm : MsgOk m) (kids : List RspKid)
    (h : responseKids a b meth m = .ok kids) : ∀ k ∈ kids, KidOk k := by
  unfold responseKids at h
  split at h
  · cases h
  · cases h
  · split at h
    · cases h
    · split at h
      · cases h
      · split at h
        · cases h
        · cases h; exact hm
  · split at h
    · cases h
    · split at h
      · cases h
      · split at h
        · cases h
        · cases h; exact hm

omit C fuel in
theorem responseKids_safe (a b : String) (meth : Str) (m : Msg) : Safe Doc (responseKids a b meth m) := by
  unfold responseKids; safe

/-- `raise CIMError(int(CODE))` cannot leak ValueError once parse_error has accepted the CODE -/
theorem raiseCimError_safe (code : Str) (h : ∃ v, pyIntLim code = some v) : Safe Doc (raiseCimError code) := by
  obtain ⟨v, hv⟩ := h
  unfold raiseCimError pyIntE
  simp only [hv]
  exact Safe.error (Or.inl ⟨_, rfl⟩)

theorem imethodResult_safe (op : OpSpec) (kids : List RspKid) (hk : ∀ k ∈ kids, KidOk k) :
    Safe Doc (imethodResult op kids) := by
  unfold imethodResult
  split
  · rename_i code d i rest
    exact raiseCimError_safe code (hk _ (List.mem_cons_self))
  · safe

end

/-! ### result handling: only CIMXMLParseError -/

section
variable {P : PyExc → Prop}

theorem allInst_safe [Allows P] (l : List PV) : Safe P (allInst l) := by
  fun_induction allInst l <;> safe
macro_rules | `(tactic| safe_leaf) => `(tactic| exact allInst_safe _)
theorem allInstWithPath_safe [Allows P] (l : List PV) : Safe P (allInstWithPath l) := by
  fun_induction allInstWithPath l <;> safe
macro_rules | `(tactic| safe_leaf) => `(tactic| exact allInstWithPath_safe _)
theorem allInstPaths_safe [Allows P] (l : List PV) : Safe P (allInstPaths l) := by
  fun_induction allInstPaths l <;> safe
macro_rules | `(tactic| safe_leaf) => `(tactic| exact allInstPaths_safe _)
theorem allClassPaths_safe [Allows P] (l : List PV) : Safe P (allClassPaths l) := by
  fun_induction allClassPaths l <;> safe
macro_rules | `(tactic| safe_leaf) => `(tactic| exact allClassPaths_safe _)
theorem allClasses_safe [Allows P] (l : List PV) : Safe P (allClasses l) := by
  fun_induction allClasses l <;> safe
macro_rules | `(tactic| safe_leaf) => `(tactic| exact allClasses_safe _)
theorem allQdecls_safe [Allows P] (l : List PV) : Safe P (allQdecls l) := by
  fun_induction allQdecls l <;> safe
macro_rules | `(tactic| safe_leaf) => `(tactic| exact allQdecls_safe _)
theorem unpackObjectElements_safe [Allows P] (l : List PV) : Safe P (unpackObjectElements l) := by
  fun_induction unpackObjectElements l <;> safe
macro_rules | `(tactic| safe_leaf) => `(tactic| exact unpackObjectElements_safe _)
theorem allPairs_safe [Allows P] (l : List PV) : Safe P (allPairs l) := by
  fun_induction allPairs l <;> safe
macro_rules | `(tactic| safe_leaf) => `(tactic| exact allPairs_safe _)

theorem rsltLoop_safe [Allows P] (l : List RspKid) (st : List PV × Bool × Bool × Option Str × Bool) :
    Safe P (rsltLoop l st) := by
  fun_induction rsltLoop l st <;> safe
macro_rules | `(tactic| safe_leaf) => `(tactic| exact rsltLoop_safe _ _)

theorem getRsltParams_safe [Allows P] (kids : List RspKid) (check : List PV → R Unit) (hc : ∀ o, Safe P (check o)) :
    Safe P (getRsltParams kids check) := by
  unfold getRsltParams; safe
  exact hc _

theorem findQueryResultClass_safe [Allows P] (l : List RspKid) : Safe P (findQueryResultClass l) := by
  fun_induction findQueryResultClass l <;> safe
macro_rules | `(tactic| safe_leaf) => `(tactic| exact findQueryResultClass_safe _)
end

section
variable (C : EnvCodec)

theorem outLoop_safe (l : List RspKid) : Safe Doc (methodResult.outLoop C l) := by
  fun_induction methodResult.outLoop C l <;> safe
macro_rules | `(tactic| safe_leaf) => `(tactic| exact outLoop_safe _ _)

theorem methodResult_safe (kids : List RspKid) (hk : ∀ k ∈ kids, KidOk k) : Safe Doc (methodResult C kids) := by
  unfold methodResult
  split
  · rename_i code d i rest
    apply Safe.bind (raiseCimError_safe code (hk _ (List.mem_cons_self)))
    intro _; exact Safe.perr
  · safe

theorem postProcess_safe (op : OpSpec) (kids : List RspKid) (hk : ∀ k ∈ kids, KidOk k) :
    Safe Doc (postProcess C op kids) := by
  unfold postProcess
  dsimp only
  split
  all_goals first
    | exact methodResult_safe C kids hk
    | (safe; done)
    | skip
  all_goals
    (apply Safe.bind
     · apply getRsltParams_safe; intro o; safe
     · intro p; safe)


theorem imethodResult_eq (op : OpSpec) (kids k2 : List RspKid) (h : imethodResult op kids = .ok k2) : k2 = kids := by
  unfold imethodResult at h
  split at h
  · unfold raiseCimError at h
    obtain ⟨c, _, h⟩ := bind_eq_ok h
    cases h
  · split at h
    · cases h
    · split at h
      · cases h
      · split at h
        · cases h
        · split at h
          · cases h
          · cases h; rfl

theorem handleResponse_safe (hC : CodecOk C.toDecCodec) (fuel : Nat) (op : OpSpec) (t : Xml) :
    Safe Doc (handleResponse C fuel op t) := by
  unfold handleResponse
  apply Safe.bind' (Safe.mono EE_Doc (decCim_safe C hC fuel t))
  intro m hm
  have hmok := decCim_ok C fuel t m hm
  split
  · apply Safe.bind' (responseKids_safe _ _ _ _); intro kids hk
    have hko := responseKids_ok _ _ _ m hmok kids hk
    apply Safe.bind' (imethodResult_safe op kids hko); intro k2 hk2
    have := imethodResult_eq op kids k2 hk2
    subst this
    exact postProcess_safe C op _ hko
  · apply Safe.bind' (responseKids_safe _ _ _ _); intro kids hk
    have hko := responseKids_ok _ _ _ m hmok kids hk
    exact methodResult_safe C kids hko
  · apply Safe.bind' (responseKids_safe _ _ _ _); intro kids hk
    have hko := responseKids_ok _ _ _ m hmok kids hk
    split
    · rename_i code d i rest
      apply Safe.bind (raiseCimError_safe code (hko _ (List.mem_cons_self)))
      intro _; exact Safe.perr
    · exact Safe.pure _
    · exact Safe.perr

end
end Proofs.C02
