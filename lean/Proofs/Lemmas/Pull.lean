/-
Helper lemmas for C14 (pull sessions): table operations, the state invariant,
and the observable-history relation.
-/
import Pywbem.Model.Pull

set_option linter.unusedSimpArgs false

namespace Proofs.Pull
open Pywbem.Model.Pull Pywbem.Proto

/-! ### table lemmas -/

theorem lookup_some {cs : List Ctx} {i : Nat} {c : Ctx} (h : lookup cs i = some c) :
    c ∈ cs ∧ c.id = i := by
  unfold lookup at h
  have h1 := List.mem_of_find?_eq_some h
  have h2 := List.find?_some h
  exact ⟨h1, by simpa using h2⟩

theorem lookup_none {cs : List Ctx} {i : Nat} (h : lookup cs i = none) :
    ∀ c ∈ cs, c.id ≠ i := by
  unfold lookup at h
  intro c hc
  have := List.find?_eq_none.mp h c hc
  simpa using this

theorem mem_remove {cs : List Ctx} {i : Nat} {c : Ctx} :
    c ∈ remove cs i ↔ c ∈ cs ∧ c.id ≠ i := by
  unfold remove; simp

theorem mem_replaceData {cs : List Ctx} {i : Nat} {d : List Obj} {c' : Ctx} :
    c' ∈ replaceData cs i d ↔
      ∃ c ∈ cs, c' = (if c.id == i then { c with data := d } else c) := by
  unfold replaceData
  simp only [List.mem_map]
  constructor
  · rintro ⟨c, hc, rfl⟩; exact ⟨c, hc, rfl⟩
  · rintro ⟨c, hc, rfl⟩; exact ⟨c, hc, rfl⟩

/-- ids in the table are pairwise distinct -/
def UniqueIds (cs : List Ctx) : Prop := ∀ c1 ∈ cs, ∀ c2 ∈ cs, c1.id = c2.id → c1 = c2

theorem uniqueIds_remove {cs : List Ctx} (i : Nat) (h : UniqueIds cs) : UniqueIds (remove cs i) := by
  intro c1 h1 c2 h2 e
  exact h c1 (mem_remove.mp h1).1 c2 (mem_remove.mp h2).1 e

theorem uniqueIds_replaceData {cs : List Ctx} (i : Nat) (d : List Obj) (h : UniqueIds cs) :
    UniqueIds (replaceData cs i d) := by
  intro c1 h1 c2 h2 e
  obtain ⟨a, ha, rfl⟩ := mem_replaceData.mp h1
  obtain ⟨b, hb, rfl⟩ := mem_replaceData.mp h2
  have hid : a.id = b.id := by
    by_cases x : a.id == i <;> by_cases y : b.id == i <;> simp [x, y] at e <;> simp_all
  have := h a ha b hb hid
  subst this; rfl

theorem uniqueIds_append_fresh {cs : List Ctx} {c : Ctx} (h : UniqueIds cs)
    (hf : ∀ x ∈ cs, x.id ≠ c.id) : UniqueIds (cs ++ [c]) := by
  intro c1 h1 c2 h2 e
  simp at h1 h2
  rcases h1 with h1 | h1 <;> rcases h2 with h2 | h2
  · exact h c1 h1 c2 h2 e
  · subst h2; exact absurd e (hf c1 h1)
  · subst h1; exact absurd e.symm (hf c2 h2)
  · subst h1; subst h2; rfl

/-! ### the state invariant -/

structure Inv (s : State) : Prop where
  uniq  : UniqueIds s.ctxs
  below : ∀ c ∈ s.ctxs, c.id < s.nextId
  nonempty : ∀ c ∈ s.ctxs, c.data ≠ []

theorem inv_init (nss : List Nat) : Inv { nss := nss } :=
  ⟨by intro c1 h1; simp at h1, by intro c h; simp at h, by intro c h; simp at h⟩

theorem drop_ne_nil {α} {l : List α} {m : Nat} (h : ¬ l.length ≤ m) : l.drop m ≠ [] := by
  intro e
  have := List.drop_eq_nil_iff.mp e
  exact h this

theorem inv_step {s : State} (op : Op) (h : Inv s) : Inv (step s op).1 := by
  cases op with
  | «open» p k ns objs max =>
    simp only [step, stepOpen]
    by_cases h1 : (badMax max || badTimeout p.timeout) <;> simp only [h1, if_true, if_false] <;> try exact h
    by_cases h2 : s.disabled <;> simp only [h2, if_true, if_false] <;> try exact h
    by_cases h3 : !(s.nss.contains ns) <;> simp only [h3, if_true, if_false] <;> try exact h
    cases hp : paramErr p with
    | some e => exact h
    | none =>
    simp only
    by_cases h4 : objs.length ≤ effMax max <;> simp only [h4, if_true, if_false] <;> try exact h
    refine ⟨?_, ?_, ?_⟩
    · apply uniqueIds_append_fresh h.uniq
      intro x hx; have := h.below x hx; simp; omega
    · intro c hc; simp at hc
      rcases hc with hc | hc
      · have := h.below c hc; simp; omega
      · subst hc; simp
    · intro c hc; simp at hc
      rcases hc with hc | hc
      · exact h.nonempty c hc
      · subst hc; exact drop_ne_nil h4
  | pull k ctx max =>
    simp only [step, stepPull]
    cases ctx with
    | none => exact h
    | some i =>
      simp only
      by_cases h1 : badMax max <;> simp only [h1, if_true, if_false] <;> try exact h
      by_cases h2 : s.disabled <;> simp only [h2, if_true, if_false] <;> try exact h
      cases hl : lookup s.ctxs i with
      | none => exact h
      | some c =>
        simp only
        by_cases h3 : !(s.nss.contains c.ns) <;> simp only [h3, if_true, if_false] <;> try exact h
        by_cases h4 : c.kind != k <;> simp only [h4, if_true, if_false] <;> try exact h
        by_cases h5 : c.data.length ≤ effMax max <;> simp only [h5, if_true, if_false]
        · exact ⟨uniqueIds_remove i h.uniq,
            fun x hx => h.below x (mem_remove.mp hx).1,
            fun x hx => h.nonempty x (mem_remove.mp hx).1⟩
        · refine ⟨uniqueIds_replaceData i _ h.uniq, ?_, ?_⟩
          · intro x hx
            obtain ⟨a, ha, rfl⟩ := mem_replaceData.mp hx
            have := h.below a ha
            by_cases e : a.id == i <;> simp [e] <;> exact this
          · intro x hx
            obtain ⟨a, ha, rfl⟩ := mem_replaceData.mp hx
            by_cases e : a.id == i
            · simp only [e, if_true]
              exact drop_ne_nil h5
            · simp only [e]; exact h.nonempty a ha
  | close ctx =>
    simp only [step, stepClose]
    cases ctx with
    | none => exact h
    | some i =>
      simp only
      by_cases h2 : s.disabled <;> simp only [h2, if_true, if_false] <;> try exact h
      cases hl : lookup s.ctxs i with
      | none => exact h
      | some c =>
        exact ⟨uniqueIds_remove i h.uniq,
            fun x hx => h.below x (mem_remove.mp hx).1,
            fun x hx => h.nonempty x (mem_remove.mp hx).1⟩
  | addNs ns =>
    simp only [step]
    by_cases e : s.nss.contains ns <;> simp only [e, if_true, if_false] <;> exact ⟨h.uniq, h.below, h.nonempty⟩
  | removeNs ns => exact ⟨h.uniq, h.below, h.nonempty⟩
  | setDisabled b => exact ⟨h.uniq, h.below, h.nonempty⟩

theorem inv_run {s : State} (ops : List Op) (h : Inv s) : Inv (run s ops).1 := by
  induction ops generalizing s with
  | nil => exact h
  | cons op ops ih => exact ih (inv_step op h)

end Proofs.Pull

namespace Proofs.Pull
open Pywbem.Model.Pull Pywbem.Proto

/-! ### case analysis of the three step functions (every branch of the Python code once) -/

def openedState (s : State) (k : Kind) (ns : Nat) (objs : List Obj) (max : Option Int) : State :=
  { s with ctxs := s.ctxs ++ [{ id := s.nextId, kind := k, ns := ns, data := objs.drop (effMax max) }],
           nextId := s.nextId + 1 }

theorem stepOpen_cases (s : State) (p : OpenParams) (k : Kind) (ns : Nat) (objs : List Obj) (max : Option Int) :
    (∃ e, stepOpen s p k ns objs max = (s, .err e)) ∨
    (objs.length ≤ effMax max ∧ stepOpen s p k ns objs max = (s, .batch objs true none)) ∨
    (¬ objs.length ≤ effMax max ∧ stepOpen s p k ns objs max =
      (openedState s k ns objs max, .batch (objs.take (effMax max)) false (some s.nextId))) := by
  unfold stepOpen openedState
  by_cases h1 : (badMax max || badTimeout p.timeout) = true
  · left; exact ⟨.valueError, by simp only [h1, if_true]⟩
  by_cases h2 : s.disabled = true
  · left; exact ⟨.cimError CIM_ERR_NOT_SUPPORTED, by simp only [h1, h2, if_true]; simp⟩
  by_cases h3 : ns ∈ s.nss
  · cases hp : paramErr p with
    | some e => left; exact ⟨e, by simp [h1, h2, h3]⟩
    | none =>
      by_cases h4 : objs.length ≤ effMax max
      · right; left; exact ⟨h4, by simp [h1, h2, h3, h4]⟩
      · right; right; exact ⟨h4, by simp [h1, h2, h3, h4]⟩
  · left; exact ⟨.cimError CIM_ERR_INVALID_NAMESPACE, by simp [h1, h2, h3]⟩

/-- the guard under which a pull reaches the slicing code -/
def pullReady (s : State) (k : Kind) (i : Nat) (max : Option Int) (c : Ctx) : Prop :=
  badMax max = false ∧ s.disabled = false ∧ lookup s.ctxs i = some c ∧
  c.ns ∈ s.nss ∧ c.kind = k

theorem stepPull_cases (s : State) (k : Kind) (i : Nat) (max : Option Int) :
    (∃ e, stepPull s k (some i) max = (s, .err e)) ∨
    (∃ c, pullReady s k i max c ∧ c.data.length ≤ effMax max ∧
        stepPull s k (some i) max = ({ s with ctxs := remove s.ctxs i }, .batch c.data true none)) ∨
    (∃ c, pullReady s k i max c ∧ ¬ c.data.length ≤ effMax max ∧
        stepPull s k (some i) max =
          ({ s with ctxs := replaceData s.ctxs i (c.data.drop (effMax max)) },
           .batch (c.data.take (effMax max)) false (some i))) := by
  unfold stepPull pullReady
  by_cases h1 : badMax max = true
  · left; exact ⟨.valueError, by simp [h1]⟩
  by_cases h2 : s.disabled = true
  · left; exact ⟨.cimError CIM_ERR_NOT_SUPPORTED, by simp [h1, h2]⟩
  cases hl : lookup s.ctxs i with
  | none => left; exact ⟨.cimError CIM_ERR_INVALID_ENUMERATION_CONTEXT, by simp [h1, h2, hl]⟩
  | some c =>
    by_cases h3 : c.ns ∈ s.nss
    · by_cases h4 : c.kind = k
      · by_cases h5 : c.data.length ≤ effMax max
        · right; left; exact ⟨c, ⟨by simpa using h1, by simpa using h2, rfl, h3, h4⟩, h5,
            by simp [h1, h2, hl, h3, h4, h5]⟩
        · right; right; exact ⟨c, ⟨by simpa using h1, by simpa using h2, rfl, h3, h4⟩, h5,
            by simp [h1, h2, hl, h3, h4, h5]⟩
      · left; exact ⟨.cimError CIM_ERR_INVALID_ENUMERATION_CONTEXT, by simp [h1, h2, hl, h3, h4]⟩
    · left; exact ⟨.cimError CIM_ERR_INVALID_NAMESPACE, by simp [h1, h2, hl, h3]⟩

theorem stepClose_cases (s : State) (i : Nat) :
    (∃ e, stepClose s (some i) = (s, .err e)) ∨
    (∃ c, s.disabled = false ∧ lookup s.ctxs i = some c ∧
        stepClose s (some i) = ({ s with ctxs := remove s.ctxs i }, .done)) := by
  unfold stepClose
  by_cases h2 : s.disabled = true
  · left; exact ⟨.cimError CIM_ERR_NOT_SUPPORTED, by simp [h2]⟩
  cases hl : lookup s.ctxs i with
  | none => left; exact ⟨.cimError CIM_ERR_INVALID_ENUMERATION_CONTEXT, by simp [h2, hl]⟩
  | some c => right; exact ⟨c, by simpa using h2, rfl, by simp [h2, hl]⟩

/-! ### observable history: what a client can compute from (op, out) pairs alone -/

inductive Status where
  | none | opened | eos | closed
  deriving DecidableEq, Repr

/-- per context id: the result set the Open started from, everything delivered so far, status -/
structure Hist where
  orig : Nat → List Obj
  del  : Nat → List Obj
  st   : Nat → Status

def Hist.empty : Hist := ⟨fun _ => [], fun _ => [], fun _ => .none⟩

def upd {α} (f : Nat → α) (i : Nat) (v : α) : Nat → α := fun j => if j = i then v else f j

@[simp] theorem upd_same {α} (f : Nat → α) (i : Nat) (v : α) : upd f i v i = v := by simp [upd]
theorem upd_other {α} (f : Nat → α) {i j : Nat} (v : α) (h : j ≠ i) : upd f i v j = f j := by
  simp [upd, h]

/-- history update from one observable (op, out) pair -/
def histStep (h : Hist) (op : Op) (out : Out) : Hist :=
  match op, out with
  | .open _ _ _ objs _, .batch b false (some i) => ⟨upd h.orig i objs, upd h.del i b, upd h.st i .opened⟩
  | .pull _ (some i) _, .batch b eos _ =>
      ⟨h.orig, upd h.del i (h.del i ++ b), upd h.st i (if eos then .eos else .opened)⟩
  | .close (some i), .done => ⟨h.orig, h.del, upd h.st i .closed⟩
  | _, _ => h

/-- run with history -/
def runH (s : State) (h : Hist) : List Op → State × Hist
  | [] => (s, h)
  | op :: ops =>
    let r := step s op
    runH r.1 (histStep h op r.2) ops

structure Rel (s : State) (h : Hist) : Prop where
  live   : ∀ c ∈ s.ctxs, h.st c.id = .opened ∧ h.del c.id ++ c.data = h.orig c.id
  opened : ∀ i, h.st i = .opened → ∃ c ∈ s.ctxs, c.id = i
  eos    : ∀ i, h.st i = .eos → h.del i = h.orig i
  closed : ∀ i, h.st i = .closed → h.del i <+: h.orig i
  fresh  : ∀ i, s.nextId ≤ i → h.st i = .none

theorem rel_init (nss : List Nat) : Rel { nss := nss } Hist.empty :=
  ⟨by intro c h; simp at h, by intro i h; simp [Hist.empty] at h,
   by intro i h; simp [Hist.empty] at h, by intro i h; simp [Hist.empty] at h,
   by intro i _; rfl⟩

theorem rel_of_same_tables {s s' : State} {h : Hist} (hr : Rel s h)
    (e1 : s'.ctxs = s.ctxs) (e2 : s'.nextId = s.nextId) : Rel s' h :=
  ⟨by rw [e1]; exact hr.live, by rw [e1]; exact hr.opened, hr.eos, hr.closed, by rw [e2]; exact hr.fresh⟩

theorem rel_open {s : State} {h : Hist} (k : Kind) (ns : Nat) (objs : List Obj) (max : Option Int)
    (hi : Inv s) (hr : Rel s h) (h4 : ¬ objs.length ≤ effMax max) :
    Rel (openedState s k ns objs max)
      ⟨upd h.orig s.nextId objs, upd h.del s.nextId (objs.take (effMax max)), upd h.st s.nextId .opened⟩ := by
  unfold openedState
  refine ⟨?_, ?_, ?_, ?_, ?_⟩
  · intro c hc
    simp only [List.mem_append, List.mem_singleton] at hc
    rcases hc with hc | hc
    · have hb := hi.below c hc
      have hne : c.id ≠ s.nextId := by omega
      simp only [upd_other _ _ hne]
      exact hr.live c hc
    · subst hc; simp
  · intro i hst
    by_cases e : i = s.nextId
    · subst e
      exact ⟨{ id := s.nextId, kind := k, ns := ns, data := objs.drop (effMax max) }, by simp, rfl⟩
    · simp only [upd_other _ _ e] at hst
      obtain ⟨c, hc, hid⟩ := hr.opened i hst
      exact ⟨c, by simp [hc], hid⟩
  · intro i hst
    by_cases e : i = s.nextId
    · subst e; simp at hst
    · simp only [upd_other _ _ e] at hst ⊢; exact hr.eos i hst
  · intro i hst
    by_cases e : i = s.nextId
    · subst e; simp at hst
    · simp only [upd_other _ _ e] at hst ⊢; exact hr.closed i hst
  · intro i hle
    simp only at hle
    have e : i ≠ s.nextId := by omega
    simp only [upd_other _ _ e]
    exact hr.fresh i (by omega)

theorem rel_pull_eos {s : State} {h : Hist} {i : Nat} {c : Ctx}
    (hi : Inv s) (hr : Rel s h) (hl : lookup s.ctxs i = some c) :
    Rel { s with ctxs := remove s.ctxs i }
      ⟨h.orig, upd h.del i (h.del i ++ c.data), upd h.st i .eos⟩ := by
  obtain ⟨hc, hid⟩ := lookup_some hl
  obtain ⟨hst, hdel⟩ := hr.live c hc
  rw [hid] at hst hdel
  refine ⟨?_, ?_, ?_, ?_, ?_⟩
  · intro x hx
    obtain ⟨hx1, hx2⟩ := mem_remove.mp hx
    simp only [upd_other _ _ hx2]; exact hr.live x hx1
  · intro j hj
    by_cases e : j = i
    · subst e; simp at hj
    · simp only [upd_other _ _ e] at hj
      obtain ⟨x, hx, hxi⟩ := hr.opened j hj
      exact ⟨x, mem_remove.mpr ⟨hx, by omega⟩, hxi⟩
  · intro j hj
    by_cases e : j = i
    · subst e; simp [hdel]
    · simp only [upd_other _ _ e] at hj ⊢; exact hr.eos j hj
  · intro j hj
    by_cases e : j = i
    · subst e; simp at hj
    · simp only [upd_other _ _ e] at hj ⊢; exact hr.closed j hj
  · intro j hj
    simp only at hj
    have := hi.below c hc
    have e : j ≠ i := by omega
    simp only [upd_other _ _ e]; exact hr.fresh j hj

theorem rel_pull_more {s : State} {h : Hist} {i : Nat} {c : Ctx} (m : Nat)
    (hi : Inv s) (hr : Rel s h) (hl : lookup s.ctxs i = some c) :
    Rel { s with ctxs := replaceData s.ctxs i (c.data.drop m) }
      ⟨h.orig, upd h.del i (h.del i ++ c.data.take m), upd h.st i .opened⟩ := by
  obtain ⟨hc, hid⟩ := lookup_some hl
  obtain ⟨hst, hdel⟩ := hr.live c hc
  rw [hid] at hst hdel
  refine ⟨?_, ?_, ?_, ?_, ?_⟩
  · intro x hx
    obtain ⟨a, ha, rfl⟩ := mem_replaceData.mp hx
    by_cases e : a.id == i
    · have e' : a.id = i := by simpa using e
      have : a = c := hi.uniq a ha c hc (by omega)
      subst this
      subst e'
      simp [List.append_assoc, hdel]
    · have e' : a.id ≠ i := by simpa using e
      have e2 : (a.id == i) = false := by simp [e']
      simp only [e2, Bool.false_eq_true, if_false, upd_other _ _ e']
      exact hr.live a ha
  · intro j hj
    by_cases e : j = i
    · subst e
      exact ⟨_, mem_replaceData.mpr ⟨c, hc, rfl⟩, by simp [hid]⟩
    · simp only [upd_other _ _ e] at hj
      obtain ⟨x, hx, hxi⟩ := hr.opened j hj
      refine ⟨x, mem_replaceData.mpr ⟨x, hx, ?_⟩, hxi⟩
      have : (x.id == i) = false := by simp; omega
      simp [this]
  · intro j hj
    by_cases e : j = i
    · subst e; simp at hj
    · simp only [upd_other _ _ e] at hj ⊢; exact hr.eos j hj
  · intro j hj
    by_cases e : j = i
    · subst e; simp at hj
    · simp only [upd_other _ _ e] at hj ⊢; exact hr.closed j hj
  · intro j hj
    simp only at hj
    have := hi.below c hc
    have e : j ≠ i := by omega
    simp only [upd_other _ _ e]; exact hr.fresh j hj

theorem rel_close {s : State} {h : Hist} {i : Nat} {c : Ctx}
    (hi : Inv s) (hr : Rel s h) (hl : lookup s.ctxs i = some c) :
    Rel { s with ctxs := remove s.ctxs i } ⟨h.orig, h.del, upd h.st i .closed⟩ := by
  obtain ⟨hc, hid⟩ := lookup_some hl
  obtain ⟨hst, hdel⟩ := hr.live c hc
  rw [hid] at hst hdel
  refine ⟨?_, ?_, ?_, ?_, ?_⟩
  · intro x hx
    obtain ⟨hx1, hx2⟩ := mem_remove.mp hx
    simp only [upd_other _ _ hx2]; exact hr.live x hx1
  · intro j hj
    by_cases e : j = i
    · subst e; simp at hj
    · simp only [upd_other _ _ e] at hj
      obtain ⟨x, hx, hxi⟩ := hr.opened j hj
      exact ⟨x, mem_remove.mpr ⟨hx, by omega⟩, hxi⟩
  · intro j hj
    by_cases e : j = i
    · subst e; simp at hj
    · simp only [upd_other _ _ e] at hj; exact hr.eos j hj
  · intro j hj
    by_cases e : j = i
    · subst e; exact ⟨c.data, hdel⟩
    · simp only [upd_other _ _ e] at hj; exact hr.closed j hj
  · intro j hj
    simp only at hj
    have := hi.below c hc
    have e : j ≠ i := by omega
    simp only [upd_other _ _ e]; exact hr.fresh j hj

theorem rel_step {s : State} {h : Hist} (op : Op) (hi : Inv s) (hr : Rel s h) :
    Rel (step s op).1 (histStep h op (step s op).2) := by
  cases op with
  | «open» p k ns objs max =>
    simp only [step]
    rcases stepOpen_cases s p k ns objs max with ⟨e, he⟩ | ⟨_, he⟩ | ⟨h4, he⟩
    · rw [he]; exact hr
    · rw [he]; exact hr
    · rw [he]; exact rel_open k ns objs max hi hr h4
  | pull k ctx max =>
    simp only [step]
    cases ctx with
    | none => exact hr
    | some i =>
      rcases stepPull_cases s k i max with ⟨e, he⟩ | ⟨c, hp, _, he⟩ | ⟨c, hp, _, he⟩
      · rw [he]; exact hr
      · rw [he]; exact rel_pull_eos hi hr hp.2.2.1
      · rw [he]; exact rel_pull_more _ hi hr hp.2.2.1
  | close ctx =>
    simp only [step]
    cases ctx with
    | none => exact hr
    | some i =>
      rcases stepClose_cases s i with ⟨e, he⟩ | ⟨c, _, hl, he⟩
      · rw [he]; exact hr
      · rw [he]; exact rel_close hi hr hl
  | addNs ns =>
    simp only [step, histStep]
    by_cases e : s.nss.contains ns = true
    · simp only [e, if_true]; exact hr
    · simp only [e]; exact rel_of_same_tables hr rfl rfl
  | removeNs ns => exact rel_of_same_tables hr rfl rfl
  | setDisabled b => exact rel_of_same_tables hr rfl rfl

theorem rel_run {s : State} {h : Hist} (ops : List Op) (hi : Inv s) (hr : Rel s h) :
    Inv (runH s h ops).1 ∧ Rel (runH s h ops).1 (runH s h ops).2 := by
  induction ops generalizing s h with
  | nil => exact ⟨hi, hr⟩
  | cons op ops ih => exact ih (inv_step op hi) (rel_step op hi hr)

theorem runH_state (s : State) (h : Hist) (ops : List Op) : (runH s h ops).1 = (run s ops).1 := by
  induction ops generalizing s h with
  | nil => rfl
  | cons op ops ih => simp only [runH, run]; exact ih _ _

end Proofs.Pull
