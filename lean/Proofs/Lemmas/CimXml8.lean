/-
C01 — qualifier declarations and the object-level round trip for every object kind (`rt_obj`).
-/
import Proofs.Lemmas.CimXml7

set_option linter.unusedSimpArgs false
set_option linter.unusedVariables false
set_option linter.unusedSectionVars false

namespace Proofs.CimXml
open Pywbem.Model Pywbem.Model.XmlText Pywbem.Proto

/-! ### SCOPE -/

theorem mem_insertSorted {p x : Str × Str} {l : List (Str × Str)} (h : x ∈ insertSorted p l) : x = p ∨ x ∈ l := by
  induction l with
  | nil => simp [insertSorted] at h; exact Or.inl h
  | cons q qs ih =>
    simp only [insertSorted] at h
    split at h
    · simp at h; rcases h with h | h | h
      · exact Or.inl h
      · exact Or.inr (by simp [h])
      · exact Or.inr (by simp [h])
    · simp at h; rcases h with h | h
      · exact Or.inr (by simp [h])
      · rcases ih h with h | h
        · exact Or.inl h
        · exact Or.inr (by simp [h])

theorem mem_foldr_insertSorted {x : Str × Str} {l : List (Str × Str)} (h : x ∈ l.foldr insertSorted []) : x ∈ l := by
  induction l with
  | nil => simp at h
  | cons p l ih =>
    simp only [List.foldr_cons] at h
    rcases mem_insertSorted h with h | h
    · simp [h]
    · simp [ih h]

/-- every SCOPE attribute is one of the seven scope names with a `true`/`false` value -/
theorem scopeAttrList_ok (scopes : List (Str × Bool))
    (h : scopes.any (fun p => p.1.map Char.toLower == "any".toList && p.2) = true ∨
         ∀ p ∈ scopes, upperAscii p.1 ∈ scopeNames.map String.toList) :
    ∀ x ∈ scopeAttrList scopes, x.1 ∈ scopeNames.map String.toList ∧ ∃ b, x.2 = boolAttr b := by
  intro x hx
  unfold scopeAttrList at hx
  by_cases ha : scopes.any (fun p => p.1.map Char.toLower == "any".toList && p.2) = true
  · rw [if_pos ha] at hx
    simp only [List.mem_map] at hx
    obtain ⟨n, hn, rfl⟩ := hx
    exact ⟨List.mem_map.mpr ⟨n, hn, rfl⟩, true, rfl⟩
  · rw [if_neg ha] at hx
    have hx' := mem_foldr_insertSorted hx
    simp only [List.mem_map] at hx'
    obtain ⟨p, hp, rfl⟩ := hx'
    rcases h with h | h
    · exact absurd h ha
    · exact ⟨h p hp, p.2, rfl⟩

theorem decScopeAttrs_ok (l : List (Str × Str)) (h : ∀ x ∈ l, ∃ b, x.2 = boolAttr b) :
    decScopeAttrs l = .ok (l.map (fun p => (p.1, p.2 == "true".toList))) := by
  induction l with
  | nil => rfl
  | cons x l ih =>
    obtain ⟨k, v⟩ := x
    obtain ⟨b, hb⟩ := h (k, v) (by simp)
    simp only at hb
    subst hb
    have e : (boolAttr b == "true".toList) = b := by cases b <;> decide
    simp only [decScopeAttrs, unpackBoolean_boolAttr, bind_ok, ih (fun y hy => h y (by simp [hy])), pure_eq_ok,
      List.map_cons, e]

theorem checkNode_scope (attrs : List (Str × Str)) (h : ∀ x ∈ attrs, x.1 ∈ scopeNames.map String.toList) :
    checkNode (E "SCOPE" attrs []) "SCOPE" []
      ["CLASS", "ASSOCIATION", "REFERENCE", "PROPERTY", "METHOD", "PARAMETER", "INDICATION"] (some []) false =
      .ok (attrs, []) := by
  apply checkNode_ok_some _ _ _ _ _ _ _ _ rfl (Or.inr rfl)
  apply attrKeysOk_of
  · intro k hk; simp at hk
  · intro p hp
    have := h p hp
    simp only [scopeNames, List.map_cons, List.map_nil, List.mem_cons, List.not_mem_nil, or_false] at this
    simp only [List.nil_append, List.map_cons, List.map_nil, List.mem_cons, List.not_mem_nil, or_false]
    rcases this with h | h | h | h | h | h | h <;> simp [h]

/-! ### QUALIFIER.DECLARATION -/

def qdAttrs (q : QualDecl) : List (Str × Str) :=
  [("NAME".toList, q.name), ("TYPE".toList, q.ty)] ++ [("ISARRAY".toList, boolAttr q.isArray)] ++
    optAttr "ARRAYSIZE" (q.arraySize.map natToStr) ++ optBoolAttr "OVERRIDABLE" q.overridable ++
    optBoolAttr "TOSUBCLASS" q.tosubclass ++ optBoolAttr "TOINSTANCE" q.toinstance ++
    optBoolAttr "TRANSLATABLE" q.translatable

theorem encQualDecl_eq (C : Codec) (q : QualDecl) :
    encQualDecl C q = E "QUALIFIER.DECLARATION" (qdAttrs q) (encScope q.scopes ++ encVal C q.val) := rfl

theorem qdAttrs_keysOk (q : QualDecl) :
    attrKeysOk (qdAttrs q) ["NAME", "TYPE"]
      ["ISARRAY", "ARRAYSIZE", "OVERRIDABLE", "TOSUBCLASS", "TOINSTANCE", "TRANSLATABLE"] = true := by
  apply attrKeysOk_of
  · intro k hk; simp at hk; rcases hk with rfl | rfl <;> simp [qdAttrs, attr_append]
  · unfold qdAttrs
    refine keysIn_append (keysIn_append (keysIn_append (keysIn_append (keysIn_append (keysIn_append ?_ ?_) ?_) ?_) ?_) ?_) ?_
    · exact keysIn_cons (by simp) (keysIn_cons (by simp) (keysIn_nil _))
    · exact keysIn_cons (by simp) (keysIn_nil _)
    · exact keysIn_optAttr (by simp)
    all_goals exact keysIn_optBoolAttr (by simp)

theorem qdAttrs_NAME (q : QualDecl) : getAttrD (qdAttrs q) "NAME" "" = q.name := by
  simp [qdAttrs, getAttrD, attr_append]
theorem qdAttrs_TYPE (q : QualDecl) : getAttrD (qdAttrs q) "TYPE" "" = q.ty := by
  simp [qdAttrs, getAttrD, attr_append]
theorem qdAttrs_ISARRAY (q : QualDecl) : Xml.attr (qdAttrs q) "ISARRAY".toList = (some q.isArray).map boolAttr := by
  simp [qdAttrs, attr_append]
theorem qdAttrs_ASZ (q : QualDecl) : Xml.attr (qdAttrs q) "ARRAYSIZE".toList = q.arraySize.map natToStr := by
  cases h : q.arraySize <;> simp [qdAttrs, attr_append, h]
theorem qdAttrs_O (q : QualDecl) : Xml.attr (qdAttrs q) "OVERRIDABLE".toList = q.overridable.map boolAttr := by
  cases h : q.overridable <;> simp [qdAttrs, attr_append, h]
theorem qdAttrs_TS (q : QualDecl) : Xml.attr (qdAttrs q) "TOSUBCLASS".toList = q.tosubclass.map boolAttr := by
  cases h : q.tosubclass <;> simp [qdAttrs, attr_append, h]
theorem qdAttrs_TI (q : QualDecl) : Xml.attr (qdAttrs q) "TOINSTANCE".toList = q.toinstance.map boolAttr := by
  cases h : q.toinstance <;> simp [qdAttrs, attr_append, h]
theorem qdAttrs_TR (q : QualDecl) : Xml.attr (qdAttrs q) "TRANSLATABLE".toList = q.translatable.map boolAttr := by
  cases h : q.translatable <;> simp [qdAttrs, attr_append, h]

theorem filter_scope_of_allNames (l : List Xml) (names : List String) (h : AllNames l names)
    (hn : "SCOPE" ∉ names) : l.filter (fun k => k.name = "SCOPE".toList) = [] := by
  rw [List.filter_eq_nil_iff]
  intro k hk
  have := (h k hk).2
  simp only [decide_eq_true_eq]
  exact not_mem_names this hn

theorem any_notscope_of_allNames (l : List Xml) (names : List String) (h : AllNames l names)
    (hn : "SCOPE" ∉ names) : l.any (fun k => k.name ≠ "SCOPE".toList) = !l.isEmpty := by
  cases l with
  | nil => rfl
  | cons k l =>
    have := (h k (by simp)).2
    have hk : k.name ≠ "SCOPE".toList := not_mem_names this hn
    rw [List.any_cons, decide_eq_true hk]
    rfl

theorem qdArrayOk_wd (C : Codec) (x : Option Bool) (v : Val) : qdArrayOk x (wdVal C v) = qdArrayOk x v := by
  cases v <;> simp only [wdVal] <;> cases x <;> (try rfl) <;> (rename_i b; cases b <;> rfl)

theorem qdIsArray_some (b : Bool) (v : Val) : qdIsArray (some b) v = b := rfl
theorem qdArrayOk_null (x : Option Bool) : qdArrayOk x .null = true := by
  cases x with
  | none => rfl
  | some b => cases b <;> rfl

section
variable (C : DecCodec) (S : Spec) (hC : CodecOk C S)

include hC in
/-- **qualifier-declaration round trip** -/
theorem rt_qualdecl (q : QualDecl) (h : SendableQualDecl S q) :
    decQualDecl C (encQualDecl C.toCodec q) = .ok (wdQualDecl C.toCodec q) := by
  obtain ⟨hpl, hsc, hqt, hqa⟩ := h
  have hqa' : qdArrayOk (some q.isArray) (wdVal C.toCodec q.val) = true := by
    rw [qdArrayOk_wd]; exact hqa
  have hAv := allNames_encVal_plain C.toCodec S q.ty q.val hpl
  rw [encQualDecl_eq]
  by_cases hemp : q.scopes.isEmpty = true
  · -- no SCOPE child
    have hs : encScope q.scopes = [] := by simp only [encScope, hemp, if_true]
    rw [hs, List.nil_append]
    unfold decQualDecl
    rw [checkNode_ok_some "QUALIFIER.DECLARATION" _ _ _ _ _ false (qdAttrs_keysOk q)
      (kidsOk_of_allNames ["SCOPE", "VALUE", "VALUE.ARRAY"] hAv (by simp)) (Or.inr (noText_of_allNames hAv))]
    have hf := filter_scope_of_allNames _ _ hAv (by simp)
    have ha := any_notscope_of_allNames _ _ hAv (by simp)
    have hu := unpackValue_plain C S hC q.ty q.val hpl [] [] (allNames_nil _) (by simp) (by simp)
    rw [List.nil_append] at hu
    have hany : (encVal C.toCodec q.val).any (fun k => k.name ≠ "SCOPE".toList) = true ∨
        ((encVal C.toCodec q.val).any (fun k => k.name ≠ "SCOPE".toList) = false ∧ wdVal C.toCodec q.val = .null) := by
      rw [ha]
      cases hv : q.val with
      | null => right; simp [encVal, wdVal]
      | scalar a => rw [hv] at hpl; rw [encVal_scalar_plain C.toCodec S a q.ty hpl]; left; rfl
      | array l => left; simp [encVal]
    simp only [bind_ok, qdAttrs_TYPE, qdAttrs_NAME, elemKids_of_allNames hAv, hf,
      boolAttrOf_false _ "ISARRAY" (some q.isArray) (qdAttrs_ISARRAY q), arraySizeOf_ok _ _ (qdAttrs_ASZ q),
      boolAttrOf_true _ "OVERRIDABLE" _ (qdAttrs_O q), boolAttrOf_true _ "TOSUBCLASS" _ (qdAttrs_TS q),
      boolAttrOf_false _ "TOINSTANCE" _ (qdAttrs_TI q), boolAttrOf_false _ "TRANSLATABLE" _ (qdAttrs_TR q),
      pure_eq_ok, dBool, Option.getD_some, wdQualDecl, wdScopes, hemp, if_true]
    rcases hany with h | ⟨h, hn⟩
    · simp only [h, if_true, hu, bind_ok, hqa', hqt, Bool.not_true, Bool.false_eq_true, if_false, qdIsArray_some]
    · simp only [h, Bool.false_eq_true, if_false, hn, qdArrayOk_null, hqt, Bool.not_true, qdIsArray_some, bind_ok,
        pure_eq_ok]
  · -- one SCOPE child
    have hs : encScope q.scopes = [E "SCOPE" (scopeAttrList q.scopes) []] := by
      simp only [encScope, hemp, Bool.false_eq_true, if_false, scopeAttrList]
    rw [hs]
    have hok := scopeAttrList_ok q.scopes hsc
    have hAs : AllNames [E "SCOPE" (scopeAttrList q.scopes) []] ["SCOPE"] :=
      allNames_cons ⟨rfl, by simp [name_E]⟩ (allNames_nil _)
    have hAll : AllNames ([E "SCOPE" (scopeAttrList q.scopes) []] ++ encVal C.toCodec q.val)
        ["SCOPE", "VALUE", "VALUE.ARRAY"] :=
      allNames_append (allNames_mono hAs (by simp)) (allNames_mono hAv (by simp))
    unfold decQualDecl
    rw [checkNode_ok_some "QUALIFIER.DECLARATION" _ _ _ _ _ false (qdAttrs_keysOk q)
      (kidsOk_of_allNames ["SCOPE", "VALUE", "VALUE.ARRAY"] hAll (by simp)) (Or.inr (noText_of_allNames hAll))]
    have hf : ([E "SCOPE" (scopeAttrList q.scopes) []] ++ encVal C.toCodec q.val).filter
        (fun k => k.name = "SCOPE".toList) = [E "SCOPE" (scopeAttrList q.scopes) []] := by
      rw [List.filter_append, filter_scope_of_allNames _ _ hAv (by simp)]
      simp [name_E]
    have ha : ([E "SCOPE" (scopeAttrList q.scopes) []] ++ encVal C.toCodec q.val).any
        (fun k => k.name ≠ "SCOPE".toList) = !(encVal C.toCodec q.val).isEmpty := by
      rw [List.any_append, any_notscope_of_allNames _ _ hAv (by simp)]
      simp [name_E]
    have hu := unpackValue_plain C S hC q.ty q.val hpl _ ["SCOPE"] hAs (by simp) (by simp)
    have hany : ([E "SCOPE" (scopeAttrList q.scopes) []] ++ encVal C.toCodec q.val).any
          (fun k => k.name ≠ "SCOPE".toList) = true ∨
        (([E "SCOPE" (scopeAttrList q.scopes) []] ++ encVal C.toCodec q.val).any
          (fun k => k.name ≠ "SCOPE".toList) = false ∧ wdVal C.toCodec q.val = .null) := by
      rw [ha]
      cases hv : q.val with
      | null => right; simp [encVal, wdVal]
      | scalar a => rw [hv] at hpl; rw [encVal_scalar_plain C.toCodec S a q.ty hpl]; left; rfl
      | array l => left; simp [encVal]
    have hsc' := checkNode_scope (scopeAttrList q.scopes) (fun x hx => (hok x hx).1)
    have hds := decScopeAttrs_ok (scopeAttrList q.scopes) (fun x hx => (hok x hx).2)
    simp only [bind_ok, qdAttrs_TYPE, qdAttrs_NAME, elemKids_of_allNames hAll, hf, hsc', hds,
      boolAttrOf_false _ "ISARRAY" (some q.isArray) (qdAttrs_ISARRAY q), arraySizeOf_ok _ _ (qdAttrs_ASZ q),
      boolAttrOf_true _ "OVERRIDABLE" _ (qdAttrs_O q), boolAttrOf_true _ "TOSUBCLASS" _ (qdAttrs_TS q),
      boolAttrOf_false _ "TOINSTANCE" _ (qdAttrs_TI q), boolAttrOf_false _ "TRANSLATABLE" _ (qdAttrs_TR q),
      pure_eq_ok, dBool, Option.getD_some, wdQualDecl, wdScopes, hemp, Bool.false_eq_true, if_false]
    rcases hany with h | ⟨h, hn⟩
    · simp only [h, if_true, hu, bind_ok, hqa', hqt, Bool.not_true, Bool.false_eq_true, if_false, qdIsArray_some]
    · simp only [h, Bool.false_eq_true, if_false, hn, qdArrayOk_null, hqt, Bool.not_true, qdIsArray_some, bind_ok,
        pure_eq_ok]

end


/-! ### the object-level round trip -/

section
variable (C : DecCodec) (S : Spec) (hC : CodecOk C S)

theorem decodeTop_path_any (emb : Str → R Atom) (p : Path) (p' : Path)
    (h : decPathAny C (encPath C.toCodec p) = .ok p') :
    decodeTop C emb (encPath C.toCodec p) = .ok (.path p') := by
  cases p with
  | inst cls host ns keys =>
    cases ns with
    | none =>
      simp only [encPath] at h ⊢; unfold E at h ⊢
      rw [decodeTop_INSTANCENAME, h]; rfl
    | some n =>
      cases host with
      | none =>
        simp only [encPath] at h ⊢
        rw [show ∀ ks, E "LOCALINSTANCEPATH" [] ks = .elem "LOCALINSTANCEPATH".toList [] ks from fun _ => rfl] at h ⊢
        rw [decodeTop_LOCALINSTANCEPATH, h]; rfl
      | some hst =>
        simp only [encPath] at h ⊢
        rw [show ∀ ks, E "INSTANCEPATH" [] ks = .elem "INSTANCEPATH".toList [] ks from fun _ => rfl] at h ⊢
        rw [decodeTop_INSTANCEPATH, h]; rfl
  | cls cls host ns =>
    cases ns with
    | none =>
      simp only [encPath] at h ⊢; unfold E at h ⊢
      rw [decodeTop_CLASSNAME, h]; rfl
    | some n =>
      cases host with
      | none =>
        simp only [encPath] at h ⊢
        rw [show ∀ ks, E "LOCALCLASSPATH" [] ks = .elem "LOCALCLASSPATH".toList [] ks from fun _ => rfl] at h ⊢
        rw [decodeTop_LOCALCLASSPATH, h]; rfl
      | some hst =>
        simp only [encPath] at h ⊢
        rw [show ∀ ks, E "CLASSPATH" [] ks = .elem "CLASSPATH".toList [] ks from fun _ => rfl] at h ⊢
        rw [decodeTop_CLASSPATH, h]; rfl

include hC in
/-- **instance round trip** (all four path forms), embedded objects to depth `d` -/
theorem rt_inst_top (i : Inst) (d : Nat) (h : SendableInst S i) (hd : depthInst i ≤ d) :
    decodeTop C (embAt C d) (encInst C.toCodec i) = .ok (.inst (wdInst C.toCodec i)) := by
  obtain ⟨cls, path, props, quals⟩ := i
  obtain ⟨hb, hp⟩ := h
  have hI := rt_inst C S hC _ d hb hd
  rw [encInstElem_eq] at hI
  simp only [wdInstNoPath] at hI
  cases path with
  | none =>
    simp only [encInst, wdInst]
    unfold E at hI ⊢
    rw [decodeTop_INSTANCE, hI]; rfl
  | some pth =>
    cases pth with
    | cls c h n => exact absurd hp (by simp)
    | inst c hst ns ks =>
      have hsp : SendablePath S (.inst c hst ns ks) := hp
      have hkeys := rt_keys C S hC ks hsp.1
      cases ns with
      | none =>
        have hin := rt_instancename C c ks hsp.2.1 (keysOk_wdKeys C S ks hsp.1) hkeys
        simp only [encInst, encPath, wdInst, wdPath]
        unfold E at hI hin ⊢
        exact decodeTop_NAMEDINSTANCE C _ _ _ _ _ _ _ _ _ _ _ _ hin hI
      | some n =>
        have hpa := rt_path C S hC _ hsp
        cases hst with
        | none =>
          simp only [encInst, encPath, wdInst, wdPath] at hpa ⊢
          unfold E at hI
          rw [show ∀ ks, E "LOCALINSTANCEPATH" [] ks = .elem "LOCALINSTANCEPATH".toList [] ks from fun _ => rfl] at hpa ⊢
          rw [show ∀ as ks, E "INSTANCE" as ks = .elem "INSTANCE".toList as ks from fun _ _ => rfl]
          rw [show ∀ ks, E "VALUE.OBJECTWITHLOCALPATH" [] ks = .elem "VALUE.OBJECTWITHLOCALPATH".toList [] ks from fun _ => rfl]
          exact decodeTop_OBJECTWITHLOCALPATH C _ _ _ _ _ _ _ _ _ _ _ _ rfl hpa hI
        | some hh =>
          simp only [encInst, encPath, wdInst, wdPath] at hpa ⊢
          unfold E at hI
          rw [show ∀ ks, E "INSTANCEPATH" [] ks = .elem "INSTANCEPATH".toList [] ks from fun _ => rfl] at hpa ⊢
          rw [show ∀ as ks, E "INSTANCE" as ks = .elem "INSTANCE".toList as ks from fun _ _ => rfl]
          rw [show ∀ ks, E "VALUE.INSTANCEWITHPATH" [] ks = .elem "VALUE.INSTANCEWITHPATH".toList [] ks from fun _ => rfl]
          exact decodeTop_INSTANCEWITHPATH C _ _ _ _ _ _ _ _ _ _ _ _ rfl hpa hI

include hC in
theorem rt_prop_top (p : Prop_) (d : Nat) (h : SendableProp S p) (hd : depthProp p ≤ d) :
    decodeTop C (embAt C d) (encProp C.toCodec p) = .ok (.prop (wdProp C.toCodec p)) := by
  have hP := rt_prop C S hC p d h hd
  obtain ⟨name, ty, val, isArray, asz, refCls, origin, propagated, e, quals⟩ := p
  cases isArray with
  | true =>
    rw [encProp_array] at hP ⊢
    rw [decPropElem_arr] at hP
    unfold E at hP ⊢
    rw [decodeTop_PROPERTY_ARRAY, hP]; rfl
  | false =>
    by_cases hty : ty = "reference".toList
    · subst hty
      rw [encProp_ref] at hP ⊢
      rw [decPropElem_ref] at hP
      unfold E at hP ⊢
      rw [decodeTop_PROPERTY_REFERENCE, hP]; rfl
    · rw [encProp_plain C _ _ _ _ _ _ _ _ _ hty] at hP ⊢
      rw [decPropElem_prop] at hP
      unfold E at hP ⊢
      rw [decodeTop_PROPERTY, hP]; rfl

include hC in
theorem rt_param_top (emb : Str → R Atom) (p : Param) (h : SendableParam S p) :
    decodeTop C emb (encParam C.toCodec p) = .ok (.param (wdParam C.toCodec p)) := by
  have hP := rt_param C S hC p h
  obtain ⟨n, as, ks, e, hn⟩ := encParam_shape C p
  rw [e] at hP ⊢
  simp only [paramNames, List.map_cons, List.map_nil, List.mem_cons, List.not_mem_nil, or_false] at hn
  rcases hn with rfl | rfl | rfl | rfl
  · rw [decodeTop_PARAMETER, hP]; rfl
  · rw [decodeTop_PARAMETER_REFERENCE, hP]; rfl
  · rw [decodeTop_PARAMETER_ARRAY, hP]; rfl
  · rw [decodeTop_PARAMETER_REFARRAY, hP]; rfl

include hC in
/-- **C01 main lemma**: every sendable object, decoded from its own encoding with at least
    `embDepth o` levels of embedded-object parsing allowed, is the object with defaults -/
theorem rt_obj (o : Obj) (h : Sendable S o) (d : Nat) (hd : embDepth o ≤ d) :
    decode C d (encObj C.toCodec o) = .ok (wdObj C.toCodec o) := by
  unfold decode
  cases o with
  | path p => exact decodeTop_path_any C _ p _ (rt_path C S hC p h)
  | inst i => exact rt_inst_top C S hC i d h hd
  | cls c =>
    have hc := rt_cls C S hC c d h hd
    obtain ⟨name, sup, path, props, meths, quals⟩ := c
    simp only [encObj, wdObj]
    rw [encCls_eq] at hc ⊢
    unfold E at hc ⊢
    rw [decodeTop_CLASS, hc]; rfl
  | prop p => exact rt_prop_top C S hC p d h hd
  | meth m =>
    have hm := rt_meth C S hC m h
    obtain ⟨as, ks, e⟩ := encMeth_shape C m
    simp only [encObj, wdObj]
    rw [e] at hm ⊢
    rw [decodeTop_METHOD, hm]; rfl
  | param p => exact rt_param_top C S hC _ p h
  | qual q =>
    have hq := rt_qual C S hC q h
    obtain ⟨as, ks, e⟩ := encQual_shape C q
    simp only [encObj, wdObj]
    rw [e] at hq ⊢
    rw [decodeTop_QUALIFIER, hq]; rfl
  | qdecl q =>
    have hq := rt_qualdecl C S hC q h
    simp only [encObj, wdObj]
    rw [encQualDecl_eq] at hq ⊢
    unfold E at hq ⊢
    rw [decodeTop_QUALIFIER_DECLARATION, hq]; rfl

end

end Proofs.CimXml
