/-
C13: set semantics of the result lists, fuel bound of the subclass search in ranked (acyclic) class stores.
-/
import Pywbem.Model.AssocSet
import Proofs.Lemmas.AssocClass

namespace Pywbem.Model.Assoc
open Pywbem.Proto

/-! ### dedupPaths -/

theorem dedupPaths_subset : ∀ {l : List Path} {y : Path}, y ∈ dedupPaths l → y ∈ l
  | [], _, h => by simp [dedupPaths] at h
  | p :: ps, y, h => by
    simp only [dedupPaths, List.mem_cons, List.mem_filter] at h
    rcases h with rfl | ⟨h, _⟩
    · exact List.mem_cons_self ..
    · exact List.mem_cons_of_mem _ (dedupPaths_subset h)

theorem dedupPaths_covers : ∀ {l : List Path} {y : Path}, y ∈ l → ∃ y' ∈ dedupPaths l, y'.eqv y = true
  | [], _, h => by cases h
  | p :: ps, y, h => by
    rcases List.mem_cons.mp h with rfl | h
    · exact ⟨y, by simp [dedupPaths], eqv_refl y⟩
    · obtain ⟨y', hy', he⟩ := dedupPaths_covers h
      by_cases hp : y'.eqv p = true
      · exact ⟨p, by simp [dedupPaths], eqv_trans (eqv_symm hp) he⟩
      · exact ⟨y', by simp [dedupPaths, hy', hp], he⟩

theorem dedupPaths_nodup : ∀ (l : List Path), (dedupPaths l).Pairwise (fun a b => b.eqv a = false)
  | [] => by simp [dedupPaths]
  | p :: ps => by
    simp only [dedupPaths, List.pairwise_cons]
    refine ⟨?_, List.Pairwise.filter _ (dedupPaths_nodup ps)⟩
    intro b hb
    have := (List.mem_filter.mp hb).2
    simpa using this

theorem fillHost_eqv {h : Name} {a b : Path} (hab : a.eqv b = true) : (fillHost h a).eqv (fillHost h b) = true := by
  rw [eqv_iff] at hab ⊢
  obtain ⟨hh, hn, hc, hk⟩ := hab
  cases ha : a.host <;> cases hb : b.host <;> simp_all [fillHost, eqOptName, ieq_refl]

/-! ### fuel: ranked class stores -/

theorem descN_mono {cs : List Cls} : ∀ {n : Nat} {x a : Name}, DescN cs n x a → DescN cs (n + 1) x a
  | _, _, _, .child hc hch => .child hc hch
  | _, _, _, .step hd hda hrest hc => .step hd hda (descN_mono hrest) hc

theorem descN_mono_le {cs : List Cls} {n m : Nat} {x a : Name} (h : DescN cs n x a) (hnm : n ≤ m) :
    DescN cs m x a := by
  induction hnm with
  | refl => exact h
  | step _ ih => exact descN_mono ih

/-- extend a chain at the bottom -/
theorem descN_extend {cs : List Cls} : ∀ {n : Nat} {m a : Name} {c : Cls}, DescN cs n m a → c ∈ cs → IsChild c m →
    DescN cs (n + 1) c.name a
  | _, _, _, _, .child hc0 hch0, hc, hcm => .step hc0 hch0 (.child hc hcm) hc
  | _, _, _, _, .step hd hda hrest _, hc, hcm => .step hd hda (descN_extend hrest hc hcm) hc

/-- a rank on class names that strictly increases from superclass to subclass and stays below the
    number of classes: what a store has whose superclass links have no cycle (e.g. rank = position in
    creation order: a class can only be created after its superclass) -/
def Ranked (cs : List Cls) (rank : Name → Nat) : Prop :=
  (∀ c ∈ cs, ∀ s, c.super = some s → s.isEmpty = false → rank (lower s) < rank (lower c.name)) ∧
  (∀ c ∈ cs, rank (lower c.name) < cs.length)

theorem desc_bounded {cs : List Cls} {rank : Name → Nat} (hr : Ranked cs rank) {x a : Name} (h : Desc cs x a) :
    ∃ n, DescN cs n x a ∧ n + rank (lower a) ≤ rank (lower x) ∧ ∃ c ∈ cs, c.name = x := by
  induction h with
  | @child c a hc hch =>
    obtain ⟨s, hs, hne, hsa⟩ := hch
    have := hr.1 c hc s hs hne
    rw [ieq_iff.mp hsa] at this
    exact ⟨1, .child hc ⟨s, hs, hne, hsa⟩, by omega, c, hc, rfl⟩
  | @trans c m a _ hc hch ih =>
    obtain ⟨n, hn, hle, _⟩ := ih
    obtain ⟨s, hs, hne, hsm⟩ := hch
    have := hr.1 c hc s hs hne
    rw [ieq_iff.mp hsm] at this
    exact ⟨n + 1, descN_extend hn hc ⟨s, hs, hne, hsm⟩, by omega, c, hc, rfl⟩

theorem desc_fuel {cs : List Cls} {rank : Name → Nat} (hr : Ranked cs rank) {x a : Name} (h : Desc cs x a) :
    DescN cs (cs.length + 1) x a := by
  obtain ⟨n, hn, hle, c, hc, rfl⟩ := desc_bounded hr h
  have := hr.2 c hc
  exact descN_mono_le hn (by omega)

end Pywbem.Model.Assoc
