/-
C03 — header / body agreement on the document as RECEIVED: the namespace the server's parser reads from the body of an
intrinsic request is the attribute-value-normalised CIMObject header (TAB / LF / CR become blanks); it is the header
itself exactly when the namespace contains none of them.  This is the precise extent of known finding C03-KF4.
-/
import Proofs.Lemmas.DtdChars

set_option linter.unusedSimpArgs false
set_option linter.unusedVariables false

namespace Proofs.DtdRecv
open Pywbem.Model Pywbem.Model.Dtd Pywbem.Model.XmlText Pywbem.Model.XmlParse Pywbem.Model.Req Pywbem.Proto
open Proofs.DtdEnc Proofs.DtdReq Proofs.DtdWire

theorem wireAttrs_attr : ∀ (as as' : List (Str × Str)) (k : Str), attrsCharsOk as = true → wireAttrs as = some as' →
    Xml.attr as' k = (Xml.attr as k).map (normAttr false)
  | [], as', k, _, hw => by simp only [wireAttrs] at hw; cases hw; rfl
  | (k0, v) :: rest, as', k, hc, hw => by
    simp only [attrsCharsOk, Bool.and_eq_true] at hc
    simp only [wireAttrs] at hw
    rw [attr_accepted v hc.1] at hw
    cases hr : wireAttrs rest with
    | none => rw [hr] at hw; cases hw
    | some r =>
      rw [hr] at hw; cases hw
      have ih := wireAttrs_attr rest r k hc.2 hr
      simp only [Xml.attr, List.find?_cons] at ih ⊢
      cases hk : (k0 == k) with
      | true => simp
      | false => simpa using ih

/-- children that are all elements keep their positions on the wire -/
theorem wireKids_elems : ∀ (ks ks' : List Xml), allElems ks = true → wireKids [] ks = some ks' →
    ks'.length = ks.length ∧ ∀ i (h : i < ks.length) (h' : i < ks'.length), wireTree ks[i] = some ks'[i]
  | [], ks', _, hw => by
    simp only [wireKids, flushText, if_true] at hw; cases hw; exact ⟨rfl, fun i h => absurd h (by simp)⟩
  | .text s :: ks, ks', he, _ => by simp [allElems] at he
  | .elem n as kk :: ks, ks', he, hw => by
    simp only [allElems] at he
    simp only [wireKids] at hw
    cases ht : wireTree (.elem n as kk) with
    | none => rw [ht] at hw; cases hw
    | some t =>
      cases hr : wireKids [] ks with
      | none => rw [ht, hr] at hw; cases hw
      | some r =>
        rw [ht, hr] at hw
        simp only [flushText, if_true] at hw
        cases hw
        obtain ⟨h1, h2⟩ := wireKids_elems ks r he hr
        refine ⟨by simp [h1], ?_⟩
        intro i h h'
        cases i with
        | zero => simpa using ht
        | succ j => simpa using h2 j (by simpa using h) (by simpa using h')

theorem normAttr_append_slash : ∀ (a b : Str) (sk : Bool),
    normAttr sk (a ++ '/' :: b) = normAttr sk a ++ '/' :: normAttr false b
  | [], b, sk => by
    simp only [List.nil_append, normAttr]
    have h1 : ('/' : Char) ≠ '\r' := by decide
    have h2 : ('/' : Char) ≠ '\n' := by decide
    have h3 : ('/' : Char) ≠ '\t' := by decide
    simp [h1, h2, h3]
  | c :: cs, b, sk => by
    simp only [List.cons_append, normAttr]
    split
    · rw [normAttr_append_slash cs b true]; rfl
    · split
      · exact normAttr_append_slash cs b false
      · split
        · rw [normAttr_append_slash cs b false]; rfl
        · rw [normAttr_append_slash cs b false]; rfl

theorem normAttr_joinSlash : ∀ (l : List Str), l ≠ [] → normAttr false (joinSlash l) = joinSlash (l.map (normAttr false))
  | [], h => absurd rfl h
  | [s], _ => rfl
  | s :: t :: rest, _ => by
    rw [joinSlash_cons_cons, normAttr_append_slash, normAttr_joinSlash (t :: rest) (by simp)]
    simp only [List.map_cons, joinSlash_cons_cons]

/-- the NAMESPACE children of LOCALNAMESPACEPATH as received -/
theorem nsNames_wire : ∀ (parts : List Str) (ks' : List Xml), (∀ p ∈ parts, strOk p = true) →
    wireKids [] (parts.map (fun n => E "NAMESPACE" [("NAME".toList, n)] [])) = some ks' →
    nsNames ks' = parts.map (normAttr false)
  | [], ks', _, hw => by simp only [List.map_nil, wireKids, flushText, if_true] at hw; cases hw; rfl
  | p :: parts, ks', hp, hw => by
    simp only [List.map_cons, E, wireKids, wireTree, wireAttrs, flushText, if_true] at hw
    rw [attr_accepted p (hp p (by simp))] at hw
    simp only at hw
    cases hr : wireKids [] (parts.map (fun n => E "NAMESPACE" [("NAME".toList, n)] [])) with
    | none => simp only [E] at hr; rw [hr] at hw; simp at hw
    | some r =>
      have ih := nsNames_wire parts r (fun q hq => hp q (by simp [hq])) hr
      simp only [E] at hr; rw [hr] at hw
      simp only [Option.some.injEq] at hw
      subst hw
      simp only [nsNames, List.map_cons, ih, Xml.attr]
      simp

theorem wireTree_elem {n : Str} {as : List (Str × Str)} {ks : List Xml} {t' : Xml}
    (h : wireTree (.elem n as ks) = some t') :
    ∃ as' ks', t' = .elem n as' ks' ∧ wireAttrs as = some as' ∧ wireKids [] ks = some ks' := by
  simp only [wireTree] at h
  cases ha : wireAttrs as with
  | none => rw [ha] at h; cases h
  | some as' =>
    cases hk : wireKids [] ks with
    | none => rw [ha, hk] at h; cases h
    | some ks' => rw [ha, hk] at h; cases h; exact ⟨as', ks', rfl, rfl, rfl⟩

/-- a single element child stays a single element child -/
theorem wireKids_single {n : Str} {as : List (Str × Str)} {kk : List Xml} {ks' : List Xml}
    (h : wireKids [] [.elem n as kk] = some ks') : ∃ e', ks' = [e'] ∧ wireTree (.elem n as kk) = some e' := by
  simp only [wireKids] at h
  cases ht : wireTree (.elem n as kk) with
  | none => rw [ht] at h; cases h
  | some t =>
    rw [ht] at h
    simp only [flushText, if_true] at h
    cases h
    exact ⟨t, rfl, rfl⟩

theorem iparamValues_allElems (C : Codec) : ∀ {params : List (String × Arg)} {xs : List Xml},
    iparamValues C "IPARAMVALUE" params = .ok xs → allElems xs = true
  | [], xs, h => by simp only [iparamValues] at h; cases h; rfl
  | (n, a) :: rest, xs, h => by
    cases a with
    | none => simp only [iparamValues] at h; exact iparamValues_allElems C h
    | _ =>
      simp only [iparamValues] at h
      obtain ⟨x, _, h⟩ := bind_ok h
      obtain ⟨xs', hxs, h⟩ := bind_ok h
      cases h
      simpa [E, allElems] using iparamValues_allElems C hxs

theorem parts_ok_of_chars : ∀ (parts : List Str),
    charsOkList (parts.map (fun n => E "NAMESPACE" [("NAME".toList, n)] [])) = true → ∀ p ∈ parts, strOk p = true
  | [], _ => by simp
  | q :: parts, h => by
    simp only [List.map_cons, charsOkList, E, charsOk, attrsCharsOk, Bool.and_eq_true, Bool.and_true] at h
    intro p hp
    rcases List.mem_cons.mp hp with rfl | hp
    · exact h.1
    · exact parts_ok_of_chars parts (by simpa [E] using h.2) p hp

theorem bodyMethodName_shape (n1 n2 n3 n4 : Str) (a1 a2 a3 a4 : List (Str × Str)) (ks : List Xml) :
    bodyMethodName (.elem n1 a1 [.elem n2 a2 [.elem n3 a3 [.elem n4 a4 ks]]]) = Xml.attr a4 "NAME".toList := rfl

theorem bodyNamespace_imc (n1 n2 n3 : Str) (a1 a2 a3 a4 : List (Str × Str)) (t : Xml) (rest : List Xml) :
    bodyNamespace (.elem n1 a1 [.elem n2 a2 [.elem n3 a3 [.elem "IMETHODCALL".toList a4 (t :: rest)]]]) =
      some (lnpNamespace t) := by
  unfold bodyNamespace bodyCall
  exact if_pos rfl

/-- **received namespace.**  For the request of an intrinsic operation: in the tree the server's parser returns, the
    call element carries the operation's name, and the namespace read from its LOCALNAMESPACEPATH is the
    attribute-value-normalised CIMObject header — equal to the header when the namespace has no TAB / LF / CR. -/
theorem imethodcall_received (C : Codec) (m : String) (ns : Arg) (params : List (String × Arg)) (h : Headers) (x : Xml)
    (hr : imethodcall C m ns params = .ok (h, x)) (t' : Xml) (ht : wireTree x = some t') :
    bodyMethodName t' = some (normAttr false m.toList) ∧
    ∃ n, header h "CIMObject" = some n ∧ bodyNamespace t' = some (normAttr false n) ∧
      (plainStr n = true → bodyNamespace t' = header h "CIMObject") := by
  cases ns with
  | str n =>
    simp only [imethodcall] at hr
    obtain ⟨plist, hpl, hr⟩ := bind_ok hr
    obtain ⟨lnp, hl, hr⟩ := bind_ok hr
    obtain ⟨doc, hd, hr⟩ := bind_ok hr
    cases hr
    obtain ⟨rfl, hlc⟩ := checked_ok hl
    obtain ⟨rfl, hchars⟩ := checked_ok hd
    have hhdr : header [("CIMOperation".toList, "MethodCall".toList), ("CIMMethod".toList, m.toList),
        ("CIMObject".toList, n)] "CIMObject" = some n := by simp [header, Xml.attr]
    -- peel the envelope: CIM / MESSAGE / SIMPLEREQ are single-child elements
    simp only [cimElem, E] at ht hchars
    obtain ⟨a1, k1, rfl, _, hk1⟩ := wireTree_elem ht
    obtain ⟨m', rfl, hm'⟩ := wireKids_single hk1
    obtain ⟨a2, k2, rfl, _, hk2⟩ := wireTree_elem hm'
    obtain ⟨s', rfl, hs'⟩ := wireKids_single hk2
    obtain ⟨a3, k3, rfl, _, hk3⟩ := wireTree_elem hs'
    obtain ⟨c', rfl, hc'⟩ := wireKids_single hk3
    obtain ⟨a4, k4, rfl, ha4, hk4⟩ := wireTree_elem hc'
    -- the call element
    have hcall : attrsCharsOk [("NAME".toList, m.toList)] = true := by
      simp only [charsOk, charsOkList, attrsCharsOk, Bool.and_eq_true, Bool.and_true] at hchars
      simp only [attrsCharsOk, Bool.and_true]
      exact hchars.2.2.2.1
    have hname := wireAttrs_attr _ a4 "NAME".toList hcall ha4
    have hel : allElems (localNsPath n :: plist) = true := by
      simpa [localNsPath, E, allElems] using iparamValues_allElems C hpl
    obtain ⟨hlen, hget⟩ := wireKids_elems _ k4 hel hk4
    cases k4 with
    | nil => simp at hlen
    | cons t0 rest =>
      have h0 : wireTree (localNsPath n) = some t0 := hget 0 (Nat.zero_lt_succ _) (Nat.zero_lt_succ _)
      unfold localNsPath at h0 hlc
      simp only [E] at h0
      obtain ⟨a5, k5, rfl, _, hk5⟩ := wireTree_elem h0
      have hparts : ∀ p ∈ splitSlash n, strOk p = true := by
        apply parts_ok_of_chars
        simpa [E, charsOk, attrsCharsOk] using hlc
      have hns := nsNames_wire (splitSlash n) k5 hparts (by simpa [E] using hk5)
      have hnorm : joinSlash (nsNames k5) = normAttr false n := by
        rw [hns, ← normAttr_joinSlash _ (splitSlash_ne_nil n), joinSlash_splitSlash]
      refine ⟨?_, n, hhdr, ?_, ?_⟩
      · have hat : Xml.attr [("NAME".toList, m.toList)] "NAME".toList = some m.toList := by
          simp only [Xml.attr, List.find?_cons, beq_self_eq_true]
        rw [bodyMethodName_shape, hname, hat]; rfl
      · rw [bodyNamespace_imc]; simp only [lnpNamespace, hnorm]
      · intro hp
        rw [bodyNamespace_imc, hhdr]; simp only [lnpNamespace, hnorm]
        rw [plainStr_normAttr n hp]
  | none => simp [imethodcall] at hr
  | bool b => simp [imethodcall] at hr
  | int i => simp [imethodcall] at hr
  | className p => simp [imethodcall] at hr
  | instName p => simp [imethodcall] at hr
  | inst i => simp [imethodcall] at hr
  | cls c => simp [imethodcall] at hr
  | qdecl q => simp [imethodcall] at hr
  | list l => simp [imethodcall] at hr
  | other => simp [imethodcall] at hr

end Proofs.DtdRecv
