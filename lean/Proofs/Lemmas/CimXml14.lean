/-
C01 — the decoder cannot tell text chunking apart, part 2: values, qualifiers, properties, instances,
parameters, methods, classes, qualifier declarations and the top-level dispatcher, for EVERY tree:
`decodeTop C emb (normTree t) = decodeTop C emb t`.
-/
import Proofs.Lemmas.CimXml13

set_option linter.unusedSimpArgs false
set_option linter.unusedVariables false
set_option linter.unusedSectionVars false

namespace Proofs.CimXml
open Pywbem.Model Pywbem.Model.XmlText Pywbem.Proto

theorem norm_elem_of {β} (D : Xml → β) (h : ∀ t, D (normTree t) = D t) (n : Str) (as) (ks : List Xml) :
    D (.elem n as (normKids [] ks)) = D (.elem n as ks) := by
  have := h (.elem n as ks); rwa [normTree_elem] at this

/-- `bind_checkNode_norm` with the element already unfolded -/
theorem bind_checkNode_norm' {β} (n : Str) (as : List (Str × Str)) (ks : List Xml) (nm : String) (req opt : List String)
    (allowed : Option (List String)) (pc : Bool) (f : List (Str × Str) × List Xml → R β)
    (hf : f (as, normKids [] ks) = f (as, ks)) :
    (checkNode (.elem n as (normKids [] ks)) nm req opt allowed pc >>= f) =
      (checkNode (.elem n as ks) nm req opt allowed pc >>= f) := by
  rw [bind_checkNode, bind_checkNode, cnOk_norm, hf]

section
variable (C : DecCodec) (emb : Str → R Atom)

/-! ### values -/

theorem decArrayRaw_text (s : Str) (ks : List Xml) : decArrayRaw (.text s :: ks) = decArrayRaw ks := rfl
theorem decArrayRaw_flushT (p : Str) (r : List Xml) : decArrayRaw (flushT p r) = decArrayRaw r := by
  unfold flushT; split <;> rfl

theorem decArrayRaw_norm (ks : List Xml) : ∀ p, decArrayRaw (normKids p ks) = decArrayRaw ks := by
  induction ks with
  | nil => intro p; rw [normKids_nil, decArrayRaw_flushT]
  | cons k ks ih =>
    intro p
    cases k with
    | text s => rw [normKids_text, ih, decArrayRaw_text]
    | elem n as kk =>
      rw [normKids_elem, decArrayRaw_flushT, decArrayRaw_elem, decArrayRaw_elem, ih,
        norm_elem_of decValueText decValueText_norm, bind_checkNode, bind_checkNode, cnOk_norm]

theorem decRawVals_text (s : Str) (ks : List Xml) : decRawVals (.text s :: ks) = decRawVals ks := rfl
theorem decRawVals_flushT (p : Str) (r : List Xml) : decRawVals (flushT p r) = decRawVals r := by
  unfold flushT; split <;> rfl

theorem decRawVals_norm (ks : List Xml) : ∀ p, decRawVals (normKids p ks) = decRawVals ks := by
  induction ks with
  | nil => intro p; rw [normKids_nil, decRawVals_flushT]
  | cons k ks ih =>
    intro p
    cases k with
    | text s => rw [normKids_text, ih, decRawVals_text]
    | elem n as kk =>
      rw [normKids_elem, decRawVals_flushT, decRawVals_elem, decRawVals_elem, ih,
        norm_elem_of decValueText decValueText_norm, bind_checkNode, bind_checkNode, cnOk_norm]
      simp only [decArrayRaw_norm]

theorem unpackValue_norm (ty : Str) (ks : List Xml) (p : Str) :
    unpackValue C ty (normKids p ks) = unpackValue C ty ks := by
  unfold unpackValue; rw [decRawVals_norm]

/-! ### qualifiers -/

theorem decQualifier_norm (t : Xml) : decQualifier C (normTree t) = decQualifier C t := by
  cases t with
  | text s => rw [normTree_text]
  | elem n as ks =>
    unfold decQualifier
    apply bind_checkNode_norm
    simp only [unpackValue_norm]

theorem decQualifiers_flushT (p : Str) (r : List Xml) : decQualifiers C (flushT p r) = decQualifiers C r := by
  unfold flushT; split <;> rfl

theorem decQualifiers_norm (ks : List Xml) : ∀ p, decQualifiers C (normKids p ks) = decQualifiers C ks := by
  induction ks with
  | nil => intro p; rw [normKids_nil, decQualifiers_flushT]
  | cons k ks ih =>
    intro p
    cases k with
    | text s => rw [normKids_text, ih, decQualifiers_text]
    | elem n as kk =>
      rw [normKids_elem, decQualifiers_flushT]
      by_cases hn : n = "QUALIFIER".toList
      · rw [decQualifiers_hit C _ _ _ _ hn, decQualifiers_hit C _ _ _ _ hn, ih,
          norm_elem_of (decQualifier C) (decQualifier_norm C)]
      · rw [decQualifiers_miss C _ _ _ _ hn, decQualifiers_miss C _ _ _ _ hn, ih]

/-! ### properties -/

theorem decProperty_norm (t : Xml) : decProperty C emb (normTree t) = decProperty C emb t := by
  cases t with
  | text s => rw [normTree_text]
  | elem n as ks =>
    unfold decProperty
    apply bind_checkNode_norm
    simp only [unpackValue_norm, decQualifiers_norm]

theorem decPropertyArray_norm (t : Xml) : decPropertyArray C emb (normTree t) = decPropertyArray C emb t := by
  cases t with
  | text s => rw [normTree_text]
  | elem n as ks =>
    unfold decPropertyArray
    apply bind_checkNode_norm
    simp only [unpackValue_norm, decQualifiers_norm]

theorem decValueRefs_text (s : Str) (ks : List Xml) : decValueRefs C (.text s :: ks) = decValueRefs C ks := rfl
theorem decValueRefs_flushT (p : Str) (r : List Xml) : decValueRefs C (flushT p r) = decValueRefs C r := by
  unfold flushT; split <;> rfl

theorem decValueRefs_norm (ks : List Xml) : ∀ p, decValueRefs C (normKids p ks) = decValueRefs C ks := by
  induction ks with
  | nil => intro p; rw [normKids_nil, decValueRefs_flushT]
  | cons k ks ih =>
    intro p
    cases k with
    | text s => rw [normKids_text, ih, decValueRefs_text]
    | elem n as kk =>
      rw [normKids_elem, decValueRefs_flushT]
      by_cases hn : n = "VALUE.REFERENCE".toList
      · rw [decValueRefs_hit C _ _ _ _ hn, decValueRefs_hit C _ _ _ _ hn, ih,
          norm_elem_of (decValueReference C) (decValueReference_norm C)]
      · rw [decValueRefs_miss C _ _ _ _ hn, decValueRefs_miss C _ _ _ _ hn, ih]

theorem decPropertyReference_norm (t : Xml) : decPropertyReference C (normTree t) = decPropertyReference C t := by
  cases t with
  | text s => rw [normTree_text]
  | elem n as ks =>
    unfold decPropertyReference
    apply bind_checkNode_norm
    simp only [decValueRefs_norm, decQualifiers_norm]

theorem decPropElem_norm (t : Xml) : decPropElem C emb (normTree t) = decPropElem C emb t := by
  unfold decPropElem
  simp only [normTree_name, decProperty_norm, decPropertyArray_norm, decPropertyReference_norm]

theorem decProperties_flushT (p : Str) (r : List Xml) : decProperties C emb (flushT p r) = decProperties C emb r := by
  unfold flushT; split <;> rfl

theorem decProperties_norm (ks : List Xml) : ∀ p, decProperties C emb (normKids p ks) = decProperties C emb ks := by
  induction ks with
  | nil => intro p; rw [normKids_nil, decProperties_flushT]
  | cons k ks ih =>
    intro p
    cases k with
    | text s => rw [normKids_text, ih, decProperties_text]
    | elem n as kk =>
      rw [normKids_elem, decProperties_flushT]
      by_cases hn : isPropName n
      · rw [decProperties_hit C emb _ _ _ _ hn, decProperties_hit C emb _ _ _ _ hn, ih,
          norm_elem_of (decPropElem C emb) (decPropElem_norm C emb)]
      · rw [decProperties_miss C emb _ _ _ _ hn, decProperties_miss C emb _ _ _ _ hn, ih]

theorem decInstance_norm (t : Xml) : decInstance C emb (normTree t) = decInstance C emb t := by
  cases t with
  | text s => rw [normTree_text]
  | elem n as ks =>
    unfold decInstance
    apply bind_checkNode_norm
    simp only [decQualifiers_norm, decProperties_norm]

/-! ### parameters, methods, classes -/

theorem decParameter_norm (t : Xml) : decParameter C (normTree t) = decParameter C t := by
  cases t with
  | text s => rw [normTree_text]
  | elem n as ks =>
    rw [normTree_elem]
    simp only [decParameter]
    by_cases h1 : n = "PARAMETER".toList
    · simp only [if_pos h1]
      apply bind_checkNode_norm'
      simp only [decQualifiers_norm]
    · by_cases h2 : n = "PARAMETER.REFERENCE".toList
      · simp only [if_neg h1, if_pos h2]
        apply bind_checkNode_norm'
        simp only [decQualifiers_norm]
      · by_cases h3 : n = "PARAMETER.ARRAY".toList
        · simp only [if_neg h1, if_neg h2, if_pos h3]
          apply bind_checkNode_norm'
          simp only [decQualifiers_norm]
        · by_cases h4 : n = "PARAMETER.REFARRAY".toList
          · simp only [if_neg h1, if_neg h2, if_neg h3, if_pos h4]
            apply bind_checkNode_norm'
            simp only [decQualifiers_norm]
          · simp only [if_neg h1, if_neg h2, if_neg h3, if_neg h4]

theorem decParameters_flushT (p : Str) (r : List Xml) : decParameters C (flushT p r) = decParameters C r := by
  unfold flushT; split <;> rfl

theorem nameIn_elem_kids (n : Str) (as) (kk kk' : List Xml) (names : List String) :
    nameIn (.elem n as kk) names = nameIn (.elem n as kk') names := rfl

theorem decParameters_norm (ks : List Xml) : ∀ p, decParameters C (normKids p ks) = decParameters C ks := by
  induction ks with
  | nil => intro p; rw [normKids_nil, decParameters_flushT]
  | cons k ks ih =>
    intro p
    cases k with
    | text s => rw [normKids_text, ih, decParameters_text]
    | elem n as kk =>
      rw [normKids_elem, decParameters_flushT]
      cases hn : nameIn (.elem n as kk) ["PARAMETER", "PARAMETER.REFERENCE", "PARAMETER.ARRAY", "PARAMETER.REFARRAY"]
      · rw [decParameters_miss C _ _ _ _ hn,
          decParameters_miss C _ _ _ _ ((nameIn_elem_kids n as (normKids [] kk) kk _).trans hn), ih]
      · rw [decParameters_hit C _ _ _ _ hn,
          decParameters_hit C _ _ _ _ ((nameIn_elem_kids n as (normKids [] kk) kk _).trans hn), ih,
          norm_elem_of (decParameter C) (decParameter_norm C)]

theorem decMethod_norm (t : Xml) : decMethod C (normTree t) = decMethod C t := by
  cases t with
  | text s => rw [normTree_text]
  | elem n as ks =>
    unfold decMethod
    apply bind_checkNode_norm
    simp only [decParameters_norm, decQualifiers_norm]

theorem decMethods_flushT (p : Str) (r : List Xml) : decMethods C (flushT p r) = decMethods C r := by
  unfold flushT; split <;> rfl

theorem decMethods_norm (ks : List Xml) : ∀ p, decMethods C (normKids p ks) = decMethods C ks := by
  induction ks with
  | nil => intro p; rw [normKids_nil, decMethods_flushT]
  | cons k ks ih =>
    intro p
    cases k with
    | text s => rw [normKids_text, ih, decMethods_text]
    | elem n as kk =>
      rw [normKids_elem, decMethods_flushT]
      by_cases hn : n = "METHOD".toList
      · rw [decMethods_hit C _ _ _ _ hn, decMethods_hit C _ _ _ _ hn, ih,
          norm_elem_of (decMethod C) (decMethod_norm C)]
      · rw [decMethods_miss C _ _ _ _ hn, decMethods_miss C _ _ _ _ hn, ih]

theorem decClass_norm (t : Xml) : decClass C emb (normTree t) = decClass C emb t := by
  cases t with
  | text s => rw [normTree_text]
  | elem n as ks =>
    unfold decClass
    apply bind_checkNode_norm
    simp only [decProperties_norm, decQualifiers_norm, decMethods_norm]

/-! ### qualifier declarations -/

theorem filter_name_map_norm (l : List Xml) (x : Str) :
    (l.map normTree).filter (fun k => k.name = x) = (l.filter (fun k => k.name = x)).map normTree := by
  rw [List.filter_map]
  congr 1
  apply List.filter_congr
  intro k _
  simp only [Function.comp, normTree_name]

theorem any_name_map_norm (l : List Xml) (x : Str) :
    (l.map normTree).any (fun k => k.name ≠ x) = l.any (fun k => k.name ≠ x) := by
  rw [List.any_map]
  congr 1
  funext k
  simp only [Function.comp, normTree_name]

theorem decQualDecl_norm (t : Xml) : decQualDecl C (normTree t) = decQualDecl C t := by
  cases t with
  | text s => rw [normTree_text]
  | elem n as ks =>
    unfold decQualDecl
    apply bind_checkNode_norm
    simp only [elemKids_normKids, filter_name_map_norm, any_name_map_norm, unpackValue_norm]
    generalize List.filter (fun k => decide (k.name = "SCOPE".toList)) (Xml.elemKids ks) = F
    rcases F with _ | ⟨a, _ | ⟨b, r⟩⟩
    · rfl
    · simp only [List.map_cons, List.map_nil]
      cases a with
      | text s => rw [normTree_text]
      | elem n' as' ks' =>
        rw [normTree_elem, bind_checkNode, bind_checkNode, cnOk_norm]
    · rfl

/-! ### the top-level dispatcher -/

/-- **the decoder is blind to text chunking**: for every tree, every embedded-object parser -/
theorem decodeTop_norm (t : Xml) : decodeTop C emb (normTree t) = decodeTop C emb t := by
  cases t with
  | text s => rw [normTree_text]
  | elem n as ks =>
    rw [normTree_elem]
    have hni : ∀ names, nameIn (.elem n as (normKids [] ks)) names = nameIn (.elem n as ks) names := fun _ => rfl
    simp only [decodeTop, hni,
      norm_elem_of (decPathAny C) (decPathAny_norm C), norm_elem_of (decInstance C emb) (decInstance_norm C emb),
      norm_elem_of (decClass C emb) (decClass_norm C emb), norm_elem_of (decProperty C emb) (decProperty_norm C emb),
      norm_elem_of (decPropertyArray C emb) (decPropertyArray_norm C emb),
      norm_elem_of (decPropertyReference C) (decPropertyReference_norm C),
      norm_elem_of (decMethod C) (decMethod_norm C), norm_elem_of (decParameter C) (decParameter_norm C),
      norm_elem_of (decQualifier C) (decQualifier_norm C), norm_elem_of (decQualDecl C) (decQualDecl_norm C),
      elemKids_normKids, bind_checkNode, cnOk_norm]
    generalize Xml.elemKids ks = L
    rcases L with _ | ⟨a, _ | ⟨b, _ | ⟨c, r⟩⟩⟩ <;>
      simp only [List.map_cons, List.map_nil, normTree_name, decInstanceName_norm, decPathAny_norm, decInstance_norm]

end

end Proofs.CimXml
