/-
C04 — helper lemmas about Model/Ops.lean: the tree-level wire on the shapes the client and the server
build, and the unmarshalling functions on the received shapes.
-/
import Pywbem.Model.Ops
import Proofs.Lemmas.XmlText
import Proofs.Lemmas.CimXml1
import Proofs.Lemmas.XmlParse

set_option linter.unusedSimpArgs false
set_option linter.unusedVariables false

namespace Proofs.Ops
open Pywbem.Model Pywbem.Model.XmlText Pywbem.Model.XmlParse Pywbem.Model.Ops Pywbem.Proto Proofs.XmlText
open Pywbem.Generated.OpsSig

/-! ### strings that pass the wire unchanged -/

/-- attribute values (names, class names, namespace segments): XML characters without TAB/LF/CR -/
def StableAttr (s : Str) : Prop :=
  (∀ c ∈ s, isXmlChar c = true) ∧ (∀ c ∈ s, c ≠ '\r' ∧ c ≠ '\n' ∧ c ≠ '\t')

/-- character data: XML characters without CR (known finding C04-KF3 / C01-KF1 is the CR) -/
def StableText (s : Str) : Prop := (∀ c ∈ s, isXmlChar c = true) ∧ '\r' ∉ s

theorem StableAttr.wire {s : Str} (h : StableAttr s) : wireAttr s = some s := wireAttr_id s h.1 h.2
theorem StableText.wire {s : Str} (h : StableText s) : wireText s = some s := wireText_id s h.1 h.2

/-! ### None-valued parameters are dropped, the others kept in order -/

theorem iparamsXml_dropNone (C : Codec) (ps : Params) :
    iparamsXml C ps = (dropNone ps).map (fun p => E "IPARAMVALUE" [("NAME".toList, p.1)] [pvalXml C p.2]) := by
  induction ps with
  | nil => rfl
  | cons p rest ih =>
    obtain ⟨n, v⟩ := p
    cases v with
    | none => simp [iparamsXml, iparamXml, dropNone, ih]
    | some v => simp [iparamsXml, iparamXml, dropNone, ih]

theorem dropNone_names (ps : Params) :
    (dropNone ps).map (·.1) = (ps.filter (fun p => p.2.isSome)).map (·.1) := by
  induction ps with
  | nil => rfl
  | cons p rest ih =>
    obtain ⟨n, v⟩ := p
    cases v <;> simp [dropNone, ih]

theorem mem_dropNone {ps : Params} {n : Str} {v : PVal} : (n, v) ∈ dropNone ps ↔ (n, some v) ∈ ps := by
  induction ps with
  | nil => simp [dropNone]
  | cons p rest ih =>
    obtain ⟨m, w⟩ := p
    cases w with
    | none => simp [dropNone, ih]
    | some w => simp [dropNone, ih]

/-! ### wireTree (Pywbem/Model/XmlParse.lean) on the shapes built here: element children, or one text child -/

theorem wireTree_elem (n : Str) (as : List (Str × Str)) (ks : List Xml) :
    wireTree (.elem n as ks) = (do
      let as' ← wireAttrs as
      let ks' ← wireKids [] ks
      pure (Xml.elem n as' ks')) := by
  simp only [wireTree]
  cases wireAttrs as <;> cases wireKids [] ks <;> rfl

theorem wireKids_nil : wireKids [] [] = some [] := by simp [wireKids, flushText]

theorem wireKids_elem_cons (n : Str) (as : List (Str × Str)) (kk ks : List Xml) :
    wireKids [] (.elem n as kk :: ks) = (do
      let t ← wireTree (.elem n as kk)
      let r ← wireKids [] ks
      pure (t :: r)) := by
  simp only [wireKids, flushText]
  cases wireTree (.elem n as kk) <;> cases wireKids [] ks <;> rfl

/-- a single text child: empty character data leaves no node -/
theorem wireKids_text_single (s : Str) :
    wireKids [] [.text s] = if s = [] then some [] else (wireText s).map (fun t => [Xml.text t]) := by
  simp only [wireKids, flushText, List.nil_append]
  split
  · rfl
  · cases wireText s <;> rfl

theorem wireAttrs_nil : wireAttrs [] = some [] := rfl

theorem wireAttrs_cons (k v : Str) (rest : List (Str × Str)) :
    wireAttrs ((k, v) :: rest) = (do
      let v' ← wireAttr v
      let r ← wireAttrs rest
      pure ((k, v') :: r)) := by
  simp only [wireAttrs]
  cases wireAttr v <;> cases wireAttrs rest <;> rfl

/-- a VALUE element after the wire: an empty text leaves no child -/
def valueW (s : Str) : Xml := if s = [] then E "VALUE" [] [] else valueElem s

theorem wire_valueElem {s : Str} (h : StableText s) : wireTree (valueElem s) = some (valueW s) := by
  unfold valueElem valueW E
  by_cases hs : s = []
  · subst hs
    simp [wireTree, wireKids_nil, wireKids_elem_cons, wireKids_text_single, wireAttrs, wireText, esc, recvText]
  · simp [wireTree, wireKids_nil, wireKids_elem_cons, wireKids_text_single, wireAttrs, h.wire, hs, valueElem, E]

theorem decValueText_valueW (s : Str) : decValueText (valueW s) = .ok s := by
  unfold valueW
  by_cases hs : s = []
  · subst hs
    simp [decValueText, checkNode, E, attrKeysOk, kidsOk, Xml.elemKids, Xml.pcdata, Xml.attr, pure, Except.pure,
      bind, Except.bind]
  · simp [hs, decValueText, valueElem, checkNode, E, attrKeysOk, kidsOk, Xml.elemKids, Xml.pcdata, Xml.attr, pure,
      Except.pure, bind, Except.bind]

theorem valueW_name (s : Str) : (valueW s).name = "VALUE".toList := by
  unfold valueW; split <;> rfl

theorem valueW_isElem (s : Str) : ∃ as ks, valueW s = .elem "VALUE".toList as ks := by
  unfold valueW; split
  · exact ⟨[], [], rfl⟩
  · exact ⟨[], [.text s], rfl⟩

/-- `parse_iparamvalue` on an IPARAMVALUE with one element child -/
theorem decIParamValue_elem (C : DecCodec) (emb : Str → R Atom) (n kn : Str) (kas : List (Str × Str))
    (kks : List Xml) :
    decIParamValue C emb (.elem "IPARAMVALUE".toList [("NAME".toList, n)] [.elem kn kas kks]) =
      (match decIParamChild C emb (.elem kn kas kks) with
       | .ok r => .ok (n, coerceRaw n r)
       | .error e => .error e) := by
  simp [decIParamValue, checkNode, E, attrKeysOk, Xml.attr, noText, Xml.elemKids, getAttrD, pure, Except.pure,
    bind, Except.bind]
  cases decIParamChild C emb (.elem kn kas kks) <;> rfl

/-! ### one IPARAMVALUE with a VALUE child (booleans, integers, strings) -/

theorem wire_iparam_value {n s : Str} (hn : StableAttr n) (hs : StableText s) :
    wireTree (E "IPARAMVALUE" [("NAME".toList, n)] [valueElem s]) =
      some (E "IPARAMVALUE" [("NAME".toList, n)] [valueW s]) := by
  by_cases h0 : s = []
  · subst h0
    simp [E, valueElem, valueW, wireTree_elem, wireKids_nil, wireKids_elem_cons, wireKids_text_single, wireAttrs, hn.wire, wireText, esc, recvText]
  · simp [E, valueElem, valueW, wireTree_elem, wireKids_nil, wireKids_elem_cons, wireKids_text_single, wireAttrs, hn.wire, hs.wire, h0]

theorem decIParamValue_value (C : DecCodec) (emb : Str → R Atom) (n s : Str) :
    decIParamValue C emb (E "IPARAMVALUE" [("NAME".toList, n)] [valueW s]) = .ok (n, coerceRaw n (.text s)) := by
  obtain ⟨as, ks, h⟩ := valueW_isElem s
  have hd := decValueText_valueW s
  rw [h] at hd
  simp at hd
  simp [decIParamValue, checkNode, E, attrKeysOk, Xml.attr, noText, h, Xml.elemKids, decIParamChild, Xml.name,
    getAttrD, hd, pure, Except.pure, bind, Except.bind]

/-! ### typing by the signature undoes the text encoding -/

/-- the name is one of those `parse_iparamvalue` coerces -/
def Coerced (n : Str) : Bool := coercedNames.any (fun m => m.toList == lowerAscii n)

theorem coerceRaw_text (n s : Str) :
    coerceRaw n (.text s) =
      if Coerced n && (lowerAscii s == "true".toList || lowerAscii s == "false".toList) then
        .bool (lowerAscii s == "true".toList) else .text s := by
  simp [coerceRaw, Coerced]

/-- booleans: whether or not `parse_iparamvalue` special-cases the name, the server gets the bool -/
theorem typeRaw_bool (n : Str) (b : Bool) :
    typeRaw (some .bool) (coerceRaw n (.text (if b then "TRUE".toList else "FALSE".toList))) = .ok (some (.bool b)) := by
  rw [coerceRaw_text]
  cases hc : Coerced n <;> cases b <;> simp [typeRaw, lowerAscii, pure, Except.pure] <;> decide

theorem lowerAscii_cons (c : Char) (s : Str) : lowerAscii (c :: s) = c.toLower :: lowerAscii s := rfl

theorem toLower_digit {c : Char} (h : c.isDigit = true) : c.toLower = c := by
  have hr := Proofs.CimXml.isDigit_range h
  unfold Char.toLower
  have e : c.toNat = c.val.toNat := rfl
  have : ¬ (c.val ≥ 65 ∧ c.val ≤ 90) := by
    intro hh
    have h1 := hh.1
    rw [ge_iff_le, UInt32.le_iff_toNat_le] at h1
    have : (65 : UInt32).toNat = 65 := rfl
    omega
  simp [this]

theorem intToStr_not_bool_text (v : Int) :
    lowerAscii (intToStr v) ≠ "true".toList ∧ lowerAscii (intToStr v) ≠ "false".toList := by
  unfold intToStr
  by_cases hv : v < 0
  · simp [hv, lowerAscii_cons]
  · simp only [hv, if_false]
    have hne := Proofs.CimXml.natToStr_ne_nil v.natAbs
    have hd := Proofs.CimXml.natToStr_digits v.natAbs
    cases hs : natToStr v.natAbs with
    | nil => exact absurd hs hne
    | cons c r =>
      have hc : c.isDigit = true := hd c (by simp [hs])
      have hl := toLower_digit hc
      simp only [lowerAscii_cons, hl]
      constructor
      · intro h
        have : c = 't' := (List.cons.inj h).1
        subst this; exact absurd hc (by decide)
      · intro h
        have : c = 'f' := (List.cons.inj h).1
        subst this; exact absurd hc (by decide)

theorem coerceRaw_int (n : Str) (v : Int) : coerceRaw n (.text (intToStr v)) = .text (intToStr v) := by
  obtain ⟨h1, h2⟩ := intToStr_not_bool_text v
  simp at h1 h2
  simp [coerceRaw, h1, h2]

/-- integers (OperationTimeout, MaxObjectCount): `int(text)` gives the number back -/
theorem typeRaw_int (n : Str) (v : Int) (k : Kind) (hk : k = .uint ∨ k = .maxobj) :
    typeRaw (some k) (coerceRaw n (.text (intToStr v))) = .ok (some (.int v)) := by
  rw [coerceRaw_int]
  rcases hk with hk | hk <;> subst hk <;> simp [typeRaw, Proofs.CimXml.pyInt_intToStr, pure, Except.pure]

/-- strings: unchanged, for every parameter name that `parse_iparamvalue` does not coerce -/
theorem typeRaw_str (n s : Str) (k : Option Kind) (hn : Coerced n = false)
    (hk : k ≠ some .bool ∧ k ≠ some .uint ∧ k ≠ some .maxobj) :
    typeRaw k (coerceRaw n (.text s)) = .ok (some (.str s)) := by
  rw [coerceRaw_text, hn]
  obtain ⟨h1, h2, h3⟩ := hk
  cases k with
  | none => simp [typeRaw, pure, Except.pure]
  | some k => cases k <;> simp_all [typeRaw, pure, Except.pure]

/-! ### PropertyList: VALUE.ARRAY of strings with NULL entries -/

def itemW : Option Str → Xml
  | none => E "VALUE.NULL" [] []
  | some s => valueW s

def StableItems (l : List (Option Str)) : Prop := ∀ s, some s ∈ l → StableText s

theorem wireKids_items (C : Codec) (l : List (Option Str)) (h : StableItems l) :
    wireKids [] (encArrItems C (l.map optStrAtom)) = some (l.map itemW) := by
  induction l with
  | nil => simp [encArrItems, wireKids_nil, wireKids_elem_cons, wireKids_text_single]
  | cons x rest ih =>
    have ih' := ih (fun s hs => h s (by simp [hs]))
    cases x with
    | none =>
      simp [encArrItems, encArrItem, optStrAtom, Pywbem.Generated.sendValueNull, E, wireKids_nil, wireKids_elem_cons, wireKids_text_single, wireTree_elem,
        wireAttrs, ih', itemW]
    | some s =>
      have hs : StableText s := h s (by simp)
      have hw : wireTree (Xml.elem ['V', 'A', 'L', 'U', 'E'] [] [Xml.text s]) = some (valueW s) := by
        simpa [valueElem, E] using wire_valueElem hs
      simp [encArrItems, encArrItem, optStrAtom, atomText, valueElem, E, wireKids_nil, wireKids_elem_cons, wireKids_text_single, hw, ih', itemW]

theorem decArrayRaw_items (l : List (Option Str)) : decArrayRaw (l.map itemW) = .ok l := by
  induction l with
  | nil => simp [decArrayRaw, pure, Except.pure]
  | cons x rest ih =>
    cases x with
    | none =>
      simp [itemW, E, decArrayRaw, Xml.name, checkNode, attrKeysOk, kidsOk, Xml.elemKids, noText, ih, pure, Except.pure,
        bind, Except.bind]
    | some s =>
      obtain ⟨as, ks, h⟩ := valueW_isElem s
      have hd := decValueText_valueW s
      rw [h] at hd
      simp at hd
      simp [itemW, h, decArrayRaw, Xml.name, hd, ih, pure, Except.pure, bind, Except.bind]

theorem noText_items (l : List (Option Str)) : noText (l.map itemW) = true := by
  simp only [noText, List.all_eq_true, List.mem_map]
  rintro k ⟨x, _, rfl⟩
  cases x with
  | none => rfl
  | some s =>
    obtain ⟨as, ks, h⟩ := valueW_isElem s
    simp [itemW, h]

theorem wire_iparam_strs (C : Codec) {n : Str} {l : List (Option Str)} (hn : StableAttr n) (hl : StableItems l) :
    wireTree (E "IPARAMVALUE" [("NAME".toList, n)] [pvalXml C (.strs l)]) =
      some (E "IPARAMVALUE" [("NAME".toList, n)] [E "VALUE.ARRAY" [] (l.map itemW)]) := by
  simp [pvalXml, E, wireTree_elem, wireKids_nil, wireKids_elem_cons, wireKids_text_single, wireAttrs, hn.wire, wireKids_items C l hl]

theorem decIParamValue_strs (C : DecCodec) (emb : Str → R Atom) (n : Str) (l : List (Option Str)) :
    decIParamValue C emb (E "IPARAMVALUE" [("NAME".toList, n)] [E "VALUE.ARRAY" [] (l.map itemW)]) =
      .ok (n, .arr l) := by
  have hnt := noText_items l
  have hc : decIParamChild C emb (.elem "VALUE.ARRAY".toList [] (l.map itemW)) = .ok (.arr l) := by
    simp [decIParamChild, Xml.name, checkNode, attrKeysOk, hnt, decArrayRaw_items, pure, Except.pure, bind,
      Except.bind]
  unfold E
  rw [decIParamValue_elem, hc]
  simp [coerceRaw]

/-! ### class names (ClassName, AssocClass, ResultClass, ObjectName given as a class) -/

theorem wire_iparam_classname (C : Codec) {n c : Str} (hn : StableAttr n) (hc : StableAttr c) :
    wireTree (E "IPARAMVALUE" [("NAME".toList, n)] [pvalXml C (.obj (.path (.cls c none none)))]) =
      some (E "IPARAMVALUE" [("NAME".toList, n)] [E "CLASSNAME" [("NAME".toList, c)] []]) := by
  simp [pvalXml, encObj, encPath, E, wireTree_elem, wireKids_nil, wireKids_elem_cons, wireKids_text_single, wireAttrs, hn.wire, hc.wire]

theorem decIParamValue_classname (C : DecCodec) (emb : Str → R Atom) (n c : Str) :
    decIParamValue C emb (E "IPARAMVALUE" [("NAME".toList, n)] [E "CLASSNAME" [("NAME".toList, c)] []]) =
      .ok (n, .obj (.path (.cls c none none))) := by
  have hc : decIParamChild C emb (.elem "CLASSNAME".toList [("NAME".toList, c)] []) =
      .ok (.obj (.path (.cls c none none))) := by
    simp [decIParamChild, Xml.name, nameIn, decodeTop, decPathAny, decClassName, checkNode, attrKeysOk, Xml.attr,
      kidsOk, Xml.elemKids, noText, getAttrD, pure, Except.pure, bind, Except.bind]
  unfold E
  rw [decIParamValue_elem, hc]
  simp [coerceRaw]

/-! ### the namespace path -/

def nsElem (n : Str) : Xml := E "NAMESPACE" [("NAME".toList, n)] []

theorem splitSlash_ne_nil (s : Str) : splitSlash s ≠ [] := by
  induction s with
  | nil => simp [splitSlash]
  | cons c cs ih =>
    simp only [splitSlash]
    split
    · simp
    · split <;> simp

theorem nsJoin_splitSlash (s : Str) : nsJoin (splitSlash s) = s := by
  induction s with
  | nil => simp [splitSlash, nsJoin]
  | cons c cs ih =>
    simp only [splitSlash]
    by_cases hc : c = '/'
    · subst hc
      simp only [if_true]
      cases h : splitSlash cs with
      | nil => exact absurd h (splitSlash_ne_nil cs)
      | cons p ps => rw [h] at ih; simp [nsJoin, ih]
    · simp only [hc, if_false]
      cases h : splitSlash cs with
      | nil => exact absurd h (splitSlash_ne_nil cs)
      | cons p ps =>
        rw [h] at ih
        cases ps with
        | nil => simp [nsJoin] at ih ⊢; exact ih
        | cons q qs => simp [nsJoin] at ih ⊢; exact ih

theorem mem_splitSlash {s seg : Str} {c : Char} (hseg : seg ∈ splitSlash s) (hc : c ∈ seg) : c ∈ s := by
  induction s generalizing seg with
  | nil => simp [splitSlash] at hseg; subst hseg; simp at hc
  | cons d ds ih =>
    simp only [splitSlash] at hseg
    by_cases hd : d = '/'
    · simp only [hd, if_true, List.mem_cons] at hseg
      rcases hseg with h | h
      · subst h; simp at hc
      · exact List.mem_cons_of_mem _ (ih h hc)
    · simp only [hd, if_false] at hseg
      cases hs : splitSlash ds with
      | nil => exact absurd hs (splitSlash_ne_nil ds)
      | cons p ps =>
        rw [hs] at hseg ih
        simp only [List.mem_cons] at hseg
        rcases hseg with h | h
        · subst h
          simp only [List.mem_cons] at hc
          rcases hc with h' | h'
          · subst h'; simp
          · exact List.mem_cons_of_mem _ (ih (by simp) h')
        · exact List.mem_cons_of_mem _ (ih (by simp [h]) hc)

theorem StableAttr.segment {s seg : Str} (h : StableAttr s) (hseg : seg ∈ splitSlash s) : StableAttr seg :=
  ⟨fun c hc => h.1 c (mem_splitSlash hseg hc), fun c hc => h.2 c (mem_splitSlash hseg hc)⟩

theorem wireKids_nsElems (segs : List Str) (h : ∀ seg ∈ segs, StableAttr seg) :
    wireKids [] (segs.map (fun n => E "NAMESPACE" [("NAME".toList, n)] [])) = some (segs.map nsElem) := by
  induction segs with
  | nil => simp [wireKids_nil, wireKids_elem_cons, wireKids_text_single]
  | cons a rest ih =>
    have ha := (h a (by simp)).wire
    have ih' := ih (fun s hs => h s (by simp [hs]))
    simp only [E] at ih'
    simp at ih'
    simp [E, wireKids_nil, wireKids_elem_cons, wireKids_text_single, wireTree_elem, wireAttrs, ha, ih', nsElem]

theorem wire_localNsPath {ns : Str} (h : StableAttr ns) :
    wireTree (localNsPath ns) = some (E "LOCALNAMESPACEPATH" [] ((splitSlash ns).map nsElem)) := by
  have := wireKids_nsElems (splitSlash ns) (fun seg hs => h.segment hs)
  simp [localNsPath, E, wireTree_elem, wireAttrs, this] at *

theorem decNamespaces_nsElems (segs : List Str) : decNamespaces (segs.map nsElem) = .ok segs := by
  induction segs with
  | nil => simp [decNamespaces, pure, Except.pure]
  | cons a rest ih =>
    simp [nsElem, E, decNamespaces, checkNode, attrKeysOk, Xml.attr, kidsOk, Xml.elemKids, noText, getAttrD, pure,
      Except.pure, bind, Except.bind] at ih ⊢
    simp [ih]

theorem elemKids_nsElems (segs : List Str) : Xml.elemKids (segs.map nsElem) = segs.map nsElem := by
  induction segs with
  | nil => rfl
  | cons a rest ih => simp [nsElem, E, Xml.elemKids] at ih ⊢; exact ih

theorem noText_nsElems (segs : List Str) : noText (segs.map nsElem) = true := by
  simp [noText, nsElem, E]

theorem decLocalNsPath_wired (ns : Str) :
    decLocalNsPath (E "LOCALNAMESPACEPATH" [] ((splitSlash ns).map nsElem)) = .ok ns := by
  have hne := splitSlash_ne_nil ns
  have h1 := decNamespaces_nsElems (splitSlash ns)
  have h2 := elemKids_nsElems (splitSlash ns)
  have h3 := noText_nsElems (splitSlash ns)
  have hk : kidsOk ((splitSlash ns).map nsElem) ["NAMESPACE"] = true := by
    simp [kidsOk, h2, nsElem, E, Xml.name]
  simp [decLocalNsPath, E, checkNode, attrKeysOk, h2, h3, hk, h1, nsJoin_splitSlash, hne, pure, Except.pure, bind,
    Except.bind]

/-! ### the message envelope -/

theorem wire_messageXml {body body' : Xml} {id : Str} (hid : StableAttr id)
    (hb : wireKids [] [body] = some [body']) :
    wireTree (messageXml body id) = some (messageXml body' id) := by
  have h20 : wireAttr "2.0".toList = some "2.0".toList := by decide
  have h10 : wireAttr "1.0".toList = some "1.0".toList := by decide
  simp at h20 h10
  simp [messageXml, E, wireTree_elem, wireKids_nil, wireKids_elem_cons, wireKids_text_single, wireAttrs, h20, h10, hid.wire, hb]

theorem wireKids_singleton_elem {n : Str} {as : List (Str × Str)} {ks : List Xml} {t : Xml}
    (h : wireTree (.elem n as ks) = some t) : wireKids [] [.elem n as ks] = some [t] := by
  simp [wireKids_nil, wireKids_elem_cons, wireKids_text_single, h]

/-- parse_cim, parse_message, parse_simplereq on a request envelope -/
theorem decEnvelope_req (id : Str) (cas : List (Str × Str)) (cks : List Xml) :
    decEnvelope (messageXml (E "SIMPLEREQ" [] [.elem "IMETHODCALL".toList cas cks]) id) "SIMPLEREQ"
        ["IMETHODCALL", "METHODCALL"] = .ok (id, .elem "IMETHODCALL".toList cas cks) := by
  simp [decEnvelope, messageXml, E, checkNode, attrKeysOk, Xml.attr, noText, startsWith, getAttrD, oneChild,
    Xml.elemKids, nameIn, Xml.name, pure, Except.pure, bind, Except.bind]

/-- parse_cim, parse_message, parse_simplersp on a response envelope -/
theorem decEnvelope_rsp (id : Str) (cas : List (Str × Str)) (cks : List Xml) :
    decEnvelope (messageXml (E "SIMPLERSP" [] [.elem "IMETHODRESPONSE".toList cas cks]) id) "SIMPLERSP"
        ["METHODRESPONSE", "IMETHODRESPONSE"] = .ok (id, .elem "IMETHODRESPONSE".toList cas cks) := by
  simp [decEnvelope, messageXml, E, checkNode, attrKeysOk, Xml.attr, noText, startsWith, getAttrD, oneChild,
    Xml.elemKids, nameIn, Xml.name, pure, Except.pure, bind, Except.bind]

/-! ### the parameter list -/

def AllElem (l : List Xml) : Prop := ∀ k ∈ l, k.isElem = true

theorem elemKids_allElem {l : List Xml} (h : AllElem l) : Xml.elemKids l = l := by
  induction l with
  | nil => rfl
  | cons k ks ih =>
    have hk := h k (by simp)
    cases k with
    | text s => simp [Xml.isElem] at hk
    | elem n as kk => simp [Xml.elemKids, ih (fun x hx => h x (by simp [hx]))]

theorem noText_allElem {l : List Xml} (h : AllElem l) : noText l = true := by
  simp only [noText, List.all_eq_true]
  intro k hk
  have := h k hk
  cases k with
  | text s => simp [Xml.isElem] at this
  | elem n as kk => rfl

/-- the IPARAMVALUE element of a non-None parameter -/
def paramTree (C : Codec) (p : Str × PVal) : Xml := E "IPARAMVALUE" [("NAME".toList, p.1)] [pvalXml C p.2]

/-- the parameter `p` reaches the operation behind the server as `q`: its element passes the wire, the
    server-side parser reads name and raw value, the signature typing gives the value -/
def ParamRT (C : DecCodec) (emb : Str → R Atom) (k : Option Kind) (p q : Str × PVal) : Prop :=
  ∃ as ks r, wireTree (paramTree C.toCodec p) = some (.elem "IPARAMVALUE".toList as ks) ∧
    decIParamValue C emb (.elem "IPARAMVALUE".toList as ks) = .ok (q.1, r) ∧ typeRaw k r = .ok (some q.2)

/-- two lists related element by element -/
inductive Zip {α β : Type} (R : α → β → Prop) : List α → List β → Prop
  | nil : Zip R [] []
  | cons {a b l m} : R a b → Zip R l m → Zip R (a :: l) (b :: m)

theorem Zip.refl {α : Type} {R : α → α → Prop} (l : List α) (h : ∀ a ∈ l, R a a) : Zip R l l := by
  induction l with
  | nil => exact .nil
  | cons a rest ih => exact .cons (h a (by simp)) (ih (fun b hb => h b (by simp [hb])))

theorem Zip.map {α β : Type} {R : α → β → Prop} (f : α → β) (l : List α) (h : ∀ a ∈ l, R a (f a)) :
    Zip R l (l.map f) := by
  induction l with
  | nil => exact .nil
  | cons a rest ih => exact .cons (h a (by simp)) (ih (fun b hb => h b (by simp [hb])))

theorem params_roundtrip (C : DecCodec) (emb : Str → R Atom) (sig : List Row) (op : Str)
    (l seen : List (Str × PVal))
    (h : Zip (fun p q => ParamRT C emb (kindOf sig op q.1) p q) l seen) :
    ∃ ts, wireKids [] (l.map (paramTree C.toCodec)) = some ts ∧ AllElem ts ∧
      ∃ raws, decIParamValues C emb ts = .ok raws ∧ typeParams sig op raws = .ok seen := by
  induction h with
  | nil => exact ⟨[], by simp [wireKids_nil, wireKids_elem_cons, wireKids_text_single], by simp [AllElem], [], by simp [decIParamValues, pure, Except.pure],
      by simp [typeParams, pure, Except.pure]⟩
  | @cons p q l' seen' hpq _ ih =>
    obtain ⟨ts, hw, hall, raws, hd, ht⟩ := ih
    obtain ⟨as, ks, r, h1, h2, h3⟩ := hpq
    refine ⟨.elem "IPARAMVALUE".toList as ks :: ts, ?_, ?_, (q.1, r) :: raws, ?_, ?_⟩
    · have : paramTree C.toCodec p = .elem "IPARAMVALUE".toList [("NAME".toList, p.1)] [pvalXml C.toCodec p.2] := rfl
      rw [this] at h1
      simp only [List.map_cons, this, wireKids_nil, wireKids_elem_cons, wireKids_text_single, h1, hw]
      rfl
    · intro k hk
      simp only [List.mem_cons] at hk
      rcases hk with rfl | hk
      · rfl
      · exact hall k hk
    · simp at h2
      simp [decIParamValues, h2, hd, pure, Except.pure, bind, Except.bind]
    · simp [typeParams, h3, ht, pure, Except.pure, bind, Except.bind]

/-! ### the whole request -/

theorem stable_1001 : StableAttr "1001".toList := by
  constructor <;> decide

theorem serverSees_request (C : DecCodec) (depth : Nat) (sig : List Row) (op ns : Str) (ps : Params)
    (seen : List (Str × PVal)) (hop : StableAttr op) (hns : StableAttr ns)
    (h : Zip (fun p q => ParamRT C (embAt C depth) (kindOf sig op q.1) p q) (dropNone ps) seen) :
    ∃ t, wireTree (requestXml C.toCodec op ns ps) = some t ∧
      serverSees C depth sig t = .ok ("1001".toList, { op := op, ns := ns, params := seen }) := by
  obtain ⟨ts, hw, hall, raws, hd, ht⟩ := params_roundtrip C (embAt C depth) sig op (dropNone ps) seen h
  let nsW := E "LOCALNAMESPACEPATH" [] ((splitSlash ns).map nsElem)
  let imc : Xml := .elem "IMETHODCALL".toList [("NAME".toList, op)] (nsW :: ts)
  refine ⟨messageXml (E "SIMPLEREQ" [] [imc]) "1001".toList, ?_, ?_⟩
  · -- the wire
    have hps : iparamsXml C.toCodec ps = (dropNone ps).map (paramTree C.toCodec) := iparamsXml_dropNone C.toCodec ps
    have hkids : wireKids [] (localNsPath ns :: iparamsXml C.toCodec ps) = some (nsW :: ts) := by
      have hl := wire_localNsPath hns
      rw [hps]
      simp only [localNsPath, E] at hl ⊢
      simp only [wireKids_nil, wireKids_elem_cons, wireKids_text_single, hl, hw]
      rfl
    have himc : wireTree (E "IMETHODCALL" [("NAME".toList, op)] (localNsPath ns :: iparamsXml C.toCodec ps)) = some imc := by
      simp only [E, wireTree_elem, wireAttrs, hop.wire, hkids]
      rfl
    have hreq : wireKids [] [E "SIMPLEREQ" [] [E "IMETHODCALL" [("NAME".toList, op)] (localNsPath ns :: iparamsXml C.toCodec ps)]] =
        some [E "SIMPLEREQ" [] [imc]] := by
      simp only [E] at himc ⊢
      simp only [wireKids_nil, wireKids_elem_cons, wireKids_text_single, wireTree_elem, wireAttrs, himc]
      rfl
    unfold requestXml
    exact wire_messageXml stable_1001 hreq
  · -- the server side
    have hall' : AllElem (nsW :: ts) := by
      intro k hk
      simp only [List.mem_cons] at hk
      rcases hk with rfl | hk
      · rfl
      · exact hall k hk
    have hek := elemKids_allElem hall'
    have hnt := noText_allElem hall'
    have hns' := decLocalNsPath_wired ns
    have himc : decIMethodCall C (embAt C depth) imc = .ok (op, ns, raws) := by
      simp only [decIMethodCall, imc, checkNode]
      simp [attrKeysOk, Xml.attr, hnt, hek, hns', hd, getAttrD, nsW, pure, Except.pure, bind, Except.bind]
    simp only [serverSees, decRequest, imc] at himc ⊢
    rw [decEnvelope_req]
    simp at himc
    simp [Xml.name, himc, ht, pure, Except.pure, bind, Except.bind]

/-! ### ParamRT for every scalar parameter kind (no hypothesis about objects) -/

theorem isXmlChar_digit {c : Char} (h : c.isDigit = true) : isXmlChar c = true := by
  have := Proofs.CimXml.isDigit_range h
  simp [isXmlChar]
  omega

theorem stableText_intToStr (v : Int) : StableText (intToStr v) := by
  have hd := Proofs.CimXml.natToStr_digits v.natAbs
  unfold intToStr
  by_cases hv : v < 0
  · simp only [hv, if_true]
    constructor
    · intro c hc
      simp only [List.mem_cons] at hc
      rcases hc with rfl | hc
      · decide
      · exact isXmlChar_digit (hd c hc)
    · intro hc
      simp only [List.mem_cons] at hc
      rcases hc with h | hc
      · exact absurd h (by decide)
      · exact absurd (hd _ hc) (by decide)
  · simp only [hv, if_false]
    exact ⟨fun c hc => isXmlChar_digit (hd c hc), fun hc => absurd (hd _ hc) (by decide)⟩

theorem stableText_boolText (b : Bool) : StableText (if b then "TRUE".toList else "FALSE".toList) := by
  cases b <;> constructor <;> decide

theorem ParamRT.bool (C : DecCodec) (emb : Str → R Atom) {n : Str} (b : Bool) (hn : StableAttr n) :
    ParamRT C emb (some .bool) (n, .bool b) (n, .bool b) :=
  ⟨_, _, _, wire_iparam_value hn (stableText_boolText b), by
    have := decIParamValue_value C emb n (if b then "TRUE".toList else "FALSE".toList)
    obtain ⟨as, ks, h⟩ := valueW_isElem (if b then "TRUE".toList else "FALSE".toList)
    simpa [E] using this, typeRaw_bool n b⟩

theorem ParamRT.int (C : DecCodec) (emb : Str → R Atom) {n : Str} (v : Int) (k : Kind) (hk : k = .uint ∨ k = .maxobj)
    (hn : StableAttr n) : ParamRT C emb (some k) (n, .int v) (n, .int v) :=
  ⟨_, _, _, wire_iparam_value hn (stableText_intToStr v), by
    simpa [E] using decIParamValue_value C emb n (intToStr v), typeRaw_int n v k hk⟩

theorem ParamRT.str (C : DecCodec) (emb : Str → R Atom) {n s : Str} (k : Option Kind) (hn : StableAttr n)
    (hs : StableText s) (hc : Coerced n = false) (hk : k ≠ some .bool ∧ k ≠ some .uint ∧ k ≠ some .maxobj) :
    ParamRT C emb k (n, .str s) (n, .str s) :=
  ⟨_, _, _, wire_iparam_value hn hs, by simpa [E] using decIParamValue_value C emb n s, typeRaw_str n s k hc hk⟩

theorem ParamRT.strs (C : DecCodec) (emb : Str → R Atom) {n : Str} {l : List (Option Str)} (k : Option Kind)
    (hn : StableAttr n) (hl : StableItems l) : ParamRT C emb k (n, .strs l) (n, .strs l) :=
  ⟨_, _, _, wire_iparam_strs C.toCodec hn hl, by simpa [E] using decIParamValue_strs C emb n l, by
    simp [typeRaw, pure, Except.pure]⟩

theorem ParamRT.classname (C : DecCodec) (emb : Str → R Atom) {n c : Str} (k : Option Kind)
    (hn : StableAttr n) (hc : StableAttr c) :
    ParamRT C emb k (n, .obj (.path (.cls c none none))) (n, .obj (.path (.cls c none none))) :=
  ⟨_, _, _, wire_iparam_classname C.toCodec hn hc, by simpa [E] using decIParamValue_classname C emb n c, by
    simp [typeRaw, pure, Except.pure]⟩

/-! ### object-valued parameters: from the C01 round trip (hypothesis record) -/

/-- objects as the `_iparam_*` functions hand them to `_imethodcall`: paths without namespace and host,
    instances without path (CreateInstance) or with such a path (ModifyInstance), classes, qualifier
    declarations -/
def IsParamObj : Obj → Prop
  | .path (.inst _ none none _) => True
  | .path (.cls _ none none) => True
  | .inst (.mk _ none _ _) => True
  | .inst (.mk _ (some (.inst _ none none _)) _ _) => True
  | .cls _ => True
  | .qdecl _ => True
  | _ => False

def paramRootNames : List String :=
  ["INSTANCENAME", "CLASSNAME", "QUALIFIER.DECLARATION", "CLASS", "INSTANCE", "VALUE.NAMEDINSTANCE"]

theorem encObj_root (C : Codec) (o : Obj) (h : IsParamObj o) :
    ∃ n as ks, encObj C o = .elem n as ks ∧ ∃ m ∈ paramRootNames, n = m.toList := by
  match o, h with
  | .path (.inst c none none ks), _ => exact ⟨_, _, _, by simp only [encObj, encPath, E]; rfl, "INSTANCENAME", by simp [paramRootNames], rfl⟩
  | .path (.cls c none none), _ => exact ⟨_, _, _, by simp only [encObj, encPath, E]; rfl, "CLASSNAME", by simp [paramRootNames], rfl⟩
  | .inst (.mk c none ps qs), _ => exact ⟨_, _, _, by simp only [encObj, encInst, E]; rfl, "INSTANCE", by simp [paramRootNames], rfl⟩
  | .inst (.mk c (some (.inst c' none none ks)) ps qs), _ =>
    exact ⟨_, _, _, by simp only [encObj, encInst, E]; rfl, "VALUE.NAMEDINSTANCE", by simp [paramRootNames], rfl⟩
  | .cls (.mk n s p ps ms qs), _ => exact ⟨_, _, _, by simp only [encObj, encCls, E]; rfl, "CLASS", by simp [paramRootNames], rfl⟩
  | .qdecl q, _ => exact ⟨_, _, _, by simp only [encObj, encQualDecl, E]; rfl, "QUALIFIER.DECLARATION", by simp [paramRootNames], rfl⟩

theorem wireTree_root {n : Str} {as : List (Str × Str)} {ks : List Xml} {t : Xml}
    (h : wireTree (.elem n as ks) = some t) : ∃ as' ks', t = .elem n as' ks' := by
  rw [wireTree_elem] at h
  cases h1 : wireAttrs as with
  | none => simp [h1] at h
  | some as' =>
    cases h2 : wireKids [] ks with
    | none => simp [h1, h2] at h
    | some ks' =>
      simp [h1, h2] at h
      exact ⟨as', ks', h.symm⟩

theorem decIParamChild_obj (C : DecCodec) (emb : Str → R Atom) (m : String) (hm : m ∈ paramRootNames)
    (as : List (Str × Str)) (ks : List Xml) :
    decIParamChild C emb (.elem m.toList as ks) =
      (match decodeTop C emb (.elem m.toList as ks) with
       | .ok o => .ok (.obj o)
       | .error e => .error e) := by
  simp only [paramRootNames, List.mem_cons, List.mem_nil_iff, or_false] at hm
  rcases hm with rfl | rfl | rfl | rfl | rfl | rfl <;>
    (simp [decIParamChild, Xml.name, nameIn, pure, Except.pure, bind, Except.bind]
     cases decodeTop C emb _ <;> rfl)

/-- the C01 object round trip, as far as C04 needs it (a hypothesis record: discharged by the C01
    theorems; `Ok` = which objects it speaks about, `rt` = the object received, i.e. the sent one with
    the DSP0201 defaults filled in) -/
structure ObjRT (C : DecCodec) (depth : Nat) (Ok : Obj → Prop) (rt : Obj → Obj) : Prop where
  roundtrip : ∀ o, Ok o → ∃ t, wireTree (encObj C.toCodec o) = some t ∧ decode C depth t = .ok (rt o)

theorem ParamRT.obj {C : DecCodec} {depth : Nat} {Ok : Obj → Prop} {rt : Obj → Obj} (R : ObjRT C depth Ok rt)
    {n : Str} {o : Obj} (k : Option Kind) (hn : StableAttr n) (ho : Ok o) (hp : IsParamObj o) :
    ParamRT C (embAt C depth) k (n, .obj o) (n, .obj (rt o)) := by
  obtain ⟨t, hw, hd⟩ := R.roundtrip o ho
  obtain ⟨rn, ras, rks, he, m, hm, hrn⟩ := encObj_root C.toCodec o hp
  subst hrn
  rw [he] at hw
  obtain ⟨as', ks', ht⟩ := wireTree_root hw
  subst ht
  refine ⟨[("NAME".toList, n)], [.elem m.toList as' ks'], .obj (rt o), ?_, ?_, ?_⟩
  · simp only [paramTree, pvalXml, he, E, wireTree_elem, wireAttrs, hn.wire, wireKids_nil, wireKids_elem_cons, wireKids_text_single, hw]
    rfl
  · rw [decIParamValue_elem, decIParamChild_obj C _ m hm]
    unfold decode at hd
    rw [hd]
    simp [coerceRaw]
  · simp [typeRaw, pure, Except.pure]

/-! ### responses: errors -/

theorem stableAttr_natToStr (n : Nat) : StableAttr (natToStr n) := by
  have hd := Proofs.CimXml.natToStr_digits n
  constructor
  · intro c hc; exact isXmlChar_digit (hd c hc)
  · intro c hc
    have := Proofs.CimXml.isDigit_range (hd c hc)
    refine ⟨?_, ?_, ?_⟩ <;> (intro e; subst e; revert this; decide)

/-- the reply to a failed operation as it arrives at the client -/
def errorReply (op msgid : Str) (code : Nat) (desc : Str) : Xml :=
  messageXml (E "SIMPLERSP" [] [.elem "IMETHODRESPONSE".toList [("NAME".toList, op)]
    [.elem "ERROR".toList [("CODE".toList, natToStr code), ("DESCRIPTION".toList, normAttr false desc)] []]]) msgid

theorem wire_errorResponse (C : Codec) (host : Str) {op msgid : Str} (code : Nat) {desc : Str}
    (hop : StableAttr op) (hid : StableAttr msgid) (hdesc : ∀ c ∈ desc, isXmlChar c = true) :
    wireTree (responseXml C host op msgid (.err code desc)) = some (errorReply op msgid code desc) := by
  have hcode := (stableAttr_natToStr code).wire
  have hd : wireAttr desc = some (normAttr false desc) := recvAttr_esc desc false hdesc
  unfold responseXml errorReply
  apply wire_messageXml hid
  simp [E, wireKids_nil, wireKids_elem_cons, wireKids_text_single, wireTree_elem, wireAttrs, hop.wire, hcode, hd]

theorem clientReceive_error (C : DecCodec) (depth : Nat) (row : Row) (ns host : Str) (ps : Params) (msgid : Str)
    (code : Nat) (desc : Str) :
    clientReceive C depth row ns host ps (errorReply row.op.toList msgid code desc) = .error (.cimError code) := by
  unfold clientReceive decResponse errorReply
  rw [decEnvelope_rsp]
  simp [Xml.name, checkNode, attrKeysOk, Xml.attr, noText, decRspChildren, decError, kidsOk, Xml.elemKids, getAttrD,
    imethodResult, Proofs.CimXml.pyInt_natToStr, pure, Except.pure, bind, Except.bind]

/-! ### responses: nothing returned -/

def emptyReply (op msgid : Str) : Xml :=
  messageXml (E "SIMPLERSP" [] [.elem "IMETHODRESPONSE".toList [("NAME".toList, op)] []]) msgid

theorem wire_emptyResponse (C : Codec) (host : Str) {op msgid : Str} (hop : StableAttr op) (hid : StableAttr msgid) :
    wireTree (responseXml C host op msgid (.ok [])) = some (emptyReply op msgid) := by
  unfold responseXml emptyReply
  apply wire_messageXml hid
  simp [E, rchildrenXml, wireKids_nil, wireKids_elem_cons, wireKids_text_single, wireTree_elem, wireAttrs, hop.wire]

theorem clientReceive_empty (C : DecCodec) (depth : Nat) (row : Row) (ns host : Str) (ps : Params) (msgid : Str) :
    clientReceive C depth row ns host ps (emptyReply row.op.toList msgid) = clientPost row ns host ps none := by
  unfold clientReceive decResponse emptyReply
  rw [decEnvelope_rsp]
  simp [Xml.name, checkNode, attrKeysOk, Xml.attr, noText, decRspChildren, getAttrD, imethodResult, pure, Except.pure,
    bind, Except.bind]

/-! ### responses: a list of class names (EnumerateClassNames) -/

def classNameW (c : Str) : Xml := E "CLASSNAME" [("NAME".toList, c)] []

def classNamesReply (op msgid : Str) (names : List Str) : Xml :=
  messageXml (E "SIMPLERSP" [] [.elem "IMETHODRESPONSE".toList [("NAME".toList, op)]
    [.elem "IRETURNVALUE".toList [] (names.map classNameW)]]) msgid

/-- a server result that is a list of class paths -/
def classPaths (l : List (Str × Option Str × Option Str)) : List RItem :=
  l.map (fun x => RItem.path (.cls x.1 x.2.1 x.2.2))

theorem wireKids_classPaths (C : Codec) (host op : Str) (l : List (Str × Option Str × Option Str))
    (h : ∀ x ∈ l, StableAttr x.1) :
    wireKids [] (ritemsXml C host op (classPaths l)) = some (l.map (fun x => classNameW x.1)) := by
  induction l with
  | nil => simp [classPaths, ritemsXml, wireKids_nil, wireKids_elem_cons, wireKids_text_single]
  | cons x rest ih =>
    have hx := (h x (by simp)).wire
    have ih' := ih (fun y hy => h y (by simp [hy]))
    simp only [classPaths] at ih' ⊢
    simp [ritemsXml, ritemXml, encPath, E, wireKids_nil, wireKids_elem_cons, wireKids_text_single, wireTree_elem, wireAttrs, hx, ih', classNameW]

theorem wire_classNamesResponse (C : Codec) (host : Str) {op msgid : Str} (l : List (Str × Option Str × Option Str))
    (hop : StableAttr op) (hid : StableAttr msgid) (h : ∀ x ∈ l, StableAttr x.1) :
    wireTree (responseXml C host op msgid (.ok [.iret (classPaths l)])) =
      some (classNamesReply op msgid (l.map (·.1))) := by
  have hk := wireKids_classPaths C host op l h
  unfold responseXml classNamesReply
  apply wire_messageXml hid
  simp [E, rchildrenXml, rchildXml, wireKids_nil, wireKids_elem_cons, wireKids_text_single, wireTree_elem, wireAttrs, hop.wire, hk, List.map_map]

theorem decRetItems_classNames (C : DecCodec) (emb : Str → R Atom) (names : List Str) :
    decRetItems C emb "CLASSNAME".toList (names.map classNameW) =
      .ok (names.map (fun c => CItem.plain (.path (.cls c none none)))) := by
  induction names with
  | nil => simp [decRetItems, pure, Except.pure]
  | cons c rest ih =>
    simp [classNameW, E, decRetItems, Xml.name, decRetItem, nameIn, decodeTop, decPathAny, decClassName, checkNode,
      attrKeysOk, Xml.attr, kidsOk, Xml.elemKids, noText, getAttrD, pure, Except.pure, bind, Except.bind] at ih ⊢
    simp [ih]

theorem plainObjs_classNames (names : List Str) :
    plainObjs (names.map (fun c => CItem.plain (.path (.cls c none none)))) =
      .ok (names.map (fun c => Obj.path (.cls c none none))) := by
  induction names with
  | nil => simp [plainObjs, pure, Except.pure]
  | cons c rest ih => simp [plainObjs, ih, pure, Except.pure, bind, Except.bind]

theorem mapM_ok_id {α : Type} (f : α → R α) (hf : ∀ a, f a = .ok a) (l : List α) : l.mapM f = .ok l := by
  induction l with
  | nil => rfl
  | cons a rest ih => simp [List.mapM_cons, ih, hf, pure, Except.pure, bind, Except.bind]

theorem mapM_classNameOf (names : List Str) :
    (names.map (fun c => Obj.path (.cls c none none))).mapM classNameOf = .ok names := by
  induction names with
  | nil => rfl
  | cons c rest ih => simp [List.mapM_cons, classNameOf, pure, Except.pure, bind, Except.bind] at ih ⊢; simp [ih]

theorem clientPost_classNames (row : Row) (hpost : row.post = .classNames) (ns host : Str) (ps : Params)
    (names : List Str) (more : List RspChild) :
    clientPost row ns host ps (some (.iret (names.map (fun c => CItem.plain (.path (.cls c none none)))) :: more)) =
      .ok (.names names) := by
  have h1 := plainObjs_classNames names
  have h2 := mapM_classNameOf names
  simp only [clientPost, hpost, firstIret, bind, Except.bind, h1, h2, pure, Except.pure]

theorem clientReceive_classNames (C : DecCodec) (depth : Nat) (row : Row) (hpost : row.post = .classNames)
    (hret : row.hasReturn = true) (ns host : Str) (ps : Params) (msgid : Str) (names : List Str) :
    clientReceive C depth row ns host ps (classNamesReply row.op.toList msgid names) = .ok (.names names) := by
  have hdec := decRetItems_classNames C (embAt C depth) names
  have hpost' := clientPost_classNames row hpost ns host ps names []
  have hnt : noText (names.map classNameW) = true := by simp [noText, classNameW, E]
  unfold clientReceive decResponse classNamesReply
  rw [decEnvelope_rsp]
  cases names with
  | nil =>
    simp [Xml.name, checkNode, attrKeysOk, Xml.attr, noText, decRspChildren, decIReturnValue, firstElem, getAttrD,
      imethodResult, RspChild.isIret, RspChild.isError, hret, clientPost, hpost, firstIret, plainObjs, pure, Except.pure, bind,
      Except.bind]
  | cons c rest =>
    simp only [List.map_cons] at hdec hnt hpost'
    simp [classNameW, E] at hdec hnt
    simp [Xml.name, checkNode, attrKeysOk, Xml.attr, noText, decRspChildren, decIReturnValue, firstElem, getAttrD,
      imethodResult, RspChild.isIret, RspChild.isError, hret, classNameW, E, hdec, hnt, hpost', pure, Except.pure, bind, Except.bind]

/-! ### responses in general: any list of result items, given the round trip of each IRETURNVALUE -/

/-- one item of the server's answer arrives at the client as one parsed child of IMETHODRESPONSE.
    For the IRETURNVALUE item this is the C01 round trip of the result elements (a hypothesis, proved
    above for class-name lists and for the empty list); for the output parameters it is proved. -/
inductive ChildRT (C : DecCodec) (emb : Str → R Atom) (host op : Str) : RChild → RspChild → Prop
  | iret (l : List RItem) (view : List CItem) :
      (∃ ts, wireKids [] (ritemsXml C.toCodec host op l) = some ts ∧ AllElem ts ∧
        decIReturnValue C emb (.elem "IRETURNVALUE".toList [] ts) = .ok view) →
      ChildRT C emb host op (.iret l) (.iret view)
  | ctxNone : ChildRT C emb host op (.out (.ctx none))
      (.param "EnumerationContext".toList (some "string".toList) none false)
  | ctx (s : Str) : StableText s → ChildRT C emb host op (.out (.ctx (some s)))
      (.param "EnumerationContext".toList (some "string".toList) (some s) false)
  | eos (s : Str) : StableText (upperAscii s) → ChildRT C emb host op (.out (.eos s))
      (.param "EndOfSequence".toList (some "boolean".toList) (some (upperAscii s)) false)

theorem decParamValue_wired (C : DecCodec) (emb : Str → R Atom) (n ty s : Str) :
    decParamValue C emb (.elem "PARAMVALUE".toList [("NAME".toList, n), ("PARAMTYPE".toList, ty)] [valueW s]) =
      .ok (.param n (some ty) (some s) false) := by
  obtain ⟨as, ks, h⟩ := valueW_isElem s
  have hd := decValueText_valueW s
  rw [h] at hd
  simp at hd
  simp [decParamValue, checkNode, attrKeysOk, Xml.attr, noText, h, Xml.elemKids, Xml.name, getAttrD, hd, pure,
    Except.pure, bind, Except.bind]

theorem decParamValue_empty (C : DecCodec) (emb : Str → R Atom) (n ty : Str) :
    decParamValue C emb (.elem "PARAMVALUE".toList [("NAME".toList, n), ("PARAMTYPE".toList, ty)] []) =
      .ok (.param n (some ty) none false) := by
  simp [decParamValue, checkNode, attrKeysOk, Xml.attr, noText, Xml.elemKids, getAttrD, pure, Except.pure, bind,
    Except.bind]

theorem rchildren_roundtrip (C : DecCodec) (emb : Str → R Atom) (host op : Str) (items : List RChild)
    (kids : List RspChild) (h : Zip (ChildRT C emb host op) items kids) :
    ∃ ts, wireKids [] (rchildrenXml C.toCodec host op items) = some ts ∧ AllElem ts ∧
      decRspChildren C emb ts = .ok kids := by
  induction h with
  | nil => exact ⟨[], by simp [rchildrenXml, wireKids_nil, wireKids_elem_cons, wireKids_text_single], by simp [AllElem], by simp [decRspChildren, pure, Except.pure]⟩
  | @cons x k items' kids' hx _ ih =>
    obtain ⟨ts, hw, hall, hd⟩ := ih
    have hcons : ∀ (t : Xml), t.isElem = true → AllElem (t :: ts) := by
      intro t ht y hy
      simp only [List.mem_cons] at hy
      rcases hy with rfl | hy
      · exact ht
      · exact hall y hy
    cases hx with
    | iret l view hv =>
      obtain ⟨ts', hw', hall', hd'⟩ := hv
      refine ⟨.elem "IRETURNVALUE".toList [] ts' :: ts, ?_, hcons _ rfl, ?_⟩
      · simp [rchildrenXml, rchildXml, E, wireKids_nil, wireKids_elem_cons, wireKids_text_single, wireTree_elem, wireAttrs, hw', hw]
      · simp at hd'
        simp [decRspChildren, Xml.name, hd', hd, pure, Except.pure, bind, Except.bind]
    | ctxNone =>
      refine ⟨.elem "PARAMVALUE".toList [("NAME".toList, "EnumerationContext".toList), ("PARAMTYPE".toList, "string".toList)] [] :: ts,
        ?_, hcons _ rfl, ?_⟩
      · have h1 : wireAttr "EnumerationContext".toList = some "EnumerationContext".toList := by decide
        have h2 : wireAttr "string".toList = some "string".toList := by decide
        simp at h1 h2
        simp [rchildrenXml, rchildXml, outXml, E, wireKids_nil, wireKids_elem_cons, wireKids_text_single, wireTree_elem, wireAttrs, h1, h2, hw]
      · have := decParamValue_empty C emb "EnumerationContext".toList "string".toList
        simp at this
        simp [decRspChildren, Xml.name, this, hd, pure, Except.pure, bind, Except.bind]
    | ctx s hs =>
      refine ⟨.elem "PARAMVALUE".toList [("NAME".toList, "EnumerationContext".toList), ("PARAMTYPE".toList, "string".toList)] [valueW s] :: ts,
        ?_, hcons _ rfl, ?_⟩
      · have h1 : wireAttr "EnumerationContext".toList = some "EnumerationContext".toList := by decide
        have h2 : wireAttr "string".toList = some "string".toList := by decide
        have hv : wireTree (Xml.elem ['V', 'A', 'L', 'U', 'E'] [] [Xml.text s]) = some (valueW s) := by
          simpa [valueElem, E] using wire_valueElem hs
        simp at h1 h2
        simp [rchildrenXml, rchildXml, outXml, valueElem, E, wireKids_nil, wireKids_elem_cons, wireKids_text_single, wireTree_elem, wireAttrs, h1, h2, hw] at hv ⊢
        simp [hv]
      · have := decParamValue_wired C emb "EnumerationContext".toList "string".toList s
        simp at this
        simp [decRspChildren, Xml.name, this, hd, pure, Except.pure, bind, Except.bind]
    | eos s hs =>
      refine ⟨.elem "PARAMVALUE".toList [("NAME".toList, "EndOfSequence".toList), ("PARAMTYPE".toList, "boolean".toList)] [valueW (upperAscii s)] :: ts,
        ?_, hcons _ rfl, ?_⟩
      · have h1 : wireAttr "EndOfSequence".toList = some "EndOfSequence".toList := by decide
        have h2 : wireAttr "boolean".toList = some "boolean".toList := by decide
        have hv : wireTree (Xml.elem ['V', 'A', 'L', 'U', 'E'] [] [Xml.text (upperAscii s)]) = some (valueW (upperAscii s)) := by
          simpa [valueElem, E] using wire_valueElem hs
        simp at h1 h2
        simp [rchildrenXml, rchildXml, outXml, valueElem, E, wireKids_nil, wireKids_elem_cons, wireKids_text_single, wireTree_elem, wireAttrs, h1, h2, hw] at hv ⊢
        simp [hv]
      · have := decParamValue_wired C emb "EndOfSequence".toList "boolean".toList (upperAscii s)
        simp at this
        simp [decRspChildren, Xml.name, this, hd, pure, Except.pure, bind, Except.bind]

/-- the reply document for a list of result items, as the client's parser sees it -/
theorem response_roundtrip (C : DecCodec) (depth : Nat) (host : Str) (row : Row) (msgid : Str)
    (items : List RChild) (kids : List RspChild) (hop : StableAttr row.op.toList) (hid : StableAttr msgid)
    (h : Zip (ChildRT C (embAt C depth) host row.op.toList) items kids) :
    ∃ r, wireTree (responseXml C.toCodec host row.op.toList msgid (.ok items)) = some r ∧
      decResponse C (embAt C depth) row.op.toList r = .ok kids := by
  obtain ⟨ts, hw, hall, hd⟩ := rchildren_roundtrip C (embAt C depth) host row.op.toList items kids h
  refine ⟨messageXml (E "SIMPLERSP" [] [.elem "IMETHODRESPONSE".toList [("NAME".toList, row.op.toList)] ts]) msgid, ?_, ?_⟩
  · unfold responseXml
    apply wire_messageXml hid
    simp [E, wireKids_nil, wireKids_elem_cons, wireKids_text_single, wireTree_elem, wireAttrs, hop.wire, hw]
  · have hnt := noText_allElem hall
    unfold decResponse
    rw [decEnvelope_rsp]
    simp [Xml.name, checkNode, attrKeysOk, Xml.attr, hnt, getAttrD, hd, pure, Except.pure, bind, Except.bind]

end Proofs.Ops
