/-
Helper lemmas for C07 (WBEM URI printer / parser model, Pywbem/Model/Uri.lean).
-/
import Pywbem.Model.Uri

namespace Proofs.Uri
open Pywbem.Model.Uri Pywbem.Proto

/-! ### the extracted escape chains are the ones the proofs are about -/

def escChar (c : Char) : Str := if c = '\\' then ['\\', '\\'] else if c = '"' then ['\\', '"'] else [c]

theorem chain_pin : Pywbem.Generated.uriEscapeChain = [('\\', ['\\', '\\']), ('"', ['\\', '"'])] := by decide
theorem refchain_pin : Pywbem.Generated.uriRefEscapeChain = [('\\', ['\\', '\\']), ('"', ['\\', '"'])] := by decide

theorem escape_eq (s : Str) : escape s = s.flatMap escChar := by
  unfold escape applyChain
  rw [chain_pin]
  simp only [List.foldl, replaceChar, List.flatMap_assoc]
  congr 1
  funext c
  by_cases h1 : c = '\\'
  · subst h1; decide
  · by_cases h2 : c = '"'
    · subst h2; decide
    · simp [escChar, h1, h2]

theorem escapeRef_eq (s : Str) : escapeRef s = escape s := by
  unfold escapeRef escape; rw [chain_pin, refchain_pin]

theorem escape_nil : escape [] = [] := by simp [escape_eq]
theorem escape_cons (c : Char) (s : Str) : escape (c :: s) = escChar c ++ escape s := by
  simp [escape_eq]

theorem unescape_cons_ne {c : Char} (h : c ≠ '\\') (r : Str) : unescape (c :: r) = c :: unescape r :=
  unescape.eq_3 c r (fun _ _ hc _ => h hc)

theorem scanQuoted_cons_ne {q c : Char} (h : c ≠ '\\') (r : Str) :
    scanQuoted q (c :: r) = if c = q then some ([], r) else
      (scanQuoted q r).map (fun br => (c :: br.1, br.2)) := by
  rw [scanQuoted.eq_3 q c r (fun _ _ hc _ => h hc)]; simp only [h, if_false]
  cases scanQuoted q r <;> simp

/-- `re.sub(r'\\(.)', r'\1', ·)` undoes the two `.replace` calls, for every string -/
theorem unescape_escape (s : Str) : unescape (escape s) = s := by
  induction s with
  | nil => simp [escape_nil, unescape]
  | cons c r ih =>
    rw [escape_cons]
    by_cases h1 : c = '\\'
    · subst h1; simp [escChar, unescape, ih]
    · by_cases h2 : c = '"'
      · subst h2; simp [escChar, unescape, ih]
      · simp only [escChar, h1, h2, if_false, List.singleton_append]
        rw [unescape_cons_ne h1, ih]

/-- the regex body `(?:[^q\\]|\\.)*q` consumes exactly an escaped string and its closing quote -/
theorem scanQuoted_escape (s rest : Str) :
    scanQuoted '"' (escape s ++ '"' :: rest) = some (escape s, rest) := by
  induction s with
  | nil => simp [escape_nil, scanQuoted_cons_ne (q := '"') (c := '"') (by decide)]
  | cons c r ih =>
    rw [escape_cons]
    by_cases h1 : c = '\\'
    · subst h1
      simp only [escChar, if_true, List.cons_append, List.nil_append]
      rw [scanQuoted.eq_2]; simp [ih]
    · by_cases h2 : c = '"'
      · subst h2
        have : escChar '"' = ['\\', '"'] := by decide
        rw [this]
        simp only [List.cons_append, List.nil_append]
        rw [scanQuoted.eq_2]; simp [ih]
      · simp only [escChar, h1, h2, if_false, List.cons_append]
        rw [scanQuoted_cons_ne h1]; simp [h2, ih]

/-- a text without the quote and without backslashes is consumed as it is -/
theorem scanQuoted_plain (q : Char) (s rest : Str) (h : ∀ c ∈ s, c ≠ q ∧ c ≠ '\\') (hq : q ≠ '\\') :
    scanQuoted q (s ++ q :: rest) = some (s, rest) := by
  induction s with
  | nil => simp [scanQuoted_cons_ne hq]
  | cons c r ih =>
    have hc := h c (by simp)
    have ih' := ih (fun x hx => h x (by simp [hx]))
    simp only [List.cons_append]
    rw [scanQuoted_cons_ne hc.2]; simp [hc.1, ih']

theorem unescape_plain (s : Str) (h : ∀ c ∈ s, c ≠ '\\') : unescape s = s := by
  induction s with
  | nil => simp [unescape]
  | cons c r ih =>
    rw [unescape_cons_ne (h c (by simp)), ih (fun x hx => h x (by simp [hx]))]

/-! ### integers: `str(int)` is read back by `_integerValue_to_int` -/

theorem digitChar_toNat : ∀ n, n < 10 → (digitChar n).toNat = 48 + n := by decide

theorem digitChar_isDigit {n : Nat} (h : n < 10) : isDigit (digitChar n) = true := by
  have := digitChar_toNat n h
  simp [isDigit, this]; omega

theorem digitChar_val {n : Nat} (h : n < 10) : digitVal (digitChar n) = n := by
  simp [digitVal, digitChar_toNat n h]

theorem ofBase_snoc (b : Nat) (v : Char → Nat) (a : Str) (c : Char) :
    ofBase b v (a ++ [c]) = ofBase b v a * b + v c := by
  simp [ofBase, List.foldl_append]

theorem natDigitsF_digits : ∀ f n, ∀ c ∈ natDigitsF f n, isDigit c = true := by
  intro f
  induction f with
  | zero => intro n c h; simp [natDigitsF] at h
  | succ f ih =>
    intro n c h
    unfold natDigitsF at h
    by_cases hn : n < 10
    · simp [hn] at h; subst h; exact digitChar_isDigit hn
    · simp [hn] at h
      rcases h with h | h
      · exact ih _ _ h
      · subst h; exact digitChar_isDigit (Nat.mod_lt _ (by omega))

theorem natDigitsF_val : ∀ f n, n < f → ofBase 10 digitVal (natDigitsF f n) = n := by
  intro f
  induction f with
  | zero => intro n h; omega
  | succ f ih =>
    intro n h
    unfold natDigitsF
    by_cases hn : n < 10
    · simp [hn, ofBase, digitChar_val hn]
    · simp only [hn, if_false]
      rw [ofBase_snoc, ih (n / 10) (by omega), digitChar_val (Nat.mod_lt _ (by omega))]
      omega

theorem natDigitsF_head : ∀ f n, n < f → ∃ h t, natDigitsF f n = h :: t ∧ (n = 0 → h = '0' ∧ t = []) ∧
    (0 < n → isDigit h = true ∧ h ≠ '0') := by
  intro f
  induction f with
  | zero => intro n h; omega
  | succ f ih =>
    intro n h
    unfold natDigitsF
    by_cases hn : n < 10
    · refine ⟨digitChar n, [], by simp [hn], ?_, ?_⟩
      · intro h0; subst h0; exact ⟨by decide, rfl⟩
      · intro hp; refine ⟨digitChar_isDigit hn, ?_⟩
        intro he
        have := digitChar_toNat n hn
        rw [he] at this
        have h48 : ('0' : Char).toNat = 48 := by decide
        omega
    · obtain ⟨h', t', e, _, hpos⟩ := ih (n / 10) (by omega)
      refine ⟨h', t' ++ [digitChar (n % 10)], by simp [hn, e], by intro h0; omega, ?_⟩
      intro _; exact hpos (by omega)

theorem isDigit_ne {c : Char} (h : isDigit c = true) :
    c ≠ '-' ∧ c ≠ '+' ∧ c ≠ 'b' ∧ c ≠ 'B' ∧ c ≠ '\n' ∧ c ≠ '.' ∧ c ≠ 'e' := by
  simp [isDigit] at h
  refine ⟨?_, ?_, ?_, ?_, ?_, ?_, ?_⟩ <;> (intro e; subst e; revert h; decide)

theorem isDigit_cases {c : Char} (h : isDigit c = true) : c = '0' ∨ isOct17 c = true ∨ c = '8' ∨ c = '9' := by
  have e : c = Char.ofNat c.toNat := by simp
  simp [isDigit] at h
  have h0 : ('0' : Char).toNat = 48 := by decide
  have h9 : ('9' : Char).toNat = 57 := by decide
  have h1 : ('1' : Char).toNat = 49 := by decide
  have h7 : ('7' : Char).toNat = 55 := by decide
  simp only [isOct17, h1, h7]
  by_cases a : c.toNat = 48
  · left; rw [e, a]
  · by_cases b : c.toNat = 56
    · right; right; left; rw [e, b]
    · by_cases d : c.toNat = 57
      · right; right; right; rw [e, d]
      · right; left; simp; omega

theorem chomp_of_last {s : Str} (h : ∀ l, s.getLast? = some l → l ≠ '\n') : chomp s = s := by
  unfold chomp
  cases hl : s.getLast? with
  | none => simp
  | some l => have := h l hl; simp; intro e; exact absurd e this

/-- BINARY/OCTAL/DECIMAL/HEX recognisers on a string of decimal digits without leading zero -/
theorem intLitCore_digits (neg : Bool) (n : Nat) :
    intLitCore ((if neg then ['-'] else []) ++ natDigits n) = some (applySign neg n) := by
  obtain ⟨h, t, e, hz, hp⟩ := natDigitsF_head (n + 1) n (by omega)
  have hall := natDigitsF_digits (n + 1) n
  have hval := natDigitsF_val (n + 1) n (by omega)
  unfold natDigits
  rw [e] at hall hval ⊢
  have hd : isDigit h = true := hall h (by simp)
  have hne := isDigit_ne hd
  have hsplit : splitSign ((if neg then ['-'] else []) ++ h :: t) = (neg, h :: t) := by
    cases neg
    · simp only [Bool.false_eq_true, if_false, List.nil_append]
      unfold splitSign
      split
      · rename_i heq; cases heq; exact absurd rfl hne.1
      · rename_i heq; cases heq; exact absurd rfl hne.2.1
      · rfl
    · simp [splitSign]
  unfold intLitCore
  rw [hsplit]
  simp only
  have hlast : ∃ l, (h :: t).getLast? = some l ∧ isDigit l = true := by
    refine ⟨(h :: t).getLast (by simp), List.getLast?_eq_some_getLast _, hall _ (List.getLast_mem _)⟩
  obtain ⟨l, hl, hld⟩ := hlast
  have hlne := isDigit_ne hld
  rw [hl]
  have hb : (l == 'b' || l == 'B') = false := by simp [hlne.2.2.1, hlne.2.2.2.1]
  simp only [hb, Bool.false_and, Bool.false_eq_true, if_false]
  by_cases hn : n = 0
  · obtain ⟨rfl, rfl⟩ := hz hn
    subst hn
    simp [applySign, ofBase]
  · have hpos := hp (by omega)
    have h0 : (h == '0') = false := by simp [hpos.2]
    have hcase : (isOct17 h || h == '8' || h == '9') = true := by
      rcases isDigit_cases hd with c | c | c | c
      · exact absurd c hpos.2
      · simp [c]
      · simp [c]
      · simp [c]
    have htd : t.all isDigit = true := by
      simp only [List.all_eq_true]; intro x hx; exact hall x (by simp [hx])
    simp only [h0, Bool.false_and, Bool.false_eq_true, if_false, hcase, if_true, htd, hval]

theorem natDigits_last (n : Nat) : ∀ l, (natDigits n).getLast? = some l → isDigit l = true := by
  intro l hl
  exact natDigitsF_digits _ _ l (List.mem_of_getLast? hl)

theorem pyInt_eq (i : Int) : ∃ neg n, pyInt i = (if neg then ['-'] else []) ++ natDigits n ∧ applySign neg n = i := by
  cases i with
  | ofNat n => exact ⟨false, n, by simp [pyInt], by simp [applySign]⟩
  | negSucc n => exact ⟨true, n + 1, by simp [pyInt], by simp [applySign]; omega⟩

theorem natDigits_ne_nil (n : Nat) : natDigits n ≠ [] := by
  obtain ⟨h, t, e, _, _⟩ := natDigitsF_head (n + 1) n (by omega)
  unfold natDigits; rw [e]; simp

/-- every integer printed with `str()` is read back as the same integer -/
theorem intLit_pyInt (i : Int) : intLit (pyInt i) = some i := by
  obtain ⟨neg, n, e, hv⟩ := pyInt_eq i
  unfold intLit
  rw [e, intLitCore_digits, hv]

/-! ### `sorted()` on strings: a function of the multiset -/

theorem strLe_refl : ∀ a, strLe a a = true := by
  intro a; induction a with
  | nil => rfl
  | cons x r ih => simp [strLe, ih]

theorem strLe_total : ∀ a b, strLe a b = true ∨ strLe b a = true := by
  intro a
  induction a with
  | nil => intro b; left; rfl
  | cons x r ih =>
    intro b
    cases b with
    | nil => right; rfl
    | cons y t =>
      simp only [strLe]
      by_cases h1 : x.toNat < y.toNat
      · simp [h1]
      · by_cases h2 : y.toNat < x.toNat
        · simp [h2]
        · simp only [h1, h2, if_false]; exact ih t

theorem strLe_antisymm : ∀ a b, strLe a b = true → strLe b a = true → a = b := by
  intro a
  induction a with
  | nil => intro b h1 h2; cases b with
    | nil => rfl
    | cons y t => simp [strLe] at h2
  | cons x r ih =>
    intro b h1 h2
    cases b with
    | nil => simp [strLe] at h1
    | cons y t =>
      simp only [strLe] at h1 h2
      by_cases l1 : x.toNat < y.toNat
      · have : ¬ y.toNat < x.toNat := by omega
        simp [l1, this] at h2
      · by_cases l2 : y.toNat < x.toNat
        · simp [l1, l2] at h1
        · simp only [l1, l2, if_false] at h1 h2
          have e : x = y := Char.toNat_inj.mp (by omega)
          rw [e, ih t h1 h2]

theorem strLe_trans : ∀ a b c, strLe a b = true → strLe b c = true → strLe a c = true := by
  intro a
  induction a with
  | nil => intro b c _ _; rfl
  | cons x r ih =>
    intro b c h1 h2
    cases b with
    | nil => simp [strLe] at h1
    | cons y t =>
      cases c with
      | nil => simp [strLe] at h2
      | cons z u =>
        simp only [strLe] at h1 h2 ⊢
        by_cases l1 : x.toNat < y.toNat
        · by_cases l2 : y.toNat < z.toNat
          · have : x.toNat < z.toNat := by omega
            simp [this]
          · by_cases l3 : z.toNat < y.toNat
            · simp [l2, l3] at h2
            · have : x.toNat < z.toNat := by omega
              simp [this]
        · by_cases l1' : y.toNat < x.toNat
          · simp [l1, l1'] at h1
          · simp only [l1, l1', if_false] at h1
            by_cases l2 : y.toNat < z.toNat
            · have : x.toNat < z.toNat := by omega
              simp [this]
            · by_cases l3 : z.toNat < y.toNat
              · simp [l2, l3] at h2
              · simp only [l2, l3, if_false] at h2
                have a1 : ¬ x.toNat < z.toNat := by omega
                have a2 : ¬ z.toNat < x.toNat := by omega
                simp only [a1, a2, if_false]
                exact ih t u h1 h2

theorem insertSorted_perm (a : Str) (l : List Str) : (insertSorted a l).Perm (a :: l) := by
  induction l with
  | nil => simp [insertSorted]
  | cons b r ih =>
    unfold insertSorted
    by_cases h : strLe a b = true
    · simp [h]
    · simp only [h]
      exact (List.Perm.cons b ih).trans (List.Perm.swap a b r)

theorem sortStrs_perm (l : List Str) : (sortStrs l).Perm l := by
  induction l with
  | nil => simp [sortStrs]
  | cons a r ih =>
    simp only [sortStrs]
    exact (insertSorted_perm a _).trans (List.Perm.cons a ih)

theorem insertSorted_sorted (a : Str) (l : List Str) (h : l.Pairwise (fun x y => strLe x y = true)) :
    (insertSorted a l).Pairwise (fun x y => strLe x y = true) := by
  induction l with
  | nil => simp [insertSorted]
  | cons b r ih =>
    unfold insertSorted
    have hb := List.pairwise_cons.mp h
    by_cases hab : strLe a b = true
    · simp only [hab, if_true]
      refine List.pairwise_cons.mpr ⟨?_, h⟩
      intro y hy
      rcases List.mem_cons.mp hy with rfl | hy
      · exact hab
      · exact strLe_trans _ _ _ hab (hb.1 y hy)
    · simp only [hab]
      have hba : strLe b a = true := by
        rcases strLe_total a b with t | t
        · exact absurd t hab
        · exact t
      refine List.pairwise_cons.mpr ⟨?_, ih hb.2⟩
      intro y hy
      have := (insertSorted_perm a r).mem_iff.mp hy
      rcases List.mem_cons.mp this with rfl | hy
      · exact hba
      · exact hb.1 y hy

theorem sortStrs_sorted (l : List Str) : (sortStrs l).Pairwise (fun x y => strLe x y = true) := by
  induction l with
  | nil => simp [sortStrs]
  | cons a r ih => exact insertSorted_sorted a _ ih

/-- Python's `sorted()` gives the same list for every permutation of its input -/
theorem sortStrs_of_perm {l₁ l₂ : List Str} (h : l₁.Perm l₂) : sortStrs l₁ = sortStrs l₂ := by
  apply List.Perm.eq_of_pairwise (le := fun x y => strLe x y = true)
  · intro a b _ _ h1 h2; exact strLe_antisymm a b h1 h2
  · exact sortStrs_sorted l₁
  · exact sortStrs_sorted l₂
  · exact (sortStrs_perm l₁).trans (h.trans (sortStrs_perm l₂).symm)

/-- a list that is already sorted is left alone -/
theorem sortStrs_of_sorted {l : List Str} (h : l.Pairwise (fun x y => strLe x y = true)) : sortStrs l = l := by
  apply List.Perm.eq_of_pairwise (le := fun x y => strLe x y = true)
  · intro a b _ _ h1 h2; exact strLe_antisymm a b h1 h2
  · exact sortStrs_sorted l
  · exact h
  · exact sortStrs_perm l

/-! ### paths that differ only in lexical case of names and in key order -/

def OptLowerEq (T : Tab) : Option Str → Option Str → Prop
  | none, none => True
  | some a, some b => T.lowerS a = T.lowerS b
  | _, _ => False

mutual
/-- `p` and `q` differ only in the lexical case of host, namespace, class name and key names and in the
    order of keybindings, also inside nested reference keys -/
inductive PathEquiv (T : Tab) : Path → Path → Prop
  | mk {h h' n n' c c' ks ks'} : OptLowerEq T h h' → OptLowerEq T n n' → T.lowerS c = T.lowerS c' →
      KeysEquiv T ks ks' → PathEquiv T (.mk h n c ks) (.mk h' n' c' ks')
inductive KeysEquiv (T : Tab) : Keys → Keys → Prop
  | nil : KeysEquiv T .nil .nil
  | cons {k k' v v' r r'} : T.lowerS k = T.lowerS k' → ValEquiv T v v' → KeysEquiv T r r' →
      KeysEquiv T (.cons k v r) (.cons k' v' r')
  | swap {k v k2 v2 r} : KeysEquiv T (.cons k v (.cons k2 v2 r)) (.cons k2 v2 (.cons k v r))
  | trans {a b c} : KeysEquiv T a b → KeysEquiv T b c → KeysEquiv T a c
inductive ValEquiv (T : Tab) : KeyVal → KeyVal → Prop
  | refl {v} : ValEquiv T v v
  | ref {p q} : PathEquiv T p q → ValEquiv T (.ref p) (.ref q)
end

def foldNames (T : Tab) (ks : Keys) : List Str := ks.names.map T.foldS
def lowerNames (T : Tab) (ks : Keys) : List Str := ks.names.map T.lowerS

mutual
/-- the NocaseDict invariant: key names are pairwise different after casefold (at every nesting level) -/
def ValWF (T : Tab) : KeyVal → Prop
  | .ref p => PathWF T p
  | _ => True
def PathWF (T : Tab) : Path → Prop
  | .mk _ _ _ ks => (foldNames T ks).Nodup ∧ KeysWF T ks
def KeysWF (T : Tab) : Keys → Prop
  | .nil => True
  | .cons _ v r => ValWF T v ∧ KeysWF T r
end

theorem printKeys_names (T : Tab) (fmt : Fmt) : ∀ ks, (printKeys T fmt ks).map (·.1) = ks.names
  | .nil => by simp [printKeys, Keys.names]
  | .cons k v r => by simp [printKeys, Keys.names, printKeys_names T fmt r]

theorem printKeys_nil_iff (T : Tab) (fmt : Fmt) (ks : Keys) : printKeys T fmt ks = [] ↔ ks = .nil := by
  cases ks <;> simp [printKeys]

theorem optLower_case {T : Tab} {a b : Option Str} (h : OptLowerEq T a b) :
    a.isSome = b.isSome ∧ a.map (caseOf T .canonical) = b.map (caseOf T .canonical) := by
  cases a <;> cases b <;> simp_all [OptLowerEq, caseOf]

theorem headStr_canon_eq {T : Tab} {h h' n n' : Option Str} {c c' : Str}
    (hh : OptLowerEq T h h') (hn : OptLowerEq T n n') (hc : T.lowerS c = T.lowerS c') :
    headStr T .canonical h n c = headStr T .canonical h' n' c' := by
  cases h <;> cases h' <;> cases n <;> cases n' <;> simp_all [OptLowerEq, headStr, caseOf]

/-- what the canonical body depends on -/
theorem bodyStr_canon_congr {T : Tab} {a b : List (Str × Str)}
    (hnil : a = [] ↔ b = [])
    (hperm : (a.map (fun kv => T.lowerS kv.1)).Perm (b.map (fun kv => T.lowerS kv.1)))
    (hlook : ∀ l, lookupFold T l a = lookupFold T l b) :
    bodyStr T .canonical a = bodyStr T .canonical b := by
  cases a with
  | nil => have := hnil.mp rfl; subst this; rfl
  | cons x xs =>
    cases b with
    | nil => have := hnil.mpr rfl; simp at this
    | cons y ys =>
      simp only [bodyStr, caseOf, if_true]
      rw [sortStrs_of_perm hperm]
      congr 2
      apply List.map_congr_left
      intro k _
      rw [hlook k]

structure KeysRel (T : Tab) (a b : Keys) : Prop where
  perm : (lowerNames T a).Perm (lowerNames T b)
  look : ∀ l, lookupFold T l (printKeys T .canonical a) = lookupFold T l (printKeys T .canonical b)
  nodup : (foldNames T b).Nodup
  wf : KeysWF T b
  nil_iff : a = .nil ↔ b = .nil

theorem foldNames_perm_of_lower {T : Tab} (hfl : ∀ s, T.foldS (T.lowerS s) = T.foldS s) {a b : Keys}
    (h : (lowerNames T a).Perm (lowerNames T b)) : (foldNames T a).Perm (foldNames T b) := by
  have e : ∀ ks : Keys, foldNames T ks = (lowerNames T ks).map T.foldS := by
    intro ks; simp [foldNames, lowerNames, List.map_map, Function.comp_def, hfl]
  rw [e, e]; exact h.map _

mutual
theorem path_canon {T : Tab} (hfl : ∀ s, T.foldS (T.lowerS s) = T.foldS s) {p q : Path} :
    PathEquiv T p q → PathWF T p → toUri T .canonical p = toUri T .canonical q ∧ PathWF T q
  | .mk hh hn hc hk, hw => by
    rename_i h h' n n' c c' ks ks'
    have hw' : (foldNames T ks).Nodup ∧ KeysWF T ks := by simpa [PathWF] using hw
    have r := keys_canon hfl hk hw'.1 hw'.2
    refine ⟨?_, by simpa [PathWF] using ⟨r.nodup, r.wf⟩⟩
    simp only [toUri]
    rw [headStr_canon_eq hh hn hc]
    congr 1
    apply bodyStr_canon_congr
    · rw [printKeys_nil_iff, printKeys_nil_iff]; exact r.nil_iff
    · have e : ∀ ks : Keys, (printKeys T .canonical ks).map (fun kv => T.lowerS kv.1) = lowerNames T ks := by
        intro ks; unfold lowerNames; rw [← printKeys_names T .canonical ks, List.map_map]; rfl
      rw [e, e]; exact r.perm
    · exact r.look
theorem keys_canon {T : Tab} (hfl : ∀ s, T.foldS (T.lowerS s) = T.foldS s) {a b : Keys} :
    KeysEquiv T a b → (foldNames T a).Nodup → KeysWF T a → KeysRel T a b
  | .nil, hn, hw => ⟨List.Perm.refl _, fun _ => rfl, hn, hw, Iff.rfl⟩
  | .cons hk hv hr, hn, hw => by
    rename_i k k' v v' r r'
    have hn' : T.foldS k ∉ foldNames T r ∧ (foldNames T r).Nodup := by
      simpa [foldNames, Keys.names] using hn
    have hw' : ValWF T v ∧ KeysWF T r := by simpa [KeysWF] using hw
    have rv := val_canon hfl hv hw'.1
    have rr := keys_canon hfl hr hn'.2 hw'.2
    have hf : T.foldS k = T.foldS k' := by rw [← hfl k, hk, hfl]
    refine ⟨?_, ?_, ?_, ?_, by simp⟩
    · simp only [lowerNames, Keys.names, List.map_cons, hk]
      exact List.Perm.cons _ rr.perm
    · intro l; simp only [printKeys, lookupFold, hf, rv.1, rr.look l]
    · have pm := foldNames_perm_of_lower hfl rr.perm
      simp only [foldNames, Keys.names, List.map_cons, List.nodup_cons]
      refine ⟨?_, rr.nodup⟩
      intro hm; rw [← hf] at hm
      exact hn'.1 (pm.mem_iff.mpr hm)
    · simpa [KeysWF] using ⟨rv.2, rr.wf⟩
  | .swap, hn, hw => by
    rename_i k v k2 v2 r
    have hn' : (T.foldS k ≠ T.foldS k2 ∧ T.foldS k ∉ foldNames T r) ∧ T.foldS k2 ∉ foldNames T r ∧
        (foldNames T r).Nodup := by
      simpa [foldNames, Keys.names] using hn
    have hw' : ValWF T v ∧ ValWF T v2 ∧ KeysWF T r := by simpa [KeysWF] using hw
    refine ⟨?_, ?_, ?_, ?_, by simp⟩
    · simp only [lowerNames, Keys.names, List.map_cons]; exact List.Perm.swap _ _ _
    · intro l
      simp only [printKeys, lookupFold]
      by_cases e1 : T.foldS k = T.foldS l
      · have : ¬ T.foldS k2 = T.foldS l := by intro e2; exact hn'.1.1 (e1.trans e2.symm)
        simp [e1, this]
      · simp [e1]
    · simp only [foldNames, Keys.names, List.map_cons, List.nodup_cons, List.mem_cons, not_or]
      exact ⟨⟨fun e => hn'.1.1 e.symm, hn'.2.1⟩, hn'.1.2, hn'.2.2⟩
    · simpa [KeysWF] using ⟨hw'.2.1, hw'.1, hw'.2.2⟩
  | .trans h1 h2, hn, hw => by
    have r1 := keys_canon hfl h1 hn hw
    have r2 := keys_canon hfl h2 r1.nodup r1.wf
    exact ⟨r1.perm.trans r2.perm, fun l => (r1.look l).trans (r2.look l), r2.nodup, r2.wf,
           r1.nil_iff.trans r2.nil_iff⟩
theorem val_canon {T : Tab} (hfl : ∀ s, T.foldS (T.lowerS s) = T.foldS s) {v w : KeyVal} :
    ValEquiv T v w → ValWF T v → printVal T .canonical v = printVal T .canonical w ∧ ValWF T w
  | .refl, hw => ⟨rfl, hw⟩
  | .ref hp, hw => by
    have r := path_canon hfl hp (by simpa [ValWF] using hw)
    exact ⟨by simp only [printVal, r.1], by simpa [ValWF] using r.2⟩
end

/-! ### what the proofs need from Python's `\w`, `str.lower()`, `str.casefold()` -/

structure TabOk (T : Tab) : Prop where
  /-- casefold ignores what lower() changes -/
  fold_lower : ∀ s, T.foldS (T.lowerS s) = T.foldS s
  /-- lower() is idempotent -/
  lower_idem : ∀ s, T.lowerS (T.lowerS s) = T.lowerS s
  /-- the URI punctuation is not matched by `\w` -/
  not_word : ∀ c ∈ ['/', ':', '.', ',', '=', '"', '\'', '\\', '\n', '-', '+', '*', '@', '[', ']', '%', ' '], T.word c = false
  /-- ASCII digits are matched by `\w` -/
  digit_word : ∀ c, isDigit c = true → T.word c = true
  /-- on ASCII characters lower() is the ASCII mapping -/
  lower_ascii : ∀ c : Char, c.toNat < 128 → T.lower c = [lowerAscii c]

theorem ofNat_small : ∀ n, n < 128 → (Char.ofNat n).toNat = n := by decide

theorem lowerAscii_idem (c : Char) : lowerAscii (lowerAscii c) = lowerAscii c := by
  unfold lowerAscii
  by_cases h : 65 ≤ c.toNat ∧ c.toNat ≤ 90
  · simp only [h, and_self, if_true]
    have := ofNat_small (c.toNat + 32) (by omega)
    rw [this]
    have : ¬ (65 ≤ c.toNat + 32 ∧ c.toNat + 32 ≤ 90) := by omega
    simp only [this, if_false]
  · simp [h]

theorem ascii_lowerS (s : Str) : asciiTab.lowerS s = s.map lowerAscii := by
  induction s with
  | nil => rfl
  | cons c r ih => simp [Tab.lowerS, asciiTab] at ih ⊢; exact ih

theorem ascii_foldS (s : Str) : asciiTab.foldS s = s.map lowerAscii := by
  induction s with
  | nil => rfl
  | cons c r ih => simp [Tab.foldS, asciiTab] at ih ⊢; exact ih

theorem asciiTabOk : TabOk asciiTab where
  fold_lower s := by simp [ascii_lowerS, ascii_foldS, lowerAscii_idem]
  lower_idem s := by simp [ascii_lowerS, lowerAscii_idem]
  not_word := by decide
  lower_ascii c _ := rfl
  digit_word c h := by
    simp only [isDigit, Bool.and_eq_true, decide_eq_true_eq] at h
    have e0 : ('0' : Char).toNat = 48 := by decide
    have e9 : ('9' : Char).toNat = 57 := by decide
    simp only [asciiTab, asciiWord, Char.isAlphanum, Char.isDigit, Bool.or_eq_true, Bool.and_eq_true, decide_eq_true_eq]
    left; right
    have a : c.val.toNat = c.toNat := rfl
    constructor <;> (apply UInt32.le_iff_toNat_le.mpr; first | (show 48 ≤ c.val.toNat; omega) | (show c.val.toNat ≤ 57; omega))

/-! ### totality of the parser: only ValueError, and the fuel `s.length + 1` is never used up -/

theorem dropWhile_len (p : Char → Bool) (l : Str) : (l.dropWhile p).length ≤ l.length :=
  (List.dropWhile_sublist p).length_le
theorem takeWhile_len (p : Char → Bool) (l : Str) : (l.takeWhile p).length ≤ l.length :=
  (List.takeWhile_sublist p).length_le

theorem stripScheme_len (T : Tab) (s : Str) : (stripScheme T s).2.length ≤ s.length := by
  unfold stripScheme
  have := dropWhile_len (schemeChar T) s
  split
  · rename_i r heq; rw [heq] at this
    split <;> simp at this ⊢ <;> omega
  · simp

theorem stripAuth_len (T : Tab) (s : Str) : (stripAuth T s).2.length ≤ s.length := by
  unfold stripAuth
  split
  · rename_i r; have := dropWhile_len (authChar T) r; simp; omega
  · simp

theorem stripSlash_len {a : Bool} {s r : Str} {b : Bool} (h : stripSlash a s = some (r, b)) : r.length ≤ s.length := by
  unfold stripSlash at h
  split at h
  · simp at h; obtain ⟨rfl, _⟩ := h; simp
  · split at h <;> simp at h; obtain ⟨rfl, _⟩ := h; simp

theorem splitNs_len {T : Tab} {p0 : Bool} {s rest : Str} {ns : Option Str}
    (h : splitNs T p0 s = some (ns, rest)) : rest.length ≤ s.length := by
  unfold splitNs at h
  have := dropWhile_len (nsChar T) s
  split at h
  · rename_i r5 _ heq; rw [heq] at this; simp at h; obtain ⟨_, rfl⟩ := h; simp at this; omega
  · split at h
    · simp at h; obtain ⟨_, rfl⟩ := h; simp
    · split at h <;> simp at h; obtain ⟨_, rfl⟩ := h; simp

theorem parseHead_len {T : Tab} {s : Str} {h : Head} (e : parseHead T s = some h) : h.rest.length ≤ s.length := by
  unfold parseHead at e
  simp only at e
  split at e
  · simp at e
  · rename_i r3 pos0 h1
    split at e
    · simp at e
    · rename_i ns rest h2
      simp at e; subst e
      have a := stripScheme_len T s
      have b := stripAuth_len T (stripScheme T s).2
      have c := stripSlash_len h1
      have d := splitNs_len h2
      simp only; omega

theorem unescape_single (c : Char) : unescape [c] = [c] := by
  rw [unescape.eq_3 c [] (fun _ _ _ h => by cases h)]; simp [unescape]

theorem unescape_len_aux : ∀ s : Str, (unescape s).length ≤ s.length ∧
    ∀ c, (unescape (c :: s)).length ≤ s.length + 1 := by
  intro s
  induction s with
  | nil => exact ⟨by simp [unescape], fun c => by simp [unescape_single]⟩
  | cons d r ih =>
    refine ⟨ih.2 d, fun c => ?_⟩
    by_cases hc : c = '\\'
    · subst hc
      rw [unescape.eq_2]
      split
      · have := ih.2 d; simp; omega
      · have := ih.1; simp; omega
    · rw [unescape_cons_ne hc]; have := ih.2 d; simp; omega

theorem unescape_len (s : Str) : (unescape s).length ≤ s.length := (unescape_len_aux s).1

theorem scanQuoted_single (q c : Char) : scanQuoted q [c] = if c = '\\' then none else if c = q then some ([], []) else none := by
  rw [scanQuoted.eq_3 q c [] (fun _ _ _ h => by cases h)]; simp [scanQuoted]

theorem scanQuoted_len_aux (q : Char) : ∀ s : Str,
    (∀ b rest, scanQuoted q s = some (b, rest) → b.length + rest.length + 1 ≤ s.length) ∧
    (∀ c b rest, scanQuoted q (c :: s) = some (b, rest) → b.length + rest.length + 1 ≤ s.length + 1) := by
  intro s
  induction s with
  | nil =>
    refine ⟨fun b rest h => by simp [scanQuoted] at h, fun c b rest h => ?_⟩
    rw [scanQuoted_single] at h
    split at h
    · simp at h
    · split at h <;> simp at h; obtain ⟨rfl, rfl⟩ := h; simp
  | cons d r ih =>
    refine ⟨ih.2 d, fun c b rest h => ?_⟩
    by_cases hc : c = '\\'
    · subst hc
      rw [scanQuoted.eq_2] at h
      split at h
      · simp at h
      · cases hs : scanQuoted q r with
        | none => simp [hs] at h
        | some br =>
          obtain ⟨b', rest'⟩ := br
          simp [hs] at h; obtain ⟨rfl, rfl⟩ := h
          have := ih.1 _ _ hs; simp; omega
    · rw [scanQuoted_cons_ne hc] at h
      split at h
      · simp at h; obtain ⟨rfl, rfl⟩ := h; simp
      · cases hs : scanQuoted q (d :: r) with
        | none => simp [hs] at h
        | some br =>
          obtain ⟨b', rest'⟩ := br
          simp [hs] at h; obtain ⟨rfl, rfl⟩ := h
          have := ih.2 d _ _ hs; simp; omega

theorem scanQuoted_len (q : Char) (s b rest : Str) (h : scanQuoted q s = some (b, rest)) :
    b.length + rest.length + 1 ≤ s.length := (scanQuoted_len_aux q s).1 b rest h

theorem scanVal_len {s v rest : Str} (h : scanVal s = some (v, rest)) : v.length + rest.length ≤ s.length := by
  unfold scanVal at h
  split at h
  · rename_i r
    cases hs : scanQuoted '\'' r with
    | none => simp [hs] at h
    | some br => simp [hs] at h; obtain ⟨rfl, rfl⟩ := h; have := scanQuoted_len _ _ _ _ hs; simp; omega
  · rename_i r
    cases hs : scanQuoted '"' r with
    | none => simp [hs] at h
    | some br => simp [hs] at h; obtain ⟨rfl, rfl⟩ := h; have := scanQuoted_len _ _ _ _ hs; simp; omega
  · split at h
    · simp at h
    · simp at h; obtain ⟨rfl, rfl⟩ := h
      have := congrArg List.length (List.takeWhile_append_dropWhile (p := nqChar) (l := s))
      simp only [List.length_append] at this; omega

theorem scanAssign_len {T : Tab} {s k v rest : Str} (h : scanAssign T s = some ((k, v), rest)) :
    v.length + rest.length < s.length := by
  unfold scanAssign at h
  simp only at h
  split at h
  · simp at h
  · split at h
    · rename_i r heq
      cases hv : scanVal r with
      | none => simp [hv] at h
      | some vr =>
        simp [hv] at h; obtain ⟨⟨_, rfl⟩, rfl⟩ := h
        have a := scanVal_len hv
        have b := dropWhile_len T.word s
        rw [heq] at b; simp at b; omega
    · simp at h

theorem scanAssigns_len {T : Tab} : ∀ (f : Nat) (s : Str) (l : List (Str × Str)), scanAssigns T f s = some l →
    ∀ kv ∈ l, kv.2.length < s.length := by
  intro f
  induction f with
  | zero => intro s l h; simp [scanAssigns] at h
  | succ f ih =>
    intro s l h kv hkv
    unfold scanAssigns at h
    cases ha : scanAssign T s with
    | none => simp [ha] at h
    | some x =>
      obtain ⟨⟨k, v⟩, rest⟩ := x
      have hl := scanAssign_len ha
      simp only [ha] at h
      split at h
      · simp at h; subst h; simp at hkv; subst hkv; simp; omega
      · rename_i r
        cases hr : scanAssigns T f r with
        | none => simp [hr] at h
        | some l' =>
          simp [hr] at h; subst h
          simp at hl
          rcases List.mem_cons.mp hkv with rfl | hm
          · simp; omega
          · have := ih r l' hr kv hm; omega
      · simp at h

def OnlyValueError {α : Type} : Except PyExc α → Prop
  | .ok _ => True
  | .error e => e = .valueError

theorem kbVal_total {T : Tab} {rec : Str → Except PyExc Path} {v : Str}
    (h : OnlyValueError (rec (unescape (stripQuotes v)))) : OnlyValueError (kbVal T rec v) := by
  unfold kbVal
  split
  · simp only
    split
    · trivial
    · split <;> trivial
    · rename_i e hne heq; rw [heq] at h; exact absurd h (by simpa [OnlyValueError] using hne)
  · split
    · simp only; split <;> simp [OnlyValueError]
    · split
      · trivial
      · split
        · trivial
        · split
          · trivial
          · split
            · trivial
            · split <;> simp [OnlyValueError]

theorem kbVals_total {T : Tab} {rec : Str → Except PyExc Path} : ∀ (l : List (Str × Str)),
    (∀ kv ∈ l, OnlyValueError (rec (unescape (stripQuotes kv.2)))) → OnlyValueError (kbVals T rec l)
  | [], _ => by simp [kbVals, OnlyValueError]
  | (k, v) :: r, h => by
    have hv := kbVal_total (T := T) (h (k, v) (by simp))
    have hr := kbVals_total (T := T) r (fun kv hkv => h kv (by simp [hkv]))
    unfold kbVals
    cases e1 : kbVal T rec v with
    | error e => rw [e1] at hv; simpa [OnlyValueError] using hv
    | ok x =>
      cases e2 : kbVals T rec r with
      | error e => rw [e2] at hr; simpa [OnlyValueError] using hr
      | ok l => simp [OnlyValueError]

theorem stripQuotes_len (v : Str) : (stripQuotes v).length ≤ v.length := by
  simp [stripQuotes]; omega

theorem stepPrefix_len {T : Tab} {s : Str} {h : Head} {c : Str} {assigns : List (Str × Str)}
    (e : stepPrefix T s = some (h, c, assigns)) : ∀ kv ∈ assigns, kv.2.length < s.length := by
  unfold stepPrefix at e
  split at e
  · simp at e
  · rename_i hd hph
    have hlen := parseHead_len hph
    split at e
    · rename_i body hbody
      split at e
      · simp at e
      · cases hsa : scanAssigns T ((body.takeWhile (· != '\n')).length + 1) (body.takeWhile (· != '\n')) with
        | none => simp [hsa] at e
        | some l =>
          simp [hsa] at e
          obtain ⟨_, _, rfl⟩ := e
          intro kv hkv
          have a := scanAssigns_len _ _ _ hsa kv hkv
          have b := takeWhile_len (· != '\n') body
          have c := dropWhile_len T.word hd.rest
          rw [hbody] at c; simp at c
          omega
    · simp at e

theorem fromUriStep_total {T : Tab} {rec : Str → Except PyExc Path} {s : Str}
    (h : ∀ t : Str, t.length < s.length → OnlyValueError (rec t)) : OnlyValueError (fromUriStep T rec s) := by
  unfold fromUriStep
  split
  · simp [OnlyValueError]
  · rename_i hd c assigns hsp
    have hall : ∀ kv ∈ assigns, OnlyValueError (rec (unescape (stripQuotes kv.2))) := by
      intro kv hkv
      apply h
      have a := stepPrefix_len hsp kv hkv
      have d := unescape_len (stripQuotes kv.2)
      have e := stripQuotes_len kv.2
      omega
    have := kbVals_total (T := T) assigns hall
    split
    · rename_i e he; rw [he] at this; simpa [OnlyValueError] using this
    · trivial

theorem fromUriF_total (T : Tab) : ∀ (n : Nat) (s : Str), s.length < n → OnlyValueError (fromUriF T n s) := by
  intro n
  induction n with
  | zero => intro s h; omega
  | succ n ih =>
    intro s h
    simp only [fromUriF]
    exact fromUriStep_total (fun t ht => ih t (by omega))

/-! ### more fuel never changes an answer -/

/-- `r2` agrees with `r1` wherever `r1` did not run out of fuel -/
def Extends (r1 r2 : Str → Except PyExc Path) : Prop :=
  ∀ t, r1 t ≠ .error .recursionError → r2 t = r1 t

theorem kbVal_mono {T : Tab} {r1 r2 : Str → Except PyExc Path} (hx : Extends r1 r2) (v : Str)
    (h : kbVal T r1 v ≠ .error .recursionError) : kbVal T r2 v = kbVal T r1 v := by
  unfold kbVal at h ⊢
  split
  · rename_i hq
    simp only [hq, if_true] at h ⊢
    have key : r1 (unescape (stripQuotes v)) ≠ .error .recursionError := by
      intro e; rw [e] at h; exact h rfl
    rw [hx _ key]
  · rfl

theorem kbVals_mono {T : Tab} {r1 r2 : Str → Except PyExc Path} (hx : Extends r1 r2) :
    ∀ l : List (Str × Str), kbVals T r1 l ≠ .error .recursionError → kbVals T r2 l = kbVals T r1 l
  | [], _ => by simp [kbVals]
  | (k, v) :: r, h => by
    unfold kbVals at h ⊢
    cases e1 : kbVal T r1 v with
    | error e =>
      have : kbVal T r1 v ≠ .error .recursionError := by
        intro e'; rw [e'] at h; exact h rfl
      rw [kbVal_mono hx v this, e1]
    | ok x =>
      have : kbVal T r1 v ≠ .error .recursionError := by rw [e1]; intro e'; cases e'
      rw [kbVal_mono hx v this, e1]
      rw [e1] at h
      simp only at h ⊢
      have hr : kbVals T r1 r ≠ .error .recursionError := by
        intro e'; rw [e'] at h; exact h rfl
      rw [kbVals_mono hx r hr]

theorem fromUriStep_mono {T : Tab} {r1 r2 : Str → Except PyExc Path} (hx : Extends r1 r2) (s : Str)
    (h : fromUriStep T r1 s ≠ .error .recursionError) : fromUriStep T r2 s = fromUriStep T r1 s := by
  unfold fromUriStep at h ⊢
  cases hsp : stepPrefix T s with
  | none => rfl
  | some x =>
    obtain ⟨hd, c, assigns⟩ := x
    simp only [hsp] at h ⊢
    have hk : kbVals T r1 assigns ≠ .error .recursionError := by
      intro e'; rw [e'] at h; exact h rfl
    rw [kbVals_mono hx assigns hk]

theorem fromUriF_extends (T : Tab) : ∀ n, Extends (fromUriF T n) (fromUriF T (n + 1)) := by
  intro n
  induction n with
  | zero => intro t h; exact absurd rfl h
  | succ n ih =>
    intro t h
    simp only [fromUriF] at h ⊢
    exact fromUriStep_mono ih t h

theorem fromUriF_mono (T : Tab) {n m : Nat} (hnm : n ≤ m) {t : Str} (h : fromUriF T n t ≠ .error .recursionError) :
    fromUriF T m t = fromUriF T n t := by
  induction hnm with
  | refl => rfl
  | step hle ih => rw [← ih]; exact fromUriF_extends T _ t (by rw [ih]; exact h)

/-! ### round trip, step 1: tokens of the keybinding regex -/

/-- a printed value is one `_KB_VAL` token when followed by the end or a comma, and has no newline -/
structure Tok (pv : Str) : Prop where
  nonl : ∀ c ∈ pv, c ≠ '\n'
  scan : ∀ rest, (rest = [] ∨ ∃ r, rest = ',' :: r) → scanVal (pv ++ rest) = some (pv, rest)

theorem takeWhile_all {p : Char → Bool} {a : Str} (h : ∀ c ∈ a, p c = true) (b : Str) :
    (a ++ b).takeWhile p = a ++ b.takeWhile p := List.takeWhile_append_of_pos h
theorem dropWhile_all {p : Char → Bool} {a : Str} (h : ∀ c ∈ a, p c = true) (b : Str) :
    (a ++ b).dropWhile p = b.dropWhile p := List.dropWhile_append_of_pos h

theorem takeWhile_stop {p : Char → Bool} {a : Str} (h : ∀ c ∈ a, p c = true) {x : Char} (hx : p x = false) (b : Str) :
    (a ++ x :: b).takeWhile p = a := by
  rw [takeWhile_all h]; simp [hx]
theorem dropWhile_stop {p : Char → Bool} {a : Str} (h : ∀ c ∈ a, p c = true) {x : Char} (hx : p x = false) (b : Str) :
    (a ++ x :: b).dropWhile p = x :: b := by
  rw [dropWhile_all h]; simp [hx]
theorem takeWhile_end {p : Char → Bool} {a : Str} (h : ∀ c ∈ a, p c = true) : a.takeWhile p = a := by
  have := takeWhile_all h []; simpa using this
theorem dropWhile_end {p : Char → Bool} {a : Str} (h : ∀ c ∈ a, p c = true) : a.dropWhile p = [] := by
  have := dropWhile_all h []; simpa using this

theorem tok_unquoted {pv : Str} (hne : pv ≠ []) (h : ∀ c ∈ pv, nqChar c = true ∧ c ≠ '\n') : Tok pv where
  nonl c hc := (h c hc).2
  scan rest hr := by
    cases pv with
    | nil => exact absurd rfl hne
    | cons x xs =>
      have hx := (h x (by simp)).1
      have hall : ∀ c ∈ x :: xs, nqChar c = true := fun c hc => (h c hc).1
      have tk : ((x :: xs) ++ rest).takeWhile nqChar = x :: xs := by
        rcases hr with rfl | ⟨r, rfl⟩
        · simpa using takeWhile_end hall
        · exact takeWhile_stop hall (by decide) r
      have dk : ((x :: xs) ++ rest).dropWhile nqChar = rest := by
        rcases hr with rfl | ⟨r, rfl⟩
        · simpa using dropWhile_end hall
        · exact dropWhile_stop hall (by decide) r
      have hx1 : x ≠ '\'' := by intro e; subst e; revert hx; decide
      have hx2 : x ≠ '"' := by intro e; subst e; revert hx; decide
      unfold scanVal
      split
      · rename_i heq; simp at heq; exact absurd heq.1 hx1
      · rename_i heq; simp at heq; exact absurd heq.1 hx2
      · rw [tk, dk]; simp

theorem escape_nonl {s : Str} (h : ∀ c ∈ s, c ≠ '\n') : ∀ c ∈ escape s, c ≠ '\n' := by
  intro c hc
  rw [escape_eq] at hc
  simp only [List.mem_flatMap] at hc
  obtain ⟨x, hx, hcx⟩ := hc
  have := h x hx
  unfold escChar at hcx
  split at hcx
  · simp at hcx; rcases hcx with rfl | rfl <;> decide
  · split at hcx
    · simp at hcx; rcases hcx with rfl | rfl <;> decide
    · simp at hcx; subst hcx; exact this

theorem tok_quoted_escape {s : Str} (h : ∀ c ∈ s, c ≠ '\n') : Tok (quote (escape s)) where
  nonl c hc := by
    simp only [quote, List.mem_cons, List.mem_append, List.not_mem_nil, or_false] at hc
    rcases hc with rfl | hc | rfl
    · decide
    · exact escape_nonl h c hc
    · decide
  scan rest _ := by simp [scanVal, quote, scanQuoted_escape]

theorem tok_quoted_plain {s : Str} (h : ∀ c ∈ s, c ≠ '"' ∧ c ≠ '\\' ∧ c ≠ '\n') : Tok (quote s) where
  nonl c hc := by
    simp only [quote, List.mem_cons, List.mem_append, List.not_mem_nil, or_false] at hc
    rcases hc with rfl | hc | rfl
    · decide
    · exact (h c hc).2.2
    · decide
  scan rest _ := by
    have := scanQuoted_plain '"' s rest (fun c hc => ⟨(h c hc).1, (h c hc).2.1⟩) (by decide)
    simp [scanVal, quote, this]

/-- `\w+=VAL` on a printed `name=value` -/
theorem scanAssign_item {T : Tab} (hT : TabOk T) {k pv : Str} (hk : k ≠ [] ∧ ∀ c ∈ k, T.word c = true) (ht : Tok pv)
    (rest : Str) (hr : rest = [] ∨ ∃ r, rest = ',' :: r) :
    scanAssign T (k ++ '=' :: pv ++ rest) = some ((k, pv), rest) := by
  have heq : T.word '=' = false := hT.not_word '=' (by simp)
  unfold scanAssign
  have e1 : (k ++ '=' :: pv ++ rest).takeWhile T.word = k := by
    have : k ++ '=' :: pv ++ rest = k ++ '=' :: (pv ++ rest) := by simp
    rw [this]; exact takeWhile_stop hk.2 heq _
  have e2 : (k ++ '=' :: pv ++ rest).dropWhile T.word = '=' :: (pv ++ rest) := by
    have : k ++ '=' :: pv ++ rest = k ++ '=' :: (pv ++ rest) := by simp
    rw [this]; exact dropWhile_stop hk.2 heq _
  simp only [e1, e2, hk.1, if_false, ht.scan rest hr, Option.map_some]

def itemStr (kv : Str × Str) : Str := kv.1 ++ '=' :: kv.2

theorem joinComma_cons2 (a b : Str) (r : List Str) : joinComma (a :: b :: r) = a ++ ',' :: joinComma (b :: r) := rfl

/-- WBEM_URI_KEYBINDINGS_REGEXP / FINDALL on the printed keybindings -/
theorem scanAssigns_items {T : Tab} (hT : TabOk T) : ∀ (items : List (Str × Str)), items ≠ [] →
    (∀ kv ∈ items, (kv.1 ≠ [] ∧ ∀ c ∈ kv.1, T.word c = true) ∧ Tok kv.2) →
    ∀ f, items.length ≤ f → scanAssigns T f (joinComma (items.map itemStr)) = some items
  | [], hne, _, _, _ => absurd rfl hne
  | [a], _, h, f, hf => by
    cases f with
    | zero => simp at hf
    | succ f =>
      have ha := h a (by simp)
      have := scanAssign_item hT ha.1 ha.2 [] (Or.inl rfl)
      simp only [List.append_nil] at this
      simp only [List.map, joinComma, itemStr, scanAssigns, this]
  | a :: b :: r, _, h, f, hf => by
    cases f with
    | zero => simp at hf
    | succ f =>
      have ha := h a (by simp)
      have ih := scanAssigns_items hT (b :: r) (by simp) (fun kv hkv => h kv (by simp [hkv])) f (by simp at hf ⊢; omega)
      have := scanAssign_item hT ha.1 ha.2 (',' :: joinComma ((b :: r).map itemStr)) (Or.inr ⟨_, rfl⟩)
      simp only [List.map, joinComma_cons2, itemStr] at this ih ⊢
      simp only [scanAssigns, this, ih, Option.map_some]

theorem joinComma_nonl : ∀ (l : List Str), (∀ x ∈ l, ∀ c ∈ x, c ≠ '\n') → ∀ c ∈ joinComma l, c ≠ '\n'
  | [], _, c, hc => by simp [joinComma] at hc
  | [a], h, c, hc => h a (by simp) c (by simpa [joinComma] using hc)
  | a :: b :: r, h, c, hc => by
    rw [joinComma_cons2] at hc
    simp only [List.mem_append, List.mem_cons] at hc
    rcases hc with hc | rfl | hc
    · exact h a (by simp) c hc
    · decide
    · exact joinComma_nonl (b :: r) (fun x hx => h x (by simp [hx])) c hc

theorem joinComma_length : ∀ (l : List Str), (∀ x ∈ l, x ≠ []) → l.length ≤ (joinComma l).length + 1
  | [], _ => by simp
  | [a], _ => by simp
  | a :: b :: r, h => by
    have := joinComma_length (b :: r) (fun x hx => h x (by simp [hx]))
    rw [joinComma_cons2]; simp at this ⊢; omega

theorem mem_joinComma_len : ∀ (l : List Str) (x : Str), x ∈ l → x.length ≤ (joinComma l).length
  | [a], x, hx => by simp at hx; subst hx; exact Nat.le_refl _
  | a :: b :: r, x, hx => by
    rw [joinComma_cons2]
    rcases List.mem_cons.mp hx with rfl | hx
    · simp
    · have := mem_joinComma_len (b :: r) x hx; simp at this ⊢; omega

/-! ### round trip, step 2: the host / namespace / class part -/

structure HeadSafe (T : Tab) (fmt : Fmt) (h n : Option Str) (c : Str) : Prop where
  fmt_ok : fmt ≠ .cimobject
  host : ∀ x, h = some x → caseOf T fmt x ≠ [] ∧ ∀ ch ∈ caseOf T fmt x, authChar T ch = true
  ns : ∀ x, n = some x → nsOk (caseOf T fmt x) = true ∧ ∀ ch ∈ caseOf T fmt x, nsChar T ch = true
  cls : caseOf T fmt c ≠ [] ∧ ∀ ch ∈ caseOf T fmt c, T.word ch = true
  hist : fmt = .historical → h.isSome = true → n.isSome = true

theorem stripScheme_none {T : Tab} {s : Str} (h : ∀ r, s.dropWhile (schemeChar T) ≠ ':' :: '/' :: r) :
    stripScheme T s = (false, s) := by
  unfold stripScheme
  split
  · rename_i r heq; exact absurd heq (h r)
  · rfl

theorem stripAuth_none {T : Tab} {s : Str} (h : ∀ r, s ≠ '/' :: '/' :: r) : stripAuth T s = (none, s) := by
  unfold stripAuth
  split
  · rename_i r; exact absurd rfl (h r)
  · rfl

theorem nsOk_head {x : Char} {r : Str} (h : nsOk (x :: r) = true) : x ≠ '/' := by
  intro e; subst e; simp [nsOk, nsOkAux] at h

theorem nsOk_ne_nil {p : Str} (h : nsOk p = true) : p ≠ [] := by
  intro e; subst e; simp [nsOk, nsOkAux] at h

theorem nsOk_of_word {T : Tab} (hT : TabOk T) : ∀ {p : Str}, p ≠ [] → (∀ c ∈ p, T.word c = true) → nsOk p = true := by
  have hs : T.word '/' = false := hT.not_word '/' (by simp)
  have aux : ∀ (p : Str) (b : Bool), (∀ c ∈ p, T.word c = true) → (p ≠ [] ∨ b = false) → nsOkAux b p = true := by
    intro p
    induction p with
    | nil => intro b _ h; rcases h with h | h; exact absurd rfl h; simp [nsOkAux, h]
    | cons x r ih =>
      intro b hall _
      have hx : x ≠ '/' := by intro e; subst e; have := hall '/' (by simp); rw [hs] at this; cases this
      simp only [nsOkAux, hx, if_false]
      exact ih false (fun c hc => hall c (by simp [hc])) (Or.inr rfl)
  intro p hne hall
  exact aux p true hall (Or.inl hne)

theorem splitNs_some {T : Tab} (hT : TabOk T) {N : Str} (hok : nsOk N = true) (hall : ∀ c ∈ N, nsChar T c = true)
    (p0 : Bool) (r : Str) : splitNs T p0 (N ++ ':' :: r) = some (some N, r) := by
  have hc : nsChar T ':' = false := by simp [nsChar, hT.not_word ':' (by simp)]
  unfold splitNs
  rw [takeWhile_stop hall hc, dropWhile_stop hall hc, hok]
  rfl

theorem splitNs_colon {T : Tab} (hT : TabOk T) (p0 : Bool) (r : Str) : splitNs T p0 (':' :: r) = some (none, r) := by
  have hc : nsChar T ':' = false := by simp [nsChar, hT.not_word ':' (by simp)]
  unfold splitNs
  simp [hc, nsOk, nsOkAux]

theorem splitNs_start {T : Tab} (hT : TabOk T) {C : Str} (hne : C ≠ []) (hall : ∀ c ∈ C, T.word c = true)
    {tail : Str} (ht : tail = [] ∨ ∃ t, tail = '.' :: t) : splitNs T true (C ++ tail) = some (none, C ++ tail) := by
  have hd : nsChar T '.' = false := by simp [nsChar, hT.not_word '.' (by simp)]
  have halln : ∀ c ∈ C, nsChar T c = true := fun c hc => by simp [nsChar, hall c hc]
  have dk : (C ++ tail).dropWhile (nsChar T) = tail := by
    rcases ht with rfl | ⟨t, rfl⟩
    · simpa using dropWhile_end halln
    · exact dropWhile_stop halln hd t
  cases C with
  | nil => exact absurd rfl hne
  | cons x xs =>
    have hx : x ≠ ':' := by
      intro e; subst e; have := hall ':' (by simp); rw [hT.not_word ':' (by simp)] at this; cases this
    unfold splitNs
    rw [dk]
    have second : (match (x :: xs) ++ tail with
        | ':' :: r5 => some ((none : Option Str), r5)
        | _ => if true = true then some (none, (x :: xs) ++ tail) else none) = some (none, (x :: xs) ++ tail) := by
      split
      · rename_i r5 heq; simp at heq; exact absurd heq.1 hx
      · rfl
    rcases ht with rfl | ⟨t, rfl⟩
    · split
      · rename_i heq; cases heq
      · exact second
    · split
      · rename_i heq; cases heq
      · exact second

theorem word_ne {T : Tab} (hT : TabOk T) {x : Char} (hx : T.word x = true) :
    x ≠ '/' ∧ x ≠ ':' ∧ x ≠ '.' := by
  refine ⟨?_, ?_, ?_⟩ <;> (intro e; subst e; rw [hT.not_word _ (by simp)] at hx; cases hx)

theorem parseHead_of_stages {T : Tab} {s : Str} {a : Bool × Str} {b : Option Str × Str} {r3 : Str} {pos0 : Bool}
    {ns : Option Str} {rest : Str} (h1 : stripScheme T s = a) (h2 : stripAuth T a.2 = b)
    (h3 : stripSlash (!a.1 && b.1.isNone) b.2 = some (r3, pos0)) (h4 : splitNs T pos0 r3 = some (ns, rest)) :
    parseHead T s = some { host := b.1.bind orNone, ns := ns, rest := rest } := by
  subst h1; subst h2
  unfold parseHead
  simp only [h3, h4]

/-- class name followed by the rest of the text -/
structure ClsTail (T : Tab) (C tail : Str) : Prop where
  ne : C ≠ []
  word : ∀ ch ∈ C, T.word ch = true
  tail : tail = [] ∨ ∃ t, tail = '.' :: t

def NsPart (T : Tab) (N : Option Str) : Prop := ∀ m, N = some m → nsOk m = true ∧ ∀ ch ∈ m, nsChar T ch = true

theorem afterSlash_ns {T : Tab} (hT : TabOk T) {N : Option Str} {C tail : Str} (hN : NsPart T N) (p0 : Bool) :
    splitNs T p0 (optStr N ++ ':' :: (C ++ tail)) = some (N, C ++ tail) := by
  cases N with
  | none => simpa [optStr] using splitNs_colon hT p0 _
  | some m => simpa [optStr] using splitNs_some hT (hN m rfl).1 (hN m rfl).2 p0 _

theorem clsTail_head {T : Tab} (hT : TabOk T) {C tail : Str} (hc : ClsTail T C tail) :
    ∃ x xs, C = x :: xs ∧ x ≠ '/' ∧ x ≠ ':' ∧ x ≠ '.' := by
  cases C with
  | nil => exact absurd rfl hc.ne
  | cons x xs => exact ⟨x, xs, rfl, word_ne hT (hc.word x (by simp))⟩

/-- `//H/[N]:C…` -/
theorem parseHead_formA {T : Tab} (hT : TabOk T) {H : Str} (hHne : H ≠ []) (hHall : ∀ ch ∈ H, authChar T ch = true)
    {N : Option Str} {C tail : Str} (hN : NsPart T N) (hc : ClsTail T C tail) :
    parseHead T ('/' :: '/' :: (H ++ '/' :: (optStr N ++ ':' :: (C ++ tail)))) =
      some { host := some H, ns := N, rest := C ++ tail } := by
  have wsl : T.word '/' = false := hT.not_word '/' (by simp)
  have sc_sl : schemeChar T '/' = false := by simp [schemeChar, wsl]
  have au_sl : authChar T '/' = false := by simp [authChar, wsl]
  have as := afterSlash_ns hT (C := C) (tail := tail) hN false
  generalize optStr N ++ ':' :: (C ++ tail) = R at as ⊢
  have h1 : stripScheme T ('/' :: '/' :: (H ++ '/' :: R)) = (false, '/' :: '/' :: (H ++ '/' :: R)) :=
    stripScheme_none (by intro r; simp [sc_sl])
  have h2 : stripAuth T ('/' :: '/' :: (H ++ '/' :: R)) = (some H, '/' :: R) := by
    simp only [stripAuth, takeWhile_stop hHall au_sl, dropWhile_stop hHall au_sl]
  have h3 : stripSlash (!false && (some H).isNone) ('/' :: R) = some (R, false) := by simp [stripSlash]
  exact (parseHead_of_stages h1 h2 h3 as).trans (by simp [orNone, hHne])

/-- `/[N]:C…` -/
theorem parseHead_formB {T : Tab} (hT : TabOk T) {N : Option Str} {C tail : Str} (hN : NsPart T N) (hc : ClsTail T C tail) :
    parseHead T ('/' :: (optStr N ++ ':' :: (C ++ tail))) = some { host := none, ns := N, rest := C ++ tail } := by
  have wsl : T.word '/' = false := hT.not_word '/' (by simp)
  have sc_sl : schemeChar T '/' = false := by simp [schemeChar, wsl]
  have na : ∀ r, ('/' :: (optStr N ++ ':' :: (C ++ tail))) ≠ '/' :: '/' :: r := by
    intro r he
    cases N with
    | none => simp [optStr] at he
    | some m =>
      have := hN m rfl
      cases hm : m with
      | nil => rw [hm] at this; exact absurd rfl (nsOk_ne_nil this.1)
      | cons y ys => rw [hm] at this; simp [optStr, hm] at he; exact nsOk_head this.1 he.1
  have as := afterSlash_ns hT (C := C) (tail := tail) hN false
  generalize optStr N ++ ':' :: (C ++ tail) = R at as na ⊢
  have h1 : stripScheme T ('/' :: R) = (false, '/' :: R) := stripScheme_none (by intro r; simp [sc_sl])
  have h2 : stripAuth T ('/' :: R) = (none, '/' :: R) := stripAuth_none na
  have h3 : stripSlash (!false && (none : Option Str).isNone) ('/' :: R) = some (R, false) := by simp [stripSlash]
  exact (parseHead_of_stages h1 h2 h3 as).trans (by simp)

/-- `[N]:C…` at the very start of the text (historical with namespace; cimobject without host) -/
theorem parseHead_formD {T : Tab} (hT : TabOk T) {N : Option Str} {C tail : Str} (hN : NsPart T N) (hc : ClsTail T C tail) :
    parseHead T (optStr N ++ ':' :: (C ++ tail)) = some { host := none, ns := N, rest := C ++ tail } := by
  have wco : T.word ':' = false := hT.not_word ':' (by simp)
  have sc_co : schemeChar T ':' = false := by simp [schemeChar, wco]
  obtain ⟨x, xs, rfl, hx1, hx2, hx3⟩ := clsTail_head hT hc
  have as := afterSlash_ns hT (C := x :: xs) (tail := tail) hN true
  -- first character of the text: a namespace character that is not '/', or ':'
  obtain ⟨y, ys, hY, hy⟩ : ∃ y ys, optStr N ++ ':' :: ((x :: xs) ++ tail) = y :: ys ∧ y ≠ '/' := by
    cases N with
    | none => exact ⟨':', (x :: xs) ++ tail, by simp [optStr], by decide⟩
    | some m =>
      have := hN m rfl
      cases hm : m with
      | nil => rw [hm] at this; exact absurd rfl (nsOk_ne_nil this.1)
      | cons y ys => rw [hm] at this; exact ⟨y, ys ++ ':' :: ((x :: xs) ++ tail), by simp [optStr], nsOk_head this.1⟩
  have nosch : ∀ r, (optStr N ++ ':' :: ((x :: xs) ++ tail)).dropWhile (schemeChar T) ≠ ':' :: '/' :: r := by
    intro r he
    rw [List.dropWhile_append] at he
    split at he
    · simp [sc_co] at he; exact hx1 he.1
    · rename_i hne
      cases hd : (optStr N).dropWhile (schemeChar T) with
      | nil => simp [hd] at hne
      | cons z zs =>
        rw [hd] at he
        simp at he
        have hz : z ∈ optStr N := List.dropWhile_subset _ (by rw [hd]; simp)
        cases N with
        | none => simp [optStr] at hz
        | some m =>
          have := (hN m rfl).2 z (by simpa [optStr] using hz)
          rw [he.1] at this
          simp [nsChar, wco] at this
  generalize optStr N ++ ':' :: ((x :: xs) ++ tail) = S at as hY nosch ⊢
  subst hY
  have h1 : stripScheme T (y :: ys) = (false, y :: ys) := stripScheme_none nosch
  have h2 : stripAuth T (y :: ys) = (none, y :: ys) := stripAuth_none (by intro r he; simp at he; exact hy he.1)
  have h3 : stripSlash (!false && (none : Option Str).isNone) (y :: ys) = some (y :: ys, true) := by
    simp only [stripSlash]
    split
    · rename_i r heq; simp at heq; exact absurd heq.1 hy
    · rfl
  exact (parseHead_of_stages h1 h2 h3 as).trans (by simp)

/-- `C…` at the very start of the text (historical without host and namespace) -/
theorem parseHead_formE {T : Tab} (hT : TabOk T) {C tail : Str} (hc : ClsTail T C tail) :
    parseHead T (C ++ tail) = some { host := none, ns := none, rest := C ++ tail } := by
  have wdo : T.word '.' = false := hT.not_word '.' (by simp)
  have sc_do : schemeChar T '.' = false := by simp [schemeChar, wdo]
  obtain ⟨x, xs, rfl, hx1, hx2, hx3⟩ := clsTail_head hT hc
  have ht := hc.tail
  have dk : ((x :: xs) ++ tail).dropWhile (schemeChar T) = tail := by
    have hall : ∀ ch ∈ x :: xs, schemeChar T ch = true := fun ch hch => by simp [schemeChar, hc.word ch hch]
    rcases ht with rfl | ⟨t, rfl⟩
    · simpa using dropWhile_end hall
    · exact dropWhile_stop hall sc_do t
  have hss : stripSlash true ((x :: xs) ++ tail) = some ((x :: xs) ++ tail, true) := by
    simp only [List.cons_append, stripSlash]
    split
    · rename_i r heq; simp at heq; exact absurd heq.1 hx1
    · rfl
  have h1 : stripScheme T ((x :: xs) ++ tail) = (false, (x :: xs) ++ tail) :=
    stripScheme_none (by intro r; rw [dk]; rcases ht with rfl | ⟨t, rfl⟩ <;> simp)
  have h2 : stripAuth T ((x :: xs) ++ tail) = (none, (x :: xs) ++ tail) :=
    stripAuth_none (by intro r he; simp at he; exact hx1 he.1)
  have h3 : stripSlash (!false && (none : Option Str).isNone) ((x :: xs) ++ tail) = some ((x :: xs) ++ tail, true) := by
    simpa using hss
  exact (parseHead_of_stages h1 h2 h3 (splitNs_start hT (by simp) hc.word ht)).trans (by simp)

/-- like `HeadSafe` but for all four formats: in the `cimobject` format the host is not printed, so nothing is
    required of it -/
structure HeadOk (T : Tab) (fmt : Fmt) (h n : Option Str) (c : Str) : Prop where
  host : fmt ≠ .cimobject → ∀ x, h = some x → caseOf T fmt x ≠ [] ∧ ∀ ch ∈ caseOf T fmt x, authChar T ch = true
  ns : ∀ x, n = some x → nsOk (caseOf T fmt x) = true ∧ ∀ ch ∈ caseOf T fmt x, nsChar T ch = true
  cls : caseOf T fmt c ≠ [] ∧ ∀ ch ∈ caseOf T fmt c, T.word ch = true
  hist : fmt = .historical → h.isSome = true → n.isSome = true

theorem HeadSafe.toOk {T : Tab} {fmt : Fmt} {h n : Option Str} {c : Str} (hs : HeadSafe T fmt h n c) : HeadOk T fmt h n c :=
  ⟨fun _ => hs.host, hs.ns, hs.cls, hs.hist⟩

/-- the host `from_wbem_uri` finds in a printed URI: the `cimobject` format does not print it -/
def parsedHost (T : Tab) (fmt : Fmt) (h : Option Str) : Option Str :=
  if fmt = .cimobject then none else h.map (caseOf T fmt)

/-- the printed head of a path is parsed back into its (cased) components — all four formats — whatever
    follows the class name (`tail` = end of text for class paths, `.` + keybindings for instance paths) -/
theorem parseHead_printed_all {T : Tab} (hT : TabOk T) {fmt : Fmt} {h n : Option Str} {c : Str}
    (hs : HeadOk T fmt h n c) {tail : Str} (ht : tail = [] ∨ ∃ t, tail = '.' :: t) :
    parseHead T (headStr T fmt h n c ++ tail) =
      some { host := parsedHost T fmt h, ns := n.map (caseOf T fmt), rest := caseOf T fmt c ++ tail } := by
  obtain ⟨hhost, hns, hcls, hhist⟩ := hs
  have hc : ClsTail T (caseOf T fmt c) tail := ⟨hcls.1, hcls.2, ht⟩
  have hN : NsPart T (n.map (caseOf T fmt)) := by
    intro m hm
    cases n with
    | none => simp at hm
    | some n0 => simp at hm; subst hm; exact hns n0 rfl
  cases h with
  | some hh =>
    by_cases hcim : fmt = .cimobject
    · -- cimobject with host: "/" [N] ":" C tail, the host is dropped
      subst hcim
      have e : headStr T .cimobject (some hh) n c ++ tail =
          '/' :: (optStr (n.map (caseOf T .cimobject)) ++ ':' :: (caseOf T .cimobject c ++ tail)) := by
        simp [headStr]
      rw [e, parseHead_formB hT hN hc]; simp [parsedHost]
    · obtain ⟨hHne, hHall⟩ := hhost hcim hh rfl
      have hcolon : (n.isSome || decide (fmt ≠ Fmt.historical)) = true := by
        have := fun e => hhist e rfl
        cases fmt <;> simp_all
      have e : headStr T fmt (some hh) n c ++ tail =
          '/' :: '/' :: (caseOf T fmt hh ++ '/' :: (optStr (n.map (caseOf T fmt)) ++ ':' :: (caseOf T fmt c ++ tail))) := by
        simp only [headStr, hcolon]
        simp [hcim]
      rw [e, parseHead_formA hT hHne hHall hN hc]; simp [parsedHost, hcim]
  | none =>
    have hp : parsedHost T fmt none = none := by simp [parsedHost]
    rw [hp]
    cases fmt with
    | standard =>
      have e : headStr T .standard none n c ++ tail =
          '/' :: (optStr (n.map (caseOf T .standard)) ++ ':' :: (caseOf T .standard c ++ tail)) := by simp [headStr]
      rw [e, parseHead_formB hT hN hc]
    | canonical =>
      have e : headStr T .canonical none n c ++ tail =
          '/' :: (optStr (n.map (caseOf T .canonical)) ++ ':' :: (caseOf T .canonical c ++ tail)) := by simp [headStr]
      rw [e, parseHead_formB hT hN hc]
    | cimobject =>
      have e : headStr T .cimobject none n c ++ tail =
          optStr (n.map (caseOf T .cimobject)) ++ ':' :: (caseOf T .cimobject c ++ tail) := by simp [headStr]
      rw [e, parseHead_formD hT hN hc]
    | historical =>
      cases n with
      | none =>
        have e : headStr T .historical none none c ++ tail = caseOf T .historical c ++ tail := by simp [headStr, optStr]
        rw [e, parseHead_formE hT hc]; rfl
      | some m =>
        have e : headStr T .historical none (some m) c ++ tail =
            optStr ((some m).map (caseOf T .historical)) ++ ':' :: (caseOf T .historical c ++ tail) := by simp [headStr]
        rw [e, parseHead_formD hT hN hc]

/-- the printed head of a safe path is parsed back into its (cased) components, whatever
    follows the class name (`tail` = end of text for class paths, `.` + keybindings for instance paths) -/
theorem parseHead_printed {T : Tab} (hT : TabOk T) {fmt : Fmt} {h n : Option Str} {c : Str}
    (hs : HeadSafe T fmt h n c) {tail : Str} (ht : tail = [] ∨ ∃ t, tail = '.' :: t) :
    parseHead T (headStr T fmt h n c ++ tail) =
      some { host := h.map (caseOf T fmt), ns := n.map (caseOf T fmt), rest := caseOf T fmt c ++ tail } := by
  rw [parseHead_printed_all hT hs.toOk ht]; simp [parsedHost, hs.fmt_ok]

/-! ### reals: every `repr(float)` shape, after the exponent fix, is read back as a real -/

def Digits (s : Str) : Prop := s ≠ [] ∧ ∀ c ∈ s, isDigit c = true

/-- exponent part: empty or `e[+-]d+` -/
def ExpOk (ex : Str) : Prop := ex = [] ∨ ∃ s ds, ex = 'e' :: s :: ds ∧ (s = '+' ∨ s = '-') ∧ Digits ds

/-- `[-]d+.d+[e[+-]d+]` -/
def Form1 (v : Str) : Prop :=
  ∃ sg ip fp ex, (sg = [] ∨ sg = ['-']) ∧ Digits ip ∧ Digits fp ∧ ExpOk ex ∧ v = sg ++ (ip ++ '.' :: (fp ++ ex))

theorem isExpPart_ok {x : Str} (h : isExpPart x = true) : ∃ s ds, x = 'e' :: s :: ds ∧ (s = '+' ∨ s = '-') ∧ Digits ds := by
  unfold isExpPart at h
  split at h
  · rename_i s ds
    simp only [Bool.and_eq_true, Bool.or_eq_true, beq_iff_eq, decide_eq_true_eq, List.all_eq_true] at h
    exact ⟨s, ds, rfl, h.1.1, h.1.2, h.2⟩
  · cases h

theorem replaceChar_id {c : Char} {r : Str} : ∀ {s : Str}, c ∉ s → replaceChar c r s = s := by
  intro s
  induction s with
  | nil => intro _; rfl
  | cons x xs ih =>
    intro h
    simp only [List.mem_cons, not_or] at h
    have hx : x ≠ c := fun e => h.1 e.symm
    have := ih h.2
    simp only [replaceChar, List.flatMap_cons, hx, if_false] at this ⊢
    rw [this]; rfl

theorem replaceChar_append (c : Char) (r a b : Str) : replaceChar c r (a ++ b) = replaceChar c r a ++ replaceChar c r b := by
  simp [replaceChar, List.flatMap_append]

theorem digits_no {s : Str} (h : ∀ c ∈ s, isDigit c = true) (x : Char) (hx : isDigit x = false) : x ∉ s := by
  intro hm; rw [h x hm] at hx; cases hx

/-- the shapes of `repr(float)` other than inf / nan become `[-]d+.d+[e[+-]d+]` -/
theorem fixExp_form1 {r : Str} (h : isFloatRepr r = true) :
    r = "inf".toList ∨ r = "-inf".toList ∨ r = "nan".toList ∨ Form1 (fixExp r) := by
  unfold isFloatRepr at h
  simp only [Bool.or_eq_true, beq_iff_eq, Bool.and_eq_true, decide_eq_true_eq] at h
  rcases h with ((h | h) | h) | ⟨hip, hrest⟩
  · exact Or.inl h
  · exact Or.inr (Or.inl h)
  · exact Or.inr (Or.inr (Or.inl h))
  · right; right; right
    -- sign and body
    obtain ⟨sg, b, hsg, hr, hb⟩ : ∃ sg b, (sg = [] ∨ sg = ['-']) ∧ r = sg ++ b ∧ b = stripMinus r := by
      cases r with
      | nil => exact ⟨[], [], Or.inl rfl, rfl, rfl⟩
      | cons x xs =>
        by_cases hx : x = '-'
        · subst hx; exact ⟨['-'], xs, Or.inr rfl, rfl, rfl⟩
        · refine ⟨[], x :: xs, Or.inl rfl, rfl, ?_⟩
          unfold stripMinus
          split
          · rename_i t heq; cases heq; exact absurd rfl hx
          · rfl
    rw [← hb] at hip hrest
    have hsplit := List.takeWhile_append_dropWhile (p := isDigit) (l := b)
    have hipd : Digits (b.takeWhile isDigit) := ⟨hip, fun c hc => by
      have := List.all_takeWhile (l := b) (p := isDigit); exact List.all_eq_true.mp this c hc⟩
    generalize b.takeWhile isDigit = ip at hsplit hipd hip
    generalize hd : b.dropWhile isDigit = d at hsplit hrest
    have hsg_e : 'e' ∉ sg ∧ '.' ∉ sg := by rcases hsg with rfl | rfl <;> simp
    have hip_e : 'e' ∉ ip ∧ '.' ∉ ip := ⟨digits_no hipd.2 _ (by decide), digits_no hipd.2 _ (by decide)⟩
    split at hrest
    · -- d = '.' :: f
      rename_i f
      simp only [Bool.and_eq_true, decide_eq_true_eq, Bool.or_eq_true, beq_iff_eq] at hrest
      obtain ⟨hfp, hex⟩ := hrest
      have hsplit2 := List.takeWhile_append_dropWhile (p := isDigit) (l := f)
      have hfpd : Digits (f.takeWhile isDigit) := ⟨hfp, fun c hc => by
        have := List.all_takeWhile (l := f) (p := isDigit); exact List.all_eq_true.mp this c hc⟩
      generalize f.takeWhile isDigit = fp at hsplit2 hfpd
      generalize f.dropWhile isDigit = ex at hsplit2 hex
      have hexok : ExpOk ex := by
        rcases hex with hex | hex
        · exact Or.inl hex
        · exact Or.inr (isExpPart_ok hex)
      have hrr : r = sg ++ (ip ++ '.' :: (fp ++ ex)) := by rw [hr, ← hsplit, ← hsplit2]
      have hdot : r.contains '.' = true := by rw [hrr]; simp
      refine ⟨sg, ip, fp, ex, hsg, hipd, hfpd, hexok, ?_⟩
      unfold fixExp; rw [hdot]; simp [hrr]
    · -- d = 'e' :: x : no fraction, `.0` is inserted
      rename_i x
      obtain ⟨s, ds, hx, hs, hds⟩ := isExpPart_ok hrest
      cases hx
      have hrr : r = sg ++ (ip ++ 'e' :: s :: ds) := by rw [hr, ← hsplit]
      have hds_e : 'e' ∉ ds ∧ '.' ∉ ds := ⟨digits_no hds.2 _ (by decide), digits_no hds.2 _ (by decide)⟩
      have hs_e : s ≠ 'e' ∧ s ≠ '.' := by rcases hs with rfl | rfl <;> decide
      have he : r.contains 'e' = true := by rw [hrr]; simp
      have hnd : r.contains '.' = false := by
        rw [hrr]
        simp only [List.contains_eq_mem, List.mem_append, List.mem_cons, decide_eq_false_iff_not, not_or]
        exact ⟨hsg_e.2, hip_e.2, by decide, fun e => hs_e.2 e.symm, hds_e.2⟩
      refine ⟨sg, ip, ['0'], 'e' :: s :: ds, hsg, hipd, ⟨by simp, by decide⟩, Or.inr ⟨s, ds, rfl, hs, hds⟩, ?_⟩
      unfold fixExp
      rw [he, hnd]
      simp only [Bool.not_false, Bool.and_self, if_true]
      rw [hrr, replaceChar_append, replaceChar_append, replaceChar_id hsg_e.1, replaceChar_id hip_e.1]
      have : replaceChar 'e' ['.', '0', 'e'] ('e' :: s :: ds) = '.' :: '0' :: 'e' :: s :: ds := by
        have h1 : replaceChar 'e' ['.', '0', 'e'] ('e' :: s :: ds) =
            ['.', '0', 'e'] ++ replaceChar 'e' ['.', '0', 'e'] (s :: ds) := by simp [replaceChar]
        have h2 : 'e' ∉ s :: ds := by
          simp only [List.mem_cons, not_or]; exact ⟨fun e => hs_e.1 e.symm, hds_e.1⟩
        rw [h1, replaceChar_id h2]; rfl
      rw [this]; simp
    · cases hrest

/-! ### round trip, step 3: what comes back, and the documented limits (`PathSafe`) -/

theorem lookupFold_printKeys (T : Tab) (fmt : Fmt) (k : Str) : ∀ ks,
    lookupFold T k (printKeys T fmt ks) = (lookupKV T k ks).map (printVal T fmt)
  | .nil => rfl
  | .cons k' v r => by
    simp only [printKeys, lookupFold, lookupKV]
    split
    · rfl
    · exact lookupFold_printKeys T fmt k r

def sortedNames (T : Tab) (fmt : Fmt) (ks : Keys) : List Str := sortStrs (ks.names.map (caseOf T fmt))

/-- keybindings in the order and spelling `to_wbem_uri` prints them -/
def sortKeys (T : Tab) (fmt : Fmt) (ks : Keys) : Keys :=
  Keys.ofList ((sortedNames T fmt ks).map (fun k => (k, (lookupKV T k ks).getD (.bool false))))

mutual
/-- the value `from_wbem_uri` gives back for a printed value -/
def normVal (T : Tab) (fmt : Fmt) : KeyVal → KeyVal
  | .real r => .real (fixExp r)
  | .ref p => .ref (normPath T fmt p)
  | .str s => .str s
  | .bool b => .bool b
  | .int i => .int i
  | .dt s => .dt s
/-- the path `from_wbem_uri(p.to_wbem_uri(fmt))` gives back: names in the case of the format, keybindings in
    printing order, reals as the printed literal, references likewise (recursively); nothing else changes -/
def normPath (T : Tab) (fmt : Fmt) : Path → Path
  | .mk h n c ks => .mk (parsedHost T fmt h) (n.map (caseOf T fmt)) (caseOf T fmt c) (sortKeys T fmt (normKeys T fmt ks))
def normKeys (T : Tab) (fmt : Fmt) : Keys → Keys
  | .nil => .nil
  | .cons k v r => .cons k (normVal T fmt v) (normKeys T fmt r)
end

theorem normKeys_names (T : Tab) (fmt : Fmt) : ∀ ks, (normKeys T fmt ks).names = ks.names
  | .nil => rfl
  | .cons k v r => by simp [normKeys, Keys.names, normKeys_names T fmt r]

theorem lookupKV_normKeys (T : Tab) (fmt : Fmt) (k : Str) : ∀ ks,
    lookupKV T k (normKeys T fmt ks) = (lookupKV T k ks).map (normVal T fmt)
  | .nil => rfl
  | .cons k' v r => by
    simp only [normKeys, lookupKV]
    split
    · rfl
    · exact lookupKV_normKeys T fmt k r

/-- the string is not itself a WBEM URI of an instance path (documented limit of untyped URIs) -/
def NotUri (T : Tab) (s : Str) : Prop := fromUri T s = .error .valueError

mutual
/-- the documented limits of untyped WBEM URIs and the open findings, spelled out per value -/
def ValSafe (T : Tab) (fmt : Fmt) : KeyVal → Prop
  | .str s => (∀ c ∈ s, c ≠ '\n') ∧ NotUri T s ∧ dtAccepts s = false
  | .bool _ => True
  | .int _ => True
  | .real r => isFloatRepr r = true
  | .dt s => dtAccepts s = true ∧ (∀ c ∈ s, c ≠ '"' ∧ c ≠ '\\' ∧ c ≠ '\n') ∧ NotUri T s
  | .ref p => PathSafe T fmt p
def PathSafe (T : Tab) (fmt : Fmt) : Path → Prop
  | .mk h n c ks => HeadSafe T fmt h n c ∧ ks ≠ .nil ∧ (foldNames T ks).Nodup ∧
      (∀ k ∈ ks.names, caseOf T fmt k ≠ [] ∧ ∀ ch ∈ caseOf T fmt k, T.word ch = true) ∧ KeysSafe T fmt ks
def KeysSafe (T : Tab) (fmt : Fmt) : Keys → Prop
  | .nil => True
  | .cons _ v r => ValSafe T fmt v ∧ KeysSafe T fmt r
end

mutual
/-- `ValSafe` / `PathSafe` / `KeysSafe` for all four formats (`HeadOk` instead of `HeadSafe`: nothing is required of the host
    in the `cimobject` format, at any nesting level) -/
def ValOk (T : Tab) (fmt : Fmt) : KeyVal → Prop
  | .str s => (∀ c ∈ s, c ≠ '\n') ∧ NotUri T s ∧ dtAccepts s = false
  | .bool _ => True
  | .int _ => True
  | .real r => isFloatRepr r = true
  | .dt s => dtAccepts s = true ∧ (∀ c ∈ s, c ≠ '"' ∧ c ≠ '\\' ∧ c ≠ '\n') ∧ NotUri T s
  | .ref p => PathOk T fmt p
def PathOk (T : Tab) (fmt : Fmt) : Path → Prop
  | .mk h n c ks => HeadOk T fmt h n c ∧ ks ≠ .nil ∧ (foldNames T ks).Nodup ∧
      (∀ k ∈ ks.names, caseOf T fmt k ≠ [] ∧ ∀ ch ∈ caseOf T fmt k, T.word ch = true) ∧ KeysOk T fmt ks
def KeysOk (T : Tab) (fmt : Fmt) : Keys → Prop
  | .nil => True
  | .cons _ v r => ValOk T fmt v ∧ KeysOk T fmt r
end

mutual
theorem valSafe_ok {T : Tab} {fmt : Fmt} : (v : KeyVal) → ValSafe T fmt v → ValOk T fmt v
  | .str _, h => by simpa [ValSafe, ValOk] using h
  | .bool _, _ => by simp [ValOk]
  | .int _, _ => by simp [ValOk]
  | .real _, h => by simpa [ValSafe, ValOk] using h
  | .dt _, h => by simpa [ValSafe, ValOk] using h
  | .ref p, h => by
    have h' : PathSafe T fmt p := by simpa [ValSafe] using h
    simpa [ValOk] using pathSafe_ok p h'
theorem pathSafe_ok {T : Tab} {fmt : Fmt} : (p : Path) → PathSafe T fmt p → PathOk T fmt p
  | .mk h n c ks, hs => by
    have hs' : HeadSafe T fmt h n c ∧ ks ≠ .nil ∧ (foldNames T ks).Nodup ∧
      (∀ k ∈ ks.names, caseOf T fmt k ≠ [] ∧ ∀ ch ∈ caseOf T fmt k, T.word ch = true) ∧ KeysSafe T fmt ks := by
      simpa [PathSafe] using hs
    have := keysSafe_ok ks hs'.2.2.2.2
    simpa [PathOk] using ⟨hs'.1.toOk, hs'.2.1, hs'.2.2.1, hs'.2.2.2.1, this⟩
theorem keysSafe_ok {T : Tab} {fmt : Fmt} : (ks : Keys) → KeysSafe T fmt ks → KeysOk T fmt ks
  | .nil, _ => by simp [KeysOk]
  | .cons _ v r, hs => by
    have hs' : ValSafe T fmt v ∧ KeysSafe T fmt r := by simpa [KeysSafe] using hs
    simpa [KeysOk] using ⟨valSafe_ok v hs'.1, keysSafe_ok r hs'.2⟩
end

/-! ### a text without `=` is never a WBEM URI of an instance path; datetime texts are such texts -/

theorem stripScheme_subset (T : Tab) (s : Str) : (stripScheme T s).2 ⊆ s := by
  unfold stripScheme
  split
  · rename_i r heq
    split
    · intro c hc
      have hsub : (':' :: '/' :: r) ⊆ s := by rw [← heq]; exact List.dropWhile_subset _
      exact hsub (by simp at hc ⊢; rcases hc with rfl | hc; exact Or.inr (Or.inl rfl); exact Or.inr (Or.inr hc))
    · exact fun _ h => h
  · exact fun _ h => h

theorem stripAuth_subset (T : Tab) (s : Str) : (stripAuth T s).2 ⊆ s := by
  unfold stripAuth
  split
  · rename_i r
    intro c hc
    have := List.dropWhile_subset (authChar T) hc
    simp [this]
  · exact fun _ h => h

theorem stripSlash_subset {a : Bool} {s r : Str} {b : Bool} (h : stripSlash a s = some (r, b)) : r ⊆ s := by
  unfold stripSlash at h
  split at h
  · simp at h; obtain ⟨rfl, _⟩ := h; exact fun _ h => by simp [h]
  · split at h <;> simp at h; obtain ⟨rfl, _⟩ := h; exact fun _ h => h

theorem splitNs_subset {T : Tab} {p0 : Bool} {s rest : Str} {ns : Option Str}
    (h : splitNs T p0 s = some (ns, rest)) : rest ⊆ s := by
  unfold splitNs at h
  split at h
  · rename_i r5 _ heq; simp at h; obtain ⟨_, rfl⟩ := h
    intro x hx
    exact List.dropWhile_subset (nsChar T) (by rw [heq]; simp [hx])
  · split at h
    · simp at h; obtain ⟨_, rfl⟩ := h; exact fun _ h => by simp [h]
    · split at h <;> simp at h; obtain ⟨_, rfl⟩ := h; exact fun _ h => h

theorem parseHead_subset {T : Tab} {s : Str} {h : Head} (e : parseHead T s = some h) : h.rest ⊆ s := by
  unfold parseHead at e
  simp only at e
  split at e
  · simp at e
  · rename_i r3 pos0 h1
    split at e
    · simp at e
    · rename_i ns rest h2
      simp at e; subst e
      have a := stripScheme_subset T s
      have b := stripAuth_subset T (stripScheme T s).2
      have c : r3 ⊆ (stripAuth T (stripScheme T s).2).2 := stripSlash_subset h1
      have d : rest ⊆ r3 := splitNs_subset h2
      exact fun x hx => a (b (c (d hx)))

theorem scanAssigns_has_eq {T : Tab} : ∀ (f : Nat) (s : Str) (l : List (Str × Str)), scanAssigns T f s = some l → '=' ∈ s := by
  intro f s l h
  cases f with
  | zero => simp [scanAssigns] at h
  | succ f =>
    unfold scanAssigns at h
    cases ha : scanAssign T s with
    | none => simp [ha] at h
    | some x =>
      unfold scanAssign at ha
      simp only at ha
      split at ha
      · simp at ha
      · split at ha
        · rename_i r heq
          exact List.dropWhile_subset T.word (by rw [heq]; simp)
        · simp at ha

theorem stepPrefix_has_eq {T : Tab} {s : Str} {x : Head × Str × List (Str × Str)} (e : stepPrefix T s = some x) : '=' ∈ s := by
  unfold stepPrefix at e
  split at e
  · simp at e
  · rename_i hd hph
    have hsub := parseHead_subset hph
    split at e
    · rename_i body hbody
      split at e
      · simp at e
      · cases hsa : scanAssigns T ((body.takeWhile (· != '\n')).length + 1) (body.takeWhile (· != '\n')) with
        | none => simp [hsa] at e
        | some l =>
          have h1 := scanAssigns_has_eq _ _ _ hsa
          have h2 : '=' ∈ body := List.takeWhile_subset _ h1
          have h3 : '=' ∈ hd.rest := List.dropWhile_subset T.word (by rw [hbody]; simp [h2])
          exact hsub h3
    · simp at e

/-- every WBEM URI of an instance path contains `=`: a text without it is rejected (no hypothesis on the character tables) -/
theorem notUri_of_no_eq (T : Tab) {s : Str} (h : '=' ∉ s) : NotUri T s := by
  unfold NotUri fromUri
  simp only [fromUriF, fromUriStep]
  cases e : stepPrefix T s with
  | none => rfl
  | some x => exact absurd (stepPrefix_has_eq e) h

def dtChar (c : Char) : Bool := isDigit c || c == '*' || c == '.' || c == '+' || c == '-' || c == ':'

/-- the texts `CIMDateTime` accepts consist of digits and `* . + - :` -/
theorem dtAccepts_chars {s : Str} (h : dtAccepts s = true) : ∀ c ∈ s, dtChar c = true := by
  unfold dtAccepts at h
  simp only at h
  split at h
  · cases h
  · rename_i hlen
    split at h
    · cases h
    · rename_i hseg
      simp only [Bool.not_eq_true', Bool.not_eq_false, Bool.and_eq_true, beq_iff_eq, List.all_eq_true] at hseg
      -- the sign / offset part
      have hso : ∀ c ∈ (s.drop 21).take 1 ++ s.drop 22, dtChar c = true := by
        split at h
        · rename_i hts
          simp only [Bool.and_eq_true, Bool.or_eq_true, beq_iff_eq, List.all_eq_true] at hts
          intro c hc
          rcases List.mem_append.mp hc with hc | hc
          · rcases hts.1 with e | e <;> (rw [e] at hc; simp at hc; subst hc; decide)
          · simp [dtChar, hts.2 c hc]
        · split at h
          · rename_i _ hiv
            simp only [Bool.and_eq_true, beq_iff_eq] at hiv
            intro c hc
            rw [hiv.1, hiv.2] at hc
            simp at hc
            rcases hc with rfl | rfl <;> decide
          · cases h
      have hsplit : s = s.take 14 ++ ((s.drop 14).take 1 ++ ((s.drop 15).take 6 ++ ((s.drop 21).take 1 ++ s.drop 22))) := by
        have e1 := (List.take_append_drop 14 s).symm
        have e2 : s.drop 14 = (s.drop 14).take 1 ++ s.drop 15 := by
          have := (List.take_append_drop 1 (s.drop 14)).symm; simpa [List.drop_drop] using this
        have e3 : s.drop 15 = (s.drop 15).take 6 ++ s.drop 21 := by
          have := (List.take_append_drop 6 (s.drop 15)).symm; simpa [List.drop_drop] using this
        have e4 : s.drop 21 = (s.drop 21).take 1 ++ s.drop 22 := by
          have := (List.take_append_drop 1 (s.drop 21)).symm; simpa [List.drop_drop] using this
        calc s = s.take 14 ++ s.drop 14 := e1
          _ = s.take 14 ++ ((s.drop 14).take 1 ++ s.drop 15) := by rw [← e2]
          _ = s.take 14 ++ ((s.drop 14).take 1 ++ ((s.drop 15).take 6 ++ s.drop 21)) := by rw [← e3]
          _ = _ := by rw [← e4]
      intro c hc
      rw [hsplit] at hc
      simp only [List.mem_append] at hc
      have ds : ∀ x, isDigStar x = true → dtChar x = true := by
        intro x hx; simp only [isDigStar, Bool.or_eq_true, beq_iff_eq] at hx
        rcases hx with hx | rfl
        · simp [dtChar, hx]
        · decide
      rcases hc with hc | hc | hc | hc
      · exact ds c (hseg.1.1 c hc)
      · rw [hseg.1.2] at hc; simp at hc; subst hc; decide
      · exact ds c (hseg.2 c hc)
      · exact hso c (List.mem_append.mpr hc)

theorem dtChar_props {c : Char} (h : dtChar c = true) : c ≠ '"' ∧ c ≠ '\\' ∧ c ≠ '\n' ∧ c ≠ '=' := by
  simp only [dtChar, Bool.or_eq_true, beq_iff_eq] at h
  rcases h with ((((h | rfl) | rfl) | rfl) | rfl) | rfl
  · have e0 : ('0' : Char).toNat = 48 := by decide
    have e9 : ('9' : Char).toNat = 57 := by decide
    simp only [isDigit, Bool.and_eq_true, decide_eq_true_eq, e0, e9] at h
    refine ⟨?_, ?_, ?_, ?_⟩ <;> (intro e; subst e; revert h; decide)
  all_goals decide

/-- **datetime values need no side condition**: a text that `CIMDateTime` accepts has no quote, backslash or newline
    and is not itself a WBEM URI -/
theorem dt_safe_of_accepts (T : Tab) (fmt : Fmt) {s : Str} (h : dtAccepts s = true) :
    ValSafe T fmt (.dt s) ∧ ValOk T fmt (.dt s) := by
  have hc := dtAccepts_chars h
  have h1 : ∀ c ∈ s, c ≠ '"' ∧ c ≠ '\\' ∧ c ≠ '\n' := fun c hm =>
    ⟨(dtChar_props (hc c hm)).1, (dtChar_props (hc c hm)).2.1, (dtChar_props (hc c hm)).2.2.1⟩
  have h2 : NotUri T s := notUri_of_no_eq T (fun hm => (dtChar_props (hc _ hm)).2.2.2 rfl)
  exact ⟨by simpa [ValSafe] using ⟨h, h1, h2⟩, by simpa [ValOk] using ⟨h, h1, h2⟩⟩

/-! ### round trip, step 4: `_kbstr_to_cimval` on printed values -/

theorem quote_head (b : Str) : (quote b).head? = some '"' := rfl
theorem quote_last (b : Str) : (quote b).getLast? = some '"' := by
  simp [quote, List.getLast?_cons, List.getLast?_append]
theorem stripQuotes_quote (b : Str) : stripQuotes (quote b) = b := by
  simp [stripQuotes, quote]

theorem kbVal_quoted_ok {T : Tab} {rec : Str → Except PyExc Path} {b : Str} {p : Path}
    (h : rec (unescape b) = .ok p) : kbVal T rec (quote b) = .ok (.ref p) := by
  unfold kbVal
  simp only [quote_head, quote_last, stripQuotes_quote, decide_true, Bool.and_self, if_true, h]

theorem kbVal_quoted_ve {T : Tab} {rec : Str → Except PyExc Path} {b : Str}
    (h : rec (unescape b) = .error .valueError) :
    kbVal T rec (quote b) = if dtAccepts (unescape b) then .ok (.dt (unescape b)) else .ok (.str (unescape b)) := by
  unfold kbVal
  simp only [quote_head, quote_last, stripQuotes_quote, decide_true, Bool.and_self, if_true, h]

theorem lowerS_ascii {T : Tab} (hT : TabOk T) : ∀ s : Str, (∀ c ∈ s, c.toNat < 128) → T.lowerS s = s.map lowerAscii := by
  intro s
  induction s with
  | nil => intro _; rfl
  | cons c r ih =>
    intro h
    have := ih (fun x hx => h x (by simp [hx]))
    simp only [Tab.lowerS, List.flatMap_cons, List.map_cons] at this ⊢
    rw [hT.lower_ascii c (h c (by simp)), this]; rfl

/-- an unquoted value text that is no boolean goes on to the numeric recognisers -/
theorem kbVal_unquoted_int (T : Tab) (rec : Str → Except PyExc Path) {v : Str} {x : Char} {xs : Str} (hv : v = x :: xs)
    (h1 : x ≠ '"') (h2 : x ≠ '\'') (h3 : T.lowerS v ≠ "true".toList) (h4 : T.lowerS v ≠ "false".toList)
    {i : Int} (hi : intLit v = some i) : kbVal T rec v = .ok (.int i) := by
  subst hv
  have h3' : T.lowerS (x :: xs) ≠ ['t', 'r', 'u', 'e'] := h3
  have h4' : T.lowerS (x :: xs) ≠ ['f', 'a', 'l', 's', 'e'] := h4
  unfold kbVal
  simp [h1, h2, h3', h4', hi]

theorem kbVal_bool {T : Tab} (hT : TabOk T) (rec : Str → Except PyExc Path) (b : Bool) :
    kbVal T rec (boolStr b) = .ok (.bool b) := by
  have e1 : T.lowerS "TRUE".toList = "true".toList := by rw [lowerS_ascii hT _ (by decide)]; decide
  have e2 : T.lowerS "FALSE".toList = "false".toList := by rw [lowerS_ascii hT _ (by decide)]; decide
  cases b
  · unfold kbVal boolStr
    simp only [Bool.false_eq_true, if_false, e2]
    simp
  · unfold kbVal boolStr
    simp only [if_true, e1]
    simp

theorem pyInt_chars (i : Int) : ∃ x xs, pyInt i = x :: xs ∧ (isDigit x = true ∨ x = '-') ∧
    ∀ c ∈ pyInt i, isDigit c = true ∨ c = '-' := by
  obtain ⟨neg, n, e, _⟩ := pyInt_eq i
  obtain ⟨h, t, ed, _, _⟩ := natDigitsF_head (n + 1) n (by omega)
  have hall := natDigitsF_digits (n + 1) n
  have en : natDigits n = h :: t := ed
  cases neg
  · refine ⟨h, t, by simp [e, en], Or.inl (hall h (by rw [ed]; simp)), ?_⟩
    intro c hc; rw [e] at hc; simp at hc; exact Or.inl (hall c (by simpa [natDigits] using hc))
  · refine ⟨'-', natDigits n, by simp [e], Or.inr rfl, ?_⟩
    intro c hc; rw [e] at hc; simp at hc
    rcases hc with rfl | hc
    · exact Or.inr rfl
    · exact Or.inl (hall c (by simpa [natDigits] using hc))

theorem digit_or_minus_props {c : Char} (h : isDigit c = true ∨ c = '-') :
    c.toNat < 128 ∧ lowerAscii c = c ∧ c ≠ 't' ∧ c ≠ 'f' ∧ c ≠ '"' ∧ c ≠ '\'' ∧ nqChar c = true ∧ c ≠ '\n' := by
  rcases h with h | rfl
  · simp only [isDigit, Bool.and_eq_true, decide_eq_true_eq] at h
    have e0 : ('0' : Char).toNat = 48 := by decide
    have e9 : ('9' : Char).toNat = 57 := by decide
    rw [e0, e9] at h
    have ne : ∀ d : Char, (d.toNat < 48 ∨ 57 < d.toNat) → c ≠ d := by
      intro d hd e; subst e; omega
    refine ⟨by omega, by simp [lowerAscii]; omega, ne _ (by decide), ne _ (by decide), ne _ (by decide), ne _ (by decide), ?_,
      ne _ (by decide)⟩
    have a1 := ne ',' (by decide); have a2 := ne '"' (by decide); have a3 := ne '\'' (by decide); have a4 := ne '\\' (by decide)
    simp [nqChar, a1, a2, a3, a4]
  · decide

theorem kbVal_int {T : Tab} (hT : TabOk T) (rec : Str → Except PyExc Path) (i : Int) :
    kbVal T rec (pyInt i) = .ok (.int i) := by
  obtain ⟨x, xs, e, hx, hall⟩ := pyInt_chars i
  have px := digit_or_minus_props hx
  have hl : T.lowerS (pyInt i) = (pyInt i).map lowerAscii :=
    lowerS_ascii hT _ (fun c hc => (digit_or_minus_props (hall c hc)).1)
  have hne : ∀ w : Str, (w.head? = some 't' ∨ w.head? = some 'f') → T.lowerS (pyInt i) ≠ w := by
    intro w hw heq
    rw [hl, e] at heq
    simp only [List.map_cons] at heq
    rw [← heq, px.2.1] at hw
    simp at hw
    rcases hw with hw | hw
    · exact px.2.2.1 hw
    · exact px.2.2.2.1 hw
  exact kbVal_unquoted_int T rec e px.2.2.2.2.1 px.2.2.2.2.2.1 (hne _ (Or.inl rfl)) (hne _ (Or.inr rfl)) (intLit_pyInt i)

theorem tok_int (i : Int) : Tok (pyInt i) := by
  obtain ⟨x, xs, e, _, hall⟩ := pyInt_chars i
  exact tok_unquoted (by rw [e]; simp) (fun c hc => ⟨(digit_or_minus_props (hall c hc)).2.2.2.2.2.2.1,
    (digit_or_minus_props (hall c hc)).2.2.2.2.2.2.2⟩)

theorem tok_bool (b : Bool) : Tok (boolStr b) := by
  cases b <;> exact tok_unquoted (by decide) (by decide)

theorem isDigit_props {c : Char} (h : isDigit c = true) :
    c.toNat < 128 ∧ lowerAscii c = c ∧ nqChar c = true ∧ c ≠ '\n' ∧ c ≠ 't' ∧ c ≠ 'f' ∧ c ≠ '"' ∧ c ≠ '\'' := by
  have := digit_or_minus_props (Or.inl h)
  exact ⟨this.1, this.2.1, this.2.2.2.2.2.2.1, this.2.2.2.2.2.2.2, this.2.2.1, this.2.2.2.1, this.2.2.2.2.1, this.2.2.2.2.2.1⟩

theorem kbVal_unquoted_real (T : Tab) (rec : Str → Except PyExc Path) {v : Str} {x : Char} {xs : Str} (hv : v = x :: xs)
    (h1 : x ≠ '"') (h2 : x ≠ '\'') (h3 : T.lowerS v ≠ "true".toList) (h4 : T.lowerS v ≠ "false".toList)
    (hi : intLit v = none) (hr : realLit v = true) : kbVal T rec v = .ok (.real v) := by
  subst hv
  have h3' : T.lowerS (x :: xs) ≠ ['t', 'r', 'u', 'e'] := h3
  have h4' : T.lowerS (x :: xs) ≠ ['f', 'a', 'l', 's', 'e'] := h4
  unfold kbVal
  simp [h1, h2, h3', h4', hi, hr]

/-- a text whose first character is a digit or `-` is no boolean -/
theorem lowerS_not_bool {T : Tab} (hT : TabOk T) {x : Char} {xs : Str} (hx : isDigit x = true ∨ x = '-')
    (hall : ∀ c ∈ x :: xs, c.toNat < 128) :
    T.lowerS (x :: xs) ≠ "true".toList ∧ T.lowerS (x :: xs) ≠ "false".toList := by
  have px := digit_or_minus_props hx
  rw [lowerS_ascii hT _ hall]
  simp only [List.map_cons, px.2.1]
  constructor <;> (intro e; simp at e; first | exact px.2.2.1 e.1 | exact px.2.2.2.1 e.1)

theorem form1_chars {v : Str} (h : Form1 v) :
    (∃ x xs, v = x :: xs ∧ (isDigit x = true ∨ x = '-')) ∧
    (∀ c ∈ v, c.toNat < 128 ∧ nqChar c = true ∧ c ≠ '\n') ∧
    (∀ l, v.getLast? = some l → isDigit l = true) := by
  obtain ⟨sg, ip, fp, ex, hsg, hip, hfp, hex, rfl⟩ := h
  obtain ⟨i0, is, rfl⟩ : ∃ i0 is, ip = i0 :: is := by
    cases ip with
    | nil => exact absurd rfl hip.1
    | cons a b => exact ⟨a, b, rfl⟩
  have hi0 : isDigit i0 = true := hip.2 i0 (by simp)
  refine ⟨?_, ?_, ?_⟩
  · rcases hsg with rfl | rfl
    · exact ⟨i0, is ++ '.' :: (fp ++ ex), by simp, Or.inl hi0⟩
    · exact ⟨'-', i0 :: (is ++ '.' :: (fp ++ ex)), by simp, Or.inr rfl⟩
  · intro c hc
    have good : ∀ d : Char, (isDigit d = true ∨ d = '-' ∨ d = '.' ∨ d = 'e' ∨ d = '+') →
        d.toNat < 128 ∧ nqChar d = true ∧ d ≠ '\n' := by
      intro d hd
      rcases hd with hd | rfl | rfl | rfl | rfl
      · have := isDigit_props hd; exact ⟨this.1, this.2.2.1, this.2.2.2.1⟩
      all_goals decide
    apply good
    simp only [List.mem_append, List.mem_cons] at hc
    rcases hc with hc | hc | rfl | hc | hc
    · rcases hsg with rfl | rfl
      · simp at hc
      · simp at hc; subst hc; exact Or.inr (Or.inl rfl)
    · exact Or.inl (hip.2 c (by simpa using hc))
    · exact Or.inr (Or.inr (Or.inl rfl))
    · exact Or.inl (hfp.2 c hc)
    · rcases hex with rfl | ⟨s, ds, rfl, hs, hds⟩
      · simp at hc
      · simp only [List.mem_cons] at hc
        rcases hc with rfl | rfl | hc
        · exact Or.inr (Or.inr (Or.inr (Or.inl rfl)))
        · rcases hs with rfl | rfl
          · exact Or.inr (Or.inr (Or.inr (Or.inr rfl)))
          · exact Or.inr (Or.inl rfl)
        · exact Or.inl (hds.2 c hc)
  · intro l hl
    have hne : fp ++ ex ≠ [] := by simp [hfp.1]
    have e1 : (sg ++ (i0 :: is ++ '.' :: (fp ++ ex))).getLast? = (fp ++ ex).getLast? := by
      rw [List.getLast?_append, List.getLast?_append]
      have : ('.' :: (fp ++ ex)).getLast? = (fp ++ ex).getLast? := by
        cases hfe : fp ++ ex with
        | nil => exact absurd hfe hne
        | cons a b => simp [List.getLast?_cons_cons]
      rw [this, List.getLast?_eq_some_getLast hne]; simp
    rw [e1] at hl
    rcases hex with rfl | ⟨s, ds, rfl, hs, hds⟩
    · simp only [List.append_nil] at hl
      exact hfp.2 l (List.mem_of_getLast? hl)
    · rw [List.getLast?_append] at hl
      have : ('e' :: s :: ds).getLast? = ds.getLast? := by
        cases hd : ds with
        | nil => exact absurd hd hds.1
        | cons a b => simp [List.getLast?_cons_cons]
      rw [this, List.getLast?_eq_some_getLast hds.1] at hl
      simp at hl; subst hl
      exact hds.2 _ (List.getLast_mem _)

theorem splitSign_digit {h : Char} (t : Str) (hd : isDigit h = true) : splitSign (h :: t) = (false, h :: t) := by
  have hne := isDigit_ne hd
  unfold splitSign
  split
  · rename_i heq; cases heq; exact absurd rfl hne.1
  · rename_i heq; cases heq; exact absurd rfl hne.2.1
  · rfl

theorem form1_lits {v : Str} (h : Form1 v) : intLit v = none ∧ realLit v = true := by
  have hch := form1_chars h
  obtain ⟨sg, ip, fp, ex, hsg, hip, hfp, hex, rfl⟩ := h
  have hchomp : chomp (sg ++ (ip ++ '.' :: (fp ++ ex))) = sg ++ (ip ++ '.' :: (fp ++ ex)) :=
    chomp_of_last (fun l hl => (isDigit_ne (hch.2.2 l hl)).2.2.2.2.1)
  obtain ⟨i0, is, rfl⟩ : ∃ i0 is, ip = i0 :: is := by
    cases ip with
    | nil => exact absurd rfl hip.1
    | cons a b => exact ⟨a, b, rfl⟩
  have hi0 : isDigit i0 = true := hip.2 i0 (by simp)
  have hsplit : ∃ neg, splitSign (sg ++ (i0 :: is ++ '.' :: (fp ++ ex))) = (neg, i0 :: (is ++ '.' :: (fp ++ ex))) := by
    rcases hsg with rfl | rfl
    · exact ⟨false, by simpa using splitSign_digit _ hi0⟩
    · exact ⟨true, by simp [splitSign]⟩
  obtain ⟨neg, hsp⟩ := hsplit
  have hdotd : isDigit '.' = false := by decide
  constructor
  · -- no integer literal: the text contains a '.'
    unfold intLit
    unfold intLitCore; rw [hsp]
    simp only
    have hlast : ∃ l, (i0 :: (is ++ '.' :: (fp ++ ex))).getLast? = some l ∧ isDigit l = true := by
      have hne : (i0 :: (is ++ '.' :: (fp ++ ex))) ≠ [] := by simp
      refine ⟨_, List.getLast?_eq_some_getLast hne, ?_⟩
      apply hch.2.2
      rcases hsg with rfl | rfl
      · simpa using List.getLast?_eq_some_getLast hne
      · have : (['-'] ++ (i0 :: is ++ '.' :: (fp ++ ex))).getLast? = (i0 :: (is ++ '.' :: (fp ++ ex))).getLast? := by
          rw [List.getLast?_append]; simp [List.getLast?_eq_some_getLast hne]
        rw [this]; exact List.getLast?_eq_some_getLast hne
    obtain ⟨l, hl, hld⟩ := hlast
    have hlne := isDigit_ne hld
    rw [hl]
    have hb : (l == 'b' || l == 'B') = false := by simp [hlne.2.2.1, hlne.2.2.2.1]
    have hdot : '.' ∈ is ++ '.' :: (fp ++ ex) := by simp
    have ht1 : (is ++ '.' :: (fp ++ ex)).all isOct17 = false := by
      apply Bool.eq_false_iff.mpr; intro hall
      have := List.all_eq_true.mp hall '.' hdot; revert this; decide
    have ht2 : (is ++ '.' :: (fp ++ ex)).all isDigit = false := by
      apply Bool.eq_false_iff.mpr; intro hall
      have := List.all_eq_true.mp hall '.' hdot; revert this; decide
    simp only [hb, Bool.false_and, Bool.false_eq_true, if_false, ht1, Bool.and_false, ht2]
    split
    · rfl
    · split
      · split
        · rename_i x hs heq
          have hx : isDigit x = true ∨ x = '.' := by
            cases is with
            | nil => simp at heq; exact Or.inr heq.1.symm
            | cons a b => simp at heq; exact Or.inl (heq.1 ▸ hip.2 a (by simp))
          have : (x == 'x' || x == 'X') = false := by
            rcases hx with hx | rfl
            · have e0 : ('0' : Char).toNat = 48 := by decide
              have e9 : ('9' : Char).toNat = 57 := by decide
              simp only [isDigit, Bool.and_eq_true, decide_eq_true_eq, e0, e9] at hx
              have n1 : x ≠ 'x' := by intro e; subst e; revert hx; decide
              have n2 : x ≠ 'X' := by intro e; subst e; revert hx; decide
              simp [n1, n2]
            · decide
          simp [this]
        · rfl
      · rfl
  · unfold realLit; rw [hchomp]
    unfold realLitCore
    simp only [Bool.or_eq_true]
    right
    rw [hsp]
    simp only
    have hipall : ∀ c ∈ i0 :: is, isDigit c = true := hip.2
    have e0 : i0 :: (is ++ '.' :: (fp ++ ex)) = (i0 :: is) ++ '.' :: (fp ++ ex) := by simp
    unfold realBody
    rw [e0, dropWhile_stop hipall hdotd]
    simp only
    rcases hex with rfl | ⟨s, ds, rfl, hs, hds⟩
    · simp only [List.append_nil, takeWhile_end hfp.2, dropWhile_end hfp.2]
      simp [hfp.1]
    · have hed : isDigit 'e' = false := by decide
      rw [takeWhile_stop hfp.2 hed, dropWhile_stop hfp.2 hed]
      have : splitSign (s :: ds) = (s == '-', ds) := by rcases hs with rfl | rfl <;> rfl
      simp only [this]
      simp [hfp.1, hds.1, List.all_eq_true.mpr hds.2]

/-- **Reals survive**: for every text of a shape `repr(float)` produces, the printed literal (`.0` inserted before
    a bare exponent) is one unquoted token and `_kbstr_to_cimval` reads it as a real (not as integer, boolean, datetime) -/
theorem real_printed_ok {T : Tab} (hT : TabOk T) {r : Str} (h : isFloatRepr r = true) :
    Tok (fixExp r) ∧ ∀ rec, kbVal T rec (fixExp r) = .ok (.real (fixExp r)) := by
  have special : ∀ w : Str, (w = "inf".toList ∨ w = "-inf".toList ∨ w = "nan".toList) →
      Tok w ∧ ∀ rec, kbVal T rec w = .ok (.real w) := by
    intro w hw
    have hall : ∀ c ∈ w, c.toNat < 128 := by rcases hw with rfl | rfl | rfl <;> decide
    have hlow : T.lowerS w = w.map lowerAscii := lowerS_ascii hT w hall
    refine ⟨?_, fun rec => ?_⟩
    · rcases hw with rfl | rfl | rfl <;> exact tok_unquoted (by decide) (by decide)
    · rcases hw with rfl | rfl | rfl
      · exact kbVal_unquoted_real T rec rfl (by decide) (by decide) (by rw [hlow]; decide) (by rw [hlow]; decide) (by decide) (by decide)
      · exact kbVal_unquoted_real T rec rfl (by decide) (by decide) (by rw [hlow]; decide) (by rw [hlow]; decide) (by decide) (by decide)
      · exact kbVal_unquoted_real T rec rfl (by decide) (by decide) (by rw [hlow]; decide) (by rw [hlow]; decide) (by decide) (by decide)
  have hfix_special : ∀ w : Str, (w = "inf".toList ∨ w = "-inf".toList ∨ w = "nan".toList) → fixExp w = w := by
    intro w hw; rcases hw with rfl | rfl | rfl <;> decide
  rcases fixExp_form1 h with h1 | h1 | h1 | hf
  · rw [hfix_special r (Or.inl h1)]; exact special r (Or.inl h1)
  · rw [hfix_special r (Or.inr (Or.inl h1))]; exact special r (Or.inr (Or.inl h1))
  · rw [hfix_special r (Or.inr (Or.inr h1))]; exact special r (Or.inr (Or.inr h1))
  · have hc := form1_chars hf
    have hl := form1_lits hf
    obtain ⟨x, xs, hv, hx⟩ := hc.1
    have px := digit_or_minus_props hx
    refine ⟨tok_unquoted (by rw [hv]; simp) (fun c hc' => ⟨(hc.2.1 c hc').2.1, (hc.2.1 c hc').2.2⟩), fun rec => ?_⟩
    have hnb := lowerS_not_bool hT hx (fun c hc' => (hc.2.1 c (by rw [hv]; exact hc')).1)
    rw [← hv] at hnb
    exact kbVal_unquoted_real T rec hv px.2.2.2.2.1 px.2.2.2.2.2.1 hnb.1 hnb.2 hl.1 hl.2

/-! ### round trip, step 5: the dictionaries -/

theorem dictSet_new {k : Str} {v : KeyVal} : ∀ acc : List (Str × KeyVal), k ∉ acc.map (·.1) →
    dictSet k v acc = acc ++ [(k, v)]
  | [], _ => rfl
  | (k', v') :: r, h => by
    have h' : k' ≠ k ∧ k ∉ r.map (·.1) := by
      simp only [List.map_cons, List.mem_cons, not_or] at h; exact ⟨fun e => h.1 e.symm, h.2⟩
    simp [dictSet, h'.1, dictSet_new r h'.2]

theorem dict_foldl : ∀ (l acc : List (Str × KeyVal)), ((acc ++ l).map (·.1)).Nodup →
    l.foldl (fun a kv => dictSet kv.1 kv.2 a) acc = acc ++ l
  | [], acc, _ => by simp
  | kv :: r, acc, h => by
    have hn : kv.1 ∉ acc.map (·.1) := by
      simp only [List.map_append, List.map_cons, List.nodup_append, List.nodup_cons] at h
      intro hm; exact h.2.2 _ hm _ (by simp) rfl
    simp only [List.foldl_cons, dictSet_new acc hn]
    rw [dict_foldl r (acc ++ [kv]) (by simpa using h)]; simp

theorem ncSet_new {T : Tab} {k : Str} {v : KeyVal} : ∀ acc : List (Str × KeyVal),
    T.foldS k ∉ acc.map (fun kv => T.foldS kv.1) → ncSet T k v acc = acc ++ [(k, v)]
  | [], _ => rfl
  | (k', v') :: r, h => by
    have h' : T.foldS k' ≠ T.foldS k ∧ T.foldS k ∉ r.map (fun kv => T.foldS kv.1) := by
      simp only [List.map_cons, List.mem_cons, not_or] at h; exact ⟨fun e => h.1 e.symm, h.2⟩
    simp [ncSet, h'.1, ncSet_new r h'.2]

theorem nc_foldl {T : Tab} : ∀ (l acc : List (Str × KeyVal)), ((acc ++ l).map (fun kv => T.foldS kv.1)).Nodup →
    l.foldl (fun a kv => ncSet T kv.1 kv.2 a) acc = acc ++ l
  | [], acc, _ => by simp
  | kv :: r, acc, h => by
    have hn : T.foldS kv.1 ∉ acc.map (fun kv => T.foldS kv.1) := by
      simp only [List.map_append, List.map_cons, List.nodup_append, List.nodup_cons] at h
      intro hm; exact h.2.2 _ hm _ (by simp) rfl
    simp only [List.foldl_cons, ncSet_new acc hn]
    rw [nc_foldl r (acc ++ [kv]) (by simpa using h)]; simp

/-- keybindings whose names differ after casefold go through `{}` and NocaseDict unchanged -/
theorem buildKeys_nodup {T : Tab} (kvs : List (Str × KeyVal)) (h : (kvs.map (fun kv => T.foldS kv.1)).Nodup) :
    buildKeys T kvs = Keys.ofList kvs := by
  have h1 : (kvs.map (·.1)).Nodup := by
    have : kvs.map (fun kv => T.foldS kv.1) = (kvs.map (·.1)).map T.foldS := by simp [List.map_map, Function.comp_def]
    rw [this] at h
    exact List.Pairwise.of_map T.foldS (fun a b hab e => hab (by rw [e])) h
  unfold buildKeys
  simp only
  rw [dict_foldl kvs [] (by simpa using h1)]
  simp only [List.nil_append]
  rw [nc_foldl kvs [] (by simpa using h)]
  simp

/-! ### round trip, step 6: assembly -/

theorem kbVals_map {T : Tab} {rec : Str → Except PyExc Path} (g : Str × Str → KeyVal) :
    ∀ items : List (Str × Str), (∀ kv ∈ items, kbVal T rec kv.2 = .ok (g kv)) →
      kbVals T rec items = .ok (items.map (fun kv => (kv.1, g kv)))
  | [], _ => rfl
  | (k, v) :: r, h => by
    have h1 := h (k, v) (by simp)
    have h2 := kbVals_map g r (fun kv hkv => h kv (by simp [hkv]))
    simp only at h1
    simp only [kbVals, h1, h2, List.map_cons]

theorem escape_len (s : Str) : s.length ≤ (escape s).length := by
  induction s with
  | nil => simp
  | cons c r ih =>
    rw [escape_cons]
    have : 1 ≤ (escChar c).length := by unfold escChar; split <;> (try split) <;> simp
    simp; omega

theorem notUri_fuel {T : Tab} {s : Str} (h : NotUri T s) {m : Nat} (hm : s.length < m) :
    fromUriF T m s = .error .valueError := by
  unfold NotUri fromUri at h
  rw [fromUriF_mono T (by omega : s.length + 1 ≤ m) (by rw [h]; intro e; cases e), h]

/-- what the round-trip induction proves for one value -/
def ValRT (T : Tab) (fmt : Fmt) (v : KeyVal) : Prop :=
  Tok (printVal T fmt v) ∧
  ∀ m, (printVal T fmt v).length ≤ m → kbVal T (fromUriF T m) (printVal T fmt v) = .ok (normVal T fmt v)

def PathRT (T : Tab) (fmt : Fmt) (p : Path) : Prop :=
  (∀ c ∈ toUri T fmt p, c ≠ '\n') ∧
  ∀ n, (toUri T fmt p).length < n → fromUriF T n (toUri T fmt p) = .ok (normPath T fmt p)

theorem fold_case {T : Tab} (hT : TabOk T) (fmt : Fmt) (k : Str) : T.foldS (caseOf T fmt k) = T.foldS k := by
  unfold caseOf; split
  · exact hT.fold_lower k
  · rfl

theorem lookupKV_exists {T : Tab} {k0 : Str} : ∀ ks : Keys, k0 ∈ ks.names → ∀ k, T.foldS k = T.foldS k0 →
    ∃ v, lookupKV T k ks = some v
  | .nil, h, _, _ => by simp [Keys.names] at h
  | .cons k' v r, h, k, hk => by
    simp only [lookupKV]
    split
    · exact ⟨v, rfl⟩
    · rename_i hne
      simp only [Keys.names, List.mem_cons] at h
      rcases h with rfl | h
      · exact absurd hk.symm hne
      · exact lookupKV_exists r h k hk

theorem quote_len (b : Str) : (quote b).length = b.length + 2 := by simp [quote]

/-- one level of the round trip, given the facts about the values one level down -/
theorem path_rt_step {T : Tab} (hT : TabOk T) {fmt : Fmt} {h n : Option Str} {c : Str} {ks : Keys}
    (hhead : HeadOk T fmt h n c) (hne : ks ≠ .nil) (hnd : (foldNames T ks).Nodup)
    (hnames : ∀ k ∈ ks.names, caseOf T fmt k ≠ [] ∧ ∀ ch ∈ caseOf T fmt k, T.word ch = true)
    (hvals : ∀ k v, lookupKV T k ks = some v → ValRT T fmt v) :
    PathRT T fmt (.mk h n c ks) := by
  -- the printed keybindings as (name, value text) items
  let names := sortedNames T fmt ks
  let items : List (Str × Str) := names.map (fun k => (k, (lookupFold T k (printKeys T fmt ks)).getD []))
  have hmem : ∀ k ∈ names, ∃ k0 ∈ ks.names, k = caseOf T fmt k0 := by
    intro k hk
    have := (sortStrs_perm _).mem_iff.mp hk
    simpa [eq_comm] using this
  have hlook : ∀ k ∈ names, ∃ v, lookupKV T k ks = some v := by
    intro k hk
    obtain ⟨k0, hk0, rfl⟩ := hmem k hk
    exact lookupKV_exists ks hk0 _ (fold_case hT fmt k0)
  have hbody : bodyStr T fmt (printKeys T fmt ks) = '.' :: joinComma (items.map itemStr) := by
    have hp : printKeys T fmt ks ≠ [] := fun e => hne ((printKeys_nil_iff T fmt ks).mp e)
    unfold bodyStr
    split
    · rename_i e; exact absurd e hp
    · simp only [items, names, sortedNames, List.map_map]
      rw [← printKeys_names T fmt ks, List.map_map]
      rfl
  have hnames_ne : names ≠ [] := by
    intro e
    have hp := sortStrs_perm (ks.names.map (caseOf T fmt))
    have : (sortedNames T fmt ks).length = (ks.names.map (caseOf T fmt)).length := hp.length_eq
    simp only [names] at e
    rw [e] at this
    cases ks with
    | nil => exact hne rfl
    | cons k v r => simp [Keys.names] at this
  have hitems_ne : items ≠ [] := by simpa [items] using hnames_ne
  have hitem : ∀ kv ∈ items, (kv.1 ≠ [] ∧ ∀ ch ∈ kv.1, T.word ch = true) ∧ Tok kv.2 ∧
      ∃ v, lookupKV T kv.1 ks = some v ∧ kv.2 = printVal T fmt v := by
    intro kv hkv
    simp only [items, List.mem_map] at hkv
    obtain ⟨k, hk, rfl⟩ := hkv
    obtain ⟨k0, hk0, rfl⟩ := hmem k hk
    obtain ⟨v, hv⟩ := hlook _ hk
    have e : (lookupFold T (caseOf T fmt k0) (printKeys T fmt ks)).getD [] = printVal T fmt v := by
      rw [lookupFold_printKeys, hv]; rfl
    exact ⟨hnames k0 hk0, by rw [e]; exact (hvals _ v hv).1, v, hv, e⟩
  -- no newline in the keybinding text
  have hkb_nonl : ∀ ch ∈ joinComma (items.map itemStr), ch ≠ '\n' := by
    apply joinComma_nonl
    intro x hx ch hch
    simp only [List.mem_map] at hx
    obtain ⟨kv, hkv, rfl⟩ := hx
    obtain ⟨⟨_, hw⟩, ht, _⟩ := hitem kv hkv
    simp only [itemStr, List.mem_append, List.mem_cons] at hch
    rcases hch with hch | rfl | hch
    · intro e; subst e; have := hw _ hch; rw [hT.not_word '\n' (by simp)] at this; cases this
    · decide
    · exact ht.nonl ch hch
  generalize hkb : joinComma (items.map itemStr) = kb at hbody hkb_nonl
  have hkb_ne : kb ≠ [] := by
    intro e
    have := joinComma_length (items.map itemStr) (by
      intro x hx; simp only [List.mem_map] at hx; obtain ⟨kv, _, rfl⟩ := hx; simp [itemStr])
    rw [hkb, e] at this
    have h1 : 1 ≤ items.length := by
      cases hi : items with
      | nil => exact absurd hi hitems_ne
      | cons a r => simp
    -- a single item is non-empty, so the joined text is non-empty
    cases hi : items with
    | nil => exact absurd hi hitems_ne
    | cons a r =>
      have ha : itemStr a ≠ [] := by simp [itemStr]
      have hl := mem_joinComma_len (items.map itemStr) (itemStr a) (by rw [hi]; simp)
      rw [hkb, e] at hl
      cases hs : itemStr a with
      | nil => exact ha hs
      | cons y ys => rw [hs] at hl; simp at hl
  have huri : toUri T fmt (.mk h n c ks) = headStr T fmt h n c ++ '.' :: kb := by
    simp only [toUri, hbody]
  constructor
  · -- no newline in the whole URI
    intro ch hch
    rw [huri] at hch
    simp only [List.mem_append, List.mem_cons] at hch
    rcases hch with hch | rfl | hch
    · -- head: host / namespace / class characters and separators
      intro e; subst e
      have wnl : T.word '\n' = false := hT.not_word '\n' (by simp)
      obtain ⟨hhost, hns, hcls, _⟩ := hhead
      simp only [headStr, List.mem_append] at hch
      rcases hch with (((hch | hch) | hch) | hch) | hch
      · cases h with
        | none => simp at hch
        | some hh =>
          by_cases hfmt : fmt = .cimobject
          · simp [hfmt] at hch
          · simp only [hfmt, ne_eq, not_false_eq_true, if_true, List.mem_cons] at hch
            rcases hch with hch | hch | hch
            · revert hch; decide
            · revert hch; decide
            · have := (hhost hfmt hh rfl).2 _ hch; simp [authChar, wnl] at this
      · split at hch <;> simp at hch
      · cases n with
        | none => simp [optStr] at hch
        | some m => have := (hns m rfl).2 _ (by simpa [optStr] using hch); simp [nsChar, wnl] at this
      · split at hch <;> simp at hch
      · have := hcls.2 _ hch; rw [wnl] at this; cases this
    · decide
    · exact hkb_nonl ch hch
  · intro fuel hfuel
    cases fuel with
    | zero => omega
    | succ m =>
      have hph := parseHead_printed_all hT hhead (tail := '.' :: kb) (Or.inr ⟨kb, rfl⟩)
      have hcw := hhead.cls
      have hdot : T.word '.' = false := hT.not_word '.' (by simp)
      have hsp : stepPrefix T (headStr T fmt h n c ++ '.' :: kb) =
          some ({ host := parsedHost T fmt h, ns := n.map (caseOf T fmt), rest := caseOf T fmt c ++ '.' :: kb },
                caseOf T fmt c, items) := by
        unfold stepPrefix
        simp only [hph, takeWhile_stop hcw.2 hdot, dropWhile_stop hcw.2 hdot]
        have tk : kb.takeWhile (· != '\n') = kb := takeWhile_end (fun ch hch => by simpa using hkb_nonl ch hch)
        have dk : kb.dropWhile (· != '\n') = [] := dropWhile_end (fun ch hch => by simpa using hkb_nonl ch hch)
        have hsa : scanAssigns T (kb.length + 1) kb = some items := by
          rw [← hkb]
          apply scanAssigns_items hT items hitems_ne (fun kv hkv => ⟨(hitem kv hkv).1, (hitem kv hkv).2.1⟩)
          have := joinComma_length (items.map itemStr) (by
            intro x hx; simp only [List.mem_map] at hx; obtain ⟨kv, _, rfl⟩ := hx; simp [itemStr])
          simpa using this
        simp [tk, dk, hsa, hcw.1, hkb_ne, atEnd]
      have hlen_kb : kb.length + 1 ≤ (toUri T fmt (.mk h n c ks)).length := by
        rw [huri]; simp
      -- every value text is read back as its normal form
      have hvalsOk : ∀ kv ∈ items, kbVal T (fromUriF T m) kv.2 =
          .ok ((fun kv : Str × Str => ((lookupKV T kv.1 ks).map (normVal T fmt)).getD (.bool false)) kv) := by
        intro kv hkv
        obtain ⟨_, _, v, hv, e⟩ := hitem kv hkv
        have hl : kv.2.length ≤ m := by
          have h1 := mem_joinComma_len (items.map itemStr) (itemStr kv) (List.mem_map_of_mem hkv)
          rw [hkb] at h1
          have h2 : kv.2.length ≤ (itemStr kv).length := by simp [itemStr]; omega
          omega
        simp only [hv, Option.map_some, Option.getD_some]
        rw [e] at hl ⊢
        exact (hvals _ v hv).2 m hl
      have hkv := kbVals_map (T := T) (rec := fromUriF T m) _ items hvalsOk
      rw [huri]
      simp only [fromUriF, fromUriStep, hsp, hkv]
      -- the dictionaries keep everything
      have hpairs : items.map (fun kv => (kv.1, ((lookupKV T kv.1 ks).map (normVal T fmt)).getD (.bool false))) =
          names.map (fun k => (k, (lookupKV T k (normKeys T fmt ks)).getD (.bool false))) := by
        simp only [items, List.map_map]
        apply List.map_congr_left
        intro k _
        simp [lookupKV_normKeys]
      have hnd' : ((names.map (fun k => (k, (lookupKV T k (normKeys T fmt ks)).getD (.bool false)))).map
          (fun kv => T.foldS kv.1)).Nodup := by
        simp only [List.map_map, Function.comp_def]
        have hp : (names.map T.foldS).Perm ((ks.names.map (caseOf T fmt)).map T.foldS) := (sortStrs_perm _).map _
        have he : (ks.names.map (caseOf T fmt)).map T.foldS = foldNames T ks := by
          simp [foldNames, List.map_map, Function.comp_def, fold_case hT]
        rw [he] at hp
        exact hp.nodup_iff.mpr hnd
      rw [hpairs, buildKeys_nodup _ hnd']
      simp only [normPath, sortKeys, sortedNames, normKeys_names]
      rfl

mutual
theorem val_rt_ok {T : Tab} (hT : TabOk T) (fmt : Fmt) : (v : KeyVal) → ValOk T fmt v → ValRT T fmt v
  | .str s, h => by
    have h' : (∀ c ∈ s, c ≠ '\n') ∧ NotUri T s ∧ dtAccepts s = false := by simpa [ValOk] using h
    refine ⟨by simpa [printVal] using tok_quoted_escape h'.1, fun m hm => ?_⟩
    simp only [printVal, quote_len] at hm ⊢
    have hl := escape_len s
    have hr : fromUriF T m (unescape (escape s)) = .error .valueError := by
      rw [unescape_escape]; exact notUri_fuel h'.2.1 (by omega)
    rw [kbVal_quoted_ve hr, unescape_escape, h'.2.2]; simp [normVal]
  | .bool b, _ => ⟨by simpa [printVal] using tok_bool b, fun m _ => by simpa [printVal, normVal] using kbVal_bool hT _ b⟩
  | .int i, _ => ⟨by simpa [printVal] using tok_int i, fun m _ => by simpa [printVal, normVal] using kbVal_int hT _ i⟩
  | .real r, h => by
    have h' := real_printed_ok hT (r := r) (by simpa [ValOk] using h)
    exact ⟨by simpa [printVal] using h'.1, fun m _ => by simpa [printVal, normVal] using h'.2 _⟩
  | .dt s, h => by
    have h' : dtAccepts s = true ∧ (∀ c ∈ s, c ≠ '"' ∧ c ≠ '\\' ∧ c ≠ '\n') ∧ NotUri T s := by simpa [ValOk] using h
    refine ⟨by simpa [printVal] using tok_quoted_plain h'.2.1, fun m hm => ?_⟩
    simp only [printVal, quote_len] at hm ⊢
    have hu : unescape s = s := unescape_plain s (fun c hc => (h'.2.1 c hc).2.1)
    have hr : fromUriF T m (unescape s) = .error .valueError := by
      rw [hu]; exact notUri_fuel h'.2.2 (by omega)
    rw [kbVal_quoted_ve hr, hu, h'.1]; simp [normVal]
  | .ref q, h => by
    have h' : PathOk T fmt q := by simpa [ValOk] using h
    have r := path_rt_ok hT fmt q h'
    refine ⟨by simpa [printVal, escapeRef_eq] using tok_quoted_escape r.1, fun m hm => ?_⟩
    simp only [printVal, escapeRef_eq, quote_len] at hm ⊢
    have hl := escape_len (toUri T fmt q)
    have hr : fromUriF T m (unescape (escape (toUri T fmt q))) = .ok (normPath T fmt q) := by
      rw [unescape_escape]; exact r.2 m (by omega)
    rw [kbVal_quoted_ok hr]; simp [normVal]
theorem path_rt_ok {T : Tab} (hT : TabOk T) (fmt : Fmt) : (p : Path) → PathOk T fmt p → PathRT T fmt p
  | .mk h n c ks, hs => by
    have hs' : HeadOk T fmt h n c ∧ ks ≠ .nil ∧ (foldNames T ks).Nodup ∧
      (∀ k ∈ ks.names, caseOf T fmt k ≠ [] ∧ ∀ ch ∈ caseOf T fmt k, T.word ch = true) ∧ KeysOk T fmt ks := by
      simpa [PathOk] using hs
    exact path_rt_step hT hs'.1 hs'.2.1 hs'.2.2.1 hs'.2.2.2.1 (keys_rt_ok hT fmt ks hs'.2.2.2.2)
theorem keys_rt_ok {T : Tab} (hT : TabOk T) (fmt : Fmt) : (ks : Keys) → KeysOk T fmt ks →
    ∀ k v, lookupKV T k ks = some v → ValRT T fmt v
  | .nil, _, k, v, h => by simp [lookupKV] at h
  | .cons k' v' r, hs, k, v, h => by
    have hs' : ValOk T fmt v' ∧ KeysOk T fmt r := by simpa [KeysOk] using hs
    simp only [lookupKV] at h
    split at h
    · cases h; exact val_rt_ok hT fmt v' hs'.1
    · exact keys_rt_ok hT fmt r hs'.2 k v h
end

theorem path_rt {T : Tab} (hT : TabOk T) (fmt : Fmt) (p : Path) (hs : PathSafe T fmt p) : PathRT T fmt p :=
  path_rt_ok hT fmt p (pathSafe_ok p hs)

/-! ### the re-parsed path compares equal (`==`) to the original -/

/-- what is assumed about CPython's `float()`: `same a b` stands for `float(a) == float(b)`; inserting `.0` before
    the exponent does not change the value (NaN excluded: `nan != nan`) -/
structure RealSem where
  same : Str → Str → Prop
  fix_same : ∀ r, isFloatRepr r = true → r ≠ "nan".toList → same (fixExp r) r

mutual
/-- model of `==` on keybinding values of the same kind (cross-type equalities such as `1 == 1.0` are not needed here) -/
inductive ValEq (T : Tab) (R : RealSem) : KeyVal → KeyVal → Prop
  | str {s} : ValEq T R (.str s) (.str s)
  | bool {b} : ValEq T R (.bool b) (.bool b)
  | int {i} : ValEq T R (.int i) (.int i)
  | dt {s} : ValEq T R (.dt s) (.dt s)
  | real {a b} : R.same a b → ValEq T R (.real a) (.real b)
  | ref {p q} : PathEq T R p q → ValEq T R (.ref p) (.ref q)
/-- mirrors CIMInstanceName.__eq__: host, namespace, class name by `lower()`, keybindings by NocaseDict.__eq__ -/
inductive PathEq (T : Tab) (R : RealSem) : Path → Path → Prop
  | mk {h h' n n' c c' ks ks'} : OptLowerEq T h h' → OptLowerEq T n n' → T.lowerS c = T.lowerS c' →
      ks.names.length = ks'.names.length → KeysSub T R ks ks' → PathEq T R (.mk h n c ks) (.mk h' n' c' ks')
/-- mirrors NocaseDict.__eq__: every item of the left has an equal partner (casefold lookup) in the right -/
inductive KeysSub (T : Tab) (R : RealSem) : Keys → Keys → Prop
  | nil {o} : KeysSub T R .nil o
  | cons {k v r o v'} : lookupKV T k o = some v' → ValEq T R v v' → KeysSub T R r o → KeysSub T R (.cons k v r) o
end

mutual
def NoNaNVal : KeyVal → Prop
  | .real r => r ≠ "nan".toList
  | .ref p => NoNaN p
  | _ => True
def NoNaN : Path → Prop
  | .mk _ _ _ ks => NoNaNKeys ks
def NoNaNKeys : Keys → Prop
  | .nil => True
  | .cons _ v r => NoNaNVal v ∧ NoNaNKeys r
end

theorem optLower_case_self {T : Tab} (hT : TabOk T) (fmt : Fmt) (o : Option Str) :
    OptLowerEq T (o.map (caseOf T fmt)) o := by
  cases o with
  | none => trivial
  | some x =>
    simp only [Option.map_some, OptLowerEq, caseOf]
    split
    · exact hT.lower_idem x
    · rfl

theorem names_ofList_map (l : List Str) (g : Str → KeyVal) : (Keys.ofList (l.map (fun k => (k, g k)))).names = l := by
  induction l with
  | nil => rfl
  | cons a r ih => simp [Keys.ofList, Keys.names, ih]

theorem keysSub_sorted {T : Tab} {R : RealSem} {fmt : Fmt} {ks : Keys}
    (hv : ∀ k v, lookupKV T k ks = some v → ValEq T R (normVal T fmt v) v) :
    ∀ l : List Str, (∀ k ∈ l, ∃ v, lookupKV T k ks = some v) →
      KeysSub T R (Keys.ofList (l.map (fun k => (k, (lookupKV T k (normKeys T fmt ks)).getD (.bool false))))) ks
  | [], _ => .nil
  | k :: r, h => by
    obtain ⟨v, hk⟩ := h k (by simp)
    simp only [List.map_cons, Keys.ofList]
    refine .cons hk ?_ (keysSub_sorted hv r (fun k' hk' => h k' (by simp [hk'])))
    rw [lookupKV_normKeys, hk]
    exact hv k v hk

mutual
theorem val_eq {T : Tab} (hT : TabOk T) (R : RealSem) (fmt : Fmt) :
    (v : KeyVal) → ValSafe T fmt v → NoNaNVal v → ValEq T R (normVal T fmt v) v
  | .str s, _, _ => by simp only [normVal]; exact .str
  | .bool b, _, _ => by simp only [normVal]; exact .bool
  | .int i, _, _ => by simp only [normVal]; exact .int
  | .dt s, _, _ => by simp only [normVal]; exact .dt
  | .real r, h, hn => by
    simp only [normVal]
    exact .real (R.fix_same r (by simpa [ValSafe] using h) (by simpa [NoNaNVal] using hn))
  | .ref q, h, hn => by
    simp only [normVal]
    exact .ref (path_eq hT R fmt q (by simpa [ValSafe] using h) (by simpa [NoNaNVal] using hn))
theorem path_eq {T : Tab} (hT : TabOk T) (R : RealSem) (fmt : Fmt) :
    (p : Path) → PathSafe T fmt p → NoNaN p → PathEq T R (normPath T fmt p) p
  | .mk h n c ks, hs, hn => by
    have hs' : HeadSafe T fmt h n c ∧ ks ≠ .nil ∧ (foldNames T ks).Nodup ∧
      (∀ k ∈ ks.names, caseOf T fmt k ≠ [] ∧ ∀ ch ∈ caseOf T fmt k, T.word ch = true) ∧ KeysSafe T fmt ks := by
      simpa [PathSafe] using hs
    have hv := keys_eq hT R fmt ks hs'.2.2.2.2 (by simpa [NoNaN] using hn)
    simp only [normPath, sortKeys]
    have hc : T.lowerS (caseOf T fmt c) = T.lowerS c := by
      unfold caseOf; split
      · exact hT.lower_idem c
      · rfl
    have hph : parsedHost T fmt h = h.map (caseOf T fmt) := by simp [parsedHost, hs'.1.fmt_ok]
    rw [hph]
    refine .mk (optLower_case_self hT fmt h) (optLower_case_self hT fmt n) hc ?_ ?_
    · rw [names_ofList_map]
      simp only [sortedNames, normKeys_names]
      have := (sortStrs_perm (ks.names.map (caseOf T fmt))).length_eq
      simpa using this
    · apply keysSub_sorted hv
      intro k hk
      simp only [sortedNames, normKeys_names] at hk
      have := (sortStrs_perm _).mem_iff.mp hk
      simp only [List.mem_map] at this
      obtain ⟨k0, hk0, rfl⟩ := this
      exact lookupKV_exists ks hk0 _ (fold_case hT fmt k0)
theorem keys_eq {T : Tab} (hT : TabOk T) (R : RealSem) (fmt : Fmt) :
    (ks : Keys) → KeysSafe T fmt ks → NoNaNKeys ks → ∀ k v, lookupKV T k ks = some v → ValEq T R (normVal T fmt v) v
  | .nil, _, _, k, v, h => by simp [lookupKV] at h
  | .cons k' v' r, hs, hn, k, v, h => by
    have hs' : ValSafe T fmt v' ∧ KeysSafe T fmt r := by simpa [KeysSafe] using hs
    have hn' : NoNaNVal v' ∧ NoNaNKeys r := by simpa [NoNaNKeys] using hn
    simp only [lookupKV] at h
    split at h
    · cases h; exact val_eq hT R fmt v' hs'.1 hn'.1
    · exact keys_eq hT R fmt r hs'.2 hn'.2 k v h
end

/-! ### whatever the parser returns satisfies the NocaseDict invariant (at every nesting level) -/

theorem ncSet_folds {T : Tab} (k : Str) (v : KeyVal) : ∀ acc : List (Str × KeyVal),
    ∀ f ∈ (ncSet T k v acc).map (fun kv => T.foldS kv.1), f = T.foldS k ∨ f ∈ acc.map (fun kv => T.foldS kv.1)
  | [], f, hf => by simp [ncSet] at hf; exact Or.inl hf
  | (k', v') :: r, f, hf => by
    unfold ncSet at hf
    split at hf
    · rename_i he
      simp only [List.map_cons, List.mem_cons] at hf ⊢
      rcases hf with hf | hf
      · exact Or.inl hf
      · exact Or.inr (Or.inr hf)
    · simp only [List.map_cons, List.mem_cons] at hf ⊢
      rcases hf with hf | hf
      · exact Or.inr (Or.inl hf)
      · rcases ncSet_folds k v r f hf with h | h
        · exact Or.inl h
        · exact Or.inr (Or.inr h)

theorem ncSet_nodup {T : Tab} (k : Str) (v : KeyVal) : ∀ acc : List (Str × KeyVal),
    (acc.map (fun kv => T.foldS kv.1)).Nodup → ((ncSet T k v acc).map (fun kv => T.foldS kv.1)).Nodup
  | [], _ => by simp [ncSet]
  | (k', v') :: r, h => by
    simp only [List.map_cons, List.nodup_cons] at h
    unfold ncSet
    split
    · rename_i he
      simp only [List.map_cons, List.nodup_cons]
      exact ⟨by rw [← he]; exact h.1, h.2⟩
    · rename_i hne
      simp only [List.map_cons, List.nodup_cons]
      refine ⟨?_, ncSet_nodup k v r h.2⟩
      intro hm
      rcases ncSet_folds k v r _ hm with e | e
      · exact hne e
      · exact h.1 e

theorem ncSet_vals {T : Tab} (k : Str) (v : KeyVal) : ∀ acc : List (Str × KeyVal),
    ∀ kv ∈ ncSet T k v acc, kv.2 = v ∨ ∃ kv' ∈ acc, kv'.2 = kv.2
  | [], kv, h => by simp [ncSet] at h; subst h; exact Or.inl rfl
  | (k', v') :: r, kv, h => by
    unfold ncSet at h
    split at h
    · simp only [List.mem_cons] at h
      rcases h with rfl | h
      · exact Or.inl rfl
      · exact Or.inr ⟨kv, by simp [h], rfl⟩
    · simp only [List.mem_cons] at h
      rcases h with rfl | h
      · exact Or.inr ⟨(k', v'), by simp, rfl⟩
      · rcases ncSet_vals k v r kv h with e | ⟨kv', hm, e⟩
        · exact Or.inl e
        · exact Or.inr ⟨kv', by simp [hm], e⟩

theorem dictSet_vals (k : Str) (v : KeyVal) : ∀ acc : List (Str × KeyVal),
    ∀ kv ∈ dictSet k v acc, kv.2 = v ∨ ∃ kv' ∈ acc, kv'.2 = kv.2
  | [], kv, h => by simp [dictSet] at h; subst h; exact Or.inl rfl
  | (k', v') :: r, kv, h => by
    unfold dictSet at h
    split at h
    · simp only [List.mem_cons] at h
      rcases h with rfl | h
      · exact Or.inl rfl
      · exact Or.inr ⟨kv, by simp [h], rfl⟩
    · simp only [List.mem_cons] at h
      rcases h with rfl | h
      · exact Or.inr ⟨(k', v'), by simp, rfl⟩
      · rcases dictSet_vals k v r kv h with e | ⟨kv', hm, e⟩
        · exact Or.inl e
        · exact Or.inr ⟨kv', by simp [hm], e⟩

theorem foldl_vals {f : Str → KeyVal → List (Str × KeyVal) → List (Str × KeyVal)}
    (hf : ∀ k v acc, ∀ kv ∈ f k v acc, kv.2 = v ∨ ∃ kv' ∈ acc, kv'.2 = kv.2) (P : KeyVal → Prop) :
    ∀ (l acc : List (Str × KeyVal)), (∀ kv ∈ l, P kv.2) → (∀ kv ∈ acc, P kv.2) →
      ∀ kv ∈ l.foldl (fun a x => f x.1 x.2 a) acc, P kv.2
  | [], acc, _, ha => by simpa using ha
  | x :: r, acc, hl, ha => by
    simp only [List.foldl_cons]
    apply foldl_vals hf P r _ (fun kv h => hl kv (by simp [h]))
    intro kv hkv
    rcases hf x.1 x.2 acc kv hkv with e | ⟨kv', hm, e⟩
    · rw [e]; exact hl x (by simp)
    · rw [← e]; exact ha kv' hm

theorem nc_foldl_nodup {T : Tab} : ∀ (l acc : List (Str × KeyVal)), (acc.map (fun kv => T.foldS kv.1)).Nodup →
    ((l.foldl (fun a x => ncSet T x.1 x.2 a) acc).map (fun kv => T.foldS kv.1)).Nodup
  | [], acc, h => by simpa using h
  | x :: r, acc, h => by simp only [List.foldl_cons]; exact nc_foldl_nodup r _ (ncSet_nodup x.1 x.2 acc h)

theorem names_ofList (l : List (Str × KeyVal)) : (Keys.ofList l).names = l.map (·.1) := by
  induction l with
  | nil => rfl
  | cons a r ih => obtain ⟨k, v⟩ := a; simp [Keys.ofList, Keys.names, ih]

theorem keysWF_ofList {T : Tab} : ∀ (l : List (Str × KeyVal)), (∀ kv ∈ l, ValWF T kv.2) → KeysWF T (Keys.ofList l)
  | [], _ => by simp [Keys.ofList, KeysWF]
  | (k, v) :: r, h => by
    simp only [Keys.ofList, KeysWF]
    exact ⟨h (k, v) (by simp), keysWF_ofList r (fun kv hkv => h kv (by simp [hkv]))⟩

/-- `{}` followed by the NocaseDict copy never leaves two names that are equal after casefold -/
theorem buildKeys_wf {T : Tab} (kvs : List (Str × KeyVal)) (hv : ∀ kv ∈ kvs, ValWF T kv.2) :
    (foldNames T (buildKeys T kvs)).Nodup ∧ KeysWF T (buildKeys T kvs) := by
  unfold buildKeys
  simp only
  constructor
  · unfold foldNames
    rw [names_ofList, List.map_map]
    exact nc_foldl_nodup _ [] (by simp)
  · apply keysWF_ofList
    apply foldl_vals (f := fun k v a => ncSet T k v a) (fun k v acc => ncSet_vals k v acc) (ValWF T) _ []
    · exact foldl_vals (f := fun k v a => dictSet k v a) (fun k v acc => dictSet_vals k v acc) (ValWF T) kvs [] hv (by simp)
    · simp

theorem kbVal_wf {T : Tab} {rec : Str → Except PyExc Path} (hrec : ∀ t q, rec t = .ok q → PathWF T q)
    {txt : Str} {v : KeyVal} (h : kbVal T rec txt = .ok v) : ValWF T v := by
  unfold kbVal at h
  split at h
  · simp only at h
    split at h
    · rename_i p hp; cases h; simpa [ValWF] using hrec _ p hp
    · split at h <;> (cases h; simp [ValWF])
    · cases h
  · split at h
    · simp only at h; split at h <;> (try cases h) <;> simp [ValWF]
    · split at h
      · cases h; simp [ValWF]
      · split at h
        · cases h; simp [ValWF]
        · split at h
          · cases h; simp [ValWF]
          · split at h
            · cases h; simp [ValWF]
            · split at h <;> (try cases h) <;> simp [ValWF]

theorem kbVals_wf {T : Tab} {rec : Str → Except PyExc Path} (hrec : ∀ t q, rec t = .ok q → PathWF T q) :
    ∀ (l : List (Str × Str)) (kvs : List (Str × KeyVal)), kbVals T rec l = .ok kvs → ∀ kv ∈ kvs, ValWF T kv.2
  | [], kvs, h => by simp [kbVals] at h; subst h; simp
  | (k, t) :: r, kvs, h => by
    unfold kbVals at h
    cases e1 : kbVal T rec t with
    | error e => simp [e1] at h
    | ok x =>
      cases e2 : kbVals T rec r with
      | error e => simp [e1, e2] at h
      | ok l =>
        simp [e1, e2] at h; subst h
        intro kv hkv
        rcases List.mem_cons.mp hkv with rfl | hm
        · exact kbVal_wf hrec e1
        · exact kbVals_wf hrec r l e2 kv hm

theorem fromUriStep_wf {T : Tab} {rec : Str → Except PyExc Path} (hrec : ∀ t q, rec t = .ok q → PathWF T q)
    {s : Str} {p : Path} (h : fromUriStep T rec s = .ok p) : PathWF T p := by
  unfold fromUriStep at h
  split at h
  · cases h
  · rename_i hd c assigns _
    cases e : kbVals T rec assigns with
    | error x => simp [e] at h
    | ok kvs =>
      simp [e] at h; subst h
      have := buildKeys_wf kvs (kbVals_wf hrec assigns kvs e)
      simpa [PathWF] using this

theorem fromUriF_wf (T : Tab) : ∀ (n : Nat) (s : Str) (p : Path), fromUriF T n s = .ok p → PathWF T p := by
  intro n
  induction n with
  | zero => intro s p h; simp [fromUriF] at h
  | succ n ih =>
    intro s p h
    simp only [fromUriF] at h
    exact fromUriStep_wf (fun t q hq => ih t q hq) h

/-! ### the executable `==` (`pathEqB`, compared with the real `==` by K) agrees with the relation `PathEq` -/

theorem eqName_of_optLower {T : Tab} {a b : Option Str} (h : OptLowerEq T a b) : eqName T a b = true := by
  cases a <;> cases b <;> simp_all [OptLowerEq, eqName]

mutual
theorem valEqB_of_valEq {T : Tab} {R : RealSem} {E : EqTab}
    (hr : ∀ a b, R.same a b → E.realSame a b = true) (hd : ∀ s, E.dtSame s s = true) {v w : KeyVal} :
    ValEq T R v w → valEqB T E v w = true
  | .str => by simp [valEqB]
  | .bool => by simp [valEqB]
  | .int => by simp [valEqB]
  | .dt => by simp [valEqB, hd]
  | .real h => by simp [valEqB, hr _ _ h]
  | .ref h => by simp [valEqB, pathEqB_of_pathEq hr hd h]
theorem pathEqB_of_pathEq {T : Tab} {R : RealSem} {E : EqTab}
    (hr : ∀ a b, R.same a b → E.realSame a b = true) (hd : ∀ s, E.dtSame s s = true) {p q : Path} :
    PathEq T R p q → pathEqB T E p q = true
  | .mk hh hn hc hl hs => by
    simp [pathEqB, Path.host, Path.ns, Path.cls, Path.keys, eqName_of_optLower hh, eqName_of_optLower hn, hc, hl,
      keysSubB_of_keysSub hr hd hs]
theorem keysSubB_of_keysSub {T : Tab} {R : RealSem} {E : EqTab}
    (hr : ∀ a b, R.same a b → E.realSame a b = true) (hd : ∀ s, E.dtSame s s = true) {a o : Keys} :
    KeysSub T R a o → keysSubB T E a o = true
  | .nil => by simp [keysSubB]
  | .cons hl hv hrest => by
    simp [keysSubB, hl, valEqB_of_valEq hr hd hv, keysSubB_of_keysSub hr hd hrest]
end

/-! ### executable comparison of paths, for the witnesses -/

mutual
def valBeq : KeyVal → KeyVal → Bool
  | .str a, .str b => a == b
  | .bool a, .bool b => a == b
  | .int a, .int b => a == b
  | .real a, .real b => a == b
  | .dt a, .dt b => a == b
  | .ref p, .ref q => pathBeq p q
  | _, _ => false
def pathBeq : Path → Path → Bool
  | .mk h n c ks, .mk h' n' c' ks' => h == h' && n == n' && c == c' && keysBeq ks ks'
def keysBeq : Keys → Keys → Bool
  | .nil, .nil => true
  | .cons k v r, .cons k' v' r' => k == k' && valBeq v v' && keysBeq r r'
  | _, _ => false
end

/-- the parser's answer is exactly the path `q` -/
def okIs (r : Except PyExc Path) (q : Path) : Bool :=
  match r with
  | .ok p => pathBeq p q
  | .error _ => false

def isValueError {α : Type} (r : Except PyExc α) : Bool :=
  match r with
  | .error .valueError => true
  | _ => false

theorem isValueError_eq {r : Except PyExc Path} (h : isValueError r = true) : r = .error .valueError := by
  unfold isValueError at h
  split at h
  · rfl
  · cases h

/-! ### printing the re-parsed path gives the same text again (the printed form is a normal form) -/

theorem caseOf_idem {T : Tab} (hT : TabOk T) (fmt : Fmt) (s : Str) : caseOf T fmt (caseOf T fmt s) = caseOf T fmt s := by
  unfold caseOf; split
  · exact hT.lower_idem s
  · rfl

theorem fixExp_idem (r : Str) : fixExp (fixExp r) = fixExp r := by
  by_cases h : (r.contains 'e' && !r.contains '.') = true
  · have e1 : fixExp r = replaceChar 'e' ['.', '0', 'e'] r := by unfold fixExp; rw [if_pos h]
    have hdot : (replaceChar 'e' ['.', '0', 'e'] r).contains '.' = true := by
      simp only [Bool.and_eq_true, List.contains_eq_mem, decide_eq_true_eq] at h
      simp only [List.contains_eq_mem, decide_eq_true_eq, replaceChar, List.mem_flatMap]
      exact ⟨'e', h.1, by simp⟩
    rw [e1]
    have hn : ¬ (((replaceChar 'e' ['.', '0', 'e'] r).contains 'e' && !(replaceChar 'e' ['.', '0', 'e'] r).contains '.') = true) := by
      rw [hdot]; simp
    unfold fixExp; rw [if_neg hn]
  · have e1 : fixExp r = r := by unfold fixExp; rw [if_neg h]
    rw [e1, e1]

theorem lookupFold_map {T : Tab} (g : Str → Str) : ∀ (l : List Str), ((l.map T.foldS).Nodup) → ∀ k ∈ l,
    lookupFold T k (l.map (fun k => (k, g k))) = some (g k)
  | [], _, k, hk => by simp at hk
  | a :: r, hnd, k, hk => by
    simp only [List.map_cons, List.nodup_cons] at hnd
    simp only [List.map_cons, lookupFold]
    rcases List.mem_cons.mp hk with rfl | hm
    · simp
    · have hne : T.foldS a ≠ T.foldS k := by
        intro e; exact hnd.1 (by rw [e]; exact List.mem_map_of_mem hm)
      simp only [hne, if_false]
      exact lookupFold_map g r hnd.2 k hm

theorem printKeys_ofList (T : Tab) (fmt : Fmt) : ∀ l : List (Str × KeyVal),
    printKeys T fmt (Keys.ofList l) = l.map (fun kv => (kv.1, printVal T fmt kv.2))
  | [] => rfl
  | (k, v) :: r => by simp [Keys.ofList, printKeys, printKeys_ofList T fmt r]

theorem headStr_norm {T : Tab} (hT : TabOk T) {fmt : Fmt} (hf : fmt ≠ .cimobject) (h n : Option Str) (c : Str) :
    headStr T fmt (parsedHost T fmt h) (n.map (caseOf T fmt)) (caseOf T fmt c) = headStr T fmt h n c := by
  have hp : parsedHost T fmt h = h.map (caseOf T fmt) := by simp [parsedHost, hf]
  rw [hp]
  cases h <;> cases n <;> simp [headStr, caseOf_idem hT, optStr]

/-- the sorted, cased names of a well-formed key set: distinct after casefold, sorted, and their values are found -/
theorem sortedNames_props {T : Tab} (hT : TabOk T) (fmt : Fmt) {ks : Keys} (hnd : (foldNames T ks).Nodup) :
    ((sortedNames T fmt ks).map T.foldS).Nodup ∧ (sortedNames T fmt ks).Pairwise (fun x y => strLe x y = true) ∧
    ∀ k ∈ sortedNames T fmt ks, ∃ v, lookupKV T k ks = some v := by
  refine ⟨?_, sortStrs_sorted _, ?_⟩
  · have hp : ((sortedNames T fmt ks).map T.foldS).Perm ((ks.names.map (caseOf T fmt)).map T.foldS) := (sortStrs_perm _).map _
    have he : (ks.names.map (caseOf T fmt)).map T.foldS = foldNames T ks := by
      simp [foldNames, List.map_map, Function.comp_def, fold_case hT]
    rw [he] at hp
    exact hp.nodup_iff.mpr hnd
  · intro k hk
    have := (sortStrs_perm _).mem_iff.mp hk
    simp only [List.mem_map] at this
    obtain ⟨k0, hk0, rfl⟩ := this
    exact lookupKV_exists ks hk0 _ (fold_case hT fmt k0)

/-- one level: given that every value prints the same after normalisation -/
theorem body_norm {T : Tab} (hT : TabOk T) (fmt : Fmt) {ks : Keys} (hnd : (foldNames T ks).Nodup)
    (hv : ∀ k v, lookupKV T k ks = some v → printVal T fmt (normVal T fmt v) = printVal T fmt v) :
    bodyStr T fmt (printKeys T fmt (sortKeys T fmt (normKeys T fmt ks))) = bodyStr T fmt (printKeys T fmt ks) := by
  obtain ⟨hfn, hsorted, hfound⟩ := sortedNames_props hT fmt hnd
  cases ks with
  | nil => simp [sortKeys, sortedNames, normKeys, Keys.names, sortStrs, Keys.ofList, printKeys]
  | cons k0 v0 r0 =>
    generalize hks : Keys.cons k0 v0 r0 = ks at *
    have hne : printKeys T fmt ks ≠ [] := by rw [← hks]; simp [printKeys]
    generalize hL : sortedNames T fmt ks = L at hfn hsorted hfound
    have hLne : L ≠ [] := by
      intro e
      have := (sortStrs_perm (ks.names.map (caseOf T fmt))).length_eq
      rw [← hks] at this
      rw [← hL] at e; simp only [sortedNames] at e
      rw [← hks] at e; rw [e] at this; simp [Keys.names] at this
    -- the normalised keys, printed
    have hprint : printKeys T fmt (sortKeys T fmt (normKeys T fmt ks)) =
        L.map (fun k => (k, printVal T fmt ((lookupKV T k (normKeys T fmt ks)).getD (.bool false)))) := by
      simp only [sortKeys, printKeys_ofList, List.map_map]
      have : sortedNames T fmt (normKeys T fmt ks) = L := by rw [← hL]; simp [sortedNames, normKeys_names]
      rw [this]; rfl
    rw [hprint]
    -- left side: sorted again = L; each lookup finds its own entry
    have hbodyL : bodyStr T fmt (L.map (fun k => (k, printVal T fmt ((lookupKV T k (normKeys T fmt ks)).getD (.bool false))))) =
        '.' :: joinComma (L.map (fun k => k ++ '=' :: printVal T fmt ((lookupKV T k (normKeys T fmt ks)).getD (.bool false)))) := by
      unfold bodyStr
      split
      · rename_i e; simp at e; exact absurd e hLne
      · simp only [List.map_map, Function.comp_def]
        have hcase : L.map (fun k => caseOf T fmt k) = L := by
          have : ∀ k ∈ L, caseOf T fmt k = k := by
            intro k hk
            rw [← hL] at hk
            have := (sortStrs_perm _).mem_iff.mp hk
            simp only [List.mem_map] at this
            obtain ⟨k0', _, rfl⟩ := this
            exact caseOf_idem hT fmt k0'
          exact (List.map_congr_left this).trans (List.map_id _)
        rw [hcase, sortStrs_of_sorted hsorted]
        congr 2
        apply List.map_congr_left
        intro k hk
        rw [lookupFold_map (T := T) (fun k => printVal T fmt ((lookupKV T k (normKeys T fmt ks)).getD (.bool false))) L hfn k hk]
        rfl
    rw [hbodyL]
    -- right side
    have hbodyR : bodyStr T fmt (printKeys T fmt ks) =
        '.' :: joinComma (L.map (fun k => k ++ '=' :: (lookupFold T k (printKeys T fmt ks)).getD [])) := by
      unfold bodyStr
      split
      · rename_i e; exact absurd e hne
      · rw [← hL]; simp only [sortedNames]
        rw [← printKeys_names T fmt ks, List.map_map]
        rfl
    rw [hbodyR]
    congr 2
    apply List.map_congr_left
    intro k hk
    obtain ⟨v, hvk⟩ := hfound k hk
    rw [lookupFold_printKeys, lookupKV_normKeys, hvk]
    simp [hv k v hvk]

mutual
theorem val_second {T : Tab} (hT : TabOk T) {fmt : Fmt} (hf : fmt ≠ .cimobject) :
    (v : KeyVal) → ValWF T v → printVal T fmt (normVal T fmt v) = printVal T fmt v
  | .str _, _ => by simp [normVal]
  | .bool _, _ => by simp [normVal]
  | .int _, _ => by simp [normVal]
  | .dt _, _ => by simp [normVal]
  | .real r, _ => by simp [normVal, printVal, fixExp_idem]
  | .ref q, h => by
    simp only [normVal, printVal]
    rw [path_second hT hf q (by simpa [ValWF] using h)]
theorem path_second {T : Tab} (hT : TabOk T) {fmt : Fmt} (hf : fmt ≠ .cimobject) :
    (p : Path) → PathWF T p → toUri T fmt (normPath T fmt p) = toUri T fmt p
  | .mk h n c ks, hw => by
    have hw' : (foldNames T ks).Nodup ∧ KeysWF T ks := by simpa [PathWF] using hw
    simp only [normPath, toUri]
    rw [headStr_norm hT hf, body_norm hT fmt hw'.1 (keys_second hT hf ks hw'.2)]
theorem keys_second {T : Tab} (hT : TabOk T) {fmt : Fmt} (hf : fmt ≠ .cimobject) :
    (ks : Keys) → KeysWF T ks → ∀ k v, lookupKV T k ks = some v → printVal T fmt (normVal T fmt v) = printVal T fmt v
  | .nil, _, k, v, h => by simp [lookupKV] at h
  | .cons k' v' r, hw, k, v, h => by
    have hw' : ValWF T v' ∧ KeysWF T r := by simpa [KeysWF] using hw
    simp only [lookupKV] at h
    split at h
    · cases h; exact val_second hT hf v' hw'.1
    · exact keys_second hT hf r hw'.2 k v h
end

/-! ### spellings the parser tolerates: namespace type (scheme), optional leading slash, optional leading colon -/

/-- the parse depends on the text only through `parseHead` -/
theorem fromUriStep_congr {T : Tab} {rec : Str → Except PyExc Path} {s1 s2 : Str} (h : parseHead T s1 = parseHead T s2) :
    fromUriStep T rec s1 = fromUriStep T rec s2 := by
  unfold fromUriStep stepPrefix
  rw [h]

/-- `from_wbem_uri` with any fuel above the text length -/
theorem fromUri_eq_fuel (T : Tab) (s : Str) {n : Nat} (hn : s.length < n) : fromUriF T n s = fromUri T s := by
  unfold fromUri
  have ht := fromUriF_total T (s.length + 1) s (by omega)
  apply fromUriF_mono T (by omega)
  intro e; rw [e] at ht; simp [OnlyValueError] at ht

theorem fromUri_congr {T : Tab} {s1 s2 : Str} (h : parseHead T s1 = parseHead T s2) : fromUri T s1 = fromUri T s2 := by
  rw [← fromUri_eq_fuel T s1 (n := s1.length + s2.length + 1) (by omega),
      ← fromUri_eq_fuel T s2 (n := s1.length + s2.length + 1) (by omega)]
  simp only [fromUriF]
  exact fromUriStep_congr h

theorem fromUriClass_congr {T : Tab} {s1 s2 : Str} (h : parseHead T s1 = parseHead T s2) :
    fromUriClass T s1 = fromUriClass T s2 := by
  unfold fromUriClass; rw [h]

/-- a namespace type (URI scheme) in front of a URI that starts with `/` changes nothing -/
theorem parseHead_scheme {T : Tab} (hT : TabOk T) {sch : Str} (hne : sch ≠ [])
    (hall : ∀ c ∈ sch, schemeChar T c = true) (r : Str) :
    parseHead T (sch ++ ':' :: '/' :: r) = parseHead T ('/' :: r) := by
  have sc_co : schemeChar T ':' = false := by simp [schemeChar, hT.not_word ':' (by simp)]
  have sc_sl : schemeChar T '/' = false := by simp [schemeChar, hT.not_word '/' (by simp)]
  have h1 : stripScheme T (sch ++ ':' :: '/' :: r) = (true, '/' :: r) := by
    unfold stripScheme
    rw [dropWhile_stop hall sc_co, takeWhile_stop hall sc_co]
    simp [hne]
  have h2 : stripScheme T ('/' :: r) = (false, '/' :: r) := stripScheme_none (by intro r'; simp [sc_sl])
  unfold parseHead
  rw [h1, h2]
  -- after the authority stage the text starts with '/' or the `^` alternative is dead on both sides
  simp only
  cases r with
  | nil => simp [stripAuth, stripSlash]
  | cons x xs =>
    by_cases hx : x = '/'
    · subst hx; simp [stripAuth, stripSlash]
    · have ha : stripAuth T ('/' :: x :: xs) = (none, '/' :: x :: xs) := stripAuth_none (by intro r' he; simp at he; exact hx he.1)
      rw [ha]; simp [stripSlash]

/-- the leading slash of a local URI is optional, and so is the colon before the class name at the very start -/
theorem parseHead_local_spellings {T : Tab} (hT : TabOk T) {N : Option Str} {C tail : Str} (hN : NsPart T N) (hc : ClsTail T C tail) :
    parseHead T ('/' :: (optStr N ++ ':' :: (C ++ tail))) = parseHead T (optStr N ++ ':' :: (C ++ tail)) ∧
    (N = none → parseHead T (C ++ tail) = parseHead T (':' :: (C ++ tail))) := by
  constructor
  · rw [parseHead_formB hT hN hc, parseHead_formD hT hN hc]
  · intro h; subst h
    have := parseHead_formD hT (N := none) (C := C) (tail := tail) (by intro m hm; cases hm) hc
    rw [parseHead_formE hT hc]
    simpa [optStr] using this.symm

/-! ### an integer literal is never a real literal or a datetime (the order of these tests in `_kbstr_to_cimval` is immaterial) -/

/-- characters an integer literal can consist of -/
def intCh (c : Char) : Bool := c == '+' || c == '-' || isHexDigit c || c == 'x' || c == 'X'

theorem splitSign_chars (s : Str) : ∀ c ∈ s, c ∈ (splitSign s).2 ∨ c = '+' ∨ c = '-' := by
  intro c hc
  unfold splitSign
  split
  · simp at hc ⊢; rcases hc with rfl | hc; exact Or.inr (Or.inr rfl); exact Or.inl hc
  · simp at hc ⊢; rcases hc with rfl | hc; exact Or.inr (Or.inl rfl); exact Or.inl hc
  · exact Or.inl hc

theorem splitSign_subset (s : Str) : (splitSign s).2 ⊆ s := by
  unfold splitSign
  split <;> (intro c hc; simp at hc ⊢; first | exact Or.inr hc | exact hc)

theorem hex_of_digit {c : Char} (h : isDigit c = true) : isHexDigit c = true := by simp [isHexDigit, h]
theorem hex_of_bin {c : Char} (h : isBinDigit c = true) : isHexDigit c = true := by
  simp only [isBinDigit, Bool.or_eq_true, beq_iff_eq] at h; rcases h with rfl | rfl <;> decide
theorem hex_of_oct {c : Char} (h : isOct17 c = true) : isHexDigit c = true := by
  apply hex_of_digit
  have e1 : ('1' : Char).toNat = 49 := by decide
  have e7 : ('7' : Char).toNat = 55 := by decide
  have e0 : ('0' : Char).toNat = 48 := by decide
  have e9 : ('9' : Char).toNat = 57 := by decide
  simp only [isOct17, isDigit, Bool.and_eq_true, decide_eq_true_eq, e0, e1, e7, e9] at h ⊢
  omega

theorem intLitCore_chars {s : Str} {i : Int} (h : intLitCore s = some i) : ∀ c ∈ s, intCh c = true := by
  have body : ∀ c ∈ (splitSign s).2, isHexDigit c = true ∨ c = 'x' ∨ c = 'X' := by
    unfold intLitCore at h
    cases hsp : splitSign s with
    | mk neg r =>
    rw [hsp] at h
    simp only at h ⊢
    split at h
    · cases h
    · rename_i l hl
      split at h
      · rename_i hb
        simp only [Bool.and_eq_true, Bool.or_eq_true, beq_iff_eq, decide_eq_true_eq, List.all_eq_true] at hb
        intro c hc
        have hr : r = r.dropLast ++ [l] := by
          have hne : r ≠ [] := by intro e; subst e; simp at hl
          have := List.dropLast_concat_getLast hne
          rw [List.getLast?_eq_some_getLast hne] at hl; simp at hl; rw [hl] at this; exact this.symm
        rw [hr] at hc
        rcases List.mem_append.mp hc with hc | hc
        · exact Or.inl (hex_of_bin (hb.2 c hc))
        · simp at hc; subst hc; left; rcases hb.1.1 with rfl | rfl <;> decide
      · split at h
        · cases h
        · rename_i hh t
          intro c hc
          split at h
          · rename_i ho
            simp only [Bool.and_eq_true, beq_iff_eq, List.all_eq_true] at ho
            rcases List.mem_cons.mp hc with rfl | hc
            · left; rw [ho.1]; decide
            · exact Or.inl (hex_of_oct (ho.2 c hc))
          · split at h
            · rename_i hd
              split at h
              · rename_i htd
                simp only [List.all_eq_true] at htd
                rcases List.mem_cons.mp hc with rfl | hc
                · left
                  simp only [Bool.or_eq_true, beq_iff_eq] at hd
                  rcases hd with (hd | rfl) | rfl
                  · exact hex_of_oct hd
                  · decide
                  · decide
                · exact Or.inl (hex_of_digit (htd c hc))
              · cases h
            · split at h
              · rename_i h0
                split at h
                · rename_i x hs
                  split at h
                  · rename_i hx
                    simp only [Bool.and_eq_true, Bool.or_eq_true, beq_iff_eq, decide_eq_true_eq, List.all_eq_true] at hx
                    simp only [beq_iff_eq] at h0
                    simp only [List.mem_cons] at hc
                    rcases hc with rfl | rfl | hc
                    · left; rw [h0]; decide
                    · rcases hx.1.1 with rfl | rfl
                      · exact Or.inr (Or.inl rfl)
                      · exact Or.inr (Or.inr rfl)
                    · exact Or.inl (hx.2 c hc)
                  · cases h
                · cases h
              · cases h
  intro c hc
  rcases splitSign_chars s c hc with h1 | rfl | rfl
  · rcases body c h1 with h2 | rfl | rfl
    · simp [intCh, h2]
    · decide
    · decide
  · decide
  · decide

theorem lowerAscii_n {c : Char} (h : lowerAscii c = 'n') : c = 'n' ∨ c = 'N' := by
  unfold lowerAscii at h
  split at h
  · rename_i hr
    right
    have h1 := ofNat_small (c.toNat + 32) (by omega)
    rw [h] at h1
    have : ('n' : Char).toNat = 110 := by decide
    rw [this] at h1
    apply Char.toNat_inj.mp
    have : ('N' : Char).toNat = 78 := by decide
    omega
  · exact Or.inl h

theorem realLitCore_needs {s : Str} (h : realLitCore s = true) : '.' ∈ s ∨ 'n' ∈ s ∨ 'N' ∈ s := by
  unfold realLitCore at h
  simp only [Bool.or_eq_true, beq_iff_eq] at h
  have special : ∀ w : Str, lowerAsciiS s = w → 'n' ∈ w → 'n' ∈ s ∨ 'N' ∈ s := by
    intro w hw hn
    rw [← hw] at hn
    simp only [lowerAsciiS, List.mem_map] at hn
    obtain ⟨c, hc, he⟩ := hn
    rcases lowerAscii_n he with rfl | rfl
    · exact Or.inl hc
    · exact Or.inr hc
  rcases h with ((h | h) | h) | h
  · exact Or.inr (special _ h (by decide))
  · exact Or.inr (special _ h (by decide))
  · exact Or.inr (special _ h (by decide))
  · left
    unfold realBody at h
    simp only at h
    split at h
    · rename_i f heq
      have : '.' ∈ (splitSign s).2 := List.dropWhile_subset isDigit (by rw [heq]; simp)
      exact splitSign_subset s this
    · cases h

theorem dtAccepts_has_dot {s : Str} (h : dtAccepts s = true) : '.' ∈ s := by
  unfold dtAccepts at h
  simp only at h
  split at h
  · cases h
  · split at h
    · cases h
    · rename_i hseg
      simp only [Bool.not_eq_true', Bool.not_eq_false, Bool.and_eq_true, beq_iff_eq] at hseg
      have : '.' ∈ (s.drop 14).take 1 := by rw [hseg.1.2]; simp
      exact List.drop_subset 14 s (List.take_subset 1 _ this)

/-- an integer literal is neither a real literal nor a datetime text -/
theorem intLit_exclusive {s : Str} {i : Int} (h : intLit s = some i) : realLit s = false ∧ dtAccepts s = false := by
  have hc := intLitCore_chars h
  have nodot : '.' ∉ s := fun hm => by have := hc _ hm; revert this; decide
  have non : 'n' ∉ s ∧ 'N' ∉ s := ⟨fun hm => by have := hc _ hm; revert this; decide, fun hm => by have := hc _ hm; revert this; decide⟩
  constructor
  · apply Bool.eq_false_iff.mpr
    intro hr
    unfold realLit at hr
    have hch : chomp s = s := chomp_of_last (fun l hl => by
      intro e; subst e; have := hc _ (List.mem_of_getLast? hl); revert this; decide)
    rw [hch] at hr
    rcases realLitCore_needs hr with h1 | h1 | h1
    · exact nodot h1
    · exact non.1 h1
    · exact non.2 h1
  · apply Bool.eq_false_iff.mpr
    intro hd; exact nodot (dtAccepts_has_dot hd)

/-! ### a datetime text is never a real literal -/

theorem dtAccepts_shape {s : Str} (h : dtAccepts s = true) :
    ∃ d1 us σ off, s = d1 ++ '.' :: (us ++ σ :: off) ∧ d1 ≠ [] ∧ (∀ c ∈ d1, isDigStar c = true) ∧ (∀ c ∈ us, isDigStar c = true) ∧
      (σ = '+' ∨ σ = '-' ∨ σ = ':') ∧ s.length = 25 := by
  have hch := dtAccepts_chars h
  unfold dtAccepts at h
  simp only at h
  split at h
  · cases h
  · rename_i hlen
    have hlen' : s.length = 25 := by simpa using hlen
    split at h
    · cases h
    · rename_i hseg
      simp only [Bool.not_eq_true', Bool.not_eq_false, Bool.and_eq_true, beq_iff_eq, List.all_eq_true] at hseg
      have hsg : ∃ σ, (s.drop 21).take 1 = [σ] ∧ (σ = '+' ∨ σ = '-' ∨ σ = ':') := by
        split at h
        · rename_i hts
          simp only [Bool.and_eq_true, Bool.or_eq_true, beq_iff_eq] at hts
          rcases hts.1 with e | e
          · exact ⟨'+', e, Or.inl rfl⟩
          · exact ⟨'-', e, Or.inr (Or.inl rfl)⟩
        · split at h
          · rename_i _ hiv
            simp only [Bool.and_eq_true, beq_iff_eq] at hiv
            exact ⟨':', hiv.1, Or.inr (Or.inr rfl)⟩
          · cases h
      obtain ⟨σ, hσ, hσv⟩ := hsg
      have e1 := (List.take_append_drop 14 s).symm
      have e2 : s.drop 14 = (s.drop 14).take 1 ++ s.drop 15 := by
        have := (List.take_append_drop 1 (s.drop 14)).symm; simpa [List.drop_drop] using this
      have e3 : s.drop 15 = (s.drop 15).take 6 ++ s.drop 21 := by
        have := (List.take_append_drop 6 (s.drop 15)).symm; simpa [List.drop_drop] using this
      have e4 : s.drop 21 = (s.drop 21).take 1 ++ s.drop 22 := by
        have := (List.take_append_drop 1 (s.drop 21)).symm; simpa [List.drop_drop] using this
      refine ⟨s.take 14, (s.drop 15).take 6, σ, s.drop 22, ?_, ?_, hseg.1.1, hseg.2, hσv, hlen'⟩
      · calc s = s.take 14 ++ s.drop 14 := e1
          _ = s.take 14 ++ ((s.drop 14).take 1 ++ s.drop 15) := by rw [← e2]
          _ = s.take 14 ++ (['.'] ++ ((s.drop 15).take 6 ++ s.drop 21)) := by rw [hseg.1.2, ← e3]
          _ = s.take 14 ++ (['.'] ++ ((s.drop 15).take 6 ++ ([σ] ++ s.drop 22))) := by rw [← hσ, ← e4]
          _ = _ := by simp
      · intro e
        have : (s.take 14).length = 14 := by simp [List.length_take]; omega
        rw [e] at this; simp at this

theorem digStar_nondigit {c : Char} (h : isDigStar c = true) (hd : isDigit c = false) : c = '*' := by
  simp only [isDigStar, Bool.or_eq_true, beq_iff_eq] at h
  rcases h with h | h
  · rw [h] at hd; cases hd
  · exact h

/-- first character after the leading digits of `a ++ x :: b` when `a` is digits-or-asterisks and `x` is no digit -/
theorem dropWhile_digStar {a : Str} (ha : ∀ c ∈ a, isDigStar c = true) {x : Char} (hx : isDigit x = false) (b : Str) :
    ∃ y t, (a ++ x :: b).dropWhile isDigit = y :: t ∧ (y = '*' ∨ (y = x ∧ t = b ∧ ∀ c ∈ a, isDigit c = true)) := by
  induction a with
  | nil => exact ⟨x, b, by simp [hx], Or.inr ⟨rfl, rfl, by simp⟩⟩
  | cons c r ih =>
    by_cases hc : isDigit c = true
    · obtain ⟨y, t, e, hy⟩ := ih (fun z hz => ha z (by simp [hz]))
      refine ⟨y, t, by simp [hc, e], ?_⟩
      rcases hy with hy | ⟨h1, h2, h3⟩
      · exact Or.inl hy
      · exact Or.inr ⟨h1, h2, fun z hz => by rcases List.mem_cons.mp hz with rfl | hz; exact hc; exact h3 z hz⟩
    · have hc' : isDigit c = false := by simpa using hc
      exact ⟨c, r ++ x :: b, by simp [hc'], Or.inl (digStar_nondigit (ha c (by simp)) hc')⟩

theorem dt_not_real {s : Str} (h : dtAccepts s = true) : realLit s = false := by
  have hch := dtAccepts_chars h
  obtain ⟨d1, us, σ, off, hs, hd1, hd1all, husall, hσ, hlen⟩ := dtAccepts_shape h
  have hchomp : chomp s = s := chomp_of_last (fun l hl => (dtChar_props (hch l (List.mem_of_getLast? hl))).2.2.1)
  apply Bool.eq_false_iff.mpr
  intro hr
  unfold realLit at hr
  rw [hchomp] at hr
  unfold realLitCore at hr
  simp only [Bool.or_eq_true, beq_iff_eq] at hr
  have hl : (lowerAsciiS s).length = 25 := by simp [lowerAsciiS, hlen]
  rcases hr with ((hr | hr) | hr) | hr
  · rw [hr] at hl; simp at hl
  · rw [hr] at hl; simp at hl
  · rw [hr] at hl; simp at hl
  · -- realBody
    obtain ⟨c0, r0, rfl⟩ : ∃ c0 r0, d1 = c0 :: r0 := by
      cases d1 with
      | nil => exact absurd rfl hd1
      | cons a b => exact ⟨a, b, rfl⟩
    have hc0 : c0 ≠ '-' ∧ c0 ≠ '+' := by
      have := hd1all c0 (by simp)
      constructor <;> (intro e; subst e; revert this; decide)
    have hsp : splitSign s = (false, s) := by
      rw [hs]; simp only [List.cons_append]
      unfold splitSign
      split
      · rename_i heq; simp at heq; exact absurd heq.1 hc0.1
      · rename_i heq; simp at heq; exact absurd heq.1 hc0.2
      · rfl
    rw [hsp] at hr
    simp only at hr
    unfold realBody at hr
    simp only at hr
    have hdot : isDigit '.' = false := by decide
    obtain ⟨y, t, e, hy⟩ := dropWhile_digStar hd1all hdot (us ++ σ :: off)
    rw [hs, e] at hr
    rcases hy with rfl | ⟨rfl, rfl, _⟩
    · simp at hr
    · simp only [Bool.and_eq_true, decide_eq_true_eq] at hr
      have hσd : isDigit σ = false := by rcases hσ with rfl | rfl | rfl <;> decide
      obtain ⟨y2, t2, e2, hy2⟩ := dropWhile_digStar husall hσd off
      rw [e2] at hr
      have hne : (y2 == 'e' || y2 == 'E') = false := by
        rcases hy2 with rfl | ⟨rfl, _, _⟩
        · decide
        · rcases hσ with rfl | rfl | rfl <;> decide
      simp [hne] at hr

/-! ### glue: format argument, namespace setter -/

theorem formats_pin : Pywbem.Generated.uriFormats = ["standard", "canonical", "cimobject", "historical"] := by decide

theorem fmtOfName_known : fmtOfName "standard" = .ok .standard ∧ fmtOfName "canonical" = .ok .canonical ∧
    fmtOfName "cimobject" = .ok .cimobject ∧ fmtOfName "historical" = .ok .historical := ⟨rfl, rfl, rfl, rfl⟩

theorem fmtOfName_unknown (name : String) (h : name ∉ Pywbem.Generated.uriFormats) : fmtOfName name = .error .valueError := by
  unfold fmtOfName
  have : Pywbem.Generated.uriFormats.idxOf? name = none := by
    simp [List.idxOf?, List.findIdx?_eq_none_iff]
    intro x hx; intro e; exact h (e ▸ hx)
  rw [this]

theorem fmtOfName_only_valueError (name : String) (e : PyExc) (h : fmtOfName name = .error e) : e = .valueError := by
  unfold fmtOfName at h
  split at h <;> cases h; rfl

theorem getLast?_dropWhile {p : Char → Bool} (l : Str) (h : l.dropWhile p ≠ []) : (l.dropWhile p).getLast? = l.getLast? := by
  obtain ⟨t, ht⟩ := List.dropWhile_suffix (l := l) p
  conv => rhs; rw [← ht]
  rw [List.getLast?_append, List.getLast?_eq_some_getLast h]; simp

theorem stripSlashes_ends (s : Str) : (stripSlashes s).head? ≠ some '/' ∧ (stripSlashes s).getLast? ≠ some '/' := by
  unfold stripSlashes
  constructor
  · rw [List.head?_reverse]
    by_cases h : ((s.dropWhile (· == '/')).reverse.dropWhile (· == '/')) = []
    · rw [h]; simp
    · rw [getLast?_dropWhile _ h, List.getLast?_reverse]
      have := List.head?_dropWhile_not (· == '/') s
      intro e; rw [e] at this; simp at this
  · rw [List.getLast?_reverse]
    have := List.head?_dropWhile_not (· == '/') (s.dropWhile (· == '/')).reverse
    intro e; rw [e] at this; simp at this

theorem stripSlashes_id {s : Str} (h1 : s.head? ≠ some '/') (h2 : s.getLast? ≠ some '/') : stripSlashes s = s := by
  unfold stripSlashes
  have a : s.dropWhile (· == '/') = s := by
    cases s with
    | nil => rfl
    | cons x xs => simp at h1; simp [List.dropWhile_cons, h1]
  rw [a]
  have b : s.reverse.dropWhile (· == '/') = s.reverse := by
    cases hr : s.reverse with
    | nil => rfl
    | cons x xs =>
      have : s.reverse.head? = s.getLast? := List.head?_reverse
      rw [hr] at this; simp at this
      have hx : x ≠ '/' := by intro e; subst e; exact h2 this.symm
      simp [List.dropWhile_cons, hx]
  rw [b]; simp

/-! ### `TabOk` from per-character facts (which the harness checks for every Unicode code point of the running Python) -/

structure TabOkChar (T : Tab) : Prop where
  fold_lower : ∀ c, (T.lower c).flatMap T.fold = T.fold c
  lower_idem : ∀ c, (T.lower c).flatMap T.lower = T.lower c
  not_word : ∀ c ∈ ['/', ':', '.', ',', '=', '"', '\'', '\\', '\n', '-', '+', '*', '@', '[', ']', '%', ' '], T.word c = false
  digit_word : ∀ c, isDigit c = true → T.word c = true
  lower_ascii : ∀ c : Char, c.toNat < 128 → T.lower c = [lowerAscii c]

theorem TabOk.of_char {T : Tab} (h : TabOkChar T) : TabOk T where
  fold_lower s := by
    simp only [Tab.foldS, Tab.lowerS, List.flatMap_assoc]
    congr 1; funext c; exact h.fold_lower c
  lower_idem s := by
    simp only [Tab.lowerS, List.flatMap_assoc]
    congr 1; funext c; exact h.lower_idem c
  not_word := h.not_word
  digit_word := h.digit_word
  lower_ascii := h.lower_ascii

/-- the double quote character (a name for it keeps character literals with a quote out of Proofs/Props/C07.lean, whose
    theorem list is extracted with a regular expression) -/
def dq : Char := '"'

end Proofs.Uri
