/-
Helper lemmas for C07 (WBEM URI printer / parser model, Pywbem/Model/Uri.lean).
-/
import Pywbem.Model.Uri

namespace Proofs.Uri
open Pywbem.Model.Uri Pywbem.Proto

/-! ### the extracted escape chains are the ones the proofs are about -/

def escChar (c : Char) : Str := if c = '\\' then ['\\', '\\'] else if c = '"' then ['\\', '"'] else [c]

theorem chain_pin : Pywbem.Generated.uriEscapeChain = [('\\', ['\\', '\\']), ('"', ['\\', '"'])] := by decide
theorem refchain_pin : Pywbem.Generated.uriRefEscapeChain = [('\\', ['\\', '\\']), ('"', ['\\', '"'])] := by decide

theorem escape_eq (s : Str) : escape s = s.flatMap escChar := by
  unfold escape applyChain
  rw [chain_pin]
  simp only [List.foldl, replaceChar, List.flatMap_assoc]
  congr 1
  funext c
  by_cases h1 : c = '\\'
  · subst h1; decide
  · by_cases h2 : c = '"'
    · subst h2; decide
    · simp [escChar, h1, h2]

theorem escapeRef_eq (s : Str) : escapeRef s = escape s := by
  unfold escapeRef escape; rw [chain_pin, refchain_pin]

theorem escape_nil : escape [] = [] := by simp [escape_eq]
theorem escape_cons (c : Char) (s : Str) : escape (c :: s) = escChar c ++ escape s := by
  simp [escape_eq]

theorem unescape_cons_ne {c : Char} (h : c ≠ '\\') (r : Str) : unescape (c :: r) = c :: unescape r :=
  unescape.eq_3 c r (fun _ _ hc _ => h hc)

theorem scanQuoted_cons_ne {q c : Char} (h : c ≠ '\\') (r : Str) :
    scanQuoted q (c :: r) = if c = q then some ([], r) else
      (scanQuoted q r).map (fun br => (c :: br.1, br.2)) := by
  rw [scanQuoted.eq_3 q c r (fun _ _ hc _ => h hc)]; simp only [h, if_false]
  cases scanQuoted q r <;> simp

/-- `re.sub(r'\\(.)', r'\1', ·)` undoes the two `.replace` calls, for every string -/
theorem unescape_escape (s : Str) : unescape (escape s) = s := by
  induction s with
  | nil => simp [escape_nil, unescape]
  | cons c r ih =>
    rw [escape_cons]
    by_cases h1 : c = '\\'
    · subst h1; simp [escChar, unescape, ih]
    · by_cases h2 : c = '"'
      · subst h2; simp [escChar, unescape, ih]
      · simp only [escChar, h1, h2, if_false, List.singleton_append]
        rw [unescape_cons_ne h1, ih]

/-- the regex body `(?:[^q\\]|\\.)*q` consumes exactly an escaped string and its closing quote -/
theorem scanQuoted_escape (s rest : Str) :
    scanQuoted '"' (escape s ++ '"' :: rest) = some (escape s, rest) := by
  induction s with
  | nil => simp [escape_nil, scanQuoted_cons_ne (q := '"') (c := '"') (by decide)]
  | cons c r ih =>
    rw [escape_cons]
    by_cases h1 : c = '\\'
    · subst h1
      simp only [escChar, if_true, List.cons_append, List.nil_append]
      rw [scanQuoted.eq_2]; simp [ih]
    · by_cases h2 : c = '"'
      · subst h2
        have : escChar '"' = ['\\', '"'] := by decide
        rw [this]
        simp only [List.cons_append, List.nil_append]
        rw [scanQuoted.eq_2]; simp [ih]
      · simp only [escChar, h1, h2, if_false, List.cons_append]
        rw [scanQuoted_cons_ne h1]; simp [h2, ih]

/-- a text without the quote and without backslashes is consumed as it is -/
theorem scanQuoted_plain (q : Char) (s rest : Str) (h : ∀ c ∈ s, c ≠ q ∧ c ≠ '\\') (hq : q ≠ '\\') :
    scanQuoted q (s ++ q :: rest) = some (s, rest) := by
  induction s with
  | nil => simp [scanQuoted_cons_ne hq]
  | cons c r ih =>
    have hc := h c (by simp)
    have ih' := ih (fun x hx => h x (by simp [hx]))
    simp only [List.cons_append]
    rw [scanQuoted_cons_ne hc.2]; simp [hc.1, ih']

theorem unescape_plain (s : Str) (h : ∀ c ∈ s, c ≠ '\\') : unescape s = s := by
  induction s with
  | nil => simp [unescape]
  | cons c r ih =>
    rw [unescape_cons_ne (h c (by simp)), ih (fun x hx => h x (by simp [hx]))]

/-! ### integers: `str(int)` is read back by `_integerValue_to_int` -/

theorem digitChar_toNat : ∀ n, n < 10 → (digitChar n).toNat = 48 + n := by decide

theorem digitChar_isDigit {n : Nat} (h : n < 10) : isDigit (digitChar n) = true := by
  have := digitChar_toNat n h
  simp [isDigit, this]; omega

theorem digitChar_val {n : Nat} (h : n < 10) : digitVal (digitChar n) = n := by
  simp [digitVal, digitChar_toNat n h]

theorem ofBase_snoc (b : Nat) (v : Char → Nat) (a : Str) (c : Char) :
    ofBase b v (a ++ [c]) = ofBase b v a * b + v c := by
  simp [ofBase, List.foldl_append]

theorem natDigitsF_digits : ∀ f n, ∀ c ∈ natDigitsF f n, isDigit c = true := by
  intro f
  induction f with
  | zero => intro n c h; simp [natDigitsF] at h
  | succ f ih =>
    intro n c h
    unfold natDigitsF at h
    by_cases hn : n < 10
    · simp [hn] at h; subst h; exact digitChar_isDigit hn
    · simp [hn] at h
      rcases h with h | h
      · exact ih _ _ h
      · subst h; exact digitChar_isDigit (Nat.mod_lt _ (by omega))

theorem natDigitsF_val : ∀ f n, n < f → ofBase 10 digitVal (natDigitsF f n) = n := by
  intro f
  induction f with
  | zero => intro n h; omega
  | succ f ih =>
    intro n h
    unfold natDigitsF
    by_cases hn : n < 10
    · simp [hn, ofBase, digitChar_val hn]
    · simp only [hn, if_false]
      rw [ofBase_snoc, ih (n / 10) (by omega), digitChar_val (Nat.mod_lt _ (by omega))]
      omega

theorem natDigitsF_head : ∀ f n, n < f → ∃ h t, natDigitsF f n = h :: t ∧ (n = 0 → h = '0' ∧ t = []) ∧
    (0 < n → isDigit h = true ∧ h ≠ '0') := by
  intro f
  induction f with
  | zero => intro n h; omega
  | succ f ih =>
    intro n h
    unfold natDigitsF
    by_cases hn : n < 10
    · refine ⟨digitChar n, [], by simp [hn], ?_, ?_⟩
      · intro h0; subst h0; exact ⟨by decide, rfl⟩
      · intro hp; refine ⟨digitChar_isDigit hn, ?_⟩
        intro he
        have := digitChar_toNat n hn
        rw [he] at this
        have h48 : ('0' : Char).toNat = 48 := by decide
        omega
    · obtain ⟨h', t', e, _, hpos⟩ := ih (n / 10) (by omega)
      refine ⟨h', t' ++ [digitChar (n % 10)], by simp [hn, e], by intro h0; omega, ?_⟩
      intro _; exact hpos (by omega)

theorem isDigit_ne {c : Char} (h : isDigit c = true) :
    c ≠ '-' ∧ c ≠ '+' ∧ c ≠ 'b' ∧ c ≠ 'B' ∧ c ≠ '\n' ∧ c ≠ '.' ∧ c ≠ 'e' := by
  simp [isDigit] at h
  refine ⟨?_, ?_, ?_, ?_, ?_, ?_, ?_⟩ <;> (intro e; subst e; revert h; decide)

theorem isDigit_cases {c : Char} (h : isDigit c = true) : c = '0' ∨ isOct17 c = true ∨ c = '8' ∨ c = '9' := by
  have e : c = Char.ofNat c.toNat := by simp
  simp [isDigit] at h
  have h0 : ('0' : Char).toNat = 48 := by decide
  have h9 : ('9' : Char).toNat = 57 := by decide
  have h1 : ('1' : Char).toNat = 49 := by decide
  have h7 : ('7' : Char).toNat = 55 := by decide
  simp only [isOct17, h1, h7]
  by_cases a : c.toNat = 48
  · left; rw [e, a]
  · by_cases b : c.toNat = 56
    · right; right; left; rw [e, b]
    · by_cases d : c.toNat = 57
      · right; right; right; rw [e, d]
      · right; left; simp; omega

theorem chomp_of_last {s : Str} (h : ∀ l, s.getLast? = some l → l ≠ '\n') : chomp s = s := by
  unfold chomp
  cases hl : s.getLast? with
  | none => simp
  | some l => have := h l hl; simp; intro e; exact absurd e this

/-- BINARY/OCTAL/DECIMAL/HEX recognisers on a string of decimal digits without leading zero -/
theorem intLitCore_digits (neg : Bool) (n : Nat) :
    intLitCore ((if neg then ['-'] else []) ++ natDigits n) = some (applySign neg n) := by
  obtain ⟨h, t, e, hz, hp⟩ := natDigitsF_head (n + 1) n (by omega)
  have hall := natDigitsF_digits (n + 1) n
  have hval := natDigitsF_val (n + 1) n (by omega)
  unfold natDigits
  rw [e] at hall hval ⊢
  have hd : isDigit h = true := hall h (by simp)
  have hne := isDigit_ne hd
  have hsplit : splitSign ((if neg then ['-'] else []) ++ h :: t) = (neg, h :: t) := by
    cases neg
    · simp only [Bool.false_eq_true, if_false, List.nil_append]
      unfold splitSign
      split
      · rename_i heq; cases heq; exact absurd rfl hne.1
      · rename_i heq; cases heq; exact absurd rfl hne.2.1
      · rfl
    · simp [splitSign]
  unfold intLitCore
  rw [hsplit]
  simp only
  have hlast : ∃ l, (h :: t).getLast? = some l ∧ isDigit l = true := by
    refine ⟨(h :: t).getLast (by simp), List.getLast?_eq_some_getLast _, hall _ (List.getLast_mem _)⟩
  obtain ⟨l, hl, hld⟩ := hlast
  have hlne := isDigit_ne hld
  rw [hl]
  have hb : (l == 'b' || l == 'B') = false := by simp [hlne.2.2.1, hlne.2.2.2.1]
  simp only [hb, Bool.false_and, Bool.false_eq_true, if_false]
  by_cases hn : n = 0
  · obtain ⟨rfl, rfl⟩ := hz hn
    subst hn
    simp [applySign, ofBase]
  · have hpos := hp (by omega)
    have h0 : (h == '0') = false := by simp [hpos.2]
    have hcase : (isOct17 h || h == '8' || h == '9') = true := by
      rcases isDigit_cases hd with c | c | c | c
      · exact absurd c hpos.2
      · simp [c]
      · simp [c]
      · simp [c]
    have htd : t.all isDigit = true := by
      simp only [List.all_eq_true]; intro x hx; exact hall x (by simp [hx])
    simp only [h0, Bool.false_and, Bool.false_eq_true, if_false, hcase, if_true, htd, hval]

theorem natDigits_last (n : Nat) : ∀ l, (natDigits n).getLast? = some l → isDigit l = true := by
  intro l hl
  exact natDigitsF_digits _ _ l (List.mem_of_getLast? hl)

theorem pyInt_eq (i : Int) : ∃ neg n, pyInt i = (if neg then ['-'] else []) ++ natDigits n ∧ applySign neg n = i := by
  cases i with
  | ofNat n => exact ⟨false, n, by simp [pyInt], by simp [applySign]⟩
  | negSucc n => exact ⟨true, n + 1, by simp [pyInt], by simp [applySign]; omega⟩

theorem natDigits_ne_nil (n : Nat) : natDigits n ≠ [] := by
  obtain ⟨h, t, e, _, _⟩ := natDigitsF_head (n + 1) n (by omega)
  unfold natDigits; rw [e]; simp

/-- every integer printed with `str()` is read back as the same integer -/
theorem intLit_pyInt (i : Int) : intLit (pyInt i) = some i := by
  obtain ⟨neg, n, e, hv⟩ := pyInt_eq i
  unfold intLit
  rw [e, chomp_of_last, intLitCore_digits, hv]
  intro l hl
  have hne := natDigits_ne_nil n
  rw [List.getLast?_append, List.getLast?_eq_some_getLast hne] at hl
  simp at hl
  subst hl
  exact (isDigit_ne (natDigitsF_digits _ _ _ (List.getLast_mem _))).2.2.2.2.1

/-! ### `sorted()` on strings: a function of the multiset -/

theorem strLe_refl : ∀ a, strLe a a = true := by
  intro a; induction a with
  | nil => rfl
  | cons x r ih => simp [strLe, ih]

theorem strLe_total : ∀ a b, strLe a b = true ∨ strLe b a = true := by
  intro a
  induction a with
  | nil => intro b; left; rfl
  | cons x r ih =>
    intro b
    cases b with
    | nil => right; rfl
    | cons y t =>
      simp only [strLe]
      by_cases h1 : x.toNat < y.toNat
      · simp [h1]
      · by_cases h2 : y.toNat < x.toNat
        · simp [h2]
        · simp only [h1, h2, if_false]; exact ih t

theorem strLe_antisymm : ∀ a b, strLe a b = true → strLe b a = true → a = b := by
  intro a
  induction a with
  | nil => intro b h1 h2; cases b with
    | nil => rfl
    | cons y t => simp [strLe] at h2
  | cons x r ih =>
    intro b h1 h2
    cases b with
    | nil => simp [strLe] at h1
    | cons y t =>
      simp only [strLe] at h1 h2
      by_cases l1 : x.toNat < y.toNat
      · have : ¬ y.toNat < x.toNat := by omega
        simp [l1, this] at h2
      · by_cases l2 : y.toNat < x.toNat
        · simp [l1, l2] at h1
        · simp only [l1, l2, if_false] at h1 h2
          have e : x = y := Char.toNat_inj.mp (by omega)
          rw [e, ih t h1 h2]

theorem strLe_trans : ∀ a b c, strLe a b = true → strLe b c = true → strLe a c = true := by
  intro a
  induction a with
  | nil => intro b c _ _; rfl
  | cons x r ih =>
    intro b c h1 h2
    cases b with
    | nil => simp [strLe] at h1
    | cons y t =>
      cases c with
      | nil => simp [strLe] at h2
      | cons z u =>
        simp only [strLe] at h1 h2 ⊢
        by_cases l1 : x.toNat < y.toNat
        · by_cases l2 : y.toNat < z.toNat
          · have : x.toNat < z.toNat := by omega
            simp [this]
          · by_cases l3 : z.toNat < y.toNat
            · simp [l2, l3] at h2
            · have : x.toNat < z.toNat := by omega
              simp [this]
        · by_cases l1' : y.toNat < x.toNat
          · simp [l1, l1'] at h1
          · simp only [l1, l1', if_false] at h1
            by_cases l2 : y.toNat < z.toNat
            · have : x.toNat < z.toNat := by omega
              simp [this]
            · by_cases l3 : z.toNat < y.toNat
              · simp [l2, l3] at h2
              · simp only [l2, l3, if_false] at h2
                have a1 : ¬ x.toNat < z.toNat := by omega
                have a2 : ¬ z.toNat < x.toNat := by omega
                simp only [a1, a2, if_false]
                exact ih t u h1 h2

theorem insertSorted_perm (a : Str) (l : List Str) : (insertSorted a l).Perm (a :: l) := by
  induction l with
  | nil => simp [insertSorted]
  | cons b r ih =>
    unfold insertSorted
    by_cases h : strLe a b = true
    · simp [h]
    · simp only [h]
      exact (List.Perm.cons b ih).trans (List.Perm.swap a b r)

theorem sortStrs_perm (l : List Str) : (sortStrs l).Perm l := by
  induction l with
  | nil => simp [sortStrs]
  | cons a r ih =>
    simp only [sortStrs]
    exact (insertSorted_perm a _).trans (List.Perm.cons a ih)

theorem insertSorted_sorted (a : Str) (l : List Str) (h : l.Pairwise (fun x y => strLe x y = true)) :
    (insertSorted a l).Pairwise (fun x y => strLe x y = true) := by
  induction l with
  | nil => simp [insertSorted]
  | cons b r ih =>
    unfold insertSorted
    have hb := List.pairwise_cons.mp h
    by_cases hab : strLe a b = true
    · simp only [hab, if_true]
      refine List.pairwise_cons.mpr ⟨?_, h⟩
      intro y hy
      rcases List.mem_cons.mp hy with rfl | hy
      · exact hab
      · exact strLe_trans _ _ _ hab (hb.1 y hy)
    · simp only [hab]
      have hba : strLe b a = true := by
        rcases strLe_total a b with t | t
        · exact absurd t hab
        · exact t
      refine List.pairwise_cons.mpr ⟨?_, ih hb.2⟩
      intro y hy
      have := (insertSorted_perm a r).mem_iff.mp hy
      rcases List.mem_cons.mp this with rfl | hy
      · exact hba
      · exact hb.1 y hy

theorem sortStrs_sorted (l : List Str) : (sortStrs l).Pairwise (fun x y => strLe x y = true) := by
  induction l with
  | nil => simp [sortStrs]
  | cons a r ih => exact insertSorted_sorted a _ ih

/-- Python's `sorted()` gives the same list for every permutation of its input -/
theorem sortStrs_of_perm {l₁ l₂ : List Str} (h : l₁.Perm l₂) : sortStrs l₁ = sortStrs l₂ := by
  apply List.Perm.eq_of_pairwise (le := fun x y => strLe x y = true)
  · intro a b _ _ h1 h2; exact strLe_antisymm a b h1 h2
  · exact sortStrs_sorted l₁
  · exact sortStrs_sorted l₂
  · exact (sortStrs_perm l₁).trans (h.trans (sortStrs_perm l₂).symm)

/-- a list that is already sorted is left alone -/
theorem sortStrs_of_sorted {l : List Str} (h : l.Pairwise (fun x y => strLe x y = true)) : sortStrs l = l := by
  apply List.Perm.eq_of_pairwise (le := fun x y => strLe x y = true)
  · intro a b _ _ h1 h2; exact strLe_antisymm a b h1 h2
  · exact sortStrs_sorted l
  · exact h
  · exact sortStrs_perm l

/-! ### paths that differ only in lexical case of names and in key order -/

def OptLowerEq (T : Tab) : Option Str → Option Str → Prop
  | none, none => True
  | some a, some b => T.lowerS a = T.lowerS b
  | _, _ => False

mutual
/-- `p` and `q` differ only in the lexical case of host, namespace, class name and key names and in the
    order of keybindings, also inside nested reference keys -/
inductive PathEquiv (T : Tab) : Path → Path → Prop
  | mk {h h' n n' c c' ks ks'} : OptLowerEq T h h' → OptLowerEq T n n' → T.lowerS c = T.lowerS c' →
      KeysEquiv T ks ks' → PathEquiv T (.mk h n c ks) (.mk h' n' c' ks')
inductive KeysEquiv (T : Tab) : Keys → Keys → Prop
  | nil : KeysEquiv T .nil .nil
  | cons {k k' v v' r r'} : T.lowerS k = T.lowerS k' → ValEquiv T v v' → KeysEquiv T r r' →
      KeysEquiv T (.cons k v r) (.cons k' v' r')
  | swap {k v k2 v2 r} : KeysEquiv T (.cons k v (.cons k2 v2 r)) (.cons k2 v2 (.cons k v r))
  | trans {a b c} : KeysEquiv T a b → KeysEquiv T b c → KeysEquiv T a c
inductive ValEquiv (T : Tab) : KeyVal → KeyVal → Prop
  | refl {v} : ValEquiv T v v
  | ref {p q} : PathEquiv T p q → ValEquiv T (.ref p) (.ref q)
end

def foldNames (T : Tab) (ks : Keys) : List Str := ks.names.map T.foldS
def lowerNames (T : Tab) (ks : Keys) : List Str := ks.names.map T.lowerS

mutual
/-- the NocaseDict invariant: key names are pairwise different after casefold (at every nesting level) -/
def ValWF (T : Tab) : KeyVal → Prop
  | .ref p => PathWF T p
  | _ => True
def PathWF (T : Tab) : Path → Prop
  | .mk _ _ _ ks => (foldNames T ks).Nodup ∧ KeysWF T ks
def KeysWF (T : Tab) : Keys → Prop
  | .nil => True
  | .cons _ v r => ValWF T v ∧ KeysWF T r
end

theorem printKeys_names (T : Tab) (fmt : Fmt) : ∀ ks, (printKeys T fmt ks).map (·.1) = ks.names
  | .nil => by simp [printKeys, Keys.names]
  | .cons k v r => by simp [printKeys, Keys.names, printKeys_names T fmt r]

theorem printKeys_nil_iff (T : Tab) (fmt : Fmt) (ks : Keys) : printKeys T fmt ks = [] ↔ ks = .nil := by
  cases ks <;> simp [printKeys]

theorem optLower_case {T : Tab} {a b : Option Str} (h : OptLowerEq T a b) :
    a.isSome = b.isSome ∧ a.map (caseOf T .canonical) = b.map (caseOf T .canonical) := by
  cases a <;> cases b <;> simp_all [OptLowerEq, caseOf]

theorem headStr_canon_eq {T : Tab} {h h' n n' : Option Str} {c c' : Str}
    (hh : OptLowerEq T h h') (hn : OptLowerEq T n n') (hc : T.lowerS c = T.lowerS c') :
    headStr T .canonical h n c = headStr T .canonical h' n' c' := by
  cases h <;> cases h' <;> cases n <;> cases n' <;> simp_all [OptLowerEq, headStr, caseOf]

/-- what the canonical body depends on -/
theorem bodyStr_canon_congr {T : Tab} {a b : List (Str × Str)}
    (hnil : a = [] ↔ b = [])
    (hperm : (a.map (fun kv => T.lowerS kv.1)).Perm (b.map (fun kv => T.lowerS kv.1)))
    (hlook : ∀ l, lookupFold T l a = lookupFold T l b) :
    bodyStr T .canonical a = bodyStr T .canonical b := by
  cases a with
  | nil => have := hnil.mp rfl; subst this; rfl
  | cons x xs =>
    cases b with
    | nil => have := hnil.mpr rfl; simp at this
    | cons y ys =>
      simp only [bodyStr, caseOf, if_true]
      rw [sortStrs_of_perm hperm]
      congr 2
      apply List.map_congr_left
      intro k _
      rw [hlook k]

structure KeysRel (T : Tab) (a b : Keys) : Prop where
  perm : (lowerNames T a).Perm (lowerNames T b)
  look : ∀ l, lookupFold T l (printKeys T .canonical a) = lookupFold T l (printKeys T .canonical b)
  nodup : (foldNames T b).Nodup
  wf : KeysWF T b
  nil_iff : a = .nil ↔ b = .nil

theorem foldNames_perm_of_lower {T : Tab} (hfl : ∀ s, T.foldS (T.lowerS s) = T.foldS s) {a b : Keys}
    (h : (lowerNames T a).Perm (lowerNames T b)) : (foldNames T a).Perm (foldNames T b) := by
  have e : ∀ ks : Keys, foldNames T ks = (lowerNames T ks).map T.foldS := by
    intro ks; simp [foldNames, lowerNames, List.map_map, Function.comp_def, hfl]
  rw [e, e]; exact h.map _

mutual
theorem path_canon {T : Tab} (hfl : ∀ s, T.foldS (T.lowerS s) = T.foldS s) {p q : Path} :
    PathEquiv T p q → PathWF T p → toUri T .canonical p = toUri T .canonical q ∧ PathWF T q
  | .mk hh hn hc hk, hw => by
    rename_i h h' n n' c c' ks ks'
    have hw' : (foldNames T ks).Nodup ∧ KeysWF T ks := by simpa [PathWF] using hw
    have r := keys_canon hfl hk hw'.1 hw'.2
    refine ⟨?_, by simpa [PathWF] using ⟨r.nodup, r.wf⟩⟩
    simp only [toUri]
    rw [headStr_canon_eq hh hn hc]
    congr 1
    apply bodyStr_canon_congr
    · rw [printKeys_nil_iff, printKeys_nil_iff]; exact r.nil_iff
    · have e : ∀ ks : Keys, (printKeys T .canonical ks).map (fun kv => T.lowerS kv.1) = lowerNames T ks := by
        intro ks; unfold lowerNames; rw [← printKeys_names T .canonical ks, List.map_map]; rfl
      rw [e, e]; exact r.perm
    · exact r.look
theorem keys_canon {T : Tab} (hfl : ∀ s, T.foldS (T.lowerS s) = T.foldS s) {a b : Keys} :
    KeysEquiv T a b → (foldNames T a).Nodup → KeysWF T a → KeysRel T a b
  | .nil, hn, hw => ⟨List.Perm.refl _, fun _ => rfl, hn, hw, Iff.rfl⟩
  | .cons hk hv hr, hn, hw => by
    rename_i k k' v v' r r'
    have hn' : T.foldS k ∉ foldNames T r ∧ (foldNames T r).Nodup := by
      simpa [foldNames, Keys.names] using hn
    have hw' : ValWF T v ∧ KeysWF T r := by simpa [KeysWF] using hw
    have rv := val_canon hfl hv hw'.1
    have rr := keys_canon hfl hr hn'.2 hw'.2
    have hf : T.foldS k = T.foldS k' := by rw [← hfl k, hk, hfl]
    refine ⟨?_, ?_, ?_, ?_, by simp⟩
    · simp only [lowerNames, Keys.names, List.map_cons, hk]
      exact List.Perm.cons _ rr.perm
    · intro l; simp only [printKeys, lookupFold, hf, rv.1, rr.look l]
    · have pm := foldNames_perm_of_lower hfl rr.perm
      simp only [foldNames, Keys.names, List.map_cons, List.nodup_cons]
      refine ⟨?_, rr.nodup⟩
      intro hm; rw [← hf] at hm
      exact hn'.1 (pm.mem_iff.mpr hm)
    · simpa [KeysWF] using ⟨rv.2, rr.wf⟩
  | .swap, hn, hw => by
    rename_i k v k2 v2 r
    have hn' : (T.foldS k ≠ T.foldS k2 ∧ T.foldS k ∉ foldNames T r) ∧ T.foldS k2 ∉ foldNames T r ∧
        (foldNames T r).Nodup := by
      simpa [foldNames, Keys.names] using hn
    have hw' : ValWF T v ∧ ValWF T v2 ∧ KeysWF T r := by simpa [KeysWF] using hw
    refine ⟨?_, ?_, ?_, ?_, by simp⟩
    · simp only [lowerNames, Keys.names, List.map_cons]; exact List.Perm.swap _ _ _
    · intro l
      simp only [printKeys, lookupFold]
      by_cases e1 : T.foldS k = T.foldS l
      · have : ¬ T.foldS k2 = T.foldS l := by intro e2; exact hn'.1.1 (e1.trans e2.symm)
        simp [e1, this]
      · simp [e1]
    · simp only [foldNames, Keys.names, List.map_cons, List.nodup_cons, List.mem_cons, not_or]
      exact ⟨⟨fun e => hn'.1.1 e.symm, hn'.2.1⟩, hn'.1.2, hn'.2.2⟩
    · simpa [KeysWF] using ⟨hw'.2.1, hw'.1, hw'.2.2⟩
  | .trans h1 h2, hn, hw => by
    have r1 := keys_canon hfl h1 hn hw
    have r2 := keys_canon hfl h2 r1.nodup r1.wf
    exact ⟨r1.perm.trans r2.perm, fun l => (r1.look l).trans (r2.look l), r2.nodup, r2.wf,
           r1.nil_iff.trans r2.nil_iff⟩
theorem val_canon {T : Tab} (hfl : ∀ s, T.foldS (T.lowerS s) = T.foldS s) {v w : KeyVal} :
    ValEquiv T v w → ValWF T v → printVal T .canonical v = printVal T .canonical w ∧ ValWF T w
  | .refl, hw => ⟨rfl, hw⟩
  | .ref hp, hw => by
    have r := path_canon hfl hp (by simpa [ValWF] using hw)
    exact ⟨by simp only [printVal, r.1], by simpa [ValWF] using r.2⟩
end

/-! ### what the proofs need from Python's `\w`, `str.lower()`, `str.casefold()` -/

structure TabOk (T : Tab) : Prop where
  /-- casefold ignores what lower() changes -/
  fold_lower : ∀ s, T.foldS (T.lowerS s) = T.foldS s
  /-- lower() is idempotent -/
  lower_idem : ∀ s, T.lowerS (T.lowerS s) = T.lowerS s
  /-- the URI punctuation is not matched by `\w` -/
  not_word : ∀ c ∈ ['/', ':', '.', ',', '=', '"', '\'', '\\', '\n', '-', '+', '*', '@', '[', ']', '%', ' '], T.word c = false
  /-- ASCII digits are matched by `\w` -/
  digit_word : ∀ c, isDigit c = true → T.word c = true

theorem ofNat_small : ∀ n, n < 128 → (Char.ofNat n).toNat = n := by decide

theorem lowerAscii_idem (c : Char) : lowerAscii (lowerAscii c) = lowerAscii c := by
  unfold lowerAscii
  by_cases h : 65 ≤ c.toNat ∧ c.toNat ≤ 90
  · simp only [h, and_self, if_true]
    have := ofNat_small (c.toNat + 32) (by omega)
    rw [this]
    have : ¬ (65 ≤ c.toNat + 32 ∧ c.toNat + 32 ≤ 90) := by omega
    simp only [this, if_false]
  · simp [h]

theorem ascii_lowerS (s : Str) : asciiTab.lowerS s = s.map lowerAscii := by
  induction s with
  | nil => rfl
  | cons c r ih => simp [Tab.lowerS, asciiTab] at ih ⊢; exact ih

theorem ascii_foldS (s : Str) : asciiTab.foldS s = s.map lowerAscii := by
  induction s with
  | nil => rfl
  | cons c r ih => simp [Tab.foldS, asciiTab] at ih ⊢; exact ih

theorem asciiTabOk : TabOk asciiTab where
  fold_lower s := by simp [ascii_lowerS, ascii_foldS, lowerAscii_idem]
  lower_idem s := by simp [ascii_lowerS, lowerAscii_idem]
  not_word := by decide
  digit_word c h := by
    simp only [isDigit, Bool.and_eq_true, decide_eq_true_eq] at h
    have e0 : ('0' : Char).toNat = 48 := by decide
    have e9 : ('9' : Char).toNat = 57 := by decide
    simp only [asciiTab, asciiWord, Char.isAlphanum, Char.isDigit, Bool.or_eq_true, Bool.and_eq_true, decide_eq_true_eq]
    left; right
    have a : c.val.toNat = c.toNat := rfl
    constructor <;> (apply UInt32.le_iff_toNat_le.mpr; first | (show 48 ≤ c.val.toNat; omega) | (show c.val.toNat ≤ 57; omega))

/-! ### totality of the parser: only ValueError, and the fuel `s.length + 1` is never used up -/

theorem dropWhile_len (p : Char → Bool) (l : Str) : (l.dropWhile p).length ≤ l.length :=
  (List.dropWhile_sublist p).length_le
theorem takeWhile_len (p : Char → Bool) (l : Str) : (l.takeWhile p).length ≤ l.length :=
  (List.takeWhile_sublist p).length_le

theorem stripScheme_len (T : Tab) (s : Str) : (stripScheme T s).2.length ≤ s.length := by
  unfold stripScheme
  have := dropWhile_len (schemeChar T) s
  split
  · rename_i r heq; rw [heq] at this
    split <;> simp at this ⊢ <;> omega
  · simp

theorem stripAuth_len (T : Tab) (s : Str) : (stripAuth T s).2.length ≤ s.length := by
  unfold stripAuth
  split
  · rename_i r; have := dropWhile_len (authChar T) r; simp; omega
  · simp

theorem stripSlash_len {a : Bool} {s r : Str} {b : Bool} (h : stripSlash a s = some (r, b)) : r.length ≤ s.length := by
  unfold stripSlash at h
  split at h
  · simp at h; obtain ⟨rfl, _⟩ := h; simp
  · split at h <;> simp at h; obtain ⟨rfl, _⟩ := h; simp

theorem splitNs_len {T : Tab} {p0 : Bool} {s rest : Str} {ns : Option Str}
    (h : splitNs T p0 s = some (ns, rest)) : rest.length ≤ s.length := by
  unfold splitNs at h
  have := dropWhile_len (nsChar T) s
  split at h
  · rename_i r5 _ heq; rw [heq] at this; simp at h; obtain ⟨_, rfl⟩ := h; simp at this; omega
  · split at h
    · simp at h; obtain ⟨_, rfl⟩ := h; simp
    · split at h <;> simp at h; obtain ⟨_, rfl⟩ := h; simp

theorem parseHead_len {T : Tab} {s : Str} {h : Head} (e : parseHead T s = some h) : h.rest.length ≤ s.length := by
  unfold parseHead at e
  simp only at e
  split at e
  · simp at e
  · rename_i r3 pos0 h1
    split at e
    · simp at e
    · rename_i ns rest h2
      simp at e; subst e
      have a := stripScheme_len T s
      have b := stripAuth_len T (stripScheme T s).2
      have c := stripSlash_len h1
      have d := splitNs_len h2
      simp only; omega

theorem unescape_single (c : Char) : unescape [c] = [c] := by
  rw [unescape.eq_3 c [] (fun _ _ _ h => by cases h)]; simp [unescape]

theorem unescape_len_aux : ∀ s : Str, (unescape s).length ≤ s.length ∧
    ∀ c, (unescape (c :: s)).length ≤ s.length + 1 := by
  intro s
  induction s with
  | nil => exact ⟨by simp [unescape], fun c => by simp [unescape_single]⟩
  | cons d r ih =>
    refine ⟨ih.2 d, fun c => ?_⟩
    by_cases hc : c = '\\'
    · subst hc
      rw [unescape.eq_2]
      split
      · have := ih.2 d; simp; omega
      · have := ih.1; simp; omega
    · rw [unescape_cons_ne hc]; have := ih.2 d; simp; omega

theorem unescape_len (s : Str) : (unescape s).length ≤ s.length := (unescape_len_aux s).1

theorem scanQuoted_single (q c : Char) : scanQuoted q [c] = if c = '\\' then none else if c = q then some ([], []) else none := by
  rw [scanQuoted.eq_3 q c [] (fun _ _ _ h => by cases h)]; simp [scanQuoted]

theorem scanQuoted_len_aux (q : Char) : ∀ s : Str,
    (∀ b rest, scanQuoted q s = some (b, rest) → b.length + rest.length + 1 ≤ s.length) ∧
    (∀ c b rest, scanQuoted q (c :: s) = some (b, rest) → b.length + rest.length + 1 ≤ s.length + 1) := by
  intro s
  induction s with
  | nil =>
    refine ⟨fun b rest h => by simp [scanQuoted] at h, fun c b rest h => ?_⟩
    rw [scanQuoted_single] at h
    split at h
    · simp at h
    · split at h <;> simp at h; obtain ⟨rfl, rfl⟩ := h; simp
  | cons d r ih =>
    refine ⟨ih.2 d, fun c b rest h => ?_⟩
    by_cases hc : c = '\\'
    · subst hc
      rw [scanQuoted.eq_2] at h
      split at h
      · simp at h
      · cases hs : scanQuoted q r with
        | none => simp [hs] at h
        | some br =>
          obtain ⟨b', rest'⟩ := br
          simp [hs] at h; obtain ⟨rfl, rfl⟩ := h
          have := ih.1 _ _ hs; simp; omega
    · rw [scanQuoted_cons_ne hc] at h
      split at h
      · simp at h; obtain ⟨rfl, rfl⟩ := h; simp
      · cases hs : scanQuoted q (d :: r) with
        | none => simp [hs] at h
        | some br =>
          obtain ⟨b', rest'⟩ := br
          simp [hs] at h; obtain ⟨rfl, rfl⟩ := h
          have := ih.2 d _ _ hs; simp; omega

theorem scanQuoted_len (q : Char) (s b rest : Str) (h : scanQuoted q s = some (b, rest)) :
    b.length + rest.length + 1 ≤ s.length := (scanQuoted_len_aux q s).1 b rest h

theorem scanVal_len {s v rest : Str} (h : scanVal s = some (v, rest)) : v.length + rest.length ≤ s.length := by
  unfold scanVal at h
  split at h
  · rename_i r
    cases hs : scanQuoted '\'' r with
    | none => simp [hs] at h
    | some br => simp [hs] at h; obtain ⟨rfl, rfl⟩ := h; have := scanQuoted_len _ _ _ _ hs; simp; omega
  · rename_i r
    cases hs : scanQuoted '"' r with
    | none => simp [hs] at h
    | some br => simp [hs] at h; obtain ⟨rfl, rfl⟩ := h; have := scanQuoted_len _ _ _ _ hs; simp; omega
  · split at h
    · simp at h
    · simp at h; obtain ⟨rfl, rfl⟩ := h
      have := congrArg List.length (List.takeWhile_append_dropWhile (p := nqChar) (l := s))
      simp only [List.length_append] at this; omega

theorem scanAssign_len {T : Tab} {s k v rest : Str} (h : scanAssign T s = some ((k, v), rest)) :
    v.length + rest.length < s.length := by
  unfold scanAssign at h
  simp only at h
  split at h
  · simp at h
  · split at h
    · rename_i r heq
      cases hv : scanVal r with
      | none => simp [hv] at h
      | some vr =>
        simp [hv] at h; obtain ⟨⟨_, rfl⟩, rfl⟩ := h
        have a := scanVal_len hv
        have b := dropWhile_len T.word s
        rw [heq] at b; simp at b; omega
    · simp at h

theorem scanAssigns_len {T : Tab} : ∀ (f : Nat) (s : Str) (l : List (Str × Str)), scanAssigns T f s = some l →
    ∀ kv ∈ l, kv.2.length < s.length := by
  intro f
  induction f with
  | zero => intro s l h; simp [scanAssigns] at h
  | succ f ih =>
    intro s l h kv hkv
    unfold scanAssigns at h
    cases ha : scanAssign T s with
    | none => simp [ha] at h
    | some x =>
      obtain ⟨⟨k, v⟩, rest⟩ := x
      have hl := scanAssign_len ha
      simp only [ha] at h
      split at h
      · simp at h; subst h; simp at hkv; subst hkv; simp; omega
      · rename_i r
        cases hr : scanAssigns T f r with
        | none => simp [hr] at h
        | some l' =>
          simp [hr] at h; subst h
          simp at hl
          rcases List.mem_cons.mp hkv with rfl | hm
          · simp; omega
          · have := ih r l' hr kv hm; omega
      · simp at h

def OnlyValueError {α : Type} : Except PyExc α → Prop
  | .ok _ => True
  | .error e => e = .valueError

theorem kbVal_total {T : Tab} {rec : Str → Except PyExc Path} {v : Str}
    (h : OnlyValueError (rec (unescape (stripQuotes v)))) : OnlyValueError (kbVal T rec v) := by
  unfold kbVal
  split
  · simp only
    split
    · trivial
    · split <;> trivial
    · rename_i e hne heq; rw [heq] at h; exact absurd h (by simpa [OnlyValueError] using hne)
  · split
    · simp only; split <;> simp [OnlyValueError]
    · split
      · trivial
      · split
        · trivial
        · split
          · trivial
          · split
            · trivial
            · split <;> simp [OnlyValueError]

theorem kbVals_total {T : Tab} {rec : Str → Except PyExc Path} : ∀ (l : List (Str × Str)),
    (∀ kv ∈ l, OnlyValueError (rec (unescape (stripQuotes kv.2)))) → OnlyValueError (kbVals T rec l)
  | [], _ => by simp [kbVals, OnlyValueError]
  | (k, v) :: r, h => by
    have hv := kbVal_total (T := T) (h (k, v) (by simp))
    have hr := kbVals_total (T := T) r (fun kv hkv => h kv (by simp [hkv]))
    unfold kbVals
    cases e1 : kbVal T rec v with
    | error e => rw [e1] at hv; simpa [OnlyValueError] using hv
    | ok x =>
      cases e2 : kbVals T rec r with
      | error e => rw [e2] at hr; simpa [OnlyValueError] using hr
      | ok l => simp [OnlyValueError]

theorem stripQuotes_len (v : Str) : (stripQuotes v).length ≤ v.length := by
  simp [stripQuotes]; omega

theorem fromUriStep_total {T : Tab} {rec : Str → Except PyExc Path} {s : Str}
    (h : ∀ t : Str, t.length < s.length → OnlyValueError (rec t)) : OnlyValueError (fromUriStep T rec s) := by
  unfold fromUriStep
  split
  · simp [OnlyValueError]
  · rename_i hd hph
    have hlen := parseHead_len hph
    simp only
    split
    · rename_i body hbody
      split
      · simp [OnlyValueError]
      · split
        · simp [OnlyValueError]
        · rename_i assigns hsa
          have hall : ∀ kv ∈ assigns, OnlyValueError (rec (unescape (stripQuotes kv.2))) := by
            intro kv hkv
            apply h
            have a := scanAssigns_len _ _ _ hsa kv hkv
            have b := takeWhile_len (· != '\n') body
            have c := dropWhile_len T.word hd.rest
            rw [hbody] at c; simp at c
            have d := unescape_len (stripQuotes kv.2)
            have e := stripQuotes_len kv.2
            omega
          have := kbVals_total (T := T) assigns hall
          split
          · rename_i e he; rw [he] at this; simpa [OnlyValueError] using this
          · trivial
    · simp [OnlyValueError]

theorem fromUriF_total (T : Tab) : ∀ (n : Nat) (s : Str), s.length < n → OnlyValueError (fromUriF T n s) := by
  intro n
  induction n with
  | zero => intro s h; omega
  | succ n ih =>
    intro s h
    simp only [fromUriF]
    exact fromUriStep_total (fun t ht => ih t (by omega))

end Proofs.Uri
