/-
Helper lemmas for C17 (Model/ListenerHttp.lean).
-/
import Pywbem.Model.ListenerHttp

namespace Proofs.ListenerHttp
open Pywbem.Proto Pywbem.Model Pywbem.Model.XmlText Pywbem.Model.ListenerHttp

/-- printable US-ASCII: what may stand in an HTTP header value without any risk -/
def printableC (c : Char) : Bool := 0x20 ≤ c.toNat && c.toNat < 0x7F
def printable (s : Str) : Bool := s.all printableC

theorem printable_append (a b : Str) : printable (a ++ b) = (printable a && printable b) := by
  simp [printable, List.all_append]

theorem printable_cons (c : Char) (s : Str) : printable (c :: s) = (printableC c && printable s) := by
  simp [printable]

theorem printable_mem {s : Str} (h : printable s = true) {c : Char} (hc : c ∈ s) : printableC c = true := by
  simp [printable, List.all_eq_true] at h; exact h c hc

theorem printableC_not_crlf {c : Char} (h : printableC c = true) : c ≠ '\r' ∧ c ≠ '\n' := by
  constructor <;> (intro hc; subst hc; revert h; decide)

theorem printableC_latin1 {c : Char} (h : printableC c = true) : c.toNat < 256 := by
  simp [printableC] at h; omega

/-! ### hex digits, %-escaping -/

theorem hexDigitU_printable : ∀ n : Fin 16, printableC (hexDigitU n.val) = true := by decide
theorem hexValU_hexDigitU : ∀ n : Fin 16, hexValU (hexDigitU n.val) = some n.val := by decide

theorem safeByte_char : ∀ b : Fin 128, isSafeByte b.val = true →
    printableC (Char.ofNat b.val) = true ∧ Char.ofNat b.val ≠ '%' ∧ (Char.ofNat b.val).toNat = b.val := by
  decide

theorem isSafeByte_lt {b : Nat} (h : isSafeByte b = true) : b < 128 := by
  simp [isSafeByte, safeHi, safeLo, pctByte] at h
  have := of_decide_eq_true h.1.2
  omega

theorem quoteByte_printable (b : Nat) : printable (quoteByte b) = true := by
  unfold quoteByte
  by_cases h : isSafeByte b = true
  · have := (safeByte_char ⟨b, isSafeByte_lt h⟩ h).1
    simp [h, printable, this]
  · have h1 := hexDigitU_printable ⟨(b / 16) % 16, Nat.mod_lt _ (by decide)⟩
    have h2 := hexDigitU_printable ⟨b % 16, Nat.mod_lt _ (by decide)⟩
    simp only [Bool.not_eq_true] at h
    simp [h, printable, h1, h2]
    decide

theorem quoteBytes_printable (bs : List Nat) : printable (quoteBytes bs) = true := by
  induction bs with
  | nil => rfl
  | cons b bs ih => simp [quoteBytes, printable_append, quoteByte_printable, ih]

theorem quoteDetails_printable (s : Str) : printable (quoteDetails s) = true := quoteBytes_printable _

theorem unquote_quoteByte (b : Nat) (hb : b < 256) (rest : Str) :
    unquoteBytes (quoteByte b ++ rest) = b :: unquoteBytes rest := by
  unfold quoteByte
  by_cases h : isSafeByte b = true
  · obtain ⟨_, hne, hto⟩ := safeByte_char ⟨b, isSafeByte_lt h⟩ h
    simp only [h, ↓reduceIte, List.singleton_append]
    rw [unquoteBytes.eq_def]
    split
    · rename_i heq; simp at heq; exact absurd heq.1 hne
    · rename_i heq; simp at heq; obtain ⟨rfl, rfl⟩ := heq; simp [hto]
    · rename_i heq; simp at heq
  · simp only [Bool.not_eq_true] at h
    have h1 := hexValU_hexDigitU ⟨(b / 16) % 16, Nat.mod_lt _ (by decide)⟩
    have h2 := hexValU_hexDigitU ⟨b % 16, Nat.mod_lt _ (by decide)⟩
    simp only [h, Bool.false_eq_true, ↓reduceIte, List.cons_append, List.nil_append]
    rw [unquoteBytes.eq_def]
    simp only at h1 h2
    simp [h1, h2]
    omega

theorem utf8_lt (c : Char) : ∀ b ∈ utf8 c, b < 256 := by
  intro b hb
  have hlt : c.toNat < 0x110000 := by
    have := c.valid
    simp only [UInt32.isValidChar, Nat.isValidChar] at this
    show c.val.toNat < _
    omega
  unfold utf8 at hb
  simp only at hb
  split at hb
  · simp at hb; omega
  · split at hb
    · simp at hb; omega
    · split at hb
      · simp at hb; omega
      · simp at hb; omega

theorem utf8Bytes_lt (s : Str) : ∀ b ∈ utf8Bytes s, b < 256 := by
  induction s with
  | nil => simp [utf8Bytes]
  | cons c cs ih =>
    intro b hb
    simp [utf8Bytes] at hb
    rcases hb with hb | hb
    · exact utf8_lt c b hb
    · exact ih b hb

theorem unquote_quoteBytes (bs : List Nat) (h : ∀ b ∈ bs, b < 256) : unquoteBytes (quoteBytes bs) = bs := by
  induction bs with
  | nil => simp [quoteBytes, unquoteBytes]
  | cons b bs ih =>
    simp only [quoteBytes]
    rw [unquote_quoteByte b (h b (by simp))]
    rw [ih (fun x hx => h x (by simp [hx]))]

/-! ### decimal digits -/

theorem digit_printable : ∀ d : Fin 10, printableC (Char.ofNat (48 + d.val)) = true := by decide

theorem natDigits_printable (fuel n : Nat) : printable (natDigits fuel n) = true := by
  induction fuel generalizing n with
  | zero => rfl
  | succ f ih =>
    unfold natDigits
    by_cases h : n < 10
    · have := digit_printable ⟨n, h⟩
      simp [h, printable, this]
    · have := digit_printable ⟨n % 10, Nat.mod_lt _ (by decide)⟩
      simp only [h, ↓reduceIte, printable_append, ih, Bool.true_and]
      simpa [printable] using this

theorem natStr_printable (n : Nat) : printable (natStr n) = true := natDigits_printable _ _

/-! ### send_header -/

theorem printable_latin1 {s : Str} (h : printable s = true) : s.all (fun c => c.toNat < 256) = true := by
  simp only [List.all_eq_true, decide_eq_true_eq]
  intro c hc
  exact printableC_latin1 (printable_mem h hc)

theorem sendHeader_ok {k v : Str} (hk : printable k = true) (hv : printable v = true) :
    sendHeader k v = .ok (k, v) := by
  unfold sendHeader
  have : (k ++ v).all (fun c => c.toNat < 256) = true := by
    rw [List.all_append, printable_latin1 hk, printable_latin1 hv]; rfl
  simp [this]

/-- all names and values printable -/
def hdrsPrintable (hs : List (Str × Str)) : Bool := hs.all (fun kv => printable kv.1 && printable kv.2)

theorem sendHeaders_ok {hs : List (Str × Str)} (h : hdrsPrintable hs = true) : sendHeaders hs = .ok hs := by
  induction hs with
  | nil => rfl
  | cons kv rest ih =>
    obtain ⟨k, v⟩ := kv
    simp only [hdrsPrintable, List.all_cons, Bool.and_eq_true] at h
    have ih' := ih (by simpa [hdrsPrintable] using h.2)
    simp only [sendHeaders, sendHeader_ok h.1.1 h.1.2, ih']
    rfl

/-- a value with a character outside Latin-1 makes send_header raise (why un-escaped details are a defect) -/
theorem sendHeader_fails {k v : Str} {c : Char} (hc : c ∈ v) (h : 256 ≤ c.toNat) :
    sendHeader k v = .error Exc.unicodeEncodeError := by
  unfold sendHeader
  have : (k ++ v).all (fun c => c.toNat < 256) = false := by
    apply Bool.eq_false_iff.mpr
    intro hall
    simp only [List.all_eq_true, decide_eq_true_eq] at hall
    have := hall c (by simp [hc])
    omega
  simp [this]

/-! ### the two response constructors as pure functions -/

def errHeaders (ce : Option String) (details : Option Str) (extra : List (Str × Str)) : List (Str × Str) :=
  [("CIMExport".toList, "MethodResponse".toList)]
    ++ (match ce with | some e => [("CIMError".toList, e.toList)] | none => [])
    ++ (match details with | some d => [("CIMErrorDetails".toList, quoteDetails d)] | none => [])
    ++ extra

def httpErrRsp (code : Nat) (ce : Option String) (details : Option Str) (extra : List (Str × Str)) : Response :=
  { status := code, reason := reasonOf code, headers := errHeaders ce details extra, body := [] }

def exportHeaders (body : Str) : List (Str × Str) :=
  [("Content-Type".toList, "text/xml".toList), ("Content-Length".toList, natStr (utf8Bytes body).length),
   ("CIMExport".toList, "MethodResponse".toList)]

def exportRsp (msgid m : Str) (err : Option (Nat × Str)) : Response :=
  { status := 200, reason := reasonOf 200, headers := exportHeaders (rspBody msgid m err), body := rspBody msgid m err }

theorem errHeaders_printable (ce : Option String) (d : Option Str) (extra : List (Str × Str))
    (hce : ∀ e, ce = some e → printable e.toList = true) (hex : hdrsPrintable extra = true) :
    hdrsPrintable (errHeaders ce d extra) = true := by
  unfold errHeaders
  simp only [hdrsPrintable, List.all_append, Bool.and_eq_true] at hex ⊢
  refine ⟨⟨⟨by decide, ?_⟩, ?_⟩, hex⟩
  · cases ce with
    | none => rfl
    | some e =>
      have := hce e rfl
      simp only [List.all_cons, List.all_nil, Bool.and_true, Bool.and_eq_true]
      exact ⟨by decide, this⟩
  · cases d with
    | none => rfl
    | some x =>
      simp only [List.all_cons, List.all_nil, Bool.and_true, Bool.and_eq_true]
      exact ⟨by decide, quoteDetails_printable x⟩

theorem sendHttpError_fixed (code : Nat) (ce : Option String) (d : Option Str) (extra : List (Str × Str))
    (hce : ∀ e, ce = some e → printable e.toList = true) (hex : hdrsPrintable extra = true) :
    sendHttpError Cfg.fixed code ce d extra = .ok (httpErrRsp code ce d extra) := by
  have h := sendHeaders_ok (errHeaders_printable ce d extra hce hex)
  cases ce <;> cases d <;>
    (simp only [sendHttpError, detailsValue, Cfg.fixed, errHeaders, ↓reduceIte] at h ⊢
     simp only [h]
     rfl)

theorem exportHeaders_printable (body : Str) : hdrsPrintable (exportHeaders body) = true := by
  unfold exportHeaders
  simp only [hdrsPrintable, List.all_cons, List.all_nil, Bool.and_true, Bool.and_eq_true]
  exact ⟨⟨by decide, by decide⟩, ⟨by decide, natStr_printable _⟩, by decide, by decide⟩

theorem sendExportResponse_eq (msgid m : Str) (err : Option (Nat × Str)) :
    sendExportResponse msgid m err = .ok (exportRsp msgid m err) := by
  unfold sendExportResponse
  have h := sendHeaders_ok (exportHeaders_printable (rspBody msgid m err))
  unfold exportHeaders at h
  simp only [h]
  rfl

/-! ### what one request can lead to (code after the fixes) -/

open Pywbem.Generated.ListenerConsts

/-- the (status, CIMError, extra headers) combinations send_http_error is called with -/
def errTable : List (Nat × Option String × List (Str × Str)) :=
  [(406, some "header-mismatch", []), (400, some "header-mismatch", []), (400, some "request-not-well-formed", []),
   (400, some "unsupported-dtd-version", []), (400, some "unsupported-protocol-version", []),
   (400, some "unsupported-version", []), (500, none, []), (405, none, [("Allow".toList, "POST".toList)])]

def LState.push (s : LState) (x : Item) : LState :=
  { s with queue := s.queue ++ [x], accepted := s.accepted ++ [x] }

/-- the three kinds of answer the fixed handler gives -/
inductive Outcome (s : LState) : LState × Response → Prop
  | httpError (code : Nat) (ce : Option String) (d : Option Str) (extra : List (Str × Str)) :
      (code, ce, extra) ∈ errTable → (d.isSome ∨ code = 405) → Outcome s (s, httpErrRsp code ce d extra)
  | cimError (msgid m : Str) (code : Nat) (desc : Str) :
      code ∈ [cimErrFailed, cimErrInvalidParameter, cimErrNotSupported] →
      (code = cimErrFailed → s.full = true) →
      Outcome s (s, exportRsp msgid m (some (code, desc)))
  | accepted (msgid : Str) (inst : Xml) : s.full = false →
      Outcome s (LState.push s (msgid, inst), exportRsp msgid "ExportIndication".toList none)

theorem fixed_validateLen : Cfg.fixed.validateLen = true := rfl
theorem fixed_encodeDetails : Cfg.fixed.encodeDetails = true := rfl
theorem fixed_catchAll : Cfg.fixed.catchAll = true := rfl
theorem fixed_rejectDup : Cfg.fixed.rejectDup = true := rfl

theorem ce_ok (c : String) (h : printable c.toList = true) :
    ∀ e, some c = some e → printable e.toList = true := by
  intro e he; cases he; exact h

theorem ce_none : ∀ e : String, (none : Option String) = some e → printable e.toList = true := by
  intro e he; cases he

theorem parseFailure_fixed (E : Env) (e : PErr) :
    ∃ code ce d, parseFailure Cfg.fixed E e = .ok (httpErrRsp code ce (some d) []) ∧ (code, ce, []) ∈ errTable := by
  cases e with
  | notWellFormed =>
    refine ⟨400, some "request-not-well-formed", E.parserMsg, ?_, by decide⟩
    simp only [parseFailure]
    exact sendHttpError_fixed _ _ _ _ (ce_ok _ (by decide)) rfl
  | cimVersion v =>
    refine ⟨400, some "unsupported-version", fmt1 "CIMVERSION is " v ", expected 2.x.y", ?_, by decide⟩
    simp only [parseFailure]
    exact sendHttpError_fixed _ _ _ _ (ce_ok _ (by decide)) rfl
  | dtdVersion v =>
    refine ⟨400, some "unsupported-dtd-version", fmt1 "DTDVERSION is " v ", expected 2.x.y", ?_, by decide⟩
    simp only [parseFailure]
    exact sendHttpError_fixed _ _ _ _ (ce_ok _ (by decide)) rfl
  | protoVersion v =>
    refine ⟨400, some "unsupported-protocol-version", fmt1 "PROTOCOLVERSION is " v ", expected 1.x.y", ?_, by decide⟩
    simp only [parseFailure]
    exact sendHttpError_fixed _ _ _ _ (ce_ok _ (by decide)) rfl
  | other x =>
    refine ⟨500, none, fmt1 "Error processing the export request: " (E.excText x) "", ?_, by decide⟩
    simp only [parseFailure, fixed_catchAll, ↓reduceIte]
    exact sendHttpError_fixed _ _ _ _ ce_none rfl

theorem dispatch_cases (s : LState) (msgid m : Str) (params : List (Str × Option Xml)) :
    ∃ x, dispatch s msgid m params = .ok x ∧ Outcome s x := by
  unfold dispatch
  simp only [sendExportResponse_eq]
  by_cases hm : m = "ExportIndication".toList
  · simp only [hm, ↓reduceIte]
    have bad : ∀ desc, Outcome s (s, exportRsp msgid "ExportIndication".toList (some (cimErrInvalidParameter, desc))) :=
      fun desc => .cimError _ _ _ _ (by simp) (fun h => absurd h (by decide))
    rcases params with _ | ⟨⟨k, v⟩, _ | ⟨p2, rest⟩⟩
    · exact ⟨_, rfl, bad _⟩
    · by_cases hk : k = "NewIndication".toList
      · cases v with
        | none => simp only [hk, ↓reduceIte]; exact ⟨_, rfl, bad _⟩
        | some inst =>
          simp only [hk, ↓reduceIte]
          by_cases hf : s.full = true
          · simp only [hf, ↓reduceIte]
            exact ⟨_, rfl, .cimError _ _ _ _ (by simp) (fun _ => hf)⟩
          · simp only [hf]
            exact ⟨_, rfl, .accepted msgid inst (by simpa using hf)⟩
      · simp only [hk, ↓reduceIte]; exact ⟨_, rfl, bad _⟩
    · exact ⟨_, rfl, bad _⟩
  · simp only [hm, ↓reduceIte]
    exact ⟨_, rfl, .cimError _ _ _ _ (by simp) (fun h => absurd h (by decide))⟩

theorem postBody_cases (E : Env) (s : LState) (r : Req) :
    ∃ x, postBody Cfg.fixed E s r = .ok x ∧ Outcome s x := by
  unfold postBody
  simp only [fixed_validateLen, Bool.true_and, Bool.not_true, Bool.false_and, Bool.false_eq_true, ↓reduceIte]
  by_cases hneg : clValue r.headers < 0
  · simp only [hneg, decide_true, ↓reduceIte]
    rw [sendHttpError_fixed _ _ _ _ (ce_ok "header-mismatch" (by decide)) rfl]
    exact ⟨_, rfl, .httpError _ _ _ _ (by decide) (Or.inl rfl)⟩
  · simp only [hneg, decide_false, Bool.false_eq_true, ↓reduceIte]
    cases hr : readFor E (clValue r.headers) r.body with
    | error x =>
      obtain ⟨code, ce, d, h1, h2⟩ := parseFailure_fixed E (.other x)
      simp only [h1]
      exact ⟨_, rfl, .httpError _ _ _ _ h2 (Or.inl rfl)⟩
    | ok bytes =>
      simp only
      cases hp : parseExportRequest Cfg.fixed E bytes with
      | error e =>
        obtain ⟨code, ce, d, h1, h2⟩ := parseFailure_fixed E e
        simp only [h1]
        exact ⟨_, rfl, .httpError _ _ _ _ h2 (Or.inl rfl)⟩
      | ok t =>
        obtain ⟨msgid, m, params⟩ := t
        exact dispatch_cases s msgid m params

theorem doPost_cases (E : Env) (s : LState) (r : Req) :
    ∃ x, doPost Cfg.fixed E s r = .ok x ∧ Outcome s x := by
  unfold doPost
  cases hc : headerCheck r.headers with
  | some d =>
    simp only
    rw [sendHttpError_fixed _ _ _ _ (ce_ok "header-mismatch" (by decide)) rfl]
    exact ⟨_, rfl, .httpError _ _ _ _ (by decide) (Or.inl rfl)⟩
  | none => exact postBody_cases E s r

theorem invalidMethod_fixed :
    invalidMethod Cfg.fixed = .ok (httpErrRsp 405 none none [("Allow".toList, "POST".toList)]) :=
  sendHttpError_fixed _ _ _ _ ce_none (by decide)

/-- **every request the handler class has a method for is answered** (no exception leaves it), in one of three ways -/
theorem handle_fixed (E : Env) (s : LState) (r : Req) :
    handle Cfg.fixed E s r = none ∨ ∃ x, handle Cfg.fixed E s r = some (.ok x) ∧ Outcome s x := by
  unfold handle
  by_cases hp : r.method = "POST".toList
  · simp only [hp, ↓reduceIte]
    obtain ⟨x, hx, ho⟩ := doPost_cases E s r
    exact Or.inr ⟨x, by rw [hx], ho⟩
  · simp only [hp, ↓reduceIte]
    by_cases hi : isInvalidMethod r.method = true
    · simp only [hi, ↓reduceIte, invalidMethod_fixed]
      exact Or.inr ⟨_, rfl, .httpError _ _ _ _ (by decide) (Or.inr rfl)⟩
    · simp only [hi]
      exact Or.inl rfl

/-! ### the fuel handed to the two findall recognisers suffices -/

theorem length_dropWhile_le (p : Char → Bool) (l : Str) : (l.dropWhile p).length ≤ l.length := by
  induction l with
  | nil => simp
  | cons c cs ih =>
    simp only [List.dropWhile_cons]
    split
    · simp only [List.length_cons]; omega
    · simp

theorem dropSpaces_length (s : Str) : (dropSpaces s).length ≤ s.length := length_dropWhile_le _ _

theorem skipQ_length (s : Str) : (skipQ s).length ≤ s.length := by
  unfold skipQ
  split
  · rename_i r
    split
    · rename_i d r2 heq
      have h1 := dropSpaces_length r
      rw [heq] at h1
      simp only [List.length_cons] at h1 ⊢
      split
      · split
        · rename_i r3
          have := length_dropWhile_le isDigitC r3
          simp only [List.length_cons] at *
          omega
        · omega
      · simp only [List.length_cons]; omega
    · omega
  · omega

theorem skipComma_length (s : Str) : (skipComma s).length ≤ s.length := by
  unfold skipComma
  split
  · rename_i r
    have := dropSpaces_length r
    simp only [List.length_cons]; omega
  · omega

theorem tokensQ_fuel (f : Nat) (s : Str) (h : s.length < f) : tokensQ f s = tokensQ (f + 1) s := by
  induction f generalizing s with
  | zero => omega
  | succ f ih =>
    cases s with
    | nil => simp [tokensQ]
    | cons c cs =>
      simp only [List.length_cons] at h
      rw [tokensQ, tokensQ]
      by_cases hc : isSep c = true
      · simp only [hc, ↓reduceIte]
        exact ih cs (by omega)
      · have hc' : isSep c = false := by simpa using hc
        simp only [hc', Bool.false_eq_true, ↓reduceIte]
        refine congrArg _ (ih _ ?_)
        have h1 := skipComma_length (skipQ (List.dropWhile notSep (c :: cs)))
        have h2 := skipQ_length (List.dropWhile notSep (c :: cs))
        have h3 : (List.dropWhile notSep (c :: cs)).length ≤ cs.length := by
          have hn : notSep c = true := by simp [notSep, hc]
          rw [List.dropWhile_cons_of_pos hn]
          exact length_dropWhile_le _ _
        omega

/-- any fuel above the length of the header value gives the same token list -/
theorem tokensQ_enough (s : Str) (k : Nat) : tokensQ (s.length + 1 + k) s = tokensQ (s.length + 1) s := by
  induction k with
  | zero => rfl
  | succ k ih => rw [← ih, ← Nat.add_assoc, ← tokensQ_fuel _ _ (by omega)]

theorem dropQuote_length (s : Str) : (dropQuote s).length ≤ s.length := by
  unfold dropQuote
  split <;> simp

theorem stripPrefix_length {p s r : Str} (h : stripPrefix p s = some r) : r.length ≤ s.length := by
  unfold stripPrefix at h
  split at h
  · cases h; simp
  · cases h

theorem takeCharset_length (s : Str) : (takeCharset s).2.length ≤ s.length := by
  unfold takeCharset
  split
  · rename_i r
    split
    · rename_i r1 heq
      have h0 := dropSpaces_length r
      have h1 := stripPrefix_length heq
      have h2 := dropQuote_length r1
      have h3 := length_dropWhile_le notCsStop (dropQuote r1)
      have h4 := dropQuote_length (List.dropWhile notCsStop (dropQuote r1))
      simp only [List.length_cons]
      omega
    · simp
  · simp

theorem tokensC_fuel (f : Nat) (s : Str) (h : s.length < f) : tokensC f s = tokensC (f + 1) s := by
  induction f generalizing s with
  | zero => omega
  | succ f ih =>
    cases s with
    | nil => simp [tokensC]
    | cons c cs =>
      simp only [List.length_cons] at h
      rw [tokensC, tokensC]
      by_cases hc : isSep c = true
      · simp only [hc, ↓reduceIte]
        exact ih cs (by omega)
      · have hc' : isSep c = false := by simpa using hc
        simp only [hc', Bool.false_eq_true, ↓reduceIte]
        refine congrArg _ (ih _ ?_)
        have h1 := skipComma_length (takeCharset (List.dropWhile notSep (c :: cs))).2
        have h2 := takeCharset_length (List.dropWhile notSep (c :: cs))
        have h3 : (List.dropWhile notSep (c :: cs)).length ≤ cs.length := by
          have hn : notSep c = true := by simp [notSep, hc]
          rw [List.dropWhile_cons_of_pos hn]
          exact length_dropWhile_le _ _
        omega

theorem tokensC_enough (s : Str) (k : Nat) : tokensC (s.length + 1 + k) s = tokensC (s.length + 1) s := by
  induction k with
  | zero => rfl
  | succ k ih => rw [← ih, ← Nat.add_assoc, ← tokensC_fuel _ _ (by omega)]

/-! ### the header section on the wire -/

theorem splitCRLF_line (l acc rest : Str) (h : '\r' ∉ l) :
    splitCRLF false acc (l ++ '\r' :: '\n' :: rest) = (acc.reverse ++ l) :: splitCRLF false [] rest := by
  induction l generalizing acc with
  | nil => simp [splitCRLF]
  | cons c l ih =>
    have hc : c ≠ '\r' := fun e => h (by simp [e])
    have hl : '\r' ∉ l := fun e => h (by simp [e])
    simp only [List.cons_append, splitCRLF, Bool.false_and, Bool.false_eq_true, ↓reduceIte, beq_iff_eq, hc]
    rw [ih _ hl]
    simp

theorem splitCRLF_join (ls : List Str) (h : ∀ l ∈ ls, '\r' ∉ l) :
    splitCRLF false [] (joinCRLF ls ++ crlf) = ls ++ [[], []] := by
  induction ls with
  | nil => simp [joinCRLF, crlf, splitCRLF]
  | cons l ls ih =>
    have := splitCRLF_line l [] (joinCRLF ls ++ crlf) (h l (by simp))
    simp only [joinCRLF, crlf, List.append_assoc, List.cons_append, List.nil_append] at this ⊢
    rw [this, ← crlf, ih (fun x hx => h x (by simp [hx]))]
    simp

theorem printable_no_cr {s : Str} (h : printable s = true) : '\r' ∉ s :=
  fun hm => (printableC_not_crlf (printable_mem h hm)).1 rfl

theorem outcome_printable {s : LState} {x : LState × Response} (o : Outcome s x) :
    hdrsPrintable x.2.headers = true ∧ printable x.2.reason = true := by
  cases o with
  | httpError code ce d extra hmem _ =>
    simp only [errTable, List.mem_cons, Prod.mk.injEq, List.mem_nil_iff, or_false] at hmem
    rcases hmem with h | h | h | h | h | h | h | h <;>
      (obtain ⟨rfl, rfl, rfl⟩ := h
       refine ⟨?_, by simp only [httpErrRsp]; decide⟩
       first
         | exact errHeaders_printable _ d _ (ce_ok _ (by decide)) (by decide)
         | exact errHeaders_printable _ d _ ce_none (by decide))
  | cimError msgid m code desc => exact ⟨exportHeaders_printable _, by simp only [exportRsp]; decide⟩
  | accepted msgid inst => exact ⟨exportHeaders_printable _, by simp only [exportRsp]; decide⟩

/-! ### histories -/

/-- what the handler threads and the callback thread keep true of the listener state -/
structure Inv (s : LState) : Prop where
  acc : s.accepted = s.delivered ++ s.queue
  bound : s.cap ≠ 0 → s.queue.length ≤ s.cap

theorem inv_init (cap : Nat) : Inv (LState.init cap) := ⟨rfl, by intro _; simp [LState.init]⟩

theorem outcome_inv {s : LState} {x : LState × Response} (h : Inv s) (o : Outcome s x) :
    Inv x.1 ∧ x.1.cap = s.cap ∧ x.1.delivered = s.delivered := by
  cases o with
  | httpError => exact ⟨h, rfl, rfl⟩
  | cimError => exact ⟨h, rfl, rfl⟩
  | accepted msgid inst hf =>
    refine ⟨⟨?_, ?_⟩, rfl, rfl⟩
    · simp [LState.push, h.acc]
    · intro hc
      simp only [LState.push, List.length_append, List.length_cons, List.length_nil]
      simp only [LState.full, Bool.and_eq_false_iff, bne_eq_false_iff_eq, decide_eq_false_iff_not] at hf
      rcases hf with hf | hf
      · exact absurd hf hc
      · simp only [LState.push] at hc; omega

theorem step_fixed (s : LState) (h : Inv s) (ev : Ev) :
    Inv (step Cfg.fixed s ev).1 ∧ (step Cfg.fixed s ev).1.cap = s.cap ∧
    (∀ e, (step Cfg.fixed s ev).2 ≠ .dropped e) := by
  cases ev with
  | request E r =>
    simp only [step]
    rcases handle_fixed E s r with hn | ⟨x, hx, ho⟩
    · simp only [hn]; exact ⟨h, by first | rfl | trivial, by intro e; simp⟩
    · obtain ⟨s', rsp⟩ := x
      simp only [hx]
      have := outcome_inv h ho
      exact ⟨this.1, this.2.1, by intro e; simp⟩
  | deliver =>
    simp only [step]
    cases hq : s.queue with
    | nil => simp only; exact ⟨h, by first | rfl | trivial, by intro e; simp⟩
    | cons x rest =>
      simp only
      refine ⟨⟨?_, ?_⟩, by first | rfl | trivial, by intro e; simp⟩
      · simp [h.acc, hq]
      · intro hc
        have := h.bound hc
        simp only [hq, List.length_cons] at this
        simp only at hc ⊢
        omega

theorem run_fixed (s : LState) (h : Inv s) (evs : List Ev) :
    Inv (run Cfg.fixed s evs).1 ∧ (run Cfg.fixed s evs).1.cap = s.cap ∧
    (run Cfg.fixed s evs).2.length = evs.length ∧
    (∀ o ∈ (run Cfg.fixed s evs).2, ∀ e, o ≠ .dropped e) := by
  induction evs generalizing s with
  | nil => exact ⟨h, rfl, rfl, by intro o ho; simp [run] at ho⟩
  | cons ev rest ih =>
    have hs := step_fixed s h ev
    have := ih (step Cfg.fixed s ev).1 hs.1
    simp only [run]
    refine ⟨this.1, by rw [this.2.1, hs.2.1], by simp [this.2.2.1], ?_⟩
    intro o ho
    simp only [List.mem_cons] at ho
    rcases ho with rfl | ho
    · exact hs.2.2
    · exact this.2.2.2 o ho

end Proofs.ListenerHttp
