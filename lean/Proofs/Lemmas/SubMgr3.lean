/-
Helper lemmas for C18, part 3: every operation of a manager keeps the store well-formed, keeps its own
lists in agreement with the server and leaves the owned sets of all other manager ids alone.
-/
import Proofs.Lemmas.SubMgr2

namespace Proofs.SubMgr
open Pywbem.Model.SubMgr Pywbem.Proto

/-- `name` carries no marker of a manager id other than `id` -/
def NotOthers (k : Kind) (id name : Str) : Prop := ∀ j, j ≠ id → ':' ∉ j → ¬ ownsSpec k j name
/-- `name` carries no ownership marker at all -/
def NoMarker (k : Kind) (name : Str) : Prop := ∀ j, ':' ∉ j → ¬ ownsSpec k j name

theorem NoMarker.notOthers {k : Kind} {id name : Str} (h : NoMarker k name) : NotOthers k id name :=
  fun j _ hc => h j hc

theorem notOthers_of_owns {k : Kind} {id name : Str} (hc : ':' ∉ id) (h : ownsSpec k id name) :
    NotOthers k id name :=
  fun _ hj hcj h' => hj (ownsSpec_unique hcj hc h' h)

/-- what every operation of manager `id` guarantees: the store stays well-formed, the manager's lists
    agree with the server afterwards, the owned sets of all other ids are untouched -/
structure Good (id : Str) (st : Store) (r : R) : Prop where
  inv : StoreInv r.st
  agree : Agree id r.st r.o
  frame : Frame id st r.st

theorem Good.same {id : Str} {st : Store} {o : Owned} (hi : StoreInv st) (ha : Agree id st o) (out : Res) :
    Good id st ⟨st, o, out⟩ := ⟨hi, ha, Frame.refl id st⟩

theorem Good.trans {id : Str} {st : Store} {r1 r2 : R} (h1 : Good id st r1) (h2 : Good id r1.st r2) :
    Good id st r2 := ⟨h2.inv, h2.agree, h1.frame.trans h2.frame⟩

/-! ### add_filter -/

theorem good_addFilter {id : Str} {st : Store} {o : Owned} (hi : StoreInv st) (ha : Agree id st o)
    (hc : ':' ∉ id) (reg owned : Bool) (fid name : Option Str)
    (wb : owned = false → NoMarker .filt (name.getD [])) :
    Good id st (stepAddFilter reg id st o owned fid name) := by
  unfold stepAddFilter
  by_cases h1 : argErr owned fid name = true
  · simp only [h1, if_true]; exact Good.same hi ha _
  by_cases h2 : filterIdBad fid = true
  · simp only [h1, h2, if_true]; exact Good.same hi ha _
  cases reg with
  | false => simp only [h1, h2, Bool.not_false, if_true, if_false]; exact Good.same hi ha _
  | true =>
    by_cases h4 : st.filts.any (fun f => f.path.name == filterName id fid name) = true
    · simp only [h1, h2, h4, Bool.not_true, Bool.false_eq_true, if_true, if_false]; exact Good.same hi ha _
    simp only [h1, h2, h4, Bool.not_true, Bool.false_eq_true, if_false]
    cases hcr : createFilt st (filterName id fid name) with
    | error e => exact Good.same hi ha _
    | ok p =>
      obtain ⟨st', f⟩ := p
      obtain ⟨hf, hnew, rfl⟩ := createFilt_ok hcr
      have hi' := hi.addFilt f hnew
      have hfn : f.path.name = filterName id fid name := by rw [hf]
      have hnotin : f ∉ st.filts := fun hm => by
        have : st.hasFilt f.path = true := hasFilt_iff.mpr ⟨f, hm, rfl⟩
        simp [hnew] at this
      obtain ⟨lf, hlf, hnd, hmem⟩ := ha.of
      -- who owns the new Name
      have hown : ∀ j, ':' ∉ j → (ownsSpec .filt j f.path.name ↔ (fid.isSome = true ∧ j = id)) := by
        intro j hj
        rw [hfn]
        cases fid with
        | none =>
          have hown' : owned = false := by
            cases owned <;> simp_all [argErr]
          simp only [filterName, Option.isSome_none, Bool.false_eq_true, if_false, false_and, iff_false]
          exact wb hown' j hj
        | some x =>
          have hx : ':' ∉ x := by
            simpa [filterIdBad, Pywbem.Generated.SubMgr.filterIdColonRejected] using h2
          simp only [filterName, Option.isSome_some, if_true, Option.getD_some, true_and]
          exact ownsSpec_mkName_iff .filt id j x hc hj hx
      have hframe : Frame id st { st with filts := st.filts ++ [f] } := by
        refine ⟨fun _ _ _ _ => Iff.rfl, ?_, fun _ _ _ _ => Iff.rfl⟩
        intro j hj hcj x
        simp only [List.mem_append, List.mem_singleton]
        constructor
        · rintro ⟨hx | rfl, ho⟩
          · exact ⟨hx, ho⟩
          · exact absurd ((hown j hcj).mp ho).2 hj
        · rintro ⟨hx, ho⟩; exact ⟨Or.inl hx, ho⟩
      by_cases hs : fid.isSome = true
      · simp only [hs, if_true, hlf]
        refine ⟨hi', ⟨ha.od, ⟨_, rfl, nodup_snoc hnd (fun hm => hnotin ((hmem f).mp hm).1), ?_⟩, ha.os⟩, hframe⟩
        intro x
        simp only [List.mem_append, List.mem_singleton, hmem]
        constructor
        · rintro (⟨hx, ho⟩ | rfl)
          · exact ⟨Or.inl hx, ho⟩
          · exact ⟨Or.inr rfl, (hown id hc).mpr ⟨hs, rfl⟩⟩
        · rintro ⟨hx | rfl, ho⟩
          · exact Or.inl ⟨hx, ho⟩
          · exact Or.inr rfl
      · simp only [hs, Bool.false_eq_true, if_false]
        refine ⟨hi', ⟨ha.od, ⟨lf, hlf, hnd, ?_⟩, ha.os⟩, hframe⟩
        intro x
        simp only [List.mem_append, List.mem_singleton, hmem]
        constructor
        · rintro ⟨hx, ho⟩; exact ⟨Or.inl hx, ho⟩
        · rintro ⟨hx | rfl, ho⟩
          · exact ⟨hx, ho⟩
          · exact absurd ((hown id hc).mp ho).1 hs

/-! ### add_destination -/

theorem good_addDest {id : Str} {st : Store} {o : Owned} (hi : StoreInv st) (ha : Agree id st o)
    (hc : ':' ∉ id) (reg : Bool) (a : DestArgs)
    (wb : a.owned = false → NoMarker .dest (a.name.getD [])) :
    Good id st (stepAddDest reg id st o a) := by
  unfold stepAddDest
  by_cases h1 : argErr a.owned a.destId a.name = true
  · simp only [h1, if_true]; exact Good.same hi ha _
  by_cases h2 : destIdBad a.destId = true
  · simp only [h1, h2, if_true]; exact Good.same hi ha _
  simp only [h1, h2, Bool.false_eq_true, if_false]
  cases hv : validatePT a.pt with
  | error e => exact Good.same hi ha _
  | ok ptv0 =>
    simp only []
    cases reg with
    | false => simp only [Bool.not_false, if_true]; exact Good.same hi ha _
    | true =>
      simp only [Bool.not_true, Bool.false_eq_true, if_false]
      cases hu : a.url with
      | none => exact Good.same hi ha _
      | some url =>
        simp only []
        by_cases h4 : st.dests.any (fun d => d.path.name == destName id a) = true
        · simp only [h4, if_true]; exact Good.same hi ha _
        simp only [h4, Bool.false_eq_true, if_false]
        obtain ⟨ld, hld, hnd, hmem⟩ := ha.od
        -- effect of a successful CreateInstance
        have hcreate : ∀ st' d, createDest st (destName id a) url (effPT a ptv0) = .ok (st', d) →
            (StoreInv st' ∧ Frame id st st' ∧ d ∉ st.dests ∧ st' = { st with dests := st.dests ++ [d] } ∧
             (ownsSpec .dest id d.path.name ↔ a.owned = true)) := by
          intro st' d hcr
          obtain ⟨hp, hnew, rfl⟩ := createDest_ok hcr
          have hnotin : d ∉ st.dests := fun hm => by
            have : st.hasDest d.path = true := hasDest_iff.mpr ⟨d, hm, rfl⟩
            simp [hnew] at this
          have hown : ∀ j, ':' ∉ j → (ownsSpec .dest j d.path.name ↔ (a.owned = true ∧ j = id)) := by
            intro j hj
            rw [hp]
            show ownsSpec .dest j (destName id a) ↔ _
            cases hown' : a.owned with
            | false =>
              simp only [destName, hown', Bool.false_eq_true, if_false, false_and, iff_false]
              exact wb hown' j hj
            | true =>
              have hsome : a.destId.isSome = true := by
                cases hd : a.destId <;> simp_all [argErr]
              obtain ⟨x, hx⟩ := Option.isSome_iff_exists.mp hsome
              have hxc : ':' ∉ x := by
                simpa [destIdBad, hx, Pywbem.Generated.SubMgr.destIdColonRejected] using h2
              simp only [destName, hown', if_true, hx, Option.getD_some, true_and]
              exact ownsSpec_mkName_iff .dest id j x hc hj hxc
          refine ⟨hi.addDest d hnew, ?_, hnotin, rfl, ?_⟩
          · refine ⟨?_, fun _ _ _ _ => Iff.rfl, fun _ _ _ _ => Iff.rfl⟩
            intro j hj hcj x
            simp only [List.mem_append, List.mem_singleton]
            constructor
            · rintro ⟨hx | rfl, ho⟩
              · exact ⟨hx, ho⟩
              · exact absurd ((hown j hcj).mp ho).2 hj
            · rintro ⟨hx, ho⟩; exact ⟨Or.inl hx, ho⟩
          · rw [hown id hc]; simp
        cases how : a.owned with
        | true =>
          simp only [if_true, hld]
          cases hfd : findDup url (effPT a ptv0) ld with
          | error e => exact Good.same hi ha _
          | ok r =>
            cases r with
            | some d => exact Good.same hi ha _
            | none =>
              simp only []
              cases hcr : createDest st (destName id a) url (effPT a ptv0) with
              | error e => exact Good.same hi ha _
              | ok p =>
                obtain ⟨st', d⟩ := p
                obtain ⟨hi', hfr, hnotin, rfl, hown⟩ := hcreate st' d hcr
                refine ⟨hi', ⟨⟨_, rfl, nodup_snoc hnd (fun hm => hnotin ((hmem d).mp hm).1), ?_⟩, ha.of, ha.os⟩, hfr⟩
                intro x
                simp only [List.mem_append, List.mem_singleton, hmem]
                constructor
                · rintro (⟨hx, ho⟩ | rfl)
                  · exact ⟨Or.inl hx, ho⟩
                  · exact ⟨Or.inr rfl, hown.mpr how⟩
                · rintro ⟨hx | rfl, ho⟩
                  · exact Or.inl ⟨hx, ho⟩
                  · exact Or.inr rfl
        | false =>
          simp only [Bool.false_eq_true, if_false]
          cases hcr : createDest st (destName id a) url (effPT a ptv0) with
          | error e => exact Good.same hi ha _
          | ok p =>
            obtain ⟨st', d⟩ := p
            obtain ⟨hi', hfr, hnotin, rfl, hown⟩ := hcreate st' d hcr
            refine ⟨hi', ⟨⟨ld, hld, hnd, ?_⟩, ha.of, ha.os⟩, hfr⟩
            intro x
            simp only [List.mem_append, List.mem_singleton, hmem]
            constructor
            · rintro ⟨hx, ho⟩; exact ⟨Or.inl hx, ho⟩
            · rintro ⟨hx | rfl, ho⟩
              · exact ⟨hx, ho⟩
              · have := hown.mp ho; simp [how] at this

/-! ### add_subscriptions -/

theorem good_addSub1 {id : Str} {st : Store} {o : Owned} (hi : StoreInv st) (ha : Agree id st o)
    (hc : ':' ∉ id) (reg : Bool) (f d : Path) (owned : Bool)
    (wf : NotOthers .filt id f.name) (wd : NotOthers .dest id d.name)
    (wo : owned = true → ownsSpec .filt id f.name ∨ ownsSpec .dest id d.name) :
    Good id st (stepAddSub1 reg id st o f d owned) := by
  unfold stepAddSub1
  obtain ⟨ld, hld, hndd, hmemd⟩ := ha.od
  obtain ⟨lf, hlf, hndf, hmemf⟩ := ha.of
  obtain ⟨ls, hls, hnds, hmems⟩ := ha.os
  simp only [hld, hlf]
  by_cases h1 : (!owned && lf.any (fun x => x.path == f)) = true
  · simp only [h1, if_true]; exact Good.same hi ha _
  by_cases h2 : (!owned && ld.any (fun x => x.path == d)) = true
  · simp only [h1, h2, if_true]; exact Good.same hi ha _
  simp only [h1, h2, Bool.false_eq_true, if_false]
  cases reg with
  | false => simp only [Bool.not_false, if_true]; exact Good.same hi ha _
  | true =>
    simp only [Bool.not_true, Bool.false_eq_true, if_false]
    -- effect of a successful CreateInstance of the subscription with ghost owner g
    cases how : owned with
    | true =>
      simp only [if_true, hls]
      cases hfind : ls.find? (fun s => s.filter == f && s.handler == d) with
      | some s => exact Good.same hi ha _
      | none =>
        simp only []
        cases hcr : createSub st f d (some id) with
        | error e => exact Good.same hi ha _
        | ok p =>
          obtain ⟨st', s⟩ := p
          obtain ⟨rfl, hf, hd, hnew, rfl⟩ := createSub_ok hcr
          have hg : GhostOk ⟨f, d, some id⟩ := by
            refine ⟨fun i e => by simp at e; subst e; exact hc, fun i hci => ?_⟩
            constructor
            · intro e; simp at e; subst e; exact wo how
            · intro h
              by_cases e : i = id
              · rw [e]
              · rcases h with h | h
                · exact absurd h (wf i e hci)
                · exact absurd h (wd i e hci)
          have hnotin : (⟨f, d, some id⟩ : Sub) ∉ st.subs := fun hm => by
            have : st.hasSub f d = true := hasSub_iff.mpr ⟨_, hm, rfl, rfl⟩
            simp [hnew] at this
          refine ⟨hi.addSub _ hf hd hnew hg,
            ⟨⟨ld, rfl, hndd, hmemd⟩, ⟨lf, rfl, hndf, hmemf⟩, ⟨_, rfl, nodup_snoc hnds (fun hm => hnotin ((hmems _).mp hm).1), ?_⟩⟩, ?_⟩
          · intro x
            simp only [List.mem_append, List.mem_singleton, hmems]
            constructor
            · rintro (⟨hx, ho⟩ | rfl)
              · exact ⟨Or.inl hx, ho⟩
              · exact ⟨Or.inr rfl, rfl⟩
            · rintro ⟨hx | rfl, ho⟩
              · exact Or.inl ⟨hx, ho⟩
              · exact Or.inr rfl
          · refine ⟨fun _ _ _ _ => Iff.rfl, fun _ _ _ _ => Iff.rfl, ?_⟩
            intro j hj hcj x
            simp only [List.mem_append, List.mem_singleton]
            constructor
            · rintro ⟨hx | rfl, ho⟩
              · exact ⟨hx, ho⟩
              · simp at ho; exact absurd ho.symm hj
            · rintro ⟨hx, ho⟩; exact ⟨Or.inl hx, ho⟩
    | false =>
      simp only [Bool.false_eq_true, if_false]
      cases hcr : createSub st f d none with
      | error e => exact Good.same hi ha _
      | ok p =>
        obtain ⟨st', s⟩ := p
        obtain ⟨rfl, hf, hd, hnew, rfl⟩ := createSub_ok hcr
        have hnf : ¬ ownsSpec .filt id f.name := by
          intro h
          obtain ⟨x, hx, e⟩ := hasFilt_iff.mp hf
          have : x ∈ lf := (hmemf x).mpr ⟨hx, e ▸ h⟩
          have : lf.any (fun y => y.path == f) = true := List.any_eq_true.mpr ⟨x, this, by simp [e]⟩
          simp [how, this] at h1
        have hnd : ¬ ownsSpec .dest id d.name := by
          intro h
          obtain ⟨x, hx, e⟩ := hasDest_iff.mp hd
          have : x ∈ ld := (hmemd x).mpr ⟨hx, e ▸ h⟩
          have : ld.any (fun y => y.path == d) = true := List.any_eq_true.mpr ⟨x, this, by simp [e]⟩
          simp [how, this] at h2
        have hg : GhostOk ⟨f, d, none⟩ := by
          refine ⟨fun i e => by simp at e, fun i hci => ?_⟩
          constructor
          · intro e; simp at e
          · intro h
            by_cases e : i = id
            · subst e; rcases h with h | h
              · exact absurd h hnf
              · exact absurd h hnd
            · rcases h with h | h
              · exact absurd h (wf i e hci)
              · exact absurd h (wd i e hci)
        refine ⟨hi.addSub _ hf hd hnew hg, ⟨⟨ld, hld, hndd, hmemd⟩, ⟨lf, hlf, hndf, hmemf⟩, ⟨ls, hls, hnds, ?_⟩⟩, ?_⟩
        · intro x
          simp only [List.mem_append, List.mem_singleton, hmems]
          constructor
          · rintro ⟨hx, ho⟩; exact ⟨Or.inl hx, ho⟩
          · rintro ⟨hx | rfl, ho⟩
            · exact ⟨hx, ho⟩
            · simp at ho
        · refine ⟨fun _ _ _ _ => Iff.rfl, fun _ _ _ _ => Iff.rfl, ?_⟩
          intro j hj hcj x
          simp only [List.mem_append, List.mem_singleton]
          constructor
          · rintro ⟨hx | rfl, ho⟩
            · exact ⟨hx, ho⟩
            · simp at ho
          · rintro ⟨hx, ho⟩; exact ⟨Or.inl hx, ho⟩

theorem good_addSubList {id : Str} (hc : ':' ∉ id) (reg : Bool) (f : Path) (owned : Bool)
    (wf : NotOthers .filt id f.name) :
    ∀ (ds : List Path) (st : Store) (o : Owned) (acc : List Sub), StoreInv st → Agree id st o →
      (∀ d ∈ ds, NotOthers .dest id d.name ∧
        (owned = true → ownsSpec .filt id f.name ∨ ownsSpec .dest id d.name)) →
      Good id st (stepAddSubList reg id f owned st o ds acc) := by
  intro ds
  induction ds with
  | nil => intro st o acc hi ha _; exact Good.same hi ha _
  | cons d rest ih =>
    intro st o acc hi ha hw
    have h1 := good_addSub1 hi ha hc reg f d owned wf (hw d (by simp)).1 (hw d (by simp)).2
    unfold stepAddSubList
    generalize stepAddSub1 reg id st o f d owned = r1 at h1
    obtain ⟨st1, o1, out1⟩ := r1
    cases out1 with
    | subs l =>
      simp only []
      exact h1.trans (ih st1 o1 (acc ++ l) h1.inv h1.agree (fun x hx => hw x (by simp [hx])))
    | _ => exact h1

theorem good_addSubs {id : Str} {st : Store} {o : Owned} (hi : StoreInv st) (ha : Agree id st o)
    (hc : ':' ∉ id) (reg : Bool) (f : Path) (sel : DestSel) (owned : Bool)
    (wf : NotOthers .filt id f.name)
    (wd : ∀ d, (sel = .one d ∨ ∃ ps, sel = .many ps ∧ d ∈ ps) → NotOthers .dest id d.name ∧
        (owned = true → ownsSpec .filt id f.name ∨ ownsSpec .dest id d.name)) :
    Good id st (stepAddSubs reg id st o f sel owned) := by
  unfold stepAddSubs
  obtain ⟨ld, hld, hndd, hmemd⟩ := ha.od
  simp only [hld]
  cases sel with
  | all =>
    refine good_addSubList hc reg f owned wf _ st o [] hi ha ?_
    intro d hd
    simp only [List.mem_map] at hd
    obtain ⟨x, hx, rfl⟩ := hd
    have hown := ((hmemd x).mp hx).2
    exact ⟨notOthers_of_owns hc hown, fun _ => Or.inr hown⟩
  | many ps => exact good_addSubList hc reg f owned wf ps st o [] hi ha (fun d hd => wd d (Or.inr ⟨ps, rfl, hd⟩))
  | one p =>
    obtain ⟨w1, w2⟩ := wd p (Or.inl rfl)
    exact good_addSub1 hi ha hc reg f p owned wf w1 w2

/-! ### removals -/

theorem good_removeFilter {id : Str} {st : Store} {o : Owned} (hi : StoreInv st) (ha : Agree id st o)
    (reg : Bool) (p : Path) (wp : NotOthers .filt id p.name) :
    Good id st (stepRemoveFilter reg st o p) := by
  unfold stepRemoveFilter
  cases reg with
  | false => exact Good.same hi ha _
  | true =>
    simp only [Bool.not_true, Bool.false_eq_true, if_false]
    by_cases h1 : st.filtReferenced p = true
    · simp only [h1, if_true]; exact Good.same hi ha _
    simp only [h1, Bool.false_eq_true, if_false]
    cases hd : delFilt st p with
    | error e => exact Good.same hi ha _
    | ok st' =>
      obtain ⟨_, hr, rfl⟩ := delFilt_ok hd
      obtain ⟨lf, hlf, hnd, hmem⟩ := ha.of
      simp only [hlf]
      refine ⟨hi.delFilt p hr, ⟨ha.od, ⟨_, rfl, hnd.sublist List.filter_sublist, ?_⟩, ha.os⟩, ?_⟩
      · intro x
        simp only [List.mem_filter, hmem]
        constructor
        · rintro ⟨⟨hx, ho⟩, hp⟩; exact ⟨⟨hx, hp⟩, ho⟩
        · rintro ⟨⟨hx, hp⟩, ho⟩; exact ⟨⟨hx, ho⟩, hp⟩
      · refine ⟨fun _ _ _ _ => Iff.rfl, ?_, fun _ _ _ _ => Iff.rfl⟩
        intro j hj hcj x
        simp only [List.mem_filter, bne_iff_ne, ne_eq]
        constructor
        · rintro ⟨⟨hx, _⟩, ho⟩; exact ⟨hx, ho⟩
        · rintro ⟨hx, ho⟩; exact ⟨⟨hx, fun e => wp j hj hcj (e ▸ ho)⟩, ho⟩

theorem good_removeDest1 {id : Str} {st : Store} {o : Owned} (hi : StoreInv st) (ha : Agree id st o)
    (reg : Bool) (p : Path) (wp : NotOthers .dest id p.name) :
    Good id st (stepRemoveDest1 reg st o p) := by
  unfold stepRemoveDest1
  cases reg with
  | false => exact Good.same hi ha _
  | true =>
    simp only [Bool.not_true, Bool.false_eq_true, if_false]
    by_cases h1 : st.destReferenced p = true
    · simp only [h1, if_true]; exact Good.same hi ha _
    simp only [h1, Bool.false_eq_true, if_false]
    cases hd : delDest st p with
    | error e => exact Good.same hi ha _
    | ok st' =>
      obtain ⟨_, hr, rfl⟩ := delDest_ok hd
      obtain ⟨ld, hld, hnd, hmem⟩ := ha.od
      simp only [hld]
      refine ⟨hi.delDest p hr, ⟨⟨_, rfl, hnd.sublist List.filter_sublist, ?_⟩, ha.of, ha.os⟩, ?_⟩
      · intro x
        simp only [List.mem_filter, hmem]
        constructor
        · rintro ⟨⟨hx, ho⟩, hp⟩; exact ⟨⟨hx, hp⟩, ho⟩
        · rintro ⟨⟨hx, hp⟩, ho⟩; exact ⟨⟨hx, ho⟩, hp⟩
      · refine ⟨?_, fun _ _ _ _ => Iff.rfl, fun _ _ _ _ => Iff.rfl⟩
        intro j hj hcj x
        simp only [List.mem_filter, bne_iff_ne, ne_eq]
        constructor
        · rintro ⟨⟨hx, _⟩, ho⟩; exact ⟨hx, ho⟩
        · rintro ⟨hx, ho⟩; exact ⟨⟨hx, fun e => wp j hj hcj (e ▸ ho)⟩, ho⟩

theorem good_removeDestList {id : Str} (reg : Bool) :
    ∀ (ps : List Path) (st : Store) (o : Owned), StoreInv st → Agree id st o →
      (∀ p ∈ ps, NotOthers .dest id p.name) → Good id st (stepRemoveDestList reg st o ps) := by
  intro ps
  induction ps with
  | nil => intro st o hi ha _; exact Good.same hi ha _
  | cons p rest ih =>
    intro st o hi ha hw
    have h1 := good_removeDest1 hi ha reg p (hw p (by simp))
    unfold stepRemoveDestList
    generalize stepRemoveDest1 reg st o p = r1 at h1
    obtain ⟨st1, o1, out1⟩ := r1
    cases out1 with
    | done =>
      simp only []
      exact h1.trans (ih st1 o1 h1.inv h1.agree (fun x hx => hw x (by simp [hx])))
    | _ => exact h1

theorem good_removeDests {id : Str} {st : Store} {o : Owned} (hi : StoreInv st) (ha : Agree id st o)
    (reg : Bool) (sel : PathSel)
    (wp : ∀ p, (sel = .one p ∨ ∃ ps, sel = .many ps ∧ p ∈ ps) → NotOthers .dest id p.name) :
    Good id st (stepRemoveDests reg st o sel) := by
  unfold stepRemoveDests
  cases reg with
  | false => exact Good.same hi ha _
  | true =>
    simp only [Bool.not_true, Bool.false_eq_true, if_false]
    cases sel with
    | one p => exact good_removeDest1 hi ha true p (wp p (Or.inl rfl))
    | many ps => exact good_removeDestList true ps st o hi ha (fun p hp => wp p (Or.inr ⟨ps, rfl, hp⟩))

theorem good_removeSub1 {id : Str} {st : Store} {o : Owned} (hi : StoreInv st) (ha : Agree id st o)
    (reg : Bool) (f h : Path) (wf : NotOthers .filt id f.name) (wh : NotOthers .dest id h.name) :
    Good id st (stepRemoveSub1 reg st o f h) := by
  unfold stepRemoveSub1
  cases reg with
  | false => exact Good.same hi ha _
  | true =>
    simp only [Bool.not_true, Bool.false_eq_true, if_false]
    cases hd : delSub st f h with
    | error e => exact Good.same hi ha _
    | ok st' =>
      obtain ⟨_, rfl⟩ := delSub_ok hd
      obtain ⟨ls, hls, hnd, hmem⟩ := ha.os
      simp only [hls]
      refine ⟨hi.filterSubs _, ⟨ha.od, ha.of, ⟨_, rfl, hnd.sublist List.filter_sublist, ?_⟩⟩, ?_⟩
      · intro x
        simp only [List.mem_filter, hmem]
        constructor
        · rintro ⟨⟨hx, ho⟩, hp⟩; exact ⟨⟨hx, hp⟩, ho⟩
        · rintro ⟨⟨hx, hp⟩, ho⟩; exact ⟨⟨hx, ho⟩, hp⟩
      · refine ⟨fun _ _ _ _ => Iff.rfl, fun _ _ _ _ => Iff.rfl, ?_⟩
        intro j hj hcj x
        simp only [List.mem_filter]
        constructor
        · rintro ⟨⟨hx, _⟩, ho⟩; exact ⟨hx, ho⟩
        · rintro ⟨hx, ho⟩
          refine ⟨⟨hx, ?_⟩, ho⟩
          simp only [Bool.not_eq_true', Bool.and_eq_false_iff, beq_eq_false_iff_ne, ne_eq]
          by_cases e1 : x.filter = f
          · right
            intro e2
            rcases ((hi.ghost x hx).2 j hcj).mp ho with g | g
            · exact wf j hj hcj (e1 ▸ g)
            · exact wh j hj hcj (e2 ▸ g)
          · left; exact e1

theorem good_removeSubList {id : Str} (reg : Bool) :
    ∀ (ps : List (Path × Path)) (st : Store) (o : Owned), StoreInv st → Agree id st o →
      (∀ p ∈ ps, NotOthers .filt id p.1.name ∧ NotOthers .dest id p.2.name) →
      Good id st (stepRemoveSubList reg st o ps) := by
  intro ps
  induction ps with
  | nil => intro st o hi ha _; exact Good.same hi ha _
  | cons p rest ih =>
    intro st o hi ha hw
    have h1 := good_removeSub1 hi ha reg p.1 p.2 (hw p (by simp)).1 (hw p (by simp)).2
    unfold stepRemoveSubList
    generalize stepRemoveSub1 reg st o p.1 p.2 = r1 at h1
    obtain ⟨st1, o1, out1⟩ := r1
    cases out1 with
    | done =>
      simp only []
      exact h1.trans (ih st1 o1 h1.inv h1.agree (fun x hx => hw x (by simp [hx])))
    | _ => exact h1

theorem good_removeSubs {id : Str} {st : Store} {o : Owned} (hi : StoreInv st) (ha : Agree id st o)
    (reg : Bool) (sel : SubSel)
    (wp : ∀ f h, (sel = .one f h ∨ ∃ ps, sel = .many ps ∧ (f, h) ∈ ps) →
      NotOthers .filt id f.name ∧ NotOthers .dest id h.name) :
    Good id st (stepRemoveSubs reg st o sel) := by
  unfold stepRemoveSubs
  cases reg with
  | false => exact Good.same hi ha _
  | true =>
    simp only [Bool.not_true, Bool.false_eq_true, if_false]
    cases sel with
    | one f h => exact good_removeSub1 hi ha true f h (wp f h (Or.inl rfl)).1 (wp f h (Or.inl rfl)).2
    | many ps =>
      exact good_removeSubList true ps st o hi ha (fun p hp => wp p.1 p.2 (Or.inr ⟨ps, rfl, by simpa using hp⟩))

/-! ### remove_server, add_server -/

theorem purge_inv {id : Str} {st : Store} (hi : StoreInv st) (hc : ':' ∉ id) : StoreInv (purge id st) := by
  have hrem : ∀ s ∈ (purge id st).subs,
      s ∈ st.subs ∧ ¬ ownsSpec .filt id s.filter.name ∧ ¬ ownsSpec .dest id s.handler.name := by
    intro s hs
    simp only [purge, List.mem_filter, Bool.not_eq_true', decide_eq_false_iff_not] at hs
    have hg := ((hi.ghost s hs.1).2 id hc)
    exact ⟨hs.1, fun h => hs.2 (hg.mpr (Or.inl h)), fun h => hs.2 (hg.mpr (Or.inr h))⟩
  refine ⟨List.Nodup.sublist (List.Sublist.map _ List.filter_sublist) hi.fnd,
          List.Nodup.sublist (List.Sublist.map _ List.filter_sublist) hi.dnd,
          List.Nodup.sublist (List.Sublist.map _ List.filter_sublist) hi.snd, ?_, ?_⟩
  · intro s hs
    obtain ⟨hs0, hnf, hnd⟩ := hrem s hs
    obtain ⟨r1, r2⟩ := hi.refs s hs0
    obtain ⟨f, hf, e⟩ := hasFilt_iff.mp r1
    obtain ⟨d, hd, e'⟩ := hasDest_iff.mp r2
    refine ⟨hasFilt_iff.mpr ⟨f, ?_, e⟩, hasDest_iff.mpr ⟨d, ?_, e'⟩⟩
    · simp only [purge, List.mem_filter, Bool.not_eq_true', decide_eq_false_iff_not]
      exact ⟨hf, fun h => hnf (e ▸ h)⟩
    · simp only [purge, List.mem_filter, Bool.not_eq_true', decide_eq_false_iff_not]
      exact ⟨hd, fun h => hnd (e' ▸ h)⟩
  · intro s hs; exact hi.ghost s (hrem s hs).1

theorem purge_frame {id : Str} {st : Store} (hc : ':' ∉ id) : Frame id st (purge id st) := by
  refine ⟨?_, ?_, ?_⟩
  · intro j hj hcj x
    simp only [purge, List.mem_filter, Bool.not_eq_true', decide_eq_false_iff_not]
    constructor
    · rintro ⟨⟨hx, _⟩, ho⟩; exact ⟨hx, ho⟩
    · rintro ⟨hx, ho⟩; exact ⟨⟨hx, fun h => hj (ownsSpec_unique hcj hc ho h)⟩, ho⟩
  · intro j hj hcj x
    simp only [purge, List.mem_filter, Bool.not_eq_true', decide_eq_false_iff_not]
    constructor
    · rintro ⟨⟨hx, _⟩, ho⟩; exact ⟨hx, ho⟩
    · rintro ⟨hx, ho⟩; exact ⟨⟨hx, fun h => hj (ownsSpec_unique hcj hc ho h)⟩, ho⟩
  · intro j hj hcj x
    simp only [purge, List.mem_filter, Bool.not_eq_true', decide_eq_false_iff_not]
    constructor
    · rintro ⟨⟨hx, _⟩, ho⟩; exact ⟨hx, ho⟩
    · rintro ⟨hx, ho⟩; exact ⟨⟨hx, fun h => hj (by rw [ho] at h; exact Option.some.inj h)⟩, ho⟩

end Proofs.SubMgr
