/-
Lemmas about the NocaseDict operations (Model/NocaseDict.lean): lookup after set / delete, position and invariant
preservation, extensionality of `==` (equal lookup functions), congruence of `==` under the operations.
-/
import Pywbem.Model.NocaseDict
import Proofs.Lemmas.EqNorm

namespace Proofs.Eq
open Pywbem.Model.Eq Pywbem.Generated.Slots Pywbem.Proto

/-! ### __setitem__ -/

theorem lookup_dSet (C : CaseOps) (k : Key) (v : Obj) (k' : Key) : ∀ es : Items,
    lookup C k' (dSet C k v es) = if ckey C k = ckey C k' then some v else lookup C k' es
  | [] => by simp [dSet, lookup]
  | (k0, w) :: es => by
    by_cases h0 : ckey C k0 = ckey C k
    · simp only [dSet, h0, if_true, lookup]
      by_cases h1 : ckey C k = ckey C k'
      · simp [h1]
      · simp [h1]
    · simp only [dSet, h0, if_false, lookup, lookup_dSet C k v k' es]
      by_cases h1 : ckey C k = ckey C k'
      · have : ckey C k0 ≠ ckey C k' := fun h => h0 (h.trans h1.symm)
        simp [h1, this]
      · simp [h1]

theorem keysOf_dSet_mem (C : CaseOps) (k : Key) (v : Obj) : ∀ es : Items, ckey C k ∈ keysOf C es →
    keysOf C (dSet C k v es) = keysOf C es
  | [], h => by simp [keysOf] at h
  | (k0, w) :: es, h => by
    by_cases h0 : ckey C k0 = ckey C k
    · simp [dSet, h0, keysOf]
    · have hm : ckey C k ∈ keysOf C es := by
        simp only [keysOf, List.map_cons, List.mem_cons] at h
        rcases h with h | h
        · exact absurd h.symm h0
        · exact h
      have ih := keysOf_dSet_mem C k v es hm
      simp only [keysOf] at ih
      simp [dSet, h0, keysOf, ih]

theorem keysOf_dSet_not_mem (C : CaseOps) (k : Key) (v : Obj) : ∀ es : Items, ckey C k ∉ keysOf C es →
    keysOf C (dSet C k v es) = keysOf C es ++ [ckey C k]
  | [], _ => by simp [dSet, keysOf]
  | (k0, w) :: es, h => by
    simp only [keysOf, List.map_cons, List.mem_cons, not_or] at h
    have h0 : ¬ ckey C k0 = ckey C k := fun x => h.1 x.symm
    have ih := keysOf_dSet_not_mem C k v es h.2
    simp only [keysOf] at ih
    simp [dSet, h0, keysOf, ih]

theorem nodup_dSet (C : CaseOps) (k : Key) (v : Obj) (es : Items) (h : (keysOf C es).Nodup) :
    (keysOf C (dSet C k v es)).Nodup := by
  by_cases hm : ckey C k ∈ keysOf C es
  · rw [keysOf_dSet_mem C k v es hm]; exact h
  · rw [keysOf_dSet_not_mem C k v es hm, List.nodup_append]
    exact ⟨h, by simp, by intro a ha b hb; simp at hb; subst hb; exact fun hab => hm (hab ▸ ha)⟩

theorem length_dSet_mem (C : CaseOps) (k : Key) (v : Obj) (es : Items) (hm : ckey C k ∈ keysOf C es) :
    (dSet C k v es).length = es.length := by
  have := congrArg List.length (keysOf_dSet_mem C k v es hm)
  simpa [keysOf] using this

theorem length_dSet_not_mem (C : CaseOps) (k : Key) (v : Obj) (es : Items) (hm : ckey C k ∉ keysOf C es) :
    (dSet C k v es).length = es.length + 1 := by
  have := congrArg List.length (keysOf_dSet_not_mem C k v es hm)
  simpa [keysOf] using this

theorem mem_dSet_value (C : CaseOps) (k : Key) (v : Obj) : ∀ (es : Items) (e : Key × Obj),
    e ∈ dSet C k v es → e = (k, v) ∨ e ∈ es
  | [], e, h => by simp [dSet] at h; exact Or.inl h
  | (k0, w) :: es, e, h => by
    by_cases h0 : ckey C k0 = ckey C k
    · simp [dSet, h0] at h
      rcases h with h | h
      · exact Or.inl h
      · exact Or.inr (by simp [h])
    · simp [dSet, h0] at h
      rcases h with h | h
      · exact Or.inr (by simp [h])
      · rcases mem_dSet_value C k v es e h with h | h
        · exact Or.inl h
        · exact Or.inr (by simp [h])

/-! ### __delitem__ / pop -/

theorem keysOf_dErase_sublist (C : CaseOps) (k : Key) : ∀ es : Items,
    (keysOf C (dErase C k es)).Sublist (keysOf C es)
  | [] => by simp [dErase, keysOf]
  | (k0, w) :: es => by
    by_cases h0 : ckey C k0 = ckey C k
    · simp [dErase, h0, keysOf]
    · simp only [dErase, h0, if_false, keysOf, List.map_cons]
      exact List.Sublist.cons_cons _ (keysOf_dErase_sublist C k es)

theorem mem_dErase (C : CaseOps) (k : Key) : ∀ (es : Items) (e : Key × Obj), e ∈ dErase C k es → e ∈ es
  | [], _, h => by simp [dErase] at h
  | (k0, w) :: es, e, h => by
    by_cases h0 : ckey C k0 = ckey C k
    · simp [dErase, h0] at h; simp [h]
    · simp [dErase, h0] at h
      rcases h with h | h
      · simp [h]
      · simp [mem_dErase C k es e h]

theorem lookup_dErase (C : CaseOps) (k k' : Key) : ∀ es : Items, (keysOf C es).Nodup →
    lookup C k' (dErase C k es) = if ckey C k = ckey C k' then Option.none else lookup C k' es
  | [], _ => by simp [dErase, lookup]
  | (k0, w) :: es, hn => by
    simp only [keysOf, List.map_cons, List.nodup_cons] at hn
    by_cases h0 : ckey C k0 = ckey C k
    · simp only [dErase, h0, if_true, lookup]
      by_cases h1 : ckey C k = ckey C k'
      · simp only [h1, if_true]
        apply lookup_none_of_not_mem
        rw [← h1, ← h0]; exact hn.1
      · simp [h1]
    · simp only [dErase, h0, if_false, lookup, lookup_dErase C k k' es hn.2]
      by_cases h1 : ckey C k = ckey C k'
      · have : ckey C k0 ≠ ckey C k' := fun h => h0 (h.trans h1.symm)
        simp [h1, this]
      · simp [h1]

/-! ### update / __init__ -/

theorem nodup_dUpdate (C : CaseOps) : ∀ (items es : Items), (keysOf C es).Nodup →
    (keysOf C (dUpdate C items es)).Nodup
  | [], _, h => by simpa [dUpdate] using h
  | (k, v) :: items, es, h => by
    simp only [dUpdate, List.foldl_cons]
    exact nodup_dUpdate C items _ (nodup_dSet C k v es h)

theorem mem_dUpdate (C : CaseOps) : ∀ (items es : Items) (e : Key × Obj),
    e ∈ dUpdate C items es → e ∈ items ∨ e ∈ es
  | [], _, e, h => by simp [dUpdate] at h; exact Or.inr h
  | (k, v) :: items, es, e, h => by
    simp only [dUpdate, List.foldl_cons] at h
    rcases mem_dUpdate C items _ e h with h | h
    · exact Or.inl (by simp [h])
    · rcases mem_dSet_value C k v es e h with h | h
      · exact Or.inl (by simp [h])
      · exact Or.inr h

theorem updateChecked_nodup (C : CaseOps) (allow : Bool) : ∀ (items es : Items), (keysOf C es).Nodup →
    (keysOf C (updateChecked C allow items es).1).Nodup
  | [], _, h => by simpa [updateChecked] using h
  | (k, v) :: items, es, h => by
    simp only [updateChecked]
    cases checkKey allow k with
    | error e => simpa using h
    | ok _ => exact updateChecked_nodup C allow items _ (nodup_dSet C k v es h)

/-! ### the whole API keeps the invariant -/

def DInv (C : CaseOps) (s : DState) : Prop := (keysOf C s.items).Nodup

theorem dStep_inv (C : CaseOps) (s : DState) (op : DOp) (h : DInv C s) : DInv C (dStep C s op).1 := by
  unfold DInv at *
  cases op with
  | setitem k v =>
    simp only [dStep]; cases checkKey s.allow k <;> simp [h, nodup_dSet]
  | getitem k =>
    simp only [dStep]; cases checkKey s.allow k <;> simp [h]
    cases lookup C k s.items <;> simp [h]
  | delitem k =>
    simp only [dStep]; cases checkKey s.allow k <;> simp [h]
    split
    · exact h.sublist (keysOf_dErase_sublist C k s.items)
    · exact h
  | contains k => simp only [dStep]; cases checkKey s.allow k <;> simp [h]
  | get k d => simp only [dStep]; cases checkKey s.allow k <;> simp [h]
  | pop k d =>
    simp only [dStep]; cases checkKey s.allow k <;> simp [h]
    cases lookup C k s.items <;> cases d <;> simp [h]
    all_goals exact h.sublist (keysOf_dErase_sublist C k s.items)
  | popitem =>
    simp only [dStep]
    cases hl : s.items.getLast? with
    | none => simp [h]
    | some kv =>
      simp only
      exact h.sublist ((List.dropLast_sublist _).map _)
  | setdefault k d =>
    simp only [dStep]; cases checkKey s.allow k <;> simp [h]
    cases lookup C k s.items <;> simp [h, nodup_dSet]
  | update items =>
    simp only [dStep]
    exact updateChecked_nodup C s.allow items s.items h
  | clear => simp [dStep, keysOf]
  | len => simpa [dStep] using h
  | keys => simpa [dStep] using h
  | setAllow b => simpa [dStep] using h

theorem dRun_inv (C : CaseOps) : ∀ (ops : List DOp) (s : DState), DInv C s → DInv C (dRun C s ops).1
  | [], _, h => by simpa [dRun] using h
  | op :: ops, s, h => by
    simp only [dRun]
    exact dRun_inv C ops _ (dStep_inv C s op h)

/-! ### `==` of NocaseDicts is extensional equality of the lookup functions -/

/-- both absent, or both present with equal values -/
def optRel (C : CaseOps) : Option Obj → Option Obj → Prop
  | Option.none, Option.none => True
  | some v, some w => eqObj C v w = true
  | _, _ => False

theorem length_le_of_nodup_subset {α} [DecidableEq α] :
    ∀ (l1 l2 : List α), l1.Nodup → (∀ x ∈ l1, x ∈ l2) → l1.length ≤ l2.length
  | [], _, _, _ => by simp
  | x :: l1, l2, hn, hsub => by
    have hn' := List.nodup_cons.mp hn
    have hx : x ∈ l2 := hsub x (by simp)
    have hsub' : ∀ z ∈ l1, z ∈ l2.erase x := by
      intro z hz
      have hzx : z ≠ x := fun h => hn'.1 (h ▸ hz)
      exact (List.mem_erase_of_ne hzx).mpr (hsub z (by simp [hz]))
    have := length_le_of_nodup_subset l1 (l2.erase x) hn'.2 hsub'
    rw [List.length_erase_of_mem hx] at this
    have hpos : 0 < l2.length := List.length_pos_of_mem hx
    simp; omega

theorem lookup_isSome_iff (C : CaseOps) (k : Key) (es : Items) :
    (lookup C k es).isSome = true ↔ ckey C k ∈ keysOf C es := by
  constructor
  · intro h
    cases hl : lookup C k es with
    | none => simp [hl] at h
    | some w =>
      obtain ⟨k', hm, hk⟩ := lookup_some_mem C k es w hl
      exact List.mem_map.mpr ⟨(k', w), hm, hk⟩
  · intro h
    cases hl : lookup C k es with
    | none =>
      exfalso
      obtain ⟨e, he, hk⟩ := List.mem_map.mp h
      clear h
      induction es generalizing e with
      | nil => simp at he
      | cons x xs ih =>
        obtain ⟨k0, w⟩ := x
        simp only [lookup] at hl
        by_cases h0 : ckey C k0 = ckey C k
        · simp [h0] at hl
        · simp [h0] at hl
          rcases List.mem_cons.mp he with h | h
          · subst h; exact h0 hk
          · exact ih hl e h hk
    | some w => rfl

theorem eqDict_iff_lookup (C : CaseOps) (i j : Nat) (es fs : Items)
    (ge : good C (.dict i es) = true) (gf : good C (.dict j fs) = true) :
    eqObj C (.dict i es) (.dict j fs) = true ↔ ∀ k, optRel C (lookup C k es) (lookup C k fs) := by
  obtain ⟨hne, gve⟩ := (good_dict C i es).mp ge
  obtain ⟨hnf, gvf⟩ := (good_dict C j fs).mp gf
  constructor
  · intro h
    have h' := h
    simp only [eqObj, Bool.and_eq_true, beq_iff_eq] at h'
    have hsym : eqEntries C fs es = true :=
      eqDict_symm C es fs (fun e _ => eqObj_symm' C e.2) hne hnf gve gvf h'.1 h'.2
    intro k
    cases hl : lookup C k es with
    | some v =>
      obtain ⟨k0, hm, hk⟩ := lookup_some_mem C k es v hl
      obtain ⟨w, hw, hq⟩ := (eqEntries_iff C es fs).mp h'.1 (k0, v) hm
      rw [← lookup_congr C k0 k hk fs, hw]
      exact hq
    | none =>
      cases hl2 : lookup C k fs with
      | none => trivial
      | some w =>
        obtain ⟨k0, hm, hk⟩ := lookup_some_mem C k fs w hl2
        obtain ⟨v, hv, _⟩ := (eqEntries_iff C fs es).mp hsym (k0, w) hm
        rw [lookup_congr C k0 k hk es, hl] at hv
        cases hv
  · intro h
    have hsub1 : ∀ x ∈ keysOf C es, x ∈ keysOf C fs := by
      intro x hx
      obtain ⟨e, he, rfl⟩ := List.mem_map.mp hx
      have := h e.1
      rw [lookup_of_mem C es hne e.1 e.2 he e.1 rfl] at this
      cases hl : lookup C e.1 fs with
      | none => simp [hl, optRel] at this
      | some w => exact (lookup_isSome_iff C e.1 fs).mp (by simp [hl])
    have hsub2 : ∀ x ∈ keysOf C fs, x ∈ keysOf C es := by
      intro x hx
      obtain ⟨e, he, rfl⟩ := List.mem_map.mp hx
      have := h e.1
      rw [lookup_of_mem C fs hnf e.1 e.2 he e.1 rfl] at this
      cases hl : lookup C e.1 es with
      | none => simp [hl, optRel] at this
      | some w => exact (lookup_isSome_iff C e.1 es).mp (by simp [hl])
    have hlen : es.length = fs.length := by
      have h1 := length_le_of_nodup_subset _ _ hne hsub1
      have h2 := length_le_of_nodup_subset _ _ hnf hsub2
      simp [keysOf] at h1 h2
      omega
    simp only [eqObj, Bool.and_eq_true, beq_iff_eq]
    refine ⟨?_, hlen⟩
    rw [eqEntries_iff]
    intro e he
    have := h e.1
    rw [lookup_of_mem C es hne e.1 e.2 he e.1 rfl] at this
    cases hl : lookup C e.1 fs with
    | none => simp [hl, optRel] at this
    | some w => rw [hl] at this; exact ⟨w, rfl, this⟩

theorem good_dSet (C : CaseOps) (i : Nat) (k : Key) (v : Obj) (es : Items)
    (g : good C (.dict i es) = true) (gv : good C v = true) : good C (.dict i (dSet C k v es)) = true := by
  obtain ⟨hn, gvs⟩ := (good_dict C i es).mp g
  refine (good_dict C i _).mpr ⟨nodup_dSet C k v es hn, ?_⟩
  intro e he
  rcases mem_dSet_value C k v es e he with rfl | h
  · exact gv
  · exact gvs e h

theorem good_dErase (C : CaseOps) (i : Nat) (k : Key) (es : Items)
    (g : good C (.dict i es) = true) : good C (.dict i (dErase C k es)) = true := by
  obtain ⟨hn, gvs⟩ := (good_dict C i es).mp g
  exact (good_dict C i _).mpr ⟨hn.sublist (keysOf_dErase_sublist C k es), fun e he => gvs e (mem_dErase C k es e he)⟩

theorem good_dFromItems (C : CaseOps) (i : Nat) (items : Items) (gv : ∀ e ∈ items, good C e.2 = true) :
    good C (.dict i (dFromItems C items)) = true := by
  refine (good_dict C i _).mpr ⟨nodup_dUpdate C items [] (by simp [keysOf]), ?_⟩
  intro e he
  rcases mem_dUpdate C items [] e he with h | h
  · exact gv e h
  · simp at h

end Proofs.Eq
