/-
Lemmas for in-place change by identity (`mutAt`), Python set/dict membership (`pyIn`) and the class check of the
top-level `__eq__` (`eqTop`).
-/
import Proofs.Lemmas.DictOps
import Proofs.Lemmas.Copy

namespace Proofs.Eq
open Pywbem.Model.Eq Pywbem.Generated.Slots Pywbem.Proto

theorem mutAtList_not_mem (i : Nat) (f : Obj → Obj) : ∀ xs : List Obj,
    (∀ x ∈ xs, i ∉ ids x → mutAt i f x = x) → i ∉ idsList xs → mutAtList i f xs = xs
  | [], _, _ => rfl
  | x :: xs, ih, h => by
    simp only [idsList, List.mem_append, not_or] at h
    simp only [mutAtList]
    rw [ih x (by simp) h.1, mutAtList_not_mem i f xs (fun y hy => ih y (by simp [hy])) h.2]

theorem mutAtEntries_not_mem (i : Nat) (f : Obj → Obj) : ∀ es : List (Key × Obj),
    (∀ e ∈ es, i ∉ ids e.2 → mutAt i f e.2 = e.2) → i ∉ idsEntries es → mutAtEntries i f es = es
  | [], _, _ => rfl
  | (k, v) :: es, ih, h => by
    simp only [idsEntries, List.mem_append, not_or] at h
    simp only [mutAtEntries]
    rw [ih (k, v) (by simp) h.1, mutAtEntries_not_mem i f es (fun y hy => ih y (by simp [hy])) h.2]

/-- a change made to the value with identity `i` is invisible in every object that does not contain `i` -/
theorem mutAt_not_mem (i : Nat) (f : Obj → Obj) : ∀ a, i ∉ ids a → mutAt i f a = a := by
  apply Obj.ind'
  · intro _; rfl
  · intro a _; rfl
  · intro j xs ih h
    simp only [ids, List.mem_cons, not_or] at h
    have hj : ¬ j = i := fun e => h.1 e.symm
    simp only [mutAt, hj, if_false]
    rw [mutAtList_not_mem i f xs ih h.2]
  · intro j es ih h
    simp only [ids, List.mem_cons, not_or] at h
    have hj : ¬ j = i := fun e => h.1 e.symm
    simp only [mutAt, hj, if_false]
    rw [mutAtEntries_not_mem i f es ih h.2]
  · intro j k as ih h
    simp only [ids, List.mem_cons, not_or] at h
    have hj : ¬ j = i := fun e => h.1 e.symm
    simp only [mutAt, hj, if_false]
    rw [mutAtList_not_mem i f as ih h.2]

theorem pyIn_eq_any {β : Type} [DecidableEq β] (C : CaseOps) (H : PyHash β)
    (heq : ∀ a, a ∈ xs → eqObj C a b = true → hashObj C H a = hashObj C H b) :
    pyIn C H b xs = xs.any (fun a => eqObj C a b) := by
  induction xs with
  | nil => rfl
  | cons x xs ih =>
    have ih' := ih (fun a ha => heq a (by simp [ha]))
    simp only [pyIn, List.any_cons] at ih' ⊢
    rw [ih']
    congr 1
    cases hq : eqObj C x b with
    | false => simp
    | true => simp [heq x (by simp) hq]

/-! ### pickle state -/

theorem lookup_zip_map {β : Type} : ∀ (ss : List String) (as : List β), ss.Nodup → ss.length = as.length →
    ss.map (fun s => (ss.zip as).lookup s) = as.map some
  | [], [], _, _ => rfl
  | [], _ :: _, _, h => by simp at h
  | _ :: _, [], _, h => by simp at h
  | s :: ss, a :: as, hn, hl => by
    have hn' := List.nodup_cons.mp hn
    simp only [List.zip_cons_cons, List.map_cons, List.lookup_cons, beq_self_eq_true, List.cons.injEq, true_and]
    rw [← lookup_zip_map ss as hn'.2 (by simpa using hl)]
    apply List.map_congr_left
    intro t ht
    have : (t == s) = false := by
      simp only [beq_eq_false_iff_ne, ne_eq]
      intro h; exact hn'.1 (h ▸ ht)
    simp [this]

/-! ### the concrete frozenset hash is set-determined -/

theorem mem_dedupNat (x : Nat) : ∀ l : List Nat, x ∈ dedupNat l ↔ x ∈ l
  | [] => by simp [dedupNat]
  | y :: ys => by
    simp only [dedupNat]
    split
    · rename_i h
      rw [mem_dedupNat x ys]
      constructor
      · intro hx; simp [hx]
      · intro hx
        rcases List.mem_cons.mp hx with rfl | hx
        · exact (mem_dedupNat _ ys).mp h
        · exact hx
    · simp [mem_dedupNat x ys]

theorem nodup_dedupNat : ∀ l : List Nat, (dedupNat l).Nodup
  | [] => by simp [dedupNat]
  | y :: ys => by
    simp only [dedupNat]
    split
    · exact nodup_dedupNat ys
    · rename_i h
      exact List.nodup_cons.mpr ⟨h, nodup_dedupNat ys⟩

theorem sumNat_perm {l1 l2 : List Nat} (h : l1.Perm l2) : sumNat l1 = sumNat l2 := by
  induction h with
  | nil => rfl
  | cons x _ ih => simp [sumNat, ih]
  | swap x y l => simp [sumNat]; omega
  | trans _ _ ih1 ih2 => exact ih1.trans ih2

theorem perm_of_nodup_same_mem : ∀ (l1 l2 : List Nat), l1.Nodup → l2.Nodup → (∀ x, x ∈ l1 ↔ x ∈ l2) → l1.Perm l2
  | [], l2, _, _, h => by
    cases l2 with
    | nil => exact List.Perm.refl _
    | cons y ys => exact absurd ((h y).mpr (by simp)) (by simp)
  | x :: l1, l2, hn1, hn2, h => by
    have hn1' := List.nodup_cons.mp hn1
    have hx : x ∈ l2 := (h x).mp (by simp)
    have hp : l2.Perm (x :: l2.erase x) := List.perm_cons_erase hx
    have hn2' : (l2.erase x).Nodup := hn2.sublist (List.erase_sublist)
    have hmem : ∀ z, z ∈ l1 ↔ z ∈ l2.erase x := by
      intro z
      constructor
      · intro hz
        have hzx : z ≠ x := fun e => hn1'.1 (e ▸ hz)
        exact (List.mem_erase_of_ne hzx).mpr ((h z).mp (by simp [hz]))
      · intro hz
        have hz2 : z ∈ l2 := List.mem_of_mem_erase hz
        have hzx : z ≠ x := by
          intro e
          subst e
          exact (List.Nodup.not_mem_erase hn2) hz
        rcases List.mem_cons.mp ((h z).mpr hz2) with e | e
        · exact absurd e hzx
        · exact e
    exact (List.Perm.cons x (perm_of_nodup_same_mem l1 (l2.erase x) hn1'.2 hn2' hmem)).trans hp.symm

theorem sumHash_fsetExt : FsetExt sumHash := by
  intro l1 l2 h
  simp only [sumHash]
  congr 1
  apply sumNat_perm
  apply perm_of_nodup_same_mem _ _ (nodup_dedupNat l1) (nodup_dedupNat l2)
  intro x
  rw [mem_dedupNat, mem_dedupNat]
  exact h x

/-! ### congruence of `==` under the in-place operations -/

theorem eqList_append (C : CaseOps) (v w : Obj) (hv : eqObj C v w = true) : ∀ xs ys : List Obj,
    eqList C xs ys = true → eqList C (xs ++ [v]) (ys ++ [w]) = true
  | [], [], _ => by simp [eqList, hv]
  | [], _ :: _, h => by simp [eqList] at h
  | _ :: _, [], h => by simp [eqList] at h
  | x :: xs, y :: ys, h => by
    simp only [eqList, Bool.and_eq_true, List.cons_append] at h ⊢
    exact ⟨h.1, eqList_append C v w hv xs ys h.2⟩

theorem eqList_dropLast (C : CaseOps) : ∀ xs ys : List Obj,
    eqList C xs ys = true → eqList C xs.dropLast ys.dropLast = true
  | [], [], _ => by simp [eqList]
  | [], _ :: _, h => by simp [eqList] at h
  | _ :: _, [], h => by simp [eqList] at h
  | [x], [y], _ => by simp [eqList]
  | [x], y :: y' :: ys, h => by simp [eqList] at h
  | x :: x' :: xs, [y], h => by simp [eqList] at h
  | x :: x' :: xs, y :: y' :: ys, h => by
    have ih := eqList_dropLast C (x' :: xs) (y' :: ys)
    simp only [eqList, Bool.and_eq_true] at h ih ⊢
    simp only [List.dropLast_cons_cons, eqList, Bool.and_eq_true]
    exact ⟨h.1, ih h.2⟩

theorem eqAttrs_set (C : CaseOps) (cs : List Cmp) (as bs : List Obj) (n : Nat) (v w : Obj)
    (h : eqAttrs C cs as bs = true) (hv : cmp1 C (cs.getD n .skip) v w = true) :
    eqAttrs C cs (as.set n v) (bs.set n w) = true := by
  rw [eqAttrs_iff_get] at h ⊢
  obtain ⟨h1, h2, h3⟩ := h
  refine ⟨by simp [h1], by simp [h2], ?_⟩
  intro m hm
  by_cases hmn : m = n
  · subst hmn
    have ha : m < as.length := by omega
    have hb : m < bs.length := by omega
    simpa [List.getD_eq_getElem?_getD, ha, hb] using hv
  · have := h3 m hm
    simpa [List.getD_eq_getElem?_getD, List.getElem?_set_ne (Ne.symm hmn)] using this

theorem goodAttrs_getD (C : CaseOps) (cs : List Cmp) (as : List Obj) (g : goodAttrs C cs as = true) (n : Nat)
    (hn : n < as.length) : good C (as.getD n .none) = true := by
  apply goodAttrs_good C cs as g
  simp [List.getD_eq_getElem?_getD, hn]

theorem eqDict_dUpdate (C : CaseOps) (i j : Nat) : ∀ (items es fs : Items),
    good C (.dict i es) = true → good C (.dict j fs) = true → (∀ e ∈ items, good C e.2 = true) →
    eqObj C (.dict i es) (.dict j fs) = true →
    eqObj C (.dict i (dUpdate C items es)) (.dict j (dUpdate C items fs)) = true ∧
      good C (.dict i (dUpdate C items es)) = true ∧ good C (.dict j (dUpdate C items fs)) = true
  | [], es, fs, ge, gf, _, h => by simpa [dUpdate] using ⟨h, ge, gf⟩
  | (k, v) :: items, es, fs, ge, gf, gi, h => by
    have gv : good C v = true := gi (k, v) (by simp)
    simp only [dUpdate, List.foldl_cons]
    have ge' := good_dSet C i k v es ge gv
    have gf' := good_dSet C j k v fs gf gv
    have h' : eqObj C (.dict i (dSet C k v es)) (.dict j (dSet C k v fs)) = true := by
      rw [eqDict_iff_lookup C i j _ _ ge' gf']
      have h0 := (eqDict_iff_lookup C i j es fs ge gf).mp h
      intro q
      rw [lookup_dSet, lookup_dSet]
      by_cases hq : ckey C k = ckey C q
      · simpa [hq, optRel] using eqObj_refl C v gv
      · simpa [hq] using h0 q
    exact eqDict_dUpdate C i j items _ _ ge' gf' (fun e he => gi e (by simp [he])) h'

end Proofs.Eq
