/-
Lemmas for in-place change by identity (`mutAt`), Python set/dict membership (`pyIn`) and the class check of the
top-level `__eq__` (`eqTop`).
-/
import Proofs.Lemmas.DictOps
import Proofs.Lemmas.Copy

namespace Proofs.Eq
open Pywbem.Model.Eq Pywbem.Generated.Slots Pywbem.Proto

theorem mutAtList_not_mem (i : Nat) (f : Obj → Obj) : ∀ xs : List Obj,
    (∀ x ∈ xs, i ∉ ids x → mutAt i f x = x) → i ∉ idsList xs → mutAtList i f xs = xs
  | [], _, _ => rfl
  | x :: xs, ih, h => by
    simp only [idsList, List.mem_append, not_or] at h
    simp only [mutAtList]
    rw [ih x (by simp) h.1, mutAtList_not_mem i f xs (fun y hy => ih y (by simp [hy])) h.2]

theorem mutAtEntries_not_mem (i : Nat) (f : Obj → Obj) : ∀ es : List (Key × Obj),
    (∀ e ∈ es, i ∉ ids e.2 → mutAt i f e.2 = e.2) → i ∉ idsEntries es → mutAtEntries i f es = es
  | [], _, _ => rfl
  | (k, v) :: es, ih, h => by
    simp only [idsEntries, List.mem_append, not_or] at h
    simp only [mutAtEntries]
    rw [ih (k, v) (by simp) h.1, mutAtEntries_not_mem i f es (fun y hy => ih y (by simp [hy])) h.2]

/-- a change made to the value with identity `i` is invisible in every object that does not contain `i` -/
theorem mutAt_not_mem (i : Nat) (f : Obj → Obj) : ∀ a, i ∉ ids a → mutAt i f a = a := by
  apply Obj.ind'
  · intro _; rfl
  · intro a _; rfl
  · intro j xs ih h
    simp only [ids, List.mem_cons, not_or] at h
    have hj : ¬ j = i := fun e => h.1 e.symm
    simp only [mutAt, hj, if_false]
    rw [mutAtList_not_mem i f xs ih h.2]
  · intro j es ih h
    simp only [ids, List.mem_cons, not_or] at h
    have hj : ¬ j = i := fun e => h.1 e.symm
    simp only [mutAt, hj, if_false]
    rw [mutAtEntries_not_mem i f es ih h.2]
  · intro j k as ih h
    simp only [ids, List.mem_cons, not_or] at h
    have hj : ¬ j = i := fun e => h.1 e.symm
    simp only [mutAt, hj, if_false]
    rw [mutAtList_not_mem i f as ih h.2]

theorem pyIn_eq_any {β : Type} [DecidableEq β] (C : CaseOps) (H : PyHash β)
    (heq : ∀ a, a ∈ xs → eqObj C a b = true → hashObj C H a = hashObj C H b) :
    pyIn C H b xs = xs.any (fun a => eqObj C a b) := by
  induction xs with
  | nil => rfl
  | cons x xs ih =>
    have ih' := ih (fun a ha => heq a (by simp [ha]))
    simp only [pyIn, List.any_cons] at ih' ⊢
    rw [ih']
    congr 1
    cases hq : eqObj C x b with
    | false => simp
    | true => simp [heq x (by simp) hq]

/-! ### pickle state -/

theorem lookup_zip_map {β : Type} : ∀ (ss : List String) (as : List β), ss.Nodup → ss.length = as.length →
    ss.map (fun s => (ss.zip as).lookup s) = as.map some
  | [], [], _, _ => rfl
  | [], _ :: _, _, h => by simp at h
  | _ :: _, [], _, h => by simp at h
  | s :: ss, a :: as, hn, hl => by
    have hn' := List.nodup_cons.mp hn
    simp only [List.zip_cons_cons, List.map_cons, List.lookup_cons, beq_self_eq_true, List.cons.injEq, true_and]
    rw [← lookup_zip_map ss as hn'.2 (by simpa using hl)]
    apply List.map_congr_left
    intro t ht
    have : (t == s) = false := by
      simp only [beq_eq_false_iff_ne, ne_eq]
      intro h; exact hn'.1 (h ▸ ht)
    simp [this]

/-! ### the concrete frozenset hash is set-determined -/

theorem mem_dedupNat (x : Nat) : ∀ l : List Nat, x ∈ dedupNat l ↔ x ∈ l
  | [] => by simp [dedupNat]
  | y :: ys => by
    simp only [dedupNat]
    split
    · rename_i h
      rw [mem_dedupNat x ys]
      constructor
      · intro hx; simp [hx]
      · intro hx
        rcases List.mem_cons.mp hx with rfl | hx
        · exact (mem_dedupNat _ ys).mp h
        · exact hx
    · simp [mem_dedupNat x ys]

theorem nodup_dedupNat : ∀ l : List Nat, (dedupNat l).Nodup
  | [] => by simp [dedupNat]
  | y :: ys => by
    simp only [dedupNat]
    split
    · exact nodup_dedupNat ys
    · rename_i h
      exact List.nodup_cons.mpr ⟨h, nodup_dedupNat ys⟩

theorem sumNat_perm {l1 l2 : List Nat} (h : l1.Perm l2) : sumNat l1 = sumNat l2 := by
  induction h with
  | nil => rfl
  | cons x _ ih => simp [sumNat, ih]
  | swap x y l => simp [sumNat]; omega
  | trans _ _ ih1 ih2 => exact ih1.trans ih2

theorem perm_of_nodup_same_mem : ∀ (l1 l2 : List Nat), l1.Nodup → l2.Nodup → (∀ x, x ∈ l1 ↔ x ∈ l2) → l1.Perm l2
  | [], l2, _, _, h => by
    cases l2 with
    | nil => exact List.Perm.refl _
    | cons y ys => exact absurd ((h y).mpr (by simp)) (by simp)
  | x :: l1, l2, hn1, hn2, h => by
    have hn1' := List.nodup_cons.mp hn1
    have hx : x ∈ l2 := (h x).mp (by simp)
    have hp : l2.Perm (x :: l2.erase x) := List.perm_cons_erase hx
    have hn2' : (l2.erase x).Nodup := hn2.sublist (List.erase_sublist)
    have hmem : ∀ z, z ∈ l1 ↔ z ∈ l2.erase x := by
      intro z
      constructor
      · intro hz
        have hzx : z ≠ x := fun e => hn1'.1 (e ▸ hz)
        exact (List.mem_erase_of_ne hzx).mpr ((h z).mp (by simp [hz]))
      · intro hz
        have hz2 : z ∈ l2 := List.mem_of_mem_erase hz
        have hzx : z ≠ x := by
          intro e
          subst e
          exact (List.Nodup.not_mem_erase hn2) hz
        rcases List.mem_cons.mp ((h z).mpr hz2) with e | e
        · exact absurd e hzx
        · exact e
    exact (List.Perm.cons x (perm_of_nodup_same_mem l1 (l2.erase x) hn1'.2 hn2' hmem)).trans hp.symm

theorem sumHash_fsetExt : FsetExt sumHash := by
  intro l1 l2 h
  simp only [sumHash]
  congr 1
  apply sumNat_perm
  apply perm_of_nodup_same_mem _ _ (nodup_dedupNat l1) (nodup_dedupNat l2)
  intro x
  rw [mem_dedupNat, mem_dedupNat]
  exact h x

end Proofs.Eq
