/-
C03 — the character half of `sendableObj`, from the constituents of the object: if every string the object holds
consists of XML characters (`contentOkObj`, which also asks this of the codec's real printing and, recursively, of
embedded objects together with their shape), then every character of the encoding is an XML character.
The encoding of an embedded object travels as the text of a VALUE element: its serialisation consists of XML
characters because the embedded tree is well-formed (`wf_of_valid`), names being declared names of the DTD.
-/
import Proofs.Lemmas.DtdWire
import Proofs.Lemmas.DtdVal

set_option linter.unusedSimpArgs false
set_option linter.unusedVariables false

namespace Proofs.DtdChars
open Pywbem.Model Pywbem.Model.Dtd Pywbem.Model.XmlText Pywbem.Model.Sendable Pywbem.Model.XmlParse
open Proofs.DtdEnc Proofs.DtdReq Proofs.DtdWire

/-! ### strings -/

theorem strOk_append (a b : Str) : strOk (a ++ b) = (strOk a && strOk b) := by simp [strOk, List.all_append]

theorem strOk_cons (c : Char) (s : Str) : strOk (c :: s) = (isXmlChar c && strOk s) := by simp [strOk]

theorem escChar_ok (c : Char) (h : isXmlChar c = true) : strOk (escChar c) = true := by
  unfold escChar
  split
  · decide
  · split
    · decide
    · split
      · decide
      · split
        · decide
        · simp [strOk, h]

theorem esc_ok : ∀ (s : Str), strOk s = true → strOk (esc s) = true
  | [], _ => rfl
  | c :: cs, h => by
    simp only [strOk_cons, Bool.and_eq_true] at h
    simp only [esc, strOk_append, Bool.and_eq_true]
    exact ⟨escChar_ok c h.1, esc_ok cs h.2⟩

theorem nameChar_xml {c : Char} (h : XmlParse.isNameChar c = true) : isXmlChar c = true := by
  simp only [XmlParse.isNameChar, XmlParse.isNameStart, Bool.or_eq_true, Bool.and_eq_true, decide_eq_true_eq,
    beq_iff_eq] at h
  simp only [isXmlChar, Bool.or_eq_true, Bool.and_eq_true, decide_eq_true_eq, beq_iff_eq]
  omega

theorem name_ok {n : Str} (h : isName n = true) : strOk n = true := by
  cases n with
  | nil => simp [isName] at h
  | cons c cs =>
    simp only [isName, Bool.and_eq_true, List.all_eq_true] at h
    simp only [strOk, List.all_cons, Bool.and_eq_true, List.all_eq_true]
    exact ⟨nameChar_xml (Proofs.XmlParse.nameStart_nameChar h.1), fun d hd => nameChar_xml (h.2 d hd)⟩

theorem serAttrs_ok : ∀ (as : List (Str × Str)), wfAttrs as = true → strOk (Xml.serAttrs as) = true
  | [], _ => rfl
  | (k, v) :: rest, h => by
    simp only [wfAttrs, Bool.and_eq_true] at h
    have h1 := name_ok h.1.1
    have h2 := esc_ok v h.1.2
    have h3 := serAttrs_ok rest h.2
    have c1 : isXmlChar ' ' = true := by decide
    have c2 : isXmlChar '=' = true := by decide
    have c3 : isXmlChar '"' = true := by decide
    simp only [Xml.serAttrs, strOk_cons, strOk_append, h1, h2, h3, c1, c2, c3, Bool.and_self]

mutual
/-- minidom's `toxml()` of a well-formed tree consists of XML characters -/
theorem ser_ok : (t : Xml) → wfTree t = true → strOk (Xml.ser t) = true
  | .text s, h => by simp only [Xml.ser]; exact esc_ok s (by simpa [wfTree, strOk] using h)
  | .elem n as [], h => by
    simp only [wfTree, Bool.and_eq_true] at h
    have h1 := name_ok h.1.1.1
    have h2 := serAttrs_ok as h.1.1.2
    have c1 : isXmlChar '<' = true := by decide
    have c2 : strOk "/>".toList = true := by decide
    simp only [Xml.ser, strOk_cons, strOk_append, h1, h2, c1, c2, Bool.and_self]
  | .elem n as (k :: ks), h => by
    simp only [wfTree, Bool.and_eq_true] at h
    have h1 := name_ok h.1.1.1
    have h2 := serAttrs_ok as h.1.1.2
    have h3 := serList_ok (k :: ks) h.2
    have c1 : isXmlChar '<' = true := by decide
    have c2 : isXmlChar '>' = true := by decide
    have c3 : isXmlChar '/' = true := by decide
    have c4 : strOk ['>'] = true := by decide
    simp only [Xml.ser, strOk_cons, strOk_append, h1, h2, h3, c1, c2, c3, c4, Bool.and_self]
theorem serList_ok : (ks : List Xml) → wfKids ks = true → strOk (Xml.serList ks) = true
  | [], _ => rfl
  | k :: ks, h => by
    simp only [wfKids, Bool.and_eq_true] at h
    simp only [Xml.serList, strOk_append, Bool.and_eq_true]
    exact ⟨ser_ok k h.1, serList_ok ks h.2⟩
end

/-! ### pieces of the encoder -/

theorem charsOk_E (n : String) (as : List (Str × Str)) (ks : List Xml) :
    charsOk (E n as ks) = (attrsCharsOk as && charsOkList ks) := by simp only [E, charsOk]

theorem attrs_append : ∀ (a b : List (Str × Str)), attrsCharsOk (a ++ b) = (attrsCharsOk a && attrsCharsOk b)
  | [], b => by simp [attrsCharsOk]
  | (k, v) :: a, b => by simp [attrsCharsOk, attrs_append a b, Bool.and_assoc]

theorem attrs_one (k v : Str) : attrsCharsOk [(k, v)] = strOk v := by simp [attrsCharsOk]

theorem attrs_optAttr (k : String) (v : Option Str) (h : optOk v = true) : attrsCharsOk (optAttr k v) = true := by
  cases v with
  | none => rfl
  | some s => simpa [optAttr, attrsCharsOk, optOk] using h

theorem attrs_optBoolAttr (k : String) (v : Option Bool) : attrsCharsOk (optBoolAttr k v) = true := by
  cases v with
  | none => rfl
  | some b => cases b <;> simp [optBoolAttr, boolAttr, attrsCharsOk] <;> decide

theorem list_append (a b : List Xml) : charsOkList (a ++ b) = (charsOkList a && charsOkList b) := by
  induction a with
  | nil => simp [charsOkList]
  | cons x xs ih => simp [charsOkList, ih, Bool.and_assoc]

theorem list_one (x : Xml) : charsOkList [x] = charsOk x := by simp [charsOkList]

theorem valueElem_ok (s : Str) (h : strOk s = true) : charsOk (valueElem s) = true := by
  simp [valueElem, E, charsOk, charsOkList, attrsCharsOk, h]

theorem nullItem_ok : charsOk (if Pywbem.Generated.sendValueNull then E "VALUE.NULL" [] [] else E "VALUE" [] []) = true := by
  split <;> rfl

theorem splitSlash_ok : ∀ (s : Str), strOk s = true → ∀ p ∈ splitSlash s, strOk p = true
  | [], _ => by simp [splitSlash, strOk]
  | c :: cs, h => by
    simp only [strOk_cons, Bool.and_eq_true] at h
    have ih := splitSlash_ok cs h.2
    simp only [splitSlash]
    split
    · intro p hp
      rcases List.mem_cons.mp hp with rfl | hp
      · rfl
      · exact ih p hp
    · cases hs : splitSlash cs with
      | nil => intro p hp; simp at hp; subst hp; simp [strOk, h.1]
      | cons q qs =>
        rw [hs] at ih
        intro p hp
        rcases List.mem_cons.mp hp with rfl | hp
        · simp only [strOk_cons, h.1, Bool.true_and]; exact ih q (by simp)
        · exact ih p (by simp [hp])

theorem localNsPath_ok (ns : Str) (h : strOk ns = true) : charsOk (localNsPath ns) = true := by
  unfold localNsPath
  rw [charsOk_E]
  simp only [attrsCharsOk, Bool.true_and]
  have := splitSlash_ok ns h
  generalize splitSlash ns = l at this
  induction l with
  | nil => rfl
  | cons p ps ih =>
    simp only [List.map_cons, charsOkList, Bool.and_eq_true]
    exact ⟨by simp [E, charsOk, charsOkList, attrsCharsOk, this p (by simp)], ih (fun q hq => this q (by simp [hq]))⟩

theorem nsPath_ok (host ns : Str) (hh : strOk host = true) (hn : strOk ns = true) : charsOk (nsPath host ns) = true := by
  unfold nsPath
  simp [E, charsOk, charsOkList, attrsCharsOk, hh]
  exact localNsPath_ok ns hn

theorem keyval_ok (nm txt : Str) (vt : String) (ty : Option Str) (h1 : strOk nm = true) (h2 : strOk txt = true)
    (h3 : strOk vt.toList = true) (h4 : optOk ty = true) : charsOk (encKey.keyval nm txt vt ty) = true := by
  unfold encKey.keyval
  simp only [charsOk_E, attrs_one, attrs_append, h1, h3, attrs_optAttr "TYPE" ty h4, list_one, charsOk, h2,
    charsOkList, Bool.and_self]

theorem intTy_name_ok (t : IntTy) : strOk t.name = true := by cases t <;> decide

theorem boolText_ok (b : Bool) : strOk (if b then "TRUE".toList else "FALSE".toList) = true := by cases b <;> decide

theorem optOk_getD (n : Option Str) (h : optOk n = true) : strOk (n.getD []) = true := by
  cases n with
  | none => rfl
  | some s => exact h

/-! ### the family -/

mutual
theorem chars_atom (C : Codec) : (a : Atom) → contentOkAtom C a = true → strOk (atomText C a) = true
  | .null, _ => by simp only [atomText]; rfl
  | .str s, h => by simpa only [atomText, contentOkAtom] using h
  | .char16 s, h => by simpa only [atomText, contentOkAtom] using h
  | .dt s, h => by simpa only [atomText, contentOkAtom] using h
  | .bool b, _ => by simp only [atomText]; exact boolText_ok b
  | .int t v, _ => by simp only [atomText]; exact intToStr_ok v
  | .pyint v, _ => by simp only [atomText]; exact intToStr_ok v
  | .real w b, h => by simp only [contentOkAtom, Bool.and_eq_true] at h; simp only [atomText]; exact h.1
  | .pyfloat b, h => by simp only [contentOkAtom, Bool.and_eq_true] at h; simp only [atomText]; exact h.1
  | .ref p, _ => by simp only [atomText]; rfl
  | .einst i, h => by
    simp only [contentOkAtom, Bool.and_eq_true] at h
    simp only [atomText]
    exact ser_ok _ (wf_of_valid dtd_ok _ (struct_encInstElem C i h.1) (chars_instElem C i h.2))
  | .ecls c, h => by
    simp only [contentOkAtom, Bool.and_eq_true] at h
    simp only [atomText]
    exact ser_ok _ (wf_of_valid dtd_ok _ (struct_encCls C c h.1) (chars_cls C c h.2))
theorem chars_arrItems (C : Codec) : (l : List Atom) → contentOkAtoms C l = true → charsOkList (encArrItems C l) = true
  | [], _ => by simp only [encArrItems]; rfl
  | a :: l, h => by
    simp only [contentOkAtoms, Bool.and_eq_true] at h
    simp only [encArrItems, charsOkList, Bool.and_eq_true]
    refine ⟨?_, chars_arrItems C l h.2⟩
    have ha := chars_atom C a h.1
    cases a <;> simp only [encArrItem] <;> first | exact nullItem_ok | exact valueElem_ok _ ha
theorem chars_key (C : Codec) : (k : Key) → contentOkKey C k = true → charsOk (encKey C k) = true
  | .mk name (.ref p), h => by
    simp only [contentOkKey, contentOkAtom, Bool.and_eq_true] at h
    have a := optOk_getD name h.1
    have b := chars_path C p h.2
    simp only [encKey, charsOk_E, attrs_one, list_one, attrsCharsOk, charsOkList, a, b, Bool.and_self]
  | .mk name (.char16 s), h => by
    simp only [contentOkKey, contentOkAtom, Bool.and_eq_true] at h
    simp only [encKey]; exact keyval_ok _ _ _ _ (optOk_getD name h.1) h.2 (by decide) (by decide)
  | .mk name (.str s), h => by
    simp only [contentOkKey, contentOkAtom, Bool.and_eq_true] at h
    simp only [encKey]; exact keyval_ok _ _ _ _ (optOk_getD name h.1) h.2 (by decide) (by decide)
  | .mk name (.dt s), h => by
    simp only [contentOkKey, contentOkAtom, Bool.and_eq_true] at h
    simp only [encKey]; exact keyval_ok _ _ _ _ (optOk_getD name h.1) h.2 (by decide) (by decide)
  | .mk name (.bool b), h => by
    simp only [contentOkKey, contentOkAtom, Bool.and_eq_true] at h
    simp only [encKey]; exact keyval_ok _ _ _ _ (optOk_getD name h.1) (boolText_ok b) (by decide) (by decide)
  | .mk name (.int t v), h => by
    simp only [contentOkKey, contentOkAtom, Bool.and_eq_true] at h
    simp only [encKey]; exact keyval_ok _ _ _ _ (optOk_getD name h.1) (intToStr_ok v) (by decide) (intTy_name_ok t)
  | .mk name (.pyint v), h => by
    simp only [contentOkKey, contentOkAtom, Bool.and_eq_true] at h
    simp only [encKey]; exact keyval_ok _ _ _ _ (optOk_getD name h.1) (intToStr_ok v) (by decide) rfl
  | .mk name (.real w b), h => by
    simp only [contentOkKey, contentOkAtom, Bool.and_eq_true] at h
    simp only [encKey]; exact keyval_ok _ _ _ _ (optOk_getD name h.1) h.2.2 (by decide) (by cases w <;> decide)
  | .mk name (.pyfloat b), h => by
    simp only [contentOkKey, contentOkAtom, Bool.and_eq_true] at h
    simp only [encKey]; exact keyval_ok _ _ _ _ (optOk_getD name h.1) h.2.2 (by decide) rfl
  | .mk name .null, h => by
    simp only [contentOkKey, Bool.and_eq_true] at h
    simp only [encKey, charsOk_E, attrs_one, charsOkList, Bool.and_true]; exact optOk_getD name h.1
  | .mk name (.einst i), h => by
    simp only [contentOkKey, Bool.and_eq_true] at h
    simp only [encKey, charsOk_E, attrs_one, charsOkList, Bool.and_true]; exact optOk_getD name h.1
  | .mk name (.ecls c), h => by
    simp only [contentOkKey, Bool.and_eq_true] at h
    simp only [encKey, charsOk_E, attrs_one, charsOkList, Bool.and_true]; exact optOk_getD name h.1
theorem chars_keys (C : Codec) : (ks : List Key) → contentOkKeys C ks = true → charsOkList (encKeys C ks) = true
  | [], _ => by simp only [encKeys]; rfl
  | k :: ks, h => by
    simp only [contentOkKeys, Bool.and_eq_true] at h
    simp only [encKeys, charsOkList, Bool.and_eq_true]
    exact ⟨chars_key C k h.1, chars_keys C ks h.2⟩
theorem chars_path (C : Codec) : (p : Path) → contentOkPath C p = true → charsOk (encPath C p) = true
  | .inst cls host ns keys, h => by
    simp only [contentOkPath, Bool.and_eq_true] at h
    obtain ⟨⟨⟨hc, hh⟩, hn⟩, hk⟩ := h
    have hk' := chars_keys C keys hk
    cases ns with
    | none => simp only [encPath, charsOk_E, attrs_one, hc, hk', Bool.and_self]
    | some n =>
      cases host with
      | none =>
        have := localNsPath_ok n hn
        simp only [encPath, charsOk_E, attrs_one, attrsCharsOk, charsOkList, hc, hk', this, Bool.and_self]
      | some hst =>
        have := nsPath_ok hst n hh hn
        simp only [encPath, charsOk_E, attrs_one, attrsCharsOk, charsOkList, hc, hk', this, Bool.and_self]
  | .cls cls host ns, h => by
    simp only [contentOkPath, Bool.and_eq_true] at h
    obtain ⟨⟨hc, hh⟩, hn⟩ := h
    cases ns with
    | none => simp only [encPath, charsOk_E, attrs_one, charsOkList, hc, Bool.and_self]
    | some n =>
      cases host with
      | none =>
        have := localNsPath_ok n hn
        simp only [encPath, charsOk_E, attrs_one, attrsCharsOk, charsOkList, hc, this, Bool.and_self]
      | some hst =>
        have := nsPath_ok hst n hh hn
        simp only [encPath, charsOk_E, attrs_one, attrsCharsOk, charsOkList, hc, this, Bool.and_self]
theorem chars_val (C : Codec) : (v : Val) → contentOkVal C v = true → charsOkList (encVal C v) = true
  | .null, _ => by simp only [encVal]; rfl
  | .array l, h => by
    simp only [contentOkVal] at h
    simp only [encVal, list_one, charsOk_E, attrsCharsOk, Bool.true_and]
    exact chars_arrItems C l h
  | .scalar (.ref p), h => by
    simp only [contentOkVal, contentOkAtom] at h
    simp only [encVal, list_one, charsOk_E, attrsCharsOk, Bool.true_and]
    exact chars_path C p h
  | .scalar .null, h => by simp only [encVal, list_one]; exact valueElem_ok _ (chars_atom C _ h)
  | .scalar (.str s), h => by simp only [encVal, list_one]; exact valueElem_ok _ (chars_atom C _ h)
  | .scalar (.char16 s), h => by simp only [encVal, list_one]; exact valueElem_ok _ (chars_atom C _ h)
  | .scalar (.bool b), h => by simp only [encVal, list_one]; exact valueElem_ok _ (chars_atom C _ h)
  | .scalar (.int t v), h => by simp only [encVal, list_one]; exact valueElem_ok _ (chars_atom C _ h)
  | .scalar (.real w b), h => by simp only [encVal, list_one]; exact valueElem_ok _ (chars_atom C _ h)
  | .scalar (.dt s), h => by simp only [encVal, list_one]; exact valueElem_ok _ (chars_atom C _ h)
  | .scalar (.pyint v), h => by simp only [encVal, list_one]; exact valueElem_ok _ (chars_atom C _ h)
  | .scalar (.pyfloat b), h => by simp only [encVal, list_one]; exact valueElem_ok _ (chars_atom C _ h)
  | .scalar (.einst i), h => by simp only [encVal, list_one]; exact valueElem_ok _ (chars_atom C _ h)
  | .scalar (.ecls c), h => by simp only [encVal, list_one]; exact valueElem_ok _ (chars_atom C _ h)
theorem chars_qual (C : Codec) : (q : Qual) → contentOkQual C q = true → charsOk (encQual C q) = true
  | .mk name ty val p o ts ti tr, h => by
    simp only [contentOkQual, Bool.and_eq_true] at h
    simp only [encQual, charsOk_E, attrs_append, attrsCharsOk, h.1.1, h.1.2, attrs_optBoolAttr, chars_val C val h.2,
      Bool.and_self]
theorem chars_quals (C : Codec) : (qs : List Qual) → contentOkQuals C qs = true → charsOkList (encQuals C qs) = true
  | [], _ => by simp only [encQuals]; rfl
  | q :: qs, h => by
    simp only [contentOkQuals, Bool.and_eq_true] at h
    simp only [encQuals, charsOkList, Bool.and_eq_true]
    exact ⟨chars_qual C q h.1, chars_quals C qs h.2⟩
theorem chars_prop (C : Codec) : (p : Prop_) → contentOkProp C p = true → charsOk (encProp C p) = true
  | .mk name ty val isArray arraySize refCls origin propagated emb quals, h => by
    simp only [contentOkProp, Bool.and_eq_true] at h
    obtain ⟨⟨⟨⟨⟨⟨hn, ht⟩, hv⟩, hr⟩, ho⟩, he⟩, hq⟩ := h
    have hsz : attrsCharsOk (optAttr "ARRAYSIZE" (arraySize.map natToStr)) = true := by
      cases arraySize with
      | none => rfl
      | some n => simp [optAttr, attrsCharsOk, natToStr_ok n]
    have hkids : charsOkList (encQuals C quals ++ encVal C val) = true := by
      rw [list_append, chars_quals C quals hq, chars_val C val hv]; rfl
    simp only [encProp]
    split
    · simp only [charsOk_E, attrs_append, attrsCharsOk, hn, ht, hsz, attrs_optAttr _ _ ho, attrs_optAttr _ _ he,
        attrs_optBoolAttr, hkids, Bool.and_self]
    · split
      · simp only [charsOk_E, attrs_append, attrsCharsOk, hn, attrs_optAttr _ _ hr, attrs_optAttr _ _ ho,
          attrs_optBoolAttr, hkids, Bool.and_self]
      · simp only [charsOk_E, attrs_append, attrsCharsOk, hn, ht, attrs_optAttr _ _ ho, attrs_optAttr _ _ he,
          attrs_optBoolAttr, hkids, Bool.and_self]
theorem chars_props (C : Codec) : (ps : List Prop_) → contentOkProps C ps = true → charsOkList (encProps C ps) = true
  | [], _ => by simp only [encProps]; rfl
  | p :: ps, h => by
    simp only [contentOkProps, Bool.and_eq_true] at h
    simp only [encProps, charsOkList, Bool.and_eq_true]
    exact ⟨chars_prop C p h.1, chars_props C ps h.2⟩
theorem chars_instElem (C : Codec) : (i : Inst) → contentOkInst C i = true → charsOk (encInstElem C i) = true
  | .mk cls path props quals, h => by
    simp only [contentOkInst, Bool.and_eq_true] at h
    obtain ⟨⟨⟨hc, _⟩, hp⟩, hq⟩ := h
    simp only [encInstElem, charsOk_E, attrs_one, list_append, hc, chars_quals C quals hq, chars_props C props hp,
      Bool.and_self]
theorem chars_param (C : Codec) : (p : Param) → contentOkParam C p = true → charsOk (encParam C p) = true
  | .mk name ty refCls isArray arraySize quals val emb, h => by
    simp only [contentOkParam, Bool.and_eq_true] at h
    obtain ⟨⟨⟨⟨⟨hn, ht⟩, hr⟩, hq⟩, _⟩, _⟩ := h
    have hsz : attrsCharsOk (optAttr "ARRAYSIZE" (arraySize.map natToStr)) = true := by
      cases arraySize with
      | none => rfl
      | some n => simp [optAttr, attrsCharsOk, natToStr_ok n]
    have hk := chars_quals C quals hq
    simp only [encParam]
    split <;> split <;>
      simp only [charsOk_E, attrs_append, attrsCharsOk, hn, ht, hsz, attrs_optAttr _ _ hr, hk, Bool.and_self]
theorem chars_params (C : Codec) : (ps : List Param) → contentOkParams C ps = true → charsOkList (encParams C ps) = true
  | [], _ => by simp only [encParams]; rfl
  | p :: ps, h => by
    simp only [contentOkParams, Bool.and_eq_true] at h
    simp only [encParams, charsOkList, Bool.and_eq_true]
    exact ⟨chars_param C p h.1, chars_params C ps h.2⟩
theorem chars_meth (C : Codec) : (m : Meth) → contentOkMeth C m = true → charsOk (encMeth C m) = true
  | .mk name retTy params origin propagated quals, h => by
    simp only [contentOkMeth, Bool.and_eq_true] at h
    obtain ⟨⟨⟨⟨hn, hrt⟩, hp⟩, ho⟩, hq⟩ := h
    simp only [encMeth, charsOk_E, attrs_append, attrsCharsOk, hn, attrs_optAttr _ _ hrt, attrs_optAttr _ _ ho,
      attrs_optBoolAttr, list_append, chars_quals C quals hq, chars_params C params hp, Bool.and_self]
theorem chars_meths (C : Codec) : (ms : List Meth) → contentOkMeths C ms = true → charsOkList (encMeths C ms) = true
  | [], _ => by simp only [encMeths]; rfl
  | m :: ms, h => by
    simp only [contentOkMeths, Bool.and_eq_true] at h
    simp only [encMeths, charsOkList, Bool.and_eq_true]
    exact ⟨chars_meth C m h.1, chars_meths C ms h.2⟩
theorem chars_cls (C : Codec) : (c : Cls) → contentOkCls C c = true → charsOk (encCls C c) = true
  | .mk name super path props meths quals, h => by
    simp only [contentOkCls, Bool.and_eq_true] at h
    obtain ⟨⟨⟨⟨hn, hs⟩, hp⟩, hm⟩, hq⟩ := h
    simp only [encCls, charsOk_E, attrs_append, attrsCharsOk, hn, attrs_optAttr _ _ hs, list_append,
      chars_quals C quals hq, chars_props C props hp, chars_meths C meths hm, Bool.and_self]
end

theorem chars_inst (C : Codec) (i : Inst) (h : contentOkInst C i = true) : charsOk (encInst C i) = true := by
  have hie := chars_instElem C i h
  cases i with
  | mk cls path props quals =>
    simp only [contentOkInst, Bool.and_eq_true] at h
    obtain ⟨⟨⟨_, hpath⟩, _⟩, _⟩ := h
    simp only [encInstElem] at hie
    cases path with
    | none => simpa only [encInst] using hie
    | some p =>
      have hp : charsOk (encPath C p) = true := chars_path C p (by simpa [contentOkOptPath] using hpath)
      cases p with
      | cls c hh n => simpa only [encInst] using hie
      | inst c hh n ks =>
        cases n with
        | none => simp only [encInst, charsOk_E, attrsCharsOk, charsOkList, hp, hie, Bool.and_self]
        | some ns =>
          cases hh with
          | none => simp only [encInst, charsOk_E, attrsCharsOk, charsOkList, hp, hie, Bool.and_self]
          | some hst => simp only [encInst, charsOk_E, attrsCharsOk, charsOkList, hp, hie, Bool.and_self]

theorem attrsCharsOk_iff : ∀ (as : List (Str × Str)), attrsCharsOk as = true ↔ ∀ p ∈ as, strOk p.2 = true
  | [] => by simp [attrsCharsOk]
  | (k, v) :: rest => by simp [attrsCharsOk, attrsCharsOk_iff rest]

theorem chars_scope (scopes : List (Str × Bool)) : charsOkList (encScope scopes) = true := by
  unfold encScope
  split
  · rfl
  · simp only
    split
    · decide
    · simp only [list_one, charsOk_E, charsOkList, Bool.and_true]
      rw [attrsCharsOk_iff]
      intro p hp
      have := (foldr_insertSorted_perm _).mem_iff.mp hp
      obtain ⟨q, _, rfl⟩ := List.mem_map.mp this
      cases q.2 <;> simp [boolAttr] <;> decide

theorem chars_qualDecl (C : Codec) (q : QualDecl) (h : contentOkQualDecl C q = true) : charsOk (encQualDecl C q) = true := by
  simp only [contentOkQualDecl, Bool.and_eq_true] at h
  obtain ⟨⟨⟨hn, ht⟩, hv⟩, _⟩ := h
  have hsz : attrsCharsOk (optAttr "ARRAYSIZE" (q.arraySize.map natToStr)) = true := by
    cases q.arraySize with
    | none => rfl
    | some n => simp [optAttr, attrsCharsOk, natToStr_ok n]
  have hia : strOk (boolAttr q.isArray) = true := by cases q.isArray <;> decide
  unfold encQualDecl
  simp only [charsOk_E, attrs_append, attrsCharsOk, hn, ht, hia, hsz, attrs_optBoolAttr, list_append, chars_scope,
    chars_val C q.val hv, Bool.and_self]

/-- **the character condition follows from the constituents** -/
theorem chars_encObj (C : Codec) (o : Obj) (h : contentOkObj C o = true) : charsOk (encObj C o) = true := by
  cases o with
  | path p => exact chars_path C p h
  | inst i => exact chars_inst C i h
  | cls c => exact chars_cls C c h
  | prop p => exact chars_prop C p h
  | meth m => exact chars_meth C m h
  | param p => exact chars_param C p h
  | qual q => exact chars_qual C q h
  | qdecl q => exact chars_qualDecl C q h

end Proofs.DtdChars
