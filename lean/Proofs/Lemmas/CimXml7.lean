/-
C01 — stage 3d/4: qualifier declarations, the top-level dispatcher `decodeTop`, and the object-level
round trip for every object kind.
-/
import Proofs.Lemmas.CimXml6

set_option linter.unusedSimpArgs false
set_option linter.unusedVariables false
set_option linter.unusedSectionVars false

namespace Proofs.CimXml
open Pywbem.Model Pywbem.Model.XmlText Pywbem.Proto

/-! ### `parse_any` dispatch, one lemma per element name (generated text) -/

theorem nameIn_lit (n : Str) (as) (ks : List Xml) (names : List String) (b : Bool)
    (h : names.any (fun a => a.toList == n) = b) : nameIn (.elem n as ks) names = b := h

section
variable (C : DecCodec) (emb : Str → R Atom)

theorem decodeTop_INSTANCENAME (as) (ks : List Xml) :
    decodeTop C emb (.elem "INSTANCENAME".toList as ks) =
      (do let p ← decPathAny C (.elem "INSTANCENAME".toList as ks); pure (.path p)) := by
  have h0 : nameIn (Xml.elem "INSTANCENAME".toList as ks) ["INSTANCENAME", "LOCALINSTANCEPATH", "INSTANCEPATH", "CLASSNAME", "LOCALCLASSPATH", "CLASSPATH"] = true := nameIn_lit _ _ _ _ _ (by decide)
  simp only [decodeTop]
  simp only [h0, Bool.false_eq_true, if_false, if_true]

theorem decodeTop_LOCALINSTANCEPATH (as) (ks : List Xml) :
    decodeTop C emb (.elem "LOCALINSTANCEPATH".toList as ks) =
      (do let p ← decPathAny C (.elem "LOCALINSTANCEPATH".toList as ks); pure (.path p)) := by
  have h0 : nameIn (Xml.elem "LOCALINSTANCEPATH".toList as ks) ["INSTANCENAME", "LOCALINSTANCEPATH", "INSTANCEPATH", "CLASSNAME", "LOCALCLASSPATH", "CLASSPATH"] = true := nameIn_lit _ _ _ _ _ (by decide)
  simp only [decodeTop]
  simp only [h0, Bool.false_eq_true, if_false, if_true]

theorem decodeTop_INSTANCEPATH (as) (ks : List Xml) :
    decodeTop C emb (.elem "INSTANCEPATH".toList as ks) =
      (do let p ← decPathAny C (.elem "INSTANCEPATH".toList as ks); pure (.path p)) := by
  have h0 : nameIn (Xml.elem "INSTANCEPATH".toList as ks) ["INSTANCENAME", "LOCALINSTANCEPATH", "INSTANCEPATH", "CLASSNAME", "LOCALCLASSPATH", "CLASSPATH"] = true := nameIn_lit _ _ _ _ _ (by decide)
  simp only [decodeTop]
  simp only [h0, Bool.false_eq_true, if_false, if_true]

theorem decodeTop_CLASSNAME (as) (ks : List Xml) :
    decodeTop C emb (.elem "CLASSNAME".toList as ks) =
      (do let p ← decPathAny C (.elem "CLASSNAME".toList as ks); pure (.path p)) := by
  have h0 : nameIn (Xml.elem "CLASSNAME".toList as ks) ["INSTANCENAME", "LOCALINSTANCEPATH", "INSTANCEPATH", "CLASSNAME", "LOCALCLASSPATH", "CLASSPATH"] = true := nameIn_lit _ _ _ _ _ (by decide)
  simp only [decodeTop]
  simp only [h0, Bool.false_eq_true, if_false, if_true]

theorem decodeTop_LOCALCLASSPATH (as) (ks : List Xml) :
    decodeTop C emb (.elem "LOCALCLASSPATH".toList as ks) =
      (do let p ← decPathAny C (.elem "LOCALCLASSPATH".toList as ks); pure (.path p)) := by
  have h0 : nameIn (Xml.elem "LOCALCLASSPATH".toList as ks) ["INSTANCENAME", "LOCALINSTANCEPATH", "INSTANCEPATH", "CLASSNAME", "LOCALCLASSPATH", "CLASSPATH"] = true := nameIn_lit _ _ _ _ _ (by decide)
  simp only [decodeTop]
  simp only [h0, Bool.false_eq_true, if_false, if_true]

theorem decodeTop_CLASSPATH (as) (ks : List Xml) :
    decodeTop C emb (.elem "CLASSPATH".toList as ks) =
      (do let p ← decPathAny C (.elem "CLASSPATH".toList as ks); pure (.path p)) := by
  have h0 : nameIn (Xml.elem "CLASSPATH".toList as ks) ["INSTANCENAME", "LOCALINSTANCEPATH", "INSTANCEPATH", "CLASSNAME", "LOCALCLASSPATH", "CLASSPATH"] = true := nameIn_lit _ _ _ _ _ (by decide)
  simp only [decodeTop]
  simp only [h0, Bool.false_eq_true, if_false, if_true]

theorem decodeTop_INSTANCE (as) (ks : List Xml) :
    decodeTop C emb (.elem "INSTANCE".toList as ks) =
      (do let i ← decInstance C emb (.elem "INSTANCE".toList as ks); pure (.inst i)) := by
  have h0 : nameIn (Xml.elem "INSTANCE".toList as ks) ["INSTANCENAME", "LOCALINSTANCEPATH", "INSTANCEPATH", "CLASSNAME", "LOCALCLASSPATH", "CLASSPATH"] = false := nameIn_lit _ _ _ _ _ (by decide)
  simp only [decodeTop]
  simp only [h0, if_pos (rfl : "INSTANCE".toList = "INSTANCE".toList), Bool.false_eq_true, if_false, if_true]

theorem decodeTop_CLASS (as) (ks : List Xml) :
    decodeTop C emb (.elem "CLASS".toList as ks) =
      (do let c ← decClass C emb (.elem "CLASS".toList as ks); pure (.cls c)) := by
  have h0 : nameIn (Xml.elem "CLASS".toList as ks) ["INSTANCENAME", "LOCALINSTANCEPATH", "INSTANCEPATH", "CLASSNAME", "LOCALCLASSPATH", "CLASSPATH"] = false := nameIn_lit _ _ _ _ _ (by decide)
  have h1 : ¬ "CLASS".toList = "INSTANCE".toList := by decide
  simp only [decodeTop]
  simp only [h0, if_neg h1, if_pos (rfl : "CLASS".toList = "CLASS".toList), Bool.false_eq_true, if_false, if_true]

theorem decodeTop_PROPERTY (as) (ks : List Xml) :
    decodeTop C emb (.elem "PROPERTY".toList as ks) =
      (do let p ← decProperty C emb (.elem "PROPERTY".toList as ks); pure (.prop p)) := by
  have h0 : nameIn (Xml.elem "PROPERTY".toList as ks) ["INSTANCENAME", "LOCALINSTANCEPATH", "INSTANCEPATH", "CLASSNAME", "LOCALCLASSPATH", "CLASSPATH"] = false := nameIn_lit _ _ _ _ _ (by decide)
  have h1 : ¬ "PROPERTY".toList = "INSTANCE".toList := by decide
  have h2 : ¬ "PROPERTY".toList = "CLASS".toList := by decide
  have h3 : nameIn (Xml.elem "PROPERTY".toList as ks) ["VALUE.NAMEDINSTANCE", "VALUE.INSTANCEWITHPATH", "VALUE.OBJECTWITHLOCALPATH"] = false := nameIn_lit _ _ _ _ _ (by decide)
  simp only [decodeTop]
  simp only [h0, if_neg h1, if_neg h2, h3, if_pos (rfl : "PROPERTY".toList = "PROPERTY".toList), Bool.false_eq_true, if_false, if_true]

theorem decodeTop_PROPERTY_ARRAY (as) (ks : List Xml) :
    decodeTop C emb (.elem "PROPERTY.ARRAY".toList as ks) =
      (do let p ← decPropertyArray C emb (.elem "PROPERTY.ARRAY".toList as ks); pure (.prop p)) := by
  have h0 : nameIn (Xml.elem "PROPERTY.ARRAY".toList as ks) ["INSTANCENAME", "LOCALINSTANCEPATH", "INSTANCEPATH", "CLASSNAME", "LOCALCLASSPATH", "CLASSPATH"] = false := nameIn_lit _ _ _ _ _ (by decide)
  have h1 : ¬ "PROPERTY.ARRAY".toList = "INSTANCE".toList := by decide
  have h2 : ¬ "PROPERTY.ARRAY".toList = "CLASS".toList := by decide
  have h3 : nameIn (Xml.elem "PROPERTY.ARRAY".toList as ks) ["VALUE.NAMEDINSTANCE", "VALUE.INSTANCEWITHPATH", "VALUE.OBJECTWITHLOCALPATH"] = false := nameIn_lit _ _ _ _ _ (by decide)
  have h4 : ¬ "PROPERTY.ARRAY".toList = "PROPERTY".toList := by decide
  simp only [decodeTop]
  simp only [h0, if_neg h1, if_neg h2, h3, if_neg h4, if_pos (rfl : "PROPERTY.ARRAY".toList = "PROPERTY.ARRAY".toList), Bool.false_eq_true, if_false, if_true]

theorem decodeTop_PROPERTY_REFERENCE (as) (ks : List Xml) :
    decodeTop C emb (.elem "PROPERTY.REFERENCE".toList as ks) =
      (do let p ← decPropertyReference C (.elem "PROPERTY.REFERENCE".toList as ks); pure (.prop p)) := by
  have h0 : nameIn (Xml.elem "PROPERTY.REFERENCE".toList as ks) ["INSTANCENAME", "LOCALINSTANCEPATH", "INSTANCEPATH", "CLASSNAME", "LOCALCLASSPATH", "CLASSPATH"] = false := nameIn_lit _ _ _ _ _ (by decide)
  have h1 : ¬ "PROPERTY.REFERENCE".toList = "INSTANCE".toList := by decide
  have h2 : ¬ "PROPERTY.REFERENCE".toList = "CLASS".toList := by decide
  have h3 : nameIn (Xml.elem "PROPERTY.REFERENCE".toList as ks) ["VALUE.NAMEDINSTANCE", "VALUE.INSTANCEWITHPATH", "VALUE.OBJECTWITHLOCALPATH"] = false := nameIn_lit _ _ _ _ _ (by decide)
  have h4 : ¬ "PROPERTY.REFERENCE".toList = "PROPERTY".toList := by decide
  have h5 : ¬ "PROPERTY.REFERENCE".toList = "PROPERTY.ARRAY".toList := by decide
  simp only [decodeTop]
  simp only [h0, if_neg h1, if_neg h2, h3, if_neg h4, if_neg h5, if_pos (rfl : "PROPERTY.REFERENCE".toList = "PROPERTY.REFERENCE".toList), Bool.false_eq_true, if_false, if_true]

theorem decodeTop_METHOD (as) (ks : List Xml) :
    decodeTop C emb (.elem "METHOD".toList as ks) =
      (do let m ← decMethod C (.elem "METHOD".toList as ks); pure (.meth m)) := by
  have h0 : nameIn (Xml.elem "METHOD".toList as ks) ["INSTANCENAME", "LOCALINSTANCEPATH", "INSTANCEPATH", "CLASSNAME", "LOCALCLASSPATH", "CLASSPATH"] = false := nameIn_lit _ _ _ _ _ (by decide)
  have h1 : ¬ "METHOD".toList = "INSTANCE".toList := by decide
  have h2 : ¬ "METHOD".toList = "CLASS".toList := by decide
  have h3 : nameIn (Xml.elem "METHOD".toList as ks) ["VALUE.NAMEDINSTANCE", "VALUE.INSTANCEWITHPATH", "VALUE.OBJECTWITHLOCALPATH"] = false := nameIn_lit _ _ _ _ _ (by decide)
  have h4 : ¬ "METHOD".toList = "PROPERTY".toList := by decide
  have h5 : ¬ "METHOD".toList = "PROPERTY.ARRAY".toList := by decide
  have h6 : ¬ "METHOD".toList = "PROPERTY.REFERENCE".toList := by decide
  simp only [decodeTop]
  simp only [h0, if_neg h1, if_neg h2, h3, if_neg h4, if_neg h5, if_neg h6, if_pos (rfl : "METHOD".toList = "METHOD".toList), Bool.false_eq_true, if_false, if_true]

theorem decodeTop_PARAMETER (as) (ks : List Xml) :
    decodeTop C emb (.elem "PARAMETER".toList as ks) =
      (do let p ← decParameter C (.elem "PARAMETER".toList as ks); pure (.param p)) := by
  have h0 : nameIn (Xml.elem "PARAMETER".toList as ks) ["INSTANCENAME", "LOCALINSTANCEPATH", "INSTANCEPATH", "CLASSNAME", "LOCALCLASSPATH", "CLASSPATH"] = false := nameIn_lit _ _ _ _ _ (by decide)
  have h1 : ¬ "PARAMETER".toList = "INSTANCE".toList := by decide
  have h2 : ¬ "PARAMETER".toList = "CLASS".toList := by decide
  have h3 : nameIn (Xml.elem "PARAMETER".toList as ks) ["VALUE.NAMEDINSTANCE", "VALUE.INSTANCEWITHPATH", "VALUE.OBJECTWITHLOCALPATH"] = false := nameIn_lit _ _ _ _ _ (by decide)
  have h4 : ¬ "PARAMETER".toList = "PROPERTY".toList := by decide
  have h5 : ¬ "PARAMETER".toList = "PROPERTY.ARRAY".toList := by decide
  have h6 : ¬ "PARAMETER".toList = "PROPERTY.REFERENCE".toList := by decide
  have h7 : ¬ "PARAMETER".toList = "METHOD".toList := by decide
  have h8 : nameIn (Xml.elem "PARAMETER".toList as ks) ["PARAMETER", "PARAMETER.REFERENCE", "PARAMETER.ARRAY", "PARAMETER.REFARRAY"] = true := nameIn_lit _ _ _ _ _ (by decide)
  simp only [decodeTop]
  simp only [h0, if_neg h1, if_neg h2, h3, if_neg h4, if_neg h5, if_neg h6, if_neg h7, h8, Bool.false_eq_true, if_false, if_true]

theorem decodeTop_PARAMETER_REFERENCE (as) (ks : List Xml) :
    decodeTop C emb (.elem "PARAMETER.REFERENCE".toList as ks) =
      (do let p ← decParameter C (.elem "PARAMETER.REFERENCE".toList as ks); pure (.param p)) := by
  have h0 : nameIn (Xml.elem "PARAMETER.REFERENCE".toList as ks) ["INSTANCENAME", "LOCALINSTANCEPATH", "INSTANCEPATH", "CLASSNAME", "LOCALCLASSPATH", "CLASSPATH"] = false := nameIn_lit _ _ _ _ _ (by decide)
  have h1 : ¬ "PARAMETER.REFERENCE".toList = "INSTANCE".toList := by decide
  have h2 : ¬ "PARAMETER.REFERENCE".toList = "CLASS".toList := by decide
  have h3 : nameIn (Xml.elem "PARAMETER.REFERENCE".toList as ks) ["VALUE.NAMEDINSTANCE", "VALUE.INSTANCEWITHPATH", "VALUE.OBJECTWITHLOCALPATH"] = false := nameIn_lit _ _ _ _ _ (by decide)
  have h4 : ¬ "PARAMETER.REFERENCE".toList = "PROPERTY".toList := by decide
  have h5 : ¬ "PARAMETER.REFERENCE".toList = "PROPERTY.ARRAY".toList := by decide
  have h6 : ¬ "PARAMETER.REFERENCE".toList = "PROPERTY.REFERENCE".toList := by decide
  have h7 : ¬ "PARAMETER.REFERENCE".toList = "METHOD".toList := by decide
  have h8 : nameIn (Xml.elem "PARAMETER.REFERENCE".toList as ks) ["PARAMETER", "PARAMETER.REFERENCE", "PARAMETER.ARRAY", "PARAMETER.REFARRAY"] = true := nameIn_lit _ _ _ _ _ (by decide)
  simp only [decodeTop]
  simp only [h0, if_neg h1, if_neg h2, h3, if_neg h4, if_neg h5, if_neg h6, if_neg h7, h8, Bool.false_eq_true, if_false, if_true]

theorem decodeTop_PARAMETER_ARRAY (as) (ks : List Xml) :
    decodeTop C emb (.elem "PARAMETER.ARRAY".toList as ks) =
      (do let p ← decParameter C (.elem "PARAMETER.ARRAY".toList as ks); pure (.param p)) := by
  have h0 : nameIn (Xml.elem "PARAMETER.ARRAY".toList as ks) ["INSTANCENAME", "LOCALINSTANCEPATH", "INSTANCEPATH", "CLASSNAME", "LOCALCLASSPATH", "CLASSPATH"] = false := nameIn_lit _ _ _ _ _ (by decide)
  have h1 : ¬ "PARAMETER.ARRAY".toList = "INSTANCE".toList := by decide
  have h2 : ¬ "PARAMETER.ARRAY".toList = "CLASS".toList := by decide
  have h3 : nameIn (Xml.elem "PARAMETER.ARRAY".toList as ks) ["VALUE.NAMEDINSTANCE", "VALUE.INSTANCEWITHPATH", "VALUE.OBJECTWITHLOCALPATH"] = false := nameIn_lit _ _ _ _ _ (by decide)
  have h4 : ¬ "PARAMETER.ARRAY".toList = "PROPERTY".toList := by decide
  have h5 : ¬ "PARAMETER.ARRAY".toList = "PROPERTY.ARRAY".toList := by decide
  have h6 : ¬ "PARAMETER.ARRAY".toList = "PROPERTY.REFERENCE".toList := by decide
  have h7 : ¬ "PARAMETER.ARRAY".toList = "METHOD".toList := by decide
  have h8 : nameIn (Xml.elem "PARAMETER.ARRAY".toList as ks) ["PARAMETER", "PARAMETER.REFERENCE", "PARAMETER.ARRAY", "PARAMETER.REFARRAY"] = true := nameIn_lit _ _ _ _ _ (by decide)
  simp only [decodeTop]
  simp only [h0, if_neg h1, if_neg h2, h3, if_neg h4, if_neg h5, if_neg h6, if_neg h7, h8, Bool.false_eq_true, if_false, if_true]

theorem decodeTop_PARAMETER_REFARRAY (as) (ks : List Xml) :
    decodeTop C emb (.elem "PARAMETER.REFARRAY".toList as ks) =
      (do let p ← decParameter C (.elem "PARAMETER.REFARRAY".toList as ks); pure (.param p)) := by
  have h0 : nameIn (Xml.elem "PARAMETER.REFARRAY".toList as ks) ["INSTANCENAME", "LOCALINSTANCEPATH", "INSTANCEPATH", "CLASSNAME", "LOCALCLASSPATH", "CLASSPATH"] = false := nameIn_lit _ _ _ _ _ (by decide)
  have h1 : ¬ "PARAMETER.REFARRAY".toList = "INSTANCE".toList := by decide
  have h2 : ¬ "PARAMETER.REFARRAY".toList = "CLASS".toList := by decide
  have h3 : nameIn (Xml.elem "PARAMETER.REFARRAY".toList as ks) ["VALUE.NAMEDINSTANCE", "VALUE.INSTANCEWITHPATH", "VALUE.OBJECTWITHLOCALPATH"] = false := nameIn_lit _ _ _ _ _ (by decide)
  have h4 : ¬ "PARAMETER.REFARRAY".toList = "PROPERTY".toList := by decide
  have h5 : ¬ "PARAMETER.REFARRAY".toList = "PROPERTY.ARRAY".toList := by decide
  have h6 : ¬ "PARAMETER.REFARRAY".toList = "PROPERTY.REFERENCE".toList := by decide
  have h7 : ¬ "PARAMETER.REFARRAY".toList = "METHOD".toList := by decide
  have h8 : nameIn (Xml.elem "PARAMETER.REFARRAY".toList as ks) ["PARAMETER", "PARAMETER.REFERENCE", "PARAMETER.ARRAY", "PARAMETER.REFARRAY"] = true := nameIn_lit _ _ _ _ _ (by decide)
  simp only [decodeTop]
  simp only [h0, if_neg h1, if_neg h2, h3, if_neg h4, if_neg h5, if_neg h6, if_neg h7, h8, Bool.false_eq_true, if_false, if_true]

theorem decodeTop_QUALIFIER (as) (ks : List Xml) :
    decodeTop C emb (.elem "QUALIFIER".toList as ks) =
      (do let q ← decQualifier C (.elem "QUALIFIER".toList as ks); pure (.qual q)) := by
  have h0 : nameIn (Xml.elem "QUALIFIER".toList as ks) ["INSTANCENAME", "LOCALINSTANCEPATH", "INSTANCEPATH", "CLASSNAME", "LOCALCLASSPATH", "CLASSPATH"] = false := nameIn_lit _ _ _ _ _ (by decide)
  have h1 : ¬ "QUALIFIER".toList = "INSTANCE".toList := by decide
  have h2 : ¬ "QUALIFIER".toList = "CLASS".toList := by decide
  have h3 : nameIn (Xml.elem "QUALIFIER".toList as ks) ["VALUE.NAMEDINSTANCE", "VALUE.INSTANCEWITHPATH", "VALUE.OBJECTWITHLOCALPATH"] = false := nameIn_lit _ _ _ _ _ (by decide)
  have h4 : ¬ "QUALIFIER".toList = "PROPERTY".toList := by decide
  have h5 : ¬ "QUALIFIER".toList = "PROPERTY.ARRAY".toList := by decide
  have h6 : ¬ "QUALIFIER".toList = "PROPERTY.REFERENCE".toList := by decide
  have h7 : ¬ "QUALIFIER".toList = "METHOD".toList := by decide
  have h8 : nameIn (Xml.elem "QUALIFIER".toList as ks) ["PARAMETER", "PARAMETER.REFERENCE", "PARAMETER.ARRAY", "PARAMETER.REFARRAY"] = false := nameIn_lit _ _ _ _ _ (by decide)
  simp only [decodeTop]
  simp only [h0, if_neg h1, if_neg h2, h3, if_neg h4, if_neg h5, if_neg h6, if_neg h7, h8, if_pos (rfl : "QUALIFIER".toList = "QUALIFIER".toList), Bool.false_eq_true, if_false, if_true]

theorem decodeTop_QUALIFIER_DECLARATION (as) (ks : List Xml) :
    decodeTop C emb (.elem "QUALIFIER.DECLARATION".toList as ks) =
      (do let q ← decQualDecl C (.elem "QUALIFIER.DECLARATION".toList as ks); pure (.qdecl q)) := by
  have h0 : nameIn (Xml.elem "QUALIFIER.DECLARATION".toList as ks) ["INSTANCENAME", "LOCALINSTANCEPATH", "INSTANCEPATH", "CLASSNAME", "LOCALCLASSPATH", "CLASSPATH"] = false := nameIn_lit _ _ _ _ _ (by decide)
  have h1 : ¬ "QUALIFIER.DECLARATION".toList = "INSTANCE".toList := by decide
  have h2 : ¬ "QUALIFIER.DECLARATION".toList = "CLASS".toList := by decide
  have h3 : nameIn (Xml.elem "QUALIFIER.DECLARATION".toList as ks) ["VALUE.NAMEDINSTANCE", "VALUE.INSTANCEWITHPATH", "VALUE.OBJECTWITHLOCALPATH"] = false := nameIn_lit _ _ _ _ _ (by decide)
  have h4 : ¬ "QUALIFIER.DECLARATION".toList = "PROPERTY".toList := by decide
  have h5 : ¬ "QUALIFIER.DECLARATION".toList = "PROPERTY.ARRAY".toList := by decide
  have h6 : ¬ "QUALIFIER.DECLARATION".toList = "PROPERTY.REFERENCE".toList := by decide
  have h7 : ¬ "QUALIFIER.DECLARATION".toList = "METHOD".toList := by decide
  have h8 : nameIn (Xml.elem "QUALIFIER.DECLARATION".toList as ks) ["PARAMETER", "PARAMETER.REFERENCE", "PARAMETER.ARRAY", "PARAMETER.REFARRAY"] = false := nameIn_lit _ _ _ _ _ (by decide)
  have h9 : ¬ "QUALIFIER.DECLARATION".toList = "QUALIFIER".toList := by decide
  simp only [decodeTop]
  simp only [h0, if_neg h1, if_neg h2, h3, if_neg h4, if_neg h5, if_neg h6, if_neg h7, h8, if_neg h9, if_pos (rfl : "QUALIFIER.DECLARATION".toList = "QUALIFIER.DECLARATION".toList), Bool.false_eq_true, if_false, if_true]

theorem checkNode_valinst (n : String) (pn inn : Str) (pas ias) (pks iks : List Xml) :
    checkNode (.elem n.toList [] [.elem pn pas pks, .elem inn ias iks]) (String.ofList n.toList) [] [] none false =
      .ok ([], [.elem pn pas pks, .elem inn ias iks]) := by
  rw [String.ofList_toList]
  exact checkNode_ok n [] _ [] [] none false attrKeysOk_nil rfl
    (Or.inr (by rw [noText_cons_elem, noText_cons_elem]; rfl))

theorem decodeTop_NAMEDINSTANCE (pn inn : Str) (pas ias) (pks iks : List Xml) (path : Path)
    (c : Str) (x : Option Path) (ps : List Prop_) (qs : List Qual)
    (hp : decInstanceName C (.elem pn pas pks) = .ok path)
    (hi : decInstance C emb (.elem inn ias iks) = .ok (.mk c x ps qs)) :
    decodeTop C emb (.elem "VALUE.NAMEDINSTANCE".toList [] [.elem pn pas pks, .elem inn ias iks]) =
      .ok (.inst (.mk c (some path) ps qs)) := by
  have h0 : nameIn (Xml.elem "VALUE.NAMEDINSTANCE".toList [] [.elem pn pas pks, .elem inn ias iks])
      ["INSTANCENAME", "LOCALINSTANCEPATH", "INSTANCEPATH", "CLASSNAME", "LOCALCLASSPATH", "CLASSPATH"] = false :=
    nameIn_lit _ _ _ _ _ (by decide)
  have h1 : ¬ "VALUE.NAMEDINSTANCE".toList = "INSTANCE".toList := by decide
  have h2 : ¬ "VALUE.NAMEDINSTANCE".toList = "CLASS".toList := by decide
  have h3 : nameIn (Xml.elem "VALUE.NAMEDINSTANCE".toList [] [.elem pn pas pks, .elem inn ias iks])
      ["VALUE.NAMEDINSTANCE", "VALUE.INSTANCEWITHPATH", "VALUE.OBJECTWITHLOCALPATH"] = true :=
    nameIn_lit _ _ _ _ _ (by decide)
  simp only [decodeTop]
  simp only [h0, h3, if_neg h1, if_neg h2, Bool.false_eq_true, if_false, if_true,
    checkNode_valinst "VALUE.NAMEDINSTANCE", bind_ok, elemKids_cons_elem, elemKids_nil,
    if_pos (rfl : "VALUE.NAMEDINSTANCE".toList = "VALUE.NAMEDINSTANCE".toList), hp, hi, pure_eq_ok]

theorem decodeTop_INSTANCEWITHPATH (pn inn : Str) (pas ias) (pks iks : List Xml) (path : Path)
    (c : Str) (x : Option Path) (ps : List Prop_) (qs : List Qual) (hpn : pn = "INSTANCEPATH".toList)
    (hp : decPathAny C (.elem pn pas pks) = .ok path)
    (hi : decInstance C emb (.elem inn ias iks) = .ok (.mk c x ps qs)) :
    decodeTop C emb (.elem "VALUE.INSTANCEWITHPATH".toList [] [.elem pn pas pks, .elem inn ias iks]) =
      .ok (.inst (.mk c (some path) ps qs)) := by
  have h0 : nameIn (Xml.elem "VALUE.INSTANCEWITHPATH".toList [] [.elem pn pas pks, .elem inn ias iks])
      ["INSTANCENAME", "LOCALINSTANCEPATH", "INSTANCEPATH", "CLASSNAME", "LOCALCLASSPATH", "CLASSPATH"] = false :=
    nameIn_lit _ _ _ _ _ (by decide)
  have h1 : ¬ "VALUE.INSTANCEWITHPATH".toList = "INSTANCE".toList := by decide
  have h2 : ¬ "VALUE.INSTANCEWITHPATH".toList = "CLASS".toList := by decide
  have h3 : nameIn (Xml.elem "VALUE.INSTANCEWITHPATH".toList [] [.elem pn pas pks, .elem inn ias iks])
      ["VALUE.NAMEDINSTANCE", "VALUE.INSTANCEWITHPATH", "VALUE.OBJECTWITHLOCALPATH"] = true :=
    nameIn_lit _ _ _ _ _ (by decide)
  have h4 : ¬ "VALUE.INSTANCEWITHPATH".toList = "VALUE.NAMEDINSTANCE".toList := by decide
  have h5 : (Xml.elem pn pas pks).name = "INSTANCEPATH".toList := hpn
  simp only [decodeTop]
  simp only [h0, h3, if_neg h1, if_neg h2, Bool.false_eq_true, if_false, if_true,
    checkNode_valinst "VALUE.INSTANCEWITHPATH", bind_ok, elemKids_cons_elem, elemKids_nil, if_neg h4,
    if_pos (rfl : "VALUE.INSTANCEWITHPATH".toList = "VALUE.INSTANCEWITHPATH".toList), if_pos h5, hp, hi, pure_eq_ok]

theorem decodeTop_OBJECTWITHLOCALPATH (pn inn : Str) (pas ias) (pks iks : List Xml) (path : Path)
    (c : Str) (x : Option Path) (ps : List Prop_) (qs : List Qual) (hpn : pn = "LOCALINSTANCEPATH".toList)
    (hp : decPathAny C (.elem pn pas pks) = .ok path)
    (hi : decInstance C emb (.elem inn ias iks) = .ok (.mk c x ps qs)) :
    decodeTop C emb (.elem "VALUE.OBJECTWITHLOCALPATH".toList [] [.elem pn pas pks, .elem inn ias iks]) =
      .ok (.inst (.mk c (some path) ps qs)) := by
  have h0 : nameIn (Xml.elem "VALUE.OBJECTWITHLOCALPATH".toList [] [.elem pn pas pks, .elem inn ias iks])
      ["INSTANCENAME", "LOCALINSTANCEPATH", "INSTANCEPATH", "CLASSNAME", "LOCALCLASSPATH", "CLASSPATH"] = false :=
    nameIn_lit _ _ _ _ _ (by decide)
  have h1 : ¬ "VALUE.OBJECTWITHLOCALPATH".toList = "INSTANCE".toList := by decide
  have h2 : ¬ "VALUE.OBJECTWITHLOCALPATH".toList = "CLASS".toList := by decide
  have h3 : nameIn (Xml.elem "VALUE.OBJECTWITHLOCALPATH".toList [] [.elem pn pas pks, .elem inn ias iks])
      ["VALUE.NAMEDINSTANCE", "VALUE.INSTANCEWITHPATH", "VALUE.OBJECTWITHLOCALPATH"] = true :=
    nameIn_lit _ _ _ _ _ (by decide)
  have h4 : ¬ "VALUE.OBJECTWITHLOCALPATH".toList = "VALUE.NAMEDINSTANCE".toList := by decide
  have h4' : ¬ "VALUE.OBJECTWITHLOCALPATH".toList = "VALUE.INSTANCEWITHPATH".toList := by decide
  have h5 : (Xml.elem pn pas pks).name = "LOCALINSTANCEPATH".toList := hpn
  simp only [decodeTop]
  simp only [h0, h3, if_neg h1, if_neg h2, Bool.false_eq_true, if_false, if_true,
    checkNode_valinst "VALUE.OBJECTWITHLOCALPATH", bind_ok, elemKids_cons_elem, elemKids_nil, if_neg h4, if_neg h4',
    if_pos h5, hp, hi, pure_eq_ok]

end

end Proofs.CimXml
