/-
C10 — the downward subclass walk of the code (Model/StoreSubclass.lean) selects the same classes as the upward
walk `descends` of Model/Store.lean, for every class store with unique (case-insensitive) class names.
-/
import Pywbem.Model.StoreSubclass
import Proofs.Lemmas.Store
set_option linter.unusedSimpArgs false
set_option linter.unusedVariables false

namespace Proofs.Store
open Pywbem.Proto Pywbem.Model.Store Pywbem.Model.StoreSpec Pywbem.Generated.Store

theorem findCls_of_mem {cs : List Cls} (hu : cs.Pairwise (fun a b => lower a.name ≠ lower b.name)) {c : Cls} (hc : c ∈ cs)
    {n : Name} (hn : lower c.name = lower n) : findCls cs n = some c := by
  unfold findCls
  cases hf : cs.find? (fun x => nameEq x.name n) with
  | none =>
    have := List.find?_eq_none.mp hf c hc
    simp [nameEq, hn] at this
  | some c' =>
    have hc' := List.mem_of_find?_eq_some hf
    have hn' : lower c'.name = lower n := by simpa [nameEq] using List.find?_some hf
    by_cases heq : c' = c
    · rw [heq]
    · exfalso
      rcases List.mem_iff_getElem.mp hc with ⟨i, hi, rfl⟩
      rcases List.mem_iff_getElem.mp hc' with ⟨j, hj, rfl⟩
      have hij : i ≠ j := fun h => heq (by subst h; rfl)
      rcases Nat.lt_or_gt_of_ne hij with hlt | hgt
      · exact (List.pairwise_iff_getElem.mp hu i j hi hj hlt) (hn.trans hn'.symm)
      · exact (List.pairwise_iff_getElem.mp hu j i hj hi hgt) (hn'.trans hn.symm)

/-- one step down = one step up -/
theorem mem_children {cs : List Cls} {n x : Name} (h : x ∈ children cs n) :
    ∃ c ∈ cs, c.name = x ∧ ∃ s, c.super = some s ∧ lower s = lower n := by
  unfold children at h
  obtain ⟨c, hc, rfl⟩ := List.mem_map.mp h
  have ⟨hm, hp⟩ := List.mem_filter.mp hc
  cases hs : c.super with
  | none => simp [hs] at hp
  | some s => exact ⟨c, hm, rfl, s, hs, by simpa [hs, nameEq] using hp⟩

theorem children_of {cs : List Cls} {c : Cls} (hc : c ∈ cs) {s n : Name} (hs : c.super = some s) (hn : lower s = lower n) :
    c.name ∈ children cs n := by
  unfold children
  exact List.mem_map.mpr ⟨c, List.mem_filter.mpr ⟨hc, by simp [hs, nameEq, hn]⟩, rfl⟩

theorem descends_mono (cs : List Cls) : ∀ (f : Nat) (c t : Name), descends cs f c t = true → descends cs (f + 1) c t = true := by
  intro f
  induction f with
  | zero => intro c t h; simp [descends] at h ⊢; exact Or.inl h
  | succ n ih =>
    intro c t h
    simp only [descends, Bool.or_eq_true] at h ⊢
    rcases h with h | h
    · exact Or.inl h
    · right
      cases hf : findCls cs c with
      | none => simp [hf] at h
      | some cl =>
        simp only [hf] at h ⊢
        cases hs : cl.super with
        | none => simp [hs] at h
        | some s => simp only [hs] at h ⊢; exact ih s t h

theorem descends_mono' (cs : List Cls) (c t : Name) {f g : Nat} (hfg : f ≤ g) (h : descends cs f c t = true) :
    descends cs g c t = true := by
  induction hfg with
  | refl => exact h
  | step _ ih => exact descends_mono cs _ c t ih

/-- if `x` walks up to `y` in `n` steps and the superclass of `y` is `t`, then `x` walks up to `t` in `n + 1` steps -/
theorem descends_step_up (cs : List Cls) {y t : Name} {cy : Cls} {s : Name} (hy : findCls cs y = some cy)
    (hs : cy.super = some s) (hl : lower s = lower t) :
    ∀ (n : Nat) (x : Name), descends cs n x y = true → descends cs (n + 1) x t = true := by
  have base : ∀ (m : Nat) (x : Name), nameEq x y = true → descends cs (m + 1) x t = true := by
    intro m x hxy
    simp only [descends, Bool.or_eq_true]
    right
    rw [findCls_congr cs (nameEq_iff.mp hxy), hy]
    simp only [hs]
    cases m with
    | zero => simp [descends, nameEq, hl]
    | succ k => simp [descends, nameEq, hl]
  intro n
  induction n with
  | zero => intro x h; exact base 0 x (by simpa [descends] using h)
  | succ k ih =>
    intro x h
    simp only [descends, Bool.or_eq_true] at h
    rcases h with h | h
    · exact base (k + 1) x h
    · cases hf : findCls cs x with
      | none => simp [hf] at h
      | some cl =>
        simp only [hf] at h
        cases hsx : cl.super with
        | none => simp [hsx] at h
        | some p =>
          simp only [hsx] at h
          have := ih p h
          simp only [descends, Bool.or_eq_true]
          right
          rw [hf]
          simp only [hsx]
          exact this

/-- walking down from `t` reaches only classes that walk up to `t`, in as many steps -/
theorem down_sub_up (cs : List Cls) (hu : cs.Pairwise (fun a b => lower a.name ≠ lower b.name)) :
    ∀ (f : Nat) (t x : Name), x ∈ subclassNames cs f t → descends cs f x t = true := by
  intro f
  induction f with
  | zero => intro t x h; simp [subclassNames] at h
  | succ n ih =>
    intro t x h
    simp only [subclassNames, List.mem_append, List.mem_flatMap] at h
    rcases h with h | ⟨y, hy, hxy⟩
    · obtain ⟨c, hc, rfl, s, hs, hl⟩ := mem_children h
      exact descends_step_up cs (findCls_of_mem hu hc rfl) hs hl n c.name
        (descends_mono' cs _ _ (Nat.zero_le n) (by simp [descends, nameEq]))
    · obtain ⟨c, hc, rfl, s, hs, hl⟩ := mem_children hy
      exact descends_step_up cs (findCls_of_mem hu hc rfl) hs hl n x (ih c.name x hxy)

/-- a child of a class reached in `f` levels is reached in `f + 1` levels -/
theorem sub_step (cs : List Cls) : ∀ (f : Nat) (t y z : Name), y ∈ subclassNames cs f t → z ∈ children cs y →
    z ∈ subclassNames cs (f + 1) t := by
  intro f
  induction f with
  | zero => intro t y z h; simp [subclassNames] at h
  | succ k ih =>
    intro t y z hy hz
    simp only [subclassNames, List.mem_append, List.mem_flatMap] at hy
    rw [subclassNames]
    simp only [List.mem_append, List.mem_flatMap]
    right
    rcases hy with hy | ⟨w, hw, hyw⟩
    · exact ⟨y, hy, by rw [subclassNames]; exact List.mem_append.mpr (Or.inl hz)⟩
    · exact ⟨w, hw, ih w y z hyw hz⟩

/-- every class that walks up to `t` (and is not `t`) is reached walking down from `t`, in as many levels -/
theorem up_sub_down (cs : List Cls) : ∀ (f : Nat) (t x : Name), descends cs f x t = true → nameEq x t = false →
    ∃ y ∈ subclassNames cs f t, nameEq y x = true := by
  intro f
  induction f with
  | zero => intro t x h hn; simp [descends] at h; rw [h] at hn; cases hn
  | succ k ih =>
    intro t x h hn
    simp only [descends, hn, Bool.false_or] at h
    cases hf : findCls cs x with
    | none => simp [hf] at h
    | some cl =>
      simp only [hf] at h
      cases hs : cl.super with
      | none => simp [hs] at h
      | some s =>
        simp only [hs] at h
        have hcl := findCls_some hf
        by_cases hst : nameEq s t = true
        · refine ⟨cl.name, ?_, nameEq_iff.mpr hcl.2⟩
          rw [subclassNames]
          exact List.mem_append.mpr (Or.inl (children_of hcl.1 hs (nameEq_iff.mp hst)))
        · obtain ⟨y, hy, hys⟩ := ih t s h (by simpa using hst)
          exact ⟨cl.name, sub_step cs k t y cl.name hy (children_of hcl.1 hs (nameEq_iff.mp hys).symm),
            nameEq_iff.mpr hcl.2⟩

/-- **the downward walk of the code and the upward walk of the model select the same instances** -/
theorem inEnumDown_eq_descends (cs : List Cls) (hu : cs.Pairwise (fun a b => lower a.name ≠ lower b.name))
    (t c : Name) : inEnumDown cs t c = descends cs cs.length c t := by
  unfold inEnumDown
  cases hd : descends cs cs.length c t with
  | true =>
    by_cases hn : nameEq c t = true
    · apply List.any_eq_true.mpr
      exact ⟨t, by simp, by rw [nameEq_iff] at hn ⊢; exact hn.symm⟩
    · obtain ⟨y, hy, hyc⟩ := up_sub_down cs _ t c hd (by simpa using hn)
      exact List.any_eq_true.mpr ⟨y, by simp [hy], hyc⟩
  | false =>
    cases ha : (subclassNames cs cs.length t ++ [t]).any (fun n => nameEq n c) with
    | false => rfl
    | true =>
      exfalso
      obtain ⟨y, hy, hyc⟩ := List.any_eq_true.mp ha
      rcases List.mem_append.mp hy with hy | hy
      · have := down_sub_up cs hu _ t y hy
        rw [descends_congr cs _ (nameEq_iff.mp hyc)] at this
        rw [this] at hd; cases hd
      · simp at hy; subst hy
        have : descends cs cs.length c y = true := by
          cases hl : cs.length with
          | zero => simp [descends]; rw [nameEq_iff] at hyc ⊢; exact hyc.symm
          | succ k => simp only [descends, Bool.or_eq_true]; left; rw [nameEq_iff] at hyc ⊢; exact hyc.symm
        rw [this] at hd; cases hd

end Proofs.Store
