/-
C01 — the decoder cannot tell text chunking apart: for EVERY tree `t` (not only encoder output)
`decodeTop C emb (normTree t) = decodeTop C emb t`, and the same for every decoder function.
`normTree` (Proofs/Lemmas/CimXml.lean) merges adjacent text children and drops empty ones — what the
SAX handler delivers.  The decoder reads children only through `Xml.elemKids`, `Xml.pcdata`, `noText`,
`firstElem`, `elemCount` and list walkers that skip text nodes.
Part 1: child-list facts, `checkNode`, namespaces / host / class name / VALUE / KEYVALUE, the path family.
-/
import Proofs.Lemmas.CimXml5

set_option linter.unusedSimpArgs false
set_option linter.unusedVariables false
set_option linter.unusedSectionVars false

namespace Proofs.CimXml
open Pywbem.Model Pywbem.Model.XmlText Pywbem.Proto

/-! ### child lists under `normKids` -/

theorem normTree_elem (n : Str) (as) (ks : List Xml) : normTree (.elem n as ks) = .elem n as (normKids [] ks) := by
  simp only [normTree]

theorem normTree_text (s : Str) : normTree (.text s) = .text s := by simp only [normTree]

theorem normTree_name (t : Xml) : (normTree t).name = t.name := by
  cases t with
  | text s => rw [normTree_text]
  | elem n as ks => rw [normTree_elem]; rfl

theorem normKids_nil (p : Str) : normKids p [] = flushT p [] := by simp only [normKids]
theorem normKids_text (p s : Str) (ks : List Xml) : normKids p (.text s :: ks) = normKids (p ++ s) ks := by
  simp only [normKids]
theorem normKids_elem (p : Str) (n : Str) (as) (kk ks : List Xml) :
    normKids p (.elem n as kk :: ks) = flushT p (.elem n as (normKids [] kk) :: normKids [] ks) := by
  simp only [normKids, normTree]

theorem elemKids_flushT (p : Str) (r : List Xml) : Xml.elemKids (flushT p r) = Xml.elemKids r := by
  unfold flushT; split <;> rfl

theorem pcdata_flushT (p : Str) (r : List Xml) : Xml.pcdata (flushT p r) = p ++ Xml.pcdata r := by
  unfold flushT; split
  · rename_i h; simp [h]
  · simp [Xml.pcdata]

theorem textBlank_append (a b : Str) : textBlank (a ++ b) = (textBlank a && textBlank b) := by
  simp [textBlank, List.all_append]

theorem noText_cons_text (s : Str) (r : List Xml) : noText (.text s :: r) = (textBlank s && noText r) := by
  simp [noText]

theorem noText_flushT (p : Str) (r : List Xml) : noText (flushT p r) = (textBlank p && noText r) := by
  unfold flushT; split
  · rename_i h; subst h; simp [textBlank]
  · exact noText_cons_text p r

theorem elemKids_normKids (ks : List Xml) : ∀ p, Xml.elemKids (normKids p ks) = (Xml.elemKids ks).map normTree := by
  induction ks with
  | nil => intro p; rw [normKids_nil, elemKids_flushT]; rfl
  | cons k ks ih =>
    intro p
    cases k with
    | text s => rw [normKids_text, ih]; rfl
    | elem n as kk =>
      rw [normKids_elem, elemKids_flushT, elemKids_cons_elem, elemKids_cons_elem, ih, List.map_cons, normTree_elem]

theorem pcdata_normKids (ks : List Xml) : ∀ p, Xml.pcdata (normKids p ks) = p ++ Xml.pcdata ks := by
  induction ks with
  | nil => intro p; rw [normKids_nil, pcdata_flushT]
  | cons k ks ih =>
    intro p
    cases k with
    | text s => rw [normKids_text, ih]; simp [Xml.pcdata]
    | elem n as kk =>
      rw [normKids_elem, pcdata_flushT]
      simp only [Xml.pcdata, ih, List.nil_append]

theorem noText_normKids (ks : List Xml) : ∀ p, noText (normKids p ks) = (textBlank p && noText ks) := by
  induction ks with
  | nil => intro p; rw [normKids_nil, noText_flushT]
  | cons k ks ih =>
    intro p
    cases k with
    | text s => rw [normKids_text, ih, textBlank_append, noText_cons_text, Bool.and_assoc]
    | elem n as kk =>
      rw [normKids_elem, noText_flushT, noText_cons_elem, noText_cons_elem, ih]
      simp [textBlank]

theorem noText_normKids0 (ks : List Xml) : noText (normKids [] ks) = noText ks := by
  rw [noText_normKids]; simp [textBlank]

theorem pcdata_normKids0 (ks : List Xml) : Xml.pcdata (normKids [] ks) = Xml.pcdata ks := by
  rw [pcdata_normKids]; rfl

theorem elemCount_normKids (ks : List Xml) (p : Str) : elemCount (normKids p ks) = elemCount ks := by
  unfold elemCount; rw [elemKids_normKids, List.length_map]

theorem firstElem_eq_head (ks : List Xml) : firstElem ks = (Xml.elemKids ks).head? := by
  induction ks with
  | nil => rfl
  | cons k ks ih => cases k with
    | text s => simp only [firstElem, Xml.elemKids, ih]
    | elem n as kk => rfl

theorem firstElem_normKids (ks : List Xml) (p : Str) : firstElem (normKids p ks) = (firstElem ks).map normTree := by
  rw [firstElem_eq_head, firstElem_eq_head, elemKids_normKids, List.head?_map]

theorem kidsOk_normKids (ks : List Xml) (p : Str) (a : List String) : kidsOk (normKids p ks) a = kidsOk ks a := by
  unfold kidsOk
  rw [elemKids_normKids, List.all_map]
  congr 1
  funext k
  simp only [Function.comp, normTree_name]

/-! ### checkNode -/

/-- the test `check_node` performs on an element -/
def cnOk (n : Str) (as : List (Str × Str)) (ks : List Xml) (nm : String) (req opt : List String)
    (allowed : Option (List String)) (pc : Bool) : Bool :=
  decide (n = nm.toList) && attrKeysOk as req opt &&
    (match allowed with | some a => kidsOk ks a | none => true) && (pc || noText ks)

theorem checkNode_eq (n : Str) (as : List (Str × Str)) (ks : List Xml) (nm : String) (req opt : List String)
    (allowed : Option (List String)) (pc : Bool) :
    checkNode (.elem n as ks) nm req opt allowed pc =
      if cnOk n as ks nm req opt allowed pc = true then .ok (as, ks) else perr := by
  unfold checkNode cnOk
  by_cases h1 : n = nm.toList
  · cases allowed with
    | none =>
      cases h2 : attrKeysOk as req opt <;> cases pc <;> cases h4 : noText ks <;> simp [h1, h2, h4] <;> rfl
    | some a =>
      cases h2 : attrKeysOk as req opt <;> cases h3 : kidsOk ks a <;> cases pc <;> cases h4 : noText ks <;>
        simp [h1, h2, h3, h4] <;> rfl
  · simp [h1]

theorem cnOk_norm (n : Str) (as : List (Str × Str)) (ks : List Xml) (nm : String) (req opt : List String)
    (allowed : Option (List String)) (pc : Bool) :
    cnOk n as (normKids [] ks) nm req opt allowed pc = cnOk n as ks nm req opt allowed pc := by
  unfold cnOk
  rw [noText_normKids0]
  cases allowed with
  | none => rfl
  | some a => simp only [kidsOk_normKids]

theorem perr_bind {α β} (f : α → R β) : ((perr : R α) >>= f) = perr := rfl

/-- `check_node` followed by the rest of a parse function -/
theorem bind_checkNode {β} (n : Str) (as : List (Str × Str)) (ks : List Xml) (nm : String) (req opt : List String)
    (allowed : Option (List String)) (pc : Bool) (f : List (Str × Str) × List Xml → R β) :
    (checkNode (.elem n as ks) nm req opt allowed pc >>= f) =
      if cnOk n as ks nm req opt allowed pc = true then f (as, ks) else perr := by
  rw [checkNode_eq]
  split <;> rfl

/-- shape of the invariance proofs: the check is the same, the continuation agrees -/
theorem bind_checkNode_norm {β} (n : Str) (as : List (Str × Str)) (ks : List Xml) (nm : String) (req opt : List String)
    (allowed : Option (List String)) (pc : Bool) (f : List (Str × Str) × List Xml → R β)
    (hf : f (as, normKids [] ks) = f (as, ks)) :
    (checkNode (normTree (.elem n as ks)) nm req opt allowed pc >>= f) =
      (checkNode (.elem n as ks) nm req opt allowed pc >>= f) := by
  rw [normTree_elem, bind_checkNode, bind_checkNode, cnOk_norm, hf]

/-! ### namespaces, host, class name, VALUE text, KEYVALUE -/

theorem decNamespaces_text (s : Str) (ks : List Xml) : decNamespaces (.text s :: ks) = decNamespaces ks := rfl

theorem decNamespaces_elem (n : Str) (as) (kk ks : List Xml) :
    decNamespaces (.elem n as kk :: ks) =
      (checkNode (.elem n as kk) "NAMESPACE" ["NAME"] [] (some []) false >>= fun x =>
        decNamespaces ks >>= fun rest => pure (getAttrD x.1 "NAME" "" :: rest)) := rfl

theorem decNamespaces_flushT (p : Str) (r : List Xml) : decNamespaces (flushT p r) = decNamespaces r := by
  unfold flushT; split <;> rfl

theorem decNamespaces_norm (ks : List Xml) : ∀ p, decNamespaces (normKids p ks) = decNamespaces ks := by
  induction ks with
  | nil => intro p; rw [normKids_nil, decNamespaces_flushT]
  | cons k ks ih =>
    intro p
    cases k with
    | text s => rw [normKids_text, ih, decNamespaces_text]
    | elem n as kk =>
      rw [normKids_elem, decNamespaces_flushT, decNamespaces_elem, decNamespaces_elem, ih,
        bind_checkNode, bind_checkNode, cnOk_norm]

theorem decLocalNsPath_norm (t : Xml) : decLocalNsPath (normTree t) = decLocalNsPath t := by
  cases t with
  | text s => rw [normTree_text]
  | elem n as ks =>
    unfold decLocalNsPath
    apply bind_checkNode_norm
    simp only [elemKids_normKids, decNamespaces_norm, List.isEmpty_map]

theorem decHost_norm (t : Xml) : decHost (normTree t) = decHost t := by
  cases t with
  | text s => rw [normTree_text]
  | elem n as ks =>
    unfold decHost
    apply bind_checkNode_norm
    simp only [pcdata_normKids0]

theorem decClassName_norm (t : Xml) : decClassName (normTree t) = decClassName t := by
  cases t with
  | text s => rw [normTree_text]
  | elem n as ks =>
    unfold decClassName
    apply bind_checkNode_norm
    rfl

theorem decValueText_norm (t : Xml) : decValueText (normTree t) = decValueText t := by
  cases t with
  | text s => rw [normTree_text]
  | elem n as ks =>
    unfold decValueText
    apply bind_checkNode_norm
    simp only [pcdata_normKids0]

theorem decKeyValue_norm (C : DecCodec) (t : Xml) : decKeyValue C (normTree t) = decKeyValue C t := by
  cases t with
  | text s => rw [normTree_text]
  | elem n as ks =>
    unfold decKeyValue
    apply bind_checkNode_norm
    simp only [pcdata_normKids0]

/-- a two-element child list, both read by invariant functions -/
theorem match_two_norm {β} (l : List Xml) (f : Xml → Xml → R β)
    (hf : ∀ a b, f (normTree a) (normTree b) = f a b) :
    (match l.map normTree with | [a, b] => f a b | _ => perr) = (match l with | [a, b] => f a b | _ => perr) := by
  rcases l with _ | ⟨a, _ | ⟨b, _ | ⟨c, r⟩⟩⟩
  · rfl
  · rfl
  · exact hf a b
  · rfl

theorem decNsPath_norm (t : Xml) : decNsPath (normTree t) = decNsPath t := by
  cases t with
  | text s => rw [normTree_text]
  | elem n as ks =>
    unfold decNsPath
    apply bind_checkNode_norm
    simp only [elemKids_normKids]
    exact match_two_norm _ (fun h l => do let host ← decHost h; let ns ← decLocalNsPath l; pure (host, ns))
      (by intro a b; simp only [decHost_norm, decLocalNsPath_norm])


/-! ### the path family (mutual structural induction over Xml / List Xml) -/

section
variable (C : DecCodec)

theorem decPathKids_text (s : Str) (ks : List Xml) : decPathKids C (.text s :: ks) = decPathKids C ks := by
  simp only [decPathKids]
theorem decValueRefKids_text (s : Str) (ks : List Xml) : decValueRefKids C (.text s :: ks) = decValueRefKids C ks := by
  simp only [decValueRefKids]
theorem decKeybindings_text (s : Str) (ks : List Xml) : decKeybindings C (.text s :: ks) = decKeybindings C ks := by
  simp only [decKeybindings]
theorem decInstNameKids_text (s : Str) (ks : List Xml) : decInstNameKids C (.text s :: ks) = decInstNameKids C ks := by
  simp only [decInstNameKids]

theorem decPathKids_flushT (p : Str) (r : List Xml) : decPathKids C (flushT p r) = decPathKids C r := by
  unfold flushT; split
  · rfl
  · exact decPathKids_text C p r
theorem decValueRefKids_flushT (p : Str) (r : List Xml) : decValueRefKids C (flushT p r) = decValueRefKids C r := by
  unfold flushT; split
  · rfl
  · exact decValueRefKids_text C p r
theorem decKeybindings_flushT (p : Str) (r : List Xml) : decKeybindings C (flushT p r) = decKeybindings C r := by
  unfold flushT; split
  · rfl
  · exact decKeybindings_text C p r
theorem decInstNameKids_flushT (p : Str) (r : List Xml) : decInstNameKids C (flushT p r) = decInstNameKids C r := by
  unfold flushT; split
  · rfl
  · exact decInstNameKids_text C p r

theorem decValueRefKids_elem (n : Str) (as) (kk ks : List Xml) :
    decValueRefKids C (.elem n as kk :: ks) =
      if n = "VALUE.REFERENCE".toList then
        (do let p ← decValueReference C (.elem n as kk); let rest ← decValueRefKids C ks; pure (p :: rest))
      else decValueRefKids C ks := by
  simp only [decValueRefKids]

theorem decKeybindings_elem (n : Str) (as) (kk ks : List Xml) :
    decKeybindings C (.elem n as kk :: ks) =
      if n ≠ "KEYBINDING".toList then perr
      else (do let kb ← decKeybinding C (.elem n as kk); let rest ← decKeybindings C ks; pure (kb :: rest)) := by
  simp only [decKeybindings]

theorem decInstNameKids_elem (n : Str) (as) (kk ks : List Xml) :
    decInstNameKids C (.elem n as kk :: ks) =
      if n = "INSTANCENAME".toList then
        (do let p ← decInstanceName C (.elem n as kk); let rest ← decInstNameKids C ks; pure (p :: rest))
      else decInstNameKids C ks := by
  simp only [decInstNameKids]

/-- the four tree-level path decoders agree on `t` and `normTree t` -/
def PathInvT (t : Xml) : Prop :=
  decValueReference C (normTree t) = decValueReference C t ∧
  decKeybinding C (normTree t) = decKeybinding C t ∧
  decInstanceName C (normTree t) = decInstanceName C t ∧
  decPathAny C (normTree t) = decPathAny C t

/-- the four list-level path decoders agree on `ks` and `normKids p ks` -/
def PathInvL (ks : List Xml) : Prop :=
  ∀ p, decPathKids C (normKids p ks) = decPathKids C ks ∧
    decValueRefKids C (normKids p ks) = decValueRefKids C ks ∧
    decKeybindings C (normKids p ks) = decKeybindings C ks ∧
    decInstNameKids C (normKids p ks) = decInstNameKids C ks

theorem pathInvT_text (s : Str) : PathInvT C (.text s) := by
  unfold PathInvT; rw [normTree_text]; exact ⟨rfl, rfl, rfl, rfl⟩

theorem pathInvT_elem (n : Str) (as) (ks : List Xml) (hk : PathInvL C ks) : PathInvT C (.elem n as ks) := by
  obtain ⟨hk1, hk2, hk3, hk4⟩ := hk []
  unfold PathInvT
  rw [normTree_elem]
  have h1 : decValueReference C (.elem n as (normKids [] ks)) = decValueReference C (.elem n as ks) := by
    simp only [decValueReference, noText_normKids0, elemCount_normKids, hk1]
  have h2 : decKeybinding C (.elem n as (normKids [] ks)) = decKeybinding C (.elem n as ks) := by
    simp only [decKeybinding, noText_normKids0, elemCount_normKids, firstElem_normKids, hk2]
    cases firstElem ks with
    | none => rfl
    | some k0 => simp only [Option.map_some, normTree_name, decKeyValue_norm]
  have h3 : decInstanceName C (.elem n as (normKids [] ks)) = decInstanceName C (.elem n as ks) := by
    simp only [decInstanceName, noText_normKids0, elemCount_normKids, firstElem_normKids, hk2, hk3]
    cases firstElem ks with
    | none => rfl
    | some k0 => simp only [Option.map_some, normTree_name, decKeyValue_norm]
  refine ⟨h1, h2, h3, ?_⟩
  have hcn : decClassName (.elem n as (normKids [] ks)) = decClassName (.elem n as ks) := by
    have := decClassName_norm (.elem n as ks); rwa [normTree_elem] at this
  simp only [decPathAny, h3, hcn, noText_normKids0, elemKids_normKids, hk4]
  rcases Xml.elemKids ks with _ | ⟨a, _ | ⟨b, _ | ⟨c, r⟩⟩⟩ <;>
    simp only [List.map_cons, List.map_nil, normTree_name, decLocalNsPath_norm, decNsPath_norm, decClassName_norm]

theorem pathInvL_nil : PathInvL C [] := by
  intro p
  rw [normKids_nil]
  exact ⟨decPathKids_flushT C p [], decValueRefKids_flushT C p [], decKeybindings_flushT C p [],
    decInstNameKids_flushT C p []⟩

theorem pathInvL_text (s : Str) (ks : List Xml) (h : PathInvL C ks) : PathInvL C (.text s :: ks) := by
  intro p
  obtain ⟨h1, h2, h3, h4⟩ := h (p ++ s)
  rw [normKids_text]
  exact ⟨by rw [h1, decPathKids_text], by rw [h2, decValueRefKids_text], by rw [h3, decKeybindings_text],
    by rw [h4, decInstNameKids_text]⟩

theorem pathInvL_elem (n : Str) (as) (kk ks : List Xml) (ht : PathInvT C (.elem n as kk)) (h : PathInvL C ks) :
    PathInvL C (.elem n as kk :: ks) := by
  intro p
  obtain ⟨h1, h2, h3, h4⟩ := h []
  obtain ⟨t1, t2, t3, t4⟩ := ht
  rw [normTree_elem] at t1 t2 t3 t4
  rw [normKids_elem]
  refine ⟨?_, ?_, ?_, ?_⟩
  · rw [decPathKids_flushT, decPathKids_cons, decPathKids_cons, t4, h1]
  · rw [decValueRefKids_flushT, decValueRefKids_elem, decValueRefKids_elem, t1, h2]
  · rw [decKeybindings_flushT, decKeybindings_elem, decKeybindings_elem, t2, h3]
  · rw [decInstNameKids_flushT, decInstNameKids_elem, decInstNameKids_elem, t3, h4]

mutual
theorem pathInvT : (t : Xml) → PathInvT C t
  | .text s => pathInvT_text C s
  | .elem n as ks => pathInvT_elem C n as ks (pathInvL ks)
theorem pathInvL : (ks : List Xml) → PathInvL C ks
  | [] => pathInvL_nil C
  | .text s :: ks => pathInvL_text C s ks (pathInvL ks)
  | .elem n as kk :: ks => pathInvL_elem C n as kk ks (pathInvT (.elem n as kk)) (pathInvL ks)
end

theorem decValueReference_norm (t : Xml) : decValueReference C (normTree t) = decValueReference C t := (pathInvT C t).1
theorem decInstanceName_norm (t : Xml) : decInstanceName C (normTree t) = decInstanceName C t := (pathInvT C t).2.2.1
theorem decPathAny_norm (t : Xml) : decPathAny C (normTree t) = decPathAny C t := (pathInvT C t).2.2.2

end

end Proofs.CimXml
