/-
C03 — `tocimxml()` of values, paths, qualifiers and properties has the structure the DTD demands
(`structNode Generated.dtd (enc… o) = true` under the `shape…` invariants), proved against the generated DTD
table: every fact about a declaration is obtained from the table by evaluation (`rfl` / `decide`), every
content-model fact by exhibiting membership in `Lang` and `matchRe_iff`.
-/
import Proofs.Lemmas.Dtd
import Pywbem.Model.Sendable
import Pywbem.Generated.Dtd

set_option linter.unusedSimpArgs false
set_option linter.unusedVariables false

namespace Proofs.DtdEnc
open Pywbem.Model Pywbem.Model.Dtd Pywbem.Model.XmlText Pywbem.Model.Sendable Proofs.Dtd
open Pywbem.Generated

abbrev D : Dtd := Pywbem.Generated.dtd

/-! ### generic facts about the validator -/

theorem sublist_nodup : ∀ {l₁ l₂ : List Name}, l₁.Sublist l₂ → nodupNames l₂ = true → nodupNames l₁ = true := by
  intro l₁ l₂ h
  induction h with
  | slnil => intro _; rfl
  | cons a _ ih => intro h2; simp [nodupNames] at h2; exact ih h2.2
  | @cons_cons l₁ l₂ a hs ih =>
    intro h2; simp [nodupNames] at h2 ⊢
    exact ⟨fun hm => h2.1 (hs.subset hm), ih h2.2⟩

/-- names of the #REQUIRED attributes -/
def requiredNames (decls : List AttDecl) : List Name := (decls.filter isRequired).map (·.name)

theorem requiredPresent_of {decls : List AttDecl} {as : List (Str × Str)}
    (h : ∀ n ∈ requiredNames decls, n ∈ as.map (·.1)) : requiredPresent decls as = true := by
  simp only [requiredPresent, List.all_eq_true]
  intro d hd
  by_cases hr : isRequired d = true
  · have : d.name ∈ requiredNames decls := by
      simp only [requiredNames, List.mem_map, List.mem_filter]
      exact ⟨d, ⟨hd, hr⟩, rfl⟩
    simp [hr, h _ this]
  · simp [hr]

theorem validAttrs_of {decls : List AttDecl} {as : List (Str × Str)} (full : List Name)
    (hall : as.all (attrOk decls) = true) (hsub : (as.map (·.1)).Sublist full) (hnd : nodupNames full = true)
    (hreq : ∀ n ∈ requiredNames decls, n ∈ as.map (·.1)) : validAttrs decls as = true := by
  simp [validAttrs, hall, sublist_nodup hsub hnd, requiredPresent_of hreq]

/-- attribute `k` is declared CDATA and not #FIXED: every value is allowed -/
def isCdata (decls : List AttDecl) (k : Name) : Bool :=
  match lookupAtt decls k with
  | some ⟨_, .cdata, .fixed _⟩ => false
  | some ⟨_, .cdata, _⟩ => true
  | _ => false

theorem attrOk_cdata {decls : List AttDecl} {k : Name} (h : isCdata decls k = true) (s : Str) :
    attrOk decls (k, s) = true := by
  unfold isCdata at h
  unfold attrOk
  split at h <;> simp_all [attValueOk]

/-- the values an enumerated, not #FIXED attribute may take -/
def enumVals (decls : List AttDecl) (k : Name) : List Name :=
  match lookupAtt decls k with
  | some ⟨_, .enum _, .fixed _⟩ => []
  | some ⟨_, .enum vals, _⟩ => vals
  | _ => []

theorem attrOk_enum {decls : List AttDecl} {k : Name} {v : Str} (h : (enumVals decls k).contains v = true) :
    attrOk decls (k, v) = true := by
  unfold enumVals at h
  unfold attrOk
  split at h <;> simp_all [attValueOk]

def boolVals : List Name := ["true".toList, "false".toList]

theorem all_optBoolAttr (decls : List AttDecl) (k : String) (v : Option Bool)
    (h : enumVals decls k.toList = boolVals) : (optBoolAttr k v).all (attrOk decls) = true := by
  cases v with
  | none => rfl
  | some b =>
    simp only [optBoolAttr, List.all_cons, List.all_nil, Bool.and_true]
    apply attrOk_enum
    rw [h]
    cases b <;> simp [boolAttr, boolVals]

theorem all_optAttr_cdata (decls : List AttDecl) (k : String) (v : Option Str) (h : isCdata decls k.toList = true) :
    (optAttr k v).all (attrOk decls) = true := by
  cases v with
  | none => rfl
  | some s => simp [optAttr, attrOk_cdata h]

theorem all_optAttr_enum (decls : List AttDecl) (k : String) (v : Option Str) (vals : List Name)
    (h : enumVals decls k.toList = vals) (hv : ∀ s, v = some s → vals.contains s = true) :
    (optAttr k v).all (attrOk decls) = true := by
  cases v with
  | none => rfl
  | some s =>
    simp only [optAttr, List.all_cons, List.all_nil, Bool.and_true]
    exact attrOk_enum (by rw [h]; exact hv s rfl)

theorem sub_optBoolAttr (k : String) (v : Option Bool) : ((optBoolAttr k v).map (·.1)).Sublist [k.toList] := by
  cases v <;> simp [optBoolAttr]
theorem sub_optAttr (k : String) (v : Option Str) : ((optAttr k v).map (·.1)).Sublist [k.toList] := by
  cases v <;> simp [optAttr]

/-- all children are elements -/
def allElems : List Xml → Bool
  | [] => true
  | .elem .. :: ks => allElems ks
  | .text _ :: _ => false

theorem allElems_append : ∀ (a b : List Xml), allElems (a ++ b) = (allElems a && allElems b)
  | [], b => by simp [allElems]
  | .elem .. :: a, b => by simp [allElems, allElems_append a b]
  | .text _ :: a, b => by simp [allElems]

theorem textsAll_of_allElems (p : Str → Bool) : ∀ (ks : List Xml), allElems ks = true → textsAll p ks = true
  | [], _ => rfl
  | .elem .. :: ks, h => by simp [allElems] at h; simp [textsAll, textsAll_of_allElems p ks h]
  | .text _ :: _, h => by simp [allElems] at h

theorem kidNames_append : ∀ (a b : List Xml), kidNames (a ++ b) = kidNames a ++ kidNames b
  | [], b => rfl
  | .elem .. :: a, b => by simp [kidNames, kidNames_append a b]
  | .text _ :: a, b => by simp [kidNames, kidNames_append a b]

theorem structNodes_append (d : Dtd) : ∀ (a b : List Xml), structNodes d (a ++ b) = (structNodes d a && structNodes d b)
  | [], b => by simp [structNodes]
  | k :: a, b => by simp [structNodes, structNodes_append d a b, Bool.and_assoc]

theorem struct_elem {n : Str} {as : List (Str × Str)} {ks : List Xml} (decl : ElemDecl)
    (hl : lookupElem D n = some decl) (ha : validAttrs decl.atts as = true)
    (hc : contentOk decl.content ks = true) (hk : structNodes D ks = true) :
    structNode D (.elem n as ks) = true := by
  simp [structNode, hl, ha, hc, hk]

theorem content_children {r : Re} {ks : List Xml} (he : allElems ks = true) (hm : Lang r (kidNames ks)) :
    contentOk (.children r) ks = true := by
  simp [contentOk, textsAll_of_allElems _ ks he, (matchRe_iff r _).mpr hm]

theorem validAttrs_nil_nil : validAttrs [] [] = true := by decide

theorem content_pcdata_text {c : Content} (h : c = .pcdata) (s : Str) : contentOk c [.text s] = true := by
  subst h; simp [contentOk, noElems]

theorem structNodes_cons (d : Dtd) (k : Xml) (ks : List Xml) :
    structNodes d (k :: ks) = (structNode d k && structNodes d ks) := by simp only [structNodes]

theorem structNodes_one {d : Dtd} {k : Xml} (h : structNode d k = true) : structNodes d [k] = true := by
  simp only [structNodes, h, Bool.and_self]

theorem structNodes_text (d : Dtd) (s : Str) : structNodes d [.text s] = true := by
  simp only [structNodes, structNode, Bool.and_self]

/-! ### VALUE, VALUE.NULL, namespaces -/

theorem struct_valueElem (s : Str) : structNode D (valueElem s) = true := by
  exact struct_elem dtdDecl_VALUE (by rfl) (by decide) (content_pcdata_text (by rfl) s) (structNodes_text D s)

theorem struct_nullItem : structNode D (if sendValueNull then E "VALUE.NULL" [] [] else E "VALUE" [] []) = true := by
  split
  · exact struct_elem dtdDecl_VALUE_NULL (by rfl) (by decide) (by decide) (by simp [structNodes])
  · exact struct_elem dtdDecl_VALUE (by rfl) (by decide) (by decide) (by simp [structNodes])

def valueNames : List Name := ["VALUE".toList, "VALUE.NULL".toList]

theorem nullItem_name : (if sendValueNull then E "VALUE.NULL" [] [] else E "VALUE" [] [] : Xml).name ∈ valueNames := by
  split <;> simp [E, Xml.name, valueNames]

theorem splitSlash_ne_nil : ∀ (s : Str), splitSlash s ≠ []
  | [] => by simp [splitSlash]
  | c :: cs => by
    simp only [splitSlash]
    split
    · simp
    · split <;> simp

def nsElems (l : List Str) : List Xml := l.map (fun n => E "NAMESPACE" [("NAME".toList, n)] [])

theorem nsElems_facts : ∀ (l : List Str), structNodes D (nsElems l) = true ∧ allElems (nsElems l) = true ∧
    kidNames (nsElems l) = List.replicate l.length "NAMESPACE".toList
  | [] => by simp [nsElems, structNodes, allElems, kidNames]
  | n :: l => by
    obtain ⟨h1, h2, h3⟩ := nsElems_facts l
    have hn : structNode D (E "NAMESPACE" [("NAME".toList, n)] []) = true := by
      apply struct_elem dtdDecl_NAMESPACE (by rfl)
      · apply validAttrs_of ["NAME".toList]
        · simp only [List.all_cons, List.all_nil, Bool.and_true]; exact attrOk_cdata (by rfl) _
        · simp
        · decide
        · have : requiredNames dtdDecl_NAMESPACE.atts = ["NAME".toList] := by rfl
          rw [this]; simp
      · decide
      · simp [structNodes]
    simp only [nsElems, List.map_cons] at h1 h2 h3 ⊢
    refine ⟨?_, ?_, ?_⟩
    · rw [structNodes_cons, hn, h1]; rfl
    · simp [E, allElems]; exact h2
    · simp [E, kidNames, List.replicate_succ]; exact h3

theorem struct_localNsPath (ns : Str) : structNode D (localNsPath ns) = true := by
  have hne := splitSlash_ne_nil ns
  obtain ⟨h1, h2, h3⟩ := nsElems_facts (splitSlash ns)
  unfold localNsPath
  apply struct_elem dtdDecl_LOCALNAMESPACEPATH (by rfl) (by decide)
  · apply content_children h2
    rw [h3]
    cases hs : splitSlash ns with
    | nil => exact absurd hs hne
    | cons a l =>
      have := lang_plus (Lang.sym "NAMESPACE".toList) (lang_star_replicate "NAMESPACE".toList l.length)
      simpa [List.replicate_succ] using this
  · exact h1

theorem struct_nsPath (host ns : Str) : structNode D (nsPath host ns) = true := by
  unfold nsPath
  apply struct_elem dtdDecl_NAMESPACEPATH (by rfl) (by decide)
  · apply content_children (by simp [E, localNsPath, allElems])
    have := lang_seq2 (Lang.sym "HOST".toList) (Lang.sym "LOCALNAMESPACEPATH".toList)
    simpa [E, localNsPath, kidNames] using this
  · have hh : structNode D (E "HOST" [] [.text host]) = true :=
      struct_elem dtdDecl_HOST (by rfl) (by decide) (content_pcdata_text (by rfl) host) (structNodes_text D host)
    rw [structNodes_cons, hh, structNodes_one (struct_localNsPath ns)]; rfl

/-! ### keybindings and paths -/

theorem intTy_isCimType (t : IntTy) : isCimType t.name = true := by cases t <;> decide

def valueTypes : List Name := ["string".toList, "boolean".toList, "numeric".toList]

theorem struct_keyval (nm txt : Str) (vt : String) (ty : Option Str) (hvt : valueTypes.contains vt.toList = true)
    (hty : ∀ t, ty = some t → cimTypes.contains t = true) : structNode D (encKey.keyval nm txt vt ty) = true := by
  unfold encKey.keyval
  have hkv : structNode D (E "KEYVALUE" ([("VALUETYPE".toList, vt.toList)] ++ optAttr "TYPE" ty) [.text txt]) = true := by
    apply struct_elem dtdDecl_KEYVALUE (by rfl)
    · apply validAttrs_of (["VALUETYPE".toList] ++ ["TYPE".toList])
      · simp only [List.all_append, Bool.and_eq_true, List.all_cons, List.all_nil, Bool.and_true]
        have hev : enumVals dtdDecl_KEYVALUE.atts "VALUETYPE".toList = valueTypes := by rfl
        refine ⟨attrOk_enum ?_, all_optAttr_enum _ _ _ cimTypes (by rfl) hty⟩
        rw [hev]; exact hvt
      · simp only [List.map_append]
        exact List.Sublist.append (by simp) (sub_optAttr _ _)
      · decide
      · have : requiredNames dtdDecl_KEYVALUE.atts = [] := by rfl
        rw [this]; simp
    · exact content_pcdata_text (by rfl) txt
    · exact structNodes_text D txt
  apply struct_elem dtdDecl_KEYBINDING (by rfl)
  · apply validAttrs_of ["NAME".toList]
    · simp only [List.all_cons, List.all_nil, Bool.and_true]; exact attrOk_cdata (by rfl) _
    · simp
    · decide
    · have : requiredNames dtdDecl_KEYBINDING.atts = ["NAME".toList] := by rfl
      rw [this]; simp
  · apply content_children (by simp [E, allElems])
    have : Lang (Re.alts [.sym "KEYVALUE".toList, .sym "VALUE.REFERENCE".toList]) ["KEYVALUE".toList] :=
      lang_alts_mem (by simp) (Lang.sym _)
    simpa [E, kidNames] using this
  · exact structNodes_one hkv

def pathNames : List Name :=
  ["CLASSPATH".toList, "LOCALCLASSPATH".toList, "CLASSNAME".toList, "INSTANCEPATH".toList,
   "LOCALINSTANCEPATH".toList, "INSTANCENAME".toList]

theorem encPath_name (C : Codec) (p : Path) : ∃ as ks n, encPath C p = .elem n as ks ∧ n ∈ pathNames := by
  cases p with
  | inst cls host ns keys =>
    cases ns with
    | none => exact ⟨_, _, _, by simp only [encPath, E]; rfl, by simp [pathNames]⟩
    | some n =>
      cases host with
      | none => exact ⟨_, _, _, by simp only [encPath, E]; rfl, by simp [pathNames]⟩
      | some h => exact ⟨_, _, _, by simp only [encPath, E]; rfl, by simp [pathNames]⟩
  | cls cls host ns =>
    cases ns with
    | none => exact ⟨_, _, _, by simp only [encPath, E]; rfl, by simp [pathNames]⟩
    | some n =>
      cases host with
      | none => exact ⟨_, _, _, by simp only [encPath, E]; rfl, by simp [pathNames]⟩
      | some h => exact ⟨_, _, _, by simp only [encPath, E]; rfl, by simp [pathNames]⟩

theorem struct_valueReference {x : Xml} (hx : structNode D x = true)
    (hn : ∃ as ks n, x = .elem n as ks ∧ n ∈ pathNames) : structNode D (E "VALUE.REFERENCE" [] [x]) = true := by
  obtain ⟨as, ks, n, rfl, hmem⟩ := hn
  apply struct_elem dtdDecl_VALUE_REFERENCE (by rfl) (by decide)
  · apply content_children (by simp [allElems])
    have : Lang (Re.alts (pathNames.map Re.sym)) [n] := by
      apply lang_alts_mem (r := .sym n) _ (Lang.sym n)
      exact List.mem_map.mpr ⟨n, hmem, rfl⟩
    simpa [kidNames, pathNames] using this
  · exact structNodes_one hx

theorem encKey_elem (C : Codec) (k : Key) : ∃ as ks, encKey C k = .elem "KEYBINDING".toList as ks := by
  cases k with
  | mk name v => cases v <;> exact ⟨_, _, by simp only [encKey, encKey.keyval, E]; rfl⟩

theorem encKeys_facts (C : Codec) : ∀ (ks : List Key), allElems (encKeys C ks) = true ∧
    kidNames (encKeys C ks) = List.replicate ks.length "KEYBINDING".toList
  | [] => by simp [encKeys, allElems, kidNames]
  | k :: ks => by
    obtain ⟨h1, h2⟩ := encKeys_facts C ks
    obtain ⟨as, kk, he⟩ := encKey_elem C k
    simp only [encKeys, he, allElems, kidNames, h1, h2, List.length_cons, List.replicate_succ]
    simp

theorem attrs_name_only {decl : ElemDecl} (k : String) (v : Str) (hc : isCdata decl.atts k.toList = true)
    (hr : requiredNames decl.atts = [k.toList]) : validAttrs decl.atts [(k.toList, v)] = true := by
  apply validAttrs_of [k.toList]
  · simp only [List.all_cons, List.all_nil, Bool.and_true]; exact attrOk_cdata hc _
  · simp
  · simp [nodupNames]
  · rw [hr]; simp

theorem struct_instanceName (C : Codec) (cls : Str) (keys : List Key) (hk : structNodes D (encKeys C keys) = true) :
    structNode D (E "INSTANCENAME" [("CLASSNAME".toList, cls)] (encKeys C keys)) = true := by
  obtain ⟨h1, h2⟩ := encKeys_facts C keys
  apply struct_elem dtdDecl_INSTANCENAME (by rfl) (attrs_name_only "CLASSNAME" cls (by rfl) (by rfl))
  · apply content_children h1
    rw [h2]
    exact lang_alts_mem (r := .star (.sym "KEYBINDING".toList)) (by simp) (lang_star_replicate _ _)
  · exact hk

theorem struct_className (cls : Str) : structNode D (E "CLASSNAME" [("NAME".toList, cls)] []) = true :=
  struct_elem dtdDecl_CLASSNAME (by rfl) (attrs_name_only "NAME" cls (by rfl) (by rfl)) (by decide) (by simp [structNodes])

theorem struct_pair {n : String} (decl : ElemDecl) {a b : Xml} {na nb : Name} {asa asb : List (Str × Str)}
    {ka kb : List Xml} (ha : a = .elem na asa ka) (hb : b = .elem nb asb kb)
    (hl : lookupElem D n.toList = some decl) (hat : validAttrs decl.atts [] = true)
    (hc : decl.content = .children (Re.seqs [.sym na, .sym nb]))
    (hsa : structNode D a = true) (hsb : structNode D b = true) : structNode D (E n [] [a, b]) = true := by
  subst ha hb
  apply struct_elem decl hl hat
  · rw [hc]
    apply content_children (by simp [allElems])
    have := lang_seq2 (Lang.sym na) (Lang.sym nb)
    simpa [kidNames] using this
  · rw [structNodes_cons, hsa, structNodes_one hsb]; rfl

mutual
theorem struct_encKey (C : Codec) : (k : Key) → shapeKey k = true → structNode D (encKey C k) = true
  | .mk name (.ref p), h => by
    have hp : shapePath p = true := by simpa [shapeKey] using h
    have := struct_encPath C p hp
    simp only [encKey]
    apply struct_elem dtdDecl_KEYBINDING (by rfl) (attrs_name_only "NAME" _ (by rfl) (by rfl))
    · apply content_children (by simp [E, allElems])
      have : Lang (Re.alts [.sym "KEYVALUE".toList, .sym "VALUE.REFERENCE".toList]) ["VALUE.REFERENCE".toList] :=
        lang_alts_mem (by simp) (Lang.sym _)
      simpa [E, kidNames] using this
    · exact structNodes_one (struct_valueReference this (encPath_name C p))
  | .mk name (.char16 s), _ => by simp only [encKey]; exact struct_keyval _ _ _ _ (by decide) (by intro t h; cases h; decide)
  | .mk name (.str s), _ => by simp only [encKey]; exact struct_keyval _ _ _ _ (by decide) (by intro t h; cases h; decide)
  | .mk name (.bool b), _ => by simp only [encKey]; exact struct_keyval _ _ _ _ (by decide) (by intro t h; cases h; decide)
  | .mk name (.dt s), _ => by simp only [encKey]; exact struct_keyval _ _ _ _ (by decide) (by intro t h; cases h; decide)
  | .mk name (.int t v), _ => by
    simp only [encKey]; exact struct_keyval _ _ _ _ (by decide) (by intro t' h; cases h; exact intTy_isCimType t)
  | .mk name (.real w bits), _ => by
    simp only [encKey]; exact struct_keyval _ _ _ _ (by decide) (by intro t h; cases h; cases w <;> decide)
  | .mk name (.pyint v), _ => by simp only [encKey]; exact struct_keyval _ _ _ _ (by decide) (by intro t h; cases h)
  | .mk name (.pyfloat bits), _ => by simp only [encKey]; exact struct_keyval _ _ _ _ (by decide) (by intro t h; cases h)
  | .mk name .null, h => by simp [shapeKey] at h
  | .mk name (.einst i), h => by simp [shapeKey] at h
  | .mk name (.ecls c), h => by simp [shapeKey] at h
theorem struct_encKeys (C : Codec) : (ks : List Key) → shapeKeys ks = true → structNodes D (encKeys C ks) = true
  | [], _ => by simp only [encKeys, structNodes]
  | k :: ks, h => by
    have h' : shapeKey k = true ∧ shapeKeys ks = true := by simpa [shapeKeys] using h
    simp only [encKeys]
    rw [structNodes_cons, struct_encKey C k h'.1, struct_encKeys C ks h'.2]; rfl
theorem struct_encPath (C : Codec) : (p : Path) → shapePath p = true → structNode D (encPath C p) = true
  | .inst cls host ns keys, h => by
    have hk : shapeKeys keys = true := by simpa [shapePath] using h
    have hin := struct_instanceName C cls keys (struct_encKeys C keys hk)
    cases ns with
    | none => simpa only [encPath] using hin
    | some n =>
      cases host with
      | none =>
        simp only [encPath]
        exact struct_pair dtdDecl_LOCALINSTANCEPATH (by simp only [localNsPath, E]; rfl) (by simp only [E]; rfl)
          (by rfl) (by decide) (by rfl) (struct_localNsPath n) hin
      | some hst =>
        simp only [encPath]
        exact struct_pair dtdDecl_INSTANCEPATH (by simp only [nsPath, E]; rfl) (by simp only [E]; rfl)
          (by rfl) (by decide) (by rfl) (struct_nsPath hst n) hin
  | .cls cls host ns, _ => by
    have hcn := struct_className cls
    cases ns with
    | none => simpa only [encPath] using hcn
    | some n =>
      cases host with
      | none =>
        simp only [encPath]
        exact struct_pair dtdDecl_LOCALCLASSPATH (by simp only [localNsPath, E]; rfl) (by simp only [E]; rfl)
          (by rfl) (by decide) (by rfl) (struct_localNsPath n) hcn
      | some hst =>
        simp only [encPath]
        exact struct_pair dtdDecl_CLASSPATH (by simp only [nsPath, E]; rfl) (by simp only [E]; rfl)
          (by rfl) (by decide) (by rfl) (struct_nsPath hst n) hcn
end

/-! ### values -/

theorem encArrItem_facts (C : Codec) (a : Atom) : structNode D (encArrItem C a) = true ∧
    ∃ as ks n, encArrItem C a = .elem n as ks ∧ n ∈ valueNames := by
  have hv : ∀ s, structNode D (valueElem s) = true ∧ ∃ as ks n, valueElem s = .elem n as ks ∧ n ∈ valueNames :=
    fun s => ⟨struct_valueElem s, _, _, _, by simp only [valueElem, E]; rfl, by simp [valueNames]⟩
  have hn : structNode D (if sendValueNull then E "VALUE.NULL" [] [] else E "VALUE" [] []) = true ∧
      ∃ as ks n, (if sendValueNull then E "VALUE.NULL" [] [] else E "VALUE" [] [] : Xml) = .elem n as ks ∧
        n ∈ valueNames := by
    refine ⟨struct_nullItem, ?_⟩
    split
    · exact ⟨_, _, _, by simp only [E]; rfl, by simp [valueNames]⟩
    · exact ⟨_, _, _, by simp only [E]; rfl, by simp [valueNames]⟩
  cases a <;> simp only [encArrItem] <;> first | exact hn | exact hv _

theorem lang_star_valueNames : ∀ (w : List Name), (∀ x ∈ w, x ∈ valueNames) →
    Lang (.star (Re.alts [.sym "VALUE".toList, .sym "VALUE.NULL".toList])) w := by
  intro w h
  apply lang_star_letters
  intro x hx
  have := h x hx
  simp [valueNames] at this
  rcases this with rfl | rfl
  · exact lang_alts_mem (r := .sym _) (by simp) (Lang.sym _)
  · exact lang_alts_mem (r := .sym _) (by simp) (Lang.sym _)

theorem encArrItems_facts (C : Codec) : ∀ (l : List Atom), structNodes D (encArrItems C l) = true ∧
    allElems (encArrItems C l) = true ∧ ∀ x ∈ kidNames (encArrItems C l), x ∈ valueNames
  | [] => by simp [encArrItems, structNodes, allElems, kidNames]
  | a :: l => by
    obtain ⟨h1, h2, h3⟩ := encArrItems_facts C l
    obtain ⟨hs, as, ks, n, he, hn⟩ := encArrItem_facts C a
    simp only [encArrItems]
    rw [structNodes_cons, hs, h1]
    rw [he]
    refine ⟨rfl, by simpa [allElems] using h2, ?_⟩
    intro x hx
    simp only [kidNames, List.mem_cons] at hx
    rcases hx with rfl | hx
    · exact hn
    · exact h3 x hx

theorem struct_valueArray (C : Codec) (l : List Atom) : structNode D (E "VALUE.ARRAY" [] (encArrItems C l)) = true := by
  obtain ⟨h1, h2, h3⟩ := encArrItems_facts C l
  exact struct_elem dtdDecl_VALUE_ARRAY (by rfl) (by decide) (content_children h2 (lang_star_valueNames _ h3)) h1

theorem encVal_cases (C : Codec) (v : Val) :
    (v = .null ∧ encVal C v = []) ∨
    (∃ p, v = .scalar (.ref p) ∧ encVal C v = [E "VALUE.REFERENCE" [] [encPath C p]]) ∨
    (∃ a, v = .scalar a ∧ isRef a = false ∧ encVal C v = [valueElem (atomText C a)]) ∨
    (∃ l, v = .array l ∧ encVal C v = [E "VALUE.ARRAY" [] (encArrItems C l)]) := by
  cases v with
  | null => exact .inl ⟨rfl, by simp only [encVal]⟩
  | array l => exact .inr (.inr (.inr ⟨l, rfl, by simp only [encVal]⟩))
  | scalar a =>
    cases a with
    | ref p => exact .inr (.inl ⟨p, rfl, by simp only [encVal]⟩)
    | _ => exact .inr (.inr (.inl ⟨_, rfl, by simp [isRef], by simp only [encVal]⟩))

/-- what the three kinds of value children look like to the validator -/
theorem value_child_scalar (C : Codec) (a : Atom) :
    structNodes D [valueElem (atomText C a)] = true ∧ allElems [valueElem (atomText C a)] = true ∧
    kidNames [valueElem (atomText C a)] = ["VALUE".toList] :=
  ⟨structNodes_one (struct_valueElem _), by simp [valueElem, E, allElems], by simp [valueElem, E, kidNames]⟩

theorem value_child_array (C : Codec) (l : List Atom) :
    structNodes D [E "VALUE.ARRAY" [] (encArrItems C l)] = true ∧ allElems [E "VALUE.ARRAY" [] (encArrItems C l)] = true ∧
    kidNames [E "VALUE.ARRAY" [] (encArrItems C l)] = ["VALUE.ARRAY".toList] :=
  ⟨structNodes_one (struct_valueArray C l), by simp [E, allElems], by simp [E, kidNames]⟩

theorem value_child_ref (C : Codec) (p : Path) (hp : shapePath p = true) :
    structNodes D [E "VALUE.REFERENCE" [] [encPath C p]] = true ∧ allElems [E "VALUE.REFERENCE" [] [encPath C p]] = true ∧
    kidNames [E "VALUE.REFERENCE" [] [encPath C p]] = ["VALUE.REFERENCE".toList] :=
  ⟨structNodes_one (struct_valueReference (struct_encPath C p hp) (encPath_name C p)), by simp [E, allElems],
   by simp [E, kidNames]⟩

/-- value of a QUALIFIER / QUALIFIER.DECLARATION: `(VALUE | VALUE.ARRAY)?` -/
theorem qualValue_facts (C : Codec) (v : Val) (h : valNoRef v = true) :
    structNodes D (encVal C v) = true ∧ allElems (encVal C v) = true ∧
    Lang (Re.opt (Re.alts [.sym "VALUE".toList, .sym "VALUE.ARRAY".toList])) (kidNames (encVal C v)) := by
  rcases encVal_cases C v with ⟨_, he⟩ | ⟨p, rfl, _⟩ | ⟨a, _, _, he⟩ | ⟨l, _, he⟩
  · rw [he]; exact ⟨rfl, rfl, lang_opt_none⟩
  · simp [valNoRef, isRef] at h
  · obtain ⟨h1, h2, h3⟩ := value_child_scalar C a
    rw [he, h3]; exact ⟨h1, h2, lang_opt_some (lang_alts_mem (r := .sym _) (by simp) (Lang.sym _))⟩
  · obtain ⟨h1, h2, h3⟩ := value_child_array C l
    rw [he, h3]; exact ⟨h1, h2, lang_opt_some (lang_alts_mem (r := .sym _) (by simp) (Lang.sym _))⟩

/-! ### qualifiers -/

def boolAttrNames5 : List Name :=
  ["PROPAGATED".toList] ++ ["OVERRIDABLE".toList] ++ ["TOSUBCLASS".toList] ++ ["TOINSTANCE".toList] ++ ["TRANSLATABLE".toList]

theorem struct_encQual (C : Codec) (q : Qual) (h : shapeQual q = true) : structNode D (encQual C q) = true := by
  cases q with
  | mk name ty val p o ts ti tr =>
    have h' : isCimType ty = true ∧ valNoRef val = true := by simpa [shapeQual] using h
    obtain ⟨hv1, hv2, hv3⟩ := qualValue_facts C val h'.2
    simp only [encQual]
    apply struct_elem dtdDecl_QUALIFIER (by rfl)
    · apply validAttrs_of (["NAME".toList] ++ ["TYPE".toList] ++ ["PROPAGATED".toList] ++ ["OVERRIDABLE".toList] ++
        ["TOSUBCLASS".toList] ++ ["TOINSTANCE".toList] ++ ["TRANSLATABLE".toList])
      · simp only [List.all_append, Bool.and_eq_true, List.all_cons, List.all_nil, Bool.and_true]
        have hev : enumVals dtdDecl_QUALIFIER.atts "TYPE".toList = cimTypes := by rfl
        refine ⟨⟨⟨⟨⟨⟨attrOk_cdata (by rfl) _, attrOk_enum ?_⟩, ?_⟩, ?_⟩, ?_⟩, ?_⟩, ?_⟩
        · rw [hev]; exact h'.1
        all_goals exact all_optBoolAttr _ _ _ (by rfl)
      · simp only [List.map_append]
        refine List.Sublist.append (List.Sublist.append (List.Sublist.append (List.Sublist.append
          (List.Sublist.append ?_ ?_) ?_) ?_) ?_) ?_
        · simp
        all_goals exact sub_optBoolAttr _ _
      · decide
      · have : requiredNames dtdDecl_QUALIFIER.atts = ["NAME".toList, "TYPE".toList] := by rfl
        rw [this]; simp
    · exact content_children hv2 hv3
    · exact hv1

theorem encQual_elem (C : Codec) (q : Qual) : ∃ as ks, encQual C q = .elem "QUALIFIER".toList as ks := by
  cases q; exact ⟨_, _, by simp only [encQual, E]; rfl⟩

theorem encQuals_facts (C : Codec) : ∀ (qs : List Qual), shapeQuals qs = true →
    structNodes D (encQuals C qs) = true ∧ allElems (encQuals C qs) = true ∧
    kidNames (encQuals C qs) = List.replicate qs.length "QUALIFIER".toList
  | [], _ => by simp [encQuals, structNodes, allElems, kidNames]
  | q :: qs, h => by
    have h' : shapeQual q = true ∧ shapeQuals qs = true := by simpa [shapeQuals] using h
    obtain ⟨h1, h2, h3⟩ := encQuals_facts C qs h'.2
    obtain ⟨as, kk, he⟩ := encQual_elem C q
    have hs := struct_encQual C q h'.1
    simp only [encQuals]
    rw [structNodes_cons, hs, h1, he]
    simp only [allElems, kidNames, h2, h3, List.length_cons, List.replicate_succ]
    simp

/-- `QUALIFIER*` followed by one more group -/
theorem lang_quals_then {r : Re} {w : List Name} (k : Nat) (h : Lang r w) :
    Lang (Re.seqs [.star (.sym "QUALIFIER".toList), r]) (List.replicate k "QUALIFIER".toList ++ w) :=
  lang_seq2 (lang_star_replicate _ k) h

/-! ### properties -/

def propNames : List Name := ["PROPERTY".toList, "PROPERTY.ARRAY".toList, "PROPERTY.REFERENCE".toList]

theorem embOk_vals (emb : Option Str) (h : embOk emb = true) : ∀ s, emb = some s → embKinds.contains s = true := by
  intro s hs; subst hs; simpa [embOk] using h

theorem struct_encProp (C : Codec) (p : Prop_) (h : shapeProp p = true) : structNode D (encProp C p) = true := by
  cases p with
  | mk name ty val isArray arraySize refCls origin propagated emb quals =>
    simp only [shapeProp, Bool.and_eq_true] at h
    obtain ⟨hq, hrest⟩ := h
    obtain ⟨q1, q2, q3⟩ := encQuals_facts C quals hq
    simp only [encProp]
    by_cases ha : isArray = true
    · simp only [ha, if_true, Bool.and_eq_true] at hrest ⊢
      obtain ⟨⟨hty, hemb⟩, hval⟩ := hrest
      have hv : structNodes D (encVal C val) = true ∧ allElems (encVal C val) = true ∧
          Lang (Re.opt (.sym "VALUE.ARRAY".toList)) (kidNames (encVal C val)) := by
        rcases encVal_cases C val with ⟨_, he⟩ | ⟨p, rfl, _⟩ | ⟨a, rfl, _, _⟩ | ⟨l, _, he⟩
        · rw [he]; exact ⟨rfl, rfl, lang_opt_none⟩
        · simp at hval
        · simp at hval
        · obtain ⟨h1, h2, h3⟩ := value_child_array C l
          rw [he, h3]; exact ⟨h1, h2, lang_opt_some (Lang.sym _)⟩
      apply struct_elem dtdDecl_PROPERTY_ARRAY (by rfl)
      · apply validAttrs_of (["NAME".toList] ++ ["TYPE".toList] ++ ["ARRAYSIZE".toList] ++ ["CLASSORIGIN".toList] ++
          ["EmbeddedObject".toList] ++ ["PROPAGATED".toList])
        · simp only [List.all_append, Bool.and_eq_true, List.all_cons, List.all_nil, Bool.and_true]
          have hev : enumVals dtdDecl_PROPERTY_ARRAY.atts "TYPE".toList = cimTypes := by rfl
          refine ⟨⟨⟨⟨⟨attrOk_cdata (by rfl) _, attrOk_enum ?_⟩, all_optAttr_cdata _ _ _ (by rfl)⟩,
            all_optAttr_cdata _ _ _ (by rfl)⟩, all_optAttr_enum _ _ _ embKinds (by rfl) (embOk_vals emb hemb)⟩,
            all_optBoolAttr _ _ _ (by rfl)⟩
          rw [hev]; exact hty
        · simp only [List.map_append]
          exact List.Sublist.append (List.Sublist.append (List.Sublist.append (List.Sublist.append (by simp)
            (sub_optAttr _ _)) (sub_optAttr _ _)) (sub_optAttr _ _)) (sub_optBoolAttr _ _)
        · decide
        · have : requiredNames dtdDecl_PROPERTY_ARRAY.atts = ["NAME".toList, "TYPE".toList] := by rfl
          rw [this]; simp
      · apply content_children (by rw [allElems_append, q2, hv.2.1]; rfl)
        rw [kidNames_append, q3]
        exact lang_quals_then _ hv.2.2
      · rw [structNodes_append, q1, hv.1]; rfl
    · have ha' : isArray = false := by simpa using ha
      subst ha'
      simp only [Bool.false_eq_true, if_false] at hrest ⊢
      by_cases hr : ty = "reference".toList
      · simp only [hr, if_true] at hrest ⊢
        have hv : structNodes D (encVal C val) = true ∧ allElems (encVal C val) = true ∧
            Lang (Re.opt (.sym "VALUE.REFERENCE".toList)) (kidNames (encVal C val)) := by
          rcases encVal_cases C val with ⟨_, he⟩ | ⟨p, rfl, he⟩ | ⟨a, rfl, hnr, _⟩ | ⟨l, rfl, _⟩
          · rw [he]; exact ⟨rfl, rfl, lang_opt_none⟩
          · obtain ⟨h1, h2, h3⟩ := value_child_ref C p (by simpa using hrest)
            rw [he, h3]; exact ⟨h1, h2, lang_opt_some (Lang.sym _)⟩
          · cases a <;> simp [isRef] at hnr hrest
          · simp at hrest
        apply struct_elem dtdDecl_PROPERTY_REFERENCE (by rfl)
        · apply validAttrs_of (["NAME".toList] ++ ["REFERENCECLASS".toList] ++ ["CLASSORIGIN".toList] ++ ["PROPAGATED".toList])
          · simp only [List.all_append, Bool.and_eq_true, List.all_cons, List.all_nil, Bool.and_true]
            exact ⟨⟨⟨attrOk_cdata (by rfl) _, all_optAttr_cdata _ _ _ (by rfl)⟩, all_optAttr_cdata _ _ _ (by rfl)⟩,
              all_optBoolAttr _ _ _ (by rfl)⟩
          · simp only [List.map_append]
            exact List.Sublist.append (List.Sublist.append (List.Sublist.append (by simp)
              (sub_optAttr _ _)) (sub_optAttr _ _)) (sub_optBoolAttr _ _)
          · decide
          · have : requiredNames dtdDecl_PROPERTY_REFERENCE.atts = ["NAME".toList] := by rfl
            rw [this]; simp
        · apply content_children (by rw [allElems_append, q2, hv.2.1]; rfl)
          rw [kidNames_append, q3]
          exact lang_quals_then _ hv.2.2
        · rw [structNodes_append, q1, hv.1]; rfl
      · rw [if_neg hr] at hrest ⊢
        simp only [Bool.and_eq_true] at hrest
        obtain ⟨⟨hty, hemb⟩, hval⟩ := hrest
        have hv : structNodes D (encVal C val) = true ∧ allElems (encVal C val) = true ∧
            Lang (Re.opt (.sym "VALUE".toList)) (kidNames (encVal C val)) := by
          rcases encVal_cases C val with ⟨_, he⟩ | ⟨p, rfl, _⟩ | ⟨a, rfl, _, he⟩ | ⟨l, rfl, _⟩
          · rw [he]; exact ⟨rfl, rfl, lang_opt_none⟩
          · simp [isRef] at hval
          · obtain ⟨h1, h2, h3⟩ := value_child_scalar C a
            rw [he, h3]; exact ⟨h1, h2, lang_opt_some (Lang.sym _)⟩
          · simp at hval
        apply struct_elem dtdDecl_PROPERTY (by rfl)
        · apply validAttrs_of (["NAME".toList] ++ ["TYPE".toList] ++ ["CLASSORIGIN".toList] ++ ["PROPAGATED".toList] ++
            ["EmbeddedObject".toList])
          · simp only [List.all_append, Bool.and_eq_true, List.all_cons, List.all_nil, Bool.and_true]
            have hev : enumVals dtdDecl_PROPERTY.atts "TYPE".toList = cimTypes := by rfl
            refine ⟨⟨⟨⟨attrOk_cdata (by rfl) _, attrOk_enum ?_⟩, all_optAttr_cdata _ _ _ (by rfl)⟩,
              all_optBoolAttr _ _ _ (by rfl)⟩, all_optAttr_enum _ _ _ embKinds (by rfl) (embOk_vals emb hemb)⟩
            rw [hev]; exact hty
          · simp only [List.map_append]
            exact List.Sublist.append (List.Sublist.append (List.Sublist.append (by simp)
              (sub_optAttr _ _)) (sub_optBoolAttr _ _)) (sub_optAttr _ _)
          · decide
          · have : requiredNames dtdDecl_PROPERTY.atts = ["NAME".toList, "TYPE".toList] := by rfl
            rw [this]; simp
        · apply content_children (by rw [allElems_append, q2, hv.2.1]; rfl)
          rw [kidNames_append, q3]
          exact lang_quals_then _ hv.2.2
        · rw [structNodes_append, q1, hv.1]; rfl

theorem encProp_elem (C : Codec) (p : Prop_) : ∃ as ks n, encProp C p = .elem n as ks ∧ n ∈ propNames := by
  cases p with
  | mk name ty val isArray arraySize refCls origin propagated emb quals =>
    simp only [encProp]
    split
    · exact ⟨_, _, _, by simp only [E]; rfl, by simp [propNames]⟩
    · split
      · exact ⟨_, _, _, by simp only [E]; rfl, by simp [propNames]⟩
      · exact ⟨_, _, _, by simp only [E]; rfl, by simp [propNames]⟩

theorem encProps_facts (C : Codec) : ∀ (ps : List Prop_), shapeProps ps = true →
    structNodes D (encProps C ps) = true ∧ allElems (encProps C ps) = true ∧
    ∀ x ∈ kidNames (encProps C ps), x ∈ propNames
  | [], _ => by simp [encProps, structNodes, allElems, kidNames]
  | p :: ps, h => by
    have h' : shapeProp p = true ∧ shapeProps ps = true := by simpa [shapeProps] using h
    obtain ⟨h1, h2, h3⟩ := encProps_facts C ps h'.2
    obtain ⟨as, kk, n, he, hn⟩ := encProp_elem C p
    have hs := struct_encProp C p h'.1
    simp only [encProps]
    rw [structNodes_cons, hs, h1, he]
    refine ⟨rfl, by simpa [allElems] using h2, ?_⟩
    intro x hx
    simp only [kidNames, List.mem_cons] at hx
    rcases hx with rfl | hx
    · exact hn
    · exact h3 x hx

theorem lang_star_propNames (w : List Name) (h : ∀ x ∈ w, x ∈ propNames) :
    Lang (.star (Re.alts [.sym "PROPERTY".toList, .sym "PROPERTY.ARRAY".toList, .sym "PROPERTY.REFERENCE".toList])) w := by
  apply lang_star_letters
  intro x hx
  have := h x hx
  simp [propNames] at this
  rcases this with rfl | rfl | rfl <;> exact lang_alts_mem (r := .sym _) (by simp) (Lang.sym _)

end Proofs.DtdEnc
