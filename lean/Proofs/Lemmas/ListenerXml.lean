/-
C17 helper lemmas, part 2: the text primitives produce printable ASCII; the export response body
is a document the proved XML parser `XmlParse.par` accepts, with the EXPMETHODRESPONSE shape.
-/
import Proofs.Lemmas.ListenerHttp
import Proofs.Props.XmlSyntax

namespace Proofs.ListenerHttp
open Pywbem.Proto Pywbem.Model Pywbem.Model.XmlText Pywbem.Model.ListenerHttp Pywbem.Model.XmlParse

/-! ### `_ascii2` yields printable US-ASCII -/

theorem hexDigitL_printable : ∀ n : Fin 16, printableC (hexDigitL n.val) = true := by decide

theorem hexL_printable (w n : Nat) : printable (hexL w n) = true := by
  induction w with
  | zero => rfl
  | succ w ih =>
    have := hexDigitL_printable ⟨(n / 16 ^ w) % 16, Nat.mod_lt _ (by decide)⟩
    simp only [hexL, printable_cons, ih, Bool.and_true]
    exact this

theorem printableC_of_range {c : Char} (h1 : ¬ c.toNat < 0x20) (h2 : c.toNat < 0x7f) : printableC c = true := by
  simp only [printableC, Bool.and_eq_true, decide_eq_true_eq]; omega

theorem asciiChar_printable (q c : Char) (hq : printableC q = true) : printable (asciiChar q c) = true := by
  unfold asciiChar
  simp only
  split
  · rename_i h
    have hc : printableC c = true := by
      simp only [Bool.or_eq_true, beq_iff_eq] at h
      rcases h with h | h
      · rw [h]; exact hq
      · rw [h]; decide
    simp only [printable_cons, hc, Bool.and_true]
    decide
  · split
    · decide
    · split
      · decide
      · split
        · decide
        · split
          · simp only [printable_cons, hexL_printable, Bool.and_true]; decide
          · rename_i h5
            split
            · rename_i h6
              simp only [Bool.or_eq_true, decide_eq_true_eq, beq_iff_eq, not_or] at h5
              have := printableC_of_range h5.1 h6
              simp [printable, this]
            · split
              · simp only [printable_cons, hexL_printable, Bool.and_true]; decide
              · split
                · simp only [printable_cons, hexL_printable, Bool.and_true]; decide
                · simp only [printable_cons, hexL_printable, Bool.and_true]; decide

theorem asciiBody_printable (q : Char) (hq : printableC q = true) (s : Str) : printable (asciiBody q s) = true := by
  induction s with
  | nil => rfl
  | cons c cs ih => simp [asciiBody, printable_append, asciiChar_printable q c hq, ih]

theorem reprQuote_printable (s : Str) : printableC (reprQuote s) = true := by
  unfold reprQuote; split <;> decide

theorem pyAscii_printable (s : Str) : printable (pyAscii s) = true := by
  have hq := reprQuote_printable s
  simp only [pyAscii, printable_cons, printable_append, hq, asciiBody_printable _ hq, Bool.true_and, Bool.and_true]
  simp [printable, hq]

theorem fixHex_step (f : Nat) (prev : Str) (c : Char) (rest : Str) :
    fixHex (f + 1) prev (c :: rest) = c :: fixHex f (c :: prev) rest ∨
    (∃ h1 h2 rest', rest = 'x' :: h1 :: h2 :: rest' ∧
      fixHex (f + 1) prev (c :: rest) =
        '\\' :: 'u' :: '0' :: '0' :: h1 :: h2 :: fixHex f (h2 :: h1 :: 'x' :: '\\' :: prev) rest') := by
  by_cases hm : ∃ h1 h2 rest', c = '\\' ∧ rest = 'x' :: h1 :: h2 :: rest'
  · obtain ⟨h1, h2, rest', rfl, rfl⟩ := hm
    rw [fixHex.eq_3]
    split
    · exact Or.inr ⟨_, _, _, rfl, rfl⟩
    · exact Or.inl rfl
  · exact Or.inl (fixHex.eq_4 _ _ _ _ (fun h1 h2 rest' hc hr => hm ⟨h1, h2, rest', hc, hr⟩))

theorem fixHex_printable (fuel : Nat) (prev s : Str) (h : printable s = true) : printable (fixHex fuel prev s) = true := by
  induction fuel generalizing prev s with
  | zero => rfl
  | succ f ih =>
    cases s with
    | nil => rfl
    | cons c rest =>
      simp only [printable_cons, Bool.and_eq_true] at h
      rcases fixHex_step f prev c rest with he | ⟨h1, h2, rest', hr, he⟩
      · rw [he]
        simp only [printable_cons, Bool.and_eq_true]
        exact ⟨h.1, ih _ _ h.2⟩
      · rw [he]
        rw [hr] at h
        simp only [printable_cons, Bool.and_eq_true] at h ⊢
        exact ⟨by decide, by decide, by decide, by decide, h.2.2.1, h.2.2.2.1, ih _ _ h.2.2.2.2⟩

theorem ascii2_printable (s : Str) : printable (ascii2 s) = true :=
  fixHex_printable _ _ _ (pyAscii_printable s)

theorem joinComma_printable (l : List Str) (h : ∀ x ∈ l, printable x = true) : printable (joinComma l) = true := by
  induction l with
  | nil => rfl
  | cons x xs ih =>
    cases xs with
    | nil => simpa [joinComma] using h x (by simp)
    | cons y ys =>
      simp only [joinComma, printable_append, printable_cons, Bool.and_eq_true]
      exact ⟨h x (by simp), by decide, by decide, ih (fun z hz => h z (by simp [hz]))⟩

theorem ascii2Keys_printable (ks : List Str) : printable (ascii2Keys ks) = true := by
  have hj : printable (joinComma (ks.map ascii2)) = true := by
    apply joinComma_printable
    intro x hx
    simp only [List.mem_map] at hx
    obtain ⟨k, _, rfl⟩ := hx
    exact ascii2_printable k
  unfold ascii2Keys
  rw [printable_append, printable_append, hj]
  decide

/-! ### printable text is XML text that the wire leaves alone -/

theorem printableC_xmlChar {c : Char} (h : printableC c = true) : isXmlChar c = true := by
  simp only [printableC, Bool.and_eq_true, decide_eq_true_eq] at h
  simp only [isXmlChar, Bool.or_eq_true, Bool.and_eq_true, decide_eq_true_eq, beq_iff_eq]
  omega

theorem printable_xmlChars {s : Str} (h : printable s = true) : ∀ c ∈ s, isXmlChar c = true :=
  fun _ hc => printableC_xmlChar (printable_mem h hc)

theorem printable_plain {s : Str} (h : printable s = true) : ∀ c ∈ s, c ≠ '\r' ∧ c ≠ '\n' ∧ c ≠ '\t' := by
  intro c hc
  have hp := printable_mem h hc
  refine ⟨(printableC_not_crlf hp).1, (printableC_not_crlf hp).2, ?_⟩
  intro e; subst e; revert hp; decide

theorem wireAttr_norm (v : Str) (h : ∀ c ∈ v, isXmlChar c = true) : wireAttr v = some (normAttr false v) := by
  unfold wireAttr; exact Proofs.XmlText.recvAttr_esc v false h

theorem wireAttr_printable {v : Str} (h : printable v = true) : wireAttr v = some v :=
  Proofs.XmlText.wireAttr_id v (printable_xmlChars h) (printable_plain h)

theorem normAttr_xmlChars (v : Str) (skip : Bool) (h : ∀ c ∈ v, isXmlChar c = true) :
    ∀ c ∈ normAttr skip v, isXmlChar c = true := by
  induction v generalizing skip with
  | nil => intro c hc; simp [normAttr] at hc
  | cons x xs ih =>
    have hx := h x (by simp)
    have ih' := fun sk => ih sk (fun c hc => h c (by simp [hc]))
    intro c hc
    unfold normAttr at hc
    split at hc
    · simp only [List.mem_cons] at hc
      rcases hc with rfl | hc
      · decide
      · exact ih' _ c hc
    · split at hc
      · exact ih' _ c hc
      · split at hc
        · simp only [List.mem_cons] at hc
          rcases hc with rfl | hc
          · decide
          · exact ih' _ c hc
        · simp only [List.mem_cons] at hc
          rcases hc with rfl | hc
          · exact hx
          · exact ih' _ c hc

/-! ### the export response body is a document `par` accepts, with the EXPMETHODRESPONSE shape -/

open Pywbem.Generated.ListenerConsts

/-- what a receiver's XML parser makes of the response: the same tree, attribute values normalised -/
def rspTreeRead (msgid m : Str) (err : Option (Nat × Str)) : Xml :=
  rspTree (normAttr false msgid) (normAttr false m) (err.map (fun p => (p.1, normAttr false p.2)))

theorem rspTree_wf (msgid m : Str) (err : Option (Nat × Str)) (h1 : ∀ c ∈ msgid, isXmlChar c = true)
    (h2 : ∀ c ∈ m, isXmlChar c = true) (h3 : ∀ p, err = some p → ∀ c ∈ p.2, isXmlChar c = true) :
    WfTree (rspTree msgid m err) := by
  have a1 : msgid.all isXmlChar = true := List.all_eq_true.mpr h1
  have a2 : m.all isXmlChar = true := List.all_eq_true.mpr h2
  have c1 : (isName "CIM".toList && (isName "CIMVERSION".toList && implCimVersion.toList.all isXmlChar &&
      (isName "DTDVERSION".toList && implDtdVersion.toList.all isXmlChar && true)) &&
      !hasDup ["CIMVERSION".toList, "DTDVERSION".toList]) = true := by decide
  have c2 : (isName "MESSAGE".toList && isName "ID".toList && isName "PROTOCOLVERSION".toList &&
      implProtocolVersion.toList.all isXmlChar && !hasDup ["ID".toList, "PROTOCOLVERSION".toList]) = true := by decide
  have c3 : (isName "SIMPLEEXPRSP".toList && isName "EXPMETHODRESPONSE".toList && isName "NAME".toList &&
      isName "ERROR".toList && isName "CODE".toList && isName "DESCRIPTION".toList &&
      !hasDup ["CODE".toList, "DESCRIPTION".toList] && !hasDup ["NAME".toList] && !hasDup ([] : List Str)) = true := by
    decide
  simp only [Bool.and_eq_true] at c1 c2 c3
  cases err with
  | none =>
    simp only [WfTree, rspTree, wfTree, wfKids, wfAttrs, List.map, Bool.and_eq_true, Bool.and_true, a1, a2]
    simp_all
  | some p =>
    obtain ⟨code, d⟩ := p
    have a3 : d.all isXmlChar = true := List.all_eq_true.mpr (h3 (code, d) rfl)
    have a4 : (natStr code).all isXmlChar = true :=
      List.all_eq_true.mpr (printable_xmlChars (natStr_printable code))
    simp only [WfTree, rspTree, wfTree, wfKids, wfAttrs, List.map, Bool.and_eq_true, Bool.and_true, a1, a2, a3, a4]
    simp_all

theorem wireTree_rspTree (msgid m : Str) (err : Option (Nat × Str)) (h1 : ∀ c ∈ msgid, isXmlChar c = true)
    (h2 : ∀ c ∈ m, isXmlChar c = true) (h3 : ∀ p, err = some p → ∀ c ∈ p.2, isXmlChar c = true) :
    wireTree (rspTree msgid m err) = some (rspTreeRead msgid m err) := by
  have w1 := wireAttr_norm msgid h1
  have w2 := wireAttr_norm m h2
  have k1 : wireAttr implCimVersion.toList = some implCimVersion.toList := by decide
  have k2 : wireAttr implDtdVersion.toList = some implDtdVersion.toList := by decide
  have k3 : wireAttr implProtocolVersion.toList = some implProtocolVersion.toList := by decide
  cases err with
  | none =>
    simp [rspTreeRead, rspTree, wireTree, wireKids, wireAttrs, flushText, w1, w2, k1, k2, k3]
  | some p =>
    obtain ⟨code, d⟩ := p
    have w3 := wireAttr_norm d (h3 (code, d) rfl)
    have w4 := wireAttr_printable (natStr_printable code)
    simp [rspTreeRead, rspTree, wireTree, wireKids, wireAttrs, flushText, w1, w2, w3, w4, k1, k2, k3]

/-- **the 200 body is XML**: the proved parser accepts it and returns the EXPMETHODRESPONSE tree -/
theorem par_rspBody (msgid m : Str) (err : Option (Nat × Str)) (h1 : ∀ c ∈ msgid, isXmlChar c = true)
    (h2 : ∀ c ∈ m, isXmlChar c = true) (h3 : ∀ p, err = some p → ∀ c ∈ p.2, isXmlChar c = true) :
    par (rspBody msgid m err) = some (rspTreeRead msgid m err) := by
  have hw := rspTree_wf msgid m err h1 h2 h3
  have hel : (rspTree msgid m err).isElem = true := rfl
  have := XmlSyntax.XmlSyntax_decl (rspTree msgid m err) hw hel
  unfold rspBody xmlDecl
  rw [this, XmlSyntax.XmlSyntax_par_ser _ hw hel]
  exact wireTree_rspTree msgid m err h1 h2 h3

/-! ### message id and method name are attribute values of the request tree -/

mutual
/-- every attribute value in the tree consists of XML characters -/
def attrsOkTree : Xml → Bool
  | .text _ => true
  | .elem _ as ks => as.all (fun p => p.2.all isXmlChar) && attrsOkKids ks
def attrsOkKids : List Xml → Bool
  | [] => true
  | k :: ks => attrsOkTree k && attrsOkKids ks
end

/-- an XML parser that hands out attribute values made of XML characters only (expat checks every character
    and every character reference against the `Char` production; so does `XmlParse.par`) -/
def XmlCharsEnv (E : Env) : Prop := ∀ b t, E.xmlParse b = .ok t → attrsOkTree t = true

theorem attrsOkKids_mem {ks : List Xml} (h : attrsOkKids ks = true) {k : Xml} (hk : k ∈ ks) : attrsOkTree k = true := by
  induction ks with
  | nil => cases hk
  | cons x xs ih =>
    simp only [attrsOkKids, Bool.and_eq_true] at h
    simp only [List.mem_cons] at hk
    rcases hk with rfl | hk
    · exact h.1
    · exact ih h.2 hk

theorem elemKids_sub {ks : List Xml} {x : Xml} (h : x ∈ Xml.elemKids ks) : x ∈ ks := by
  induction ks with
  | nil => simp [Xml.elemKids] at h
  | cons k ks ih =>
    cases k with
    | text s => simp only [Xml.elemKids] at h; exact List.mem_cons_of_mem _ (ih h)
    | elem n as kk =>
      simp only [Xml.elemKids, List.mem_cons] at h
      rcases h with rfl | h
      · simp
      · exact List.mem_cons_of_mem _ (ih h)

theorem checkNode_ok {t : Xml} {nm : String} {req opt : List String} {al : Option (List String)} {pc : Bool}
    {as : List (Str × Str)} {ks : List Xml} (h : checkNode t nm req opt al pc = .ok (as, ks)) :
    ∃ n, t = .elem n as ks := by
  unfold checkNode at h
  cases t with
  | text s => simp [perr] at h
  | elem n as' ks' =>
    simp only at h
    repeat' split at h
    all_goals first
      | (simp only [pure, Except.pure, Except.ok.injEq, Prod.mk.injEq] at h; exact ⟨n, by rw [h.1, h.2]⟩)
      | (simp [perr] at h)

theorem liftR_ok {α} {r : Except PyExc α} {a : α} (h : liftR r = .ok a) : r = .ok a := by
  unfold liftR at h
  split at h <;> simp_all

theorem attrD_xmlChars {as : List (Str × Str)} (h : as.all (fun p => p.2.all isXmlChar) = true) (k : String) :
    ∀ c ∈ attrD as k, isXmlChar c = true := by
  intro c hc
  unfold attrD Xml.attr at hc
  cases hf : as.find? (fun p => p.1 == k.toList) with
  | none => simp [hf] at hc
  | some p =>
    simp only [hf, Option.getD_some] at hc
    have hm := List.mem_of_find?_eq_some hf
    simp only [List.all_eq_true] at h
    exact h p hm c hc

theorem oneChild_mem {ks : List Xml} {acc : List String} {c : Xml} (h : oneChild ks acc = .ok c) : c ∈ ks := by
  unfold oneChild at h
  split at h
  · rename_i x heq
    split at h
    · cases h; exact elemKids_sub (by rw [heq]; simp)
    · cases h
  · cases h

theorem parseExpMethodCall_name {E : Env} {t : Xml} {m : Str} {ps : List (Str × Option Xml)}
    (h : parseExpMethodCall E t = .ok (m, ps)) (ht : attrsOkTree t = true) : ∀ c ∈ m, isXmlChar c = true := by
  unfold parseExpMethodCall at h
  cases hc : liftR (checkNode t "EXPMETHODCALL" ["NAME"] [] (some ["EXPPARAMVALUE"]) false) with
  | error e => simp [hc, bind, Except.bind] at h
  | ok v =>
    obtain ⟨as, ks⟩ := v
    obtain ⟨n, rfl⟩ := checkNode_ok (liftR_ok hc)
    simp only [hc, bind, Except.bind] at h
    split at h
    · cases h
    · simp only [pure, Except.pure, Except.ok.injEq, Prod.mk.injEq] at h
      rw [← h.1]
      simp only [attrsOkTree, Bool.and_eq_true] at ht
      exact attrD_xmlChars ht.1 _

theorem parseSimpleExpReq_name {E : Env} {t : Xml} {m : Str} {ps : List (Str × Option Xml)}
    (h : parseSimpleExpReq E t = .ok (m, ps)) (ht : attrsOkTree t = true) : ∀ c ∈ m, isXmlChar c = true := by
  unfold parseSimpleExpReq at h
  cases hc : liftR (checkNode t "SIMPLEEXPREQ" [] [] (some ["EXPMETHODCALL"]) false) with
  | error e => simp [hc, bind, Except.bind] at h
  | ok v =>
    obtain ⟨as, ks⟩ := v
    obtain ⟨n, rfl⟩ := checkNode_ok (liftR_ok hc)
    simp only [hc, bind, Except.bind] at h
    cases ho : oneChild ks ["EXPMETHODCALL"] with
    | error e => simp [ho] at h
    | ok c =>
      simp only [ho] at h
      simp only [attrsOkTree, Bool.and_eq_true] at ht
      exact parseExpMethodCall_name h (attrsOkKids_mem ht.2 (oneChild_mem ho))

theorem parseMessage_ids {E : Env} {t : Xml} {msgid m : Str} {ps : List (Str × Option Xml)}
    (h : parseMessage E t = .ok (msgid, m, ps)) (ht : attrsOkTree t = true) :
    (∀ c ∈ msgid, isXmlChar c = true) ∧ (∀ c ∈ m, isXmlChar c = true) := by
  unfold parseMessage at h
  cases hc : liftR (checkNode t "MESSAGE" ["ID", "PROTOCOLVERSION"] [] none false) with
  | error e => simp [hc, bind, Except.bind] at h
  | ok v =>
    obtain ⟨as, ks⟩ := v
    obtain ⟨n, rfl⟩ := checkNode_ok (liftR_ok hc)
    simp only [hc, bind, Except.bind] at h
    simp only [attrsOkTree, Bool.and_eq_true] at ht
    split at h
    · cases h
    · cases ho : oneChild ks messageChildren with
      | error e => simp [ho] at h
      | ok c =>
        simp only [ho] at h
        split at h
        · cases hs : parseSimpleExpReq E c with
          | error e => simp [hs] at h
          | ok v2 =>
            obtain ⟨m2, ps2⟩ := v2
            simp only [hs, pure, Except.pure, Except.ok.injEq, Prod.mk.injEq] at h
            obtain ⟨h1, h2, _⟩ := h
            rw [← h1, ← h2]
            exact ⟨attrD_xmlChars ht.1 _, parseSimpleExpReq_name hs (attrsOkKids_mem ht.2 (oneChild_mem ho))⟩
        · unfold foreignChild at h
          split at h
          · split at h <;> cases h
          · cases h

theorem parseCim_ids {E : Env} {t : Xml} {msgid m : Str} {ps : List (Str × Option Xml)}
    (h : parseCim E t = .ok (msgid, m, ps)) (ht : attrsOkTree t = true) :
    (∀ c ∈ msgid, isXmlChar c = true) ∧ (∀ c ∈ m, isXmlChar c = true) := by
  unfold parseCim at h
  cases hc : liftR (checkNode t "CIM" ["CIMVERSION", "DTDVERSION"] [] none false) with
  | error e => simp [hc, bind, Except.bind] at h
  | ok v =>
    obtain ⟨as, ks⟩ := v
    obtain ⟨n, rfl⟩ := checkNode_ok (liftR_ok hc)
    simp only [hc, bind, Except.bind] at h
    simp only [attrsOkTree, Bool.and_eq_true] at ht
    split at h
    · cases h
    · split at h
      · cases h
      · cases ho : oneChild ks ["MESSAGE", "DECLARATION"] with
        | error e => simp [ho] at h
        | ok c =>
          simp only [ho] at h
          split at h
          · exact parseMessage_ids h (attrsOkKids_mem ht.2 (oneChild_mem ho))
          · unfold foreignChild at h
            split at h
            · split at h <;> cases h
            · cases h

theorem parseExportRequest_ids {cfg : Cfg} {E : Env} (hE : XmlCharsEnv E) {b : List Nat} {msgid m : Str}
    {ps : List (Str × Option Xml)} (h : parseExportRequest cfg E b = .ok (msgid, m, ps)) :
    (∀ c ∈ msgid, isXmlChar c = true) ∧ (∀ c ∈ m, isXmlChar c = true) := by
  unfold parseExportRequest at h
  split at h
  · cases h
  · cases h
  · rename_i t hx
    cases hp : parseCim E t with
    | error e => simp [hp, bind, Except.bind] at h
    | ok v =>
      obtain ⟨i, mm, pp⟩ := v
      simp only [hp, bind, Except.bind] at h
      split at h
      · cases h
      · simp only [pure, Except.pure, Except.ok.injEq, Prod.mk.injEq] at h
        obtain ⟨h1, h2, _⟩ := h
        rw [← h1, ← h2]
        exact parseCim_ids hp (hE b t hx)

/-! ### every 200 answer comes from `dispatch` on a parsed request, with a printable description -/

theorem fmt1_printable (pre : String) (v : Str) (post : String) (h1 : printable pre.toList = true)
    (h2 : printable v = true) (h3 : printable post.toList = true) : printable (fmt1 pre v post) = true := by
  simp [fmt1, printable_append, h1, h2, h3]

theorem dispatch_rsp (s s' : LState) (msgid m : Str) (params : List (Str × Option Xml)) (rsp : Response)
    (h : dispatch s msgid m params = .ok (s', rsp)) :
    ∃ err, rsp = exportRsp msgid m err ∧ ∀ p, err = some p → printable p.2 = true := by
  unfold dispatch at h
  simp only [sendExportResponse_eq] at h
  have hk : ∀ ks : List Str, printable (fmt1 "Expecting one parameter NewIndication, got " (ascii2Keys ks) "") = true :=
    fun ks => fmt1_printable _ _ _ (by decide) (ascii2Keys_printable ks) (by decide)
  have fin : ∀ {x : LState × Response} {err : Option (Nat × Str)},
      (Except.ok x : X (LState × Response)) = .ok (s', rsp) → x.2 = exportRsp msgid m err →
      (∀ p, err = some p → printable p.2 = true) →
      ∃ err, rsp = exportRsp msgid m err ∧ ∀ p, err = some p → printable p.2 = true := by
    intro x err hx he hp
    cases hx
    exact ⟨err, he, hp⟩
  by_cases hm : m = "ExportIndication".toList
  · simp only [hm, ↓reduceIte] at h
    subst hm
    rcases params with _ | ⟨⟨k, v⟩, _ | ⟨p2, rest⟩⟩
    · exact fin h rfl (by intro p hp; cases hp; exact hk _)
    · by_cases hkk : k = "NewIndication".toList
      · cases v with
        | none =>
          simp only [hkk, ↓reduceIte] at h
          exact fin h rfl (by intro p hp; cases hp; decide)
        | some inst =>
          simp only [hkk, ↓reduceIte] at h
          by_cases hf : s.full = true
          · simp only [hf, ↓reduceIte] at h
            exact fin h rfl (by
              intro p hp; cases hp
              exact fmt1_printable _ _ _ (by decide) (natStr_printable _) (by decide))
          · simp only [hf] at h
            exact fin h rfl (by intro p hp; cases hp)
      · simp only [hkk, ↓reduceIte] at h
        exact fin h rfl (by intro p hp; cases hp; exact hk _)
    · exact fin h rfl (by intro p hp; cases hp; exact hk _)
  · simp only [hm, ↓reduceIte] at h
    exact fin h rfl (by
      intro p hp; cases hp
      exact fmt1_printable _ _ _ (by decide) (ascii2_printable _) (by decide))

theorem httpErrRsp_status_ne_200 {code : Nat} {ce : Option String} {d : Option Str} {extra : List (Str × Str)}
    (h : (code, ce, extra) ∈ errTable) : (httpErrRsp code ce d extra).status ≠ 200 := by
  simp only [errTable, List.mem_cons, Prod.mk.injEq, List.mem_nil_iff, or_false] at h
  rcases h with h | h | h | h | h | h | h | h <;> (obtain ⟨rfl, _, _⟩ := h; simp [httpErrRsp])

/-- a 200 answer is `dispatch` applied to what `parse_export_request` returned for the octets read -/
theorem handle_200_source (E : Env) (s s' : LState) (r : Req) (rsp : Response)
    (h : handle Cfg.fixed E s r = some (.ok (s', rsp))) (hs : rsp.status = 200) :
    ∃ bytes msgid m params, parseExportRequest Cfg.fixed E bytes = .ok (msgid, m, params) ∧
      dispatch s msgid m params = .ok (s', rsp) := by
  unfold handle at h
  by_cases hp : r.method = "POST".toList
  · simp only [hp, ↓reduceIte, Option.some.injEq] at h
    unfold doPost at h
    cases hc : headerCheck r.headers with
    | some d =>
      simp only [hc] at h
      rw [sendHttpError_fixed _ _ _ _ (ce_ok "header-mismatch" (by decide)) rfl] at h
      cases h
      exact absurd hs (httpErrRsp_status_ne_200 (by decide))
    | none =>
      simp only [hc] at h
      unfold postBody at h
      simp only [fixed_validateLen, Bool.true_and, Bool.not_true, Bool.false_and, Bool.false_eq_true, ↓reduceIte] at h
      by_cases hneg : clValue r.headers < 0
      · simp only [hneg, decide_true, ↓reduceIte] at h
        rw [sendHttpError_fixed _ _ _ _ (ce_ok "header-mismatch" (by decide)) rfl] at h
        cases h
        exact absurd hs (httpErrRsp_status_ne_200 (by decide))
      · simp only [hneg, decide_false, Bool.false_eq_true, ↓reduceIte] at h
        cases hr : readFor E (clValue r.headers) r.body with
        | error x =>
          obtain ⟨code, ce, d, h1, h2⟩ := parseFailure_fixed E (.other x)
          simp only [hr, h1] at h
          cases h
          exact absurd hs (httpErrRsp_status_ne_200 h2)
        | ok bytes =>
          simp only [hr] at h
          cases hpe : parseExportRequest Cfg.fixed E bytes with
          | error e =>
            obtain ⟨code, ce, d, h1, h2⟩ := parseFailure_fixed E e
            simp only [hpe, h1] at h
            cases h
            exact absurd hs (httpErrRsp_status_ne_200 h2)
          | ok t =>
            obtain ⟨msgid, m, params⟩ := t
            simp only [hpe] at h
            exact ⟨bytes, msgid, m, params, hpe, h⟩
  · simp only [hp, ↓reduceIte] at h
    by_cases hi : isInvalidMethod r.method = true
    · simp only [hi, ↓reduceIte, invalidMethod_fixed, Option.some.injEq] at h
      cases h
      exact absurd hs (httpErrRsp_status_ne_200 (by decide))
    · simp only [hi] at h
      cases h

/-! ### UTF-8: decoding undoes encoding -/

theorem char_range (c : Char) : c.toNat < 0xD800 ∨ (0xDFFF < c.toNat ∧ c.toNat < 0x110000) := by
  have := c.valid
  simp only [UInt32.isValidChar, Nat.isValidChar] at this
  exact this

theorem ofNat_toNat (c : Char) : Char.ofNat c.toNat = c := Char.ofNat_toNat c

theorem utf8Decode_char (c : Char) (rest : List Nat) :
    utf8Decode (utf8 c ++ rest) = (utf8Decode rest).map (c :: ·) := by
  have hr := char_range c
  unfold utf8
  simp only
  by_cases h1 : c.toNat < 0x80
  · simp only [h1, ↓reduceIte, List.cons_append, List.nil_append]
    rw [utf8Decode.eq_def]
    simp only [h1, ↓reduceIte, ofNat_toNat]
  · by_cases h2 : c.toNat < 0x800
    · simp only [h1, h2, ↓reduceIte, List.cons_append, List.nil_append]
      rw [utf8Decode.eq_def]
      have a1 : ¬ (0xC0 + c.toNat / 64 < 0x80) := by omega
      have a2 : ¬ (0xC0 + c.toNat / 64 < 0xC2) := by omega
      have a3 : 0xC0 + c.toNat / 64 < 0xE0 := by omega
      have a4 : isCont (0x80 + c.toNat % 64) = true := by simp [isCont]; omega
      have a5 : (0xC0 + c.toNat / 64 - 0xC0) * 64 + (0x80 + c.toNat % 64 - 0x80) = c.toNat := by omega
      simp only [a1, a2, a3, a4, a5, ↓reduceIte, ofNat_toNat]
    · by_cases h3 : c.toNat < 0x10000
      · simp only [h1, h2, h3, ↓reduceIte, List.cons_append, List.nil_append]
        rw [utf8Decode.eq_def]
        have a1 : ¬ (0xE0 + c.toNat / 4096 < 0x80) := by omega
        have a2 : ¬ (0xE0 + c.toNat / 4096 < 0xC2) := by omega
        have a3 : ¬ (0xE0 + c.toNat / 4096 < 0xE0) := by omega
        have a4 : 0xE0 + c.toNat / 4096 < 0xF0 := by omega
        have b1 : isCont (0x80 + c.toNat / 64 % 64) = true := by simp [isCont]; omega
        have b2 : isCont (0x80 + c.toNat % 64) = true := by simp [isCont]; omega
        have a5 : (0xE0 + c.toNat / 4096 - 0xE0) * 4096 + (0x80 + c.toNat / 64 % 64 - 0x80) * 64 +
            (0x80 + c.toNat % 64 - 0x80) = c.toNat := by omega
        have a6 : (0x800 ≤ c.toNat) = True := by simp; omega
        have a7 : (0xD800 ≤ c.toNat && c.toNat < 0xE000) = false := by
          simp only [Bool.and_eq_false_iff, decide_eq_false_iff_not]; omega
        simp only [a1, a2, a3, a4, b1, b2, a5, a6, a7, ↓reduceIte, ofNat_toNat, Bool.and_self, decide_true,
          Bool.not_false, Bool.and_true]
      · simp only [h1, h2, h3, ↓reduceIte, List.cons_append, List.nil_append]
        rw [utf8Decode.eq_def]
        have a1 : ¬ (0xF0 + c.toNat / 262144 < 0x80) := by omega
        have a2 : ¬ (0xF0 + c.toNat / 262144 < 0xC2) := by omega
        have a3 : ¬ (0xF0 + c.toNat / 262144 < 0xE0) := by omega
        have a4 : ¬ (0xF0 + c.toNat / 262144 < 0xF0) := by omega
        have a4' : 0xF0 + c.toNat / 262144 < 0xF5 := by omega
        have b1 : isCont (0x80 + c.toNat / 4096 % 64) = true := by simp [isCont]; omega
        have b2 : isCont (0x80 + c.toNat / 64 % 64) = true := by simp [isCont]; omega
        have b3 : isCont (0x80 + c.toNat % 64) = true := by simp [isCont]; omega
        have a5 : (0xF0 + c.toNat / 262144 - 0xF0) * 262144 + (0x80 + c.toNat / 4096 % 64 - 0x80) * 4096 +
            (0x80 + c.toNat / 64 % 64 - 0x80) * 64 + (0x80 + c.toNat % 64 - 0x80) = c.toNat := by omega
        have a6 : (0x10000 ≤ c.toNat) = True := by simp; omega
        have a7 : (c.toNat < 0x110000) = True := by simp; omega
        simp only [a1, a2, a3, a4, a4', b1, b2, b3, a5, a6, a7, ↓reduceIte, ofNat_toNat, Bool.and_self, decide_true]

theorem utf8Decode_utf8Bytes (s : Str) : utf8Decode (utf8Bytes s) = some s := by
  induction s with
  | nil => simp [utf8Bytes, utf8Decode]
  | cons c cs ih => simp [utf8Bytes, utf8Decode_char, ih]

/-! ### the concrete request parser on what a sender's serialiser writes -/

theorem dropBOM_lt (r : Str) : dropBOM ('<' :: r) = '<' :: r := by
  simp [dropBOM]

theorem xmlDecl_head : xmlDecl = '<' :: xmlDecl.tail := by decide

/-- octets of (XML declaration + serialised well-formed element): `parseBytes` returns what the wire makes of it -/
theorem parseBytes_ser (t : Xml) (h : WfTree t) (hel : t.isElem = true) :
    ∃ t', wireTree t = some t' ∧ parseBytes (utf8Bytes (xmlDecl ++ Xml.ser t)) = .ok t' := by
  obtain ⟨t', ht'⟩ := XmlSyntax.XmlSyntax_par_ser_accepts t h hel
  have hw : wireTree t = some t' := by rw [← XmlSyntax.XmlSyntax_par_ser t h hel]; exact ht'
  refine ⟨t', hw, ?_⟩
  have hd := XmlSyntax.XmlSyntax_decl t h hel
  unfold parseBytes
  rw [utf8Decode_utf8Bytes]
  have hb : dropBOM (xmlDecl ++ Xml.ser t) = xmlDecl ++ Xml.ser t := by
    rw [xmlDecl_head, List.cons_append, dropBOM_lt]
  simp only [hb]
  have : par (xmlDecl ++ Xml.ser t) = some t' := by
    unfold xmlDecl; rw [hd]; exact ht'
  simp [this]

/-! ### end to end: a serialised ExportIndication request through the concrete parser -/

/-- the export request a WBEM server builds around an indication instance -/
def reqTree (msgid : Str) (inst : Xml) : Xml :=
  .elem "CIM".toList [("CIMVERSION".toList, "2.0".toList), ("DTDVERSION".toList, "2.4".toList)] [
    .elem "MESSAGE".toList [("ID".toList, msgid), ("PROTOCOLVERSION".toList, "1.4".toList)] [
      .elem "SIMPLEEXPREQ".toList [] [
        .elem "EXPMETHODCALL".toList [("NAME".toList, "ExportIndication".toList)] [
          .elem "EXPPARAMVALUE".toList [("NAME".toList, "NewIndication".toList)] [inst]]]]]

/-- the environment with the concrete request parser; only the INSTANCE parser stays a parameter -/
def parEnv (instP : Xml → Except PyExc Unit) : Env :=
  { xmlParse := parseBytes, parserMsg := [], instParse := instP, foreign := fun _ => none,
    allocLimit := 2 ^ 40, excText := fun e => e.name.toList }

theorem reqTree_wf (msgid : Str) (inst : Xml) (h1 : ∀ c ∈ msgid, isXmlChar c = true) (h2 : WfTree inst) :
    WfTree (reqTree msgid inst) := by
  have a1 : msgid.all isXmlChar = true := List.all_eq_true.mpr h1
  have h2' : wfTree inst = true := h2
  simp only [WfTree, reqTree, wfTree, wfKids, wfAttrs, List.map, Bool.and_eq_true, Bool.and_true, a1, h2']
  decide

theorem wireTree_reqTree (msgid : Str) (ias : List (Str × Str)) (iks : List Xml)
    (h1 : ∀ c ∈ msgid, isXmlChar c = true) (h2 : WfTree (.elem "INSTANCE".toList ias iks)) :
    ∃ ias' iks', wireTree (.elem "INSTANCE".toList ias iks) = some (.elem "INSTANCE".toList ias' iks') ∧
      wireTree (reqTree msgid (.elem "INSTANCE".toList ias iks)) =
        some (reqTree (normAttr false msgid) (.elem "INSTANCE".toList ias' iks')) := by
  obtain ⟨t', ht'⟩ := Proofs.XmlParse.wireTree_isSome _ h2
  obtain ⟨ias', iks', rfl⟩ := Proofs.XmlParse.wireTree_elem_some ht'
  refine ⟨ias', iks', ht', ?_⟩
  have w1 := wireAttr_norm msgid h1
  have k1 : wireAttr "2.0".toList = some "2.0".toList := by decide
  have k2 : wireAttr "2.4".toList = some "2.4".toList := by decide
  have k3 : wireAttr "1.4".toList = some "1.4".toList := by decide
  have k4 : wireAttr "ExportIndication".toList = some "ExportIndication".toList := by decide
  have k5 : wireAttr "NewIndication".toList = some "NewIndication".toList := by decide
  have ht2 := ht'
  simp only [wireTree] at ht2
  simp only [reqTree, wireTree, wireKids, wireAttrs, flushText, w1, k1, k2, k3, k4, k5, ht2, ↓reduceIte]

theorem parseCim_reqTree (E : Env) (msgid : Str) (ias : List (Str × Str)) (iks : List Xml)
    (hI : E.instParse (.elem "INSTANCE".toList ias iks) = .ok ()) :
    parseCim E (reqTree msgid (.elem "INSTANCE".toList ias iks)) =
      .ok (msgid, "ExportIndication".toList, [("NewIndication".toList, some (.elem "INSTANCE".toList ias iks))]) := by
  have hI' := hI
  simp at hI'
  simp [reqTree, parseCim, parseMessage, parseSimpleExpReq, parseExpMethodCall, parseExpParams, parseExpParamValue,
    oneChild, liftR, checkNode, attrKeysOk, kidsOk, noText, Xml.attr, Xml.elemKids, Xml.name, pure, Except.pure,
    bind, Except.bind, nameIn, attrD, startsWith, cimPrefix, dtdPrefix, protoPrefix, messageChildren, hI']

/-- the concrete parser on the octets of a serialised export request -/
theorem parseExportRequest_serialised (instP : Xml → Except PyExc Unit) (msgid : Str) (ias : List (Str × Str))
    (iks : List Xml) (h1 : ∀ c ∈ msgid, isXmlChar c = true) (h2 : WfTree (.elem "INSTANCE".toList ias iks))
    (hI : ∀ t, instP t = .ok ()) :
    ∃ ias' iks', wireTree (.elem "INSTANCE".toList ias iks) = some (.elem "INSTANCE".toList ias' iks') ∧
      parseExportRequest Cfg.fixed (parEnv instP)
        (utf8Bytes (xmlDecl ++ Xml.ser (reqTree msgid (.elem "INSTANCE".toList ias iks)))) =
      .ok (normAttr false msgid, "ExportIndication".toList,
        [("NewIndication".toList, some (.elem "INSTANCE".toList ias' iks'))]) := by
  obtain ⟨ias', iks', hw1, hw2⟩ := wireTree_reqTree msgid ias iks h1 h2
  refine ⟨ias', iks', hw1, ?_⟩
  obtain ⟨t', ht1, ht2⟩ := parseBytes_ser (reqTree msgid (.elem "INSTANCE".toList ias iks))
    (reqTree_wf msgid _ h1 h2) rfl
  rw [hw2] at ht1
  cases ht1
  have hp := parseCim_reqTree (parEnv instP) (normAttr false msgid) ias' iks' (hI _)
  unfold parseExportRequest
  have hx : (parEnv instP).xmlParse = parseBytes := rfl
  rw [hx, ht2]
  simp only [hp, bind, Except.bind, fixed_rejectDup, Bool.true_and]
  simp [hasDupName, toDict, dictSet, pure, Except.pure]

end Proofs.ListenerHttp
