/-
C01 — stage 1: text-level lemmas for the scalar kinds (int / bool / char16 / real / datetime) and
`strip`, used by the object-level round-trip proofs (Proofs/Lemmas/CimXml*.lean).
-/
import Pywbem.Model.CimDefaults

set_option linter.unusedSimpArgs false
set_option linter.unusedVariables false

namespace Proofs.CimXml
open Pywbem.Model Pywbem.Model.XmlText Pywbem.Proto

/-! ### strip -/

theorem lstrip_cons_of_not_space {c : Char} {s : Str} (h : isPySpace c = false) :
    lstrip (c :: s) = c :: s := by
  simp [lstrip, List.dropWhile, h]

/-- a string whose first and last characters are not white space is not changed by `str.strip()` -/
theorem strip_eq_self (s : Str) (h1 : ∀ c, s.head? = some c → isPySpace c = false)
    (h2 : ∀ c, s.getLast? = some c → isPySpace c = false) : strip s = s := by
  cases s with
  | nil => simp [strip, lstrip]
  | cons c cs =>
    have hc := h1 c (by simp)
    unfold strip
    rw [lstrip_cons_of_not_space hc]
    cases hr : (c :: cs).reverse with
    | nil => simp at hr
    | cons d ds =>
      have hd : isPySpace d = false := by
        apply h2
        rw [List.getLast?_eq_head?_reverse, hr]; rfl
      rw [lstrip_cons_of_not_space hd, ← hr, List.reverse_reverse]

theorem isDigit_range {c : Char} (h : c.isDigit = true) : 48 ≤ c.toNat ∧ c.toNat ≤ 57 := by
  simp only [Char.isDigit, Bool.and_eq_true, decide_eq_true_eq] at h
  have h1 := h.1; have h2 := h.2
  have e : c.toNat = c.val.toNat := rfl
  rw [e]
  rw [ge_iff_le, UInt32.le_iff_toNat_le] at h1
  rw [UInt32.le_iff_toNat_le] at h2
  exact ⟨h1, h2⟩

theorem isDigit_not_space {c : Char} (h : c.isDigit = true) : isPySpace c = false := by
  have h' := isDigit_range h
  simp [isPySpace]
  omega

theorem mem_of_getLast? {α} {l : List α} {a : α} (h : l.getLast? = some a) : a ∈ l :=
  List.mem_of_getLast? h

theorem strip_digits (s : Str) (h : ∀ c ∈ s, c.isDigit = true) : strip s = s := by
  apply strip_eq_self
  · intro c hc; exact isDigit_not_space (h c (List.mem_of_head? hc))
  · intro c hc; exact isDigit_not_space (h c (List.mem_of_getLast? hc))

theorem strip_neg_digits (s : Str) (h : ∀ c ∈ s, c.isDigit = true) (hne : s ≠ []) :
    strip ('-' :: s) = '-' :: s := by
  apply strip_eq_self
  · intro c hc; simp at hc; subst hc; decide
  · intro c hc
    rw [List.getLast?_cons_of_ne_nil hne] at hc
    exact isDigit_not_space (h c (List.mem_of_getLast? hc))

/-! ### Python `int()` on what `str(int)` printed -/

theorem pyDigit_of_isDigit {c : Char} (h : c.isDigit = true) : pyDigit c = some (c.toNat - 48) := by
  have := isDigit_range h
  simp [pyDigit, this.1, this.2]

theorem isDigit_ne_underscore {c : Char} (h : c.isDigit = true) : c ≠ '_' := by
  intro e; subst e; simp [Char.isDigit] at h

theorem pyDigits_some (cs : Str) (a : Nat) (h : ∀ c ∈ cs, c.isDigit = true) :
    pyDigits cs (some a) false = some (Nat.ofDigitChars 10 cs a) := by
  induction cs generalizing a with
  | nil => simp [pyDigits]
  | cons c cs ih =>
    have hc := h c (by simp)
    have hcs : ∀ x ∈ cs, x.isDigit = true := fun x hx => h x (by simp [hx])
    rw [pyDigits]
    simp only [isDigit_ne_underscore hc, if_false, pyDigit_of_isDigit hc]
    rw [ih _ hcs, Nat.ofDigitChars_cons]
    simp [Nat.mul_comm]

theorem pyDigits_none (cs : Str) (hne : cs ≠ []) (h : ∀ c ∈ cs, c.isDigit = true) :
    pyDigits cs none false = some (Nat.ofDigitChars 10 cs 0) := by
  cases cs with
  | nil => exact absurd rfl hne
  | cons c cs =>
    have hc := h c (by simp)
    have hcs : ∀ x ∈ cs, x.isDigit = true := fun x hx => h x (by simp [hx])
    rw [pyDigits]
    simp only [isDigit_ne_underscore hc, if_false, pyDigit_of_isDigit hc]
    rw [pyDigits_some _ _ hcs, Nat.ofDigitChars_cons]
    simp

theorem natToStr_digits (n : Nat) : ∀ c ∈ natToStr n, c.isDigit = true :=
  fun c hc => Nat.isDigit_of_mem_toDigits (by decide) (by decide) hc

theorem natToStr_ne_nil (n : Nat) : natToStr n ≠ [] := Nat.toDigits_ne_nil

theorem pyDigits_natToStr (n : Nat) : pyDigits (natToStr n) none false = some n := by
  rw [pyDigits_none _ (natToStr_ne_nil n) (natToStr_digits n)]
  simp [natToStr]

theorem isDigit_ne_minus {c : Char} (h : c.isDigit = true) : c ≠ '-' := by
  intro e; subst e; simp [Char.isDigit] at h
theorem isDigit_ne_plus {c : Char} (h : c.isDigit = true) : c ≠ '+' := by
  intro e; subst e; simp [Char.isDigit] at h

theorem pyInt_natToStr (n : Nat) : pyInt (natToStr n) = some (n : Int) := by
  unfold pyInt
  rw [strip_digits _ (natToStr_digits n)]
  have hne := natToStr_ne_nil n
  have hd := natToStr_digits n
  have hp := pyDigits_natToStr n
  cases hs : natToStr n with
  | nil => exact absurd hs hne
  | cons c cs =>
    rw [hs] at hd hp
    have hc := hd c (by simp)
    have h1 := isDigit_ne_minus hc
    have h2 := isDigit_ne_plus hc
    split
    · rename_i heq; simp at heq; exact absurd heq.1 h1
    · rename_i heq; simp at heq; exact absurd heq.1 h2
    · simp [hp]

theorem pyInt_neg_natToStr (n : Nat) : pyInt ('-' :: natToStr n) = some (-(n : Int)) := by
  unfold pyInt
  rw [strip_neg_digits _ (natToStr_digits n) (natToStr_ne_nil n)]
  simp [pyDigits_natToStr]

/-- **`int(str(v)) == v` for every integer** -/
theorem pyInt_intToStr (v : Int) : pyInt (intToStr v) = some v := by
  unfold intToStr
  by_cases h : v < 0
  · simp only [h, if_true]
    rw [pyInt_neg_natToStr]
    congr 1; omega
  · simp only [h, if_false]
    rw [pyInt_natToStr]
    congr 1; omega

theorem strip_intToStr (v : Int) : strip (intToStr v) = intToStr v := by
  unfold intToStr
  split
  · exact strip_neg_digits _ (natToStr_digits _) (natToStr_ne_nil _)
  · exact strip_digits _ (natToStr_digits _)

/-! ### the hexadecimal pattern never matches decimal text -/

theorem not_x_of_isDigit {x : Char} (hx : x.isDigit = true) : ¬ (x = 'x' ∨ x = 'X') := by
  intro e; rcases e with e | e <;> subst e <;> simp [Char.isDigit] at hx

theorem cimxmlHex_digits (s : Str) (h : ∀ c ∈ s, c.isDigit = true) : cimxmlHex s = none := by
  unfold cimxmlHex
  split
  · rename_i r; exact absurd rfl (isDigit_ne_minus (h '-' (by simp)))
  · rename_i r; exact absurd rfl (isDigit_ne_plus (h '+' (by simp)))
  · simp
    intro a
    split
    · rename_i x hs _ _
      simp [not_x_of_isDigit (h x (by simp))]
    · simp

theorem cimxmlHex_neg_digits (s : Str) (h : ∀ c ∈ s, c.isDigit = true) : cimxmlHex ('-' :: s) = none := by
  unfold cimxmlHex
  simp
  intro a
  split
  · rename_i x hs
    simp [not_x_of_isDigit (h x (by simp))]
  · simp

theorem cimxmlHex_intToStr (v : Int) : cimxmlHex (intToStr v) = none := by
  unfold intToStr
  split
  · exact cimxmlHex_neg_digits _ (natToStr_digits _)
  · exact cimxmlHex_digits _ (natToStr_digits _)

/-- `unpack_numeric` first half on `str(int)` -/
theorem parseNum_intToStr (C : DecCodec) (v : Int) : parseNum C (intToStr v) = .ok (.int v) := by
  unfold parseNum
  simp only [strip_intToStr, cimxmlHex_intToStr, pyInt_intToStr]

end Proofs.CimXml
