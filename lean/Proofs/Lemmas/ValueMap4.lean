/-
Helper lemmas for C20, part 4: the entry parser vs the declarative entry grammar; the default ValueMap.
-/
import Proofs.Lemmas.ValueMap3

namespace Proofs.ValueMap
open Pywbem.Proto Pywbem.Model.IntLit Pywbem.Model.IntLit.Dsp0004 Pywbem.Model.ValueMap Pywbem.Model.ValueMap.Spec Proofs.IntLit

theorem splitLastDots_append (a b : Str) (hb : NoDot b) : splitLastDots (a ++ '.' :: '.' :: b) = some (a, b) := by
  induction a with
  | nil =>
    have h1 : splitLastDots b = none := splitLastDots_noDot hb
    have h2 : splitLastDots ('.' :: b) = none := by
      simp only [splitLastDots, h1]
      cases b with
      | nil => simp
      | cons c t => have := hb c (by simp); simp [this]
    have h3 : splitLastDots ('.' :: '.' :: b) = some ([], b) := by
      rw [splitLastDots, h2]; simp
    simpa using h3
  | cons c t ih => simp [splitLastDots, ih]

theorem isEnd_parseEnd {a : Str} {l : Option Int} (h : IsEnd a l) : parseEnd a = some l := by
  rcases h with ⟨rfl, rfl⟩ | ⟨v, hv, rfl⟩
  · exact parseEnd_nil
  · have hne : a ≠ [] := (intlit_noDot hv).2
    exact (parseEnd_cons_iff a hne _).mpr ⟨v, rfl, hv⟩

theorem parseEnd_isEnd {a : Str} {l : Option Int} (h : parseEnd a = some l) : IsEnd a l := by
  by_cases ha : a = []
  · subst ha; simp [parseEnd] at h; exact Or.inl ⟨rfl, h.symm⟩
  · obtain ⟨v, rfl, hv⟩ := (parseEnd_cons_iff a ha _).mp h
    exact Or.inr ⟨v, hv, rfl⟩

theorem isEnd_noDot {a : Str} {l : Option Int} (h : IsEnd a l) : NoDot a ∧ '\n' ∉ a := by
  rcases h with ⟨rfl, _⟩ | ⟨v, hv, _⟩
  · exact ⟨fun c hc => by simp at hc, by simp⟩
  · exact ⟨(intlit_noDot hv).1, intlit_noNewline hv⟩

/-- **the entry parser = the declarative entry grammar** -/
theorem parseEntry_iff_isEntry (s : Str) (r : Raw) : parseEntry s = some r ↔ IsEntry s r := by
  constructor
  · intro h
    unfold parseEntry at h
    by_cases hd : s = ['.', '.']
    · simp [hd] at h; subst h; rw [hd]; exact .unclaimed
    · simp only [hd, if_false] at h
      cases hm : rangeMatch s with
      | none =>
        rw [hm] at h; simp only at h
        cases hv : integerValueToInt s with
        | none => rw [hv] at h; simp at h
        | some v => rw [hv] at h; simp at h; subst h; exact .single s v hv
      | some ab =>
        obtain ⟨a, b⟩ := ab
        rw [hm] at h; simp only at h
        cases hl : parseEnd a with
        | none => simp [hl] at h
        | some l =>
          cases hh : parseEnd b with
          | none => simp [hl, hh] at h
          | some h' =>
            simp [hl, hh] at h; subst h
            have hs := rangeMatch_eq hm
            rw [hs]
            refine .range a b l h' (parseEnd_isEnd hl) (parseEnd_isEnd hh) ?_
            by_cases ha : a = []
            · by_cases hb : b = []
              · subst ha; subst hb; exact absurd hs hd
              · exact Or.inr hb
            · exact Or.inl ha
  · intro h
    cases h with
    | unclaimed => exact parseEntry_dots
    | single s n hv =>
      have hn := (intlit_noDot hv).1
      have hd : s ≠ ['.', '.'] := by intro e; subst e; exact hn '.' (by simp) rfl
      simp [parseEntry, hd, rangeMatch_noDot hn, hv]
    | range a b l h' ha hb hne =>
      have hd : a ++ '.' :: '.' :: b ≠ ['.', '.'] := by
        intro e
        have := congrArg List.length e
        simp at this
        rcases hne with h1 | h1
        · cases a with
          | nil => exact h1 rfl
          | cons _ _ => simp at this; omega
        · cases b with
          | nil => exact h1 rfl
          | cons _ _ => simp at this; omega
      have hnl : '\n' ∉ a ++ '.' :: '.' :: b := by
        intro hm
        rw [List.mem_append] at hm
        rcases hm with hm | hm
        · exact (isEnd_noDot ha).2 hm
        · rw [List.mem_cons] at hm
          rcases hm with hm | hm
          · exact absurd hm (by decide)
          · rw [List.mem_cons] at hm
            rcases hm with hm | hm
            · exact absurd hm (by decide)
            · exact (isEnd_noDot hb).2 hm
      have hrm : rangeMatch (a ++ '.' :: '.' :: b) = some (a, b) := by
        unfold rangeMatch
        rw [if_neg hnl]
        exact splitLastDots_append a b (isEnd_noDot hb).1
      simp [parseEntry, hd, hrm, isEnd_parseEnd ha, isEnd_parseEnd hb]

/-! ### the default ValueMap (no ValueMap qualifier): decimal text of 0, 1, 2, … -/

theorem digit_char (k : Nat) (hk : k < 10) :
    isDec (Char.ofNat (48 + k)) = true ∧ digitVal (Char.ofNat (48 + k)) = k ∧
    (k ≠ 0 → isPos (Char.ofNat (48 + k)) = true) := by
  have : k = 0 ∨ k = 1 ∨ k = 2 ∨ k = 3 ∨ k = 4 ∨ k = 5 ∨ k = 6 ∨ k = 7 ∨ k = 8 ∨ k = 9 := by omega
  rcases this with rfl | rfl | rfl | rfl | rfl | rfl | rfl | rfl | rfl | rfl <;> decide

theorem natOf_snoc (base : Nat) (xs : Str) (c : Char) : natOf base (xs ++ [c]) = natOf base xs * base + digitVal c := by
  simp [natOf, List.foldl_append]

theorem decStr_spec (n : Nat) :
    natOf 10 (decStr n) = n ∧ (∀ c ∈ decStr n, isDec c = true) ∧
    (n = 0 → decStr n = ['0']) ∧ (n ≠ 0 → ∃ d ds, decStr n = d :: ds ∧ isPos d = true) := by
  induction n using decStr.induct with
  | case1 n hlt =>
    rw [decStr]; simp only [hlt, dite_true]
    obtain ⟨h1, h2, h3⟩ := digit_char n hlt
    refine ⟨by simp [natOf, h2], by intro c hc; simp at hc; rw [hc]; exact h1, ?_, ?_⟩
    · intro h0; subst h0; rfl
    · intro h0; exact ⟨_, [], rfl, h3 h0⟩
  | case2 n hge ih =>
    rw [decStr]; simp only [hge, dite_false]
    obtain ⟨i1, i2, _, i4⟩ := ih
    have hm : n % 10 < 10 := Nat.mod_lt _ (by omega)
    obtain ⟨h1, h2, _⟩ := digit_char (n % 10) hm
    refine ⟨?_, ?_, ?_, ?_⟩
    · rw [natOf_snoc, i1, h2]; omega
    · intro c hc; simp at hc; rcases hc with hc | rfl
      · exact i2 c hc
      · exact h1
    · intro h0; omega
    · intro _
      obtain ⟨d, ds, hd, hp⟩ := i4 (by omega)
      exact ⟨d, ds ++ [Char.ofNat (48 + n % 10)], by rw [hd]; simp, hp⟩

theorem intlit_decStr (n : Nat) : integerValueToInt (decStr n) = some (n : Int) := by
  obtain ⟨h1, h2, h3, h4⟩ := decStr_spec n
  by_cases h0 : n = 0
  · subst h0; rw [h3 rfl]; decide
  · obtain ⟨d, ds, hd, hp⟩ := h4 h0
    apply intlit_complete_partial
    · have := IsIntegerValue.decimal .none d ds hp (fun c hc => h2 c (by rw [hd]; simp [hc]))
      simp only [Sign.chars, List.nil_append, Sign.apply] at this
      rw [← hd, ← natOf_eq_posValue, h1] at this
      exact this
    · rintro ⟨sg, ds', he, _, _, _⟩
      rw [hd] at he
      cases sg <;> simp [Sign.chars] at he
      · rw [he.1] at hp; simp [isPos] at hp
      · rw [he.1] at hp; simp [isPos] at hp
      · rw [he.1] at hp; simp [isPos] at hp

theorem parseAll_map {α} (l : List α) (f : α → Str) (g : α → Raw) (h : ∀ x ∈ l, parseEntry (f x) = some (g x)) :
    parseAll (l.map f) = some (l.map g) := by
  induction l with
  | nil => rfl
  | cons a t ih =>
    have h1 := h a (by simp)
    have h2 := ih (fun x hx => h x (by simp [hx]))
    simp [parseAll, h1, h2]

theorem resolveFrom_singles {α} (T : IntType) (raws : List Raw) (l : List α) (g : α → Int) (i : Nat) :
    resolveFrom T raws i (l.map (fun k => Raw.single (g k))) = some (l.map (fun k => some (g k, g k))) := by
  induction l generalizing i with
  | nil => rfl
  | cons a t ih => simp [resolveFrom, resolveAt, specLo, specHi, ih]

/-- **no ValueMap qualifier ⇒ the DSP0004 default**: the i-th Values string is claimed by exactly the value i -/
theorem specCreate_default (typ : String) (T : IntType) (hT : intTypeOf typ = some T) (vals : List Str) (vd : Option Str) :
    specCreate ⟨typ, some vals, none⟩ vd =
      .ok ((List.range vals.length).map (fun (i : Nat) => some ((i : Int), (i : Int))), vals) := by
  unfold specCreate
  simp only [hT, effMap]
  have hlen : (defaultMap vals.length).length = vals.length := by simp [defaultMap]
  have hrec : reconcile vals (defaultMap vals.length) vd = .ok vals := by
    unfold reconcile; simp [hlen]
  simp only [hrec]
  have hp : parseAll (defaultMap vals.length) = some ((List.range vals.length).map (fun (i : Nat) => Raw.single (i : Int))) := by
    unfold defaultMap
    apply parseAll_map
    intro i _
    exact (parseEntry_iff_isEntry _ _).mpr (.single _ _ (intlit_decStr i))
  simp only [hp]
  unfold resolve
  rw [resolveFrom_singles T _ (List.range vals.length) (fun (i : Nat) => (i : Int)) 0]

end Proofs.ValueMap
