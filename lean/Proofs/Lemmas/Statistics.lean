/-
C19 — lemmas about the detailed statistics model (Model/Statistics.lean).
-/
import Pywbem.Model.Statistics

namespace Proofs.Lemmas.Statistics
open Pywbem.Model.Statistics

theorem mul_succ_cast (m : Int) (n : Nat) : m * ((n + 1 : Nat) : Int) = m * (n : Int) + m := by
  rw [Int.natCast_add, Int.mul_add]
  simp

theorem mul_mono_cast (a b : Int) (n : Nat) (h : a ≤ b) : a * (n : Int) ≤ b * (n : Int) :=
  Int.mul_le_mul_of_nonneg_right h (Int.natCast_nonneg n)

/-- what holds of every OperationStatistic object at any time: the exception counter never exceeds the counter;
    nothing measured ⇒ sums 0, minimum inf; otherwise  min·count ≤ Σ ≤ max·count  and min ≤ max -/
structure Inv (o : OpStat) : Prop where
  exc_le : o.excCount ≤ o.count
  zero : o.count = 0 → o.timeSum = 0 ∧ o.timeMin = none ∧ o.timeMax = 0
  pos : 0 < o.count → ∃ m, o.timeMin = some m ∧ m * (o.count : Int) ≤ o.timeSum ∧
          o.timeSum ≤ o.timeMax * (o.count : Int) ∧ m ≤ o.timeMax
  max_nonneg : 0 ≤ o.timeMax

theorem inv_init : Inv {} :=
  ⟨by decide, fun _ => ⟨rfl, rfl, rfl⟩, fun h => absurd h (by decide), by decide⟩

theorem inv_start (o : OpStat) (now : Int) (h : Inv o) : Inv (o.start now) := by
  obtain ⟨a, b, c, d⟩ := h
  exact ⟨a, b, c, d⟩

theorem minUpd_cases (m : Option Int) (x : Int) :
    (m = none ∧ minUpd m x = some x) ∨ (∃ v, m = some v ∧ x < v ∧ minUpd m x = some x) ∨
    (∃ v, m = some v ∧ ¬ x < v ∧ minUpd m x = some v) := by
  cases m with
  | none => left; exact ⟨rfl, rfl⟩
  | some v =>
    by_cases h : x < v
    · right; left; exact ⟨v, rfl, h, by simp [minUpd, h]⟩
    · right; right; exact ⟨v, rfl, h, by simp [minUpd, h]⟩

theorem maxUpd_cases (m x : Int) : (x > m ∧ maxUpd m x = x) ∨ (¬ x > m ∧ maxUpd m x = m) := by
  by_cases h : x > m
  · left; exact ⟨h, by simp [maxUpd, h]⟩
  · right; exact ⟨h, by simp [maxUpd, h]⟩

/-- the fields of `stop` that the invariant talks about -/
theorem stop_fields (o : OpStat) (t0 now : Int) (a b c : Option Int) (e : Bool) :
    (o.stop t0 now a b c e).count = o.count + 1 ∧
    (o.stop t0 now a b c e).excCount = (if e then o.excCount + 1 else o.excCount) ∧
    (o.stop t0 now a b c e).timeSum = o.timeSum + (now - t0) ∧
    (o.stop t0 now a b c e).timeMax = maxUpd o.timeMax (now - t0) ∧
    (o.stop t0 now a b c e).timeMin = minUpd o.timeMin (now - t0) ∧
    (o.stop t0 now a b c e).startTime = none := by
  simp only [OpStat.stop]
  cases o.srvSuspended <;> cases a <;> cases b <;> cases c <;> simp

theorem inv_stop (o : OpStat) (t0 now : Int) (a b c : Option Int) (e : Bool) (h : Inv o) :
    Inv (o.stop t0 now a b c e) := by
  obtain ⟨hc, he, hs, hmax, hmin, _⟩ := stop_fields o t0 now a b c e
  obtain ⟨i1, i2, i3, i4⟩ := h
  generalize now - t0 = dt at *
  refine ⟨?_, ?_, ?_, ?_⟩
  · rw [hc, he]; split <;> omega
  · intro h0; rw [hc] at h0; omega
  · intro _
    rw [hc, hs, hmax, hmin]
    by_cases hn : o.count = 0
    · obtain ⟨z1, z2, z3⟩ := i2 hn
      rw [z1, z2, z3, hn]
      refine ⟨dt, rfl, by simp, ?_, ?_⟩
      · rcases maxUpd_cases 0 dt with ⟨h1, h2⟩ | ⟨h1, h2⟩ <;> rw [h2] <;> simp <;> omega
      · rcases maxUpd_cases 0 dt with ⟨h1, h2⟩ | ⟨h1, h2⟩ <;> rw [h2] <;> omega
    · obtain ⟨m', hm', p1, p2, p3⟩ := i3 (by omega)
      have e1 := fun (x : Int) => mul_succ_cast x o.count
      rcases minUpd_cases o.timeMin dt with ⟨h1, _⟩ | ⟨v, h1, hlt, h2⟩ | ⟨v, h1, hge, h2⟩
      · rw [hm'] at h1; simp at h1
      · rw [hm'] at h1
        have hv : m' = v := by simpa using h1
        subst hv
        rw [h2]
        have mono1 := mul_mono_cast dt m' o.count (by omega)
        rcases maxUpd_cases o.timeMax dt with ⟨g1, g2⟩ | ⟨g1, g2⟩
        · rw [g2]
          have mono2 := mul_mono_cast o.timeMax dt o.count (by omega)
          refine ⟨dt, rfl, ?_, ?_, by omega⟩
          · rw [e1]; omega
          · rw [e1]; omega
        · rw [g2]
          refine ⟨dt, rfl, ?_, ?_, by omega⟩
          · rw [e1]; omega
          · rw [e1]; omega
      · rw [hm'] at h1
        have hv : m' = v := by simpa using h1
        subst hv
        rw [h2]
        rcases maxUpd_cases o.timeMax dt with ⟨g1, g2⟩ | ⟨g1, g2⟩
        · rw [g2]
          have mono2 := mul_mono_cast o.timeMax dt o.count (by omega)
          refine ⟨m', rfl, ?_, ?_, by omega⟩
          · rw [e1]; omega
          · rw [e1]; omega
        · rw [g2]
          refine ⟨m', rfl, ?_, ?_, by omega⟩
          · rw [e1]; omega
          · rw [e1]; omega
  · rw [hmax]; rcases maxUpd_cases o.timeMax dt with ⟨h1, h2⟩ | ⟨h1, h2⟩ <;> rw [h2] <;> omega

/-! ### the container -/

theorem mem_setOp (n : Str) (o : OpStat) : ∀ (ops : List (Str × OpStat)) (q : Str × OpStat),
    q ∈ setOp n o ops → q = (n, o) ∨ q ∈ ops
  | [], q, h => by simp [setOp] at h; exact Or.inl h
  | p :: ps, q, h => by
    by_cases hp : p.1 = n
    · simp only [setOp, hp, if_true, List.mem_cons] at h
      rcases h with h | h
      · exact Or.inl h
      · exact Or.inr (by simp [h])
    · simp only [setOp, hp, if_false, List.mem_cons] at h
      rcases h with h | h
      · exact Or.inr (by simp [h])
      · rcases mem_setOp n o ps q h with h2 | h2
        · exact Or.inl h2
        · exact Or.inr (by simp [h2])

theorem find_mem : ∀ (ops : List (Str × OpStat)) (n : Str) (o : OpStat), find ops n = some o → (n, o) ∈ ops
  | [], _, _, h => by simp [find] at h
  | p :: ps, n, o, h => by
    by_cases hp : p.1 = n
    · simp only [find, hp, if_true, Option.some.injEq] at h
      subst h; subst hp
      simp
    · simp only [find, hp, if_false] at h
      exact List.mem_cons_of_mem _ (find_mem ps n o h)

theorem find_setOp_same (n : Str) (o : OpStat) : ∀ ops : List (Str × OpStat), find (setOp n o ops) n = some o
  | [] => by simp [setOp, find]
  | p :: ps => by
    by_cases hp : p.1 = n
    · simp [setOp, find, hp]
    · simp [setOp, find, hp, find_setOp_same n o ps]

theorem find_setOp_other (n m : Str) (o : OpStat) (h : m ≠ n) : ∀ ops : List (Str × OpStat),
    find (setOp n o ops) m = find ops m
  | [] => by simp [setOp, find, Ne.symm h]
  | p :: ps => by
    by_cases hp : p.1 = n
    · simp [setOp, find, hp, Ne.symm h]
    · by_cases hm : p.1 = m
      · have h3 : ¬ m = n := h
        simp [setOp, find, hm, h3]
      · simp [setOp, find, hp, hm, find_setOp_other n m o h ps]

def AllInv (s : Stats) : Prop := ∀ p ∈ s.ops, Inv p.2

theorem allInv_startTimer (s : Stats) (n : Str) (now : Int) (h : AllInv s) : AllInv (s.startTimer n now).1 := by
  simp only [Stats.startTimer]
  by_cases he : s.enabled = true
  · simp only [he, Bool.not_true, Bool.false_eq_true, if_false]
    intro p hp
    rcases mem_setOp _ _ _ _ hp with h1 | h1
    · rw [h1]
      apply inv_start
      cases hf : find s.ops n with
      | none => exact inv_init
      | some o => exact h _ (find_mem _ _ _ hf)
    · exact h p h1
  · simp only [Bool.not_eq_true] at he
    simpa [he] using h

theorem allInv_stopTimer (s : Stats) (hd : Handle) (now : Int) (a b c : Option Int) (e : Bool) (h : AllInv s) :
    AllInv (s.stopTimer hd now a b c e).1 := by
  simp only [Stats.stopTimer]
  split
  · exact h
  · cases hd with
    | dummy => exact h
    | named n g =>
      simp only
      split
      · exact h
      · cases hf : find s.ops n with
        | none => exact h
        | some o =>
          simp only
          cases ht : o.startTime with
          | none => exact h
          | some t0 =>
            simp only
            intro p hp
            rcases mem_setOp _ _ _ _ hp with h1 | h1
            · rw [h1]; exact inv_stop o t0 now a b c e (h _ (find_mem _ _ _ hf))
            · exact h p h1

theorem allInv_reset (s : Stats) (h : AllInv s) : AllInv s.reset.1 := by
  simp only [Stats.reset]
  split
  · exact h
  · intro p hp; simp at hp

theorem allInv_step (r : Run) (op : Op) (h : AllInv r.stats) : AllInv (step r op).1.stats := by
  cases op with
  | start n now => simpa [step] using allInv_startTimer r.stats n now h
  | stop idx now a b c e =>
    simp only [step]
    cases r.handles[idx]? with
    | none => exact h
    | some hd => simpa using allInv_stopTimer r.stats hd now a b c e h
  | reset => simpa [step] using allInv_reset r.stats h
  | enable => simpa [step, Stats.enable, AllInv] using h
  | disable => simpa [step, Stats.disable, AllInv] using h
  | enter n now => simpa [step] using allInv_startTimer r.stats n now h
  | exit now =>
    simp only [step]
    cases r.cm.getLast? with
    | none => exact h
    | some hd => simpa [exitCm] using allInv_stopTimer r.stats hd now none none none false h

theorem allInv_run : ∀ (ops : List Op) (r : Run), AllInv r.stats → AllInv (run r ops).1.stats
  | [], _, h => h
  | op :: ops, r, h => by
    simp only [run]
    exact allInv_run ops (step r op).1 (allInv_step r op h)

/-- the statistic stored under a name (a fresh one when there is none) -/
def get (s : Stats) (n : Str) : OpStat := (find s.ops n).getD {}

theorem get_setOp_same (en : Bool) (g : Nat) (ops : List (Str × OpStat)) (n : Str) (o : OpStat) :
    get { enabled := en, ops := setOp n o ops, gen := g } n = o := by
  simp [get, find_setOp_same]

theorem get_setOp_other (en : Bool) (g : Nat) (ops : List (Str × OpStat)) (n m : Str) (o : OpStat) (h : m ≠ n) :
    get { enabled := en, ops := setOp n o ops, gen := g } m = get { enabled := en, ops := ops, gen := g } m := by
  simp [get, find_setOp_other n m o h]

/-- a stop_timer call either measures (returns the elapsed time, counts exactly once under the handle's name,
    touches no other statistic, ends the timer) or changes nothing at all -/
theorem stopTimer_cases (s : Stats) (hd : Handle) (now : Int) (a b c : Option Int) (e : Bool) :
    ((s.stopTimer hd now a b c e).1 = s ∧ ∀ d, (s.stopTimer hd now a b c e).2 ≠ .dt d) ∨
    (∃ n t0, hd = .named n s.gen ∧ s.enabled = true ∧ (get s n).startTime = some t0 ∧
      (s.stopTimer hd now a b c e).2 = .dt (now - t0) ∧
      get (s.stopTimer hd now a b c e).1 n = (get s n).stop t0 now a b c e ∧
      (∀ m, m ≠ n → get (s.stopTimer hd now a b c e).1 m = get s m) ∧
      (s.stopTimer hd now a b c e).1.enabled = s.enabled ∧ (s.stopTimer hd now a b c e).1.gen = s.gen) := by
  simp only [Stats.stopTimer]
  by_cases he : s.enabled = true
  · simp only [he, Bool.not_true, Bool.false_eq_true, if_false]
    cases hd with
    | dummy => left; exact ⟨by first | rfl | trivial, by intro d h; cases h⟩
    | named n g =>
      simp only
      by_cases hg : g = s.gen
      · subst hg
        simp only [ne_eq, not_true_eq_false, if_false]
        cases hf : find s.ops n with
        | none => left; exact ⟨by first | rfl | trivial, by intro d h; cases h⟩
        | some o =>
          simp only
          cases ht : o.startTime with
          | none => left; exact ⟨by first | rfl | trivial, by intro d h; cases h⟩
          | some t0 =>
            right
            refine ⟨n, t0, rfl, by first | rfl | trivial | exact he, by simp [get, hf, ht], by first | rfl | trivial, ?_, ?_,
              by first | rfl | trivial, by first | rfl | trivial⟩
            · simp [get, find_setOp_same, hf]
            · intro m hm; simp [get, find_setOp_other n m _ hm]
      · left
        simp only [ne_eq, hg, not_false_eq_true, if_true]
        exact ⟨by first | rfl | trivial, by intro d h; cases h⟩
  · left
    simp only [Bool.not_eq_true] at he
    simp only [he, Bool.not_false, if_true]
    exact ⟨by first | rfl | trivial, by intro d h; cases h⟩

/-- start_timer immediately followed by stop_timer on the returned object, statistics enabled:
    one more measured operation under that name, with the elapsed time of the clock -/
theorem start_stop_pair (s : Stats) (n : Str) (t1 t2 : Int) (a b c : Option Int) (e : Bool) (he : s.enabled = true) :
    ((s.startTimer n t1).1.stopTimer (s.startTimer n t1).2 t2 a b c e).2 = .dt (t2 - t1) ∧
    (get ((s.startTimer n t1).1.stopTimer (s.startTimer n t1).2 t2 a b c e).1 n).count = (get s n).count + 1 ∧
    (get ((s.startTimer n t1).1.stopTimer (s.startTimer n t1).2 t2 a b c e).1 n).excCount =
      (get s n).excCount + (if e then 1 else 0) ∧
    (get ((s.startTimer n t1).1.stopTimer (s.startTimer n t1).2 t2 a b c e).1 n).timeSum =
      (get s n).timeSum + (t2 - t1) ∧
    (get ((s.startTimer n t1).1.stopTimer (s.startTimer n t1).2 t2 a b c e).1 n).startTime = none ∧
    (∀ m, m ≠ n → get ((s.startTimer n t1).1.stopTimer (s.startTimer n t1).2 t2 a b c e).1 m = get s m) := by
  have hs : s.startTimer n t1 = ({ s with ops := setOp n ((get s n).start t1) s.ops }, .named n s.gen) := by
    simp [Stats.startTimer, he, get]
  rw [hs]
  have h0 : ((get s n).start t1).startTime = some t1 ∧ ((get s n).start t1).count = (get s n).count ∧
      ((get s n).start t1).excCount = (get s n).excCount ∧ ((get s n).start t1).timeSum = (get s n).timeSum :=
    ⟨rfl, rfl, rfl, rfl⟩
  generalize (get s n).start t1 = o1 at h0
  obtain ⟨hst, hc, hx, hts⟩ := h0
  obtain ⟨f1, f2, f3, _, _, f6⟩ := stop_fields o1 t1 t2 a b c e
  simp only [Stats.stopTimer, he, Bool.not_true, Bool.false_eq_true, if_false, ne_eq, not_true_eq_false,
    find_setOp_same, hst]
  refine ⟨by first | rfl | trivial, ?_, ?_, ?_, ?_, ?_⟩
  · rw [get_setOp_same, f1, hc]
  · rw [get_setOp_same, f2, hx]; cases e <;> simp
  · rw [get_setOp_same, f3, hts]
  · rw [get_setOp_same, f6]
  · intro m hm
    rw [get_setOp_other _ _ _ _ _ _ hm, get_setOp_other _ _ _ _ _ _ hm]
    rfl

theorem reset_cases (s : Stats) :
    ((∃ p ∈ s.ops, p.2.startTime.isSome = true) ∧ s.reset = (s, false)) ∨
    ((∀ p ∈ s.ops, p.2.startTime = none) ∧ s.reset = ({ s with ops := [], gen := s.gen + 1 }, true)) := by
  simp only [Stats.reset]
  by_cases h : s.ops.any (fun p => p.2.startTime.isSome) = true
  · left
    simp only [h, if_true]
    simp only [List.any_eq_true] at h
    obtain ⟨p, hp, hs⟩ := h
    exact ⟨⟨p, hp, hs⟩, by first | rfl | trivial⟩
  · right
    simp only [h, Bool.false_eq_true, if_false]
    refine ⟨?_, by first | rfl | trivial⟩
    intro p hp
    simp only [List.any_eq_true, not_exists, not_and] at h
    have := h p hp
    cases hst : p.2.startTime with
    | none => rfl
    | some t => rw [hst] at this; simp at this

theorem disabled_inert (s : Stats) (hd : Handle) (n : Str) (now : Int) (a b c : Option Int) (e : Bool)
    (h : s.enabled = false) :
    s.startTimer n now = (s, .dummy) ∧ s.stopTimer hd now a b c e = (s, .none) := by
  simp [Stats.startTimer, Stats.stopTimer, h]

/-- __exit__ never asks Python to swallow the exception of the with-block -/
theorem exit_never_suppresses (r : Run) (now : Int) :
    (step r (.exit now)).2 = .indexError ∨ ∃ res, (step r (.exit now)).2 = .exited false res := by
  simp only [step]
  cases r.cm.getLast? with
  | none => left; rfl
  | some h => right; exact ⟨_, rfl⟩

/-- `with statistics(n):` entered and left with statistics enabled: counted once (as a non-exception), like
    start_timer/stop_timer -/
theorem enter_exit_pair (s : Stats) (n : Str) (t1 t2 : Int) (he : s.enabled = true) :
    (exitCm (s.startTimer n t1).1 (s.startTimer n t1).2 t2).2.2 = .dt (t2 - t1) ∧
    (get (exitCm (s.startTimer n t1).1 (s.startTimer n t1).2 t2).1 n).count = (get s n).count + 1 ∧
    (get (exitCm (s.startTimer n t1).1 (s.startTimer n t1).2 t2).1 n).excCount = (get s n).excCount := by
  obtain ⟨h1, h2, h3, _⟩ := start_stop_pair s n t1 t2 none none none false he
  simp only [exitCm]
  exact ⟨h1, h2, by simpa using h3⟩

end Proofs.Lemmas.Statistics
