/-
C03 — qualifier declarations (SCOPE attributes: sorted insertion is a permutation, so declaredness and uniqueness
carry over), parameter values (PARAMVALUE), and the collection over all object kinds.
-/
import Proofs.Lemmas.DtdEnc2

set_option linter.unusedSimpArgs false
set_option linter.unusedVariables false

namespace Proofs.DtdEnc
open Pywbem.Model Pywbem.Model.Dtd Pywbem.Model.XmlText Pywbem.Model.Sendable Proofs.Dtd
open Pywbem.Generated

/-! ### SCOPE -/

theorem nodupNames_iff : ∀ (l : List Name), nodupNames l = true ↔ l.Nodup
  | [] => by simp [nodupNames]
  | a :: l => by simp [nodupNames, nodupNames_iff l, List.nodup_cons]

theorem insertSorted_perm (p : Str × Str) : ∀ (l : List (Str × Str)), (insertSorted p l).Perm (p :: l)
  | [] => by simp [insertSorted]
  | q :: qs => by
    simp only [insertSorted]
    split
    · exact List.Perm.refl _
    · exact ((insertSorted_perm p qs).cons q).trans (List.Perm.swap p q qs)

theorem foldr_insertSorted_perm : ∀ (l : List (Str × Str)), (l.foldr insertSorted []).Perm l
  | [] => by simp
  | p :: l => by
    simp only [List.foldr_cons]
    exact (insertSorted_perm p _).trans ((foldr_insertSorted_perm l).cons p)

def scopeNamesL : List Name := scopeNames.map String.toList

theorem scope_enum : ∀ n ∈ scopeNamesL, enumVals dtdDecl_SCOPE.atts n = boolVals := by decide

theorem scope_any_attrs : validAttrs dtdDecl_SCOPE.atts (scopeNames.map (fun n => (n.toList, "true".toList))) = true := by
  decide

theorem struct_scope (attrs : List (Str × Str)) (h : validAttrs dtdDecl_SCOPE.atts attrs = true) :
    structNode D (E "SCOPE" attrs []) = true :=
  struct_elem dtdDecl_SCOPE (by rfl) h (by decide) (by simp [structNodes])

theorem scope_sorted_attrs (scopes : List (Str × Bool))
    (hall : scopes.all (fun p => scopeNamesL.contains (upperAscii p.1)) = true)
    (hnd : nodupNames (scopes.map (fun p => upperAscii p.1)) = true) :
    validAttrs dtdDecl_SCOPE.atts ((scopes.map (fun p => (upperAscii p.1, boolAttr p.2))).foldr insertSorted []) = true := by
  have hperm := foldr_insertSorted_perm (scopes.map (fun p => (upperAscii p.1, boolAttr p.2)))
  simp only [validAttrs, Bool.and_eq_true]
  refine ⟨⟨?_, ?_⟩, ?_⟩
  · rw [List.all_eq_true]
    intro a ha
    have ha' := hperm.mem_iff.mp ha
    obtain ⟨p, hp, rfl⟩ := List.mem_map.mp ha'
    have hn : upperAscii p.1 ∈ scopeNamesL := by
      have := (List.all_eq_true.mp hall) p hp
      simpa using this
    apply attrOk_enum
    rw [scope_enum _ hn]
    cases p.2 <;> simp [boolAttr, boolVals]
  · rw [nodupNames_iff]
    have : ((scopes.map (fun p => (upperAscii p.1, boolAttr p.2))).foldr insertSorted []).map (·.1) |>.Perm
        (scopes.map (fun p => upperAscii p.1)) := by
      have := hperm.map (·.1)
      simpa [List.map_map, Function.comp_def] using this
    exact this.nodup_iff.mpr ((nodupNames_iff _).mp hnd)
  · apply requiredPresent_of
    have : requiredNames dtdDecl_SCOPE.atts = [] := by rfl
    rw [this]; simp

theorem encScope_facts (scopes : List (Str × Bool)) (h : scopesOk scopes = true) :
    structNodes D (encScope scopes) = true ∧ allElems (encScope scopes) = true ∧
    (kidNames (encScope scopes) = [] ∨ kidNames (encScope scopes) = ["SCOPE".toList]) := by
  unfold encScope
  split
  · exact ⟨rfl, rfl, .inl rfl⟩
  · simp only
    split
    · exact ⟨structNodes_one (struct_scope _ scope_any_attrs), by simp [E, allElems], .inr (by simp [E, kidNames])⟩
    · rename_i hany
      have h2 : (scopes.all (fun p => scopeNamesL.contains (upperAscii p.1)) = true) ∧
          nodupNames (scopes.map (fun p => upperAscii p.1)) = true := by
        unfold scopesOk at h
        rcases (Bool.or_eq_true _ _).mp h with h | h
        · exact absurd h hany
        · simpa [scopeNamesL] using h
      exact ⟨structNodes_one (struct_scope _ (scope_sorted_attrs scopes h2.1 h2.2)), by simp [E, allElems],
        .inr (by simp [E, kidNames])⟩

/-! ### qualifier declarations -/

theorem struct_encQualDecl (C : Codec) (q : QualDecl) (h : shapeQualDecl q = true) :
    structNode D (encQualDecl C q) = true := by
  simp only [shapeQualDecl, Bool.and_eq_true] at h
  obtain ⟨⟨hty, hval⟩, hsc⟩ := h
  obtain ⟨s1, s2, s3⟩ := encScope_facts q.scopes hsc
  obtain ⟨v1, v2, v3⟩ := qualValue_facts C q.val hval
  unfold encQualDecl
  apply struct_elem dtdDecl_QUALIFIER_DECLARATION (by rfl)
  · apply validAttrs_of (["NAME".toList] ++ ["TYPE".toList] ++ ["ISARRAY".toList] ++ ["ARRAYSIZE".toList] ++
      ["OVERRIDABLE".toList] ++ ["TOSUBCLASS".toList] ++ ["TOINSTANCE".toList] ++ ["TRANSLATABLE".toList])
    · simp only [List.all_append, Bool.and_eq_true, List.all_cons, List.all_nil, Bool.and_true]
      have hev : enumVals dtdDecl_QUALIFIER_DECLARATION.atts "TYPE".toList = cimTypes := by rfl
      have hia : enumVals dtdDecl_QUALIFIER_DECLARATION.atts "ISARRAY".toList = boolVals := by rfl
      refine ⟨⟨⟨⟨⟨⟨⟨attrOk_cdata (by rfl) _, attrOk_enum ?_⟩, attrOk_enum ?_⟩, all_optAttr_cdata _ _ _ (by rfl)⟩,
        all_optBoolAttr _ _ _ (by rfl)⟩, all_optBoolAttr _ _ _ (by rfl)⟩, all_optBoolAttr _ _ _ (by rfl)⟩,
        all_optBoolAttr _ _ _ (by rfl)⟩
      · rw [hev]; exact hty
      · rw [hia]; cases q.isArray <;> simp [boolAttr, boolVals]
    · simp only [List.map_append]
      exact List.Sublist.append (List.Sublist.append (List.Sublist.append (List.Sublist.append (List.Sublist.append
        (by simp) (sub_optAttr _ _)) (sub_optBoolAttr _ _)) (sub_optBoolAttr _ _)) (sub_optBoolAttr _ _))
        (sub_optBoolAttr _ _)
    · decide
    · have : requiredNames dtdDecl_QUALIFIER_DECLARATION.atts = ["NAME".toList, "TYPE".toList] := by rfl
      rw [this]; simp
  · apply content_children (by rw [allElems_append, s2, v2]; rfl)
    rw [kidNames_append]
    rcases s3 with s3 | s3 <;> rw [s3]
    · exact lang_seq2 lang_opt_none v3
    · exact lang_seq2 (lang_opt_some (Lang.sym _)) v3
  · rw [structNodes_append, s1, v1]; rfl

/-! ### PARAMVALUE -/

def paramTypes : List Name := cimTypes ++ ["reference".toList, "object".toList, "instance".toList]

theorem encRefItem_facts (C : Codec) (a : Atom) (h : ∀ p, a = .ref p → shapePath p = true) :
    structNode D (encRefItem C a) = true ∧ ∃ as ks n, encRefItem C a = .elem n as ks ∧
      (n = "VALUE.REFERENCE".toList ∨ n = "VALUE.NULL".toList) := by
  have hn : structNode D (if sendValueNull then E "VALUE.NULL" [] [] else E "VALUE" [] []) = true ∧
      ∃ as ks n, (if sendValueNull then E "VALUE.NULL" [] [] else E "VALUE" [] [] : Xml) = .elem n as ks ∧
        (n = "VALUE.REFERENCE".toList ∨ n = "VALUE.NULL".toList) := by
    refine ⟨struct_nullItem, ?_⟩
    have : sendValueNull = true := by rfl
    simp only [this, if_true]
    exact ⟨_, _, _, by simp only [E]; rfl, .inr rfl⟩
  cases a with
  | ref p =>
    simp only [encRefItem]
    exact ⟨struct_valueReference (struct_encPath C p (h p rfl)) (encPath_name C p),
      _, _, _, by simp only [E]; rfl, .inl rfl⟩
  | _ => simpa only [encRefItem] using hn

theorem encRefItems_facts (C : Codec) : ∀ (l : List Atom), refItemsOk l = true →
    structNodes D (encRefItems C l) = true ∧ allElems (encRefItems C l) = true ∧
    ∀ x ∈ kidNames (encRefItems C l), x = "VALUE.REFERENCE".toList ∨ x = "VALUE.NULL".toList
  | [], _ => by simp [encRefItems, structNodes, allElems, kidNames]
  | a :: l, h => by
    have h' : (∀ p, a = .ref p → shapePath p = true) ∧ refItemsOk l = true := by
      cases a <;> simp_all [refItemsOk]
    obtain ⟨h1, h2, h3⟩ := encRefItems_facts C l h'.2
    obtain ⟨hs, as, ks, n, he, hn⟩ := encRefItem_facts C a h'.1
    simp only [encRefItems]
    rw [structNodes_cons, hs, h1, he]
    refine ⟨rfl, by simpa [allElems] using h2, ?_⟩
    intro x hx
    simp only [kidNames, List.mem_cons] at hx
    rcases hx with rfl | hx
    · exact hn
    · exact h3 x hx

theorem struct_valueRefArray (C : Codec) (l : List Atom) (h : refItemsOk l = true) :
    structNode D (E "VALUE.REFARRAY" [] (encRefItems C l)) = true := by
  obtain ⟨h1, h2, h3⟩ := encRefItems_facts C l h
  apply struct_elem dtdDecl_VALUE_REFARRAY (by rfl) (by decide) _ h1
  apply content_children h2
  apply lang_star_letters
  intro x hx
  rcases h3 x hx with rfl | rfl <;> exact lang_alts_mem (r := .sym _) (by simp) (Lang.sym _)

def paramValueKidNames : List Name :=
  ["VALUE".toList, "VALUE.REFERENCE".toList, "VALUE.ARRAY".toList, "VALUE.REFARRAY".toList, "CLASSNAME".toList,
   "CLASS".toList, "INSTANCE".toList, "VALUE.NAMEDINSTANCE".toList]

theorem lang_paramvalue_child {n : Name} (h : n ∈ paramValueKidNames) :
    Lang (Re.opt (Re.alts (paramValueKidNames.map Re.sym))) [n] :=
  lang_opt_some (lang_alts_mem (r := .sym n) (List.mem_map.mpr ⟨n, h, rfl⟩) (Lang.sym n))

/-- PARAMVALUE around at most one value child with an allowed name -/
theorem struct_paramvalue (name : Str) (ty : Option Str) (emb : Option Str) (kids : List Xml)
    (hty : ∀ t, ty = some t → paramTypes.contains t = true) (hemb : embOk emb = true)
    (hk : structNodes D kids = true) (he : allElems kids = true)
    (hn : kidNames kids = [] ∨ ∃ n, kidNames kids = [n] ∧ n ∈ paramValueKidNames) :
    structNode D (E "PARAMVALUE" ([("NAME".toList, name)] ++ optAttr "PARAMTYPE" ty ++ optAttr "EmbeddedObject" emb) kids) = true := by
  apply struct_elem dtdDecl_PARAMVALUE (by rfl)
  · apply validAttrs_of (["NAME".toList] ++ ["PARAMTYPE".toList] ++ ["EmbeddedObject".toList])
    · simp only [List.all_append, Bool.and_eq_true, List.all_cons, List.all_nil, Bool.and_true]
      exact ⟨⟨attrOk_cdata (by rfl) _, all_optAttr_enum _ _ _ paramTypes (by rfl) hty⟩,
        all_optAttr_enum _ _ _ embKinds (by rfl) (embOk_vals emb hemb)⟩
    · simp only [List.map_append]
      exact List.Sublist.append (List.Sublist.append (by simp) (sub_optAttr _ _)) (sub_optAttr _ _)
    · decide
    · have : requiredNames dtdDecl_PARAMVALUE.atts = ["NAME".toList] := by rfl
      rw [this]; simp
  · apply content_children he
    have hc : dtdDecl_PARAMVALUE.content = .children (Re.opt (Re.alts (paramValueKidNames.map Re.sym))) := by rfl
    rcases hn with hn | ⟨n, hn, hmem⟩
    · rw [hn]; exact lang_opt_none
    · rw [hn]; exact lang_paramvalue_child hmem
  · exact hk

theorem struct_encParamValue (C : Codec) (p : Param) (h : shapeParamValue p = true) :
    structNode D (encParamValue C p) = true := by
  cases p with
  | mk name ty refCls isArray arraySize quals val emb =>
    simp only [shapeParamValue, Bool.and_eq_true] at h
    obtain ⟨⟨hty, hemb⟩, hval⟩ := h
    have hty' : ∀ t, some ty = some t → paramTypes.contains t = true := by
      intro t ht
      cases ht
      simp only [Bool.or_eq_true, decide_eq_true_eq] at hty
      rcases hty with ((h | h) | h) | h
      · subst h; decide
      · subst h; decide
      · subst h; decide
      · simp only [paramTypes, List.contains_eq_mem, List.mem_append, decide_eq_true_eq]
        exact .inl (by simpa [isCimType] using h)
    cases val with
    | null =>
      simp only [encParamValue]
      exact struct_paramvalue name (some ty) emb [] hty' hemb rfl rfl (.inl rfl)
    | scalar a =>
      simp only [encParamValue]
      rcases encVal_cases C (.scalar a) with ⟨hf, _⟩ | ⟨p, hp, he⟩ | ⟨a', ha', _, he⟩ | ⟨l, hl, _⟩
      · cases hf
      · cases hp
        obtain ⟨h1, h2, h3⟩ := value_child_ref C p (by simpa using hval)
        rw [he]
        exact struct_paramvalue name (some ty) emb _ hty' hemb h1 h2 (.inr ⟨_, h3, by simp [paramValueKidNames]⟩)
      · cases ha'
        obtain ⟨h1, h2, h3⟩ := value_child_scalar C a
        rw [he]
        exact struct_paramvalue name (some ty) emb _ hty' hemb h1 h2 (.inr ⟨_, h3, by simp [paramValueKidNames]⟩)
      · cases hl
    | array l =>
      simp only [encParamValue]
      by_cases hr : ty = "reference".toList
      · rw [if_pos hr]
        have hl : refItemsOk l = true := by simpa [hr] using hval
        exact struct_paramvalue name (some ty) emb _ hty' hemb (structNodes_one (struct_valueRefArray C l hl))
          (by simp [E, allElems]) (.inr ⟨"VALUE.REFARRAY".toList, by simp [E, kidNames], by simp [paramValueKidNames]⟩)
      · rw [if_neg hr]
        obtain ⟨h1, h2, h3⟩ := value_child_array C l
        exact struct_paramvalue name (some ty) emb _ hty' hemb h1 h2 (.inr ⟨_, h3, by simp [paramValueKidNames]⟩)

/-! ### all object kinds -/

theorem struct_encObj (C : Codec) (o : Obj) (h : shapeObj o = true) : structNode D (encObj C o) = true := by
  cases o with
  | path p => exact struct_encPath C p h
  | inst i => exact struct_encInst C i h
  | cls c => exact struct_encCls C c h
  | prop p => exact struct_encProp C p h
  | meth m => exact struct_encMeth C m h
  | param p => exact struct_encParam C p h
  | qual q => exact struct_encQual C q h
  | qdecl q => exact struct_encQualDecl C q h

theorem encObj_isElem (C : Codec) (o : Obj) : (encObj C o).isElem = true := by
  cases o with
  | path p => obtain ⟨_, _, _, he, _⟩ := encPath_name C p; simp only [encObj, he, Xml.isElem]
  | inst i =>
    cases i with
    | mk cls path props quals =>
      simp only [encObj]
      cases path with
      | none => simp only [encInst, E, Xml.isElem]
      | some p =>
        cases p with
        | cls c h n => simp only [encInst, E, Xml.isElem]
        | inst c h n ks => cases n <;> cases h <;> simp only [encInst, E, Xml.isElem]
  | cls c => cases c; simp only [encObj, encCls, E, Xml.isElem]
  | prop p => obtain ⟨_, _, _, he, _⟩ := encProp_elem C p; simp only [encObj, he, Xml.isElem]
  | meth m => obtain ⟨_, _, he⟩ := encMeth_elem C m; simp only [encObj, he, Xml.isElem]
  | param p => obtain ⟨_, _, _, he, _⟩ := encParam_elem C p; simp only [encObj, he, Xml.isElem]
  | qual q => obtain ⟨_, _, he⟩ := encQual_elem C q; simp only [encObj, he, Xml.isElem]
  | qdecl q => simp only [encObj, encQualDecl, E, Xml.isElem]

end Proofs.DtdEnc
