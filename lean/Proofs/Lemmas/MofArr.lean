/-
Helper lemmas for C08: arrays of strings — `_value_tomof` on a list of strings, read back by the array
initializer part of the compiler model (tokens, commas, p_stringValueList per item).
-/
import Proofs.Lemmas.MofStr

namespace Pywbem.Lemmas.MofArr
open Pywbem.Proto Pywbem.Model Pywbem.Model.MofStr Pywbem.Model.MofLex Pywbem.Lemmas.MofStr

abbrev Str := List Nat

/-! ### fuel of the array tokenizer -/

theorem scanBody_len (q : Nat) : ∀ (n : Nat) (s : Str), s.length ≤ n → ∀ r, scanBody q s = some r →
    r.2.length ≤ s.length := by
  intro n
  induction n with
  | zero =>
    intro s hs r h
    have : s = [] := List.eq_nil_of_length_eq_zero (by omega)
    subst this; simp [scanBody] at h
  | succ n ih =>
    intro s hs r h
    cases s with
    | nil => simp [scanBody] at h
    | cons c cs =>
      rw [scanBody_cons] at h
      simp only [List.length_cons] at hs ⊢
      split at h
      · simp only [Option.some.injEq] at h; subst h; simp
      · split at h
        · cases cs with
          | nil => simp at h
          | cons d ds =>
            simp only [List.length_cons] at hs ⊢
            simp only [] at h
            split at h
            · cases hr : scanBody q ds with
              | none => simp [hr] at h
              | some r' =>
                simp only [hr, Option.map_some, Option.some.injEq] at h
                subst h
                have := ih ds (by omega) r' hr
                simp only []; omega
            · split at h
              · cases ds with
                | nil => simp at h
                | cons x xs =>
                  simp only [List.length_cons] at hs ⊢
                  simp only [] at h
                  split at h
                  · cases hr : scanBody q xs with
                    | none => simp [hr] at h
                    | some r' =>
                      simp only [hr, Option.map_some, Option.some.injEq] at h
                      subst h
                      have := ih xs (by omega) r' hr
                      simp only []; omega
                  · simp at h
              · simp at h
        · split at h
          · simp at h
          · cases hr : scanBody q cs with
            | none => simp [hr] at h
            | some r' =>
              simp only [hr, Option.map_some, Option.some.injEq] at h
              subst h
              have := ih cs (by omega) r' hr
              simp only []; omega

theorem lexArrayF_fuel : ∀ (f1 f2 : Nat) (t : Str), t.length + 1 ≤ f1 → t.length + 1 ≤ f2 →
    lexArrayF f1 t = lexArrayF f2 t := by
  intro f1
  induction f1 with
  | zero => intro f2 t h; omega
  | succ f1 ih =>
    intro f2 t h1 h2
    match f2, h2 with
    | f2 + 1, h2 =>
      cases t with
      | nil => rfl
      | cons c cs =>
        simp only [List.length_cons] at h1 h2
        simp only [lexArrayF]
        split
        · exact ih f2 cs (by omega) (by omega)
        · split
          · rw [ih f2 cs (by omega) (by omega)]
          · split
            · cases hr : scanBody 34 cs with
              | none => rfl
              | some r =>
                have := scanBody_len 34 _ cs (Nat.le_refl _) r hr
                simp only []
                rw [ih f2 r.2 (by omega) (by omega)]
            · rfl

theorem lexArray_of_fuel (f : Nat) (t : Str) (h : t.length + 1 ≤ f) : lexArrayF f t = lexArray t :=
  lexArrayF_fuel f _ t h (Nat.le_refl _)

theorem lexArray_ws (ws : Str) (h : ws.all isWs = true) (t : Str) : lexArray (ws ++ t) = lexArray t := by
  induction ws with
  | nil => rfl
  | cons w ws ih =>
    simp only [List.all_cons, Bool.and_eq_true] at h
    have : lexArray (w :: ws ++ t) = lexArrayF ((ws ++ t).length + 1) (ws ++ t) := by
      simp only [lexArray, List.cons_append, List.length_cons, lexArrayF, h.1, if_true]
    rw [this]
    exact ih h.2

theorem lexArray_comma (t : Str) : lexArray (44 :: t) = (lexArray t).map (ATok.comma :: ·) := by
  have hw : isWs 44 = false := by decide
  simp only [lexArray, List.length_cons, lexArrayF, hw, Bool.false_eq_true, if_false, if_true]

theorem lexArray_str (s t : Str) :
    lexArray (34 :: escape s ++ 34 :: t) = (lexArray t).map (ATok.str (34 :: escape s ++ [34]) :: ·) := by
  have hw : isWs 34 = false := by decide
  have h44 : ¬ (34 : Nat) = 44 := by decide
  simp only [lexArray, List.cons_append, List.length_cons, lexArrayF, hw, Bool.false_eq_true, if_false, h44, if_true]
  rw [scan_escape 34 (.inl rfl)]
  simp only []
  rw [lexArray_of_fuel _ t (by simp; omega)]
  rfl

theorem lexArray_render (ps : List (Str × Str)) (hs : ∀ p ∈ ps, p.1.all isWs = true) (t : Str) :
    lexArray (render 34 ps ++ t) = (lexArray t).map ((ps.map (fun p => ATok.str (tokOf p))) ++ ·) := by
  induction ps with
  | nil => simp [render]
  | cons p ps ih =>
    have hp := hs p (by simp)
    have : render 34 (p :: ps) ++ t = p.1 ++ (34 :: escape p.2 ++ 34 :: (render 34 ps ++ t)) := by
      simp [render]
    rw [this, lexArray_ws _ hp, lexArray_str, ih (fun q hq => hs q (by simp [hq]))]
    simp [tokOf, Option.map_map, Function.comp_def]

/-! ### structure of the output of `_value_tomof` for a list of strings -/

/-- one array item in the output: separator text before it, its pieces -/
abbrev Seg := Str × List (Str × Str)

def renderArr : List Seg → Str
  | [] => []
  | g :: gs => g.1 ++ render 34 g.2 ++ renderArr gs

/-- `segs` is a correct layout of the strings `ss`: the first item has no separator when `first`, every other
    item is preceded by `,` or `, `; the pieces of an item are non-empty, white-space separated and their
    substrings concatenate to the item -/
def ArrOk : Bool → List Str → List Seg → Prop
  | _, [], [] => True
  | first, s :: ss, g :: gs =>
    (if first then g.1 = [] else (g.1 = [44] ∨ g.1 = [44, 32])) ∧ g.2 ≠ [] ∧
    (g.2.map (·.2)).flatten = s ∧ (∀ p ∈ g.2, p.1.all isWs = true) ∧ ArrOk false ss gs
  | _, _, _ => False

theorem loop_pieces_ne (cfg : FoldCfg) (hw : cfg.indent + 8 ≤ cfg.maxline) (s : Str) (linePos : Int) :
    ∃ ps lp, mofstrLoop cfg ((escape s).length + 1) (escape s) linePos = .ok (render cfg.quote ps, lp) ∧
      (ps.map (·.2)).flatten = s ∧ (∀ p ∈ ps, p.1.all isWs = true) ∧ ps ≠ [] := by
  obtain ⟨ps, lp, hr, hf, hsep⟩ := loop_pieces cfg hw _ s linePos (Nat.le_refl _)
  refine ⟨ps, lp, hr, hf, fun p hp => sepOk_ws cfg _ (hsep p hp), ?_⟩
  intro hnil
  subst hnil
  -- an empty piece list would mean empty output, but the loop always writes at least the two quotes
  have hfuel : mofstrLoop cfg ((escape s).length + 1) (escape s) linePos = .ok ([], lp) := by simpa [render] using hr
  simp only [mofstrLoop] at hfuel
  split at hfuel
  · simp [piece] at hfuel
  · split at hfuel
    · simp [piece] at hfuel
    · split at hfuel
      · simp at hfuel
      · split at hfuel
        · simp at hfuel
        · simp [piece] at hfuel

theorem array_layout (indent maxline endSpace : Nat) (avoid : Bool) (hw : indent + 8 ≤ maxline) :
    ∀ (ss : List Str) (first : Bool) (linePos : Int),
      ∃ segs lp, arrayTomof indent maxline endSpace avoid (ss.map Item.str) first linePos = .ok (renderArr segs, lp) ∧
        ArrOk first ss segs := by
  intro ss
  induction ss with
  | nil => intro first linePos; exact ⟨[], linePos, rfl, trivial⟩
  | cons s ss ih =>
    intro first linePos
    simp only [List.map_cons, arrayTomof, scalarTomof, mofstr]
    obtain ⟨ps, lp, hr, hflat, hws, hne⟩ :=
      loop_pieces_ne ⟨indent, maxline, endSpace + 2, avoid, 34⟩ hw s (if first then linePos else linePos + 2)
    rw [hr]
    simp only []
    obtain ⟨segs, lp2, hrec, hok⟩ := ih false
      (if first then lp else if ((render 34 ps).head? == some 10) then lp - 1 else lp)
    rw [hrec]
    refine ⟨((if first then [] else if ((render 34 ps).head? == some 10) then [44] else [44, 32]), ps) :: segs,
      lp2, ?_, ?_⟩
    · simp [renderArr]
    · refine ⟨?_, hne, hflat, hws, hok⟩
      cases first with
      | true => simp
      | false => simp; exact Decidable.em _

/-! ### reading it back -/

def segToks (hasComma : Bool) (g : Seg) : List ATok :=
  (if hasComma then [ATok.comma] else []) ++ g.2.map (fun p => ATok.str (tokOf p))

def arrToks : Bool → List Seg → List ATok
  | _, [] => []
  | first, g :: gs => segToks (!first) g ++ arrToks false gs

theorem lexArray_renderArr : ∀ (ss : List Str) (first : Bool) (segs : List Seg), ArrOk first ss segs →
    ∀ t, lexArray (renderArr segs ++ t) = (lexArray t).map (arrToks first segs ++ ·) := by
  intro ss
  induction ss with
  | nil =>
    intro first segs h t
    cases segs with
    | nil => simp [renderArr, arrToks]
    | cons g gs => exact absurd h (by simp [ArrOk])
  | cons s ss ih =>
    intro first segs h t
    cases segs with
    | nil => exact absurd h (by simp [ArrOk])
    | cons g gs =>
      obtain ⟨hsep, _, _, hws, hrest⟩ := h
      have hassoc : renderArr (g :: gs) ++ t = g.1 ++ (render 34 g.2 ++ (renderArr gs ++ t)) := by
        simp [renderArr]
      rw [hassoc]
      cases first with
      | true =>
        simp only [if_true] at hsep
        rw [hsep, List.nil_append, lexArray_render _ hws, ih false gs hrest]
        simp [arrToks, segToks, Option.map_map, Function.comp_def]
      | false =>
        simp only [Bool.false_eq_true, if_false] at hsep
        have hcomma : lexArray (g.1 ++ (render 34 g.2 ++ (renderArr gs ++ t))) =
            (lexArray (render 34 g.2 ++ (renderArr gs ++ t))).map (ATok.comma :: ·) := by
          rcases hsep with h1 | h1 <;> rw [h1]
          · exact lexArray_comma _
          · have : [44, 32] ++ (render 34 g.2 ++ (renderArr gs ++ t)) =
                44 :: ([32] ++ (render 34 g.2 ++ (renderArr gs ++ t))) := rfl
            rw [this, lexArray_comma, lexArray_ws [32] (by decide)]
        rw [hcomma, lexArray_render _ hws, ih false gs hrest]
        simp [arrToks, segToks, Option.map_map, Function.comp_def]

theorem groupToks_strs (ps : List (Str × Str)) (rest : List ATok) (cur : List Str) :
    groupToks (ps.map (fun p => ATok.str (tokOf p)) ++ rest) cur = groupToks rest (cur ++ ps.map tokOf) := by
  induction ps generalizing cur with
  | nil => simp
  | cons p ps ih => simp [groupToks, ih]

/-- items after the first: each starts with a comma -/
theorem groupToks_tail : ∀ (ss : List Str) (segs : List Seg), ArrOk false ss segs → ∀ cur, cur ≠ [] →
    groupToks (arrToks false segs) cur = some (cur :: segs.map (fun g => g.2.map tokOf)) := by
  intro ss
  induction ss with
  | nil =>
    intro segs h cur hc
    cases segs with
    | nil => simp [arrToks, groupToks, hc]
    | cons g gs => exact absurd h (by simp [ArrOk])
  | cons s ss ih =>
    intro segs h cur hc
    cases segs with
    | nil => exact absurd h (by simp [ArrOk])
    | cons g gs =>
      obtain ⟨_, hne, _, _, hrest⟩ := h
      have hg : g.2.map tokOf ≠ [] := by
        intro e; apply hne; cases hg2 : g.2 with
        | nil => rfl
        | cons a b => rw [hg2] at e; simp at e
      simp only [arrToks, segToks, Bool.not_false, if_true, List.cons_append, List.nil_append, groupToks, hc, if_false]
      rw [groupToks_strs, ih gs hrest _ (by simpa using hg)]
      simp

theorem groupToks_arr (s : Str) (ss : List Str) (segs : List Seg) (h : ArrOk true (s :: ss) segs) :
    groupToks (arrToks true segs) [] = some (segs.map (fun g => g.2.map tokOf)) := by
  cases segs with
  | nil => exact absurd h (by simp [ArrOk])
  | cons g gs =>
    obtain ⟨_, hne, _, _, hrest⟩ := h
    have hg : g.2.map tokOf ≠ [] := by
      intro e; apply hne; cases hg2 : g.2 with
      | nil => rfl
      | cons a b => rw [hg2] at e; simp at e
    simp only [arrToks, segToks, Bool.not_true, Bool.false_eq_true, if_false, List.nil_append]
    rw [groupToks_strs, groupToks_tail ss gs hrest _ (by simpa using hg)]
    simp

theorem stringValueLists_segs : ∀ (ss : List Str) (first : Bool) (segs : List Seg), ArrOk first ss segs →
    stringValueLists (segs.map (fun g => g.2.map tokOf)) = .ok ss := by
  intro ss
  induction ss with
  | nil =>
    intro first segs h
    cases segs with
    | nil => rfl
    | cons g gs => exact absurd h (by simp [ArrOk])
  | cons s ss ih =>
    intro first segs h
    cases segs with
    | nil => exact absurd h (by simp [ArrOk])
    | cons g gs =>
      obtain ⟨_, _, hflat, _, hrest⟩ := h
      simp only [List.map_cons, stringValueLists, stringValueList_toks, hflat, ih false gs hrest]
      rfl

end Pywbem.Lemmas.MofArr
