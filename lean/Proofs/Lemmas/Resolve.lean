/-
Helper lemmas for C12 (class resolution and hierarchy queries).
-/
import Pywbem.Model.Resolve

set_option linter.unusedSimpArgs false
set_option linter.unusedVariables false

namespace Proofs.Resolve
open Pywbem.Model.Resolve Pywbem.Proto

/-! ### case-insensitive equality is an equivalence -/

theorem ieq_refl (a : Name) : ieq a a = true := by simp [ieq]

theorem ieq_symm {a b : Name} (h : ieq a b = true) : ieq b a = true := by
  simp [ieq] at h ⊢; exact h.symm

theorem ieq_trans {a b c : Name} (h1 : ieq a b = true) (h2 : ieq b c = true) : ieq a c = true := by
  simp [ieq] at h1 h2 ⊢; exact h1.trans h2

theorem ieq_iff {a b : Name} : ieq a b = true ↔ lower a = lower b := by simp [ieq]

theorem ieq_congr_left {a b c : Name} (h : ieq a b = true) : ieq a c = ieq b c := by
  simp [ieq] at h ⊢; rw [h]

theorem ieq_congr_right {a b c : Name} (h : ieq a b = true) : ieq c a = ieq c b := by
  simp [ieq] at h ⊢; rw [h]

/-! ### mapE / foldE / allE -/

theorem mapE_ok_length {α β : Type} {f : α → Except PyExc β} :
    ∀ {l : List α} {r : List β}, mapE f l = .ok r → r.length = l.length
  | [], r, h => by simp [mapE] at h; subst h; rfl
  | a :: as, r, h => by
    simp only [mapE] at h
    cases hf : f a with
    | error e => simp [hf] at h
    | ok b =>
      cases hm : mapE f as with
      | error e => simp [hf, hm] at h
      | ok bs =>
        simp [hf, hm] at h; subst h
        simp [mapE_ok_length hm]

/-- a property transported elementwise by a successful `mapE` -/
theorem mapE_ok_map {α β γ : Type} {f : α → Except PyExc β} (ga : α → γ) (gb : β → γ)
    (hf : ∀ a b, f a = .ok b → gb b = ga a) :
    ∀ {l : List α} {r : List β}, mapE f l = .ok r → r.map gb = l.map ga
  | [], r, h => by simp [mapE] at h; subst h; rfl
  | a :: as, r, h => by
    simp only [mapE] at h
    cases hfa : f a with
    | error e => simp [hfa] at h
    | ok b =>
      cases hm : mapE f as with
      | error e => simp [hfa, hm] at h
      | ok bs =>
        simp [hfa, hm] at h; subst h
        simp [hf a b hfa, mapE_ok_map ga gb hf hm]

/-- every output of a successful `mapE` is the image of an input -/
theorem mapE_ok_mem {α β : Type} {f : α → Except PyExc β} :
    ∀ {l : List α} {r : List β}, mapE f l = .ok r → ∀ b ∈ r, ∃ a ∈ l, f a = .ok b
  | [], r, h, b, hb => by simp [mapE] at h; subst h; simp at hb
  | a :: as, r, h, b, hb => by
    simp only [mapE] at h
    cases hfa : f a with
    | error e => simp [hfa] at h
    | ok b0 =>
      cases hm : mapE f as with
      | error e => simp [hfa, hm] at h
      | ok bs =>
        simp [hfa, hm] at h; subst h
        simp at hb
        rcases hb with rfl | hb
        · exact ⟨a, by simp, hfa⟩
        · obtain ⟨a', ha', hfa'⟩ := mapE_ok_mem hm b hb
          exact ⟨a', by simp [ha'], hfa'⟩

/-! ### get_class -/

def keepE (f : Flags) (e : Elem) : Elem :=
  if f.ico == some true then (if f.iq == some false then stripElemQuals e else e)
  else stripOrigin (if f.iq == some false then stripElemQuals e else e)

theorem applyFlags_eq (c : Cls) (f : Flags) :
    applyFlags c f =
      { name := (stageLocal c f).name, super := (stageLocal c f).super,
        quals := if f.iq == some false then [] else (stageLocal c f).quals,
        props := (stageLocal c f).props.map (keepE f),
        meths := (stageLocal c f).meths.map (keepE f) } := by
  unfold applyFlags stageQuals keepE
  generalize stageLocal c f = c2
  by_cases hiq : f.iq = some false <;> by_cases hico : f.ico = some true <;>
    simp [hiq, hico, removeQualifiers, removeClassOrigin, keepE, List.map_map, Function.comp_def]

theorem stageLocal_props_sublist (c : Cls) (f : Flags) : (stageLocal c f).props.Sublist c.props := by
  unfold stageLocal filterProps localOnly
  cases f.pl <;> by_cases hlo : f.lo = some false <;> simp [hlo, List.filter_sublist]
  all_goals exact (List.filter_sublist).trans (List.filter_sublist)

theorem stageLocal_meths_sublist (c : Cls) (f : Flags) : (stageLocal c f).meths.Sublist c.meths := by
  unfold stageLocal filterProps localOnly
  cases f.pl <;> by_cases hlo : f.lo = some false <;> simp [hlo, List.filter_sublist]

theorem stageLocal_header (c : Cls) (f : Flags) :
    (stageLocal c f).name = c.name ∧ (stageLocal c f).super = c.super ∧ (stageLocal c f).quals = c.quals := by
  unfold stageLocal filterProps localOnly
  cases f.pl <;> by_cases hlo : f.lo = some false <;> simp [hlo]

end Proofs.Resolve
