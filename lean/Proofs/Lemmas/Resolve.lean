/-
Helper lemmas for C12 (class resolution and hierarchy queries).
-/
import Pywbem.Model.Resolve

set_option linter.unusedSimpArgs false
set_option linter.unusedVariables false

namespace Proofs.Resolve
open Pywbem.Model.Resolve Pywbem.Proto

/-- equality of model results is decidable (used by the closed `decide` witnesses) -/
instance instDecEqExcept {ε α : Type} [DecidableEq ε] [DecidableEq α] : DecidableEq (Except ε α)
  | .ok a, .ok b => if h : a = b then isTrue (by rw [h]) else isFalse (by intro h'; injection h' with h''; exact h h'')
  | .error a, .error b =>
    if h : a = b then isTrue (by rw [h]) else isFalse (by intro h'; injection h' with h''; exact h h'')
  | .ok _, .error _ => isFalse (by intro h; cases h)
  | .error _, .ok _ => isFalse (by intro h; cases h)

/-- the value of a successful model result (`d` otherwise) -/
def okOr {α : Type} (x : Except PyExc α) (d : α) : α :=
  match x with
  | .ok a => a
  | .error _ => d

/-! ### case-insensitive equality is an equivalence -/

theorem ieq_refl (a : Name) : ieq a a = true := by simp [ieq]

theorem ieq_symm {a b : Name} (h : ieq a b = true) : ieq b a = true := by
  simp [ieq] at h ⊢; exact h.symm

theorem ieq_trans {a b c : Name} (h1 : ieq a b = true) (h2 : ieq b c = true) : ieq a c = true := by
  simp [ieq] at h1 h2 ⊢; exact h1.trans h2

theorem ieq_iff {a b : Name} : ieq a b = true ↔ lower a = lower b := by simp [ieq]

theorem ieq_congr_left {a b c : Name} (h : ieq a b = true) : ieq a c = ieq b c := by
  simp [ieq] at h ⊢; rw [h]

theorem ieq_congr_right {a b c : Name} (h : ieq a b = true) : ieq c a = ieq c b := by
  simp [ieq] at h ⊢; rw [h]

/-! ### mapE / foldE / allE -/

theorem mapE_ok_length {α β : Type} {f : α → Except PyExc β} :
    ∀ {l : List α} {r : List β}, mapE f l = .ok r → r.length = l.length
  | [], r, h => by simp [mapE] at h; subst h; rfl
  | a :: as, r, h => by
    simp only [mapE] at h
    cases hf : f a with
    | error e => simp [hf] at h
    | ok b =>
      cases hm : mapE f as with
      | error e => simp [hf, hm] at h
      | ok bs =>
        simp [hf, hm] at h; subst h
        simp [mapE_ok_length hm]

/-- a property transported elementwise by a successful `mapE` -/
theorem mapE_ok_map {α β γ : Type} {f : α → Except PyExc β} (ga : α → γ) (gb : β → γ)
    (hf : ∀ a b, f a = .ok b → gb b = ga a) :
    ∀ {l : List α} {r : List β}, mapE f l = .ok r → r.map gb = l.map ga
  | [], r, h => by simp [mapE] at h; subst h; rfl
  | a :: as, r, h => by
    simp only [mapE] at h
    cases hfa : f a with
    | error e => simp [hfa] at h
    | ok b =>
      cases hm : mapE f as with
      | error e => simp [hfa, hm] at h
      | ok bs =>
        simp [hfa, hm] at h; subst h
        simp [hf a b hfa, mapE_ok_map ga gb hf hm]

/-- every output of a successful `mapE` is the image of an input -/
theorem mapE_ok_mem {α β : Type} {f : α → Except PyExc β} :
    ∀ {l : List α} {r : List β}, mapE f l = .ok r → ∀ b ∈ r, ∃ a ∈ l, f a = .ok b
  | [], r, h, b, hb => by simp [mapE] at h; subst h; simp at hb
  | a :: as, r, h, b, hb => by
    simp only [mapE] at h
    cases hfa : f a with
    | error e => simp [hfa] at h
    | ok b0 =>
      cases hm : mapE f as with
      | error e => simp [hfa, hm] at h
      | ok bs =>
        simp [hfa, hm] at h; subst h
        simp at hb
        rcases hb with rfl | hb
        · exact ⟨a, by simp, hfa⟩
        · obtain ⟨a', ha', hfa'⟩ := mapE_ok_mem hm b hb
          exact ⟨a', by simp [ha'], hfa'⟩

/-! ### get_class -/

def keepE (f : Flags) (e : Elem) : Elem :=
  if f.ico == some true then (if f.iq == some false then stripElemQuals e else e)
  else stripOrigin (if f.iq == some false then stripElemQuals e else e)

theorem applyFlags_eq (c : Cls) (f : Flags) :
    applyFlags c f =
      { name := (stageLocal c f).name, super := (stageLocal c f).super,
        quals := if f.iq == some false then [] else (stageLocal c f).quals,
        props := (stageLocal c f).props.map (keepE f),
        meths := (stageLocal c f).meths.map (keepE f) } := by
  unfold applyFlags stageQuals keepE
  generalize stageLocal c f = c2
  by_cases hiq : f.iq = some false <;> by_cases hico : f.ico = some true <;>
    simp [hiq, hico, removeQualifiers, removeClassOrigin, keepE, List.map_map, Function.comp_def]

theorem stageLocal_props_sublist (c : Cls) (f : Flags) : (stageLocal c f).props.Sublist c.props := by
  unfold stageLocal filterProps localOnly
  cases f.pl <;> by_cases hlo : f.lo = some false <;> simp [hlo, List.filter_sublist]
  all_goals exact (List.filter_sublist).trans (List.filter_sublist)

theorem stageLocal_meths_sublist (c : Cls) (f : Flags) : (stageLocal c f).meths.Sublist c.meths := by
  unfold stageLocal filterProps localOnly
  cases f.pl <;> by_cases hlo : f.lo = some false <;> simp [hlo, List.filter_sublist]

theorem stageLocal_header (c : Cls) (f : Flags) :
    (stageLocal c f).name = c.name ∧ (stageLocal c f).super = c.super ∧ (stageLocal c f).quals = c.quals := by
  unfold stageLocal filterProps localOnly
  cases f.pl <;> by_cases hlo : f.lo = some false <;> simp [hlo]

/-! ### the class hierarchy -/

open Spec in
theorem mem_children {cs : List Cls} {a x : Name} :
    x ∈ children cs (some a) ↔ ∃ c ∈ cs, c.name = x ∧ Spec.IsChild c a := by
  simp only [children, List.mem_map, List.mem_filter, Spec.IsChild]
  constructor
  · rintro ⟨c, ⟨hc, hs⟩, rfl⟩
    refine ⟨c, hc, rfl, ?_⟩
    cases hsup : c.super with
    | none => simp [hsup] at hs
    | some s =>
      simp [hsup] at hs
      exact ⟨s, rfl, by intro h; simp [h] at hs, hs.2⟩
  · rintro ⟨c, hc, rfl, s, hs, hne, hi⟩
    refine ⟨c, ⟨hc, ?_⟩, rfl⟩
    simp [hs, hi, hne]

theorem mem_subNamesDeep_succ {cs : List Cls} {a x : Name} {f : Nat} :
    x ∈ subNamesDeep (f + 1) cs (some a) ↔
      x ∈ children cs (some a) ∨ ∃ m ∈ children cs (some a), x ∈ subNamesDeep f cs (some m) := by
  simp only [subNamesDeep, List.mem_append, List.mem_flatten, List.mem_map]
  constructor
  · rintro (h | ⟨l, ⟨m, hm, rfl⟩, hx⟩)
    · exact Or.inl h
    · exact Or.inr ⟨m, hm, hx⟩
  · rintro (h | ⟨m, hm, hx⟩)
    · exact Or.inl h
    · exact Or.inr ⟨_, ⟨m, hm, rfl⟩, hx⟩

theorem isChild_congr {c : Cls} {a b : Name} (h : ieq a b = true) (hc : Spec.IsChild c a) :
    Spec.IsChild c b := by
  obtain ⟨s, hs, hne, hi⟩ := hc
  exact ⟨s, hs, hne, ieq_trans hi h⟩

/-- composing downwards: a descendant of a child of `a` is a descendant of `a` -/
theorem desc_of_child_desc' {cs : List Cls} {d : Cls} {a x m : Name} (hd : d ∈ cs)
    (hda : Spec.IsChild d a) (h : Spec.Desc cs x m) (hm : m = d.name) : Spec.Desc cs x a := by
  induction h with
  | child hc hch => subst hm; exact .trans (.child hd hda) hc hch
  | trans _ hc hch ih => exact .trans (ih hm) hc hch

theorem desc_of_child_desc {cs : List Cls} {d : Cls} {a x : Name} (hd : d ∈ cs)
    (hda : Spec.IsChild d a) (h : Spec.Desc cs x d.name) : Spec.Desc cs x a :=
  desc_of_child_desc' hd hda h rfl

/-- **soundness** of the recursive enumeration (any fuel, any store) -/
theorem subNamesDeep_sound {cs : List Cls} :
    ∀ {f : Nat} {a x : Name}, x ∈ subNamesDeep f cs (some a) → Spec.Desc cs x a
  | 0, a, x, h => by simp [subNamesDeep] at h
  | f + 1, a, x, h => by
    rcases mem_subNamesDeep_succ.mp h with h | ⟨m, hm, hx⟩
    · obtain ⟨c, hc, rfl, hch⟩ := mem_children.mp h
      exact .child hc hch
    · obtain ⟨d, hd, rfl, hda⟩ := mem_children.mp hm
      exact desc_of_child_desc hd hda (subNamesDeep_sound hx)

theorem subNamesDeep_mono_fuel {cs : List Cls} :
    ∀ {f : Nat} {a x : Name}, x ∈ subNamesDeep f cs (some a) → x ∈ subNamesDeep (f + 1) cs (some a)
  | 0, a, x, h => by simp [subNamesDeep] at h
  | f + 1, a, x, h => by
    rcases mem_subNamesDeep_succ.mp h with h | ⟨m, hm, hx⟩
    · exact mem_subNamesDeep_succ.mpr (Or.inl h)
    · exact mem_subNamesDeep_succ.mpr (Or.inr ⟨m, hm, subNamesDeep_mono_fuel hx⟩)

theorem subNamesDeep_mono_fuel_le {cs : List Cls} {f g : Nat} {a x : Name} (hfg : f ≤ g)
    (h : x ∈ subNamesDeep f cs (some a)) : x ∈ subNamesDeep g cs (some a) := by
  induction hfg with
  | refl => exact h
  | step _ ih => exact subNamesDeep_mono_fuel ih

theorem children_mono_store {cs cs' : List Cls} (hsub : ∀ c ∈ cs, c ∈ cs') {a x : Name}
    (h : x ∈ children cs (some a)) : x ∈ children cs' (some a) := by
  obtain ⟨c, hc, rfl, hch⟩ := mem_children.mp h
  exact mem_children.mpr ⟨c, hsub c hc, rfl, hch⟩

theorem subNamesDeep_mono_store {cs cs' : List Cls} (hsub : ∀ c ∈ cs, c ∈ cs') :
    ∀ {f : Nat} {a x : Name}, x ∈ subNamesDeep f cs (some a) → x ∈ subNamesDeep f cs' (some a)
  | 0, a, x, h => by simp [subNamesDeep] at h
  | f + 1, a, x, h => by
    rcases mem_subNamesDeep_succ.mp h with h | ⟨m, hm, hx⟩
    · exact mem_subNamesDeep_succ.mpr (Or.inl (children_mono_store hsub h))
    · exact mem_subNamesDeep_succ.mpr
        (Or.inr ⟨m, children_mono_store hsub hm, subNamesDeep_mono_store hsub hx⟩)

/-- closure: one more level below an enumerated class is enumerated with one more unit of fuel -/
theorem subNamesDeep_extend {cs : List Cls} {d : Cls} (hd : d ∈ cs) :
    ∀ {f : Nat} {a m : Name}, m ∈ subNamesDeep f cs (some a) → Spec.IsChild d m →
      d.name ∈ subNamesDeep (f + 1) cs (some a)
  | 0, a, m, h, _ => by simp [subNamesDeep] at h
  | f + 1, a, m, h, hdm => by
    rcases mem_subNamesDeep_succ.mp h with h | ⟨m', hm', hx⟩
    · refine mem_subNamesDeep_succ.mpr (Or.inr ⟨m, h, ?_⟩)
      exact mem_subNamesDeep_succ.mpr (Or.inl (mem_children.mpr ⟨d, hd, rfl, hdm⟩))
    · exact mem_subNamesDeep_succ.mpr (Or.inr ⟨m', hm', subNamesDeep_extend hd hx hdm⟩)

/-- **Forest**: every class is new (case-insensitively) w.r.t. the classes stored before it, and its
    superclass, if any, is one of those.  This is the shape CreateClass / add_cimobjects produce and
    ModifyClass / DeleteClass keep; it excludes cycles, which is what makes the Python recursion of
    `_get_subclass_names` and the loop of `_get_superclass_names` terminate. -/
inductive Forest : List Cls → Prop where
  | nil : Forest []
  | snoc {cs : List Cls} {c : Cls} : Forest cs → hasClass cs c.name = false →
      (∀ s, c.super = some s → s ≠ [] → hasClass cs s = true) → Forest (cs ++ [c])

theorem forest_snoc_inv {cs : List Cls} {c : Cls} (h : Forest (cs ++ [c])) :
    Forest cs ∧ hasClass cs c.name = false ∧ (∀ s, c.super = some s → s ≠ [] → hasClass cs s = true) := by
  generalize hl : cs ++ [c] = l at h
  cases h with
  | nil => simp at hl
  | @snoc cs' c' hf hfr hp =>
    have := List.append_inj' hl (by simp)
    obtain ⟨h1, h2⟩ := this
    simp at h2
    subst h1; subst h2
    exact ⟨hf, hfr, hp⟩

theorem hasClass_iff {cs : List Cls} {n : Name} : hasClass cs n = true ↔ ∃ c ∈ cs, ieq c.name n = true := by
  simp [hasClass]

theorem hasClass_false_iff {cs : List Cls} {n : Name} :
    hasClass cs n = false ↔ ∀ c ∈ cs, ieq c.name n = false := by
  simp [hasClass]

/-- in a forest the newest class has no subclass (not even itself) -/
theorem forest_last_leaf {cs : List Cls} {c : Cls} (h : Forest (cs ++ [c])) :
    ∀ d ∈ cs ++ [c], ¬ Spec.IsChild d c.name := by
  obtain ⟨hf, hfr, hp⟩ := forest_snoc_inv h
  have key : ∀ {l : List Cls}, Forest l → (∀ x ∈ l, ieq x.name c.name = false) →
      ∀ d ∈ l, ¬ Spec.IsChild d c.name := by
    intro l hl
    induction hl with
    | nil => intro _ d hd; simp at hd
    | @snoc l' e hl' hfe hpe ih =>
      intro hall d hd ⟨s, hs, hne, hi⟩
      simp at hd
      rcases hd with hd | rfl
      · exact ih (fun x hx => hall x (by simp [hx])) d hd ⟨s, hs, hne, hi⟩
      · obtain ⟨p, hpm, hpi⟩ := hasClass_iff.mp (hpe s hs hne)
        have : ieq p.name c.name = true := ieq_trans hpi hi
        have h2 := hall p (by simp [hpm])
        simp [this] at h2
  intro d hd hch
  simp at hd
  rcases hd with hd | rfl
  · exact key hf (hasClass_false_iff.mp hfr) d hd hch
  · obtain ⟨s, hs, hne, hi⟩ := hch
    obtain ⟨p, hpm, hpi⟩ := hasClass_iff.mp (hp s hs hne)
    have := hasClass_false_iff.mp hfr p hpm
    simp [ieq_trans hpi hi] at this

/-- descendants in a store extended by a (leaf) class: either old, or the new class itself hanging
    below an old descendant / below `a` -/
theorem desc_snoc {cs : List Cls} {c : Cls} (h : Forest (cs ++ [c])) {x a : Name}
    (hd : Spec.Desc (cs ++ [c]) x a) :
    Spec.Desc cs x a ∨ (x = c.name ∧ (Spec.IsChild c a ∨ ∃ m, Spec.Desc cs m a ∧ Spec.IsChild c m)) := by
  have leaf := forest_last_leaf h
  induction hd with
  | @child d a hdm hch =>
    simp at hdm
    rcases hdm with hdm | rfl
    · exact Or.inl (.child hdm hch)
    · exact Or.inr ⟨rfl, Or.inl hch⟩
  | @trans d m a hma hdm hch ih =>
    rcases ih with ih | ⟨rfl, _⟩
    · simp at hdm
      rcases hdm with hdm | rfl
      · exact Or.inl (.trans ih hdm hch)
      · exact Or.inr ⟨rfl, Or.inr ⟨m, ih, hch⟩⟩
    · exact absurd hch (leaf d hdm)

/-- **completeness** of the recursive enumeration on a forest: `classes.length` units of fuel reach
    every descendant (the code's recursion depth is bounded by the number of classes) -/
theorem subNamesDeep_complete {cs : List Cls} (h : Forest cs) :
    ∀ {x a : Name}, Spec.Desc cs x a → x ∈ subNamesDeep cs.length cs (some a) := by
  induction h with
  | nil => intro x a hd; cases hd with
    | child hc _ => simp at hc
    | trans _ hc _ => simp at hc
  | @snoc cs c hf hfr hp ih =>
    intro x a hd
    have hF : Forest (cs ++ [c]) := .snoc hf hfr hp
    have hsub : ∀ e ∈ cs, e ∈ cs ++ [c] := fun e he => by simp [he]
    have hlen : (cs ++ [c]).length = cs.length + 1 := by simp
    rw [hlen]
    rcases desc_snoc hF hd with hold | ⟨rfl, hca | ⟨m, hm, hcm⟩⟩
    · exact subNamesDeep_mono_fuel (subNamesDeep_mono_store hsub (ih hold))
    · exact mem_subNamesDeep_succ.mpr (Or.inl (mem_children.mpr ⟨c, by simp, rfl, hca⟩))
    · exact subNamesDeep_extend (by simp) (subNamesDeep_mono_store hsub (ih hm)) hcm

/-- on a forest the deep enumeration is exactly the descendant relation -/
theorem mem_subNames_deep {cs : List Cls} (h : Forest cs) {x a : Name} :
    x ∈ subNames cs (some a) true ↔ Spec.Desc cs x a := by
  simp only [subNames, if_true]
  exact ⟨subNamesDeep_sound, fun hd => subNamesDeep_mono_fuel (subNamesDeep_complete h hd)⟩

/-! ### what successful operations do to the store -/

theorem findClass_some {cs : List Cls} {n : Name} {c : Cls} (h : findClass cs n = some c) :
    c ∈ cs ∧ ieq c.name n = true := by
  unfold findClass at h
  have h1 := List.mem_of_find?_eq_some h
  have h2 := List.find?_some h
  exact ⟨h1, by simpa using h2⟩

theorem findClass_some_hasClass {cs : List Cls} {n : Name} {c : Cls} (h : findClass cs n = some c) :
    hasClass cs n = true :=
  hasClass_iff.mpr ⟨c, (findClass_some h).1, (findClass_some h).2⟩

theorem findClass_none {cs : List Cls} {n : Name} (h : findClass cs n = none) : hasClass cs n = false := by
  unfold findClass at h
  apply hasClass_false_iff.mpr
  intro c hc
  have := List.find?_eq_none.mp h c hc
  simpa using this

theorem resolveParts_ok {decls : List QDecl} {c r : Cls} {sup : Option Cls}
    (h : resolveParts decls c sup = .ok r) :
    ∃ cq ps ms, resolveQuals decls c.quals [] false = .ok cq ∧
      resolveElems decls c.name c.props (sup.map (·.props)) = .ok ps ∧
      resolveElems decls c.name c.meths (sup.map (·.meths)) = .ok ms ∧
      r = { c with super := normSuper c.super, quals := cq, props := ps, meths := ms } := by
  unfold resolveParts at h
  cases h1 : resolveQuals decls c.quals [] false with
  | error e => simp [h1] at h
  | ok cq =>
    cases h2 : resolveElems decls c.name c.props (sup.map (·.props)) with
    | error e => simp [h1, h2] at h
    | ok ps =>
      cases h3 : resolveElems decls c.name c.meths (sup.map (·.meths)) with
      | error e => simp [h1, h2, h3] at h
      | ok ms =>
        simp [h1, h2, h3] at h
        exact ⟨cq, ps, ms, rfl, rfl, rfl, h.symm⟩

theorem findSuper_ok {cs : List Cls} {c : Cls} {sup : Option Cls} (h : findSuper cs c = .ok sup) :
    (∀ s, c.super = some s → s ≠ [] → findClass cs s = sup ∧ sup.isSome) ∧
    ((c.super = none ∨ c.super = some []) → sup = none) := by
  unfold findSuper at h
  cases hs : c.super with
  | none => simp [hs] at h; simp [h]
  | some s =>
    by_cases he : s = []
    · subst he; simp [hs] at h; simp [← h]
    · cases hf : findClass cs s with
      | none => simp [hs, he, hf] at h
      | some sc =>
        simp [hs, he, hf] at h
        subst h
        constructor
        · intro s' hs' _; cases hs'; simp [hf]
        · rintro (h | h) <;> simp_all

/-- what a successful class resolution keeps: name, superclass name; and the superclass exists -/
theorem resolveClass_ok {decls : List QDecl} {cs : List Cls} {c r : Cls}
    (h : resolveClass decls cs c = .ok r) :
    r.name = c.name ∧ r.super = normSuper c.super ∧
    (∀ s, c.super = some s → s ≠ [] → hasClass cs s = true) := by
  unfold resolveClass at h
  cases h1 : findSuper cs c with
  | error e => simp [h1] at h
  | ok sup =>
    cases h2 : validateClass decls c sup with
    | error e => simp [h1, h2] at h
    | ok u =>
      simp [h1, h2] at h
      obtain ⟨cq, ps, ms, _, _, _, rfl⟩ := resolveParts_ok h
      refine ⟨rfl, rfl, ?_⟩
      intro s hs hne
      obtain ⟨hf, hsome⟩ := (findSuper_ok h1).1 s hs hne
      cases sup with
      | none => simp at hsome
      | some sc => exact findClass_some_hasClass hf

/-! ### Forest is kept by replacement and by upward-closed filtering -/

theorem replace_name_ieq (r x : Cls) :
    ieq (if ieq x.name r.name then r else x).name x.name = true := by
  by_cases h : ieq x.name r.name = true
  · simp [h]; exact ieq_symm h
  · simp [h]; exact ieq_refl _

theorem hasClass_replace {cs : List Cls} {r : Cls} {n : Name} :
    hasClass (replaceClass cs r) n = hasClass cs n := by
  unfold hasClass replaceClass
  rw [List.any_map]
  congr 1
  funext x
  exact ieq_congr_left (replace_name_ieq r x)

/-- the superclass named by `b` is (case-insensitively) the one named by `a` -/
def SuperCompat (a b : Option Name) : Prop :=
  ∀ s, b = some s → s ≠ [] → ∃ s', a = some s' ∧ s' ≠ [] ∧ ieq s' s = true

theorem forest_replace {cs : List Cls} {r : Cls} (hf : Forest cs)
    (hcompat : ∀ x ∈ cs, ieq x.name r.name = true → SuperCompat x.super r.super) :
    Forest (replaceClass cs r) := by
  induction hf with
  | nil => exact .nil
  | @snoc cs c hf hfr hp ih =>
    have ih' := ih (fun x hx => hcompat x (by simp [hx]))
    have : replaceClass (cs ++ [c]) r = replaceClass cs r ++ [if ieq c.name r.name then r else c] := by
      simp [replaceClass]
    rw [this]
    refine .snoc ih' ?_ ?_
    · rw [hasClass_replace, ← hfr]
      exact congrArg _ rfl |>.trans (by
        unfold hasClass
        congr 1; funext x
        exact ieq_congr_right (replace_name_ieq r c))
    · intro s hs hne
      rw [hasClass_replace]
      by_cases h : ieq c.name r.name = true
      · simp [h] at hs
        obtain ⟨s', hs', hne', hi⟩ := hcompat c (by simp) h s hs hne
        have := hp s' hs' hne'
        obtain ⟨p, hpm, hpi⟩ := hasClass_iff.mp this
        exact hasClass_iff.mpr ⟨p, hpm, ieq_trans hpi hi⟩
      · simp [h] at hs
        exact hp s hs hne

theorem forest_filter {cs : List Cls} (hf : Forest cs) (keep : Cls → Bool)
    (hup : ∀ d ∈ cs, keep d = true → ∀ p ∈ cs, Spec.IsChild d p.name → keep p = true) :
    Forest (cs.filter keep) := by
  induction hf with
  | nil => exact .nil
  | @snoc cs c hf hfr hp ih =>
    have ih' := ih (fun d hd hk p hp' hch => hup d (by simp [hd]) hk p (by simp [hp']) hch)
    rw [List.filter_append]
    by_cases hk : keep c = true
    · have : List.filter keep [c] = [c] := by simp [hk]
      rw [this]
      refine .snoc ih' ?_ ?_
      · apply hasClass_false_iff.mpr
        intro x hx
        exact hasClass_false_iff.mp hfr x (List.mem_filter.mp hx).1
      · intro s hs hne
        obtain ⟨p, hpm, hpi⟩ := hasClass_iff.mp (hp s hs hne)
        have hkp : keep p = true :=
          hup c (by simp) hk p (by simp [hpm]) ⟨s, hs, hne, ieq_symm hpi⟩
        exact hasClass_iff.mpr ⟨p, List.mem_filter.mpr ⟨hpm, hkp⟩, hpi⟩
    · have : List.filter keep [c] = [] := by simp [hk]
      rw [this]; simpa using ih'

/-- in a forest, stored names are pairwise different even up to case -/
theorem forest_unique {cs : List Cls} (hf : Forest cs) :
    ∀ p ∈ cs, ∀ q ∈ cs, ieq p.name q.name = true → p = q := by
  induction hf with
  | nil => intro p hp; simp at hp
  | @snoc cs c hf hfr hp ih =>
    intro p hpm q hqm hi
    simp at hpm hqm
    have hfr' := hasClass_false_iff.mp hfr
    rcases hpm with hpm | rfl <;> rcases hqm with hqm | rfl
    · exact ih p hpm q hqm hi
    · have := hfr' p hpm; simp [hi] at this
    · have := hfr' q hqm; simp [ieq_symm hi] at this
    · rfl

/-! ### successful CreateClass / add_cimobjects / ModifyClass -/

theorem createClass_ok {s s' : State} {c : Cls} (h : createClass s c = .ok s') :
    ∃ r, resolveClass s.decls s.classes c = .ok r ∧ s' = { s with classes := s.classes ++ [r] } ∧
      hasClass s.classes c.name = false := by
  unfold createClass at h
  by_cases h0 : hasClass s.classes c.name = true
  · simp [h0] at h
  · simp [h0] at h
    cases h1 : validateDeps s.classes c with
    | error e => simp [h1] at h
    | ok u =>
      cases h2 : resolveClass s.decls s.classes c with
      | error e => simp [h1, h2] at h
      | ok r =>
        simp [h1, h2] at h
        exact ⟨r, rfl, h.symm, by simpa using h0⟩

theorem addClass_ok {s s' : State} {c : Cls} (h : addClass s c = .ok s') :
    ∃ r, resolveClass s.decls s.classes c = .ok r ∧ s' = { s with classes := s.classes ++ [r] } ∧
      hasClass s.classes c.name = false := by
  unfold addClass at h
  by_cases hm : (superSet c.super && !(hasClass s.classes (c.super.getD []))) = true
  · simp [hm] at h
  · simp only [hm] at h
    cases h2 : resolveClass s.decls s.classes c with
    | error e => simp [h2] at h
    | ok r =>
      simp [h2] at h
      by_cases h0 : hasClass s.classes c.name = true
      · simp [h0] at h
      · simp [h0] at h
        exact ⟨r, rfl, h.symm, by simpa using h0⟩

theorem superSet_iff {o : Option Name} : superSet o = true ↔ ∃ s, o = some s ∧ s ≠ [] := by
  cases o with
  | none => simp [superSet]
  | some s => simp [superSet]

theorem normSuper_some {o : Option Name} {s : Name} (h : normSuper o = some s) : o = some s ∧ s ≠ [] := by
  unfold normSuper at h
  by_cases hs : superSet o = true
  · simp [hs] at h
    obtain ⟨s', hs', hne⟩ := superSet_iff.mp hs
    subst h; simp at hs'; subst hs'; exact ⟨rfl, hne⟩
  · simp [hs] at h

theorem modifyClass_ok {s s' : State} {c : Cls} (h : modifyClass s c = .ok s') :
    ∃ orig r, findClass s.classes c.name = some orig ∧ resolveClass s.decls s.classes c = .ok r ∧
      s' = { s with classes := replaceClass s.classes r } ∧
      children s.classes (some c.name) = [] ∧
      (∀ i ∈ s.insts, ieq i.cls c.name = false) ∧
      SuperCompat orig.super (normSuper c.super) := by
  unfold modifyClass at h
  cases hf : findClass s.classes c.name with
  | none => simp [hf] at h
  | some orig =>
    simp only [hf] at h
    split at h
    · simp at h
    · rename_i hch
      split at h
      · simp at h
      · rename_i hin
        split at h
        · simp at h
        · rename_i hs1
          split at h
          · simp at h
          · rename_i hs2
            split at h
            · simp at h
            · rename_i hs3
              cases h1 : validateDeps s.classes c with
              | error e => simp [h1] at h
              | ok u =>
                cases h2 : resolveClass s.decls s.classes c with
                | error e => simp [h1, h2] at h
                | ok r =>
                  simp [h1, h2] at h
                  refine ⟨orig, r, rfl, rfl, h.symm, by simpa using hch, ?_, ?_⟩
                  · intro i hi
                    simp at hin
                    have := hin i hi
                    simpa using this
                  · intro sn hsn hne
                    obtain ⟨hcs, _⟩ := normSuper_some hsn
                    have hset : superSet c.super = true := superSet_iff.mpr ⟨sn, hcs, hne⟩
                    simp [hset] at hs2 hs3
                    obtain ⟨so, hso, hsone⟩ := superSet_iff.mp hs2
                    refine ⟨so, hso, hsone, ?_⟩
                    have := hs3 hs2
                    simpa [hso, hcs] using this

/-! ### DeleteClass -/

theorem ieq_comm (a b : Name) : ieq a b = ieq b a := by
  simp only [ieq]
  exact Bool.eq_iff_iff.mpr ⟨fun h => by simpa using (by simpa using h : lower a = lower b).symm,
    fun h => by simpa using (by simpa using h : lower b = lower a).symm⟩

theorem inNames_iff {l : List Name} {n : Name} : inNames l n = true ↔ ∃ x ∈ l, ieq x n = true := by
  simp [inNames]

theorem inNames_mono {l l' : List Name} (h : ∀ x ∈ l, x ∈ l') {n : Name} (hn : inNames l n = true) :
    inNames l' n = true := by
  obtain ⟨x, hx, hi⟩ := inNames_iff.mp hn
  exact inNames_iff.mpr ⟨x, h x hx, hi⟩

theorem mem_subtreeList {cs : List Cls} {n x : Name} :
    x ∈ subtreeList cs n ↔ x ∈ subNames cs (some n) true ∨ x = n := by
  simp [subtreeList]

/-- the subtree list computed on a smaller store (a sub-collection of `cs0`) is contained in the one
    computed on `cs0` -/
theorem subtreeList_mono {cs cs0 : List Cls} (hsub : ∀ c ∈ cs, c ∈ cs0) (hlen : cs.length ≤ cs0.length)
    {n x : Name} (h : x ∈ subtreeList cs n) : x ∈ subtreeList cs0 n := by
  rcases mem_subtreeList.mp h with h | rfl
  · refine mem_subtreeList.mpr (Or.inl ?_)
    simp only [subNames, if_true] at h ⊢
    exact subNamesDeep_mono_fuel_le (by omega) (subNamesDeep_mono_store hsub h)
  · exact mem_subtreeList.mpr (Or.inr rfl)

theorem deleteStep_ok {root clname : Name} {s s' : State} (h : deleteStep root s clname = .ok s') :
    s' = { s with insts := s.insts.filter (fun i => !(inNames (subtreeList s.classes root) i.cls)),
                  classes := removeClass s.classes clname } := by
  unfold deleteStep at h
  by_cases h1 : hasClass s.classes root = true
  · by_cases h2 : hasClass s.classes clname = true
    · simp [h1, h2] at h; exact h.symm
    · simp [h1, h2] at h
  · simp [h1] at h

theorem removeClass_mem {cs : List Cls} {n : Name} : ∀ c ∈ removeClass cs n, c ∈ cs := by
  intro c hc; exact (List.mem_filter.mp hc).1

theorem removeClass_length {cs : List Cls} {n : Name} : (removeClass cs n).length ≤ cs.length :=
  List.length_filter_le _ _

/-- the rest of the DeleteClass loop once the instances of the whole subtree are gone: only classes
    are removed -/
theorem delete_fold_rest {root : Name} {cs0 : List Cls} :
    ∀ (names : List Name) (s s' : State),
      (∀ c ∈ s.classes, c ∈ cs0) → s.classes.length ≤ cs0.length →
      (∀ i ∈ s.insts, inNames (subtreeList cs0 root) i.cls = false) →
      foldE (deleteStep root) s names = .ok s' →
      s'.classes = s.classes.filter (fun c => !(inNames names c.name)) ∧ s'.insts = s.insts ∧
        s'.decls = s.decls
  | [], s, s', _, _, _, h => by
    simp [foldE] at h; subst h
    refine ⟨?_, rfl, rfl⟩
    exact (List.filter_eq_self.mpr (by intro c _; simp [inNames])).symm
  | x :: rest, s, s', hsub, hlen, hin, h => by
    simp only [foldE] at h
    cases hst : deleteStep root s x with
    | error e => simp [hst] at h
    | ok s1 =>
      simp only [hst] at h
      have hs1 := deleteStep_ok hst
      have hi1 : s1.insts = s.insts := by
        rw [hs1]
        simp only
        apply List.filter_eq_self.mpr
        intro i hi
        have h0 := hin i hi
        cases hk : inNames (subtreeList s.classes root) i.cls with
        | false => rfl
        | true =>
          have := inNames_mono (fun y hy => subtreeList_mono hsub hlen hy) hk
          simp [this] at h0
      have hc1 : s1.classes = removeClass s.classes x := by rw [hs1]
      obtain ⟨r1, r2, r3⟩ := delete_fold_rest rest s1 s'
        (by rw [hc1]; exact fun c hc => hsub c (removeClass_mem c hc))
        (by rw [hc1]; exact Nat.le_trans removeClass_length hlen)
        (by rw [hi1]; exact hin) h
      refine ⟨?_, by rw [r2, hi1], by rw [r3, hs1]⟩
      rw [r1, hc1, removeClass, List.filter_filter]
      congr 1
      funext c
      simp [inNames, Bool.and_comm, ieq_comm c.name x]

theorem deleteClass_ok {s s' : State} {n : Name} (h : deleteClass s n = .ok s') :
    hasClass s.classes n = true ∧
    s'.classes = s.classes.filter (fun c => !(inNames (subtreeList s.classes n) c.name)) ∧
    s'.insts = s.insts.filter (fun i => !(inNames (subtreeList s.classes n) i.cls)) ∧
    s'.decls = s.decls := by
  unfold deleteClass at h
  by_cases h0 : hasClass s.classes n = true
  · simp only [h0] at h
    simp at h
    refine ⟨h0, ?_⟩
    -- the name list is never empty: it ends with the class itself
    cases hl : subtreeList s.classes n with
    | nil => simp [subtreeList] at hl
    | cons x rest =>
      rw [hl] at h
      simp only [foldE] at h
      cases hst : deleteStep n s x with
      | error e => simp [hst] at h
      | ok s1 =>
        simp only [hst] at h
        have hs1 := deleteStep_ok hst
        obtain ⟨r1, r2, r3⟩ := delete_fold_rest (cs0 := s.classes) rest s1 s'
          (by rw [hs1]; exact fun c hc => removeClass_mem c hc)
          (by rw [hs1]; exact removeClass_length)
          (by rw [hs1]; intro i hi; simpa using (List.mem_filter.mp hi).2) h
        refine ⟨?_, by rw [r2, hs1, ← hl], by rw [r3, hs1]⟩
        rw [r1, hs1]
        simp only [removeClass, List.filter_filter]
        congr 1
        funext c
        simp [inNames, Bool.and_comm, ieq_comm c.name x]
  · simp [h0] at h

/-! ### the forest invariant over operation histories -/

theorem desc_is_stored {cs : List Cls} {t a : Name} (h : Spec.Desc cs t a) : ∃ q ∈ cs, q.name = t := by
  cases h with
  | child hc _ => exact ⟨_, hc, rfl⟩
  | trans _ hc _ => exact ⟨_, hc, rfl⟩

/-- on a forest, membership (up to case) in the subtree list = being the class or a descendant -/
theorem inNames_subtree {cs : List Cls} (hf : Forest cs) {n x : Name} :
    inNames (subtreeList cs n) x = true ↔ ieq n x = true ∨ ∃ t, Spec.Desc cs t n ∧ ieq t x = true := by
  rw [inNames_iff]
  constructor
  · rintro ⟨t, ht, hi⟩
    rcases mem_subtreeList.mp ht with ht | rfl
    · exact Or.inr ⟨t, (mem_subNames_deep hf).mp ht, hi⟩
    · exact Or.inl hi
  · rintro (hi | ⟨t, hd, hi⟩)
    · exact ⟨n, mem_subtreeList.mpr (Or.inr rfl), hi⟩
    · exact ⟨t, mem_subtreeList.mpr (Or.inl ((mem_subNames_deep hf).mpr hd)), hi⟩

/-- for a stored class the case-insensitive test is exact -/
theorem inNames_subtree_class {cs : List Cls} (hf : Forest cs) {n : Name} {c : Cls} (hc : c ∈ cs) :
    inNames (subtreeList cs n) c.name = true ↔ ieq c.name n = true ∨ Spec.Desc cs c.name n := by
  rw [inNames_subtree hf]
  constructor
  · rintro (hi | ⟨t, hd, hi⟩)
    · exact Or.inl (ieq_symm hi)
    · obtain ⟨q, hq, rfl⟩ := desc_is_stored hd
      have := forest_unique hf q hq c hc hi
      subst this; exact Or.inr hd
  · rintro (hi | hd)
    · exact Or.inl (ieq_symm hi)
    · exact Or.inr ⟨c.name, hd, ieq_refl _⟩

theorem forest_delete {cs : List Cls} (hf : Forest cs) (n : Name) :
    Forest (cs.filter (fun c => !(inNames (subtreeList cs n) c.name))) := by
  apply forest_filter hf
  intro d hd hk p hp hch
  cases hkp : inNames (subtreeList cs n) p.name with
  | false => simp [hkp]
  | true =>
    exfalso
    have hdn : inNames (subtreeList cs n) d.name = true := by
      apply (inNames_subtree_class hf hd).mpr
      rcases (inNames_subtree_class hf hp).mp hkp with hi | hdesc
      · exact Or.inr (.child hd (isChild_congr hi hch))
      · exact Or.inr (.trans hdesc hd hch)
    simp [hdn] at hk

theorem addInstance_ok {s s' : State} {i : Inst} (h : addInstance s i = .ok s') :
    s' = { s with insts := s.insts ++ [i] } ∧
    (∀ x ∈ s.insts, (ieq x.cls i.cls && x.key == i.key) = false) := by
  unfold addInstance at h
  split at h
  · simp at h
  · rename_i hn
    injection h with h
    exact ⟨h.symm, by simpa using hn⟩

theorem addDecl_ok {s s' : State} {d : QDecl} (h : addDecl s d = .ok s') :
    s' = { s with decls := s.decls ++ [d] } := by
  unfold addDecl at h
  split at h
  · simp at h
  · injection h with h; exact h.symm

/-- the MOF compiler's connection adds only pre-checks in front of CreateClass -/
theorem mofCreateClass_ok {s s' : State} {c : Cls} (h : mofCreateClass s c = .ok s') :
    createClass s c = .ok s' := by
  unfold mofCreateClass at h
  split at h
  · simp at h
  · cases hd : mofDeps s.classes c with
    | error e => simp [hd] at h
    | ok u => simpa [hd] using h

theorem forest_step {s : State} (hf : Forest s.classes) (op : Op) : Forest (step s op).1.classes := by
  cases op with
  | create c =>
    simp only [step]
    cases h : createClass s c with
    | error e => exact hf
    | ok s' =>
      obtain ⟨r, hr, rfl, hfresh⟩ := createClass_ok h
      obtain ⟨hn, hs, hp⟩ := resolveClass_ok hr
      refine .snoc hf (by rw [hn]; exact hfresh) ?_
      intro sn hsn hne
      rw [hs] at hsn
      exact hp sn (normSuper_some hsn).1 hne
  | add c =>
    simp only [step]
    cases h : addClass s c with
    | error e => exact hf
    | ok s' =>
      obtain ⟨r, hr, rfl, hfresh⟩ := addClass_ok h
      obtain ⟨hn, hs, hp⟩ := resolveClass_ok hr
      refine .snoc hf (by rw [hn]; exact hfresh) ?_
      intro sn hsn hne
      rw [hs] at hsn
      exact hp sn (normSuper_some hsn).1 hne
  | modify c =>
    simp only [step]
    cases h : modifyClass s c with
    | error e => exact hf
    | ok s' =>
      obtain ⟨orig, r, hfind, hr, rfl, _, _, hcompat⟩ := modifyClass_ok h
      obtain ⟨hn, hs, _⟩ := resolveClass_ok hr
      obtain ⟨horig, hoi⟩ := findClass_some hfind
      apply forest_replace hf
      intro x hx hxi
      rw [hn] at hxi
      have : x = orig := forest_unique hf x hx orig horig (ieq_trans hxi (ieq_symm hoi))
      subst this
      rw [hs]; exact hcompat
  | delete n =>
    simp only [step]
    cases h : deleteClass s n with
    | error e => exact hf
    | ok s' =>
      obtain ⟨_, hc, _, _⟩ := deleteClass_ok h
      show Forest s'.classes
      rw [hc]; exact forest_delete hf n
  | get n f => simp only [step]; split <;> exact hf
  | enumNames cn d => simp only [step]; split <;> exact hf
  | enumClasses cn d f => simp only [step]; split <;> exact hf
  | supers n => simp only [step]; split <;> exact hf
  | addInst i =>
    simp only [step]
    cases h : addInstance s i with
    | error e => exact hf
    | ok s' => rw [(addInstance_ok h).1]; exact hf
  | enumInsts n => simp only [step]; split <;> exact hf
  | addDecl d =>
    simp only [step]
    cases h : addDecl s d with
    | error e => exact hf
    | ok s' => rw [addDecl_ok h]; exact hf
  | mofCreate c =>
    simp only [step]
    cases h : mofCreateClass s c with
    | error e => exact hf
    | ok s' =>
      obtain ⟨r, hr, rfl, hfresh⟩ := createClass_ok (mofCreateClass_ok h)
      obtain ⟨hn, hs, hp⟩ := resolveClass_ok hr
      refine .snoc hf (by rw [hn]; exact hfresh) ?_
      intro sn hsn hne
      rw [hs] at hsn
      exact hp sn (normSuper_some hsn).1 hne
  | isSub k sup => simp only [step]; split <;> exact hf

theorem forest_run : ∀ (ops : List Op) {s : State}, Forest s.classes → Forest (run s ops).1.classes
  | [], s, hf => hf
  | op :: ops, s, hf => by
    simp only [run]
    exact forest_run ops (forest_step hf op)

/-! ### `_get_superclass_names` -/

theorem forest_parent_exists {cs : List Cls} (hf : Forest cs) :
    ∀ x ∈ cs, ∀ s, x.super = some s → s ≠ [] → hasClass cs s = true := by
  induction hf with
  | nil => intro x hx; simp at hx
  | @snoc cs c hf hfr hp ih =>
    intro x hx s hs hne
    simp at hx
    have lift : hasClass cs s = true → hasClass (cs ++ [c]) s = true := by
      intro h
      obtain ⟨p, hpm, hpi⟩ := hasClass_iff.mp h
      exact hasClass_iff.mpr ⟨p, by simp [hpm], hpi⟩
    rcases hx with hx | rfl
    · exact lift (ih x hx s hs hne)
    · exact lift (hp s hs hne)

theorem findClass_append_left {cs : List Cls} {c : Cls} {n : Name} (h : hasClass cs n = true) :
    findClass (cs ++ [c]) n = findClass cs n := by
  unfold findClass
  rw [List.find?_append]
  obtain ⟨p, hpm, hpi⟩ := hasClass_iff.mp h
  cases hfind : List.find? (fun c => ieq c.name n) cs with
  | some x => simp
  | none =>
    have := List.find?_eq_none.mp hfind p hpm
    simp [hpi] at this

theorem findClass_append_right {cs : List Cls} {c : Cls} {n : Name} (h : hasClass cs n = false)
    (hc : ieq c.name n = true) : findClass (cs ++ [c]) n = some c := by
  unfold findClass
  rw [List.find?_append]
  have : List.find? (fun c => ieq c.name n) cs = none := by
    apply List.find?_eq_none.mpr
    intro x hx
    have := hasClass_false_iff.mp h x hx
    simp [this]
  simp [this, hc]

theorem findClass_mem_super {cs : List Cls} {n : Name} {x : Cls} (h : findClass cs n = some x) : x ∈ cs :=
  (findClass_some h).1

/-- the chain of a class of the old store does not see a class added later -/
theorem superChain_append {cs : List Cls} {c : Cls} (hf : Forest cs) :
    ∀ (f : Nat) (n : Name), hasClass cs n = true → superChain f (cs ++ [c]) n = superChain f cs n
  | 0, n, _ => rfl
  | f + 1, n, h => by
    simp only [superChain, findClass_append_left h]
    cases hx : findClass cs n with
    | none => rfl
    | some x =>
      simp only
      cases hs : x.super with
      | none => rfl
      | some s =>
        simp only
        by_cases he : s.isEmpty = true
        · simp [he]
        · simp only [he]
          have hne : s ≠ [] := by intro h0; simp [h0] at he
          have := forest_parent_exists hf x (findClass_mem_super hx) s hs hne
          rw [superChain_append hf f s this]

theorem superChain_mono_fuel {cs : List Cls} :
    ∀ (f : Nat) (n : Name) (l : List Name), superChain f cs n = .ok l → superChain (f + 1) cs n = .ok l
  | 0, n, l, h => by simp [superChain] at h
  | f + 1, n, l, h => by
    rw [superChain] at h ⊢
    cases hx : findClass cs n with
    | none => simp [hx] at h
    | some x =>
      simp only [hx] at h ⊢
      cases hs : x.super with
      | none => simpa [hs] using h
      | some s =>
        simp only [hs] at h ⊢
        by_cases he : s.isEmpty = true
        · simpa [he] using h
        · simp only [he] at h ⊢
          cases hr : superChain f cs s with
          | error e => simp [hr] at h
          | ok l' =>
            rw [superChain_mono_fuel f s l' hr]
            simpa [hr] using h

/-- **termination of `_get_superclass_names`** on a forest: for every existing class the loop ends
    within `classes.length` iterations (no RecursionError / endless loop, no KeyError) -/
theorem superChain_terminates {cs : List Cls} (hf : Forest cs) :
    ∀ n, hasClass cs n = true → ∃ l, superChain cs.length cs n = .ok l := by
  induction hf with
  | nil => intro n h; simp [hasClass] at h
  | @snoc cs c hf hfr hp ih =>
    intro n h
    have hlen : (cs ++ [c]).length = cs.length + 1 := by simp
    rw [hlen]
    by_cases hold : hasClass cs n = true
    · obtain ⟨l, hl⟩ := ih n hold
      exact ⟨l, by rw [superChain_append hf _ n hold]; exact superChain_mono_fuel _ _ _ hl⟩
    · have hold' : hasClass cs n = false := by simpa using hold
      have hcn : ieq c.name n = true := by
        obtain ⟨p, hpm, hpi⟩ := hasClass_iff.mp h
        simp at hpm
        rcases hpm with hpm | rfl
        · have := hasClass_false_iff.mp hold' p hpm; simp [hpi] at this
        · exact hpi
      rw [superChain, findClass_append_right hold' hcn]
      simp only
      cases hs : c.super with
      | none => exact ⟨[], rfl⟩
      | some s =>
        simp only
        by_cases he : s.isEmpty = true
        · exact ⟨[], by simp [he]⟩
        · simp only [he]
          have hne : s ≠ [] := by intro h0; simp [h0] at he
          have hps := hp s hs hne
          obtain ⟨l, hl⟩ := ih s hps
          rw [superChain_append hf _ s hps, hl]
          exact ⟨s :: l, rfl⟩

/-- every name the loop collects is an ancestor of the class it started from -/
theorem superChain_sound {cs : List Cls} :
    ∀ (f : Nat) (n : Name) (l : List Name), superChain f cs n = .ok l →
      ∀ a ∈ l, ∃ x, findClass cs n = some x ∧ Spec.Desc cs x.name a
  | 0, n, l, h => by simp [superChain] at h
  | f + 1, n, l, h => by
    rw [superChain] at h
    cases hx : findClass cs n with
    | none => simp [hx] at h
    | some x =>
      simp only [hx] at h
      cases hs : x.super with
      | none => simp [hs] at h; subst h; intro a ha; simp at ha
      | some s =>
        simp only [hs] at h
        by_cases he : s.isEmpty = true
        · simp [he] at h; subst h; intro a ha; simp at ha
        · simp only [he] at h
          have hne : s ≠ [] := by intro h0; simp [h0] at he
          cases hr : superChain f cs s with
          | error e => simp [hr] at h
          | ok l' =>
            simp [hr] at h; subst h
            intro a ha
            simp at ha
            have hxm := (findClass_some hx).1
            rcases ha with rfl | ha
            · exact ⟨x, rfl, .child hxm ⟨a, hs, hne, ieq_refl _⟩⟩
            · obtain ⟨y, hy, hd⟩ := superChain_sound f s l' hr a ha
              have hyi := (findClass_some hy).2
              exact ⟨x, rfl, .trans hd hxm ⟨s, hs, hne, ieq_symm hyi⟩⟩

/-! ### element resolution -/

theorem setNewElem_ok {decls : List QDecl} {n : Name} {e e' : Elem} {inh : Option Elem}
    (h : setNewElem decls n e inh = .ok e') :
    e'.name = e.name ∧ e'.isMeth = e.isMeth ∧ e'.ty = e.ty ∧ e'.params = e.params ∧
    (match inh with
     | none => e'.origin = some n ∧ e'.propagated = some false ∧
         resolveQuals decls e.quals [] false = .ok e'.quals
     | some s => e'.origin = s.origin ∧ e'.propagated = some true ∧
         resolveQuals decls e.quals s.quals true = .ok e'.quals) := by
  unfold setNewElem at h
  cases inh with
  | none =>
    simp only at h
    cases hq : resolveQuals decls e.quals [] false with
    | error err => simp [hq] at h
    | ok qs => simp [hq] at h; subst h; simp [hq]
  | some s =>
    simp only at h
    cases hq : resolveQuals decls e.quals s.quals true with
    | error err => simp [hq] at h
    | ok qs => simp [hq] at h; subst h; simp [hq]

/-- what `_resolve_objects` does with one own element when a superclass exists -/
theorem resolveElem_ok {decls : List QDecl} {n : Name} {supE : List Elem} {e e' : Elem}
    (h : resolveElem decls n supE e = .ok e') :
    e'.name = e.name ∧
    ((hasElem supE e.name = false ∧ e'.origin = some n ∧ e'.propagated = some false) ∨
     (hasElem supE e.name = true ∧ hasQual e.quals nOverride = true ∧
        ∃ oname s, keyOfVal (overrideVal e.quals) = .ok oname ∧ findElem supE oname = some s ∧
          e'.origin = s.origin ∧ e'.propagated = some true)) := by
  unfold resolveElem at h
  by_cases h1 : hasElem supE e.name = true
  · simp only [h1] at h
    by_cases h2 : hasQual e.quals nOverride = true
    · simp only [h2] at h
      simp at h
      split at h
      · simp at h
      · cases hk : keyOfVal (overrideVal e.quals) with
        | error err => simp [hk] at h
        | ok oname =>
          simp only [hk] at h
          cases hfs : findElem supE oname with
          | none => simp [hfs] at h
          | some s =>
            simp only [hfs] at h
            split at h
            · simp at h
            · cases hs : setNewElem decls n e (some s) with
              | error err => simp [hs] at h
              | ok e1 =>
                simp only [hs] at h
                obtain ⟨hn, hm, _, _, ho, hp, _⟩ := setNewElem_ok hs
                split at h
                · cases hps : resolveParams decls e1.params ((findElem supE e.name).map (·.params) |>.getD []) with
                  | error err => simp [hps] at h
                  | ok ps =>
                    simp [hps] at h; subst h
                    exact ⟨hn, Or.inr ⟨h1, h2, oname, s, rfl, hfs, ho, hp⟩⟩
                · simp at h; subst h
                  exact ⟨hn, Or.inr ⟨h1, h2, oname, s, rfl, hfs, ho, hp⟩⟩
    · simp [h2] at h
  · simp only [h1] at h
    simp at h
    obtain ⟨hn, _, _, _, ho, hp, _⟩ := setNewElem_ok h
    exact ⟨hn, Or.inl ⟨by simpa using h1, ho, hp⟩⟩

theorem hasElem_eq_any_names (es : List Elem) (n : Name) :
    hasElem es n = (es.map (·.name)).any (fun o => ieq o n) := by
  simp [hasElem, List.any_map, Function.comp_def]

theorem resolveElems_names {decls : List QDecl} {n : Name} {newE se r : List Elem}
    (h : resolveElems decls n newE (some se) = .ok r) :
    r.map (·.name) = Spec.exposedNames (newE.map (·.name)) (se.map (·.name)) := by
  unfold resolveElems at h
  simp only at h
  cases hm : mapE (resolveElem decls n se) newE with
  | error e => simp [hm] at h
  | ok es =>
    simp [hm] at h; subst h
    have h1 : es.map (·.name) = newE.map (·.name) :=
      mapE_ok_map (·.name) (·.name) (fun a b hab => (resolveElem_ok hab).1) hm
    simp only [Spec.exposedNames, List.map_append, h1, List.map_map]
    congr 1
    rw [List.filter_map]
    try simp only [List.map_map]
    have : ∀ (l : List Elem), l.map ((·.name) ∘ copyElem) = l.map (·.name) := by
      intro l; apply List.map_congr_left; intro a _; simp [copyElem]
    rw [this]
    congr 2
    funext s
    simp [hasElem_eq_any_names]

theorem resolveElems_names_root {decls : List QDecl} {n : Name} {newE r : List Elem}
    (h : resolveElems decls n newE none = .ok r) : r.map (·.name) = newE.map (·.name) := by
  unfold resolveElems at h
  simp only at h
  exact mapE_ok_map (·.name) (·.name) (fun a b hab => (setNewElem_ok hab).1) h

/-- a repository state some history of operations leads to, starting from an empty repository with
    arbitrary qualifier declarations -/
def Reachable (s : State) : Prop := ∃ decls ops, s = (run { decls := decls } ops).1

theorem reachable_forest {s : State} (h : Reachable s) : Forest s.classes := by
  obtain ⟨decls, ops, rfl⟩ := h
  exact forest_run ops .nil

/-! ### class_origin names the introducing class: an invariant over histories -/

/-- `a` introduced the element named `nm` for `c`: `a` is `c` or an ancestor of `c`, exposes the
    element, and `a`'s own superclass does not -/
def Introduced (sel : Cls → List Elem) (cs : List Cls) (c a : Cls) (nm : Name) : Prop :=
  a ∈ cs ∧ (a = c ∨ Spec.Desc cs c.name a.name) ∧ hasElem (sel a) nm = true ∧
    (∀ p ∈ cs, Spec.IsChild a p.name → hasElem (sel p) nm = false)

/-- every stored element names, as class_origin, the class that introduced it -/
def OriginOK (sel : Cls → List Elem) (cs : List Cls) : Prop :=
  ∀ c ∈ cs, ∀ e ∈ sel c, ∃ a, e.origin = some a.name ∧ Introduced sel cs c a e.name

/-- every Override qualifier of the declaration names the element that carries it -/
def wfElem (d : Elem) : Bool :=
  match keyOfVal (overrideVal d.quals) with
  | .ok o => ieq o d.name
  | .error _ => true

def WFElems (own : List Elem) : Prop := ∀ d ∈ own, wfElem d = true

theorem wfElem_key {d : Elem} {oname : Name} (h : wfElem d = true)
    (hk : keyOfVal (overrideVal d.quals) = .ok oname) : ieq oname d.name = true := by
  unfold wfElem at h; rw [hk] at h; exact h

theorem desc_mono {cs cs' : List Cls} (hsub : ∀ c ∈ cs, c ∈ cs') {x a : Name} (h : Spec.Desc cs x a) :
    Spec.Desc cs' x a := by
  induction h with
  | child hc hch => exact .child (hsub _ hc) hch
  | trans _ hc hch ih => exact .trans ih (hsub _ hc) hch

theorem hasElem_congr {es : List Elem} {a b : Name} (h : ieq a b = true) : hasElem es a = hasElem es b := by
  unfold hasElem
  congr 1; funext e
  exact ieq_congr_right h

theorem findElem_some {es : List Elem} {n : Name} {e : Elem} (h : findElem es n = some e) :
    e ∈ es ∧ ieq e.name n = true := by
  unfold findElem at h
  have h1 := List.mem_of_find?_eq_some h
  have h2 := List.find?_some h
  exact ⟨h1, by simpa using h2⟩

theorem hasElem_of_mem {es : List Elem} {e : Elem} (h : e ∈ es) : hasElem es e.name = true := by
  simp only [hasElem, List.any_eq_true]; exact ⟨e, h, ieq_refl _⟩

/-- witnesses of old classes survive the addition of a new (leaf) class -/
theorem introduced_append {sel : Cls → List Elem} {cs : List Cls} {r c a : Cls} {nm : Name}
    (hF : Forest (cs ++ [r])) (hc : c ∈ cs) (h : Introduced sel cs c a nm) :
    Introduced sel (cs ++ [r]) c a nm := by
  obtain ⟨ha, hanc, hex, hpar⟩ := h
  have hsub : ∀ x ∈ cs, x ∈ cs ++ [r] := fun x hx => by simp [hx]
  refine ⟨hsub a ha, ?_, hex, ?_⟩
  · rcases hanc with rfl | hd
    · exact Or.inl rfl
    · exact Or.inr (desc_mono hsub hd)
  · intro p hp hch
    simp at hp
    rcases hp with hp | rfl
    · exact hpar p hp hch
    · exact absurd hch (forest_last_leaf hF a (hsub a ha))

/-- the new class `r`, resolved below `P`, names correct origins -/
theorem originOK_new {sel : Cls → List Elem} {decls : List QDecl} {cs : List Cls} {r P : Cls}
    {own : List Elem} (hF : Forest (cs ++ [r])) (hok : OriginOK sel cs) (hP : P ∈ cs)
    (hch : Spec.IsChild r P.name)
    (hres : resolveElems decls r.name own (some (sel P)) = .ok (sel r)) (hwf : WFElems own) :
    ∀ e ∈ sel r, ∃ a, e.origin = some a.name ∧ Introduced sel (cs ++ [r]) r a e.name := by
  have hsub : ∀ x ∈ cs, x ∈ cs ++ [r] := fun x hx => by simp [hx]
  have hFcs : Forest cs := (forest_snoc_inv hF).1
  have hr : r ∈ cs ++ [r] := by simp
  -- an element the superclass exposes: its introducer also introduced it for r
  have lift : ∀ p ∈ sel P, ∀ nm, ieq nm p.name = true →
      ∃ a, p.origin = some a.name ∧ Introduced sel (cs ++ [r]) r a nm := by
    intro p hp nm hnm
    obtain ⟨a, ho, ha, hanc, hex, hpar⟩ := hok P hP p hp
    refine ⟨a, ho, hsub a ha, Or.inr ?_, ?_, ?_⟩
    · rcases hanc with rfl | hd
      · exact .child hr hch
      · exact .trans (desc_mono hsub hd) hr hch
    · rw [hasElem_congr hnm]; exact hex
    · intro q hq hqc
      simp at hq
      rcases hq with hq | rfl
      · rw [hasElem_congr hnm]; exact hpar q hq hqc
      · exact absurd hqc (forest_last_leaf hF a (hsub a ha))
  intro e he
  -- C12_origin_and_propagated, inlined
  unfold resolveElems at hres
  simp only at hres
  cases hm : mapE (resolveElem decls r.name (sel P)) own with
  | error err => simp [hm] at hres
  | ok es =>
    simp [hm] at hres
    rw [← hres] at he
    rcases List.mem_append.mp he with he' | he'
    · obtain ⟨d, hd, hde⟩ := mapE_ok_mem hm e he'
      obtain ⟨hn, hcase⟩ := resolveElem_ok hde
      rcases hcase with ⟨h1, h2, _⟩ | ⟨h1, _, oname, s0, hk, hf, ho, _⟩
      · -- newly introduced by r
        refine ⟨r, h2, hr, Or.inl rfl, ?_, ?_⟩
        · rw [hres] at he; exact hasElem_of_mem he
        · intro q hq hqc
          simp at hq
          rcases hq with hq | rfl
          · -- q is r's superclass, i.e. P
            have : q = P := by
              obtain ⟨s1, hs1, _, hi1⟩ := hqc
              obtain ⟨s2, hs2, _, hi2⟩ := hch
              rw [hs1] at hs2; cases hs2
              exact forest_unique hFcs q hq P hP (ieq_trans (ieq_symm hi1) hi2)
            subst this
            rw [hn]; exact h1
          · exact absurd hqc (forest_last_leaf hF q hr)
      · -- overriding the superclass element named by Override (= its own name)
        obtain ⟨hs0, hs0i⟩ := findElem_some hf
        have hwf' := wfElem_key (hwf d hd) hk
        obtain ⟨a, hoa, hint⟩ := lift s0 hs0 e.name (by rw [hn]; exact ieq_symm (ieq_trans hs0i hwf'))
        exact ⟨a, by rw [ho]; exact hoa, hint⟩
    · obtain ⟨p, hp, rfl⟩ := List.mem_map.mp he'
      obtain ⟨hp1, _⟩ := List.mem_filter.mp hp
      obtain ⟨a, hoa, hint⟩ := lift p hp1 p.name (ieq_refl _)
      exact ⟨a, by simpa [copyElem] using hoa, by simpa [copyElem] using hint⟩

/-- a new root class: every element originates in the class itself -/
theorem originOK_new_root {sel : Cls → List Elem} {decls : List QDecl} {cs : List Cls} {r : Cls}
    {own : List Elem} (hsup : r.super = none)
    (hres : resolveElems decls r.name own none = .ok (sel r)) :
    ∀ e ∈ sel r, ∃ a, e.origin = some a.name ∧ Introduced sel (cs ++ [r]) r a e.name := by
  intro e he
  unfold resolveElems at hres
  simp only at hres
  obtain ⟨d, hd, hde⟩ := mapE_ok_mem hres e he
  obtain ⟨_, _, _, _, ho, _, _⟩ := setNewElem_ok hde
  refine ⟨r, ho, by simp, Or.inl rfl, hasElem_of_mem he, ?_⟩
  intro q _ hqc
  obtain ⟨s1, hs1, _, _⟩ := hqc
  rw [hsup] at hs1; cases hs1

theorem resolveClass_parts {decls : List QDecl} {cs : List Cls} {c r : Cls}
    (h : resolveClass decls cs c = .ok r) :
    ∃ sup, findSuper cs c = .ok sup ∧ resolveParts decls c sup = .ok r := by
  unfold resolveClass at h
  cases h1 : findSuper cs c with
  | error e => simp [h1] at h
  | ok sup =>
    cases h2 : validateClass decls c sup with
    | error e => simp [h1, h2] at h
    | ok u => simp [h1, h2] at h; exact ⟨sup, rfl, h⟩

/-- the superclass found for `c`: either none (then the stored superclass is none), or a stored class
    of which the resolved class is a child -/
theorem findSuper_cases {cs : List Cls} {c : Cls} {sup : Option Cls} (h : findSuper cs c = .ok sup) :
    (sup = none ∧ normSuper c.super = none) ∨
    (∃ P s, sup = some P ∧ P ∈ cs ∧ normSuper c.super = some s ∧ s ≠ [] ∧ ieq s P.name = true) := by
  obtain ⟨h1, h2⟩ := findSuper_ok h
  cases hs : c.super with
  | none => exact Or.inl ⟨h2 (Or.inl hs), by simp [normSuper, superSet]⟩
  | some s =>
    by_cases he : s = []
    · subst he; exact Or.inl ⟨h2 (Or.inr hs), by simp [normSuper, superSet]⟩
    · obtain ⟨hf, hsome⟩ := h1 s hs he
      cases sup with
      | none => simp at hsome
      | some P =>
        obtain ⟨hP, hPi⟩ := findClass_some hf
        refine Or.inr ⟨P, s, rfl, hP, ?_, he, ieq_symm hPi⟩
        simp [normSuper, superSet, he]

/-- adding a class resolved below `P` (or as a root) keeps `OriginOK` -/
theorem originOK_snoc {sel : Cls → List Elem} {decls : List QDecl} {cs : List Cls} {r : Cls}
    {own : List Elem} (hF' : Forest (cs ++ [r])) (hok : OriginOK sel cs)
    (hcase : (r.super = none ∧ resolveElems decls r.name own none = .ok (sel r)) ∨
      (∃ P, P ∈ cs ∧ Spec.IsChild r P.name ∧ resolveElems decls r.name own (some (sel P)) = .ok (sel r)))
    (hwf : WFElems own) : OriginOK sel (cs ++ [r]) := by
  intro x hx e he
  simp at hx
  rcases hx with hx | rfl
  · obtain ⟨a, ho, hint⟩ := hok x hx e he
    exact ⟨a, ho, introduced_append hF' hx hint⟩
  · rcases hcase with ⟨hnone, hres⟩ | ⟨P, hP, hch, hres⟩
    · exact originOK_new_root hnone hres e he
    · exact originOK_new hF' hok hP hch hres hwf e he

/-- how a successfully resolved class relates to the store it was resolved against -/
theorem resolveClass_case {sel : Cls → List Elem} {decls : List QDecl} {cs : List Cls} {c r : Cls}
    (hr : resolveClass decls cs c = .ok r)
    (hsel : ∀ sup, resolveParts decls c sup = .ok r →
      resolveElems decls c.name (sel c) (sup.map sel) = .ok (sel r)) :
    (r.super = none ∧ resolveElems decls r.name (sel c) none = .ok (sel r)) ∨
    (∃ P, P ∈ cs ∧ Spec.IsChild r P.name ∧ resolveElems decls r.name (sel c) (some (sel P)) = .ok (sel r)) := by
  obtain ⟨hn, hs, _⟩ := resolveClass_ok hr
  obtain ⟨sup, hfs, hparts⟩ := resolveClass_parts hr
  have hres := hsel sup hparts
  rw [← hn] at hres
  rcases findSuper_cases hfs with ⟨rfl, hnone⟩ | ⟨P, s, rfl, hP, hsome, hne, hi⟩
  · exact Or.inl ⟨by rw [hs]; exact hnone, hres⟩
  · exact Or.inr ⟨P, hP, ⟨s, by rw [hs]; exact hsome, hne, hi⟩, hres⟩

/-- CreateClass / add_cimobjects keep `OriginOK` -/
theorem originOK_append {sel : Cls → List Elem} {decls : List QDecl} {cs : List Cls} {c r : Cls}
    (hF : Forest cs) (hok : OriginOK sel cs) (hr : resolveClass decls cs c = .ok r)
    (hfresh : hasClass cs c.name = false)
    (hsel : ∀ sup, resolveParts decls c sup = .ok r →
      resolveElems decls c.name (sel c) (sup.map sel) = .ok (sel r))
    (hwf : WFElems (sel c)) : OriginOK sel (cs ++ [r]) := by
  obtain ⟨hn, hs, hp⟩ := resolveClass_ok hr
  have hF' : Forest (cs ++ [r]) := by
    refine .snoc hF (by rw [hn]; exact hfresh) ?_
    intro sn hsn hne
    rw [hs] at hsn
    exact hp sn (normSuper_some hsn).1 hne
  exact originOK_snoc hF' hok (resolveClass_case hr hsel) hwf

/-- `keep` is closed upwards: the superclass of a kept class is kept -/
def UpClosed (cs : List Cls) (keep : Cls → Bool) : Prop :=
  ∀ d ∈ cs, keep d = true → ∀ p ∈ cs, Spec.IsChild d p.name → keep p = true

theorem desc_filter {cs : List Cls} {keep : Cls → Bool} (hup : UpClosed cs keep) {x a : Name}
    (h : Spec.Desc cs x a) (hx : ∀ q ∈ cs, q.name = x → keep q = true) :
    Spec.Desc (cs.filter keep) x a := by
  induction h with
  | @child d a hd hch =>
    exact .child (List.mem_filter.mpr ⟨hd, hx d hd rfl⟩) hch
  | @trans d m a _ hd hch ih =>
    have hkd := hx d hd rfl
    refine .trans (ih ?_) (List.mem_filter.mpr ⟨hd, hkd⟩) hch
    intro q hq hqm
    exact hup d hd hkd q hq (by rw [hqm]; exact hch)

theorem desc_top_kept {cs : List Cls} {keep : Cls → Bool} (hup : UpClosed cs keep) {x an : Name}
    (h : Spec.Desc cs x an) (hx : ∀ q ∈ cs, q.name = x → keep q = true) :
    ∀ a ∈ cs, a.name = an → keep a = true := by
  induction h with
  | @child d an hd hch =>
    intro a ha han
    exact hup d hd (hx d hd rfl) a ha (by rw [han]; exact hch)
  | @trans d m an _ hd hch ih =>
    have hkd := hx d hd rfl
    exact ih (fun q hq hqm => hup d hd hkd q hq (by rw [hqm]; exact hch))

theorem originOK_filter {sel : Cls → List Elem} {cs : List Cls} {keep : Cls → Bool}
    (hF : Forest cs) (hok : OriginOK sel cs) (hup : UpClosed cs keep) : OriginOK sel (cs.filter keep) := by
  intro c hc e he
  obtain ⟨hcm, hck⟩ := List.mem_filter.mp hc
  obtain ⟨a, ho, ha, hanc, hex, hpar⟩ := hok c hcm e he
  have hbottom : ∀ q ∈ cs, q.name = c.name → keep q = true := by
    intro q hq hqn
    have : q = c := forest_unique hF q hq c hcm (by rw [hqn]; exact ieq_refl _)
    rw [this]; exact hck
  refine ⟨a, ho, ?_, ?_, hex, fun p hp hch => hpar p (List.mem_filter.mp hp).1 hch⟩
  · rcases hanc with rfl | hd
    · exact hc
    · exact List.mem_filter.mpr ⟨ha, desc_top_kept hup hd hbottom a ha rfl⟩
  · rcases hanc with rfl | hd
    · exact Or.inl rfl
    · exact Or.inr (desc_filter hup hd hbottom)

theorem originOK_congr {sel : Cls → List Elem} {A B : List Cls} (hAB : ∀ x, x ∈ A ↔ x ∈ B)
    (hok : OriginOK sel A) : OriginOK sel B := by
  intro c hc e he
  obtain ⟨a, ho, ha, hanc, hex, hpar⟩ := hok c ((hAB c).mpr hc) e he
  refine ⟨a, ho, (hAB a).mp ha, ?_, hex, fun p hp hch => hpar p ((hAB p).mpr hp) hch⟩
  rcases hanc with rfl | hd
  · exact Or.inl rfl
  · exact Or.inr (desc_mono (fun x hx => (hAB x).mp hx) hd)

theorem mem_replaceClass {cs : List Cls} {r m : Cls} (hm : m ∈ cs) (hmi : ieq m.name r.name = true)
    (x : Cls) : x ∈ replaceClass cs r ↔ (x ∈ cs ∧ ieq x.name r.name = false) ∨ x = r := by
  simp only [replaceClass, List.mem_map]
  constructor
  · rintro ⟨y, hy, rfl⟩
    by_cases h : ieq y.name r.name = true
    · exact Or.inr (by simp [h])
    · exact Or.inl (by simp [h]; exact hy)
  · rintro (⟨hx, hxi⟩ | rfl)
    · exact ⟨x, hx, by simp [hxi]⟩
    · exact ⟨m, hm, by simp [hmi]⟩

/-- ModifyClass (of a leaf class, superclass unchanged up to case) keeps `OriginOK` -/
theorem originOK_modify {sel : Cls → List Elem} {decls : List QDecl} {cs : List Cls} {c r orig : Cls}
    (hF : Forest cs) (hok : OriginOK sel cs) (hfind : findClass cs c.name = some orig)
    (hr : resolveClass decls cs c = .ok r) (hleaf : children cs (some c.name) = [])
    (hcompat : SuperCompat orig.super (normSuper c.super))
    (hsel : ∀ sup, resolveParts decls c sup = .ok r →
      resolveElems decls c.name (sel c) (sup.map sel) = .ok (sel r))
    (hwf : WFElems (sel c)) : OriginOK sel (replaceClass cs r) := by
  obtain ⟨hn, hs, _⟩ := resolveClass_ok hr
  obtain ⟨horig, hoi⟩ := findClass_some hfind
  -- no stored class is a child of the class being modified
  have nochild : ∀ d ∈ cs, ¬ Spec.IsChild d c.name := by
    intro d hd hch
    have : d.name ∈ children cs (some c.name) := mem_children.mpr ⟨d, hd, rfl, hch⟩
    rw [hleaf] at this; simp at this
  let keep : Cls → Bool := fun x => !(ieq x.name c.name)
  have hup : UpClosed cs keep := by
    intro d hd _ p hp hch
    cases hpi : ieq p.name c.name with
    | false => simp [keep, hpi]
    | true => exact absurd (isChild_congr hpi hch) (nochild d hd)
  have hF0 : Forest (cs.filter keep) := forest_filter hF keep hup
  have hok0 : OriginOK sel (cs.filter keep) := originOK_filter hF hok hup
  -- the resolved class sits below a class that is kept (or is a root)
  have hcase0 : (r.super = none ∧ resolveElems decls r.name (sel c) none = .ok (sel r)) ∨
      (∃ P, P ∈ cs.filter keep ∧ Spec.IsChild r P.name ∧
        resolveElems decls r.name (sel c) (some (sel P)) = .ok (sel r)) := by
    rcases resolveClass_case hr hsel with h | ⟨P, hP, hch, hres⟩
    · exact Or.inl h
    · refine Or.inr ⟨P, List.mem_filter.mpr ⟨hP, ?_⟩, hch, hres⟩
      cases hpi : ieq P.name c.name with
      | false => simp [keep, hpi]
      | true =>
        -- then the class would be its own superclass: orig is a child of c.name
        exfalso
        have hPo : P = orig := forest_unique hF P hP orig horig (ieq_trans hpi (ieq_symm hoi))
        obtain ⟨s, hsr, hne, hi⟩ := hch
        -- orig's parent exists and is named like r's parent s, i.e. like P = orig itself
        rw [hs] at hsr
        obtain ⟨s', hs', hne', hi'⟩ := hcompat s hsr hne
        have h1 : Spec.IsChild orig orig.name := ⟨s', hs', hne', by rw [← hPo]; exact ieq_trans hi' hi⟩
        exact nochild orig horig (isChild_congr hoi h1)
  have hF' : Forest (cs.filter keep ++ [r]) := by
    refine .snoc hF0 ?_ ?_
    · apply hasClass_false_iff.mpr
      intro x hx
      have := (List.mem_filter.mp hx).2
      rw [hn]; simpa [keep] using this
    · intro sn hsn _
      rcases hcase0 with ⟨hnone, _⟩ | ⟨P, hP, ⟨s, hsr, _, hi⟩, _⟩
      · rw [hnone] at hsn; cases hsn
      · rw [hsn] at hsr; cases hsr
        exact hasClass_iff.mpr ⟨P, hP, ieq_symm hi⟩
  have hok' := originOK_snoc hF' hok0 hcase0 hwf
  apply originOK_congr _ hok'
  intro x
  rw [mem_replaceClass horig (by rw [hn]; exact hoi) x, List.mem_append, List.mem_filter]
  simp [keep, hn]

theorem upClosed_delete {cs : List Cls} (hf : Forest cs) (n : Name) :
    UpClosed cs (fun c => !(inNames (subtreeList cs n) c.name)) := by
  intro d hd hk p hp hch
  cases hkp : inNames (subtreeList cs n) p.name with
  | false => simp [hkp]
  | true =>
    exfalso
    have hdn : inNames (subtreeList cs n) d.name = true := by
      apply (inNames_subtree_class hf hd).mpr
      rcases (inNames_subtree_class hf hp).mp hkp with hi | hdesc
      · exact Or.inr (.child hd (isChild_congr hi hch))
      · exact Or.inr (.trans hdesc hd hch)
    simp [hdn] at hk

/-- the declarations an operation submits name, in every Override qualifier, the element that
    carries it (case-insensitively) -/
def opWF : Op → Bool
  | .create c => c.props.all wfElem && c.meths.all wfElem
  | .add c => c.props.all wfElem && c.meths.all wfElem
  | .modify c => c.props.all wfElem && c.meths.all wfElem
  | .mofCreate c => c.props.all wfElem && c.meths.all wfElem
  | _ => true

def OpWF (op : Op) : Prop := opWF op = true

instance (op : Op) : Decidable (OpWF op) := by unfold OpWF; infer_instance

theorem wf_of_all {c : Cls} (h : (c.props.all wfElem && c.meths.all wfElem) = true) :
    WFElems c.props ∧ WFElems c.meths := by
  simp only [Bool.and_eq_true, List.all_eq_true] at h
  exact ⟨fun d hd => h.1 d hd, fun d hd => h.2 d hd⟩

theorem originOK_step {sel : Cls → List Elem}
    (hsel : ∀ decls c sup r, resolveParts decls c sup = .ok r →
      resolveElems decls c.name (sel c) (sup.map sel) = .ok (sel r))
    (hwfsel : ∀ c, WFElems c.props ∧ WFElems c.meths → WFElems (sel c))
    {s : State} (hF : Forest s.classes) (hok : OriginOK sel s.classes) (op : Op) (hwf : OpWF op) :
    OriginOK sel (step s op).1.classes := by
  cases op with
  | create c =>
    simp only [step]
    cases h : createClass s c with
    | error e => exact hok
    | ok s' =>
      obtain ⟨r, hr, rfl, hfresh⟩ := createClass_ok h
      exact originOK_append hF hok hr hfresh (fun sup => hsel _ c sup r) (hwfsel c (wf_of_all hwf))
  | add c =>
    simp only [step]
    cases h : addClass s c with
    | error e => exact hok
    | ok s' =>
      obtain ⟨r, hr, rfl, hfresh⟩ := addClass_ok h
      exact originOK_append hF hok hr hfresh (fun sup => hsel _ c sup r) (hwfsel c (wf_of_all hwf))
  | modify c =>
    simp only [step]
    cases h : modifyClass s c with
    | error e => exact hok
    | ok s' =>
      obtain ⟨orig, r, hfind, hr, rfl, hleaf, _, hcompat⟩ := modifyClass_ok h
      exact originOK_modify hF hok hfind hr hleaf hcompat (fun sup => hsel _ c sup r) (hwfsel c (wf_of_all hwf))
  | delete n =>
    simp only [step]
    cases h : deleteClass s n with
    | error e => exact hok
    | ok s' =>
      obtain ⟨_, hc, _, _⟩ := deleteClass_ok h
      show OriginOK sel s'.classes
      rw [hc]; exact originOK_filter hF hok (upClosed_delete hF n)
  | get n f => simp only [step]; split <;> exact hok
  | enumNames cn d => simp only [step]; split <;> exact hok
  | enumClasses cn d f => simp only [step]; split <;> exact hok
  | supers n => simp only [step]; split <;> exact hok
  | addInst i =>
    simp only [step]
    cases h : addInstance s i with
    | error e => exact hok
    | ok s' => rw [(addInstance_ok h).1]; exact hok
  | enumInsts n => simp only [step]; split <;> exact hok
  | addDecl d =>
    simp only [step]
    cases h : addDecl s d with
    | error e => exact hok
    | ok s' => rw [addDecl_ok h]; exact hok
  | mofCreate c =>
    simp only [step]
    cases h : mofCreateClass s c with
    | error e => exact hok
    | ok s' =>
      obtain ⟨r, hr, rfl, hfresh⟩ := createClass_ok (mofCreateClass_ok h)
      exact originOK_append hF hok hr hfresh (fun sup => hsel _ c sup r) (hwfsel c (wf_of_all hwf))
  | isSub k sup => simp only [step]; split <;> exact hok

theorem originOK_run {sel : Cls → List Elem}
    (hsel : ∀ decls c sup r, resolveParts decls c sup = .ok r →
      resolveElems decls c.name (sel c) (sup.map sel) = .ok (sel r))
    (hwfsel : ∀ c, WFElems c.props ∧ WFElems c.meths → WFElems (sel c)) :
    ∀ (ops : List Op) {s : State}, Forest s.classes → OriginOK sel s.classes →
      (∀ op ∈ ops, OpWF op) → OriginOK sel (run s ops).1.classes
  | [], s, _, hok, _ => hok
  | op :: ops, s, hF, hok, hwf => by
    simp only [run]
    exact originOK_run hsel hwfsel ops (forest_step hF op)
      (originOK_step hsel hwfsel hF hok op (hwf op (by simp)))
      (fun o ho => hwf o (by simp [ho]))

theorem hsel_props : ∀ decls c sup r, resolveParts decls c sup = .ok r →
    resolveElems decls c.name ((·.props) c) (sup.map (·.props)) = .ok ((·.props) r) := by
  intro decls c sup r h
  obtain ⟨cq, ps, ms, _, h2, _, rfl⟩ := resolveParts_ok h
  exact h2

theorem hsel_meths : ∀ decls c sup r, resolveParts decls c sup = .ok r →
    resolveElems decls c.name ((·.meths) c) (sup.map (·.meths)) = .ok ((·.meths) r) := by
  intro decls c sup r h
  obtain ⟨cq, ps, ms, _, _, h3, rfl⟩ := resolveParts_ok h
  exact h3

theorem originOK_empty (sel : Cls → List Elem) : OriginOK sel [] := by
  intro c hc; simp at hc

/-! ### qualifiers of an overriding element -/

/-- qualifier name as a dictionary key -/
def lname (q : Qual) : Name := lower q.name

theorem hasQual_eq_lnames (l : List Qual) (n : Name) :
    hasQual l n = (l.map lname).contains (lower n) := by
  induction l with
  | nil => simp [hasQual]
  | cons a l ih =>
    simp only [hasQual, List.any_cons, List.map_cons, List.contains_cons] at ih ⊢
    rw [ih]
    simp [ieq, lname, BEq.comm]

theorem hasQual_congr_lnames {l l' : List Qual} (h : l.map lname = l'.map lname) (n : Name) :
    hasQual l n = hasQual l' n := by
  rw [hasQual_eq_lnames, hasQual_eq_lnames, h]

theorem initQual_name {decls : List QDecl} {q q' : Qual} (h : initQual decls q = .ok q') :
    q'.name = q.name ∧ q'.val = q.val := by
  unfold initQual at h
  cases hd : findDecl decls q.name with
  | none => simp [hd] at h
  | some d => simp [hd] at h; subst h; exact ⟨rfl, rfl⟩

theorem setQual_lnames (l : List Qual) (q' : Qual) : (setQual l q').map lname = l.map lname := by
  simp only [setQual, List.map_map]
  apply List.map_congr_left
  intro x _
  by_cases h : ieq x.name q'.name = true
  · simp [h, lname]; exact (ieq_iff.mp h).symm
  · simp [h]

theorem findQual_none_iff {l : List Qual} {n : Name} : findQual l n = none ↔ hasQual l n = false := by
  simp [findQual, hasQual, List.find?_eq_none]

theorem findQual_some_name {l : List Qual} {n : Name} {q : Qual} (h : findQual l n = some q) :
    ieq q.name n = true ∧ hasQual l n = true := by
  unfold findQual at h
  have h1 := List.mem_of_find?_eq_some h
  have h2 : ieq q.name n = true := by simpa using List.find?_some h
  exact ⟨h2, by simp only [hasQual, List.any_eq_true]; exact ⟨q, h1, h2⟩⟩

/-- the names one iteration of the inherit loop leaves behind -/
theorem inheritStep_lnames {decls : List QDecl} {cur cur' : List Qual} {inh : Qual}
    (h : inheritStep decls cur inh = .ok cur') :
    cur'.map lname =
      cur.map lname ++ (if truthy inh.tosub && !(hasQual cur inh.name) then [lname inh] else []) := by
  unfold inheritStep at h
  cases hf : findQual cur inh.name with
  | none =>
    have hq := findQual_none_iff.mp hf
    simp only [hf] at h
    by_cases ht : truthy inh.tosub = true
    · simp [ht] at h; subst h; simp [ht, hq, lname]
    · simp [ht] at h; subst h; simp [ht]
  | some q =>
    obtain ⟨_, hq⟩ := findQual_some_name hf
    simp only [hf] at h
    have key : ∀ q', .ok (setQual cur q') = (Except.ok cur' : Except PyExc (List Qual)) →
        cur'.map lname = cur.map lname := by
      intro q' hq'; injection hq' with hq'; subst hq'; exact setQual_lnames cur q'
    have : cur'.map lname = cur.map lname := by
      split at h
      · split at h
        · cases hi : initQual decls q with
          | error e => simp [hi] at h
          | ok q' => simp only [hi] at h; exact key q' h
        · split at h
          · simp at h
          · cases hi : initQual decls q with
            | error e => simp [hi] at h
            | ok q' => simp only [hi] at h; exact key _ h
      · split at h
        · cases hi : initQual decls q with
          | error e => simp [hi] at h
          | ok q' => simp only [hi] at h; exact key q' h
        · simp at h
    simp [this, hq]

theorem hasQual_append_one (cur : List Qual) (l : List Name) (n : Name)
    {cur' : List Qual} (h : cur'.map lname = cur.map lname ++ l) (hn : l.contains (lower n) = false) :
    hasQual cur' n = hasQual cur n := by
  rw [hasQual_eq_lnames, hasQual_eq_lnames, h]
  simp [List.contains_append, hn] <;> simp_all

theorem inheritFold_lnames {decls : List QDecl} :
    ∀ (rest cur r : List Qual), List.Pairwise (fun a b => ieq a.name b.name = false) rest →
      foldE (inheritStep decls) cur rest = .ok r →
      r.map lname = cur.map lname ++
        (rest.filter (fun q => truthy q.tosub && !(hasQual cur q.name))).map lname
  | [], cur, r, _, h => by simp [foldE] at h; subst h; simp
  | inh :: rest, cur, r, hpw, h => by
    simp only [foldE] at h
    cases hs : inheritStep decls cur inh with
    | error e => simp [hs] at h
    | ok cur' =>
      simp only [hs] at h
      have hstep := inheritStep_lnames hs
      obtain ⟨hhead, htail⟩ := List.pairwise_cons.mp hpw
      have ih := inheritFold_lnames rest cur' r htail h
      -- membership tests of the remaining names are not affected by what this step appended
      have hsame : ∀ x ∈ rest, hasQual cur' x.name = hasQual cur x.name := by
        intro x hx
        apply hasQual_append_one cur _ x.name hstep
        have hne := hhead x hx
        split
        · simp [lname]
          intro hcontra
          have : ieq inh.name x.name = true := ieq_iff.mpr hcontra.symm
          simp [this] at hne
        · simp
      have hfilter : rest.filter (fun q => truthy q.tosub && !(hasQual cur' q.name)) =
          rest.filter (fun q => truthy q.tosub && !(hasQual cur q.name)) := by
        apply List.filter_congr
        intro x hx; rw [hsame x hx]
      rw [ih, hstep, hfilter, List.filter_cons]
      by_cases hc : (truthy inh.tosub && !(hasQual cur inh.name)) = true
      · simp [hc]
      · simp [hc]

/-- **qualifiers of an overriding element = own ++ inherited ToSubclass ones not redeclared**
    (dictionary keys, i.e. names up to case; the inherited dictionary has pairwise different keys) -/
theorem resolveQuals_override_lnames {decls : List QDecl} {own inh r : List Qual}
    (hpw : List.Pairwise (fun a b => ieq a.name b.name = false) inh)
    (h : resolveQuals decls own inh true = .ok r) :
    r.map lname = own.map lname ++ (Spec.inheritedQuals own inh).map lname := by
  unfold resolveQuals at h
  simp only [Bool.not_true, Bool.false_eq_true, if_false] at h
  cases h1 : mapE (fun q => if hasQual inh q.name then .ok q else initQual decls q) own with
  | error e => simp [h1] at h
  | ok q1 =>
    simp only [h1] at h
    have hn : q1.map lname = own.map lname := by
      apply mapE_ok_map lname lname _ h1
      intro a b hab
      by_cases hq : hasQual inh a.name = true
      · simp [hq] at hab; subst hab; rfl
      · simp [hq] at hab; simp [lname, (initQual_name hab).1]
    have := inheritFold_lnames inh q1 r hpw h
    rw [this, hn]
    congr 2
    unfold Spec.inheritedQuals
    apply List.filter_congr
    intro x _
    rw [hasQual_congr_lnames hn]


theorem findClass_of_mem {cs : List Cls} (hf : Forest cs) {x : Cls} (hx : x ∈ cs) {n : Name}
    (hn : ieq x.name n = true) : findClass cs n = some x := by
  cases h : findClass cs n with
  | none =>
    have := hasClass_false_iff.mp (findClass_none h) x hx
    simp [hn] at this
  | some y =>
    obtain ⟨hy, hyi⟩ := findClass_some h
    have : y = x := forest_unique hf y hy x hx (ieq_trans hyi (ieq_symm hn))
    rw [this]

/-- **completeness of `_get_superclass_names`** on a forest: every class the start class descends
    from is listed (up to case) -/
theorem superChain_complete {cs : List Cls} (hf : Forest cs) {xn a : Name} (hd : Spec.Desc cs xn a) :
    ∀ (f : Nat) (l : List Name), superChain f cs xn = .ok l → ∃ s ∈ l, ieq s a = true := by
  induction hd with
  | @child x a hx hch =>
    intro f l hl
    obtain ⟨s, hs, hne, hi⟩ := hch
    cases f with
    | zero => simp [superChain] at hl
    | succ f =>
      rw [superChain, findClass_of_mem hf hx (ieq_refl _)] at hl
      simp only [hs] at hl
      have he : s.isEmpty = false := by cases s <;> simp_all
      simp only [he] at hl
      cases hr : superChain f cs s with
      | error e => simp [hr] at hl
      | ok l' => simp [hr] at hl; subst hl; exact ⟨s, by simp, hi⟩
  | @trans x m a hma hx hch ih =>
    intro f l hl
    obtain ⟨s, hs, hne, hi⟩ := hch
    cases f with
    | zero => simp [superChain] at hl
    | succ f =>
      rw [superChain, findClass_of_mem hf hx (ieq_refl _)] at hl
      simp only [hs] at hl
      have he : s.isEmpty = false := by cases s <;> simp_all
      simp only [he] at hl
      cases hr : superChain f cs s with
      | error e => simp [hr] at hl
      | ok l' =>
        simp [hr] at hl; subst hl
        -- the chain continues from s, which names the same class as m
        obtain ⟨q, hq, hqn⟩ := desc_is_stored hma
        have hsq : superChain f cs s = superChain f cs m := by
          cases f with
          | zero => rfl
          | succ f' =>
            rw [superChain, superChain, findClass_of_mem hf hq (by rw [hqn]; exact ieq_symm hi),
              findClass_of_mem hf hq (by rw [hqn]; exact ieq_refl _)]
        rw [hsq] at hr
        obtain ⟨s', hs', hi'⟩ := ih f l' hr
        exact ⟨s', by simp [hs'], hi'⟩


theorem keepE_name (f : Flags) (e : Elem) : (keepE f e).name = e.name := by
  by_cases hiq : f.iq = some false <;> by_cases hico : f.ico = some true <;>
    simp [keepE, hiq, hico, stripOrigin, stripElemQuals]


/-! ### the own qualifier declaration wins -/

theorem hasQual_false_iff' {l : List Qual} {n : Name} :
    hasQual l n = false ↔ ∀ y ∈ l, ieq y.name n = false := by
  simp [hasQual]

/-- "the own declaration wins": `cur` still holds, for the qualifier `q`, an entry with q's value -/
def Holds (cur : List Qual) (q : Qual) : Prop := ∃ q' ∈ cur, ieq q'.name q.name = true ∧ q'.val = q.val ∧ q'.ty = q.ty

theorem initQual_val {decls : List QDecl} {q q' : Qual} (h : initQual decls q = .ok q') :
    q'.name = q.name ∧ q'.val = q.val ∧ q'.ty = q.ty := by
  unfold initQual at h
  cases hd : findDecl decls q.name with
  | none => simp [hd] at h
  | some d => simp [hd] at h; subst h; exact ⟨rfl, rfl, rfl⟩

/-- replacing the entries named like `x` by `x'` (same name, value, type as the found entry) keeps
    every own value, provided the keys of `cur` are pairwise different -/
theorem holds_setQual {cur : List Qual} {q x x' : Qual}
    (hpw : List.Pairwise (fun a b => ieq a.name b.name = false) cur)
    (hx : x ∈ cur) (hn : x'.name = x.name) (hv : x'.val = x.val) (ht : x'.ty = x.ty)
    (h : Holds cur q) : Holds (setQual cur x') q := by
  obtain ⟨q', hq', hi, hval, hty⟩ := h
  by_cases hsame : ieq q'.name x'.name = true
  · -- q' is the replaced entry itself
    have hqx : q' = x := by
      apply Classical.byContradiction
      intro hne
      rw [hn] at hsame
      rcases List.mem_iff_append.mp hx with ⟨l1, l2, rfl⟩
      simp only [List.mem_append, List.mem_cons] at hq'
      rw [List.pairwise_append] at hpw
      obtain ⟨h1, h2, h3⟩ := hpw
      rw [List.pairwise_cons] at h2
      rcases hq' with hq' | rfl | hq'
      · have := h3 q' hq' x (by simp); simp [hsame] at this
      · exact hne rfl
      · have := h2.1 q' hq'; simp [ieq_symm hsame] at this
    subst hqx
    refine ⟨x', ?_, by rw [hn]; exact hi, by rw [hv]; exact hval, by rw [ht]; exact hty⟩
    simp only [setQual, List.mem_map]
    exact ⟨q', hq', by simp [hsame]⟩
  · refine ⟨q', ?_, hi, hval, hty⟩
    simp only [setQual, List.mem_map]
    exact ⟨q', hq', by simp [hsame]⟩

theorem pairwise_of_lnames : ∀ (l l' : List Qual), l.map lname = l'.map lname →
    List.Pairwise (fun a b => ieq a.name b.name = false) l →
    List.Pairwise (fun a b => ieq a.name b.name = false) l' := by
  intro l
  induction l with
  | nil => intro l' h _; cases l' <;> simp_all
  | cons a l ih =>
    intro l' h hp
    cases l' with
    | nil => simp at h
    | cons b l' =>
      simp only [List.map_cons, List.cons.injEq] at h
      obtain ⟨hab, hll⟩ := h
      rw [List.pairwise_cons] at hp ⊢
      refine ⟨?_, ih l' hll hp.2⟩
      intro y hy
      have : lname y ∈ l'.map lname := List.mem_map.mpr ⟨y, hy, rfl⟩
      rw [← hll] at this
      obtain ⟨y0, hy0, hk⟩ := List.mem_map.mp this
      have h0 := hp.1 y0 hy0
      simp only [ieq, lname] at *
      rw [← hab, ← hk]; exact h0

theorem setQual_pairwise {cur : List Qual} {x' : Qual}
    (hpw : List.Pairwise (fun a b => ieq a.name b.name = false) cur) :
    List.Pairwise (fun a b => ieq a.name b.name = false) (setQual cur x') :=
  pairwise_of_lnames cur _ (setQual_lnames cur x').symm hpw

theorem findQual_some_mem {l : List Qual} {n : Name} {q : Qual} (h : findQual l n = some q) : q ∈ l := by
  unfold findQual at h; exact List.mem_of_find?_eq_some h

theorem holds_mono {cur cur' : List Qual} {q : Qual} (hsub : ∀ y ∈ cur, y ∈ cur') (h : Holds cur q) :
    Holds cur' q := by
  obtain ⟨q', hq', rest⟩ := h; exact ⟨q', hsub q' hq', rest⟩

/-- one iteration of the inherit loop keeps the keys pairwise different and every own value -/
theorem inheritStep_inv {decls : List QDecl} {cur cur' : List Qual} {inh : Qual} {own : List Qual}
    (h : inheritStep decls cur inh = .ok cur')
    (hpw : List.Pairwise (fun a b => ieq a.name b.name = false) cur)
    (hown : ∀ q ∈ own, Holds cur q) :
    List.Pairwise (fun a b => ieq a.name b.name = false) cur' ∧ ∀ q ∈ own, Holds cur' q := by
  unfold inheritStep at h
  cases hf : findQual cur inh.name with
  | none =>
    have hq := hasQual_false_iff'.mp (findQual_none_iff.mp hf)
    simp only [hf] at h
    by_cases ht : truthy inh.tosub = true
    · simp [ht] at h; subst h
      refine ⟨?_, fun q hq' => holds_mono (fun y hy => by simp [hy]) (hown q hq')⟩
      rw [List.pairwise_append]
      refine ⟨hpw, by simp, ?_⟩
      intro a ha b hb
      simp at hb; subst hb
      exact hq a ha
    · simp [ht] at h; subst h; exact ⟨hpw, hown⟩
  | some x =>
    have hx := findQual_some_mem hf
    simp only [hf] at h
    have key : ∀ x', x'.name = x.name → x'.val = x.val → x'.ty = x.ty →
        .ok (setQual cur x') = (Except.ok cur' : Except PyExc (List Qual)) →
        List.Pairwise (fun a b => ieq a.name b.name = false) cur' ∧ ∀ q ∈ own, Holds cur' q := by
      intro x' hn hv ht hq'
      injection hq' with hq'; subst hq'
      exact ⟨setQual_pairwise hpw, fun q hq => holds_setQual hpw hx hn hv ht (hown q hq)⟩
    split at h
    · split at h
      · cases hi : initQual decls x with
        | error e => simp [hi] at h
        | ok x' =>
          simp only [hi] at h
          obtain ⟨a, b, c⟩ := initQual_val hi
          exact key x' a b c h
      · split at h
        · simp at h
        · cases hi : initQual decls x with
          | error e => simp [hi] at h
          | ok x' =>
            simp only [hi] at h
            obtain ⟨a, b, c⟩ := initQual_val hi
            exact key { x' with propagated := some true } a b c h
    · split at h
      · cases hi : initQual decls x with
        | error e => simp [hi] at h
        | ok x' =>
          simp only [hi] at h
          obtain ⟨a, b, c⟩ := initQual_val hi
          exact key x' a b c h
      · simp at h

theorem inheritFold_inv {decls : List QDecl} {own : List Qual} :
    ∀ (rest cur r : List Qual), foldE (inheritStep decls) cur rest = .ok r →
      List.Pairwise (fun a b => ieq a.name b.name = false) cur → (∀ q ∈ own, Holds cur q) →
      ∀ q ∈ own, Holds r q
  | [], cur, r, h, _, hown => by simp [foldE] at h; subst h; exact hown
  | inh :: rest, cur, r, h, hpw, hown => by
    simp only [foldE] at h
    cases hs : inheritStep decls cur inh with
    | error e => simp [hs] at h
    | ok cur' =>
      simp only [hs] at h
      obtain ⟨hpw', hown'⟩ := inheritStep_inv hs hpw hown
      exact inheritFold_inv rest cur' r h hpw' hown'

theorem mapE_ok_fwd {α β : Type} {f : α → Except PyExc β} :
    ∀ {l : List α} {r : List β}, mapE f l = .ok r → ∀ a ∈ l, ∃ b ∈ r, f a = .ok b
  | [], r, h, a, ha => by simp at ha
  | x :: xs, r, h, a, ha => by
    simp only [mapE] at h
    cases hfx : f x with
    | error e => simp [hfx] at h
    | ok b0 =>
      cases hm : mapE f xs with
      | error e => simp [hfx, hm] at h
      | ok bs =>
        simp [hfx, hm] at h; subst h
        simp at ha
        rcases ha with rfl | ha
        · exact ⟨b0, by simp, hfx⟩
        · obtain ⟨b, hb, hfb⟩ := mapE_ok_fwd hm a ha
          exact ⟨b, by simp [hb], hfb⟩

/-- **the nearest declaration wins**: every qualifier the overriding element declares itself is
    present in the resolved dictionary with its own value and type (keys of `own` pairwise different) -/
theorem resolveQuals_own_wins {decls : List QDecl} {own inh r : List Qual}
    (hpw : List.Pairwise (fun a b => ieq a.name b.name = false) own)
    (h : resolveQuals decls own inh true = .ok r) : ∀ q ∈ own, Holds r q := by
  unfold resolveQuals at h
  simp only [Bool.not_true, Bool.false_eq_true, if_false] at h
  cases h1 : mapE (fun q => if hasQual inh q.name then .ok q else initQual decls q) own with
  | error e => simp [h1] at h
  | ok q1 =>
    simp only [h1] at h
    have hn : q1.map lname = own.map lname := by
      apply mapE_ok_map lname lname _ h1
      intro a b hab
      by_cases hq : hasQual inh a.name = true
      · simp [hq] at hab; subst hab; rfl
      · simp [hq] at hab; simp [lname, (initQual_name hab).1]
    have hpw1 := pairwise_of_lnames own q1 hn.symm hpw
    have hown1 : ∀ q ∈ own, Holds q1 q := by
      intro q hq
      obtain ⟨b, hb, hfb⟩ := mapE_ok_fwd h1 q hq
      by_cases hq' : hasQual inh q.name = true
      · simp [hq'] at hfb; subst hfb; exact ⟨q, hb, ieq_refl _, rfl, rfl⟩
      · simp [hq'] at hfb
        obtain ⟨a1, a2, a3⟩ := initQual_val hfb
        exact ⟨b, hb, by rw [a1]; exact ieq_refl _, a2, a3⟩
    exact inheritFold_inv inh q1 r h hpw1 hown1


/-! ### several namespaces -/

theorem run_snoc (s : State) (ops : List Op) (op : Op) :
    (run s (ops ++ [op])).1 = (step (run s ops).1 op).1 := by
  induction ops generalizing s with
  | nil => simp [run]
  | cons o os ih => simp only [List.cons_append, run]; exact ih _

theorem reachable_step {s : State} (h : Reachable s) (op : Op) : Reachable (step s op).1 := by
  obtain ⟨decls, ops, rfl⟩ := h
  exact ⟨decls, ops ++ [op], (run_snoc _ ops op).symm⟩

theorem reachable_empty : Reachable {} := ⟨[], [], rfl⟩

/-- keys of the repository dictionary are pairwise different (up to case) -/
def NsUnique (r : Repo) : Prop := List.Pairwise (fun a b => ieq a.1 b.1 = false) r.nss

theorem findNs_some {r : Repo} {ns : Name} {s : State} (h : findNs r ns = some s) :
    ∃ k, (k, s) ∈ r.nss ∧ ieq k (stripSlash ns) = true := by
  unfold findNs at h
  cases hf : r.nss.find? (fun e => ieq e.1 (stripSlash ns)) with
  | none => simp [hf] at h
  | some e =>
    simp [hf] at h
    have h1 := List.mem_of_find?_eq_some hf
    have h2 := List.find?_some hf
    refine ⟨e.1, ?_, by simpa using h2⟩
    rw [← h]; exact h1

theorem findNs_none {r : Repo} {ns : Name} (h : findNs r ns = none) :
    ∀ e ∈ r.nss, ieq e.1 (stripSlash ns) = false := by
  unfold findNs at h
  cases hf : r.nss.find? (fun e => ieq e.1 (stripSlash ns)) with
  | some e => simp [hf] at h
  | none =>
    intro e he
    have := List.find?_eq_none.mp hf e he
    simpa using this

theorem hasNs_false {r : Repo} {ns : Name} (h : hasNs r ns = false) :
    ∀ e ∈ r.nss, ieq e.1 (stripSlash ns) = false := by
  simpa [hasNs] using h

/-- what `rstep` does, case by case -/
theorem rstep_inNs (r : Repo) (ns : Name) (op : Op) :
    (findNs r ns = none ∧ rstep r (.inNs ns op) = (r, .err (missingNsError op))) ∨
    (∃ s, findNs r ns = some s ∧ rstep r (.inNs ns op) = (setNs r ns (step s op).1, (step s op).2)) := by
  simp only [rstep]
  cases h : findNs r ns with
  | none => exact Or.inl ⟨rfl, rfl⟩
  | some s => exact Or.inr ⟨s, rfl, rfl⟩

theorem setNs_keys (r : Repo) (ns : Name) (s : State) :
    (setNs r ns s).nss.map (·.1) = r.nss.map (·.1) := by
  simp only [setNs, List.map_map]
  apply List.map_congr_left
  intro e _
  by_cases h : ieq e.1 (stripSlash ns) = true <;> simp [h]

theorem pairwise_of_keys {l l' : List (Name × State)} (h : l'.map (·.1) = l.map (·.1))
    (hp : List.Pairwise (fun a b => ieq a.1 b.1 = false) l) :
    List.Pairwise (fun a b => ieq a.1 b.1 = false) l' := by
  have h1 : List.Pairwise (fun a b => ieq a b = false) (l.map (·.1)) := by
    rw [List.pairwise_map]; exact hp
  rw [← h, List.pairwise_map] at h1
  exact h1

theorem nsUnique_rstep {r : Repo} (hu : NsUnique r) (op : ROp) : NsUnique (rstep r op).1 := by
  cases op with
  | inNs ns o =>
    rcases rstep_inNs r ns o with ⟨_, h⟩ | ⟨s, _, h⟩
    · rw [h]; exact hu
    · rw [h]; exact pairwise_of_keys (setNs_keys r ns _) hu
  | addNs ns =>
    simp only [rstep]
    cases h : hasNs r ns with
    | true => simp; exact hu
    | false =>
      simp only [Bool.false_eq_true, if_false]
      show List.Pairwise _ (r.nss ++ [(stripSlash ns, ({} : State))])
      rw [List.pairwise_append]
      refine ⟨hu, by simp, ?_⟩
      intro a ha b hb
      simp at hb; subst hb
      exact hasNs_false h a ha
  | removeNs ns =>
    simp only [rstep]
    cases hf : findNs r ns with
    | none => exact hu
    | some s =>
      simp only
      by_cases he : isEmptyState s = true
      · simp only [he, if_true]
        exact List.Pairwise.filter _ hu
      · simp [he]; exact hu

/-- every namespace of the repository holds a state that a single-namespace history reaches -/
def AllReachable (r : Repo) : Prop := ∀ e ∈ r.nss, Reachable e.2

theorem allReachable_rstep {r : Repo} (hr : AllReachable r) (op : ROp) : AllReachable (rstep r op).1 := by
  cases op with
  | inNs ns o =>
    rcases rstep_inNs r ns o with ⟨_, h⟩ | ⟨s, hs, h⟩
    · rw [h]; exact hr
    · rw [h]
      obtain ⟨k, hk, _⟩ := findNs_some hs
      intro e he
      simp only [setNs, List.mem_map] at he
      obtain ⟨e0, he0, rfl⟩ := he
      by_cases hm : ieq e0.1 (stripSlash ns) = true
      · simp [hm]; exact reachable_step (hr _ hk) o
      · simp [hm]; exact hr e0 he0
  | addNs ns =>
    simp only [rstep]
    cases h : hasNs r ns with
    | true => simp; exact hr
    | false =>
      simp only [Bool.false_eq_true, if_false]
      intro e he
      have : e ∈ r.nss ++ [(stripSlash ns, ({} : State))] := he
      simp at this
      rcases this with h1 | rfl
      · exact hr e h1
      · exact reachable_empty
  | removeNs ns =>
    simp only [rstep]
    cases hf : findNs r ns with
    | none => exact hr
    | some s =>
      simp only
      by_cases he : isEmptyState s = true
      · simp only [he, if_true]
        intro e he'
        exact hr e (List.mem_filter.mp he').1
      · simp [he]; exact hr

theorem rrun_inv {P : Repo → Prop} (hstep : ∀ r op, P r → P (rstep r op).1) :
    ∀ (ops : List ROp) (r : Repo), P r → P (rrun r ops).1
  | [], r, h => h
  | op :: ops, r, h => by simp only [rrun]; exact rrun_inv hstep ops _ (hstep r op h)

/-- the repository a faked connection starts with: one empty namespace -/
def initRepo (d : Name) : Repo := { nss := [(stripSlash d, {})] }

theorem initRepo_inv (d : Name) : NsUnique (initRepo d) ∧ AllReachable (initRepo d) := by
  refine ⟨by simp [NsUnique, initRepo], ?_⟩
  intro e he
  simp [initRepo] at he
  subst he; exact reachable_empty

/-- in a repository with unique keys the namespace found for a spelling is THE entry with that key -/
theorem findNs_unique {r : Repo} (hu : NsUnique r) {ns k : Name} {s s0 : State}
    (hk : (k, s) ∈ r.nss) (hki : ieq k (stripSlash ns) = true) (hf : findNs r ns = some s0) : s0 = s := by
  obtain ⟨k0, hk0, hk0i⟩ := findNs_some hf
  have hkk : ieq k0 k = true := ieq_trans hk0i (ieq_symm hki)
  by_cases heq : (k0, s0) = (k, s)
  · injection heq with _ h2
  · exfalso
    rcases List.mem_iff_append.mp hk with ⟨l1, l2, hl⟩
    have hu' : List.Pairwise (fun a b => ieq a.1 b.1 = false) (l1 ++ (k, s) :: l2) := by rw [← hl]; exact hu
    rw [hl] at hk0
    simp only [List.mem_append, List.mem_cons] at hk0
    rw [List.pairwise_append] at hu'
    obtain ⟨h1, h2, h3⟩ := hu'
    rw [List.pairwise_cons] at h2
    rcases hk0 with h | h | h
    · have := h3 _ h (k, s) (by simp); simp [hkk] at this
    · exact heq h
    · have := h2.1 _ h; simp [ieq_symm hkk] at this

/-- **independence of namespaces** (one step): after an operation addressed to `ns`, the namespace
    stored under key `k` holds `step s op` if `ns` spells `k`, and is untouched otherwise -/
theorem rstep_inNs_entry {r : Repo} (hu : NsUnique r) {k : Name} {s : State} (hk : (k, s) ∈ r.nss)
    (ns : Name) (op : Op) :
    (k, if ieq k (stripSlash ns) then (step s op).1 else s) ∈ (rstep r (.inNs ns op)).1.nss := by
  rcases rstep_inNs r ns op with ⟨hn, h⟩ | ⟨s0, hs0, h⟩
  · rw [h]
    have := findNs_none hn (k, s) hk
    simp at this
    simp [this]; exact hk
  · rw [h]
    simp only [setNs, List.mem_map]
    refine ⟨(k, s), hk, ?_⟩
    by_cases hm : ieq k (stripSlash ns) = true
    · have : s0 = s := findNs_unique hu hk hm hs0
      simp [hm, this]
    · simp [hm]

/-- **independence of namespaces** (histories without namespace creation/removal): the final content
    of a namespace is the single-namespace run of exactly the operations addressed to it -/
theorem rrun_projection :
    ∀ (ops : List ROp) (r : Repo), NsUnique r → (∀ o ∈ ops, ∃ ns op, o = .inNs ns op) →
      ∀ k s, (k, s) ∈ r.nss → (k, (run s (projectOps k ops)).1) ∈ (rrun r ops).1.nss
  | [], r, _, _, k, s, hk => by simpa [rrun, projectOps, run] using hk
  | o :: ops, r, hu, hall, k, s, hk => by
    obtain ⟨ns, op, rfl⟩ := hall o (by simp)
    simp only [rrun, projectOps]
    have hent := rstep_inNs_entry hu hk ns op
    have hu' := nsUnique_rstep hu (.inNs ns op)
    have hall' : ∀ o ∈ ops, ∃ ns op, o = ROp.inNs ns op := fun o ho => hall o (by simp [ho])
    have := rrun_projection ops _ hu' hall' k _ hent
    by_cases hm : ieq k (stripSlash ns) = true
    · simpa [hm, run] using this
    · simpa [hm] using this


/-! ### the MOF compiler's connection -/

theorem allE_ok_iff {α : Type} {f : α → Except PyExc Unit} {l : List α} :
    allE f l = .ok () ↔ ∀ a ∈ l, f a = .ok () := by
  induction l with
  | nil => simp [allE]
  | cons a l ih =>
    simp only [allE, List.mem_cons, forall_eq_or_imp]
    cases hf : f a with
    | error e => simp [hf]
    | ok u => simp [hf, ih]

theorem depCheck_mof {cs : List Cls} {n : Name} {ty : Nat} {r : Option Name} {q : List Qual}
    (h : depCheck cs n ty r q = .ok ()) : mofDepCheck cs n ty r q = .ok () := by
  unfold depCheck at h
  unfold mofDepCheck
  by_cases h1 : (ty == tyReference) = true
  · simp only [h1, if_true] at h ⊢
    cases r with
    | none => simp at h
    | some r =>
      simp only at h ⊢
      by_cases h2 : ieq r n = true
      · simp [h2]
      · by_cases h3 : hasClass cs r = true
        · simp [h3]
        · simp [h2, h3] at h
  · simp only [h1] at h ⊢
    by_cases h4 : (ty == tyString) = true
    · simp only [h4, if_true] at h ⊢
      cases hf : findQual q nEmbeddedInstance with
      | none => rfl
      | some x =>
        simp only [hf] at h ⊢
        cases hv : x.val with
        | null => rfl
        | tok k => simp [hv] at h
        | str v =>
          simp only [hv] at h ⊢
          by_cases h2 : ieq v n = true
          · simp [h2]
          · by_cases h3 : hasClass cs v = true
            · simp [h3]
            · simp [h2, h3] at h
    · simp [h4]

theorem validateDeps_mof {cs : List Cls} {c : Cls} (h : validateDeps cs c = .ok ()) : mofDeps cs c = .ok () := by
  unfold validateDeps at h
  unfold mofDeps
  cases h1 : allE (fun (p : Elem) => depCheck cs c.name p.ty p.refcls p.quals) c.props with
  | error e => simp [h1] at h
  | ok u =>
    simp only [h1] at h
    have h1' := allE_ok_iff.mp h1
    have h2' := allE_ok_iff.mp h
    have a1 : allE (fun (p : Elem) => mofDepCheck cs c.name p.ty p.refcls p.quals) c.props = .ok () :=
      allE_ok_iff.mpr (fun p hp => depCheck_mof (h1' p hp))
    rw [a1]
    apply allE_ok_iff.mpr
    intro m hm
    apply allE_ok_iff.mpr
    intro p hp
    exact depCheck_mof (allE_ok_iff.mp (h2' m hm) p hp)

/-- a successful CreateClass passes the pre-checks of the MOF compiler's connection -/
theorem createClass_mof {s s' : State} {c : Cls} (h : createClass s c = .ok s') :
    mofCreateClass s c = .ok s' := by
  obtain ⟨r, hr, _, _⟩ := createClass_ok h
  obtain ⟨_, _, hp⟩ := resolveClass_ok hr
  have hdeps : validateDeps s.classes c = .ok () := by
    unfold createClass at h
    split at h
    · simp at h
    · cases hd : validateDeps s.classes c with
      | error e => simp [hd] at h
      | ok u => rfl
  unfold mofCreateClass
  have hsup : (superSet c.super && !(hasClass s.classes (c.super.getD []))) = false := by
    cases hs : c.super with
    | none => simp [superSet]
    | some sn =>
      by_cases he : sn = []
      · simp [superSet, he]
      · simp [superSet, he, hp sn hs he]
  simp only [hsup, Bool.false_eq_true, if_false, validateDeps_mof hdeps]
  exact h


/-! ### stored superclass names are normalised -/

/-- no stored class has the empty string as superclass name -/
def NormSupers (cs : List Cls) : Prop := ∀ c ∈ cs, c.super ≠ some []

theorem normSuper_ne (o : Option Name) : normSuper o ≠ some [] := by
  intro h
  have := (normSuper_some h).2
  exact this rfl

theorem normSupers_step {s : State} (hn : NormSupers s.classes) (op : Op) : NormSupers (step s op).1.classes := by
  have happ : ∀ {c r : Cls}, resolveClass s.decls s.classes c = .ok r → NormSupers (s.classes ++ [r]) := by
    intro c r hr x hx
    simp at hx
    rcases hx with hx | rfl
    · exact hn x hx
    · rw [(resolveClass_ok hr).2.1]; exact normSuper_ne _
  cases op with
  | create c =>
    simp only [step]
    cases h : createClass s c with
    | error e => exact hn
    | ok s' => obtain ⟨r, hr, rfl, _⟩ := createClass_ok h; exact happ hr
  | add c =>
    simp only [step]
    cases h : addClass s c with
    | error e => exact hn
    | ok s' => obtain ⟨r, hr, rfl, _⟩ := addClass_ok h; exact happ hr
  | mofCreate c =>
    simp only [step]
    cases h : mofCreateClass s c with
    | error e => exact hn
    | ok s' => obtain ⟨r, hr, rfl, _⟩ := createClass_ok (mofCreateClass_ok h); exact happ hr
  | modify c =>
    simp only [step]
    cases h : modifyClass s c with
    | error e => exact hn
    | ok s' =>
      obtain ⟨orig, r, _, hr, rfl, _⟩ := modifyClass_ok h
      intro x hx
      simp only [replaceClass, List.mem_map] at hx
      obtain ⟨y, hy, rfl⟩ := hx
      by_cases hm : ieq y.name r.name = true
      · simp [hm]; rw [(resolveClass_ok hr).2.1]; exact normSuper_ne _
      · simp [hm]; exact hn y hy
  | delete n =>
    simp only [step]
    cases h : deleteClass s n with
    | error e => exact hn
    | ok s' =>
      obtain ⟨_, hc, _, _⟩ := deleteClass_ok h
      show NormSupers s'.classes
      rw [hc]; intro x hx; exact hn x (List.mem_filter.mp hx).1
  | addDecl d =>
    simp only [step]
    cases h : addDecl s d with
    | error e => exact hn
    | ok s' => rw [addDecl_ok h]; exact hn
  | get n f => simp only [step]; split <;> exact hn
  | enumNames cn d => simp only [step]; split <;> exact hn
  | enumClasses cn d f => simp only [step]; split <;> exact hn
  | supers n => simp only [step]; split <;> exact hn
  | addInst i =>
    simp only [step]
    cases h : addInstance s i with
    | error e => exact hn
    | ok s' => rw [(addInstance_ok h).1]; exact hn
  | enumInsts n => simp only [step]; split <;> exact hn
  | isSub k sup => simp only [step]; split <;> exact hn

theorem normSupers_run : ∀ (ops : List Op) {s : State}, NormSupers s.classes → NormSupers (run s ops).1.classes
  | [], s, h => h
  | op :: ops, s, h => by simp only [run]; exact normSupers_run ops (normSupers_step h op)

theorem reachable_norm {s : State} (h : Reachable s) : NormSupers s.classes := by
  obtain ⟨decls, ops, rfl⟩ := h
  exact normSupers_run ops (by intro c hc; simp at hc)

/-! ### is_subclass -/

theorem desc_congr_right {cs : List Cls} {x a b : Name} (hab : ieq a b = true) (h : Spec.Desc cs x a) :
    Spec.Desc cs x b := by
  induction h with
  | child hc hch => exact .child hc (isChild_congr hab hch)
  | trans _ hc hch ih => exact .trans (ih hab) hc hch

/-- `is_subclass` walks exactly the chain `_get_superclass_names` collects -/
theorem isSubclass_of_chain {cs : List Cls} (hn : NormSupers cs) (sup : Name) :
    ∀ (f : Nat) (k : Name) (l : List Name), superChain f cs k = .ok l →
      isSubclass f cs k sup =
        if ieq k sup || l.any (fun s => ieq s sup) then .ok true
        else if hasClass cs sup then .ok false else .error .keyError
  | 0, k, l, h => by simp [superChain] at h
  | f + 1, k, l, h => by
    rw [superChain] at h
    rw [isSubclass]
    cases hx : findClass cs k with
    | none => simp [hx] at h
    | some c =>
      simp only [hx] at h ⊢
      by_cases hk : ieq k sup = true
      · simp [hk]
      · simp only [hk, Bool.false_or, if_false]
        cases hs : c.super with
        | none => simp [hs] at h; subst h; simp
        | some s =>
          simp only [hs] at h ⊢
          have hne : s ≠ [] := by
            intro h0; subst h0
            exact hn c (findClass_some hx).1 hs
          have he : s.isEmpty = false := by cases s <;> simp_all
          simp only [he] at h
          cases hr : superChain f cs s with
          | error e => simp [hr] at h
          | ok l' =>
            simp [hr] at h; subst h
            rw [isSubclass_of_chain hn sup f s l' hr]
            simp [List.any_cons]

/-- **`is_subclass` is exact on a forest with normalised superclass names**: for a stored class it
    never loops, answers True iff the class is (named like) `sup` or descends from it, False iff not
    and `sup` exists, and KeyError iff not and `sup` does not exist -/
theorem isSubclass_exact {cs : List Cls} (hf : Forest cs) (hn : NormSupers cs) {x : Cls} (hx : x ∈ cs)
    (sup : Name) :
    ((ieq x.name sup = true ∨ Spec.Desc cs x.name sup) →
        isSubclass (cs.length + 1) cs x.name sup = .ok true) ∧
    (¬ (ieq x.name sup = true ∨ Spec.Desc cs x.name sup) → hasClass cs sup = true →
        isSubclass (cs.length + 1) cs x.name sup = .ok false) ∧
    (¬ (ieq x.name sup = true ∨ Spec.Desc cs x.name sup) → hasClass cs sup = false →
        isSubclass (cs.length + 1) cs x.name sup = .error .keyError) := by
  obtain ⟨l, hl⟩ := superChain_terminates hf x.name (hasClass_iff.mpr ⟨x, hx, ieq_refl _⟩)
  have hl' := superChain_mono_fuel _ _ _ hl
  rw [isSubclass_of_chain hn sup _ _ _ hl']
  have hiff : (ieq x.name sup || l.any (fun s => ieq s sup)) = true ↔
      (ieq x.name sup = true ∨ Spec.Desc cs x.name sup) := by
    simp only [Bool.or_eq_true, List.any_eq_true]
    constructor
    · rintro (h | ⟨a, ha, hi⟩)
      · exact Or.inl h
      · obtain ⟨y, hy, hd⟩ := superChain_sound _ _ _ hl' a ha
        have : y = x := by
          rw [findClass_of_mem hf hx (ieq_refl _)] at hy; exact (Option.some.inj hy).symm
        subst this
        exact Or.inr (desc_congr_right hi hd)
    · rintro (h | hd)
      · exact Or.inl h
      · obtain ⟨a, ha, hi⟩ := superChain_complete hf hd _ _ hl'
        exact Or.inr ⟨a, ha, hi⟩
  refine ⟨fun h => ?_, fun h hs => ?_, fun h hs => ?_⟩
  · simp only [hiff.mpr h, if_true]
  · have hc : ¬ (ieq x.name sup || l.any (fun s => ieq s sup)) = true := fun hc => h (hiff.mp hc)
    simp [hc, hs]
  · have hc : ¬ (ieq x.name sup || l.any (fun s => ieq s sup)) = true := fun hc => h (hiff.mp hc)
    simp [hc, hs]

/-! ### EnumerateClassNames without a class name -/

theorem mem_children_none {cs : List Cls} {x : Name} :
    x ∈ children cs none ↔ ∃ c ∈ cs, c.name = x ∧ c.super = none := by
  simp only [children, List.mem_map, List.mem_filter]
  constructor
  · rintro ⟨c, ⟨hc, hs⟩, rfl⟩; exact ⟨c, hc, rfl, by simpa using hs⟩
  · rintro ⟨c, hc, rfl, hs⟩; exact ⟨c, ⟨hc, by simp [hs]⟩, rfl⟩

/-- every class of a forest with normalised superclass names is a root or descends from a root -/
theorem forest_has_root {cs : List Cls} (hf : Forest cs) (hn : NormSupers cs) :
    ∀ c ∈ cs, c.super = none ∨ ∃ r ∈ cs, r.super = none ∧ Spec.Desc cs c.name r.name := by
  induction hf with
  | nil => intro c hc; simp at hc
  | @snoc cs d hf hfr hp ih =>
    have hn' : NormSupers cs := fun c hc => hn c (by simp [hc])
    have hsub : ∀ e ∈ cs, e ∈ cs ++ [d] := fun e he => by simp [he]
    intro c hc
    simp at hc
    rcases hc with hc | rfl
    · rcases ih hn' c hc with h | ⟨r, hr, hrs, hd⟩
      · exact Or.inl h
      · exact Or.inr ⟨r, hsub r hr, hrs, desc_mono hsub hd⟩
    · cases hs : c.super with
      | none => exact Or.inl rfl
      | some s =>
        have hne : s ≠ [] := by intro h0; subst h0; exact hn c (by simp) hs
        obtain ⟨p, hpm, hpi⟩ := hasClass_iff.mp (hp s hs hne)
        have hch : Spec.IsChild c p.name := ⟨s, hs, hne, ieq_symm hpi⟩
        rcases ih hn' p hpm with h | ⟨r, hr, hrs, hd⟩
        · exact Or.inr ⟨p, hsub p hpm, h, .child (by simp) hch⟩
        · exact Or.inr ⟨r, hsub r hr, hrs, .trans (desc_mono hsub hd) (by simp) hch⟩

/-- **EnumerateClassNames(DeepInheritance=True) without ClassName = all stored classes** -/
theorem mem_subNames_all {cs : List Cls} (hf : Forest cs) (hn : NormSupers cs) {x : Name} :
    x ∈ subNames cs none true ↔ ∃ c ∈ cs, c.name = x := by
  simp only [subNames, if_true, subNamesDeep, List.mem_append, List.mem_flatten, List.mem_map]
  constructor
  · rintro (h | ⟨l, ⟨m, hm, rfl⟩, hx⟩)
    · obtain ⟨c, hc, hcn, _⟩ := mem_children_none.mp h; exact ⟨c, hc, hcn⟩
    · obtain ⟨q, hq, hqn⟩ := desc_is_stored (subNamesDeep_sound hx); exact ⟨q, hq, hqn⟩
  · rintro ⟨c, hc, rfl⟩
    rcases forest_has_root hf hn c hc with h | ⟨r, hr, hrs, hd⟩
    · exact Or.inl (mem_children_none.mpr ⟨c, hc, rfl, h⟩)
    · exact Or.inr ⟨_, ⟨r.name, mem_children_none.mpr ⟨r, hr, rfl, hrs⟩, rfl⟩, subNamesDeep_complete hf hd⟩


/-! ### a subclass exposes every element of its ancestors: an invariant over histories -/

/-- ModifyClass seen as "remove the (leaf) class, then add the newly resolved one" -/
theorem modify_as_snoc {sel : Cls → List Elem} {decls : List QDecl} {cs : List Cls} {c r orig : Cls}
    (hF : Forest cs) (hfind : findClass cs c.name = some orig)
    (hr : resolveClass decls cs c = .ok r) (hleaf : children cs (some c.name) = [])
    (hcompat : SuperCompat orig.super (normSuper c.super))
    (hsel : ∀ sup, resolveParts decls c sup = .ok r →
      resolveElems decls c.name (sel c) (sup.map sel) = .ok (sel r)) :
    ∃ cs0 : List Cls, (∀ x ∈ cs0, x ∈ cs) ∧ Forest (cs0 ++ [r]) ∧
      (∀ x, x ∈ cs0 ++ [r] ↔ x ∈ replaceClass cs r) ∧
      ((r.super = none ∧ resolveElems decls r.name (sel c) none = .ok (sel r)) ∨
       (∃ P, P ∈ cs0 ∧ Spec.IsChild r P.name ∧
         resolveElems decls r.name (sel c) (some (sel P)) = .ok (sel r))) := by
  obtain ⟨hn, hs, _⟩ := resolveClass_ok hr
  obtain ⟨horig, hoi⟩ := findClass_some hfind
  have nochild : ∀ d ∈ cs, ¬ Spec.IsChild d c.name := by
    intro d hd hch
    have : d.name ∈ children cs (some c.name) := mem_children.mpr ⟨d, hd, rfl, hch⟩
    rw [hleaf] at this; simp at this
  let keep : Cls → Bool := fun x => !(ieq x.name c.name)
  have hup : UpClosed cs keep := by
    intro d hd _ p hp hch
    cases hpi : ieq p.name c.name with
    | false => simp [keep, hpi]
    | true => exact absurd (isChild_congr hpi hch) (nochild d hd)
  have hF0 : Forest (cs.filter keep) := forest_filter hF keep hup
  have hcase0 : (r.super = none ∧ resolveElems decls r.name (sel c) none = .ok (sel r)) ∨
      (∃ P, P ∈ cs.filter keep ∧ Spec.IsChild r P.name ∧
        resolveElems decls r.name (sel c) (some (sel P)) = .ok (sel r)) := by
    rcases resolveClass_case hr hsel with h | ⟨P, hP, hch, hres⟩
    · exact Or.inl h
    · refine Or.inr ⟨P, List.mem_filter.mpr ⟨hP, ?_⟩, hch, hres⟩
      cases hpi : ieq P.name c.name with
      | false => simp [keep, hpi]
      | true =>
        exfalso
        have hPo : P = orig := forest_unique hF P hP orig horig (ieq_trans hpi (ieq_symm hoi))
        obtain ⟨s, hsr, hne, hi⟩ := hch
        rw [hs] at hsr
        obtain ⟨s', hs', hne', hi'⟩ := hcompat s hsr hne
        have h1 : Spec.IsChild orig orig.name := ⟨s', hs', hne', by rw [← hPo]; exact ieq_trans hi' hi⟩
        exact nochild orig horig (isChild_congr hoi h1)
  have hF' : Forest (cs.filter keep ++ [r]) := by
    refine .snoc hF0 ?_ ?_
    · apply hasClass_false_iff.mpr
      intro x hx
      have := (List.mem_filter.mp hx).2
      rw [hn]; simpa [keep] using this
    · intro sn hsn _
      rcases hcase0 with ⟨hnone, _⟩ | ⟨P, hP, ⟨s, hsr, _, hi⟩, _⟩
      · rw [hnone] at hsn; cases hsn
      · rw [hsn] at hsr; cases hsr
        exact hasClass_iff.mpr ⟨P, hP, ieq_symm hi⟩
  refine ⟨cs.filter keep, fun x hx => (List.mem_filter.mp hx).1, hF', ?_, hcase0⟩
  intro x
  rw [mem_replaceClass horig (by rw [hn]; exact hoi) x, List.mem_append, List.mem_filter]
  simp [keep, hn]

/-- every class exposes (under the same name, up to case) each element its direct superclass exposes -/
def ChildExposes (sel : Cls → List Elem) (cs : List Cls) : Prop :=
  ∀ c ∈ cs, ∀ P ∈ cs, Spec.IsChild c P.name → ∀ p ∈ sel P, hasElem (sel c) p.name = true

theorem resolveElems_covers {decls : List QDecl} {n : Name} {own se r : List Elem}
    (h : resolveElems decls n own (some se) = .ok r) : ∀ p ∈ se, hasElem r p.name = true := by
  intro p hp
  rw [hasElem_eq_any_names, resolveElems_names h]
  simp only [Spec.exposedNames, List.any_append, Bool.or_eq_true, List.any_eq_true]
  by_cases ho : (own.map (·.name)).any (fun o => ieq o p.name) = true
  · exact Or.inl (List.any_eq_true.mp ho)
  · refine Or.inr ⟨p.name, ?_, ieq_refl _⟩
    rw [List.mem_filter]
    exact ⟨List.mem_map.mpr ⟨p, hp, rfl⟩, by simpa using ho⟩

theorem childExposes_subset {sel : Cls → List Elem} {A B : List Cls} (h : ∀ x ∈ B, x ∈ A)
    (hA : ChildExposes sel A) : ChildExposes sel B :=
  fun c hc P hP hch p hp => hA c (h c hc) P (h P hP) hch p hp

theorem childExposes_snoc {sel : Cls → List Elem} {decls : List QDecl} {cs : List Cls} {r : Cls}
    {own : List Elem} (hF' : Forest (cs ++ [r])) (hok : ChildExposes sel cs)
    (hcase : (r.super = none ∧ resolveElems decls r.name own none = .ok (sel r)) ∨
      (∃ P, P ∈ cs ∧ Spec.IsChild r P.name ∧ resolveElems decls r.name own (some (sel P)) = .ok (sel r))) :
    ChildExposes sel (cs ++ [r]) := by
  have hFcs : Forest cs := (forest_snoc_inv hF').1
  have leaf := forest_last_leaf hF'
  intro c hc P hP hch p hp
  simp at hc hP
  rcases hP with hP | rfl
  · rcases hc with hc | rfl
    · exact hok c hc P hP hch p hp
    · rcases hcase with ⟨hnone, _⟩ | ⟨P0, hP0, hch0, hres⟩
      · obtain ⟨s, hs, _, _⟩ := hch; rw [hnone] at hs; cases hs
      · have : P = P0 := by
          obtain ⟨s1, hs1, _, hi1⟩ := hch
          obtain ⟨s2, hs2, _, hi2⟩ := hch0
          rw [hs1] at hs2; cases hs2
          exact forest_unique hFcs P hP P0 hP0 (ieq_trans (ieq_symm hi1) hi2)
        subst this
        exact resolveElems_covers hres p hp
  · exact absurd hch (leaf c (by simp; exact hc))

theorem childExposes_step {sel : Cls → List Elem}
    (hsel : ∀ decls c sup r, resolveParts decls c sup = .ok r →
      resolveElems decls c.name (sel c) (sup.map sel) = .ok (sel r))
    {s : State} (hF : Forest s.classes) (hok : ChildExposes sel s.classes) (op : Op) :
    ChildExposes sel (step s op).1.classes := by
  have happ : ∀ {c r : Cls}, resolveClass s.decls s.classes c = .ok r → hasClass s.classes c.name = false →
      ChildExposes sel (s.classes ++ [r]) := by
    intro c r hr hfresh
    obtain ⟨hn, hs, hp⟩ := resolveClass_ok hr
    have hF' : Forest (s.classes ++ [r]) := by
      refine .snoc hF (by rw [hn]; exact hfresh) ?_
      intro sn hsn hne
      rw [hs] at hsn
      exact hp sn (normSuper_some hsn).1 hne
    exact childExposes_snoc hF' hok (resolveClass_case hr (fun sup => hsel _ c sup r))
  cases op with
  | create c =>
    simp only [step]
    cases h : createClass s c with
    | error e => exact hok
    | ok s' => obtain ⟨r, hr, rfl, hfresh⟩ := createClass_ok h; exact happ hr hfresh
  | add c =>
    simp only [step]
    cases h : addClass s c with
    | error e => exact hok
    | ok s' => obtain ⟨r, hr, rfl, hfresh⟩ := addClass_ok h; exact happ hr hfresh
  | mofCreate c =>
    simp only [step]
    cases h : mofCreateClass s c with
    | error e => exact hok
    | ok s' => obtain ⟨r, hr, rfl, hfresh⟩ := createClass_ok (mofCreateClass_ok h); exact happ hr hfresh
  | modify c =>
    simp only [step]
    cases h : modifyClass s c with
    | error e => exact hok
    | ok s' =>
      obtain ⟨orig, r, hfind, hr, rfl, hleaf, _, hcompat⟩ := modifyClass_ok h
      obtain ⟨cs0, hsub, hF', hmem, hcase⟩ :=
        modify_as_snoc hF hfind hr hleaf hcompat (fun sup => hsel _ c sup r)
      have h0 : ChildExposes sel cs0 := childExposes_subset hsub hok
      have h1 := childExposes_snoc hF' h0 hcase
      exact childExposes_subset (fun x hx => (hmem x).mpr hx) h1
  | delete n =>
    simp only [step]
    cases h : deleteClass s n with
    | error e => exact hok
    | ok s' =>
      obtain ⟨_, hc, _, _⟩ := deleteClass_ok h
      show ChildExposes sel s'.classes
      rw [hc]; exact childExposes_subset (fun x hx => (List.mem_filter.mp hx).1) hok
  | addDecl d =>
    simp only [step]
    cases h : addDecl s d with
    | error e => exact hok
    | ok s' => rw [addDecl_ok h]; exact hok
  | get n f => simp only [step]; split <;> exact hok
  | enumNames cn d => simp only [step]; split <;> exact hok
  | enumClasses cn d f => simp only [step]; split <;> exact hok
  | supers n => simp only [step]; split <;> exact hok
  | addInst i =>
    simp only [step]
    cases h : addInstance s i with
    | error e => exact hok
    | ok s' => rw [(addInstance_ok h).1]; exact hok
  | enumInsts n => simp only [step]; split <;> exact hok
  | isSub k sup => simp only [step]; split <;> exact hok

theorem childExposes_run {sel : Cls → List Elem}
    (hsel : ∀ decls c sup r, resolveParts decls c sup = .ok r →
      resolveElems decls c.name (sel c) (sup.map sel) = .ok (sel r)) :
    ∀ (ops : List Op) {s : State}, Forest s.classes → ChildExposes sel s.classes →
      ChildExposes sel (run s ops).1.classes
  | [], s, _, hok => hok
  | op :: ops, s, hF, hok => by
    simp only [run]
    exact childExposes_run hsel ops (forest_step hF op) (childExposes_step hsel hF hok op)

theorem reachable_childExposes {s : State} (h : Reachable s) :
    ChildExposes (·.props) s.classes ∧ ChildExposes (·.meths) s.classes := by
  obtain ⟨decls, ops, rfl⟩ := h
  have h0 : ∀ sel, ChildExposes sel ([] : List Cls) := fun sel c hc => by simp at hc
  exact ⟨childExposes_run hsel_props ops .nil (h0 _), childExposes_run hsel_meths ops .nil (h0 _)⟩

/-- from children to all descendants -/
theorem exposes_ancestors {sel : Cls → List Elem} {cs : List Cls} (hF : Forest cs)
    (hok : ChildExposes sel cs) {x an : Name} (hd : Spec.Desc cs x an) :
    ∀ c ∈ cs, c.name = x → ∀ a ∈ cs, a.name = an → ∀ p ∈ sel a, hasElem (sel c) p.name = true := by
  induction hd with
  | @child d an hdm hch =>
    intro c hc hcn a ha han p hp
    have : c = d := forest_unique hF c hc d hdm (by rw [hcn]; exact ieq_refl _)
    subst this
    exact hok c hc a ha (by rw [han]; exact hch) p hp
  | @trans d m an hma hdm hch ih =>
    intro c hc hcn a ha han p hp
    have : c = d := forest_unique hF c hc d hdm (by rw [hcn]; exact ieq_refl _)
    subst this
    obtain ⟨q, hq, hqn⟩ := desc_is_stored hma
    have h1 := ih q hq hqn a ha han p hp
    simp only [hasElem, List.any_eq_true] at h1
    obtain ⟨p', hp', hi⟩ := h1
    have h2 := hok c hc q hq (by rw [hqn]; exact hch) p' hp'
    rw [← hasElem_congr hi]; exact h2


/-! ### every qualifier of an overriding element: own (resolved) or inherited copy -/

/-- `x` stems from the own declaration `own`: same key, value and type as one of its qualifiers -/
def FromOwn (own : List Qual) (x : Qual) : Prop :=
  ∃ q ∈ own, ieq x.name q.name = true ∧ x.val = q.val ∧ x.ty = q.ty

/-- `x` is the propagated copy of a ToSubclass qualifier of `src` that `own` does not declare -/
def CopyOf (own src : List Qual) (x : Qual) : Prop :=
  ∃ i ∈ src, truthy i.tosub = true ∧ hasQual own i.name = false ∧ x = { i with propagated := some true }

theorem holds_hasQual {cur : List Qual} {q : Qual} (h : Holds cur q) : hasQual cur q.name = true := by
  obtain ⟨q', hq', hi, _, _⟩ := h
  simp only [hasQual, List.any_eq_true]; exact ⟨q', hq', hi⟩

theorem mem_setQual {cur : List Qual} {x' y : Qual} (h : y ∈ setQual cur x') :
    y = x' ∨ (y ∈ cur ∧ ieq y.name x'.name = false) := by
  simp only [setQual, List.mem_map] at h
  obtain ⟨z, hz, rfl⟩ := h
  by_cases hm : ieq z.name x'.name = true
  · simp [hm]
  · have hm' : ieq z.name x'.name = false := by simpa using hm
    simp [hm']; exact Or.inr hz

/-- one iteration keeps "every entry is own or a copy of an already processed inherited qualifier" -/
theorem inheritStep_form {decls : List QDecl} {own done cur cur' : List Qual} {inh : Qual}
    (h : inheritStep decls cur inh = .ok cur')
    (hdone : ∀ i ∈ done, ieq i.name inh.name = false)
    (hown : ∀ q ∈ own, Holds cur q)
    (hform : ∀ x ∈ cur, FromOwn own x ∨ CopyOf own done x) :
    ∀ x ∈ cur', FromOwn own x ∨ CopyOf own (done ++ [inh]) x := by
  have lift : ∀ x, FromOwn own x ∨ CopyOf own done x → FromOwn own x ∨ CopyOf own (done ++ [inh]) x := by
    rintro x (h1 | ⟨i, hi, rest⟩)
    · exact Or.inl h1
    · exact Or.inr ⟨i, by simp [hi], rest⟩
  unfold inheritStep at h
  cases hf : findQual cur inh.name with
  | none =>
    have hq := hasQual_false_iff'.mp (findQual_none_iff.mp hf)
    simp only [hf] at h
    by_cases ht : truthy inh.tosub = true
    · simp [ht] at h; subst h
      intro x hx
      simp at hx
      rcases hx with hx | rfl
      · exact lift x (hform x hx)
      · refine Or.inr ⟨inh, by simp, ht, ?_, rfl⟩
        -- own does not declare it: otherwise cur would hold an entry with that key
        cases ho : hasQual own inh.name with
        | false => rfl
        | true =>
          exfalso
          simp only [hasQual, List.any_eq_true] at ho
          obtain ⟨q, hq', hqi⟩ := ho
          obtain ⟨q', hq'm, hq'i, _, _⟩ := hown q hq'
          have := hq q' hq'm
          simp [ieq_trans hq'i hqi] at this
    · simp [ht] at h; subst h
      exact fun x hx => lift x (hform x hx)
  | some x0 =>
    have hx0 := findQual_some_mem hf
    have hx0i := (findQual_some_name hf).1
    simp only [hf] at h
    -- the found entry is an own one: copies carry keys of processed inherited qualifiers
    have hx0own : FromOwn own x0 := by
      rcases hform x0 hx0 with h1 | ⟨i, hi, _, _, rfl⟩
      · exact h1
      · have := hdone i hi; simp at hx0i; simp [hx0i] at this
    have key : ∀ x', x'.name = x0.name → x'.val = x0.val → x'.ty = x0.ty →
        .ok (setQual cur x') = (Except.ok cur' : Except PyExc (List Qual)) →
        ∀ x ∈ cur', FromOwn own x ∨ CopyOf own (done ++ [inh]) x := by
      intro x' hn hv hty hq'
      injection hq' with hq'; subst hq'
      intro y hy
      rcases mem_setQual hy with rfl | ⟨hyc, _⟩
      · obtain ⟨q, hq, a, b, c⟩ := hx0own
        exact Or.inl ⟨q, hq, by rw [hn]; exact a, by rw [hv]; exact b, by rw [hty]; exact c⟩
      · exact lift y (hform y hyc)
    split at h
    · split at h
      · cases hi : initQual decls x0 with
        | error e => simp [hi] at h
        | ok x' =>
          simp only [hi] at h
          obtain ⟨a, b, c⟩ := initQual_val hi
          exact key x' a b c h
      · split at h
        · simp at h
        · cases hi : initQual decls x0 with
          | error e => simp [hi] at h
          | ok x' =>
            simp only [hi] at h
            obtain ⟨a, b, c⟩ := initQual_val hi
            exact key { x' with propagated := some true } a b c h
    · split at h
      · cases hi : initQual decls x0 with
        | error e => simp [hi] at h
        | ok x' =>
          simp only [hi] at h
          obtain ⟨a, b, c⟩ := initQual_val hi
          exact key x' a b c h
      · simp at h

theorem inheritFold_form {decls : List QDecl} {own : List Qual} :
    ∀ (rest done cur r : List Qual), foldE (inheritStep decls) cur rest = .ok r →
      List.Pairwise (fun a b => ieq a.name b.name = false) (done ++ rest) →
      List.Pairwise (fun a b => ieq a.name b.name = false) cur → (∀ q ∈ own, Holds cur q) →
      (∀ x ∈ cur, FromOwn own x ∨ CopyOf own done x) →
      ∀ x ∈ r, FromOwn own x ∨ CopyOf own (done ++ rest) x
  | [], done, cur, r, h, _, _, _, hform => by
    simp [foldE] at h; subst h; simpa using hform
  | inh :: rest, done, cur, r, h, hpw, hpc, hown, hform => by
    simp only [foldE] at h
    cases hs : inheritStep decls cur inh with
    | error e => simp [hs] at h
    | ok cur' =>
      simp only [hs] at h
      have hdone : ∀ i ∈ done, ieq i.name inh.name = false := by
        intro i hi
        rw [List.pairwise_append] at hpw
        exact hpw.2.2 i hi inh (by simp)
      obtain ⟨hpc', hown'⟩ := inheritStep_inv hs hpc hown
      have hform' := inheritStep_form hs hdone hown hform
      have hpw' : List.Pairwise (fun a b => ieq a.name b.name = false) ((done ++ [inh]) ++ rest) := by
        simpa using hpw
      have := inheritFold_form rest (done ++ [inh]) cur' r h hpw' hpc' hown' hform'
      simpa using this

/-- **every qualifier of an overriding element is accounted for**: it is one of the element's own
    qualifiers (same key, value, type) or the copy, marked propagated, of a ToSubclass qualifier of
    the overridden element that the element does not declare — nothing else (dictionaries with
    pairwise different keys) -/
theorem resolveQuals_form {decls : List QDecl} {own inh r : List Qual}
    (hpo : List.Pairwise (fun a b => ieq a.name b.name = false) own)
    (hpi : List.Pairwise (fun a b => ieq a.name b.name = false) inh)
    (h : resolveQuals decls own inh true = .ok r) :
    ∀ x ∈ r, FromOwn own x ∨ CopyOf own inh x := by
  unfold resolveQuals at h
  simp only [Bool.not_true, Bool.false_eq_true, if_false] at h
  cases h1 : mapE (fun q => if hasQual inh q.name then .ok q else initQual decls q) own with
  | error e => simp [h1] at h
  | ok q1 =>
    simp only [h1] at h
    have hn : q1.map lname = own.map lname := by
      apply mapE_ok_map lname lname _ h1
      intro a b hab
      by_cases hq : hasQual inh a.name = true
      · simp [hq] at hab; subst hab; rfl
      · simp [hq] at hab; simp [lname, (initQual_name hab).1]
    have hpw1 := pairwise_of_lnames own q1 hn.symm hpo
    have hown1 : ∀ q ∈ own, Holds q1 q := by
      intro q hq
      obtain ⟨b, hb, hfb⟩ := mapE_ok_fwd h1 q hq
      by_cases hq' : hasQual inh q.name = true
      · simp [hq'] at hfb; subst hfb; exact ⟨q, hb, ieq_refl _, rfl, rfl⟩
      · simp [hq'] at hfb
        obtain ⟨a1, a2, a3⟩ := initQual_val hfb
        exact ⟨b, hb, by rw [a1]; exact ieq_refl _, a2, a3⟩
    have hform1 : ∀ x ∈ q1, FromOwn own x ∨ CopyOf own [] x := by
      intro x hx
      obtain ⟨a, ha, hfa⟩ := mapE_ok_mem h1 x hx
      refine Or.inl ⟨a, ha, ?_⟩
      by_cases hq' : hasQual inh a.name = true
      · simp [hq'] at hfa; subst hfa; exact ⟨ieq_refl _, rfl, rfl⟩
      · simp [hq'] at hfa
        obtain ⟨a1, a2, a3⟩ := initQual_val hfa
        exact ⟨by rw [a1]; exact ieq_refl _, a2, a3⟩
    have := inheritFold_form inh [] q1 r h (by simpa using hpi) hpw1 hown1 hform1
    simpa using this


/-! ### the enumerations list every class once -/

theorem forest_acyclic {cs : List Cls} (hf : Forest cs) : ∀ c ∈ cs, ¬ Spec.Desc cs c.name c.name := by
  induction hf with
  | nil => intro c hc; simp at hc
  | @snoc cs d hf hfr hp ih =>
    intro c hc hd
    have hF : Forest (cs ++ [d]) := .snoc hf hfr hp
    rcases desc_snoc hF hd with hold | ⟨hname, hch⟩
    · obtain ⟨q, hq, hqn⟩ := desc_is_stored hold
      simp at hc
      rcases hc with hc | rfl
      · exact ih c hc hold
      · have := hasClass_false_iff.mp hfr q hq
        simp [hqn, ieq_refl] at this
    · have leaf := forest_last_leaf hF
      rcases hch with hch | ⟨m, hm, hch⟩
      · exact leaf d (by simp) (by rw [← hname]; exact hch)
      · have : ∀ {x a}, Spec.Desc cs x a → a = d.name → False := by
          intro x a hxa
          induction hxa with
          | child hmem hic => intro ha; subst ha; exact leaf _ (by simp [hmem]) hic
          | trans _ _ _ ih2 => exact ih2
        exact this hm hname

/-- the filter predicate of `_get_subclass_names` -/
def isChildB (c : Cls) (a : Name) : Bool :=
  match c.super with
  | some s => !s.isEmpty && ieq s a
  | none => false

theorem isChildB_iff {c : Cls} {a : Name} : isChildB c a = true ↔ Spec.IsChild c a := by
  unfold isChildB Spec.IsChild
  cases hs : c.super with
  | none => simp
  | some s =>
    simp only [Bool.and_eq_true, Bool.not_eq_true', Option.some.injEq]
    constructor
    · rintro ⟨h1, h2⟩; exact ⟨s, rfl, by intro h; simp [h] at h1, h2⟩
    · rintro ⟨s', rfl, h1, h2⟩; exact ⟨by cases s <;> simp_all, h2⟩

theorem children_snoc (cs : List Cls) (c : Cls) (a : Name) :
    children (cs ++ [c]) (some a) = children cs (some a) ++ (if isChildB c a then [c.name] else []) := by
  simp only [children, List.filter_append, List.map_append]
  congr 1
  unfold isChildB
  cases hs : c.super with
  | none => simp [hs]
  | some s =>
    by_cases h : (!s.isEmpty && ieq s a) = true
    · simp [hs, h]
    · simp [hs, h]

theorem sum_map_congr {α : Type} {l : List α} {f g : α → Nat} (h : ∀ m ∈ l, f m = g m) :
    (l.map f).sum = (l.map g).sum := by
  rw [List.map_congr_left h]

theorem sum_map_le {α : Type} {l : List α} {f g : α → Nat} (h : ∀ m ∈ l, f m ≤ g m) :
    (l.map f).sum ≤ (l.map g).sum := by
  induction l with
  | nil => simp
  | cons a l ih =>
    simp only [List.map_cons, List.sum_cons]
    have h1 := h a (by simp)
    have h2 := ih (fun m hm => h m (by simp [hm]))
    omega

theorem sum_map_add {α : Type} (l : List α) (f g : α → Nat) :
    (l.map (fun m => f m + g m)).sum = (l.map f).sum + (l.map g).sum := by
  induction l with
  | nil => simp
  | cons a l ih => simp only [List.map_cons, List.sum_cons, ih]; omega

theorem filter_length_sum {α : Type} (l : List α) (p : α → Bool) :
    (l.filter p).length = (l.map (fun m => if p m then 1 else 0)).sum := by
  induction l with
  | nil => simp
  | cons a l ih =>
    by_cases h : p a = true
    · simp [List.filter_cons, h, ih]; omega
    · simp [List.filter_cons, h, ih]

theorem filter_flatten_length {α : Type} (L : List (List α)) (p : α → Bool) :
    (L.flatten.filter p).length = (L.map (fun l => (l.filter p).length)).sum := by
  induction L with
  | nil => simp
  | cons l L ih => simp only [List.flatten_cons, List.filter_append, List.length_append, ih, List.map_cons, List.sum_cons]

theorem filter_length_le_one {α : Type} {l : List α} {p : α → Bool} (hn : l.Nodup)
    (heq : ∀ x ∈ l, ∀ y ∈ l, p x = true → p y = true → x = y) : (l.filter p).length ≤ 1 := by
  have hnf : (l.filter p).Nodup := List.Nodup.sublist List.filter_sublist hn
  match hfl : l.filter p with
  | [] => simp
  | [x] => simp
  | x :: y :: rest =>
    exfalso
    have hx : x ∈ l.filter p := by rw [hfl]; simp
    have hy : y ∈ l.filter p := by rw [hfl]; simp
    obtain ⟨hx1, hx2⟩ := List.mem_filter.mp hx
    obtain ⟨hy1, hy2⟩ := List.mem_filter.mp hy
    have := heq x hx1 y hy1 hx2 hy2
    rw [hfl, this] at hnf
    simp at hnf

/-- the deep enumeration unfolded (one level) in terms of counts -/
theorem count_subNamesDeep_succ (cs : List Cls) (f : Nat) (a x : Name) :
    List.count x (subNamesDeep (f + 1) cs (some a)) =
      List.count x (children cs (some a)) +
        ((children cs (some a)).map (fun m => List.count x (subNamesDeep f cs (some m)))).sum := by
  simp only [subNamesDeep, List.count_append, List.count_flatten, List.map_map]
  rfl

section snoc
variable {cs : List Cls} {c : Cls} (hF : Forest (cs ++ [c]))
include hF

theorem name_fresh : ∀ q ∈ cs, q.name ≠ c.name := by
  intro q hq h
  have := hasClass_false_iff.mp (forest_snoc_inv hF).2.1 q hq
  rw [h] at this; simp [ieq_refl] at this

theorem subNamesDeep_last (f : Nat) : subNamesDeep f (cs ++ [c]) (some c.name) = [] := by
  cases f with
  | zero => rfl
  | succ f =>
    have hch : children (cs ++ [c]) (some c.name) = [] := by
      apply List.eq_nil_iff_forall_not_mem.mpr
      intro x hx
      obtain ⟨d, hd, _, hdc⟩ := mem_children.mp hx
      exact forest_last_leaf hF d hd hdc
    simp [subNamesDeep, hch]

theorem count_new_children (a : Name) : List.count c.name (children cs (some a)) = 0 := by
  apply List.count_eq_zero.mpr
  intro h
  obtain ⟨q, hq, hqn, _⟩ := mem_children.mp h
  exact name_fresh hF q hq hqn

/-- names other than the new one are counted as before -/
theorem count_old (x : Name) (hx : x ≠ c.name) :
    ∀ (f : Nat) (a : Name), List.count x (subNamesDeep f (cs ++ [c]) (some a)) =
      List.count x (subNamesDeep f cs (some a))
  | 0, a => rfl
  | f + 1, a => by
    rw [count_subNamesDeep_succ, count_subNamesDeep_succ, children_snoc]
    have hE : List.count x (if isChildB c a then [c.name] else []) = 0 := by
      split
      · simp [List.count_cons, hx]; intro h; exact hx h.symm
      · simp
    have hS : ((if isChildB c a then [c.name] else []).map
        (fun m => List.count x (subNamesDeep f (cs ++ [c]) (some m)))).sum = 0 := by
      split
      · simp [subNamesDeep_last hF f]
      · simp
    rw [List.count_append, hE, List.map_append, List.sum_append, hS]
    simp only [Nat.add_zero]
    congr 1
    exact sum_map_congr (fun m _ => count_old x hx f m)

/-- the new name is counted at most once per enumerated superclass candidate -/
theorem count_new :
    ∀ (f : Nat) (a : Name), List.count c.name (subNamesDeep f (cs ++ [c]) (some a)) ≤
      (if isChildB c a then 1 else 0) + ((subNamesDeep f cs (some a)).filter (isChildB c)).length
  | 0, a => by simp [subNamesDeep]
  | f + 1, a => by
    rw [count_subNamesDeep_succ, children_snoc, List.count_append, count_new_children hF a,
      List.map_append, List.sum_append]
    have hS : ((if isChildB c a then [c.name] else []).map
        (fun m => List.count c.name (subNamesDeep f (cs ++ [c]) (some m)))).sum = 0 := by
      split
      · simp [subNamesDeep_last hF f]
      · simp
    have hE : List.count c.name (if isChildB c a then [c.name] else []) = (if isChildB c a then 1 else 0) := by
      split <;> simp
    rw [hS, hE]
    have hK : ((subNamesDeep (f + 1) cs (some a)).filter (isChildB c)).length =
        ((children cs (some a)).map (fun m => (if isChildB c m then 1 else 0) +
          ((subNamesDeep f cs (some m)).filter (isChildB c)).length)).sum := by
      rw [sum_map_add]
      simp only [subNamesDeep, List.filter_append, List.length_append, filter_flatten_length,
        List.map_map, filter_length_sum (children cs (some a))]
      rfl
    have hle := sum_map_le (l := children cs (some a))
      (f := fun m => List.count c.name (subNamesDeep f (cs ++ [c]) (some m)))
      (g := fun m => (if isChildB c m then 1 else 0) + ((subNamesDeep f cs (some m)).filter (isChildB c)).length)
      (fun m _ => count_new f m)
    omega

end snoc

/-- **the deep enumeration of a forest never lists a class twice** -/
theorem subNamesDeep_nodup {cs : List Cls} (hf : Forest cs) :
    ∀ (f : Nat) (a : Name), (subNamesDeep f cs (some a)).Nodup := by
  induction hf with
  | nil => intro f a; cases f <;> simp [subNamesDeep, children]
  | @snoc cs c hf hfr hp ih =>
    have hF : Forest (cs ++ [c]) := .snoc hf hfr hp
    intro f a
    rw [List.nodup_iff_count]
    intro x
    by_cases hx : x = c.name
    · subst hx
      have h1 := count_new hF f a
      -- at most one enumerated class can be c's superclass, and none if `a` itself is
      have hstored : ∀ m ∈ subNamesDeep f cs (some a), isChildB c m = true →
          ∃ q ∈ cs, q.name = m ∧ Spec.Desc cs m a := by
        intro m hm _
        have hd := subNamesDeep_sound hm
        obtain ⟨q, hq, hqn⟩ := desc_is_stored hd
        exact ⟨q, hq, hqn, hd⟩
      have hone : ((subNamesDeep f cs (some a)).filter (isChildB c)).length ≤ 1 := by
        apply filter_length_le_one (ih f a)
        intro m1 hm1 m2 hm2 h1 h2
        obtain ⟨q1, hq1, rfl, _⟩ := hstored m1 hm1 h1
        obtain ⟨q2, hq2, rfl, _⟩ := hstored m2 hm2 h2
        obtain ⟨s1, hs1, _, hi1⟩ := isChildB_iff.mp h1
        obtain ⟨s2, hs2, _, hi2⟩ := isChildB_iff.mp h2
        rw [hs1] at hs2; cases hs2
        rw [forest_unique hf q1 hq1 q2 hq2 (ieq_trans (ieq_symm hi1) hi2)]
      by_cases hca : isChildB c a = true
      · have hzero : ((subNamesDeep f cs (some a)).filter (isChildB c)).length = 0 := by
          rw [List.length_eq_zero_iff, List.filter_eq_nil_iff]
          intro m hm hcm
          obtain ⟨q, hq, rfl, hd⟩ := hstored m hm hcm
          obtain ⟨s1, hs1, _, hi1⟩ := isChildB_iff.mp hca
          obtain ⟨s2, hs2, _, hi2⟩ := isChildB_iff.mp hcm
          rw [hs1] at hs2; cases hs2
          exact forest_acyclic hf q hq (desc_congr_right (ieq_trans (ieq_symm hi1) hi2) hd)
        simp [hca, hzero] at h1; exact h1
      · simp [hca] at h1; omega
    · rw [count_old hF x hx f a]
      exact List.nodup_iff_count.mp (ih f a) x


/-! ### the stores hold dictionaries: keys pairwise different (up to case) -/

def KeysQ (qs : List Qual) : Prop := List.Pairwise (fun a b => ieq a.name b.name = false) qs

def KeysE (es : List Elem) : Prop :=
  List.Pairwise (fun a b => ieq a.name b.name = false) es ∧ ∀ e ∈ es, KeysQ e.quals

/-- a class whose qualifier, property and method dictionaries (and the qualifier dictionaries of its
    properties and methods) have pairwise different keys — what a CIMClass object is -/
def ClsKeys (c : Cls) : Prop := KeysQ c.quals ∧ KeysE c.props ∧ KeysE c.meths

/-- the qualifiers of one resolved own element -/
theorem resolveElem_quals {decls : List QDecl} {n : Name} {supE : List Elem} {e e' : Elem}
    (h : resolveElem decls n supE e = .ok e') :
    resolveQuals decls e.quals [] false = .ok e'.quals ∨
    ∃ s ∈ supE, resolveQuals decls e.quals s.quals true = .ok e'.quals := by
  unfold resolveElem at h
  by_cases h1 : hasElem supE e.name = true
  · simp only [h1] at h
    by_cases h2 : hasQual e.quals nOverride = true
    · simp only [h2] at h
      simp at h
      split at h
      · simp at h
      · cases hk : keyOfVal (overrideVal e.quals) with
        | error err => simp [hk] at h
        | ok oname =>
          simp only [hk] at h
          cases hfs : findElem supE oname with
          | none => simp [hfs] at h
          | some s =>
            simp only [hfs] at h
            split at h
            · simp at h
            · cases hs : setNewElem decls n e (some s) with
              | error err => simp [hs] at h
              | ok e1 =>
                simp only [hs] at h
                obtain ⟨_, _, _, _, _, _, hq⟩ := setNewElem_ok hs
                have hsm := (findElem_some hfs).1
                split at h
                · cases hps : resolveParams decls e1.params ((findElem supE e.name).map (·.params) |>.getD []) with
                  | error err => simp [hps] at h
                  | ok ps =>
                    simp [hps] at h; subst h
                    exact Or.inr ⟨s, hsm, hq⟩
                · simp at h; subst h
                  exact Or.inr ⟨s, hsm, hq⟩
    · simp [h2] at h
  · simp only [h1] at h
    simp at h
    obtain ⟨_, _, _, _, _, _, hq⟩ := setNewElem_ok h
    exact Or.inl hq

theorem keysQ_init {decls : List QDecl} {own r : List Qual} (hk : KeysQ own)
    (h : resolveQuals decls own [] false = .ok r) : KeysQ r := by
  simp only [resolveQuals] at h
  have hn : r.map lname = own.map lname :=
    mapE_ok_map lname lname (fun a b hab => by simp [lname, (initQual_name hab).1]) h
  exact pairwise_of_lnames own r hn.symm hk

theorem pairwise_lname_iff (l : List Qual) :
    List.Pairwise (fun a b => ieq a.name b.name = false) l ↔ (l.map lname).Nodup := by
  rw [List.Nodup, List.pairwise_map]
  apply List.Pairwise.iff
  intro a b
  simp [ieq, lname]

theorem keysQ_override {decls : List QDecl} {own inh r : List Qual} (hko : KeysQ own) (hki : KeysQ inh)
    (h : resolveQuals decls own inh true = .ok r) : KeysQ r := by
  have hl := resolveQuals_override_lnames hki h
  unfold KeysQ at *
  rw [pairwise_lname_iff] at hko hki ⊢
  rw [hl, List.nodup_append]
  refine ⟨hko, ?_, ?_⟩
  · unfold Spec.inheritedQuals
    exact List.Nodup.sublist (List.Sublist.map _ List.filter_sublist) hki
  · intro a ha b hb hab
    subst hab
    obtain ⟨q, hq, rfl⟩ := List.mem_map.mp hb
    unfold Spec.inheritedQuals at hq
    obtain ⟨_, hq2⟩ := List.mem_filter.mp hq
    simp only [Bool.and_eq_true, Bool.not_eq_true'] at hq2
    rw [hasQual_eq_lnames] at hq2
    have : (own.map lname).contains (lower q.name) = true := by
      simp only [List.contains_eq_any_beq, List.any_eq_true]
      exact ⟨lname q, ha, by simp [lname]⟩
    rw [this] at hq2; simp at hq2

theorem keysQ_copy {qs : List Qual} (h : KeysQ qs) : KeysQ (copyQuals qs) := by
  unfold KeysQ copyQuals at *
  rw [List.pairwise_map]
  exact List.Pairwise.sublist List.filter_sublist h

theorem keysE_resolve {decls : List QDecl} {n : Name} {own r : List Elem} {sup : Option (List Elem)}
    (hko : KeysE own) (hks : ∀ se, sup = some se → KeysE se)
    (h : resolveElems decls n own sup = .ok r) : KeysE r := by
  unfold resolveElems at h
  cases sup with
  | none =>
    simp only at h
    have hn : r.map (·.name) = own.map (·.name) :=
      mapE_ok_map (·.name) (·.name) (fun a b hab => (setNewElem_ok hab).1) h
    refine ⟨?_, ?_⟩
    · have h1 : List.Pairwise (fun a b => ieq a b = false) (own.map (·.name)) := by
        rw [List.pairwise_map]; exact hko.1
      rw [← hn, List.pairwise_map] at h1; exact h1
    · intro e he
      obtain ⟨d, hd, hde⟩ := mapE_ok_mem h e he
      obtain ⟨_, _, _, _, _, _, hq⟩ := setNewElem_ok hde
      exact keysQ_init (hko.2 d hd) hq
  | some se =>
    have hkse := hks se rfl
    simp only at h
    cases hm : mapE (resolveElem decls n se) own with
    | error e => simp [hm] at h
    | ok es =>
      simp [hm] at h; subst h
      have hn : es.map (·.name) = own.map (·.name) :=
        mapE_ok_map (·.name) (·.name) (fun a b hab => (resolveElem_ok hab).1) hm
      refine ⟨?_, ?_⟩
      · rw [List.pairwise_append]
        refine ⟨?_, ?_, ?_⟩
        · have h1 : List.Pairwise (fun a b => ieq a b = false) (own.map (·.name)) := by
            rw [List.pairwise_map]; exact hko.1
          rw [← hn, List.pairwise_map] at h1; exact h1
        · rw [List.pairwise_map]
          exact List.Pairwise.sublist List.filter_sublist (by simpa [copyElem] using hkse.1)
        · intro a ha b hb
          obtain ⟨p, hp, rfl⟩ := List.mem_map.mp hb
          obtain ⟨_, hp2⟩ := List.mem_filter.mp hp
          have hnot : hasElem own p.name = false := by simpa using hp2
          -- a's name is the name of an own element
          have : a.name ∈ own.map (·.name) := by rw [← hn]; exact List.mem_map.mpr ⟨a, ha, rfl⟩
          obtain ⟨d, hd, hdn⟩ := List.mem_map.mp this
          have hdp : ieq d.name p.name = false := by
            simp only [hasElem, List.any_eq_false] at hnot
            simpa using hnot d hd
          simp only [copyElem]
          rw [← hdn]; exact hdp
      · intro e he
        rcases List.mem_append.mp he with he | he
        · obtain ⟨d, hd, hde⟩ := mapE_ok_mem hm e he
          rcases resolveElem_quals hde with hq | ⟨s, hs, hq⟩
          · exact keysQ_init (hko.2 d hd) hq
          · exact keysQ_override (hko.2 d hd) (hkse.2 s hs) hq
        · obtain ⟨p, hp, rfl⟩ := List.mem_map.mp he
          exact keysQ_copy (hkse.2 p (List.mem_filter.mp hp).1)

theorem clsKeys_resolve {decls : List QDecl} {cs : List Cls} {c r : Cls}
    (hstore : ∀ x ∈ cs, ClsKeys x) (hc : ClsKeys c) (h : resolveClass decls cs c = .ok r) : ClsKeys r := by
  obtain ⟨sup, hfs, hparts⟩ := resolveClass_parts h
  obtain ⟨cq, ps, ms, hq, hp, hm, rfl⟩ := resolveParts_ok hparts
  have hsup : ∀ P, sup = some P → ClsKeys P := by
    intro P hP
    rcases findSuper_cases hfs with ⟨h0, _⟩ | ⟨P', s, h1, hP', _⟩
    · rw [h0] at hP; cases hP
    · rw [h1] at hP; injection hP with hP; subst hP; exact hstore _ hP'
  refine ⟨keysQ_init hc.1 hq, ?_, ?_⟩
  · apply keysE_resolve hc.2.1 _ hp
    intro se hse
    cases sup with
    | none => simp at hse
    | some P => simp at hse; subst hse; exact (hsup P rfl).2.1
  · apply keysE_resolve hc.2.2 _ hm
    intro se hse
    cases sup with
    | none => simp at hse
    | some P => simp at hse; subst hse; exact (hsup P rfl).2.2

/-- every stored class is a proper dictionary structure -/
def StoreKeys (cs : List Cls) : Prop := ∀ x ∈ cs, ClsKeys x

/-- the class objects an operation submits are proper dictionary structures (they are CIMClass
    objects: NocaseDicts) -/
def OpKeys : Op → Prop
  | .create c => ClsKeys c
  | .add c => ClsKeys c
  | .modify c => ClsKeys c
  | .mofCreate c => ClsKeys c
  | _ => True

theorem storeKeys_step {s : State} (hk : StoreKeys s.classes) (op : Op) (hop : OpKeys op) :
    StoreKeys (step s op).1.classes := by
  have happ : ∀ {c r : Cls}, ClsKeys c → resolveClass s.decls s.classes c = .ok r →
      StoreKeys (s.classes ++ [r]) := by
    intro c r hc hr x hx
    simp at hx
    rcases hx with hx | rfl
    · exact hk x hx
    · exact clsKeys_resolve hk hc hr
  cases op with
  | create c =>
    simp only [step]
    cases h : createClass s c with
    | error e => exact hk
    | ok s' => obtain ⟨r, hr, rfl, _⟩ := createClass_ok h; exact happ hop hr
  | add c =>
    simp only [step]
    cases h : addClass s c with
    | error e => exact hk
    | ok s' => obtain ⟨r, hr, rfl, _⟩ := addClass_ok h; exact happ hop hr
  | mofCreate c =>
    simp only [step]
    cases h : mofCreateClass s c with
    | error e => exact hk
    | ok s' => obtain ⟨r, hr, rfl, _⟩ := createClass_ok (mofCreateClass_ok h); exact happ hop hr
  | modify c =>
    simp only [step]
    cases h : modifyClass s c with
    | error e => exact hk
    | ok s' =>
      obtain ⟨orig, r, _, hr, rfl, _⟩ := modifyClass_ok h
      intro x hx
      simp only [replaceClass, List.mem_map] at hx
      obtain ⟨y, hy, rfl⟩ := hx
      by_cases hm : ieq y.name r.name = true
      · simp [hm]; exact clsKeys_resolve hk hop hr
      · simp [hm]; exact hk y hy
  | delete n =>
    simp only [step]
    cases h : deleteClass s n with
    | error e => exact hk
    | ok s' =>
      obtain ⟨_, hc, _, _⟩ := deleteClass_ok h
      show StoreKeys s'.classes
      rw [hc]; intro x hx; exact hk x (List.mem_filter.mp hx).1
  | addDecl d =>
    simp only [step]
    cases h : addDecl s d with
    | error e => exact hk
    | ok s' => rw [addDecl_ok h]; exact hk
  | get n f => simp only [step]; split <;> exact hk
  | enumNames cn d => simp only [step]; split <;> exact hk
  | enumClasses cn d f => simp only [step]; split <;> exact hk
  | supers n => simp only [step]; split <;> exact hk
  | addInst i =>
    simp only [step]
    cases h : addInstance s i with
    | error e => exact hk
    | ok s' => rw [(addInstance_ok h).1]; exact hk
  | enumInsts n => simp only [step]; split <;> exact hk
  | isSub k sup => simp only [step]; split <;> exact hk

theorem storeKeys_run : ∀ (ops : List Op) {s : State}, StoreKeys s.classes → (∀ op ∈ ops, OpKeys op) →
    StoreKeys (run s ops).1.classes
  | [], s, hk, _ => hk
  | op :: ops, s, hk, hall => by
    simp only [run]
    exact storeKeys_run ops (storeKeys_step hk op (hall op (by simp))) (fun o ho => hall o (by simp [ho]))


/-! ### EnumerateClassNames() without class name lists every class once -/

theorem roots_snoc (cs : List Cls) (c : Cls) :
    children (cs ++ [c]) none = children cs none ++ (if c.super.isNone then [c.name] else []) := by
  simp only [children, List.filter_append, List.map_append]
  congr 1
  by_cases h : c.super.isNone = true <;> simp [h]

theorem count_all_succ (cs : List Cls) (f : Nat) (x : Name) :
    List.count x (subNamesDeep (f + 1) cs none) =
      List.count x (children cs none) +
        ((children cs none).map (fun m => List.count x (subNamesDeep f cs (some m)))).sum := by
  simp only [subNamesDeep, List.count_append, List.count_flatten, List.map_map]
  rfl

theorem all_nodup {cs : List Cls} (hf : Forest cs) : ∀ f, (subNamesDeep (f + 1) cs none).Nodup := by
  induction hf with
  | nil => intro f; simp [subNamesDeep, children]
  | @snoc cs c hf hfr hp ih =>
    have hF : Forest (cs ++ [c]) := .snoc hf hfr hp
    intro f
    rw [List.nodup_iff_count]
    intro x
    have hrootmem : ∀ m ∈ children cs none, ∃ q ∈ cs, q.name = m := by
      intro m hm
      obtain ⟨q, hq, hqn, _⟩ := mem_children_none.mp hm
      exact ⟨q, hq, hqn⟩
    rw [count_all_succ, roots_snoc, List.count_append, List.map_append, List.sum_append]
    have hS : ∀ y, ((if c.super.isNone then [c.name] else []).map
        (fun m => List.count y (subNamesDeep f (cs ++ [c]) (some m)))).sum = 0 := by
      intro y; split
      · simp [subNamesDeep_last hF f]
      · simp
    rw [hS x]
    by_cases hx : x = c.name
    · subst hx
      have h0 : List.count c.name (children cs none) = 0 := by
        apply List.count_eq_zero.mpr
        intro h
        obtain ⟨q, hq, hqn⟩ := hrootmem _ h
        exact name_fresh hF q hq hqn
      have hE : List.count c.name (if c.super.isNone then [c.name] else []) =
          (if c.super.isNone then 1 else 0) := by split <;> simp
      rw [h0, hE]
      have hle := sum_map_le (l := children cs none)
        (f := fun m => List.count c.name (subNamesDeep f (cs ++ [c]) (some m)))
        (g := fun m => (if isChildB c m then 1 else 0) + ((subNamesDeep f cs (some m)).filter (isChildB c)).length)
        (fun m _ => count_new hF f m)
      have hK : ((subNamesDeep (f + 1) cs none).filter (isChildB c)).length =
          ((children cs none).map (fun m => (if isChildB c m then 1 else 0) +
            ((subNamesDeep f cs (some m)).filter (isChildB c)).length)).sum := by
        rw [sum_map_add]
        simp only [subNamesDeep, List.filter_append, List.length_append, filter_flatten_length,
          List.map_map, filter_length_sum (children cs none)]
        rfl
      by_cases hroot : c.super.isNone = true
      · -- a root has no superclass: nothing enumerated can be its superclass
        have hz : ((subNamesDeep (f + 1) cs none).filter (isChildB c)).length = 0 := by
          rw [List.length_eq_zero_iff, List.filter_eq_nil_iff]
          intro m _
          have : c.super = none := by simpa using hroot
          simp [isChildB, this]
        simp [hroot]; omega
      · have hone : ((subNamesDeep (f + 1) cs none).filter (isChildB c)).length ≤ 1 := by
          apply filter_length_le_one (ih f)
          intro m1 hm1 m2 hm2 h1 h2
          have stored : ∀ m ∈ subNamesDeep (f + 1) cs none, ∃ q ∈ cs, q.name = m := by
            intro m hm
            simp only [subNamesDeep, List.mem_append, List.mem_flatten, List.mem_map] at hm
            rcases hm with hm | ⟨l, ⟨r, _, rfl⟩, hm⟩
            · exact hrootmem m hm
            · obtain ⟨q, hq, hqn⟩ := desc_is_stored (subNamesDeep_sound hm); exact ⟨q, hq, hqn⟩
          obtain ⟨q1, hq1, rfl⟩ := stored m1 hm1
          obtain ⟨q2, hq2, rfl⟩ := stored m2 hm2
          obtain ⟨s1, hs1, _, hi1⟩ := isChildB_iff.mp h1
          obtain ⟨s2, hs2, _, hi2⟩ := isChildB_iff.mp h2
          rw [hs1] at hs2; cases hs2
          rw [forest_unique hf q1 hq1 q2 hq2 (ieq_trans (ieq_symm hi1) hi2)]
        simp [hroot]; omega
    · have hE : List.count x (if c.super.isNone then [c.name] else []) = 0 := by
        split
        · simp [List.count_cons]; intro h; exact hx h.symm
        · simp
      rw [hE]
      have := List.nodup_iff_count.mp (ih f) x
      rw [count_all_succ] at this
      rw [sum_map_congr (fun m _ => count_old hF x hx f m)]
      omega

/-! ### stored instances are pairwise different -/

/-- no two stored instances have the same path (class name up to case, key) -/
def InstsUnique (l : List Inst) : Prop :=
  List.Pairwise (fun a b => (ieq a.cls b.cls && a.key == b.key) = false) l

theorem instsUnique_step {s : State} (hu : InstsUnique s.insts) (op : Op) : InstsUnique (step s op).1.insts := by
  cases op with
  | addInst i =>
    simp only [step]
    cases h : addInstance s i with
    | error e => exact hu
    | ok s' =>
      obtain ⟨rfl, hnew⟩ := addInstance_ok h
      show List.Pairwise _ (s.insts ++ [i])
      rw [List.pairwise_append]
      refine ⟨hu, by simp, ?_⟩
      intro a ha b hb
      simp at hb; subst hb
      exact hnew a ha
  | create c =>
    simp only [step]
    cases h : createClass s c with
    | error e => exact hu
    | ok s' => obtain ⟨r, _, rfl, _⟩ := createClass_ok h; exact hu
  | add c =>
    simp only [step]
    cases h : addClass s c with
    | error e => exact hu
    | ok s' => obtain ⟨r, _, rfl, _⟩ := addClass_ok h; exact hu
  | mofCreate c =>
    simp only [step]
    cases h : mofCreateClass s c with
    | error e => exact hu
    | ok s' => obtain ⟨r, _, rfl, _⟩ := createClass_ok (mofCreateClass_ok h); exact hu
  | modify c =>
    simp only [step]
    cases h : modifyClass s c with
    | error e => exact hu
    | ok s' => obtain ⟨_, r, _, _, rfl, _⟩ := modifyClass_ok h; exact hu
  | delete n =>
    simp only [step]
    cases h : deleteClass s n with
    | error e => exact hu
    | ok s' =>
      obtain ⟨_, _, hi, _⟩ := deleteClass_ok h
      show InstsUnique s'.insts
      rw [hi]; exact List.Pairwise.sublist List.filter_sublist hu
  | addDecl d =>
    simp only [step]
    cases h : addDecl s d with
    | error e => exact hu
    | ok s' => rw [addDecl_ok h]; exact hu
  | get n f => simp only [step]; split <;> exact hu
  | enumNames cn d => simp only [step]; split <;> exact hu
  | enumClasses cn d f => simp only [step]; split <;> exact hu
  | supers n => simp only [step]; split <;> exact hu
  | enumInsts n => simp only [step]; split <;> exact hu
  | isSub k sup => simp only [step]; split <;> exact hu

theorem instsUnique_run : ∀ (ops : List Op) {s : State}, InstsUnique s.insts → InstsUnique (run s ops).1.insts
  | [], s, h => h
  | op :: ops, s, h => by simp only [run]; exact instsUnique_run ops (instsUnique_step h op)

theorem reachable_instsUnique {s : State} (h : Reachable s) : InstsUnique s.insts := by
  obtain ⟨decls, ops, rfl⟩ := h
  exact instsUnique_run ops (by simp [InstsUnique])


/-! ### the own entries of an overriding element's qualifier dictionary, exactly -/

/-- some qualifier of `l` with q's key is ToSubclass and not overridable: the own declaration merely
    repeats it (the code then marks the own entry propagated) -/
def MarkedBy (l : List Qual) (q : Qual) : Prop :=
  ∃ i ∈ l, ieq i.name q.name = true ∧ truthy i.tosub = true ∧ truthy i.overr = false

/-- the entry the resolved dictionary must hold for the own qualifier `q`, given the inherited
    qualifiers `src` processed so far -/
def OwnEntry (decls : List QDecl) (src cur : List Qual) (q : Qual) : Prop :=
  ∃ q0, initQual decls q = .ok q0 ∧
    (MarkedBy src q → { q0 with propagated := some true } ∈ cur) ∧ (¬ MarkedBy src q → q0 ∈ cur)

/-- per own qualifier: still waiting for its inherited counterpart, or resolved -/
def OwnState (decls : List QDecl) (done rest cur : List Qual) (q : Qual) : Prop :=
  (q ∈ cur ∧ hasQual rest q.name = true ∧ ∀ i ∈ done, ieq i.name q.name = false) ∨
  (OwnEntry decls done cur q ∧ ∀ i ∈ rest, ieq i.name q.name = false)

theorem mem_setQual_other {cur : List Qual} {x' y : Qual} (hy : y ∈ cur) (hne : ieq y.name x'.name = false) :
    y ∈ setQual cur x' := by
  simp only [setQual, List.mem_map]
  exact ⟨y, hy, by simp [hne]⟩

theorem mem_setQual_self {cur : List Qual} {x x' : Qual} (hx : x ∈ cur) (hn : ieq x.name x'.name = true) :
    x' ∈ setQual cur x' := by
  simp only [setQual, List.mem_map]
  exact ⟨x, hx, by simp [hn]⟩

theorem markedBy_snoc_other {done : List Qual} {inh q : Qual} (h : ieq inh.name q.name = false) :
    MarkedBy (done ++ [inh]) q ↔ MarkedBy done q := by
  constructor
  · rintro ⟨i, hi, h1, h2, h3⟩
    simp at hi
    rcases hi with hi | rfl
    · exact ⟨i, hi, h1, h2, h3⟩
    · simp [h1] at h
  · rintro ⟨i, hi, rest⟩; exact ⟨i, by simp [hi], rest⟩

theorem initQual_name' {decls : List QDecl} {q q0 : Qual} (h : initQual decls q = .ok q0) : q0.name = q.name :=
  (initQual_name h).1

theorem inheritStep_own {decls : List QDecl} {done rest cur cur' : List Qual} {inh : Qual}
    (h : inheritStep decls cur inh = .ok cur')
    (hpc : List.Pairwise (fun a b => ieq a.name b.name = false) cur)
    (hdone : ∀ i ∈ done, ieq i.name inh.name = false)
    (hrest : ∀ i ∈ rest, ieq inh.name i.name = false)
    {q : Qual} (hq : OwnState decls done (inh :: rest) cur q) :
    OwnState decls (done ++ [inh]) rest cur' q := by
  -- two entries of `cur` with the same key are the same entry
  have uniq : ∀ a ∈ cur, ∀ b ∈ cur, ieq a.name b.name = true → a = b := by
    intro a ha b hb hab
    apply Classical.byContradiction
    intro hne
    rcases List.mem_iff_append.mp ha with ⟨l1, l2, rfl⟩
    simp only [List.mem_append, List.mem_cons] at hb
    rw [List.pairwise_append] at hpc
    obtain ⟨_, h2, h3⟩ := hpc
    rw [List.pairwise_cons] at h2
    rcases hb with hb | rfl | hb
    · have := h3 b hb a (by simp); simp [ieq_symm hab] at this
    · exact hne rfl
    · have := h2.1 b hb; simp [hab] at this
  by_cases hm : ieq inh.name q.name = true
  · -- q's counterpart is being processed
    rcases hq with ⟨hqc, _, hqd⟩ | ⟨_, hqr⟩
    · have hfind : ∃ x, findQual cur inh.name = some x := by
        cases hf : findQual cur inh.name with
        | some x => exact ⟨x, rfl⟩
        | none =>
          have := hasQual_false_iff'.mp (findQual_none_iff.mp hf) q hqc
          simp [ieq_symm hm] at this
      obtain ⟨x, hf⟩ := hfind
      have hxq : x = q := uniq x (findQual_some_mem hf) q hqc
        (ieq_trans (findQual_some_name hf).1 hm)
      subst hxq
      have hrest' : ∀ i ∈ rest, ieq i.name x.name = false := by
        intro i hi
        have h1 := hrest i hi
        cases hc : ieq i.name x.name with
        | false => rfl
        | true => have := ieq_trans hm (ieq_symm hc); simp [this] at h1
      have hnotdone : ¬ MarkedBy done x := by
        rintro ⟨i, hi, h1, _⟩; have := hqd i hi; simp [h1] at this
      unfold inheritStep at h
      simp only [hf] at h
      refine Or.inr ⟨?_, hrest'⟩
      split at h
      · rename_i hts
        split at h
        · rename_i hov
          cases hi : initQual decls x with
          | error e => simp [hi] at h
          | ok x0 =>
            simp only [hi] at h; injection h with h; subst h
            have hx0 : x0 ∈ setQual cur x0 := mem_setQual_self hqc (by rw [initQual_name' hi]; exact ieq_refl _)
            refine ⟨x0, hi, ?_, fun _ => hx0⟩
            rintro ⟨i, hi', h1, h2, h3⟩
            simp at hi'
            rcases hi' with hi' | rfl
            · exact absurd ⟨i, hi', h1, h2, h3⟩ hnotdone
            · simp [hov] at h3
        · rename_i hov
          split at h
          · simp at h
          · cases hi : initQual decls x with
            | error e => simp [hi] at h
            | ok x0 =>
              simp only [hi] at h; injection h with h; subst h
              have hx0 : ({ x0 with propagated := some true } : Qual) ∈
                  setQual cur { x0 with propagated := some true } :=
                mem_setQual_self hqc (by simp [initQual_name' hi]; exact ieq_refl _)
              refine ⟨x0, hi, fun _ => hx0, ?_⟩
              intro hnm
              exact absurd ⟨inh, by simp, hm, hts, by simpa using hov⟩ hnm
      · rename_i hts
        split at h
        · cases hi : initQual decls x with
          | error e => simp [hi] at h
          | ok x0 =>
            simp only [hi] at h; injection h with h; subst h
            have hx0 : x0 ∈ setQual cur x0 := mem_setQual_self hqc (by rw [initQual_name' hi]; exact ieq_refl _)
            refine ⟨x0, hi, ?_, fun _ => hx0⟩
            rintro ⟨i, hi', h1, h2, h3⟩
            simp at hi'
            rcases hi' with hi' | rfl
            · exact absurd ⟨i, hi', h1, h2, h3⟩ hnotdone
            · exact absurd h2 hts
        · simp at h
    · have := hqr inh (by simp); simp [hm] at this
  · -- another key: q's entry is not touched
    have hm' : ieq inh.name q.name = false := by simpa using hm
    have keep : ∀ y ∈ cur, ieq y.name q.name = true → y ∈ cur' := by
      intro y hy hyq
      unfold inheritStep at h
      cases hf : findQual cur inh.name with
      | none =>
        simp only [hf] at h
        split at h
        · injection h with h; subst h; simp [hy]
        · injection h with h; subst h; exact hy
      | some x =>
        have hxi := (findQual_some_name hf).1
        have hne : ∀ x' : Qual, x'.name = x.name → ieq y.name x'.name = false := by
          intro x' hn
          cases hc : ieq y.name x'.name with
          | false => rfl
          | true =>
            rw [hn] at hc
            have := ieq_trans (ieq_symm hxi) (ieq_trans (ieq_symm hc) hyq)
            simp [this] at hm'
        simp only [hf] at h
        have key : ∀ x' : Qual, x'.name = x.name →
            .ok (setQual cur x') = (Except.ok cur' : Except PyExc (List Qual)) → y ∈ cur' := by
          intro x' hn hq'; injection hq' with hq'; subst hq'
          exact mem_setQual_other hy (hne x' hn)
        split at h
        · split at h
          · cases hi : initQual decls x with
            | error e => simp [hi] at h
            | ok x0 => simp only [hi] at h; exact key x0 (initQual_name' hi) h
          · split at h
            · simp at h
            · cases hi : initQual decls x with
              | error e => simp [hi] at h
              | ok x0 =>
                simp only [hi] at h
                exact key { x0 with propagated := some true } (by simp [initQual_name' hi]) h
        · split at h
          · cases hi : initQual decls x with
            | error e => simp [hi] at h
            | ok x0 => simp only [hi] at h; exact key x0 (initQual_name' hi) h
          · simp at h
    rcases hq with ⟨hqc, hqh, hqd⟩ | ⟨⟨q0, hq0, hmk, hnmk⟩, hqr⟩
    · refine Or.inl ⟨keep q hqc (ieq_refl _), ?_, ?_⟩
      · simp only [hasQual, List.any_cons, Bool.or_eq_true] at hqh
        rcases hqh with hqh | hqh
        · simp [hm'] at hqh
        · simpa [hasQual] using hqh
      · intro i hi
        simp at hi
        rcases hi with hi | rfl
        · exact hqd i hi
        · exact hm'
    · refine Or.inr ⟨⟨q0, hq0, ?_, ?_⟩, fun i hi => hqr i (by simp [hi])⟩
      · intro hmark
        exact keep _ (hmk ((markedBy_snoc_other hm').mp hmark)) (by simp [initQual_name' hq0]; exact ieq_refl _)
      · intro hnmark
        exact keep _ (hnmk (fun h' => hnmark ((markedBy_snoc_other hm').mpr h')))
          (by rw [initQual_name' hq0]; exact ieq_refl _)

theorem inheritFold_own {decls : List QDecl} {own : List Qual} :
    ∀ (rest done cur r : List Qual), foldE (inheritStep decls) cur rest = .ok r →
      List.Pairwise (fun a b => ieq a.name b.name = false) (done ++ rest) →
      List.Pairwise (fun a b => ieq a.name b.name = false) cur → (∀ q ∈ own, Holds cur q) →
      (∀ q ∈ own, OwnState decls done rest cur q) → ∀ q ∈ own, OwnEntry decls (done ++ rest) r q
  | [], done, cur, r, h, _, _, _, hst => by
    simp [foldE] at h; subst h
    intro q hq
    rcases hst q hq with ⟨_, hh, _⟩ | ⟨he, _⟩
    · simp [hasQual] at hh
    · simpa using he
  | inh :: rest, done, cur, r, h, hpw, hpc, hown, hst => by
    simp only [foldE] at h
    cases hs : inheritStep decls cur inh with
    | error e => simp [hs] at h
    | ok cur' =>
      simp only [hs] at h
      rw [List.pairwise_append] at hpw
      obtain ⟨_, hp2, hp3⟩ := hpw
      rw [List.pairwise_cons] at hp2
      have hdone : ∀ i ∈ done, ieq i.name inh.name = false := fun i hi => hp3 i hi inh (by simp)
      obtain ⟨hpc', hown'⟩ := inheritStep_inv hs hpc hown
      have hst' : ∀ q ∈ own, OwnState decls (done ++ [inh]) rest cur' q :=
        fun q hq => inheritStep_own hs hpc hdone hp2.1 (hst q hq)
      have hpw' : List.Pairwise (fun a b => ieq a.name b.name = false) ((done ++ [inh]) ++ rest) := by
        rw [List.append_assoc, List.pairwise_append]
        exact ⟨by assumption, by simpa using hp2, hp3⟩
      have := inheritFold_own rest (done ++ [inh]) cur' r h hpw' hpc' hown' hst'
      simpa using this

/-- **the own entries of an overriding element's qualifier dictionary, exactly**: for every own
    qualifier `q` the resolved dictionary holds `_init_qualifier(q)` (flavors: own value, else
    declaration, else True; propagated = False) — with propagated = True instead exactly when the
    overridden element carries a ToSubclass, non-overridable qualifier of that name (which `q` may
    only repeat) -/
theorem resolveQuals_own_exact {decls : List QDecl} {own inh r : List Qual}
    (hpo : List.Pairwise (fun a b => ieq a.name b.name = false) own)
    (hpi : List.Pairwise (fun a b => ieq a.name b.name = false) inh)
    (h : resolveQuals decls own inh true = .ok r) : ∀ q ∈ own, OwnEntry decls inh r q := by
  unfold resolveQuals at h
  simp only [Bool.not_true, Bool.false_eq_true, if_false] at h
  cases h1 : mapE (fun q => if hasQual inh q.name then .ok q else initQual decls q) own with
  | error e => simp [h1] at h
  | ok q1 =>
    simp only [h1] at h
    have hn : q1.map lname = own.map lname := by
      apply mapE_ok_map lname lname _ h1
      intro a b hab
      by_cases hq : hasQual inh a.name = true
      · simp [hq] at hab; subst hab; rfl
      · simp [hq] at hab; simp [lname, (initQual_name hab).1]
    have hpw1 := pairwise_of_lnames own q1 hn.symm hpo
    have hown1 : ∀ q ∈ own, Holds q1 q := by
      intro q hq
      obtain ⟨b, hb, hfb⟩ := mapE_ok_fwd h1 q hq
      by_cases hq' : hasQual inh q.name = true
      · simp [hq'] at hfb; subst hfb; exact ⟨q, hb, ieq_refl _, rfl, rfl⟩
      · simp [hq'] at hfb
        obtain ⟨a1, a2, a3⟩ := initQual_val hfb
        exact ⟨b, hb, by rw [a1]; exact ieq_refl _, a2, a3⟩
    have hst1 : ∀ q ∈ own, OwnState decls [] inh q1 q := by
      intro q hq
      obtain ⟨b, hb, hfb⟩ := mapE_ok_fwd h1 q hq
      by_cases hq' : hasQual inh q.name = true
      · simp [hq'] at hfb; subst hfb
        exact Or.inl ⟨hb, hq', by simp⟩
      · simp [hq'] at hfb
        refine Or.inr ⟨⟨b, hfb, ?_, fun _ => hb⟩, ?_⟩
        · rintro ⟨i, hi, _⟩; simp at hi
        · have := hasQual_false_iff'.mp (by simpa using hq')
          exact this
    have := inheritFold_own inh [] q1 r h (by simpa using hpi) hpw1 hown1 hst1
    simpa using this


/-! ### parameters of an overriding method -/

/-- what `_resolve_objects` (type_str = "Parameter") does with one declared parameter -/
theorem resolveParam_ok {decls : List QDecl} {supP : List Param} {p p' : Param}
    (h : resolveParam decls supP p = .ok p') :
    p'.name = p.name ∧ p'.ty = p.ty ∧ p'.isArr = p.isArr ∧ p'.arrSize = p.arrSize ∧ p'.emb = p.emb ∧
    p'.refcls = p.refcls ∧
    ((hasParam supP p.name = false ∧ resolveQuals decls p.quals [] false = .ok p'.quals) ∨
     (hasParam supP p.name = true ∧ hasQual p.quals nOverride = false ∧ p' = p) ∨
     (hasParam supP p.name = true ∧ hasQual p.quals nOverride = true ∧
        ∃ oname sp, keyOfVal (overrideVal p.quals) = .ok oname ∧ findParam supP oname = some sp ∧
          sp.ty = p.ty ∧ sp.isArr = p.isArr ∧ sp.arrSize = p.arrSize ∧ sp.emb = p.emb ∧
          resolveQuals decls p.quals sp.quals true = .ok p'.quals)) := by
  unfold resolveParam at h
  by_cases h1 : hasParam supP p.name = true
  · simp only [h1] at h
    by_cases h2 : hasQual p.quals nOverride = true
    · simp only [h2] at h
      simp at h
      split at h
      · simp at h
      · cases hk : keyOfVal (overrideVal p.quals) with
        | error e => simp [hk] at h
        | ok oname =>
          simp only [hk] at h
          cases hf : findParam supP oname with
          | none => simp [hf] at h
          | some sp =>
            simp only [hf] at h
            split at h
            · simp at h
            · rename_i hmm
              cases hq : resolveQuals decls p.quals sp.quals true with
              | error e => simp [hq] at h
              | ok qs =>
                simp [hq] at h; subst h
                simp at hmm
                refine ⟨rfl, rfl, rfl, rfl, rfl, rfl, Or.inr (Or.inr ⟨h1, h2, oname, sp, rfl, hf, ?_⟩)⟩
                exact ⟨hmm.1.1.1, hmm.1.1.2, hmm.1.2, hmm.2, hq⟩
    · simp [h2] at h; subst h
      exact ⟨rfl, rfl, rfl, rfl, rfl, rfl, Or.inr (Or.inl ⟨h1, by simpa using h2, rfl⟩)⟩
  · simp only [h1] at h
    simp at h
    cases hq : resolveQuals decls p.quals [] false with
    | error e => simp [hq] at h
    | ok qs =>
      simp [hq] at h; subst h
      exact ⟨rfl, rfl, rfl, rfl, rfl, rfl, Or.inl ⟨by simpa using h1, rfl⟩⟩

theorem hasParam_eq_any_names (ps : List Param) (n : Name) :
    hasParam ps n = (ps.map (·.name)).any (fun o => ieq o n) := by
  simp [hasParam, List.any_map, Function.comp_def]

theorem resolveParams_names {decls : List QDecl} {newP supP r : List Param}
    (h : resolveParams decls newP supP = .ok r) :
    r.map (·.name) = Spec.exposedNames (newP.map (·.name)) (supP.map (·.name)) := by
  unfold resolveParams at h
  cases hm : mapE (resolveParam decls supP) newP with
  | error e => simp [hm] at h
  | ok ps =>
    simp [hm] at h; subst h
    have h1 : ps.map (·.name) = newP.map (·.name) :=
      mapE_ok_map (·.name) (·.name) (fun a b hab => (resolveParam_ok hab).1) hm
    simp only [Spec.exposedNames, List.map_append, h1, List.map_map]
    congr 1
    rw [List.filter_map]
    try simp only [List.map_map]
    have : ∀ (l : List Param), l.map ((·.name) ∘ copyParam) = l.map (·.name) := by
      intro l; apply List.map_congr_left; intro a _; simp [copyParam]
    rw [this]
    congr 2
    funext s
    simp [hasParam_eq_any_names]

theorem resolveParams_members {decls : List QDecl} {newP supP r : List Param}
    (h : resolveParams decls newP supP = .ok r) :
    ∀ x ∈ r, (∃ p ∈ newP, resolveParam decls supP p = .ok x) ∨
             (∃ sp ∈ supP, hasParam newP sp.name = false ∧ x = copyParam sp) := by
  unfold resolveParams at h
  cases hm : mapE (resolveParam decls supP) newP with
  | error e => simp [hm] at h
  | ok ps =>
    simp [hm] at h; subst h
    intro x hx
    rcases List.mem_append.mp hx with hx | hx
    · obtain ⟨p, hp, hpx⟩ := mapE_ok_mem hm x hx
      exact Or.inl ⟨p, hp, hpx⟩
    · obtain ⟨sp, hsp, rfl⟩ := List.mem_map.mp hx
      obtain ⟨h1, h2⟩ := List.mem_filter.mp hsp
      exact Or.inr ⟨sp, h1, by simpa using h2, rfl⟩

/-- the parameters of a resolved overriding method are the result of `resolveParams` on its declared
    parameters and the parameters of the superclass method of the same name -/
theorem resolveElem_params {decls : List QDecl} {n : Name} {supE : List Elem} {e e' : Elem}
    (h : resolveElem decls n supE e = .ok e') :
    (hasElem supE e.name = false ∧ e'.params = e.params) ∨
    (hasElem supE e.name = true ∧ e.isMeth = false ∧ e'.params = e.params) ∨
    (hasElem supE e.name = true ∧ e.isMeth = true ∧ ∃ s, findElem supE e.name = some s ∧
        resolveParams decls e.params s.params = .ok e'.params) := by
  unfold resolveElem at h
  by_cases h1 : hasElem supE e.name = true
  · simp only [h1] at h
    by_cases h2 : hasQual e.quals nOverride = true
    · simp only [h2] at h
      simp at h
      split at h
      · simp at h
      · cases hk : keyOfVal (overrideVal e.quals) with
        | error err => simp [hk] at h
        | ok oname =>
          simp only [hk] at h
          cases hfs : findElem supE oname with
          | none => simp [hfs] at h
          | some s =>
            simp only [hfs] at h
            split at h
            · simp at h
            · cases hs : setNewElem decls n e (some s) with
              | error err => simp [hs] at h
              | ok e1 =>
                simp only [hs] at h
                obtain ⟨_, _, _, hpar, _⟩ := setNewElem_ok hs
                by_cases hm : e.isMeth = true
                · simp only [hm, if_true] at h
                  -- the class has an element of that name: findElem succeeds
                  have hex : ∃ s2, findElem supE e.name = some s2 := by
                    simp only [hasElem, List.any_eq_true] at h1
                    obtain ⟨x, hx, hxi⟩ := h1
                    cases hf : findElem supE e.name with
                    | some s2 => exact ⟨s2, rfl⟩
                    | none =>
                      unfold findElem at hf
                      have := List.find?_eq_none.mp hf x hx
                      simp [hxi] at this
                  obtain ⟨s2, hs2⟩ := hex
                  simp only [hs2, Option.map_some, Option.getD_some] at h
                  cases hps : resolveParams decls e1.params s2.params with
                  | error err => simp [hps] at h
                  | ok ps =>
                    simp [hps] at h; subst h
                    rw [hpar] at hps
                    exact Or.inr (Or.inr ⟨h1, hm, s2, hs2, hps⟩)
                · simp only [hm] at h
                  simp at h; subst h
                  exact Or.inr (Or.inl ⟨h1, by simpa using hm, hpar⟩)
    · simp [h2] at h
  · simp only [h1] at h
    simp at h
    obtain ⟨_, _, _, hpar, _⟩ := setNewElem_ok h
    exact Or.inl ⟨by simpa using h1, hpar⟩

end Proofs.Resolve
