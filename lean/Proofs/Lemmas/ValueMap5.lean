/-
Helper lemmas for C20, part 6: stack budgets — more frames never change a finished result; length+1 suffice.
-/
import Proofs.Lemmas.ValueMapApi

namespace Proofs.ValueMap
open Pywbem.Proto Pywbem.Model.IntLit Pywbem.Model.ValueMap Pywbem.Model.ValueMap.Spec Proofs.IntLit

/-- a result other than "stack exhausted" -/
def NotRec {α} (x : Except PyExc α) : Prop := x ≠ .error .recursionError

theorem loOpen_stable (T : IntType) (vmap : List Str) (i : Nat) (rec rec' : Rec)
    (h : ∀ j, NotRec (rec j) → rec' j = rec j) (hn : NotRec (loOpen T vmap i rec)) :
    loOpen T vmap i rec' = loOpen T vmap i rec := by
  unfold loOpen at hn ⊢
  by_cases h0 : i = 0
  · simp [h0]
  · simp only [h0, if_false] at hn ⊢
    cases hp : vmap[i - 1]? with
    | none => rfl
    | some p =>
      simp only [hp] at hn ⊢
      by_cases he : endsDots p = true
      · simp [he]
      · simp only [he, if_false] at hn ⊢
        have : NotRec (rec (i - 1)) := by
          intro e; rw [e] at hn; exact hn rfl
        rw [h _ this]

theorem hiOpen_stable (T : IntType) (vmap : List Str) (i : Nat) (rec rec' : Rec)
    (h : ∀ j, NotRec (rec j) → rec' j = rec j) (hn : NotRec (hiOpen T vmap i rec)) :
    hiOpen T vmap i rec' = hiOpen T vmap i rec := by
  unfold hiOpen at hn ⊢
  by_cases h0 : i + 1 = vmap.length
  · simp [h0]
  · simp only [h0, if_false] at hn ⊢
    cases hp : vmap[i + 1]? with
    | none => rfl
    | some p =>
      simp only [hp] at hn ⊢
      by_cases he : startsDots p = true
      · simp [he]
      · simp only [he, if_false] at hn ⊢
        have : NotRec (rec (i + 1)) := by
          intro e; rw [e] at hn; exact hn rfl
        rw [h _ this]

theorem tupleBody_stable (T : IntType) (vmap : List Str) (i : Nat) (rec rec' : Rec)
    (h : ∀ j, NotRec (rec j) → rec' j = rec j) (hn : NotRec (tupleBody T vmap rec i)) :
    tupleBody T vmap rec' i = tupleBody T vmap rec i := by
  unfold tupleBody at hn ⊢
  cases hs : vmap[i]? with
  | none => rfl
  | some s =>
    simp only [hs] at hn ⊢
    cases hm : rangeMatch s with
    | none => rfl
    | some ab =>
      obtain ⟨a, b⟩ := ab
      simp only [hm] at hn ⊢
      have hlo : (if a = [] then loOpen T vmap i rec' else toInt a) = (if a = [] then loOpen T vmap i rec else toInt a) := by
        by_cases ha : a = []
        · simp only [ha, if_true] at hn ⊢
          apply loOpen_stable T vmap i rec rec' h
          intro e; rw [e] at hn; exact hn rfl
        · simp [ha]
      rw [hlo]
      cases h1 : (if a = [] then loOpen T vmap i rec else toInt a) with
      | error e => rfl
      | ok lo =>
        simp only [h1] at hn ⊢
        have hhi : (if b = [] then hiOpen T vmap i rec' else toInt b) = (if b = [] then hiOpen T vmap i rec else toInt b) := by
          by_cases hb : b = []
          · simp only [hb, if_true] at hn ⊢
            apply hiOpen_stable T vmap i rec rec' h
            intro e; rw [e] at hn; exact hn rfl
          · simp [hb]
        rw [hhi]

/-- more stack never changes a result that was not "stack exhausted" -/
theorem valuesTuple_succ_stable (T : IntType) (vmap : List Str) :
    ∀ (f i : Nat), NotRec (valuesTuple T vmap f i) → valuesTuple T vmap (f + 1) i = valuesTuple T vmap f i := by
  intro f
  induction f with
  | zero => intro i hn; exact absurd rfl hn
  | succ f ih =>
    intro i hn
    simp only [valuesTuple] at hn ⊢
    exact tupleBody_stable T vmap i _ _ (fun j hj => ih j hj) hn

theorem valuesTuple_ge_stable (T : IntType) (vmap : List Str) (f i : Nat) (hn : NotRec (valuesTuple T vmap f i))
    (k : Nat) : valuesTuple T vmap (f + k) i = valuesTuple T vmap f i := by
  induction k with
  | zero => rfl
  | succ k ih =>
    rw [show f + (k + 1) = (f + k) + 1 by omega, valuesTuple_succ_stable T vmap (f + k) i (by rw [ih]; exact hn), ih]

/-- **budget independence**: any budget of at least length+1 frames gives the result of length+1 frames -/
theorem valuesTuple_budget (T : IntType) (vmap : List Str) (i budget : Nat) (hb : vmap.length + 1 ≤ budget) :
    valuesTuple T vmap budget i = valuesTuple T vmap (vmap.length + 1) i := by
  have hn : NotRec (valuesTuple T vmap (vmap.length + 1) i) := by
    by_cases hi : i < vmap.length
    · intro e
      have := tuple_okOrModel T vmap i (vmap.length + 1) hi (by omega) _ e
      cases this
    · simp only [valuesTuple, tupleBody]
      rw [List.getElem?_eq_none (by omega)]
      intro e; cases e
  have := valuesTuple_ge_stable T vmap (vmap.length + 1) i hn (budget - (vmap.length + 1))
  rwa [show vmap.length + 1 + (budget - (vmap.length + 1)) = budget by omega] at this

theorem loopB_eq_loop (budget : Nat) (T : IntType) (vmap values : List Str) (hb : vmap.length + 1 ≤ budget) :
    ∀ (rest : List Str) (i : Nat) (vm : VM),
      loopB budget T vmap values i rest vm = Pywbem.Model.ValueMap.loop T vmap values i rest vm := by
  intro rest
  induction rest with
  | nil => intro i vm; rfl
  | cons s rs ih =>
    intro i vm
    simp only [loopB, Pywbem.Model.ValueMap.loop, stepEntry, entAtB, entAt, fuelFor, valuesTuple_budget T vmap i budget hb]
    cases values[i]? with
    | none => rfl
    | some vs =>
      simp only
      by_cases hd : s = ['.', '.']
      · simp only [hd, if_true]; exact ih _ _
      · simp only [hd, if_false]
        cases valuesTuple T vmap (vmap.length + 1) i with
        | error e => rfl
        | ok p => simp only; exact ih _ _

theorem createB_eq_create (budget : Nat) (e : Elem) (vd : Option Str)
    (hb : (effMap e.valuemap (e.values.getD []).length).length + 1 ≤ budget) :
    createB budget e vd = create e vd := by
  unfold createB create
  cases intTypeOf e.typ with
  | none => rfl
  | some T =>
    simp only
    cases hv : e.values with
    | none => rfl
    | some values0 =>
      simp only [hv, Option.getD_some] at hb ⊢
      cases reconcile values0 (effMap e.valuemap values0.length) vd with
      | error x => rfl
      | ok values => simp only; exact loopB_eq_loop budget T _ values hb _ 0 {}

end Proofs.ValueMap
