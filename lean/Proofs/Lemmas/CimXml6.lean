/-
C01 — stage 3c/4: property / instance / class round trips (one level, generic in the embedded-object
parser), then the mutual structural induction over Atom / List Atom / Val / Prop_ / List Prop_ / Inst / Cls
that ties embedded objects off at any nesting depth.
-/
import Proofs.Lemmas.CimXml14

set_option linter.unusedSimpArgs false
set_option linter.unusedVariables false
set_option linter.unusedSectionVars false

namespace Proofs.CimXml
open Pywbem.Model Pywbem.Model.XmlText Pywbem.Proto

def propNames : List String := ["PROPERTY", "PROPERTY.ARRAY", "PROPERTY.REFERENCE"]

section
variable (C : DecCodec) (S : Spec) (hC : CodecOk C S) (emb : Str → R Atom)

theorem encProp_array (name ty : Str) (val : Val) (asz : Option Nat) (refCls origin : Option Str)
    (propagated : Option Bool) (e : Option Str) (quals : List Qual) :
    encProp C.toCodec (.mk name ty val true asz refCls origin propagated e quals) =
      E "PROPERTY.ARRAY" (parrAttrs name ty asz origin e propagated) (encQuals C.toCodec quals ++ encVal C.toCodec val) := by
  simp only [encProp, if_true, parrAttrs]

theorem encProp_ref (name : Str) (val : Val) (asz : Option Nat) (refCls origin : Option Str)
    (propagated : Option Bool) (e : Option Str) (quals : List Qual) :
    encProp C.toCodec (.mk name "reference".toList val false asz refCls origin propagated e quals) =
      E "PROPERTY.REFERENCE" (prefAttrs name refCls origin propagated) (encQuals C.toCodec quals ++ encVal C.toCodec val) := by
  simp only [encProp, Bool.false_eq_true, if_false, if_true, prefAttrs]

theorem encProp_plain (name ty : Str) (val : Val) (asz : Option Nat) (refCls origin : Option Str)
    (propagated : Option Bool) (e : Option Str) (quals : List Qual) (hty : ty ≠ "reference".toList) :
    encProp C.toCodec (.mk name ty val false asz refCls origin propagated e quals) =
      E "PROPERTY" (propAttrs name ty origin propagated e) (encQuals C.toCodec quals ++ encVal C.toCodec val) := by
  simp only [encProp, Bool.false_eq_true, if_false, if_neg hty, propAttrs]

theorem decPropElem_prop (as) (ks : List Xml) :
    decPropElem C emb (E "PROPERTY" as ks) = decProperty C emb (E "PROPERTY" as ks) := by
  unfold decPropElem
  rw [if_pos (name_E _ _ _)]

theorem decPropElem_arr (as) (ks : List Xml) :
    decPropElem C emb (E "PROPERTY.ARRAY" as ks) = decPropertyArray C emb (E "PROPERTY.ARRAY" as ks) := by
  unfold decPropElem
  rw [if_neg (show ¬ (E "PROPERTY.ARRAY" as ks).name = "PROPERTY".toList by rw [name_E]; decide),
    if_pos (name_E _ _ _)]

theorem decPropElem_ref (as) (ks : List Xml) :
    decPropElem C emb (E "PROPERTY.REFERENCE" as ks) = decPropertyReference C (E "PROPERTY.REFERENCE" as ks) := by
  unfold decPropElem
  rw [if_neg (show ¬ (E "PROPERTY.REFERENCE" as ks).name = "PROPERTY".toList by rw [name_E]; decide),
    if_neg (show ¬ (E "PROPERTY.REFERENCE" as ks).name = "PROPERTY.ARRAY".toList by rw [name_E]; decide)]

theorem embVal_null : embVal emb .null = .ok .null := rfl

include hC in
/-- **property round trip, one level**: all three element forms, every attribute combination;
    `hval`: the embedded objects of the value (if EmbeddedObject is set) are re-parsed correctly -/
theorem step_prop (p : Prop_) (h : SendableProp S p)
    (hval : ∀ name ty val isArray asz refCls origin propagated e quals,
      p = .mk name ty val isArray asz refCls origin propagated e quals → e.isSome = true →
      embVal emb (strVal C.toCodec val) = .ok (wdVal C.toCodec val)) :
    decPropElem C emb (encProp C.toCodec p) = .ok (wdProp C.toCodec p) := by
  obtain ⟨name, ty, val, isArray, asz, refCls, origin, propagated, e, quals⟩ := p
  have hval' := hval name ty val isArray asz refCls origin propagated e quals rfl
  obtain ⟨hq, hne, hasz, hrc, hre, hv, hct⟩ := h
  have hAq := allNames_encQuals C quals
  cases isArray with
  | true =>
    have hrc' : refCls = none := hrc (by simp)
    subst hrc'
    rw [encProp_array, decPropElem_arr]
    have hA := allNames_encVal_prop C.toCodec S ty true e.isSome val hv (by simp)
    simp only [if_true] at hA
    have hAll : AllNames (encQuals C.toCodec quals ++ encVal C.toCodec val) ["QUALIFIER", "VALUE.ARRAY"] :=
      allNames_append (allNames_mono hAq (by simp)) (allNames_mono hA (by simp))
    have hc := checkNode_ok_some "PROPERTY.ARRAY" (parrAttrs name ty asz origin e propagated) _ _ _ _ false
      (parrAttrs_keysOk ..) (kidsOk_of_allNames ["QUALIFIER", "VALUE.ARRAY"] hAll (by simp)) (Or.inr (noText_of_allNames hAll))
    obtain ⟨hqs, hqd⟩ := rt_quals' C S hC quals hq _ ["VALUE.ARRAY"] hA (by simp)
    cases e with
    | none =>
      have hpl := plainVal_of_propVal S ty true val hv (by simp)
      have hu := unpackValue_plain C S hC ty val hpl _ ["QUALIFIER"] hAq (by simp) (by simp)
      rw [decPropertyArray_noemb C emb _ _ _ _ _ _ asz hc (by rw [parrAttrs_TYPE]; exact hu)
        (boolAttrOf_false _ "PROPAGATED" propagated (parrAttrs_P ..)) hqs
        (arraySizeOf_ok _ _ (parrAttrs_ASZ ..)) (parrAttrs_EMB ..) (by rw [parrAttrs_TYPE]; exact hct)]
      simp only [parrAttrs_NAME, parrAttrs_TYPE, parrAttrs_ORIGIN, hqd, wdProp]
    | some es =>
      cases es with
      | nil => exact absurd (hne [] rfl).1 (by decide)
      | cons c cs =>
        have hu := unpackValue_emb C S ty true val hv _ ["QUALIFIER"] hAq (by simp) (by simp)
        rw [decPropertyArray_emb C emb _ _ _ _ _ _ _ asz c cs hc (by rw [parrAttrs_TYPE]; exact hu)
          (boolAttrOf_false _ "PROPAGATED" propagated (parrAttrs_P ..)) hqs
          (arraySizeOf_ok _ _ (parrAttrs_ASZ ..)) (parrAttrs_EMB ..) (hval' rfl)
          (by rw [parrAttrs_TYPE]; exact embAttrOk_some c cs ty (hne _ rfl)) (by rw [parrAttrs_TYPE]; exact hct)]
        simp only [parrAttrs_NAME, parrAttrs_TYPE, parrAttrs_ORIGIN, hqd, wdProp]
  | false =>
    have hasz' : asz = none := hasz rfl
    subst hasz'
    by_cases hty : ty = "reference".toList
    · subst hty
      have he : e = none := hre ⟨rfl, rfl⟩
      subst he
      rw [encProp_ref, decPropElem_ref]
      -- the value: NULL or one reference
      have hvcases : val = .null ∨ ∃ p, val = .scalar (.ref p) ∧ SendablePath S p := by
        cases val with
        | null => exact Or.inl rfl
        | scalar a =>
          simp only [SendablePropVal, Option.isSome, Bool.false_eq_true, if_false, if_true] at hv
          cases a <;> simp [RefAtom] at hv
          exact Or.inr ⟨_, rfl, hv⟩
        | array l =>
          simp only [SendablePropVal] at hv
          exact absurd hv.1 (by simp)
      rcases hvcases with rfl | ⟨p, rfl, hp⟩
      · simp only [encVal, List.append_nil]
        have hc := checkNode_ok_some "PROPERTY.REFERENCE" (prefAttrs name refCls origin propagated) _ _ _ _ false
          (prefAttrs_keysOk ..) (kidsOk_encQuals C quals ["QUALIFIER", "VALUE.REFERENCE"] (by simp))
          (Or.inr (noText_of_allNames hAq))
        have hvr : decValueRefs C (encQuals C.toCodec quals) = .ok [] := by
          have := decValueRefs_skip C (encQuals C.toCodec quals) [] ["QUALIFIER"] hAq (by simp)
          rw [List.append_nil] at this; rw [this]; rfl
        obtain ⟨hqs, hqd⟩ := rt_quals' C S hC quals hq [] [] (allNames_nil _) (by simp)
        rw [List.append_nil] at hqs
        rw [decPropertyReference_null C _ _ _ _ _ hc hvr
          (boolAttrOf_false _ "PROPAGATED" propagated (prefAttrs_P ..)) hqs]
        simp only [prefAttrs_NAME, prefAttrs_REFCLS, prefAttrs_ORIGIN, hqd, wdProp, wdVal]
      · simp only [encVal]
        obtain ⟨pn, pas, pks, epath⟩ := encPath_shape C.toCodec p
        have hpath := rt_path C S hC p hp
        rw [epath] at hpath ⊢
        have hvref := decValueReference_E C pn pas pks _ hpath
        have hA : AllNames [E "VALUE.REFERENCE" [] [Xml.elem pn pas pks]] ["VALUE.REFERENCE"] :=
          allNames_cons ⟨rfl, by simp [name_E]⟩ (allNames_nil _)
        have hAll : AllNames (encQuals C.toCodec quals ++ [E "VALUE.REFERENCE" [] [Xml.elem pn pas pks]])
            ["QUALIFIER", "VALUE.REFERENCE"] :=
          allNames_append (allNames_mono hAq (by simp)) (allNames_mono hA (by simp))
        have hc := checkNode_ok_some "PROPERTY.REFERENCE" (prefAttrs name refCls origin propagated) _ _ _ _ false
          (prefAttrs_keysOk ..) (kidsOk_of_allNames ["QUALIFIER", "VALUE.REFERENCE"] hAll (by simp))
          (Or.inr (noText_of_allNames hAll))
        have hvr : decValueRefs C (encQuals C.toCodec quals ++ [E "VALUE.REFERENCE" [] [Xml.elem pn pas pks]]) =
            .ok [wdPath C.toCodec p] := by
          rw [decValueRefs_skip C (encQuals C.toCodec quals) _ ["QUALIFIER"] hAq (by simp)]
          unfold E at hvref ⊢
          rw [decValueRefs_hit C _ _ _ _ rfl, hvref, decValueRefs_nil]
          rfl
        obtain ⟨hqs, hqd⟩ := rt_quals' C S hC quals hq _ ["VALUE.REFERENCE"] hA (by simp)
        rw [decPropertyReference_one C _ _ _ _ _ _ hc hvr
          (boolAttrOf_false _ "PROPAGATED" propagated (prefAttrs_P ..)) hqs]
        simp only [prefAttrs_NAME, prefAttrs_REFCLS, prefAttrs_ORIGIN, hqd, wdProp, wdVal, wdAtom]
    · have hrc' : refCls = none := hrc (fun h => hty h.2)
      subst hrc'
      rw [encProp_plain C _ _ _ _ _ _ _ _ _ hty, decPropElem_prop]
      have hA := allNames_encVal_prop C.toCodec S ty false e.isSome val hv (fun h => hty h.2.1)
      simp only [Bool.false_eq_true, if_false] at hA
      have hAll : AllNames (encQuals C.toCodec quals ++ encVal C.toCodec val) ["QUALIFIER", "VALUE"] :=
        allNames_append (allNames_mono hAq (by simp)) (allNames_mono hA (by simp))
      have hc := checkNode_ok_some "PROPERTY" (propAttrs name ty origin propagated e) _ _ _ _ false
        (propAttrs_keysOk ..) (kidsOk_of_allNames ["QUALIFIER", "VALUE"] hAll (by simp))
        (Or.inr (noText_of_allNames hAll))
      obtain ⟨hqs, hqd⟩ := rt_quals' C S hC quals hq _ ["VALUE"] hA (by simp)
      cases e with
      | none =>
        have hpl := plainVal_of_propVal S ty false val hv (fun h => hty h.2)
        have hu := unpackValue_plain C S hC ty val hpl _ ["QUALIFIER"] hAq (by simp) (by simp)
        rw [decProperty_noemb C emb _ _ _ _ _ _ hc (by rw [propAttrs_TYPE]; exact hu)
          (boolAttrOf_false _ "PROPAGATED" propagated (propAttrs_P ..)) hqs (propAttrs_EMB ..)
          (by rw [propAttrs_TYPE]; exact hct)]
        simp only [propAttrs_NAME, propAttrs_TYPE, propAttrs_ORIGIN, hqd, wdProp]
      | some es =>
        cases es with
        | nil => exact absurd (hne [] rfl).1 (by decide)
        | cons c cs =>
          have hu := unpackValue_emb C S ty false val hv _ ["QUALIFIER"] hAq (by simp) (by simp)
          rw [decProperty_emb C emb _ _ _ _ _ _ _ c cs hc (by rw [propAttrs_TYPE]; exact hu)
            (boolAttrOf_false _ "PROPAGATED" propagated (propAttrs_P ..)) hqs (propAttrs_EMB ..) (hval' rfl)
            (by rw [propAttrs_TYPE]; exact embAttrOk_some c cs ty (hne _ rfl)) (by rw [propAttrs_TYPE]; exact hct)]
          simp only [propAttrs_NAME, propAttrs_TYPE, propAttrs_ORIGIN, hqd, wdProp]

/-! ### property lists -/

theorem encProp_shape (p : Prop_) :
    ∃ n as ks, encProp C.toCodec p = .elem n as ks ∧ isPropName n := by
  obtain ⟨name, ty, val, isArray, asz, refCls, origin, propagated, e, quals⟩ := p
  cases isArray with
  | true => exact ⟨_, _, _, encProp_array .., Or.inr (Or.inl rfl)⟩
  | false =>
    by_cases hty : ty = "reference".toList
    · subst hty; exact ⟨_, _, _, encProp_ref .., Or.inr (Or.inr rfl)⟩
    · exact ⟨_, _, _, encProp_plain C _ _ _ _ _ _ _ _ _ hty, Or.inl rfl⟩

theorem allNames_encProps (ps : List Prop_) : AllNames (encProps C.toCodec ps) propNames := by
  induction ps with
  | nil => simp only [encProps]; exact allNames_nil _
  | cons p ps ih =>
    obtain ⟨n, as, ks, e, hn⟩ := encProp_shape C p
    simp only [encProps]
    apply allNames_cons _ ih
    rw [e]
    refine ⟨rfl, ?_⟩
    rcases hn with h | h | h <;> simp [name_elem, h, propNames]

theorem rt_props_cons (p : Prop_) (ps : List Prop_) (p' : Prop_) (ps' : List Prop_)
    (h1 : decPropElem C emb (encProp C.toCodec p) = .ok p')
    (h2 : decProperties C emb (encProps C.toCodec ps) = .ok ps') :
    decProperties C emb (encProps C.toCodec (p :: ps)) = .ok (p' :: ps') := by
  obtain ⟨n, as, ks, e, hn⟩ := encProp_shape C p
  simp only [encProps]
  rw [e] at h1 ⊢
  rw [decProperties_hit C emb _ _ _ _ hn, h1, h2]
  rfl

theorem rt_props_nil : decProperties C emb (encProps C.toCodec []) = .ok (wdProps C.toCodec []) := by
  simp only [encProps, wdProps]; rfl

theorem wdProp_name (p : Prop_) : Prop_.name (wdProp C.toCodec p) = Prop_.name p := by
  obtain ⟨name, ty, val, isArray, asz, refCls, origin, propagated, e, quals⟩ := p; rfl

theorem wdProps_names (ps : List Prop_) : (wdProps C.toCodec ps).map Prop_.name = ps.map Prop_.name := by
  induction ps with
  | nil => rfl
  | cons p ps ih => simp [wdProps, wdProp_name, ih]

/-! ### instances and classes, one level -/

theorem encInstElem_eq (cls : Str) (path : Option Path) (props : List Prop_) (quals : List Qual) :
    encInstElem C.toCodec (.mk cls path props quals) =
      E "INSTANCE" [("CLASSNAME".toList, cls)] (encQuals C.toCodec quals ++ encProps C.toCodec props) := by
  simp only [encInstElem]

theorem attrKeysOk_instance (cls : Str) : attrKeysOk [("CLASSNAME".toList, cls)] ["CLASSNAME"] ["xml:lang"] = true := by
  apply attrKeysOk_of
  · intro k hk; simp at hk; subst hk; simp
  · exact keysIn_cons (by simp) (keysIn_nil _)

include hC in
/-- **INSTANCE element round trip, one level**, given the round trip of its properties -/
theorem step_inst (cls : Str) (path : Option Path) (props : List Prop_) (quals : List Qual)
    (hq : SendableQuals S quals) (hnd : NoDupNames (props.map Prop_.name))
    (hps : decProperties C emb (encProps C.toCodec props) = .ok (wdProps C.toCodec props)) :
    decInstance C emb (encInstElem C.toCodec (.mk cls path props quals)) =
      .ok (wdInstNoPath C.toCodec (.mk cls path props quals)) := by
  have hAq := allNames_encQuals C quals
  have hAp := allNames_encProps C props
  have hAll : AllNames (encQuals C.toCodec quals ++ encProps C.toCodec props)
      ["QUALIFIER", "PROPERTY", "PROPERTY.ARRAY", "PROPERTY.REFERENCE"] :=
    allNames_append (allNames_mono hAq (by simp)) (allNames_mono hAp (by simp [propNames]))
  rw [encInstElem_eq]
  unfold decInstance
  rw [checkNode_ok_some "INSTANCE" _ _ _ _ _ false (attrKeysOk_instance cls)
    (kidsOk_of_allNames _ hAll (by simp)) (Or.inr (noText_of_allNames hAll))]
  obtain ⟨hqs, hqd⟩ := rt_quals' C S hC quals hq _ propNames hAp (by simp [propNames])
  have hpp : decProperties C emb (encQuals C.toCodec quals ++ encProps C.toCodec props) = .ok (wdProps C.toCodec props) := by
    rw [decProperties_append, decProperties_skip C emb _ ["QUALIFIER"] hAq (by simp) (by simp) (by simp), hps, app2_ok]
    rfl
  have hpd := dictOfList_nodup Prop_.name (wdProps C.toCodec props) (by rw [wdProps_names]; exact hnd)
  simp only [bind_ok, hqs, hpp, pure_eq_ok, getAttrD_single, hqd, hpd, wdInstNoPath]

def clsAttrs (name : Str) (sup : Option Str) : List (Str × Str) := [("NAME".toList, name)] ++ optAttr "SUPERCLASS" sup

theorem encCls_eq (name : Str) (sup : Option Str) (path : Option Path) (props : List Prop_) (meths : List Meth)
    (quals : List Qual) :
    encCls C.toCodec (.mk name sup path props meths quals) =
      E "CLASS" (clsAttrs name sup) (encQuals C.toCodec quals ++ encProps C.toCodec props ++ encMeths C.toCodec meths) := by
  simp only [encCls, clsAttrs]

theorem clsAttrs_keysOk (name : Str) (sup : Option Str) : attrKeysOk (clsAttrs name sup) ["NAME"] ["SUPERCLASS"] = true := by
  apply attrKeysOk_of
  · intro k hk; simp at hk; subst hk; simp [clsAttrs, attr_append]
  · exact keysIn_append (keysIn_cons (by simp) (keysIn_nil _)) (keysIn_optAttr (by simp))

theorem clsAttrs_NAME (name : Str) (sup : Option Str) : getAttrD (clsAttrs name sup) "NAME" "" = name := by
  simp [clsAttrs, getAttrD, attr_append]
theorem clsAttrs_SUP (name : Str) (sup : Option Str) : Xml.attr (clsAttrs name sup) "SUPERCLASS".toList = sup := by
  cases sup <;> simp [clsAttrs, attr_append]

include hC in
/-- **CLASS element round trip, one level**, given the round trip of its properties -/
theorem step_cls (name : Str) (sup : Option Str) (path : Option Path) (props : List Prop_) (meths : List Meth)
    (quals : List Qual) (hq : SendableQuals S quals) (hnd : NoDupNames (props.map Prop_.name))
    (hm : SendableMeths S meths)
    (hps : decProperties C emb (encProps C.toCodec props) = .ok (wdProps C.toCodec props)) :
    decClass C emb (encCls C.toCodec (.mk name sup path props meths quals)) =
      .ok (wdCls C.toCodec (.mk name sup path props meths quals)) := by
  have hAq := allNames_encQuals C quals
  have hAp := allNames_encProps C props
  have hAm := allNames_encMeths C meths
  have hAqp : AllNames (encQuals C.toCodec quals ++ encProps C.toCodec props)
      ["QUALIFIER", "PROPERTY", "PROPERTY.ARRAY", "PROPERTY.REFERENCE"] :=
    allNames_append (allNames_mono hAq (by simp)) (allNames_mono hAp (by simp [propNames]))
  have hApm : AllNames (encProps C.toCodec props ++ encMeths C.toCodec meths)
      ["PROPERTY", "PROPERTY.ARRAY", "PROPERTY.REFERENCE", "METHOD"] :=
    allNames_append (allNames_mono hAp (by simp [propNames])) (allNames_mono hAm (by simp))
  have hAll : AllNames (encQuals C.toCodec quals ++ encProps C.toCodec props ++ encMeths C.toCodec meths)
      ["QUALIFIER", "PROPERTY", "PROPERTY.REFERENCE", "PROPERTY.ARRAY", "METHOD"] :=
    allNames_append (allNames_mono hAqp (by simp)) (allNames_mono hAm (by simp))
  rw [encCls_eq]
  unfold decClass
  rw [checkNode_ok_some "CLASS" _ _ _ _ _ false (clsAttrs_keysOk name sup)
    (kidsOk_of_allNames _ hAll (by simp)) (Or.inr (noText_of_allNames hAll))]
  have hqs : decQualifiers C (encQuals C.toCodec quals ++ encProps C.toCodec props ++ encMeths C.toCodec meths) =
      .ok (wdQuals C.toCodec quals) := by
    rw [List.append_assoc]
    exact (rt_quals' C S hC quals hq _ _ hApm (by simp)).1
  have hqd := (rt_quals' C S hC quals hq [] [] (allNames_nil _) (by simp)).2
  have hpp : decProperties C emb (encQuals C.toCodec quals ++ encProps C.toCodec props ++ encMeths C.toCodec meths) =
      .ok (wdProps C.toCodec props) := by
    rw [decProperties_append, decProperties_append,
      decProperties_skip C emb _ ["QUALIFIER"] hAq (by simp) (by simp) (by simp), hps,
      decProperties_skip C emb _ ["METHOD"] hAm (by simp) (by simp) (by simp), app2_ok, app2_ok]
    simp
  have hmm : decMethods C (encQuals C.toCodec quals ++ encProps C.toCodec props ++ encMeths C.toCodec meths) =
      .ok (wdMeths C.toCodec meths) := by
    rw [decMethods_append, decMethods_skip C _ _ hAqp (by simp), rt_meths_list C S hC meths hm.1, app2_ok]
    rfl
  have hpd := dictOfList_nodup Prop_.name (wdProps C.toCodec props) (by rw [wdProps_names]; exact hnd)
  have hmd := dictOfList_nodup Meth.name (wdMeths C.toCodec meths) (by rw [wdMeths_names]; exact hm.2)
  simp only [bind_ok, hqs, hpp, hmm, pure_eq_ok, clsAttrs_NAME, clsAttrs_SUP, hqd, hpd, hmd, wdCls]

/-! ### embedded objects -/

theorem encInstElem_name (i : Inst) : (encInstElem C.toCodec i).name = "INSTANCE".toList := by
  obtain ⟨cls, path, props, quals⟩ := i
  rw [encInstElem_eq]; rfl

theorem encCls_name (c : Cls) : (encCls C.toCodec c).name = "CLASS".toList := by
  obtain ⟨name, sup, path, props, meths, quals⟩ := c
  rw [encCls_eq]; rfl

include hC in
theorem step_einst (i : Inst) (d : Nat) (hok : S.embInstOk i)
    (hrec : decInstance C (embAt C d) (encInstElem C.toCodec i) = .ok (wdInstNoPath C.toCodec i)) :
    embAt C (d + 1) (atomText C.toCodec (.einst i)) = .ok (wdAtom C.toCodec (.einst i)) := by
  obtain ⟨t', hpar, hnorm⟩ := hC.par_inst i hok
  have hname : t'.name = "INSTANCE".toList := by
    rw [← normTree_name t', hnorm, normTree_name, encInstElem_name]
  have hdec : decInstance C (embAt C d) t' = .ok (wdInstNoPath C.toCodec i) := by
    rw [← decInstance_norm C (embAt C d) t', hnorm, decInstance_norm, hrec]
  simp only [atomText, embAt, hpar, if_pos hname, hdec, bind_ok, pure_eq_ok, wdAtom]

include hC in
theorem step_ecls (c : Cls) (d : Nat) (hok : S.embClsOk c)
    (hrec : decClass C (embAt C d) (encCls C.toCodec c) = .ok (wdCls C.toCodec c)) :
    embAt C (d + 1) (atomText C.toCodec (.ecls c)) = .ok (wdAtom C.toCodec (.ecls c)) := by
  obtain ⟨t', hpar, hnorm⟩ := hC.par_cls c hok
  have hname : t'.name = "CLASS".toList := by
    rw [← normTree_name t', hnorm, normTree_name, encCls_name]
  have h1 : ¬ t'.name = "INSTANCE".toList := by rw [hname]; decide
  have hdec : decClass C (embAt C d) t' = .ok (wdCls C.toCodec c) := by
    rw [← decClass_norm C (embAt C d) t', hnorm, decClass_norm, hrec]
  simp only [atomText, embAt, hpar, if_neg h1, if_pos hname, hdec, bind_ok, pure_eq_ok, wdAtom]

theorem embItems_cons_null (l : List Atom) :
    embItems emb (.null :: l) = (do let r ← embItems emb l; pure (.null :: r)) := rfl

theorem embItems_cons_str (s : Str) (l : List Atom) :
    embItems emb (.str s :: l) = (do let a ← emb s; let r ← embItems emb l; pure (a :: r)) := rfl

theorem step_embatoms (a : Atom) (l : List Atom) (l' : List Atom)
    (ha : a = .null ∨ (a ≠ .null ∧ emb (atomText C.toCodec a) = .ok (wdAtom C.toCodec a)))
    (hl : embItems emb (l.map (strOf C.toCodec)) = .ok l') :
    embItems emb ((a :: l).map (strOf C.toCodec)) = .ok (wdAtom C.toCodec a :: l') := by
  rcases ha with rfl | ⟨hne, ha⟩
  · simp only [List.map_cons, strOf, embItems_cons_null, hl, bind_ok, pure_eq_ok, wdAtom]
  · simp only [List.map_cons, strOf_ne_null _ a hne, embItems_cons_str, ha, hl, bind_ok, pure_eq_ok]

theorem embAtom_ne_null (a : Atom) (h : SendableEmbAtom S a) : a ≠ .null := by
  intro e; subst e; simp [SendableEmbAtom] at h

include hC in
mutual
/-- an embedded object's text is re-parsed to the object with defaults, `d` levels still allowed -/
theorem rt_embatom : (a : Atom) → (d : Nat) → SendableEmbAtom S a → depthAtom a ≤ d →
    embAt C d (atomText C.toCodec a) = .ok (wdAtom C.toCodec a)
  | .einst i, 0, _, hd => by simp [depthAtom] at hd
  | .einst i, d + 1, h, hd =>
    step_einst C S hC i d h.2 (rt_inst i d h.1 (by simp only [depthAtom] at hd; omega))
  | .ecls c, 0, _, hd => by simp [depthAtom] at hd
  | .ecls c, d + 1, h, hd =>
    step_ecls C S hC c d h.2 (rt_cls c d h.1 (by simp only [depthAtom] at hd; omega))
  | .null, _, h, _ => absurd h (by simp [SendableEmbAtom])
  | .str _, _, h, _ => absurd h (by simp [SendableEmbAtom])
  | .char16 _, _, h, _ => absurd h (by simp [SendableEmbAtom])
  | .bool _, _, h, _ => absurd h (by simp [SendableEmbAtom])
  | .int _ _, _, h, _ => absurd h (by simp [SendableEmbAtom])
  | .real _ _, _, h, _ => absurd h (by simp [SendableEmbAtom])
  | .dt _, _, h, _ => absurd h (by simp [SendableEmbAtom])
  | .pyint _, _, h, _ => absurd h (by simp [SendableEmbAtom])
  | .pyfloat _, _, h, _ => absurd h (by simp [SendableEmbAtom])
  | .ref _, _, h, _ => absurd h (by simp [SendableEmbAtom])
theorem rt_embatoms : (l : List Atom) → (d : Nat) → SendableEmbAtoms S l → depthAtoms l ≤ d →
    embItems (embAt C d) (l.map (strOf C.toCodec)) = .ok (wdAtoms C.toCodec l)
  | [], _, _, _ => by simp only [List.map_nil, wdAtoms]; rfl
  | a :: l, d, h, hd => by
    have hd1 : depthAtom a ≤ d := by simp only [depthAtoms] at hd; omega
    have hd2 : depthAtoms l ≤ d := by simp only [depthAtoms] at hd; omega
    simp only [wdAtoms]
    refine step_embatoms C (embAt C d) a l _ ?_ (rt_embatoms l d h.2 hd2)
    rcases h.1 with hn | he
    · exact Or.inl hn
    · exact Or.inr ⟨embAtom_ne_null S a he, rt_embatom a d he hd1⟩
theorem rt_propval : (v : Val) → (ty : Str) → (isArray : Bool) → (d : Nat) →
    SendablePropVal S ty isArray true v → depthVal v ≤ d →
    embVal (embAt C d) (strVal C.toCodec v) = .ok (wdVal C.toCodec v)
  | .null, _, _, _, _, _ => by simp only [strVal, wdVal]; rfl
  | .scalar a, ty, isArray, d, h, hd => by
    simp only [SendablePropVal, if_true] at h
    have ha := rt_embatom a d h.2.2 (by simpa only [depthVal] using hd)
    simp only [strVal, strOf_ne_null _ a (embAtom_ne_null S a h.2.2), embVal, embOne, ha, bind_ok, pure_eq_ok, wdVal]
  | .array l, ty, isArray, d, h, hd => by
    simp only [SendablePropVal, if_true] at h
    have hl := rt_embatoms l d h.2.2 (by simpa only [depthVal] using hd)
    simp only [strVal, embVal, hl, bind_ok, pure_eq_ok, wdVal]
/-- **property round trip** at embedded depth ≤ d -/
theorem rt_prop : (p : Prop_) → (d : Nat) → SendableProp S p → depthProp p ≤ d →
    decPropElem C (embAt C d) (encProp C.toCodec p) = .ok (wdProp C.toCodec p)
  | .mk name ty val isArray asz refCls origin propagated e quals, d, h, hd =>
    step_prop C S hC (embAt C d) _ h (by
      intro name' ty' val' isArray' asz' refCls' origin' propagated' e' quals' heq he
      cases heq
      have hv := h.2.2.2.2.2.1
      rw [he] at hv
      exact rt_propval val ty isArray d hv (by simpa only [depthProp] using hd))
theorem rt_props : (ps : List Prop_) → (d : Nat) → SendablePropList S ps → depthProps ps ≤ d →
    decProperties C (embAt C d) (encProps C.toCodec ps) = .ok (wdProps C.toCodec ps)
  | [], d, _, _ => rt_props_nil C (embAt C d)
  | p :: ps, d, h, hd => by
    have hd1 : depthProp p ≤ d := by simp only [depthProps] at hd; omega
    have hd2 : depthProps ps ≤ d := by simp only [depthProps] at hd; omega
    simp only [wdProps]
    exact rt_props_cons C (embAt C d) p ps _ _ (rt_prop p d h.1 hd1) (rt_props ps d h.2 hd2)
/-- **INSTANCE element round trip** at embedded depth ≤ d -/
theorem rt_inst : (i : Inst) → (d : Nat) → SendableInstBody S i → depthInst i ≤ d →
    decInstance C (embAt C d) (encInstElem C.toCodec i) = .ok (wdInstNoPath C.toCodec i)
  | .mk cls path props quals, d, h, hd =>
    step_inst C S hC (embAt C d) cls path props quals h.2.2 h.2.1
      (rt_props props d h.1 (by simpa only [depthInst] using hd))
/-- **CLASS round trip** at embedded depth ≤ d -/
theorem rt_cls : (c : Cls) → (d : Nat) → SendableCls S c → depthCls c ≤ d →
    decClass C (embAt C d) (encCls C.toCodec c) = .ok (wdCls C.toCodec c)
  | .mk name sup path props meths quals, d, h, hd =>
    step_cls C S hC (embAt C d) name sup path props meths quals h.2.2.2 h.2.1 h.2.2.1
      (rt_props props d h.1 (by simpa only [depthCls] using hd))
end

end

end Proofs.CimXml
