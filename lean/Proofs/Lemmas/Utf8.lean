/-
C19 — lemmas about the UTF-8 codec model (Model/Utf8.lean).
-/
import Pywbem.Model.Utf8

namespace Proofs.Lemmas.Utf8
open Pywbem.Model.Utf8

theorem char_valid_nat (c : Char) : c.toNat < 0xD800 ∨ (0xDFFF < c.toNat ∧ c.toNat < 0x110000) := by
  have h := c.valid
  unfold UInt32.isValidChar Nat.isValidChar at h
  exact h

theorem isCont_iff (b : Nat) : isCont b = true ↔ (0x80 ≤ b ∧ b < 0xC0) := by
  simp only [isCont, Bool.and_eq_true, decide_eq_true_eq]

theorem step1 (b0 : Nat) (rest : Bytes) (h : b0 < 0x80) : step (b0 :: rest) = .char b0 1 := by
  simp only [step, if_pos h]

theorem step2 (b0 b1 : Nat) (rest : Bytes) (h0 : 0xC2 ≤ b0) (h0' : b0 < 0xE0) (h1 : isCont b1 = true) :
    step (b0 :: b1 :: rest) = .char (cp2 b0 b1) 2 := by
  have n1 : ¬ b0 < 0x80 := by omega
  have n2 : ¬ b0 < 0xC2 := by omega
  simp only [step, if_neg n1, if_neg n2, if_pos h0', h1, if_true]

theorem step3 (b0 b1 b2 : Nat) (rest : Bytes) (h0 : 0xE0 ≤ b0) (h0' : b0 < 0xF0) (h1 : badSecond3 b0 b1 = false)
    (h2 : isCont b2 = true) : step (b0 :: b1 :: b2 :: rest) = .char (cp3 b0 b1 b2) 3 := by
  have n1 : ¬ b0 < 0x80 := by omega
  have n2 : ¬ b0 < 0xC2 := by omega
  have n3 : ¬ b0 < 0xE0 := by omega
  simp only [step, if_neg n1, if_neg n2, if_neg n3, if_pos h0', h1, h2, if_true, Bool.false_eq_true, if_false]

theorem step4 (b0 b1 b2 b3 : Nat) (rest : Bytes) (h0 : 0xF0 ≤ b0) (h0' : b0 < 0xF5) (h1 : badSecond4 b0 b1 = false)
    (h2 : isCont b2 = true) (h3 : isCont b3 = true) :
    step (b0 :: b1 :: b2 :: b3 :: rest) = .char (cp4 b0 b1 b2 b3) 4 := by
  have n1 : ¬ b0 < 0x80 := by omega
  have n2 : ¬ b0 < 0xC2 := by omega
  have n3 : ¬ b0 < 0xE0 := by omega
  have n4 : ¬ b0 < 0xF0 := by omega
  simp only [step, if_neg n1, if_neg n2, if_neg n3, if_neg n4, if_pos h0', h1, h2, h3, if_true, Bool.false_eq_true,
    if_false, Bool.not_true]

theorem badSecond3_enc (n : Nat) (h : n < 0x10000) (h2 : ¬ n < 0x800) (hv : n < 0xD800 ∨ 0xDFFF < n) :
    badSecond3 (0xE0 + n / 4096) (0x80 + n / 64 % 64) = false := by
  have c : isCont (0x80 + n / 64 % 64) = true := (isCont_iff _).2 (by omega)
  simp only [badSecond3, c, Bool.not_true, Bool.false_or]
  by_cases h3 : 0x80 + n / 64 % 64 < 0xA0
  · rw [if_pos h3]; simp only [beq_eq_false_iff_ne, ne_eq]; omega
  · rw [if_neg h3]; simp only [beq_eq_false_iff_ne, ne_eq]; omega

theorem badSecond4_enc (n : Nat) (h : n < 0x110000) (h2 : ¬ n < 0x10000) :
    badSecond4 (0xF0 + n / 262144) (0x80 + n / 4096 % 64) = false := by
  have c : isCont (0x80 + n / 4096 % 64) = true := (isCont_iff _).2 (by omega)
  simp only [badSecond4, c, Bool.not_true, Bool.false_or]
  by_cases h3 : 0x80 + n / 4096 % 64 < 0x90
  · rw [if_pos h3]; simp only [beq_eq_false_iff_ne, ne_eq]; omega
  · rw [if_neg h3]; simp only [beq_eq_false_iff_ne, ne_eq]; omega

/-- what `encodeChar` produces, case by case -/
theorem encodeChar_cases (c : Char) :
    (c.toNat < 0x80 ∧ encodeChar c = [c.toNat]) ∨
    (¬ c.toNat < 0x80 ∧ c.toNat < 0x800 ∧ encodeChar c = [0xC0 + c.toNat / 64, 0x80 + c.toNat % 64]) ∨
    (¬ c.toNat < 0x800 ∧ c.toNat < 0x10000 ∧
      encodeChar c = [0xE0 + c.toNat / 4096, 0x80 + c.toNat / 64 % 64, 0x80 + c.toNat % 64]) ∨
    (¬ c.toNat < 0x10000 ∧
      encodeChar c = [0xF0 + c.toNat / 262144, 0x80 + c.toNat / 4096 % 64, 0x80 + c.toNat / 64 % 64,
                      0x80 + c.toNat % 64]) := by
  unfold encodeChar
  by_cases h1 : c.toNat < 0x80
  · left; exact ⟨h1, by simp only [if_pos h1]⟩
  · by_cases h2 : c.toNat < 0x800
    · right; left; exact ⟨h1, h2, by simp only [if_neg h1, if_pos h2]⟩
    · by_cases h3 : c.toNat < 0x10000
      · right; right; left; exact ⟨h2, h3, by simp only [if_neg h1, if_neg h2, if_pos h3]⟩
      · right; right; right; exact ⟨h3, by simp only [if_neg h1, if_neg h2, if_neg h3]⟩

/-- the decoder's step on the encoding of one character (followed by anything) yields that character -/
theorem step_encodeChar (c : Char) (rest : Bytes) :
    step (encodeChar c ++ rest) = .char c.toNat (encodeChar c).length := by
  have hv := char_valid_nat c
  rcases encodeChar_cases c with ⟨h1, e⟩ | ⟨h1, h2, e⟩ | ⟨h2, h3, e⟩ | ⟨h3, e⟩
  · rw [e]; exact step1 _ _ h1
  · rw [e]
    have := step2 (0xC0 + c.toNat / 64) (0x80 + c.toNat % 64) rest (by omega) (by omega)
      ((isCont_iff _).2 (by omega))
    have e2 : cp2 (0xC0 + c.toNat / 64) (0x80 + c.toNat % 64) = c.toNat := by unfold cp2; omega
    rw [e2] at this
    exact this
  · rw [e]
    have := step3 (0xE0 + c.toNat / 4096) (0x80 + c.toNat / 64 % 64) (0x80 + c.toNat % 64) rest (by omega) (by omega)
      (badSecond3_enc _ h3 h2 (by omega)) ((isCont_iff _).2 (by omega))
    have e2 : cp3 (0xE0 + c.toNat / 4096) (0x80 + c.toNat / 64 % 64) (0x80 + c.toNat % 64) = c.toNat := by
      unfold cp3; omega
    rw [e2] at this
    exact this
  · rw [e]
    have hlt : c.toNat < 0x110000 := by omega
    have := step4 (0xF0 + c.toNat / 262144) (0x80 + c.toNat / 4096 % 64) (0x80 + c.toNat / 64 % 64)
      (0x80 + c.toNat % 64) rest (by omega) (by omega) (badSecond4_enc _ hlt h3) ((isCont_iff _).2 (by omega))
      ((isCont_iff _).2 (by omega))
    have e2 : cp4 (0xF0 + c.toNat / 262144) (0x80 + c.toNat / 4096 % 64) (0x80 + c.toNat / 64 % 64)
        (0x80 + c.toNat % 64) = c.toNat := by unfold cp4; omega
    rw [e2] at this
    exact this

theorem encodeChar_length_pos (c : Char) : 0 < (encodeChar c).length := by
  rcases encodeChar_cases c with ⟨_, e⟩ | ⟨_, _, e⟩ | ⟨_, _, e⟩ | ⟨_, e⟩ <;> rw [e] <;> simp

theorem encodeChar_ne_nil (c : Char) : encodeChar c ≠ [] := by
  intro h
  have := encodeChar_length_pos c
  rw [h] at this
  simp at this

theorem encode_length_ge (s : List Char) : s.length ≤ (encode s).length := by
  induction s with
  | nil => simp [encode]
  | cons c cs ih =>
    have := encodeChar_length_pos c
    simp only [encode, List.length_append, List.length_cons]
    omega

/-- strict decoding with enough fuel inverts encoding -/
theorem decodeStrictF_encode (s : List Char) : ∀ f, (encode s).length ≤ f → decodeStrictF f (encode s) = some s := by
  induction s with
  | nil => intro f _; cases f <;> simp [encode, decodeStrictF]
  | cons c cs ih =>
    intro f hf
    have hpos := encodeChar_length_pos c
    simp only [encode, List.length_append] at hf
    cases f with
    | zero => omega
    | succ f =>
      have hne : encodeChar c ++ encode cs ≠ [] := by
        intro h
        have := congrArg List.length h
        simp only [List.length_append, List.length_nil] at this
        omega
      obtain ⟨b, bs, hb⟩ := List.exists_cons_of_ne_nil hne
      simp only [encode]
      rw [hb]
      simp only [decodeStrictF]
      rw [← hb, step_encodeChar]
      simp only [List.drop_left]
      rw [ih f (by omega)]
      simp [Char.ofNat_toNat]

theorem decodeStrict_encode (s : List Char) : decodeStrict (encode s) = some s :=
  decodeStrictF_encode s _ (Nat.le_refl _)

/-- strict decoding of `prefix ++ encode s` when the prefix is plain ASCII -/
theorem decodeStrictF_ascii_append (p : Bytes) (hp : ∀ b ∈ p, b < 0x80) (rest : Bytes) (r : List Char) :
    ∀ f, p.length + (rest.length) ≤ f → (∀ g, rest.length ≤ g → decodeStrictF g rest = some r) →
      decodeStrictF f (p ++ rest) = some (p.map Char.ofNat ++ r) := by
  induction p with
  | nil => intro f hf h; simpa using h f (by simpa using hf)
  | cons b bs ih =>
    intro f hf h
    cases f with
    | zero => simp at hf
    | succ f =>
      have hb : b < 0x80 := hp b (by simp)
      simp only [List.cons_append, decodeStrictF, step1 b (bs ++ rest) hb, List.drop_succ_cons, List.drop_zero]
      rw [ih (fun x hx => hp x (by simp [hx])) f (by simp at hf; omega) h]
      simp

/-- if strict decoding succeeds, decoding with errors='replace' gives the same string -/
theorem replaceF_of_strictF : ∀ (f : Nat) (bs : Bytes) (s : List Char),
    decodeStrictF f bs = some s → decodeReplaceF f bs = s := by
  intro f
  induction f with
  | zero =>
    intro bs s h
    cases bs with
    | nil => simp [decodeStrictF] at h; simp [decodeReplaceF, h]
    | cons b bs => simp [decodeStrictF] at h
  | succ f ih =>
    intro bs s h
    cases bs with
    | nil => simp [decodeStrictF] at h; simp [decodeReplaceF, h]
    | cons b bs =>
      simp only [decodeStrictF] at h
      simp only [decodeReplaceF]
      cases hs : step (b :: bs) with
      | char cp n =>
        rw [hs] at h
        simp only [Option.map_eq_some_iff] at h
        obtain ⟨t, ht, rfl⟩ := h
        simp only
        rw [ih _ _ ht]
      | bad n => rw [hs] at h; simp at h
      | truncated => rw [hs] at h; simp at h

theorem replace_of_strict (bs : Bytes) (s : List Char) (h : decodeStrict bs = some s) : decodeReplace bs = s :=
  replaceF_of_strictF _ _ _ h

theorem decodeReplaceF_length_le_fuel : ∀ (f : Nat) (bs : Bytes), (decodeReplaceF f bs).length ≤ f := by
  intro f
  induction f with
  | zero => intro bs; cases bs <;> simp [decodeReplaceF]
  | succ f ih =>
    intro bs
    cases bs with
    | nil => simp [decodeReplaceF]
    | cons b bs =>
      simp only [decodeReplaceF]
      cases step (b :: bs) with
      | char cp n => have := ih ((b :: bs).drop n); simp only [List.length_cons]; omega
      | bad n => have := ih ((b :: bs).drop n); simp only [List.length_cons]; omega
      | truncated => simp

/-- decoding with errors='replace' never yields more characters than there are bytes -/
theorem decodeReplace_length_le (bs : Bytes) : (decodeReplace bs).length ≤ bs.length :=
  decodeReplaceF_length_le_fuel _ _

end Proofs.Lemmas.Utf8
