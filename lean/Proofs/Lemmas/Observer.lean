/-
C19 — lemmas about the observer model (Model/Observer.lean, Model/ToYaml.lean).
-/
import Pywbem.Model.Observer
import Proofs.Lemmas.Utf8
import Proofs.Lemmas.ToYaml

namespace Proofs.Lemmas.Observer
open Pywbem.Proto Pywbem.Model.Utf8 Pywbem.Model.ToYaml Pywbem.Model.Observer
open Proofs.Lemmas.Utf8 Proofs.Lemmas.ToYaml

/-! ### the recorder loop -/

theorem forRecs_fst_length (f : Recorder → StageRes) (rs : List Recorder) : (forRecs f rs).1.length = rs.length := by
  induction rs with
  | nil => simp [forRecs]
  | cons r rs ih =>
    simp only [forRecs]
    rcases hf : f r with ⟨r', ev, e⟩
    cases e with
    | some x => simp
    | none =>
      simp only
      rcases hr : forRecs f rs with ⟨rs', ev', e'⟩
      rw [hr] at ih
      simp at ih ⊢
      exact ih

theorem forRecs_isEmpty (f : Recorder → StageRes) (rs : List Recorder) : (forRecs f rs).1.isEmpty = rs.isEmpty := by
  have h := forRecs_fst_length f rs
  cases hrs : rs with
  | nil => simp [forRecs]
  | cons a b =>
    rw [hrs] at h
    cases h2 : (forRecs f (a :: b)).1 with
    | nil => rw [h2] at h; simp at h
    | cons _ _ => simp

/-- if the staged call cannot raise on recorders satisfying `P` and leaves them satisfying `Q`,
    the loop over the recorders does not raise and establishes `Q` everywhere -/
theorem forRecs_inv (f : Recorder → StageRes) (P Q : Recorder → Prop)
    (h : ∀ r, P r → (f r).2.2 = none ∧ Q (f r).1) :
    ∀ rs : List Recorder, (∀ r ∈ rs, P r) → (forRecs f rs).2.2 = none ∧ ∀ r ∈ (forRecs f rs).1, Q r := by
  intro rs
  induction rs with
  | nil => intro _; simp [forRecs]
  | cons r rs ih =>
    intro hp
    have hr := h r (hp r (by simp))
    have ih' := ih (fun x hx => hp x (by simp [hx]))
    simp only [forRecs]
    rcases hf : f r with ⟨r', ev, e⟩
    rw [hf] at hr
    simp only at hr
    obtain ⟨he, hq⟩ := hr
    subst he
    simp only
    rcases hrs : forRecs f rs with ⟨rs', ev', e'⟩
    rw [hrs] at ih'
    simp only at ih' ⊢
    refine ⟨ih'.1, ?_⟩
    intro x hx
    simp only [List.mem_cons] at hx
    rcases hx with rfl | hx
    · exact hq
    · exact ih'.2 x hx

/-! ### TestClientRecorder.record is total on recordable data -/

def argsRecordable (ks : List Kwarg) : Bool := ks.all (fun k => k.val.recordable)

theorem toyamlArgs_total : (ks : List Kwarg) → argsRecordable ks = true →
    ∃ p, toyamlArgs ks = .ok p ∧ Yaml.representableList p.2 = true
  | [], _ => ⟨([], []), by simp [toyamlArgs, pure, Except.pure], by simp [Yaml.representableList]⟩
  | k :: ks, h => by
      simp only [argsRecordable, List.all_cons, Bool.and_eq_true] at h
      obtain ⟨y, hy, hr⟩ := toyaml_total k.val h.1
      obtain ⟨p, hp, hrs⟩ := toyamlArgs_total ks (by simpa [argsRecordable] using h.2)
      refine ⟨(k.key :: p.1, y :: p.2), ?_, ?_⟩
      · simp [toyamlArgs, hy, hp, bind, Except.bind, pure, Except.pure]
      · simp [Yaml.representableList, hr, hrs]

theorem retPart_total (pull : Bool) (ret : Option PyVal) (h : ∀ x, ret = some x → x.recordable = true) :
    ∃ p, retPart pull ret = .ok p ∧ Yaml.representableList p.2 = true := by
  cases ret with
  | none => exact ⟨([], []), by simp [retPart, pure, Except.pure], by simp [Yaml.representableList]⟩
  | some x =>
    obtain ⟨y, hy, hr⟩ := toyaml_total x (h x rfl)
    cases x with
    | none => exact ⟨([], []), by simp [retPart, pure, Except.pure], by simp [Yaml.representableList]⟩
    | _ =>
      exact ⟨([(if pull then "pullresult" else "result").toList], [y]),
        by simp [retPart, hy, bind, Except.bind, pure, Except.pure],
        by simp [Yaml.representableList, hr]⟩

theorem excPart_representable (e : Option Raised) : Yaml.representableList (excPart e).2 = true := by
  cases e with
  | none => simp [excPart, Yaml.representableList]
  | some r =>
    simp only [excPart]
    split <;> simp [Yaml.representableList, Yaml.representable, ystr]

theorem reqDataPart_total (p : Option Bytes) (h : ∀ b, p = some b → (decodeStrict b).isSome = true) :
    ∃ y, reqDataPart p = .ok y ∧ y.representable = true := by
  cases p with
  | none => exact ⟨.null, by simp [reqDataPart, pure, Except.pure], by simp [Yaml.representable]⟩
  | some b =>
    have := h b rfl
    cases hd : decodeStrict b with
    | none => rw [hd] at this; simp at this
    | some s => exact ⟨.str (prettyData s), by simp [reqDataPart, hd, pure, Except.pure], by simp [Yaml.representable]⟩

theorem respDataPart_total (p : Option Bytes) : ∃ y, respDataPart .fixed p = .ok y ∧ y.representable = true := by
  cases p with
  | none => exact ⟨.null, by simp [respDataPart, pure, Except.pure], by simp [Yaml.representable]⟩
  | some b =>
    exact ⟨.str (prettyData (decodeReplace b)), by simp [respDataPart, Variant.fixed, pure, Except.pure],
      by simp [Yaml.representable]⟩

theorem representableList_append (a b : List Yaml) :
    Yaml.representableList (a ++ b) = (Yaml.representableList a && Yaml.representableList b) := by
  induction a with
  | nil => simp [Yaml.representableList]
  | cons x xs ih => simp [Yaml.representableList, ih, Bool.and_assoc]

theorem representableList_strs {α : Type} (f : α → Str) (l : List α) :
    Yaml.representableList (l.map (fun a => Yaml.str (f a))) = true := by
  induction l with
  | nil => simp [Yaml.representableList]
  | cons x xs ih => simp [Yaml.representableList, Yaml.representable, ih]

theorem hdrMap_representable (excl : List Str) (hs : Option (List Hdr)) : (hdrMap excl hs).representable = true := by
  simp only [hdrMap, Yaml.representable]
  exact representableList_strs (fun h : Hdr => h.value) _

theorem optStr_representable (o : Option Str) : (optStr o).representable = true := by
  cases o <;> simp [optStr, Yaml.representable]

theorem assemble_representable (r : TcrRec) (names : List Str) (ys : List Yaml) (kv : List Str × List Yaml)
    (rq rs : Yaml) (h1 : Yaml.representableList ys = true) (h2 : Yaml.representableList kv.2 = true)
    (h3 : rq.representable = true) (h4 : rs.representable = true) :
    (assemble r names ys kv rq rs).representable = true := by
  have he := excPart_representable r.exc
  cases hst : r.respStatus <;>
    simp [assemble, Yaml.representable, Yaml.representableList, representableList_append, h1, h2, h3, h4, he,
      hdrMap_representable, optStr_representable, ystr, hst]

/-- recording a staged operation cannot raise when arguments and result are recordable and the staged request
    payload is valid UTF-8 (it is: pywbem encoded it itself) -/
theorem record_total (t : TcrRec) (hargs : argsRecordable t.args = true)
    (hret : ∀ x, t.ret = some x → x.recordable = true)
    (hreq : ∀ b, t.reqPayload = some b → (decodeStrict b).isSome = true) :
    ∃ ev, t.record .fixed = .ok ev := by
  obtain ⟨a, ha, har⟩ := toyamlArgs_total t.args hargs
  obtain ⟨kv, hkv, hkvr⟩ := retPart_total t.pullOp t.ret hret
  obtain ⟨rq, hrq, hrqr⟩ := reqDataPart_total t.reqPayload hreq
  obtain ⟨rs, hrs, hrsr⟩ := respDataPart_total t.respPayload
  have hrep := assemble_representable t a.1 a.2 kv rq rs har hkvr hrqr hrsr
  refine ⟨[.testcase (assemble t a.1 a.2 kv rq rs)], ?_⟩
  simp [TcrRec.record, ha, hkv, hrq, hrs, dump, Yaml.representable, Yaml.representableList, hrep, bind, Except.bind,
    pure, Except.pure]

/-! ### LogOperationRecorder stages are total -/

def noAuth (hs : List Hdr) : Prop := ∀ h ∈ hs, h.name ≠ authName

theorem maskHeaders_noAuth : (hs : List Hdr) → noAuth hs → maskHeaders hs = .ok hs
  | [], _ => by simp [maskHeaders, pure, Except.pure]
  | h :: hs, hn => by
    have h1 : h.name ≠ authName := hn h (by simp)
    have h2 := maskHeaders_noAuth hs (fun x hx => hn x (by simp [hx]))
    simp [maskHeaders, h2, h1, bind, Except.bind, pure, Except.pure]

theorem stageHttpRequest_total (r : LogRec) (hs : List Hdr) (payload : Bytes) (hn : noAuth hs)
    (hp : (decodeStrict payload).isSome = true) : ∃ ev, r.stageHttpRequest hs payload = .ok ev := by
  cases hd : decodeStrict payload with
  | none => rw [hd] at hp; simp at hp
  | some s =>
    simp only [LogRec.stageHttpRequest]
    split
    · simp only [maskHeaders_noAuth hs hn, hd, bind, Except.bind, pure, Except.pure]
      split <;> exact ⟨_, rfl⟩
    · exact ⟨_, rfl⟩

theorem logDecode_fixed (b : Bytes) : logDecode .fixed b = .ok (decodeReplace b) := by
  simp [logDecode, Variant.fixed, pure, Except.pure]

theorem respPayloadText_total (r : LogRec) (b : Bytes) : ∃ up, r.respPayloadText .fixed b = .ok up := by
  simp only [LogRec.respPayloadText, logDecode_fixed, bind, Except.bind, pure, Except.pure]
  split
  · exact ⟨_, rfl⟩
  · split
    · split <;> exact ⟨_, rfl⟩
    · exact ⟨_, rfl⟩

/-- with a maximum length n > 0 the logged payload text has at most n + 3 characters -/
theorem respPayloadText_bounded (r : LogRec) (b : Bytes) (n : Nat) (hn : n ≠ 0) (hm : r.httpMax = some n)
    (up : Str) (h : r.respPayloadText .fixed b = .ok up) : up.length ≤ n + 3 := by
  simp only [LogRec.respPayloadText, logDecode_fixed, hm, bind, Except.bind, pure, Except.pure] at h
  split at h
  · simp only [Except.ok.injEq] at h; subst h; simp
  · split at h
    · simp only [Except.ok.injEq] at h
      subst h
      have := decodeReplace_length_le (b.take n)
      simp only [List.length_append, List.length_take] at this ⊢
      have h3 : "...".toList.length = 3 := by decide
      omega
    · rename_i hc
      simp only [Except.ok.injEq] at h
      subst h
      have := decodeReplace_length_le b
      have : ¬ b.length > n := fun hgt => hc ⟨hn, hgt⟩
      omega

theorem stageHttpResponse2_total (r : LogRec) (b : Bytes) : ∃ ev, r.stageHttpResponse2 .fixed (some b) = .ok ev := by
  obtain ⟨up, hup⟩ := respPayloadText_total r b
  simp only [LogRec.stageHttpResponse2, hup, bind, Except.bind, pure, Except.pure]
  split
  · exact ⟨_, rfl⟩
  · split <;> exact ⟨_, rfl⟩

/-- a list result whose first element has a `path` attribute has one on every element -/
def viewOk : View → Bool
  | .list (i :: items) _ => i.pathAscii.isNone || (i :: items).all (fun x => x.pathAscii.isSome)
  | _ => true

def retViewOk : RetView → Bool
  | .plain v _ => viewOk v
  | .pull _ _ _ _ _ v => viewOk v

theorem formatResult_total (level : Option Detail) (maxLen : Option Nat) (v : View) (h : viewOk v = true) :
    ∃ s, formatResult level maxLen v = .ok s := by
  cases v with
  | single t n p a =>
    simp only [formatResult]
    split <;> exact ⟨_, rfl⟩
  | list items ascii =>
    cases items with
    | nil =>
      simp only [formatResult]
      split <;> exact ⟨_, rfl⟩
    | cons i items =>
      simp only [formatResult]
      split
      · exact ⟨_, rfl⟩
      · cases hp : i.pathAscii with
        | none => exact ⟨_, rfl⟩
        | some p =>
          simp only [viewOk, hp, Option.isNone_some, Bool.false_or] at h
          simp only [h, if_true]
          exact ⟨_, rfl⟩
      · exact ⟨_, rfl⟩

theorem stageResult_total (r : LogRec) (ret : RetView) (exc : Option Raised) (h : retViewOk ret = true) :
    ∃ ev, r.stageResult ret exc = .ok ev := by
  simp only [LogRec.stageResult]
  split
  · cases exc with
    | some e =>
      obtain ⟨s, hs⟩ := formatResult_total r.apiLevel r.apiMax (.single "str".toList none none e.text) rfl
      simp only [hs, bind, Except.bind, pure, Except.pure]
      exact ⟨_, rfl⟩
    | none =>
      cases ret with
      | pull t c e q d v =>
        obtain ⟨s, hs⟩ := formatResult_total r.apiLevel r.apiMax v h
        simp only [hs, bind, Except.bind, pure, Except.pure]
        exact ⟨_, rfl⟩
      | plain v q =>
        obtain ⟨s, hs⟩ := formatResult_total r.apiLevel r.apiMax v h
        cases v with
        | list items ascii =>
          simp only [hs, bind, Except.bind, pure, Except.pure]
          exact ⟨_, rfl⟩
        | single t n p a =>
          simp only [hs, bind, Except.bind, pure, Except.pure]
          exact ⟨_, rfl⟩
  · exact ⟨_, rfl⟩

/-! ### per-recorder stage calls: no exception, invariant kept -/

/-- what a TestClientRecorder must have staged for `record` to be total -/
def RecOk : Recorder → Prop
  | .log _ => True
  | .tcr t => argsRecordable t.args = true ∧ (∀ b, t.reqPayload = some b → (decodeStrict b).isSome = true)

theorem resetOne_ok (pull : Bool) (r : Recorder) : (resetOne pull r).2.2 = none ∧ RecOk (resetOne pull r).1 := by
  cases r with
  | log l => simp [resetOne, RecOk]
  | tcr t => simp [resetOne, RecOk, TcrRec.reset, argsRecordable]

theorem stageArgsOne_ok (method : Str) (kwargs : List Kwarg) (hk : argsRecordable kwargs = true) (r : Recorder)
    (h : RecOk r) : (stageArgsOne method kwargs r).2.2 = none ∧ RecOk (stageArgsOne method kwargs r).1 := by
  cases r with
  | log l => simp [stageArgsOne, RecOk]
  | tcr t => simp only [RecOk] at h; simp [stageArgsOne, RecOk, hk]; exact h.2

theorem stageRequestOne_ok (hs : List Hdr) (target : Str) (body : Bytes) (hn : noAuth hs)
    (hb : (decodeStrict body).isSome = true) (r : Recorder) (h : RecOk r) :
    (stageRequestOne hs target body r).2.2 = none ∧ RecOk (stageRequestOne hs target body r).1 := by
  cases r with
  | log l =>
    obtain ⟨ev, he⟩ := stageHttpRequest_total l hs body hn hb
    simp [stageRequestOne, he, RecOk]
  | tcr t => simp only [RecOk] at h; simp [stageRequestOne, RecOk, h.1, hb]

theorem stageResponse1One_ok (resp : HttpResp) (r : Recorder) (h : RecOk r) :
    (stageResponse1One resp r).2.2 = none ∧ RecOk (stageResponse1One resp r).1 := by
  cases r with
  | log l => simp [stageResponse1One, RecOk]
  | tcr t => simp only [RecOk] at h; simp [stageResponse1One, RecOk, h.1]; exact h.2

theorem stageResponse2One_ok (body : Bytes) (r : Recorder) (h : RecOk r) :
    (stageResponse2One .fixed body r).2.2 = none ∧ RecOk (stageResponse2One .fixed body r).1 := by
  cases r with
  | log l =>
    obtain ⟨ev, he⟩ := stageHttpResponse2_total l body
    simp [stageResponse2One, he, Pywbem.Model.Observer.ofExcept, RecOk]
  | tcr t => simp only [RecOk] at h; simp [stageResponse2One, RecOk, h.1]; exact h.2

def retOk (ret : Option RetInfo) : Prop := ∀ r, ret = some r → r.val.recordable = true ∧ retViewOk r.view = true

theorem stageResultOne_ok (ret : Option RetInfo) (exc : Option Raised) (hr : retOk ret) (r : Recorder) (h : RecOk r) :
    (stageResultOne .fixed ret exc r).2.2 = none ∧ True := by
  refine ⟨?_, trivial⟩
  cases r with
  | log l =>
    have hv : retViewOk ((ret.map (·.view)).getD noneView) = true := by
      cases ret with
      | none => simp [noneView, retViewOk, viewOk]
      | some x => simpa using (hr x rfl).2
    obtain ⟨ev, he⟩ := stageResult_total l _ exc hv
    simp [stageResultOne, he, Pywbem.Model.Observer.ofExcept]
  | tcr t =>
    simp only [RecOk] at h
    simp only [stageResultOne]
    split
    · have : ∃ ev, TcrRec.record .fixed { t with ret := ret.map (·.val), exc := exc } = .ok ev := by
        apply record_total
        · exact h.1
        · intro x hx
          cases ret with
          | none => simp at hx
          | some ri => simp at hx; subst hx; exact (hr ri rfl).1
        · exact h.2
      obtain ⟨ev, he⟩ := this
      simp [he, Pywbem.Model.Observer.ofExcept]
    · rfl

end Proofs.Lemmas.Observer
