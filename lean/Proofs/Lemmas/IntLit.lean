/-
Helper lemmas about the integer-literal recognisers (Model/IntLit.lean), used by C20.
-/
import Pywbem.Model.IntLit

namespace Proofs.IntLit
open Pywbem.Model.IntLit

theorem splitSign_eq (s : Str) :
    s = (splitSign s).2 ∨ s = '+' :: (splitSign s).2 ∨ s = '-' :: (splitSign s).2 := by
  unfold splitSign
  split <;> simp

theorem isBin_ne_dot {c : Char} (h : isBin c = true) : c ≠ '.' := by
  intro hc; subst hc; simp [isBin] at h
theorem isOct_ne_dot {c : Char} (h : isOct c = true) : c ≠ '.' := by
  intro hc; subst hc; simp [isOct] at h
theorem isDec_ne_dot {c : Char} (h : isDec c = true) : c ≠ '.' := by
  intro hc; subst hc; simp [isDec] at h
theorem isPos_ne_dot {c : Char} (h : isPos c = true) : c ≠ '.' := by
  intro hc; subst hc; simp [isPos] at h
theorem isHex_ne_dot {c : Char} (h : isHex c = true) : c ≠ '.' := by
  intro hc; subst hc; simp [isHex, isDec] at h

def NoDot (s : Str) : Prop := ∀ c ∈ s, c ≠ '.'

theorem noDot_of_rest {s : Str} (h : NoDot (splitSign s).2) : NoDot s := by
  rcases splitSign_eq s with e | e | e <;> rw [e] <;> intro c hc
  · exact h c hc
  · simp at hc; rcases hc with rfl | hc
    · decide
    · exact h c hc
  · simp at hc; rcases hc with rfl | hc
    · decide
    · exact h c hc

theorem octalBody_noDot {ng : Bool} {r : Str} {v : Int} (h : octalBody ng r = some v) : NoDot r ∧ r ≠ [] := by
  cases r with
  | nil => simp [octalBody] at h
  | cons c ds =>
    simp only [octalBody] at h
    split at h
    · rename_i hc
      refine ⟨?_, by simp⟩
      intro x hx
      simp at hx
      rcases hx with rfl | hx
      · rw [hc.1]; decide
      · exact isOct_ne_dot (List.all_eq_true.mp hc.2 x hx)
    · simp at h

theorem decimalBody_noDot {ng : Bool} {r : Str} {v : Int} (h : decimalBody ng r = some v) : NoDot r ∧ r ≠ [] := by
  cases r with
  | nil => simp [decimalBody] at h
  | cons c ds =>
    simp only [decimalBody] at h
    refine ⟨?_, by simp⟩
    split at h
    · rename_i hc
      intro x hx
      rw [hc.1, hc.2] at hx
      simp at hx; rw [hx]; decide
    · split at h
      · rename_i hc
        intro x hx
        simp at hx
        rcases hx with rfl | hx
        · exact isPos_ne_dot hc.1
        · exact isDec_ne_dot (List.all_eq_true.mp hc.2 x hx)
      · simp at h

theorem hexBody_noDot {ng : Bool} {r : Str} {v : Int} (h : hexBody ng r = some v) : NoDot r ∧ r ≠ [] := by
  unfold hexBody at h
  split at h
  · split at h
    · rename_i z x ds hc
      refine ⟨?_, by simp⟩
      intro y hy
      simp at hy
      rcases hy with rfl | rfl | hy
      · rw [hc.1]; decide
      · rcases hc.2.1 with e | e <;> rw [e] <;> decide
      · exact isHex_ne_dot (List.all_eq_true.mp hc.2.2.2 y hy)
    · simp at h
  · simp at h

theorem binaryBody_noDot {ng : Bool} {r : Str} {v : Int} (h : binaryBody ng r = some v) : NoDot r ∧ r ≠ [] := by
  unfold binaryBody at h
  split at h
  · simp at h
  · rename_i b hb
    split at h
    · rename_i hc
      simp only [Bool.and_eq_true, Bool.or_eq_true, beq_iff_eq, Bool.not_eq_true'] at hc
      obtain ⟨ys, rfl⟩ := List.getLast?_eq_some_iff.mp hb
      simp only [List.dropLast_concat] at hc
      refine ⟨?_, by simp⟩
      intro y hy
      simp at hy
      rcases hy with hy | rfl
      · exact isBin_ne_dot (List.all_eq_true.mp hc.2 y hy)
      · rcases hc.1.1 with e | e <;> rw [e] <;> decide
    · simp at h

theorem intlit_noDot {s : Str} {v : Int} (h : integerValueToInt s = some v) : NoDot s ∧ s ≠ [] := by
  have key : NoDot (splitSign s).2 ∧ (splitSign s).2 ≠ [] := by
    unfold integerValueToInt at h
    split at h
    · rename_i v' hv; exact binaryBody_noDot hv
    · split at h
      · rename_i v' hv; exact octalBody_noDot hv
      · split at h
        · rename_i v' hv; exact decimalBody_noDot hv
        · exact hexBody_noDot h
  refine ⟨noDot_of_rest key.1, ?_⟩
  intro e; subst e; exact key.2 (by simp [splitSign])

end Proofs.IntLit
