/-
Helper lemmas about the integer-literal recognisers (Model/IntLit.lean), used by C20.
-/
import Pywbem.Model.IntLit

namespace Proofs.IntLit
open Pywbem.Model.IntLit Pywbem.Model.IntLit.Dsp0004

theorem splitSign_eq (s : Str) :
    s = (splitSign s).2 ∨ s = '+' :: (splitSign s).2 ∨ s = '-' :: (splitSign s).2 := by
  unfold splitSign
  split <;> simp

theorem isBin_ne_dot {c : Char} (h : isBin c = true) : c ≠ '.' := by
  intro hc; subst hc; simp [isBin] at h
theorem isOct_ne_dot {c : Char} (h : isOct c = true) : c ≠ '.' := by
  intro hc; subst hc; simp [isOct] at h
theorem isDec_ne_dot {c : Char} (h : isDec c = true) : c ≠ '.' := by
  intro hc; subst hc; simp [isDec] at h
theorem isPos_ne_dot {c : Char} (h : isPos c = true) : c ≠ '.' := by
  intro hc; subst hc; simp [isPos] at h
theorem isHex_ne_dot {c : Char} (h : isHex c = true) : c ≠ '.' := by
  intro hc; subst hc; simp [isHex, isDec] at h

def NoDot (s : Str) : Prop := ∀ c ∈ s, c ≠ '.'

theorem noDot_of_rest {s : Str} (h : NoDot (splitSign s).2) : NoDot s := by
  rcases splitSign_eq s with e | e | e <;> rw [e] <;> intro c hc
  · exact h c hc
  · simp at hc; rcases hc with rfl | hc
    · decide
    · exact h c hc
  · simp at hc; rcases hc with rfl | hc
    · decide
    · exact h c hc

theorem octalBody_noDot {ng : Bool} {r : Str} {v : Int} (h : octalBody ng r = some v) : NoDot r ∧ r ≠ [] := by
  cases r with
  | nil => simp [octalBody] at h
  | cons c ds =>
    simp only [octalBody] at h
    split at h
    · rename_i hc
      refine ⟨?_, by simp⟩
      intro x hx
      simp at hx
      rcases hx with rfl | hx
      · rw [hc.1]; decide
      · exact isOct_ne_dot (List.all_eq_true.mp hc.2 x hx)
    · simp at h

theorem decimalBody_noDot {ng : Bool} {r : Str} {v : Int} (h : decimalBody ng r = some v) : NoDot r ∧ r ≠ [] := by
  cases r with
  | nil => simp [decimalBody] at h
  | cons c ds =>
    simp only [decimalBody] at h
    refine ⟨?_, by simp⟩
    split at h
    · rename_i hc
      intro x hx
      rw [hc.1, hc.2] at hx
      simp at hx; rw [hx]; decide
    · split at h
      · rename_i hc
        intro x hx
        simp at hx
        rcases hx with rfl | hx
        · exact isPos_ne_dot hc.1
        · exact isDec_ne_dot (List.all_eq_true.mp hc.2 x hx)
      · simp at h

theorem hexBody_noDot {ng : Bool} {r : Str} {v : Int} (h : hexBody ng r = some v) : NoDot r ∧ r ≠ [] := by
  unfold hexBody at h
  split at h
  · split at h
    · rename_i z x ds hc
      refine ⟨?_, by simp⟩
      intro y hy
      simp at hy
      rcases hy with rfl | rfl | hy
      · rw [hc.1]; decide
      · rcases hc.2.1 with e | e <;> rw [e] <;> decide
      · exact isHex_ne_dot (List.all_eq_true.mp hc.2.2.2 y hy)
    · simp at h
  · simp at h

theorem binaryBody_noDot {ng : Bool} {r : Str} {v : Int} (h : binaryBody ng r = some v) : NoDot r ∧ r ≠ [] := by
  unfold binaryBody at h
  split at h
  · simp at h
  · rename_i b hb
    split at h
    · rename_i hc
      simp only [Bool.and_eq_true, Bool.or_eq_true, beq_iff_eq, Bool.not_eq_true'] at hc
      obtain ⟨ys, rfl⟩ := List.getLast?_eq_some_iff.mp hb
      simp only [List.dropLast_concat] at hc
      refine ⟨?_, by simp⟩
      intro y hy
      simp at hy
      rcases hy with hy | rfl
      · exact isBin_ne_dot (List.all_eq_true.mp hc.2 y hy)
      · rcases hc.1.1 with e | e <;> rw [e] <;> decide
    · simp at h

theorem intlit_noDot {s : Str} {v : Int} (h : integerValueToInt s = some v) : NoDot s ∧ s ≠ [] := by
  have key : NoDot (splitSign s).2 ∧ (splitSign s).2 ≠ [] := by
    unfold integerValueToInt at h
    split at h
    · rename_i v' hv; exact binaryBody_noDot hv
    · split at h
      · rename_i v' hv; exact octalBody_noDot hv
      · split at h
        · rename_i v' hv; exact decimalBody_noDot hv
        · exact hexBody_noDot h
  refine ⟨noDot_of_rest key.1, ?_⟩
  intro e; subst e; exact key.2 (by simp [splitSign])

/-! ### recogniser vs the DSP0004 grammar -/

theorem natOf_acc (base : Nat) (ds : Str) (acc : Nat) :
    ds.foldl (fun a c => a * base + digitVal c) acc = acc * base ^ ds.length + posValue base ds := by
  induction ds generalizing acc with
  | nil => simp [posValue]
  | cons c r ih =>
    simp only [List.foldl_cons, ih, posValue, List.length_cons, Nat.pow_succ]
    rw [Nat.add_mul, Nat.mul_assoc, Nat.mul_comm base (base ^ r.length), Nat.add_assoc]

theorem natOf_eq_posValue (base : Nat) (ds : Str) : natOf base ds = posValue base ds := by
  unfold natOf; rw [natOf_acc]; simp

theorem splitSign_sign (s : Str) :
    ∃ sg : Sign, s = sg.chars ++ (splitSign s).2 ∧ ∀ n, signed (splitSign s).1 n = sg.apply n := by
  unfold splitSign
  split
  · exact ⟨.plus, by simp [Sign.chars], fun n => by simp [signed, Sign.apply]⟩
  · exact ⟨.minus, by simp [Sign.chars], fun n => by simp [signed, Sign.apply]⟩
  · exact ⟨.none, by simp [Sign.chars], fun n => by simp [signed, Sign.apply]⟩

theorem splitSign_chars (sg : Sign) (c : Char) (t : Str) (h1 : c ≠ '+') (h2 : c ≠ '-') :
    splitSign (sg.chars ++ c :: t) = (decide (sg = .minus), c :: t) := by
  cases sg with
  | plus => simp [Sign.chars, splitSign]
  | minus => simp [Sign.chars, splitSign]
  | none =>
    simp only [Sign.chars, List.nil_append]
    unfold splitSign
    split
    · rename_i heq; simp at heq; exact absurd heq.1 h1
    · rename_i heq; simp at heq; exact absurd heq.1 h2
    · simp

theorem signed_decide (sg : Sign) (n : Nat) : signed (decide (sg = .minus)) n = sg.apply n := by
  cases sg <;> simp [signed, Sign.apply]

theorem isOct_isOctDigit {c : Char} (h : isOct c = true) : isOctDigit c = true := by
  simp [isOct, isOctDigit] at *; omega

/-- **soundness of the recogniser**: every accepted string derives from DSP0004 integerValue with that value -/
theorem intlit_sound {s : Str} {v : Int} (h : integerValueToInt s = some v) : IsIntegerValue s v := by
  obtain ⟨sg, hs, hsg⟩ := splitSign_sign s
  unfold integerValueToInt at h
  split at h
  · -- binary
    rename_i v' hv
    simp at h; subst h
    unfold matchBinary binaryBody at hv
    split at hv
    · simp at hv
    · rename_i b hb
      split at hv
      · rename_i hc
        simp only [Bool.and_eq_true, Bool.or_eq_true, beq_iff_eq, Bool.not_eq_true', List.isEmpty_eq_false_iff] at hc
        obtain ⟨ys, hys⟩ := List.getLast?_eq_some_iff.mp hb
        rw [hys, List.dropLast_concat] at hc hv
        simp at hv; subst hv
        rw [hsg, natOf_eq_posValue, hs, hys]
        exact .binary sg ys b hc.1.2 (fun c hc' => List.all_eq_true.mp hc.2 c hc') hc.1.1
      · simp at hv
  · split at h
    · -- octal
      rename_i v' hv
      simp at h; subst h
      unfold matchOctal at hv
      cases hr : (splitSign s).2 with
      | nil => rw [hr] at hv; simp [octalBody] at hv
      | cons c ds =>
        rw [hr] at hv
        simp only [octalBody] at hv
        split at hv
        · rename_i hc
          simp at hv; subst hv
          obtain ⟨rfl, hall⟩ := hc
          rw [hsg, natOf_eq_posValue, hs, hr]
          by_cases hds : ds = []
          · subst hds
            have : sg.apply (posValue 8 []) = 0 := by cases sg <;> simp [Sign.apply, posValue]
            rw [this]; exact .decimalZero sg
          · exact .octal sg ds hds (fun c hc' => isOct_isOctDigit (List.all_eq_true.mp hall c hc'))
        · simp at hv
    · split at h
      · -- decimal
        rename_i v' hv
        simp at h; subst h
        unfold matchDecimal at hv
        cases hr : (splitSign s).2 with
        | nil => rw [hr] at hv; simp [decimalBody] at hv
        | cons d ds =>
          rw [hr] at hv
          simp only [decimalBody] at hv
          split at hv
          · rename_i hc
            simp at hv; subst hv
            obtain ⟨rfl, rfl⟩ := hc
            rw [hs, hr]; exact .decimalZero sg
          · split at hv
            · rename_i hc
              simp at hv; subst hv
              rw [hsg, natOf_eq_posValue, hs, hr]
              exact .decimal sg d ds hc.1 (fun c hc' => List.all_eq_true.mp hc.2 c hc')
            · simp at hv
      · -- hex
        unfold matchHex hexBody at h
        split at h
        · rename_i z x ds hr
          split at h
          · rename_i hc
            simp at h; subst h
            obtain ⟨rfl, hx, hne, hall⟩ := hc
            rw [hsg, natOf_eq_posValue, hs, hr]
            exact .hex sg x ds hx hne (fun c hc' => List.all_eq_true.mp hall c hc')
          · simp at h
        · simp at h

theorem isBin_not_sign {c : Char} (h : isBin c = true) : c ≠ '+' ∧ c ≠ '-' := by
  constructor <;> (intro e; subst e; simp [isBin] at h)
theorem isPos_not_sign {c : Char} (h : isPos c = true) : c ≠ '+' ∧ c ≠ '-' := by
  constructor <;> (intro e; subst e; simp [isPos] at h)

theorem binaryBody_none_of_last {neg : Bool} {r : Str} (h : ∀ l, r.getLast? = some l → l ≠ 'b' ∧ l ≠ 'B') :
    binaryBody neg r = none := by
  unfold binaryBody
  split
  · rfl
  · rename_i b hb
    have := h b hb
    simp [this.1, this.2]

theorem isDec_not_b {c : Char} (h : isDec c = true) : c ≠ 'b' ∧ c ≠ 'B' := by
  constructor <;> (intro e; subst e; simp [isDec] at h)
theorem isPos_isDec {c : Char} (h : isPos c = true) : isDec c = true := by
  simp [isPos, isDec] at *; omega
theorem isOct_isDec {c : Char} (h : isOct c = true) : isDec c = true := by
  simp [isOct, isDec] at *; omega

/-- **completeness of the recogniser, partial** (known finding C20-KF1): every DSP0004 integerValue is
    accepted with its value, except octal literals with a digit 0 after the leading 0.
    Full statement (does NOT hold, see `intlit_octal_zero_witness`):
      `IsIntegerValue s v → integerValueToInt s = some v` -/
theorem intlit_complete_partial {s : Str} {v : Int} (h : IsIntegerValue s v) (hk : ¬ OctalWithZeroDigit s) :
    integerValueToInt s = some v := by
  cases h with
  | binary sg ds b hne hall hb =>
    cases ds with
    | nil => exact absurd rfl hne
    | cons c t =>
      have hc := isBin_not_sign (hall c (by simp))
      unfold integerValueToInt matchBinary
      rw [show sg.chars ++ (c :: t ++ [b]) = sg.chars ++ c :: (t ++ [b]) by simp, splitSign_chars sg c _ hc.1 hc.2]
      have : binaryBody (decide (sg = .minus)) (c :: (t ++ [b])) = some (sg.apply (posValue 2 (c :: t))) := by
        unfold binaryBody
        have e : c :: (t ++ [b]) = (c :: t) ++ [b] := by simp
        rw [e, List.getLast?_concat, List.dropLast_concat]
        have hb' : (b == 'b' || b == 'B') = true := by rcases hb with rfl | rfl <;> decide
        have hall' : (c :: t).all isBin = true := List.all_eq_true.mpr hall
        simp only [hb', hall', List.isEmpty_cons, Bool.not_false, Bool.and_self, if_true]
        rw [signed_decide, natOf_eq_posValue]
      rw [this]
  | octal sg ds hne hall =>
    -- no digit 0 among ds (else the excluded class)
    have hall' : ∀ c ∈ ds, isOct c = true := by
      intro c hc
      have h1 := hall c hc
      by_cases h0 : c = '0'
      · exact absurd ⟨sg, ds, rfl, hne, hall, h0 ▸ hc⟩ hk
      · simp [isOct, isOctDigit] at *
        have : c.toNat ≠ 48 := fun e => h0 (by
          apply Char.ext; apply UInt32.toNat_inj.mp; simpa using e)
        omega
    unfold integerValueToInt matchBinary matchOctal
    rw [splitSign_chars sg '0' ds (by decide) (by decide)]
    have hb : binaryBody (decide (sg = .minus)) ('0' :: ds) = none := by
      apply binaryBody_none_of_last
      intro l hl
      have hm : l ∈ '0' :: ds := List.mem_of_getLast? hl
      simp at hm
      rcases hm with rfl | hm
      · decide
      · exact isDec_not_b (isOct_isDec (hall' l hm))
    rw [hb]
    simp only [octalBody, List.all_eq_true.mpr hall', and_self, if_true]
    rw [signed_decide, natOf_eq_posValue]
  | decimalZero sg => cases sg <;> decide
  | decimal sg d ds hd hall =>
    have hc := isPos_not_sign hd
    unfold integerValueToInt matchBinary matchOctal matchDecimal
    rw [splitSign_chars sg d ds hc.1 hc.2]
    have hb : binaryBody (decide (sg = .minus)) (d :: ds) = none := by
      apply binaryBody_none_of_last
      intro l hl
      have hm : l ∈ d :: ds := List.mem_of_getLast? hl
      simp at hm
      rcases hm with rfl | hm
      · exact isDec_not_b (isPos_isDec hd)
      · exact isDec_not_b (hall l hm)
    have hd0 : d ≠ '0' := by intro e; subst e; simp [isPos] at hd
    rw [hb]
    simp only [octalBody, hd0, false_and, if_false, decimalBody, hd, List.all_eq_true.mpr hall, and_self, if_true]
    rw [signed_decide, natOf_eq_posValue]
  | hex sg x ds hx hne hall =>
    unfold integerValueToInt matchBinary matchOctal matchDecimal matchHex
    rw [splitSign_chars sg '0' (x :: ds) (by decide) (by decide)]
    have hxb : isBin x = false := by rcases hx with rfl | rfl <;> decide
    have hxo : isOct x = false := by rcases hx with rfl | rfl <;> decide
    have hb : binaryBody (decide (sg = .minus)) ('0' :: x :: ds) = none := by
      unfold binaryBody
      split
      · rfl
      · rename_i b hb
        obtain ⟨ys, hys⟩ := List.getLast?_eq_some_iff.mp hb
        rw [hys, List.dropLast_concat]
        -- ys = '0' :: x :: ds.dropLast contains x
        have hxm : x ∈ ys := by
          cases ys with
          | nil => simp at hys
          | cons a ys' =>
            cases ys' with
            | nil =>
              simp at hys
              exact absurd hys.2.2 (by simp [hne])
            | cons a' ys'' => simp at hys; simp [hys.2.1]
        have : ys.all isBin = false := by
          rw [List.all_eq_false]
          exact ⟨x, hxm, by simp [hxb]⟩
        simp [this]
    rw [hb]
    have hx' : (x = 'x' ∨ x = 'X') := hx
    simp only [octalBody, List.all_cons, hxo, Bool.false_and, Bool.false_eq_true, and_false, if_false,
      decimalBody, reduceCtorEq, show isPos '0' = false by decide, false_and, hexBody, hx', hne, ne_eq,
      not_false_eq_true, List.all_eq_true.mpr hall, and_self, if_true]
    rw [signed_decide, natOf_eq_posValue]

/-- negation witness for the full statement (known finding C20-KF1) -/
theorem intlit_octal_zero_witness :
    IsIntegerValue ['0', '1', '0'] 8 ∧ integerValueToInt ['0', '1', '0'] = none ∧ OctalWithZeroDigit ['0', '1', '0'] := by
  refine ⟨?_, by decide, ⟨.none, ['1', '0'], by simp [Sign.chars], by simp, by decide, by simp⟩⟩
  have := IsIntegerValue.octal .none ['1', '0'] (by simp) (by decide)
  simpa [Sign.chars, Sign.apply, posValue, digitVal, isDec] using this

/-! ### the alphabet of literals -/
/-- the characters an integer literal can consist of -/
def litChar (c : Char) : Bool := c == '+' || c == '-' || isHex c || c == 'x' || c == 'X'

theorem lit_of_hex {c : Char} (h : isHex c = true) : litChar c = true := by simp [litChar, h]
theorem lit_of_dec {c : Char} (h : isDec c = true) : litChar c = true := by simp [litChar, isHex, h]
theorem lit_of_bin {c : Char} (h : isBin c = true) : litChar c = true := by
  simp [isBin] at h; rcases h with rfl | rfl <;> decide
theorem lit_of_oct {c : Char} (h : isOct c = true) : litChar c = true := lit_of_dec (isOct_isDec h)
theorem lit_of_pos {c : Char} (h : isPos c = true) : litChar c = true := lit_of_dec (isPos_isDec h)

def AllLit (s : Str) : Prop := ∀ c ∈ s, litChar c = true

theorem allLit_of_rest {s : Str} (h : AllLit (splitSign s).2) : AllLit s := by
  rcases splitSign_eq s with e | e | e <;> rw [e] <;> intro c hc
  · exact h c hc
  · simp at hc; rcases hc with rfl | hc
    · decide
    · exact h c hc
  · simp at hc; rcases hc with rfl | hc
    · decide
    · exact h c hc

theorem intlit_allLit {s : Str} {v : Int} (h : integerValueToInt s = some v) : AllLit s := by
  have hv := intlit_sound h
  cases hv with
  | binary sg ds b hne hall hb =>
    intro c hc
    simp at hc
    rcases hc with hc | hc | rfl
    · cases sg <;> simp [Sign.chars] at hc <;> subst hc <;> decide
    · exact lit_of_bin (hall c hc)
    · rcases hb with rfl | rfl <;> decide
  | octal sg ds hne hall =>
    intro c hc
    simp at hc
    rcases hc with hc | rfl | hc
    · cases sg <;> simp [Sign.chars] at hc <;> subst hc <;> decide
    · decide
    · have := hall c hc
      apply lit_of_dec
      simp [isOctDigit, isDec] at *; omega
  | decimalZero sg =>
    intro c hc
    simp at hc
    rcases hc with hc | rfl
    · cases sg <;> simp [Sign.chars] at hc <;> subst hc <;> decide
    · decide
  | decimal sg d ds hd hall =>
    intro c hc
    simp at hc
    rcases hc with hc | rfl | hc
    · cases sg <;> simp [Sign.chars] at hc <;> subst hc <;> decide
    · exact lit_of_pos hd
    · exact lit_of_dec (hall c hc)
  | hex sg x ds hx hne hall =>
    intro c hc
    simp at hc
    rcases hc with hc | rfl | rfl | hc
    · cases sg <;> simp [Sign.chars] at hc <;> subst hc <;> decide
    · decide
    · rcases hx with rfl | rfl <;> decide
    · exact lit_of_hex (hall c hc)

theorem intlit_noNewline {s : Str} {v : Int} (h : integerValueToInt s = some v) : '\n' ∉ s := by
  intro hm
  have := intlit_allLit h '\n' hm
  revert this; decide

/-! ### the decision procedure `Dsp0004.parse` vs the grammar vs pywbem's recogniser -/

theorem isOctDigit_isDec {c : Char} (h : isOctDigit c = true) : isDec c = true := by
  simp [isOctDigit, isDec] at *; omega

theorem parse_sound {s : Str} {v : Int} (h : parse s = some v) : IsIntegerValue s v := by
  obtain ⟨sg, hs, hsg⟩ := splitSign_sign s
  unfold parse at h
  split at h
  · rename_i v' hv
    simp at h; subst h
    unfold binaryBody at hv
    split at hv
    · simp at hv
    · rename_i b hb
      split at hv
      · rename_i hc
        simp only [Bool.and_eq_true, Bool.or_eq_true, beq_iff_eq, Bool.not_eq_true', List.isEmpty_eq_false_iff] at hc
        obtain ⟨ys, hys⟩ := List.getLast?_eq_some_iff.mp hb
        rw [hys, List.dropLast_concat] at hc hv
        simp at hv; subst hv
        rw [hsg, natOf_eq_posValue, hs, hys]
        exact .binary sg ys b hc.1.2 (fun c hc' => List.all_eq_true.mp hc.2 c hc') hc.1.1
      · simp at hv
  · split at h
    · rename_i v' hv
      simp at h; subst h
      cases hr : (splitSign s).2 with
      | nil => rw [hr] at hv; simp [octalBodyD] at hv
      | cons c ds =>
        rw [hr] at hv
        simp only [octalBodyD] at hv
        split at hv
        · rename_i hc
          simp at hv; subst hv
          obtain ⟨rfl, hne, hall⟩ := hc
          rw [hsg, natOf_eq_posValue, hs, hr]
          exact .octal sg ds hne (fun c hc' => List.all_eq_true.mp hall c hc')
        · simp at hv
    · split at h
      · rename_i v' hv
        simp at h; subst h
        cases hr : (splitSign s).2 with
        | nil => rw [hr] at hv; simp [decimalBody] at hv
        | cons d ds =>
          rw [hr] at hv
          simp only [decimalBody] at hv
          split at hv
          · rename_i hc
            simp at hv; subst hv
            obtain ⟨rfl, rfl⟩ := hc
            rw [hs, hr]; exact .decimalZero sg
          · split at hv
            · rename_i hc
              simp at hv; subst hv
              rw [hsg, natOf_eq_posValue, hs, hr]
              exact .decimal sg d ds hc.1 (fun c hc' => List.all_eq_true.mp hc.2 c hc')
            · simp at hv
      · unfold hexBody at h
        split at h
        · rename_i z x ds hr
          split at h
          · rename_i hc
            simp at h; subst h
            obtain ⟨rfl, hx, hne, hall⟩ := hc
            rw [hsg, natOf_eq_posValue, hs, hr]
            exact .hex sg x ds hx hne (fun c hc' => List.all_eq_true.mp hall c hc')
          · simp at h
        · simp at h

theorem parse_complete {s : Str} {v : Int} (h : IsIntegerValue s v) : parse s = some v := by
  cases h with
  | binary sg ds b hne hall hb =>
    cases ds with
    | nil => exact absurd rfl hne
    | cons c t =>
      have hc := isBin_not_sign (hall c (by simp))
      unfold parse
      rw [show sg.chars ++ (c :: t ++ [b]) = sg.chars ++ c :: (t ++ [b]) by simp, splitSign_chars sg c _ hc.1 hc.2]
      have : binaryBody (decide (sg = .minus)) (c :: (t ++ [b])) = some (sg.apply (posValue 2 (c :: t))) := by
        unfold binaryBody
        have e : c :: (t ++ [b]) = (c :: t) ++ [b] := by simp
        rw [e, List.getLast?_concat, List.dropLast_concat]
        have hb' : (b == 'b' || b == 'B') = true := by rcases hb with rfl | rfl <;> decide
        have hall' : (c :: t).all isBin = true := List.all_eq_true.mpr hall
        simp only [hb', hall', List.isEmpty_cons, Bool.not_false, Bool.and_self, if_true]
        rw [signed_decide, natOf_eq_posValue]
      rw [this]
  | octal sg ds hne hall =>
    unfold parse
    rw [splitSign_chars sg '0' ds (by decide) (by decide)]
    have hb : binaryBody (decide (sg = .minus)) ('0' :: ds) = none := by
      apply binaryBody_none_of_last
      intro l hl
      have hm : l ∈ '0' :: ds := List.mem_of_getLast? hl
      simp at hm
      rcases hm with rfl | hm
      · decide
      · exact isDec_not_b (isOctDigit_isDec (hall l hm))
    rw [hb]
    simp only [octalBodyD, hne, ne_eq, not_false_eq_true, List.all_eq_true.mpr hall, and_self, if_true]
    rw [signed_decide, natOf_eq_posValue]
  | decimalZero sg => cases sg <;> decide
  | decimal sg d ds hd hall =>
    have hc := isPos_not_sign hd
    unfold parse
    rw [splitSign_chars sg d ds hc.1 hc.2]
    have hb : binaryBody (decide (sg = .minus)) (d :: ds) = none := by
      apply binaryBody_none_of_last
      intro l hl
      have hm : l ∈ d :: ds := List.mem_of_getLast? hl
      simp at hm
      rcases hm with rfl | hm
      · exact isDec_not_b (isPos_isDec hd)
      · exact isDec_not_b (hall l hm)
    have hd0 : d ≠ '0' := by intro e; subst e; simp [isPos] at hd
    rw [hb]
    simp only [octalBodyD, hd0, false_and, if_false, decimalBody, hd, List.all_eq_true.mpr hall, and_self, if_true]
    rw [signed_decide, natOf_eq_posValue]
  | hex sg x ds hx hne hall =>
    unfold parse
    rw [splitSign_chars sg '0' (x :: ds) (by decide) (by decide)]
    have hxb : isBin x = false := by rcases hx with rfl | rfl <;> decide
    have hxo : isOctDigit x = false := by rcases hx with rfl | rfl <;> decide
    have hb : binaryBody (decide (sg = .minus)) ('0' :: x :: ds) = none := by
      unfold binaryBody
      split
      · rfl
      · rename_i b hb
        obtain ⟨ys, hys⟩ := List.getLast?_eq_some_iff.mp hb
        rw [hys, List.dropLast_concat]
        have hxm : x ∈ ys := by
          cases ys with
          | nil => simp at hys
          | cons a ys' =>
            cases ys' with
            | nil =>
              simp at hys
              exact absurd hys.2.2 (by simp [hne])
            | cons a' ys'' => simp at hys; simp [hys.2.1]
        have : ys.all isBin = false := by
          rw [List.all_eq_false]
          exact ⟨x, hxm, by simp [hxb]⟩
        simp [this]
    rw [hb]
    have hx' : (x = 'x' ∨ x = 'X') := hx
    simp only [octalBodyD, List.all_cons, hxo, Bool.false_and, Bool.false_eq_true, and_false, if_false,
      decimalBody, reduceCtorEq, show isPos '0' = false by decide, false_and, hexBody, hx', hne, ne_eq,
      not_false_eq_true, List.all_eq_true.mpr hall, and_self, if_true]
    rw [signed_decide, natOf_eq_posValue]

theorem parse_iff (s : Str) (v : Int) : parse s = some v ↔ IsIntegerValue s v :=
  ⟨parse_sound, parse_complete⟩

/-- the grammar is unambiguous about the value -/
theorem isIntegerValue_unique {s : Str} {v w : Int} (h1 : IsIntegerValue s v) (h2 : IsIntegerValue s w) : v = w := by
  have a := parse_complete h1
  have b := parse_complete h2
  rw [a] at b; simpa using b

/-- on the excluded class pywbem's recogniser answers none although the grammar has a value -/
theorem intlit_none_of_octalZero {s : Str} (h : OctalWithZeroDigit s) :
    integerValueToInt s = none ∧ ∃ v, parse s = some v := by
  obtain ⟨sg, ds, rfl, hne, hall, h0⟩ := h
  constructor
  · cases hv : integerValueToInt (sg.chars ++ '0' :: ds) with
    | none => rfl
    | some v =>
      exfalso
      -- the recogniser would have to take one of its four branches; compute them
      unfold integerValueToInt matchBinary matchOctal matchDecimal matchHex at hv
      rw [splitSign_chars sg '0' ds (by decide) (by decide)] at hv
      have hb : binaryBody (decide (sg = .minus)) ('0' :: ds) = none := by
        apply binaryBody_none_of_last
        intro l hl
        have hm : l ∈ '0' :: ds := List.mem_of_getLast? hl
        simp at hm
        rcases hm with rfl | hm
        · decide
        · exact isDec_not_b (isOctDigit_isDec (hall l hm))
      have ho : ds.all isOct = false := by
        rw [List.all_eq_false]; exact ⟨'0', h0, by decide⟩
      cases ds with
      | nil => exact hne rfl
      | cons d t =>
        have hd : isOctDigit d = true := hall d (by simp)
        have hdx : ¬ (d = 'x' ∨ d = 'X') := by
          rintro (rfl | rfl) <;> simp [isOctDigit] at hd
        rw [hb] at hv
        simp [octalBody, ho, decimalBody, show isPos '0' = false by decide, hexBody, hdx] at hv
  · exact ⟨_, parse_complete (.octal sg ds hne hall)⟩

end Proofs.IntLit
