/-
C06: the typed element classes (Model/TypedElems.lean): constructors, value setter, CIMInstance histories.
-/
import Proofs.Lemmas.CimUnpack
import Pywbem.Model.TypedElems

namespace Proofs.CimTypes
open Pywbem.Proto Pywbem.Model.CimTypes Pywbem.Model.CimValue Pywbem.Model.TypedElems

/-- typed storage of cimvalue() at the level of values (scalars and arrays), for every type except string/char16 -/
theorem cimvalue_typed_val (env : Env) (v r : Val) (t : Ty) (h : cimvalue env v (some t) = .ok r)
    (hi : valInv v = true) (hs : t ≠ .string) (hc : t ≠ .char16) : hasType r t = true := by
  have hpu : ∀ s, passesUntyped s t = false := by
    intro s; simp [passesUntyped, hs, hc]
  unfold cimvalue at h
  split at h
  · simp at h; subst h; simp [hasType, hasTypeSc]
  · simp only [bind, Except.bind, pure, Except.pure] at h
    cases v with
    | sc s =>
      simp only at h
      cases hv : cimvalueSc env s t with
      | error e => simp [hv] at h
      | ok r' =>
        simp [hv] at h; subst h
        exact cimvalueSc_typed env s t r' hv (hpu s) (by simpa [valInv] using hi)
    | list l =>
      simp only at h
      cases hm : l.mapM (fun s => cimvalueSc env s t) with
      | error e => simp [hm] at h
      | ok rs =>
        simp [hm] at h; subst h
        simp only [hasType]
        have hi' : ∀ s ∈ l, scInv s = true := by simpa [valInv] using hi
        exact mapM_all _ _ l rs (fun a b ha hab => cimvalueSc_typed env a t b hab (hpu a) (hi' a ha)) hm

theorem setValue_ok (env : Env) (e e' : Elem) (v : Val) (h : setValue env e v = .ok e') :
    e'.kind = e.kind ∧ e'.type = e.type ∧ e'.isArray = e.isArray ∧ e'.embedded = e.embedded ∧
    cimvalue env v (some e.type) = .ok e'.value := by
  unfold setValue at h
  cases hc : cimvalue env v (some e.type) with
  | error x => simp [hc, bind, Except.bind] at h
  | ok r => simp [hc, bind, Except.bind, pure, Except.pure] at h; subst h; simp

theorem setValue_typed (env : Env) (e e' : Elem) (v : Val) (h : setValue env e v = .ok e') (hi : valInv v = true) :
    Typed e' = true := by
  obtain ⟨_, ht, _, _, hv⟩ := setValue_ok env e e' v h
  unfold Typed
  by_cases hs : e.type = .string
  · simp [ht, hs]
  · by_cases hc : e.type = .char16
    · simp [ht, hc]
    · have := cimvalue_typed_val env v e'.value e.type hv hi hs hc
      simp [ht, this]

theorem setValue_err (env : Env) (e : Elem) (v : Val) (x : PyExc) (h : setValue env e v = .error x) : TV x := by
  unfold setValue at h
  cases hc : cimvalue env v (some e.type) with
  | error x' => simp [hc, bind, Except.bind] at h; subst h; exact cimvalue_err _ _ _ _ hc
  | ok r => simp [hc, bind, Except.bind, pure, Except.pure] at h

theorem setType_ok (k : ElemKind) (t : Option Ty) (ty : Ty) (h : setType k t = .ok ty) : t = some ty ∧ typeAllowed k ty = true := by
  unfold setType at h
  split at h
  · simp at h
  · split at h <;> simp at h
    rename_i hta; subst h; exact ⟨rfl, hta⟩

theorem setType_err (k : ElemKind) (t : Option Ty) (x : PyExc) (h : setType k t = .error x) : x = .valueError := by
  unfold setType at h
  split at h
  · simp at h; exact h.symm
  · split at h <;> simp at h; exact h.symm

/-- what a successful constructor call has done: the type passed the `type` setter and the value went through cimvalue() -/
theorem mkProperty_ok (env : Env) (a : Args) (e : Elem) (h : mkProperty env a = .ok e) :
    e.kind = .property ∧ typeAllowed .property e.type = true ∧ cimvalue env a.value (some e.type) = .ok e.value := by
  simp only [mkProperty, bind, Except.bind, pure, Except.pure] at h
  repeat' split at h
  all_goals first
    | (simp at h; done)
    | (simp at h; subst h; simp
       exact ⟨(setType_ok _ _ _ (by assumption)).2, by assumption⟩)

theorem mkParameter_ok (env : Env) (a : Args) (e : Elem) (h : mkParameter env a = .ok e) :
    e.kind = .parameter ∧ typeAllowed .parameter e.type = true ∧ cimvalue env a.value (some e.type) = .ok e.value := by
  simp only [mkParameter, bind, Except.bind, pure, Except.pure] at h
  repeat' split at h
  all_goals first
    | (simp at h; done)
    | (simp at h; subst h; simp
       exact ⟨(setType_ok _ _ _ (by assumption)).2, by assumption⟩)

theorem mkQualifier_ok (env : Env) (a : Args) (e : Elem) (h : mkQualifier env a = .ok e) :
    e.kind = .qualifier ∧ typeAllowed .qualifier e.type = true ∧ cimvalue env a.value (some e.type) = .ok e.value := by
  simp only [mkQualifier, bind, Except.bind, pure, Except.pure] at h
  repeat' split at h
  all_goals first
    | (simp at h; done)
    | (simp at h; subst h; simp
       exact ⟨(setType_ok _ _ _ (by assumption)).2, by assumption⟩)

theorem mkQualifierDecl_ok (env : Env) (a : Args) (e : Elem) (h : mkQualifierDecl env a = .ok e) :
    e.kind = .qualifierDecl ∧ typeAllowed .qualifierDecl e.type = true ∧ cimvalue env a.value (some e.type) = .ok e.value := by
  simp only [mkQualifierDecl, bind, Except.bind, pure, Except.pure] at h
  repeat' split at h
  all_goals first
    | (simp at h; done)
    | (simp at h; subst h; simp
       exact ⟨(setType_ok _ _ _ (by assumption)).2, by assumption⟩)

theorem mkElem_ok (env : Env) (k : ElemKind) (a : Args) (e : Elem) (h : mkElem env k a = .ok e) :
    e.kind = k ∧ typeAllowed k e.type = true ∧ cimvalue env a.value (some e.type) = .ok e.value := by
  cases k <;> simp only [mkElem] at h
  · exact mkProperty_ok env a e h
  · exact mkParameter_ok env a e h
  · exact mkQualifier_ok env a e h
  · exact mkQualifierDecl_ok env a e h

theorem inferType_err (v : Val) (x : PyExc) (h : inferType v = .error x) : x = .valueError := by
  unfold inferType at h
  split at h
  · simp at h; exact h.symm
  · split at h <;> simp at h; exact h.symm

theorem checkArrayParms_err (b : Bool) (v : Val) (x : PyExc) (h : checkArrayParms b v = .error x) : x = .valueError := by
  unfold checkArrayParms at h
  repeat' split at h
  all_goals first | (simp at h; done) | (simp at h; exact h.symm)

theorem checkEmb_err (b : Bool) (t : Option Ty) (v : Val) (x : PyExc) (h : checkEmb b t v = .error x) : x = .valueError := by
  unfold checkEmb at h
  repeat' split at h
  all_goals first | (simp at h; done) | (simp at h; exact h.symm)

theorem throw_err {α} (e err : PyExc) (h : (throw e : Except PyExc α) = .error err) : err = e := by
  simp [throw, throwThe, MonadExceptOf.throw] at h; exact h.symm

/-- closes `h : Except.error err = Except.error x` given the failing call among the hypotheses -/
macro "elem_err_close" h:ident : tactic =>
  `(tactic| first
    | (simp at $h:ident; done)
    | (simp [throw, throwThe, MonadExceptOf.throw] at $h:ident
       first
         | (subst $h; exact Or.inr (inferType_err _ _ (by assumption)))
         | (subst $h; exact Or.inr (inferType_err _ _ ((map_err_iff _ _ _).mp (by assumption))))
         | (subst $h; exact Or.inr (checkArrayParms_err _ _ _ (by assumption)))
         | (subst $h; exact Or.inr (checkEmb_err _ _ _ _ (by assumption)))
         | (subst $h; exact Or.inr (setType_err _ _ _ (by assumption)))
         | (subst $h; exact cimvalue_err _ _ _ _ (by assumption))
         | (subst $h; exact Or.inr (throw_err (α := Unit) _ _ (by assumption)))
         | (exact Or.inr (Eq.symm $h))))

theorem mkProperty_err (env : Env) (a : Args) (x : PyExc) (h : mkProperty env a = .error x) : TV x := by
  simp only [mkProperty, bind, Except.bind, pure, Except.pure] at h
  repeat' split at h
  all_goals elem_err_close h

theorem mkParameter_err (env : Env) (a : Args) (x : PyExc) (h : mkParameter env a = .error x) : TV x := by
  simp only [mkParameter, bind, Except.bind, pure, Except.pure] at h
  repeat' split at h
  all_goals elem_err_close h

theorem mkQualifier_err (env : Env) (a : Args) (x : PyExc) (h : mkQualifier env a = .error x) : TV x := by
  simp only [mkQualifier, bind, Except.bind, pure, Except.pure] at h
  repeat' split at h
  all_goals elem_err_close h

theorem mkQualifierDecl_err (env : Env) (a : Args) (x : PyExc) (h : mkQualifierDecl env a = .error x) : TV x := by
  simp only [mkQualifierDecl, bind, Except.bind, pure, Except.pure] at h
  repeat' split at h
  all_goals elem_err_close h

theorem mkElem_err (env : Env) (k : ElemKind) (a : Args) (x : PyExc) (h : mkElem env k a = .error x) : TV x := by
  cases k <;> simp only [mkElem] at h
  · exact mkProperty_err env a x h
  · exact mkParameter_err env a x h
  · exact mkQualifier_err env a x h
  · exact mkQualifierDecl_err env a x h

theorem mkElem_typed (env : Env) (k : ElemKind) (a : Args) (e : Elem) (h : mkElem env k a = .ok e)
    (hi : valInv a.value = true) : Typed e = true := by
  obtain ⟨_, _, hv⟩ := mkElem_ok env k a e h
  unfold Typed
  by_cases hs : e.type = .string
  · simp [hs]
  · by_cases hc : e.type = .char16
    · simp [hc]
    · simp [cimvalue_typed_val env a.value e.value e.type hv hi hs hc]

/-! ### CIMInstance histories -/

theorem putProp_all (P : Elem → Bool) (l : List (Nat × Elem)) (k : Nat) (e : Elem)
    (hl : l.all (fun p => P p.2) = true) (he : P e = true) : (putProp l k e).all (fun p => P p.2) = true := by
  induction l with
  | nil => simp [putProp, he]
  | cons a r ih =>
    simp only [List.all_cons, Bool.and_eq_true] at hl
    unfold putProp
    split
    · simp [he, hl.2]
    · simp only [List.all_cons, Bool.and_eq_true]; exact ⟨hl.1, ih hl.2⟩

theorem get?_typed (i : Inst) (k : Nat) (e : Elem) (hi : i.typed = true) (h : i.get? k = some e) : Typed e = true := by
  unfold Inst.get? at h
  cases hf : i.props.find? (fun p => p.1 == k) with
  | none => simp [hf] at h
  | some p =>
    simp [hf] at h; subst h
    have := List.mem_of_find?_eq_some hf
    exact (List.all_eq_true.mp hi) p this

theorem setItem_typed (env : Env) (i i' : Inst) (k : Nat) (g : Given) (hi : i.typed = true) (hg : givenInv g = true)
    (h : setItem env i k g = .ok i') : i'.typed = true := by
  unfold setItem at h
  cases g with
  | value v =>
    simp only [bind, Except.bind, pure, Except.pure] at h
    cases hp : mkProperty env { value := v } with
    | error x => simp [hp] at h
    | ok p =>
      simp [hp] at h; subst h
      exact putProp_all Typed _ _ _ hi (mkElem_typed env .property { value := v } p (by simpa [mkElem] using hp) (by simpa [givenInv] using hg))
  | prop name a =>
    simp only [bind, Except.bind, pure, Except.pure] at h
    cases hp : mkProperty env a with
    | error x => simp [hp] at h
    | ok p =>
      simp only [hp] at h
      split at h
      · simp [throw, throwThe, MonadExceptOf.throw] at h
      · simp at h; subst h
        exact putProp_all Typed _ _ _ hi (mkElem_typed env .property a p (by simpa [mkElem] using hp) (by simpa [givenInv] using hg))

theorem setItem_err (env : Env) (i : Inst) (k : Nat) (g : Given) (x : PyExc) (h : setItem env i k g = .error x) : TV x := by
  unfold setItem at h
  cases g with
  | value v =>
    simp only [bind, Except.bind, pure, Except.pure] at h
    cases hp : mkProperty env { value := v } with
    | error x' => simp [hp] at h; subst h; exact mkProperty_err _ _ _ hp
    | ok p => simp [hp] at h
  | prop name a =>
    simp only [bind, Except.bind, pure, Except.pure] at h
    cases hp : mkProperty env a with
    | error x' => simp [hp] at h; subst h; exact mkProperty_err _ _ _ hp
    | ok p =>
      simp only [hp] at h
      split at h
      · simp [throw, throwThe, MonadExceptOf.throw] at h; exact Or.inr h.symm
      · simp at h

theorem setExisting_typed (env : Env) (i i' : Inst) (k : Nat) (v : Val) (hi : i.typed = true) (hv : valInv v = true)
    (h : setExisting env i k v = .ok i') : i'.typed = true := by
  unfold setExisting at h
  split at h
  · simp at h; subst h; exact hi
  · rename_i e he
    simp only [bind, Except.bind, pure, Except.pure] at h
    cases hs : setValue env e v with
    | error x => simp [hs] at h
    | ok e' =>
      simp [hs] at h; subst h
      exact putProp_all Typed _ _ _ hi (setValue_typed env e e' v hs hv)

theorem setExisting_err (env : Env) (i : Inst) (k : Nat) (v : Val) (x : PyExc) (h : setExisting env i k v = .error x) : TV x := by
  unfold setExisting at h
  split at h
  · simp at h
  · rename_i e he
    simp only [bind, Except.bind, pure, Except.pure] at h
    cases hs : setValue env e v with
    | error x' => simp [hs] at h; subst h; exact setValue_err _ _ _ _ hs
    | ok e' => simp [hs] at h

theorem propValue_typed (env : Env) (i i' : Inst) (k : Nat) (v : Val) (hi : i.typed = true) (hv : valInv v = true)
    (h : propValue env i k v = .ok i') : i'.typed = true := by
  unfold propValue at h
  split at h
  · simp at h
  · rename_i e he
    simp only [bind, Except.bind, pure, Except.pure] at h
    cases hs : setValue env e v with
    | error x => simp [hs] at h
    | ok e' =>
      simp [hs] at h; subst h
      exact putProp_all Typed _ _ _ hi (setValue_typed env e e' v hs hv)

theorem propValue_err (env : Env) (i : Inst) (k : Nat) (v : Val) (x : PyExc) (h : propValue env i k v = .error x) :
    TV x ∨ x = .keyError := by
  unfold propValue at h
  split at h
  · simp at h; exact Or.inr h.symm
  · rename_i e he
    simp only [bind, Except.bind, pure, Except.pure] at h
    cases hs : setValue env e v with
    | error x' => simp [hs] at h; subst h; exact Or.inl (setValue_err _ _ _ _ hs)
    | ok e' => simp [hs] at h

theorem foldItems_inv {α} (f : Inst → α → Except PyExc Inst) (P : Inst → Prop) (Q : α → Prop) (E : PyExc → Prop)
    (hf : ∀ i a i', P i → Q a → f i a = .ok i' → P i') (he : ∀ i a x, f i a = .error x → E x)
    (i : Inst) (l : List α) (hi : P i) (hl : ∀ a ∈ l, Q a) :
    P (foldItems f i l).1 ∧ ∀ x, (foldItems f i l).2 = some x → E x := by
  induction l generalizing i with
  | nil => simp [foldItems, hi]
  | cons a r ih =>
    unfold foldItems
    cases hfa : f i a with
    | error x => simp; exact ⟨hi, he i a x hfa⟩
    | ok i' =>
      simp only
      exact ih i' (hf i a i' hi (hl a (by simp)) hfa) (fun b hb => hl b (by simp [hb]))

/-- one step keeps "every property holds a value of its CIM type"; what it raises is TypeError/ValueError
    (or KeyError for `properties[unknown name]`) -/
theorem step_inv (env : Env) (i : Inst) (o : Op) (hi : i.typed = true) (ho : opInv o = true) :
    (step env i o).1.typed = true ∧ ∀ x, (step env i o).2 = some x → (TV x ∨ x = .keyError) := by
  cases o with
  | update items =>
    simp only [step, update]
    have := foldItems_inv (fun i (kv : Nat × Given) => setItem env i kv.1 kv.2) (fun i => i.typed = true)
      (fun kv => givenInv kv.2 = true) TV
      (fun i a i' h1 h2 h3 => setItem_typed env i i' a.1 a.2 h1 h2 h3) (fun i a x h => setItem_err env i a.1 a.2 x h)
      i items hi (by simpa [opInv] using ho)
    exact ⟨this.1, fun x hx => Or.inl (this.2 x hx)⟩
  | updateExisting items =>
    simp only [step, updateExisting]
    have := foldItems_inv (fun i (kv : Nat × Val) => setExisting env i kv.1 kv.2) (fun i => i.typed = true)
      (fun kv => valInv kv.2 = true) TV
      (fun i a i' h1 h2 h3 => setExisting_typed env i i' a.1 a.2 h1 h2 h3) (fun i a x h => setExisting_err env i a.1 a.2 x h)
      i items hi (by simpa [opInv] using ho)
    exact ⟨this.1, fun x hx => Or.inl (this.2 x hx)⟩
  | setItem k g =>
    simp only [step]
    cases hs : setItem env i k g with
    | error x => simp; exact ⟨hi, Or.inl (setItem_err env i k g x hs)⟩
    | ok i' => simp; exact setItem_typed env i i' k g hi (by simpa [opInv] using ho) hs
  | propValue k v =>
    simp only [step]
    cases hs : propValue env i k v with
    | error x => simp; exact ⟨hi, propValue_err env i k v x hs⟩
    | ok i' => simp; exact propValue_typed env i i' k v hi (by simpa [opInv] using ho) hs

/-- **history invariant** -/
theorem run_inv (env : Env) (i : Inst) (ops : List Op) (hi : i.typed = true) (ho : ∀ o ∈ ops, opInv o = true) :
    (run env i ops).1.typed = true ∧ ∀ x, some x ∈ (run env i ops).2 → (TV x ∨ x = .keyError) := by
  induction ops generalizing i with
  | nil => simp [run, hi]
  | cons o r ih =>
    have hs := step_inv env i o hi (ho o (by simp))
    have := ih (step env i o).1 hs.1 (fun o' ho' => ho o' (by simp [ho']))
    simp only [run]
    refine ⟨this.1, ?_⟩
    intro x hx
    simp at hx
    rcases hx with hx | hx
    · exact hs.2 x hx.symm
    · exact this.2 x hx

/-! ### the class invariant of CIMInt objects is kept by cimvalue() -/

theorem scInv_of_hasType (r : Sc) (t : Ty) (h : hasTypeSc r t = true) : scInv r = true := by
  cases r <;> simp [scInv]
  cases t <;> simp [hasTypeSc] at h
  exact ⟨h.1.2, h.2⟩

theorem cimvalueSc_scInv (env : Env) (v r : Sc) (t : Ty) (h : cimvalueSc env v t = .ok r) (hi : scInv v = true) :
    scInv r = true := by
  by_cases hp : passesUntyped v t = false
  · exact scInv_of_hasType r t (cimvalueSc_typed env v t r h hp hi)
  · simp at hp
    have : r = v := by
      cases t <;> simp [passesUntyped] at hp <;> cases v <;> simp [cimvalueSc] at h hp ⊢ <;> exact h.symm
    rw [this]; exact hi

end Proofs.CimTypes
