/-
C06: the parse side of numeric CIM-XML text (Model/CimValue.lean: unpackNumeric, mirrors
pywbem/_tupleparse.py unpack_numeric) and the fact that CPython int() never accepts a text containing '.'.
-/
import Proofs.Lemmas.CimTypes

namespace Proofs.CimTypes
open Pywbem.Proto Pywbem.Model.CimTypes Pywbem.Model.CimValue

theorem scanDigits_dot (base : Nat) (hb : base ≤ 36) (l : List Nat) (acc nd : Nat) (pu : Bool) (v nd' : Nat) (rest : List Nat)
    (hm : 46 ∈ l) (h : scanDigits base l acc nd pu = some (v, nd', rest)) : 46 ∈ rest := by
  induction l generalizing acc nd pu with
  | nil => simp at hm
  | cons c cs ih =>
    unfold scanDigits at h
    by_cases h95 : c = 95
    · subst h95
      simp at h
      have : 46 ∈ cs := by simpa using hm
      exact ih _ _ _ this h.2
    · have e95 : (c == 95) = false := by simpa using h95
      simp only [e95] at h
      by_cases hd : digitValue c < base
      · simp [hd] at h
        have hc : c ≠ 46 := by
          intro hc; subst hc
          have : digitValue 46 = 37 := by decide
          omega
        have : 46 ∈ cs := by
          rcases List.mem_cons.mp hm with h1 | h1
          · exact absurd h1.symm hc
          · exact h1
        exact ih _ _ _ this h
      · simp [hd] at h
        obtain ⟨_, _, _, rfl⟩ := h; exact hm

theorem mem_dropWhile_of_mem {p : Nat → Bool} {l : List Nat} {a : Nat} (ha : a ∈ l) (hp : p a = false) :
    a ∈ l.dropWhile p := by
  induction l with
  | nil => simp at ha
  | cons c cs ih =>
    simp only [List.dropWhile]
    split
    · rcases List.mem_cons.mp ha with h | h
      · subst h; simp_all
      · exact ih h
    · exact ha

theorem stripSign_mem {l : List Nat} (h : 46 ∈ l) : 46 ∈ (stripSign l).2 := by
  unfold stripSign
  split <;> simp_all

theorem stripPrefix_mem (base : Nat) {l : List Nat} (h : 46 ∈ l) : 46 ∈ stripPrefix base l := by
  unfold stripPrefix
  split
  · rename_i c r
    split
    · rename_i hc
      have hc46 : c ≠ 46 := by
        intro h46; subst h46; simp [isX, isO, isB] at hc
      have hr : 46 ∈ r := by
        simp at h
        rcases h with h | h
        · exact absurd h.symm hc46
        · exact h
      split
      · simp_all
      · exact hr
    · exact h
  · exact h

theorem finishScan_dot (sp : Nat → Bool) (hsp : sp 46 = false) (neg : Bool) (base : Nat) (hb : base ≤ 36) (e : Bool)
    (l : List Nat) (hm : 46 ∈ l) : finishScan sp neg base e l = .error .valueError := by
  unfold finishScan
  split
  · rfl
  · cases hs : scanDigits base l 0 0 false with
    | none => rfl
    | some r =>
      obtain ⟨v, nd, rest⟩ := r
      have h1 := scanDigits_dot base hb l 0 0 false v nd rest hm hs
      have h2 := mem_dropWhile_of_mem h1 hsp
      have h3 : (rest.dropWhile sp).isEmpty = false := by
        cases hd : rest.dropWhile sp with
        | nil => rw [hd] at h2; simp at h2
        | cons _ _ => rfl
      simp only [h3]
      repeat' split
      all_goals first | rfl | simp_all

theorem pickBase_le (base0 : Nat) (h : base0 ≤ 36) (l : List Nat) : (pickBase base0 l).1 ≤ 36 := by
  unfold pickBase
  repeat' split
  all_goals first | omega | simp

/-- a text containing '.' is never read as an integer by int() -/
theorem longFromString_dot (s : List Nat) (base0 : Nat) (hb : base0 ≤ 36) (hm : 46 ∈ s) :
    longFromString isCSpace s base0 = .error .valueError := by
  unfold longFromString
  simp only
  apply finishScan_dot _ (by decide) _ _ (pickBase_le base0 hb _)
  exact stripPrefix_mem _ (stripSign_mem (mem_dropWhile_of_mem hm (by decide)))

theorem mapM_opt_mem {f : Char → Option Nat} {s : List Char} {bs : List Nat} (h : s.mapM f = some bs)
    {c : Char} (hc : c ∈ s) {n : Nat} (hf : f c = some n) : n ∈ bs := by
  induction s generalizing bs with
  | nil => simp at hc
  | cons a as ih =>
    simp only [List.mapM_cons, bind, Option.bind] at h
    cases ha : f a with
    | none => simp [ha] at h
    | some x =>
      cases has : as.mapM f with
      | none => simp [ha, has] at h
      | some xs =>
        simp [ha, has, pure] at h
        subst h
        rcases List.mem_cons.mp hc with h1 | h1
        · subst h1; rw [hf] at ha; simp at ha; simp [ha]
        · simp [ih has h1]

/-- a str containing '.' is never read as an integer: int(s, base) raises ValueError -/
theorem intOfStr_dot (s : List Char) (b : Nat) (hb : b ≤ 36) (hm : '.' ∈ s) : intOfStr s b = .error .valueError := by
  unfold intOfStr
  cases hs : strToBytes s with
  | none => rfl
  | some bs =>
    simp only
    apply longFromString_dot bs b hb
    unfold strToBytes at hs
    exact mapM_opt_mem hs hm (by decide)

theorem isDig_toNat {c : Char} (h : isDig c = true) : 48 ≤ c.toNat ∧ c.toNat ≤ 57 := by
  simp [isDig] at h
  obtain ⟨h1, h2⟩ := h
  constructor
  · have := h1; simp [Char.le_def] at this; exact this
  · have := h2; simp [Char.le_def] at this; exact this

theorem isDig_not_space {c : Char} (h : isDig c = true) : isStrSpace c = false := by
  have := isDig_toNat h
  simp [isStrSpace]
  omega

theorem isDig_not_x {c : Char} (h : isDig c = true) : (c == 'x') = false ∧ (c == 'X') = false ∧ c ≠ '+' ∧ c ≠ '-' := by
  have := isDig_toNat h
  refine ⟨?_, ?_, ?_, ?_⟩
  · simp; intro hc; subst hc; simp at this
  · simp; intro hc; subst hc; simp at this
  · intro hc; subst hc; simp at this
  · intro hc; subst hc; simp at this

theorem dropWhile_head {p : Char → Bool} {a : Char} {t : List Char} (h : p a = false) :
    (a :: t).dropWhile p = a :: t := by simp [List.dropWhile, h]

theorem pyStrip_id {a z : Char} {mid : List Char} (ha : isStrSpace a = false) (hz : isStrSpace z = false) :
    pyStrip (a :: (mid ++ [z])) = a :: (mid ++ [z]) := by
  unfold pyStrip
  rw [dropWhile_head ha]
  have : (a :: (mid ++ [z])).reverse = z :: (mid.reverse ++ [a]) := by simp
  rw [this, dropWhile_head hz]
  simp

theorem last_digit {l : List Char} (hne : l ≠ []) (hall : l.all isDig = true) :
    ∃ init z, l = init ++ [z] ∧ isDig z = true := by
  refine ⟨l.dropLast, l.getLast hne, (List.dropLast_concat_getLast hne).symm, ?_⟩
  exact (List.all_eq_true.mp hall) _ (List.getLast_mem hne)

theorem GText.realValue_parts {g : GText} (h : g.isRealValue = true) :
    g.ok = true ∧ g.frac ≠ [] := by
  simp [GText.isRealValue] at h
  exact ⟨h.1, by simpa using h.2⟩

/-- a realValue text starts with '-' or a digit and ends with a digit -/
theorem render_ends {g : GText} (h : g.isRealValue = true) :
    ∃ a mid z, g.render = a :: (mid ++ [z]) ∧ isStrSpace a = false ∧ isStrSpace z = false := by
  obtain ⟨hok, hf⟩ := GText.realValue_parts h
  obtain ⟨h1, h2, h3, h4⟩ := GText.ok_parts hok
  -- the part after the integer digits ends with a digit
  have htail : ∃ init z, ('.' :: g.frac ++ g.expText) = init ++ [z] ∧ isDig z = true := by
    cases hx : g.exp with
    | none =>
      obtain ⟨i, z, hi, hz⟩ := last_digit hf h3
      exact ⟨'.' :: i, z, by simp [GText.expText, hx, hi], hz⟩
    | some sd =>
      obtain ⟨s, ds⟩ := sd
      have hds := h4 s ds hx
      have hne : ds ≠ [] := by
        simp only [GText.ok, Bool.and_eq_true, hx] at hok
        simpa using hok.2.1
      obtain ⟨i, z, hi, hz⟩ := last_digit hne hds
      exact ⟨'.' :: g.frac ++ 'E' :: (if s then '-' else '+') :: i, z, by simp [GText.expText, hx, hi], hz⟩
  obtain ⟨init, z, hinit, hz⟩ := htail
  obtain ⟨d0, ip', hip⟩ := List.exists_cons_of_ne_nil h1
  have hd0 : isDig d0 = true := by have := h2; rw [hip] at this; simp at this; exact this.1
  have hr : g.render = (if g.neg then ['-'] else []) ++ g.ip ++ ('.' :: g.frac ++ g.expText) := by
    simp [GText.render, hf]
  rw [hr, hinit, hip]
  cases g.neg
  · exact ⟨d0, ip' ++ init, z, by simp, isDig_not_space hd0, isDig_not_space hz⟩
  · exact ⟨'-', d0 :: ip' ++ init, z, by simp, by decide, isDig_not_space hz⟩

theorem hexCore_digits {d0 : Char} {ip' rest : List Char} (hall' : ip'.all isDig = true) :
    isHexPattern.hexCore (d0 :: (ip' ++ '.' :: rest)) = false := by
  cases ip' with
  | nil =>
    simp only [List.nil_append]
    unfold isHexPattern.hexCore
    split
    · rename_i heq; simp at heq; obtain ⟨_, hx, _⟩ := heq; subst hx; simp
    · rfl
  | cons d1 t =>
    have hd1 : isDig d1 = true := by simp at hall'; exact hall'.1
    obtain ⟨hx1, hx2, _, _⟩ := isDig_not_x hd1
    simp only [List.cons_append]
    unfold isHexPattern.hexCore
    split
    · rename_i heq; simp at heq; obtain ⟨_, hx, _⟩ := heq; subst hx; simp [hx1, hx2]
    · rfl

theorem hexBody_digit {d0 : Char} {l : List Char} (hd0 : isDig d0 = true) : isHexPattern.hexBody (d0 :: l) = d0 :: l := by
  obtain ⟨_, _, hp, hm⟩ := isDig_not_x hd0
  unfold isHexPattern.hexBody
  split
  · rename_i heq; simp at heq; exact absurd heq.1 hp
  · rename_i heq; simp at heq; exact absurd heq.1 hm
  · rfl

theorem render_not_hex {g : GText} (h : g.isRealValue = true) : isHexPattern g.render = false := by
  obtain ⟨hok, hf⟩ := GText.realValue_parts h
  obtain ⟨h1, h2, h3, _⟩ := GText.ok_parts hok
  obtain ⟨d0, ip', hip⟩ := List.exists_cons_of_ne_nil h1
  have hd0 : isDig d0 = true := by have := h2; rw [hip] at this; simp at this; exact this.1
  have hall' : ip'.all isDig = true := by have := h2; rw [hip] at this; simp at this; simpa using this.2
  have hr : g.render = (if g.neg then ['-'] else []) ++ (d0 :: ip') ++ ('.' :: g.frac ++ g.expText) := by
    simp [GText.render, hf, hip]
  rw [hr]
  unfold isHexPattern
  cases g.neg
  · simp only [Bool.false_eq_true, if_false, List.nil_append, List.cons_append, List.append_assoc]
    rw [hexBody_digit hd0]
    exact hexCore_digits hall'
  · simp only [if_true, List.cons_append, List.nil_append, List.append_assoc]
    have : isHexPattern.hexBody ('-' :: d0 :: (ip' ++ '.' :: (g.frac ++ g.expText))) = d0 :: (ip' ++ '.' :: (g.frac ++ g.expText)) := rfl
    rw [this]
    exact hexCore_digits hall'

theorem render_has_dot {g : GText} (h : g.isRealValue = true) : '.' ∈ g.render := by
  obtain ⟨_, hf⟩ := GText.realValue_parts h
  simp [GText.render, hf]

/-- **the parse side**: TupleParser.unpack_numeric reads every DSP0201 realValue text through float()
    (not through the hexadecimal or int() branches), for real32 and real64 -/
theorem unpackNumeric_realValue (g : GText) (h : g.isRealValue = true) (pf : Option Nat) :
    unpackNumeric pf g.render .real64 = (match pf with | some b => .ok (.real64 b) | none => .error .cimXmlParseError) ∧
    unpackNumeric pf g.render .real32 = (match pf with | some b => .ok (.real32 b) | none => .error .cimXmlParseError) := by
  obtain ⟨a, mid, z, hr, ha, hz⟩ := render_ends h
  have hstrip : pyStrip g.render = g.render := by rw [hr]; exact pyStrip_id ha hz
  have hhex := render_not_hex h
  have hint := intOfStr_dot g.render 10 (by omega) (render_has_dot h)
  unfold unpackNumeric
  simp only [hstrip, hhex, hint, Bool.false_eq_true, if_false]
  cases pf <;> simp

/-! ### unpack_numeric: which exceptions can escape (after fix 9123e9a in /repo) -/

theorem map_err_iff {α β} (f : α → β) (x : Except PyExc α) (e : PyExc) :
    Except.map f x = .error e ↔ x = .error e := by
  cases x <;> simp [Except.map]

theorem unp_no_ovf (pf : Option Nat) (data : List Char) (t : NumTy) (e : PyExc)
    (h : unpackNumeric pf data t = .error e) : e = .cimXmlParseError ∨ e = .valueError ∨ e = .typeError := by
  unfold unpackNumeric at h
  simp only at h
  split at h
  · -- the Python number could not be obtained
    rename_i e' hv
    simp at h; subst h
    split at hv
    · cases hi : intOfStr (pyStrip data) 16 with
      | ok v => simp [hi, Except.map] at hv
      | error e2 => simp [hi, Except.map] at hv; subst hv; exact Or.inr (Or.inl (intOfStr_err _ _ _ hi))
    · split at hv
      · simp at hv
      · split at hv <;> simp at hv
        exact Or.inl hv.symm
  · rename_i v hv
    split at h
    · simp at h; exact Or.inl h.symm
    · simp at h; exact Or.inl h.symm
    · rename_i r hne1 hne2
      -- the constructor result is an error that is neither ValueError nor OverflowError
      cases t <;> cases v <;> simp only [map_err_iff] at h hne1 hne2
      case int.inl | int.inr =>
        rcases mkInt_err _ _ _ _ h with h1 | h1 | h1
        · exact Or.inr (Or.inr h1)
        · subst h1; exact absurd h hne1
        · subst h1; exact absurd h hne2
      case real32.inl | real64.inl =>
        have h1 := intToF64_err _ _ h
        subst h1; exact absurd h hne2
      all_goals simp at h

end Proofs.CimTypes
