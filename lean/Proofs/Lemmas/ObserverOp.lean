/-
C19 — lemmas about one whole operation under observers (wbem_request, try body, finally clause).
-/
import Pywbem.Model.Observer
import Proofs.Lemmas.Observer

namespace Proofs.Lemmas.ObserverOp
open Pywbem.Proto Pywbem.Model.Utf8 Pywbem.Model.ToYaml Pywbem.Model.Observer
open Proofs.Lemmas.Utf8 Proofs.Lemmas.ToYaml Proofs.Lemmas.Observer

theorem xmlDecl_ascii : ∀ b ∈ xmlDecl, b < 0x80 := by decide

/-- the request body pywbem builds (XML declaration + UTF-8 encoding of the request text) is valid UTF-8 -/
theorem body_decodable (s : List Char) : (decodeStrict (xmlDecl ++ encode s)).isSome = true := by
  have := decodeStrictF_ascii_append xmlDecl xmlDecl_ascii (encode s) s (xmlDecl ++ encode s).length
    (by simp) (fun g hg => decodeStrictF_encode s g hg)
  unfold decodeStrict
  rw [this]
  rfl

/-- the CIM-XML extension headers never contain an Authorization field (their names are fixed) -/
theorem noAuth_headers (req : Req) : noAuth req.headers := by
  have h1 : hCIMOperation ≠ authName := by decide
  have h2 : hCIMMethod ≠ authName := by decide
  have h3 : hCIMObject ≠ authName := by decide
  have h4 : hCIMExport ≠ authName := by decide
  have h5 : hCIMExportMethod ≠ authName := by decide
  intro h hh
  simp only [Req.headers] at hh
  split at hh <;> simp at hh <;> rcases hh with rfl | rfl | rfl <;> assumption

/-- what may be assumed about the observer-independent part of an operation -/
structure Sane (call : Call) (core : Core) : Prop where
  noKw : kwCollision call = false
  argsOk : argsRecordable call.kwargs = true
  retOk : ∀ b r, core.parse b = .ok r → r.val.recordable = true ∧ retViewOk r.view = true

def srvOk : SrvTime → Prop
  | .str _ => False
  | _ => True

theorem forRecs_nil (f : Recorder → StageRes) : forRecs f [] = ([], [], none) := rfl

theorem wbemRequest_spec (recs : List Recorder) (creds : Creds) (b64 : Str → Str) (core : Core) (req : Req)
    (listener : Bool) (hrec : ∀ r ∈ recs, RecOk r) (hn : noAuth req.headers) :
    (wbemRequest .fixed recs creds b64 core req listener).result =
      (wbemRequest .fixed [] creds b64 core req listener).result ∧
    (wbemRequest .fixed recs creds b64 core req listener).sent =
      (wbemRequest .fixed [] creds b64 core req listener).sent ∧
    (∀ r ∈ (wbemRequest .fixed recs creds b64 core req listener).recorders, RecOk r) ∧
    (wbemRequest .fixed recs creds b64 core req listener).recorders.length = recs.length ∧
    (∀ p, (wbemRequest .fixed recs creds b64 core req listener).result = .ok p → srvOk p.2) := by
  have hb := body_decodable req.data
  generalize hbody : xmlDecl ++ encode req.data = body at hb
  generalize htarget : (if listener then ([] : Str) else "/cimom".toList) = target
  have h1 := forRecs_inv (stageRequestOne req.headers target body) RecOk RecOk
    (fun r hr => stageRequestOne_ok req.headers target body hn hb r hr) recs hrec
  have l1 := forRecs_fst_length (stageRequestOne req.headers target body) recs
  rcases hf1 : forRecs (stageRequestOne req.headers target body) recs with ⟨recs1, ev1, e1⟩
  rw [hf1] at h1 l1
  simp only at h1 l1
  obtain ⟨he1, hq1⟩ := h1
  subst he1
  simp only [wbemRequest, hbody, htarget, hf1, forRecs_nil]
  cases hsend : core.send body (req.headers ++ if listener = true then [] else authHeader b64 creds) with
  | raised e => exact ⟨rfl, rfl, hq1, l1, by intro p hp; simp at hp⟩
  | response resp =>
    have h2 := forRecs_inv (stageResponse1One resp) RecOk RecOk (fun r hr => stageResponse1One_ok resp r hr) recs1 hq1
    have l2 := forRecs_fst_length (stageResponse1One resp) recs1
    rcases hf2 : forRecs (stageResponse1One resp) recs1 with ⟨recs2, ev2, e2⟩
    rw [hf2] at h2 l2
    simp only at h2 l2
    obtain ⟨he2, hq2⟩ := h2
    subst he2
    simp only [hf2]
    by_cases hst : resp.status = 200
    · simp only [hst, ne_eq, not_true_eq_false, if_false]
      cases hct : core.badContentType resp with
      | some e =>
        simp only []
        exact ⟨by first | rfl | trivial, by first | rfl | trivial, hq2, by omega, by intro p hp; simp at hp⟩
      | none =>
        have h3 := forRecs_inv (stageResponse2One .fixed resp.body) RecOk RecOk
          (fun r hr => stageResponse2One_ok resp.body r hr) recs2 hq2
        have l3 := forRecs_fst_length (stageResponse2One .fixed resp.body) recs2
        rcases hf3 : forRecs (stageResponse2One .fixed resp.body) recs2 with ⟨recs3, ev3, e3⟩
        rw [hf3] at h3 l3
        simp only at h3 l3
        obtain ⟨he3, hq3⟩ := h3
        subst he3
        simp only []
        refine ⟨trivial, trivial, hq3, by omega, ?_⟩
        intro p hp
        simp only [Except.ok.injEq] at hp
        subst hp
        simp only [Variant.fixed]
        split
        · trivial
        · split
          · trivial
          · split <;> trivial
    · simp only [ne_eq, hst, not_false_eq_true, if_true]
      exact ⟨by first | rfl | trivial, by first | rfl | trivial, hq2, by omega, by intro p hp; simp at hp⟩

/-- what the operation does when nobody observes it -/
def coreOutcome (creds : Creds) (b64 : Str → Str) (core : Core) (listener : Bool) : Outcome :=
  match core.prep with
  | .error e => .error e
  | .ok req =>
    match (wbemRequest .fixed [] creds b64 core req listener).result with
    | .error e => .error e
    | .ok p => core.parse p.1

theorem tryBody_spec (c : Conn) (b64 : Str → Str) (core : Core) (call : Call) (listener : Bool)
    (_hs : Sane call core) (hrec : ∀ r ∈ c.recorders, RecOk r) :
    (tryBody .fixed c b64 core listener).outcome = coreOutcome c.info.creds b64 core listener ∧
    (tryBody .fixed c b64 core listener).conn.stats = c.stats ∧
    (∀ r ∈ (tryBody .fixed c b64 core listener).conn.recorders, RecOk r) ∧
    (tryBody .fixed c b64 core listener).conn.recorders.length = c.recorders.length ∧
    (srvOk c.lastSrvTime → srvOk (tryBody .fixed c b64 core listener).conn.lastSrvTime) ∧
    (tryBody .fixed c b64 core listener).conn.info = c.info := by
  cases hp : core.prep with
  | error e => simp [tryBody, coreOutcome, hp]; exact hrec
  | ok req =>
    have hn := noAuth_headers req
    have hw := wbemRequest_spec c.recorders c.info.creds b64 core req listener hrec hn
    obtain ⟨hres, _, hq, hl, hsrv⟩ := hw
    simp only [tryBody, coreOutcome, hp]
    cases hr : (wbemRequest .fixed c.recorders c.info.creds b64 core req listener).result with
    | error e =>
      rw [hr] at hres
      simp only [← hres]
      exact ⟨by first | rfl | trivial, by first | rfl | trivial, hq, hl, fun _ => trivial, by first | rfl | trivial⟩
    | ok p =>
      rw [hr] at hres
      have hsp := hsrv p hr
      obtain ⟨reply, srv⟩ := p
      simp only [← hres]
      cases hpar : core.parse reply with
      | error e => exact ⟨rfl, rfl, hq, hl, fun _ => hsp, rfl⟩
      | ok r => exact ⟨rfl, rfl, hq, hl, fun _ => hsp, rfl⟩

/-! ### statistics -/

theorem find_setOp_same (name : Str) (o : OpStat) : (ops : List (Str × OpStat)) →
    (setOp name o ops).find? (fun p => decide (p.1 = name)) = some (name, o)
  | [] => by simp [setOp]
  | p :: ps => by
    by_cases h : p.1 = name
    · simp [setOp, h]
    · simp [setOp, h, find_setOp_same name o ps]

theorem get_setOp_same (s : Stats) (name : Str) (o : OpStat) :
    Stats.get { s with ops := setOp name o s.ops } name = o := by
  simp [Stats.get, find_setOp_same]

theorem get_mk_setOp_same (en : Bool) (ops : List (Str × OpStat)) (name : Str) (o : OpStat) :
    Stats.get { enabled := en, ops := setOp name o ops } name = o := by
  simp [Stats.get, find_setOp_same]

theorem startTimer_started (s : Stats) (name : Str) (h : s.enabled = true) :
    ((s.startTimer name).get name).started = true ∧ (s.startTimer name).enabled = true := by
  simp only [Stats.startTimer, h, if_true]
  exact ⟨by rw [get_mk_setOp_same], trivial⟩

theorem startTimer_enabled (s : Stats) (name : Str) : (s.startTimer name).enabled = s.enabled := by
  simp only [Stats.startTimer]
  split <;> rfl

theorem stopTimer_ok (s : Stats) (name : Str) (a b : Nat) (srv : SrvTime) (f : Bool)
    (hst : s.enabled = true → (s.get name).started = true) (hsrv : srvOk srv) :
    ∃ st, s.stopTimer name a b srv f = .ok st ∧ st.enabled = s.enabled := by
  simp only [Stats.stopTimer]
  by_cases he : s.enabled = true
  · have := hst he
    simp only [he, Bool.not_true, Bool.false_eq_true, if_false, this]
    by_cases hsus : (s.get name).srvSuspended = true
    · simp [hsus, pure, Except.pure]
    · cases srv with
      | none => simp [hsus, pure, Except.pure]
      | num t => simp [hsus, pure, Except.pure]
      | str t => exact absurd hsrv (by simp [srvOk])
  · simp only [Bool.not_eq_true] at he
    simp [he, pure, Except.pure]

/-! ### prologue, finally clause, whole operation -/

theorem isEmpty_eq_nil {α : Type} (l : List α) (h : l.isEmpty = true) : l = [] := by
  cases l with
  | nil => rfl
  | cons a b => simp at h

theorem prologue_ok (c : Conn) (call : Call) (hk : kwCollision call = false)
    (ha : argsRecordable call.kwargs = true) :
    (prologue c call).2.2 = none ∧ (∀ r ∈ (prologue c call).1, RecOk r) ∧
    (prologue c call).1.length = c.recorders.length := by
  simp only [prologue]
  by_cases he : c.recorders.isEmpty = true
  · have := isEmpty_eq_nil _ he
    simp [this]
  · simp only [he, hk, Bool.false_eq_true, if_false]
    have h0 := forRecs_inv (resetOne call.pull) (fun _ => True) RecOk (fun r _ => resetOne_ok call.pull r)
      c.recorders (fun _ _ => trivial)
    have l0 := forRecs_fst_length (resetOne call.pull) c.recorders
    have h1 := forRecs_inv (stageArgsOne call.method call.kwargs) RecOk RecOk
      (fun r hr => stageArgsOne_ok call.method call.kwargs ha r hr) _ h0.2
    have l1 := forRecs_fst_length (stageArgsOne call.method call.kwargs) (forRecs (resetOne call.pull) c.recorders).1
    exact ⟨h1.1, h1.2, by omega⟩

theorem finallyPart_spec (call : Call) (ev1 : List Event) (b : OpResult)
    (hst : b.conn.stats.enabled = true → (b.conn.stats.get call.method).started = true)
    (hsrv : srvOk b.conn.lastSrvTime) (hrec : ∀ r ∈ b.conn.recorders, RecOk r)
    (hret : retOk (retOf call b.outcome)) :
    ∃ st, b.conn.stats.stopTimer call.method b.conn.lastRequestLen b.conn.lastReplyLen b.conn.lastSrvTime
            (failedOf b.outcome) = .ok st ∧
      (finallyPart .fixed call ev1 b).outcome = b.outcome ∧
      (finallyPart .fixed call ev1 b).conn.stats = st ∧
      (finallyPart .fixed call ev1 b).conn.lastSrvTime = b.conn.lastSrvTime ∧
      (finallyPart .fixed call ev1 b).conn.lastRawReply = b.conn.lastRawReply ∧
      (finallyPart .fixed call ev1 b).conn.lastReplyLen = b.conn.lastReplyLen ∧
      (finallyPart .fixed call ev1 b).conn.lastRawRequest = b.conn.lastRawRequest ∧
      (finallyPart .fixed call ev1 b).sent = b.sent ∧
      (finallyPart .fixed call ev1 b).conn.info = b.conn.info := by
  obtain ⟨st, hstop, _⟩ := stopTimer_ok b.conn.stats call.method b.conn.lastRequestLen b.conn.lastReplyLen
    b.conn.lastSrvTime (failedOf b.outcome) hst hsrv
  refine ⟨st, hstop, ?_⟩
  simp only [finallyPart, hstop]
  by_cases he : b.conn.recorders.isEmpty = true
  · simp [he]
  · simp only [he, Bool.false_eq_true, if_false]
    have h3 := forRecs_inv (stageResultOne .fixed (retOf call b.outcome) (excOf b.outcome)) RecOk (fun _ => True)
      (fun r hr => stageResultOne_ok _ _ hret r hr) b.conn.recorders hrec
    rcases hf : forRecs (stageResultOne .fixed (retOf call b.outcome) (excOf b.outcome)) b.conn.recorders with
      ⟨recs3, ev3, e3⟩
    rw [hf] at h3
    simp only at h3
    obtain ⟨he3, _⟩ := h3
    subst he3
    simp

theorem find_setOp_other (name n : Str) (o : OpStat) (hne : n ≠ name) : (ops : List (Str × OpStat)) →
    (setOp name o ops).find? (fun p => decide (p.1 = n)) = ops.find? (fun p => decide (p.1 = n))
  | [] => by simp [setOp, Ne.symm hne]
  | p :: ps => by
    by_cases h : p.1 = name
    · simp [setOp, h, Ne.symm hne]
    · by_cases h2 : p.1 = n
      · have h3 : ¬ n = name := hne
        simp [setOp, h2, h3]
      · simp [setOp, h, h2, find_setOp_other name n o hne ps]

theorem get_mk_setOp_other (en : Bool) (ops : List (Str × OpStat)) (name n : Str) (o : OpStat) (hne : n ≠ name) :
    Stats.get { enabled := en, ops := setOp name o ops } n = Stats.get { enabled := en, ops := ops } n := by
  simp [Stats.get, find_setOp_other name n o hne]

/-- counters of the started operation after start_timer … stop_timer, and untouched counters of the others -/
theorem start_stop_counts (s : Stats) (name : Str) (a b : Nat) (srv : SrvTime) (f : Bool) (st : Stats)
    (he : s.enabled = true) (h : (s.startTimer name).stopTimer name a b srv f = .ok st) :
    (st.get name).count = (s.get name).count + 1 ∧
    (st.get name).excCount = (s.get name).excCount + (if f then 1 else 0) ∧
    (st.get name).reqLenSum = (s.get name).reqLenSum + a ∧
    (st.get name).replyLenSum = (s.get name).replyLenSum + b ∧
    (st.get name).started = false ∧
    (∀ n, n ≠ name → st.get n = s.get n) := by
  have hs : s.startTimer name = { enabled := true, ops := setOp name { s.get name with started := true } s.ops } := by
    simp [Stats.startTimer, he]
  rw [hs] at h
  simp only [Stats.stopTimer, Bool.not_true, Bool.false_eq_true, if_false, get_mk_setOp_same] at h
  have hsame : ∀ (o : OpStat) (ops : List (Str × OpStat)), Stats.get { enabled := true, ops := setOp name o ops } name = o :=
    fun o ops => get_mk_setOp_same true ops name o
  have hother : ∀ (o o' : OpStat) (n : Str), n ≠ name →
      Stats.get { enabled := true, ops := setOp name o (setOp name o' s.ops) } n = s.get n := by
    intro o o' n hn
    rw [get_mk_setOp_other _ _ _ _ _ hn, get_mk_setOp_other _ _ _ _ _ hn]
    cases s
    simp_all [Stats.get]
  by_cases hsus : (s.get name).srvSuspended = true
  · simp only [hsus, if_true, pure, Except.pure, Except.ok.injEq] at h
    subst h
    refine ⟨?_, ?_, ?_, ?_, ?_, ?_⟩ <;> first | (rw [hsame]) | (intro n hn; exact hother _ _ n hn)
    · cases f <;> simp
  · cases srv with
    | str t => simp [hsus] at h
    | none =>
      simp only [hsus, Bool.false_eq_true, if_false, pure, Except.pure, Except.ok.injEq] at h
      subst h
      refine ⟨?_, ?_, ?_, ?_, ?_, ?_⟩ <;> first | (rw [hsame]) | (intro n hn; exact hother _ _ n hn)
      · cases f <;> simp
    | num t =>
      simp only [hsus, Bool.false_eq_true, if_false, pure, Except.pure, Except.ok.injEq] at h
      subst h
      refine ⟨?_, ?_, ?_, ?_, ?_, ?_⟩ <;> first | (rw [hsame]) | (intro n hn; exact hother _ _ n hn)
      · cases f <;> simp

/-- one operation under any observers, for the code as fixed: the outcome is the outcome of the core alone;
    the statistics were stopped successfully; bookkeeping as left by the try body -/
theorem runOp_spec (c : Conn) (b64 : Str → Str) (call : Call) (core : Core) (hs : Sane call core)
    (hsrv : srvOk c.lastSrvTime) :
    (runOp .fixed c b64 call core).outcome = coreOutcome c.info.creds b64 core call.listener ∧
    srvOk (runOp .fixed c b64 call core).conn.lastSrvTime ∧
    (runOp .fixed c b64 call core).conn.info = c.info ∧
    (∃ recs1 st,
      (c.stats.startTimer call.method).stopTimer call.method
        (tryBody .fixed { c with recorders := recs1, stats := c.stats.startTimer call.method } b64 core
          call.listener).conn.lastRequestLen
        (tryBody .fixed { c with recorders := recs1, stats := c.stats.startTimer call.method } b64 core
          call.listener).conn.lastReplyLen
        (tryBody .fixed { c with recorders := recs1, stats := c.stats.startTimer call.method } b64 core
          call.listener).conn.lastSrvTime
        (failedOf (coreOutcome c.info.creds b64 core call.listener)) = .ok st ∧
      (runOp .fixed c b64 call core).conn.stats = st) := by
  have hp := prologue_ok c call hs.noKw hs.argsOk
  rcases hpro : prologue c call with ⟨recs1, ev1, e1⟩
  rw [hpro] at hp
  simp only at hp
  obtain ⟨he1, hrec1, _⟩ := hp
  subst he1
  simp only [runOp, hpro]
  have ht := tryBody_spec { c with recorders := recs1, stats := c.stats.startTimer call.method } b64 core call
    call.listener hs hrec1
  obtain ⟨hout, hstats, hrecb, _, hsrvb, hinfo⟩ := ht
  have hstarted : (tryBody .fixed { c with recorders := recs1, stats := c.stats.startTimer call.method } b64 core
      call.listener).conn.stats.enabled = true →
      ((tryBody .fixed { c with recorders := recs1, stats := c.stats.startTimer call.method } b64 core
        call.listener).conn.stats.get call.method).started = true := by
    rw [hstats]
    intro hen
    simp only at hen ⊢
    rw [startTimer_enabled] at hen
    exact (startTimer_started c.stats call.method hen).1
  have hret : retOk (retOf call (tryBody .fixed { c with recorders := recs1, stats := c.stats.startTimer call.method }
      b64 core call.listener).outcome) := by
    rw [hout]
    intro r hr
    simp only [coreOutcome] at hr
    cases hprep : core.prep with
    | error e => simp [hprep, retOf] at hr
    | ok req =>
      simp only [hprep] at hr
      cases hw : (wbemRequest .fixed [] c.info.creds b64 core req call.listener).result with
      | error e => simp [hw, retOf] at hr
      | ok p =>
        simp only [hw] at hr
        cases hpar : core.parse p.1 with
        | error e => simp [hpar, retOf] at hr
        | ok ri =>
          simp only [hpar, retOf] at hr
          split at hr
          · simp only [Option.some.injEq] at hr
            subst hr
            exact hs.retOk p.1 ri hpar
          · simp at hr
  obtain ⟨st, hstop, hfo, hfs, hfsrv, _, _, _, _, hfinfo⟩ := finallyPart_spec call ev1 _ hstarted (hsrvb hsrv) hrecb hret
  refine ⟨by rw [hfo, hout], by rw [hfsrv]; exact hsrvb hsrv, by rw [hfinfo, hinfo], recs1, st, ?_, hfs⟩
  rw [hstats, hout] at hstop
  exact hstop

/-! ### bookkeeping of the bytes exchanged -/

/-- wbem_request without recorders, spelled out -/
theorem wbemRequest_bare (creds : Creds) (b64 : Str → Str) (core : Core) (req : Req) (listener : Bool) :
    (wbemRequest .fixed [] creds b64 core req listener).sent = some (xmlDecl ++ encode req.data) ∧
    (wbemRequest .fixed [] creds b64 core req listener).result =
      (match core.send (xmlDecl ++ encode req.data)
              (req.headers ++ if listener = true then [] else authHeader b64 creds) with
       | .raised e => .error e
       | .response resp =>
         if resp.status ≠ 200 then .error (core.statusError resp)
         else match core.badContentType resp with
           | some e => .error e
           | none => .ok (resp.body,
               if listener = true then SrvTime.none else
               match hdrLookup srvTimeHeader resp.headers with
               | none => SrvTime.none
               | some t => match core.parseFloat t with
                 | some f => SrvTime.num f
                 | none => SrvTime.none)) := by
  simp only [wbemRequest, forRecs_nil]
  cases core.send (xmlDecl ++ encode req.data) (req.headers ++ if listener = true then [] else authHeader b64 creds) with
  | raised e => exact ⟨rfl, rfl⟩
  | response resp =>
    simp only
    by_cases hst : resp.status = 200
    · simp only [hst, ne_eq, not_true_eq_false, if_false]
      cases core.badContentType resp with
      | some e => exact ⟨rfl, rfl⟩
      | none => simp only [Variant.fixed, if_true]; exact ⟨trivial, rfl⟩
    · simp only [ne_eq, hst, not_false_eq_true, if_true]
      exact ⟨trivial, trivial⟩

/-- what the try body leaves in the connection attributes once the request was built -/
theorem tryBody_bookkeeping (c : Conn) (b64 : Str → Str) (core : Core) (call : Call) (listener : Bool)
    (_hs : Sane call core) (hrec : ∀ r ∈ c.recorders, RecOk r) (req : Req) (hp : core.prep = .ok req) :
    (tryBody .fixed c b64 core listener).conn.lastRawRequest = some req.data ∧
    (tryBody .fixed c b64 core listener).conn.lastRequestLen = req.data.length ∧
    (tryBody .fixed c b64 core listener).sent = some (xmlDecl ++ encode req.data) ∧
    (match (wbemRequest .fixed [] c.info.creds b64 core req listener).result with
     | .ok p => (tryBody .fixed c b64 core listener).conn.lastRawReply = some p.1 ∧
                (tryBody .fixed c b64 core listener).conn.lastReplyLen = p.1.length
     | .error _ => (tryBody .fixed c b64 core listener).conn.lastRawReply = none ∧
                   (tryBody .fixed c b64 core listener).conn.lastReplyLen = 0) := by
  have hn := noAuth_headers req
  obtain ⟨hres, hsent, _, _, _⟩ := wbemRequest_spec c.recorders c.info.creds b64 core req listener hrec hn
  have hb := (wbemRequest_bare c.info.creds b64 core req listener).1
  simp only [tryBody, hp]
  cases hr : (wbemRequest .fixed c.recorders c.info.creds b64 core req listener).result with
  | error e =>
    rw [hr] at hres
    rw [← hres]
    exact ⟨rfl, rfl, hsent.trans hb, rfl, rfl⟩
  | ok p =>
    rw [hr] at hres
    rw [← hres]
    obtain ⟨reply, srv⟩ := p
    simp only []
    cases hpar : core.parse reply with
    | error e => exact ⟨rfl, rfl, hsent.trans hb, rfl, rfl⟩
    | ok r => exact ⟨rfl, rfl, hsent.trans hb, rfl, rfl⟩

/-- an operation decomposed: (recorders after the prologue) and the try body whose bookkeeping survives the
    finally clause -/
theorem runOp_decompose (c : Conn) (b64 : Str → Str) (call : Call) (core : Core) (hs : Sane call core)
    (hsrv : srvOk c.lastSrvTime) :
    ∃ recs1, (∀ r ∈ recs1, RecOk r) ∧
      (runOp .fixed c b64 call core).conn.lastRawReply =
        (tryBody .fixed { c with recorders := recs1, stats := c.stats.startTimer call.method } b64 core
          call.listener).conn.lastRawReply ∧
      (runOp .fixed c b64 call core).conn.lastReplyLen =
        (tryBody .fixed { c with recorders := recs1, stats := c.stats.startTimer call.method } b64 core
          call.listener).conn.lastReplyLen ∧
      (runOp .fixed c b64 call core).conn.lastRawRequest =
        (tryBody .fixed { c with recorders := recs1, stats := c.stats.startTimer call.method } b64 core
          call.listener).conn.lastRawRequest ∧
      (runOp .fixed c b64 call core).sent =
        (tryBody .fixed { c with recorders := recs1, stats := c.stats.startTimer call.method } b64 core
          call.listener).sent := by
  have hp := prologue_ok c call hs.noKw hs.argsOk
  rcases hpro : prologue c call with ⟨recs1, ev1, e1⟩
  rw [hpro] at hp
  simp only at hp
  obtain ⟨he1, hrec1, _⟩ := hp
  subst he1
  simp only [runOp, hpro]
  have ht := tryBody_spec { c with recorders := recs1, stats := c.stats.startTimer call.method } b64 core call
    call.listener hs hrec1
  obtain ⟨hout, hstats, hrecb, _, hsrvb, hinfo⟩ := ht
  have hstarted : (tryBody .fixed { c with recorders := recs1, stats := c.stats.startTimer call.method } b64 core
      call.listener).conn.stats.enabled = true →
      ((tryBody .fixed { c with recorders := recs1, stats := c.stats.startTimer call.method } b64 core
        call.listener).conn.stats.get call.method).started = true := by
    rw [hstats]
    intro hen
    simp only at hen ⊢
    rw [startTimer_enabled] at hen
    exact (startTimer_started c.stats call.method hen).1
  have hret : retOk (retOf call (tryBody .fixed { c with recorders := recs1, stats := c.stats.startTimer call.method }
      b64 core call.listener).outcome) := by
    rw [hout]
    intro r hr
    simp only [coreOutcome] at hr
    cases hprep : core.prep with
    | error e => simp [hprep, retOf] at hr
    | ok req =>
      simp only [hprep] at hr
      cases hw : (wbemRequest .fixed [] c.info.creds b64 core req call.listener).result with
      | error e => simp [hw, retOf] at hr
      | ok p =>
        simp only [hw] at hr
        cases hpar : core.parse p.1 with
        | error e => simp [hpar, retOf] at hr
        | ok ri =>
          simp only [hpar, retOf] at hr
          split at hr
          · simp only [Option.some.injEq] at hr
            subst hr
            exact hs.retOk p.1 ri hpar
          · simp at hr
  obtain ⟨st, _, _, _, _, h1, h2, h3, h4, _⟩ := finallyPart_spec call ev1 _ hstarted (hsrvb hsrv) hrecb hret
  exact ⟨recs1, hrec1, h1, h2, h3, h4⟩

/-! ### credentials -/

def withCreds (c : Conn) (cr : Creds) : Conn := { c with info := { c.info with creds := cr } }

/-- wbem_request sees the credentials only through the Authorization header it hands to the transport -/
theorem wbemRequest_creds (v : Variant) (recs : List Recorder) (cr cr' : Creds) (b64 : Str → Str) (core : Core)
    (req : Req) (listener : Bool)
    (hsend : ∀ body hs, core.send body (hs ++ authHeader b64 cr) = core.send body (hs ++ authHeader b64 cr')) :
    wbemRequest v recs cr b64 core req listener = wbemRequest v recs cr' b64 core req listener := by
  simp only [wbemRequest]
  cases listener with
  | true => rfl
  | false => simp only [Bool.false_eq_true, if_false, hsend]

theorem tryBody_creds (v : Variant) (c : Conn) (cr cr' : Creds) (b64 : Str → Str) (core : Core) (listener : Bool)
    (hsend : ∀ body hs, core.send body (hs ++ authHeader b64 cr) = core.send body (hs ++ authHeader b64 cr')) :
    (tryBody v (withCreds c cr') b64 core listener).events = (tryBody v (withCreds c cr) b64 core listener).events ∧
    (tryBody v (withCreds c cr') b64 core listener).outcome = (tryBody v (withCreds c cr) b64 core listener).outcome ∧
    (tryBody v (withCreds c cr') b64 core listener).sent = (tryBody v (withCreds c cr) b64 core listener).sent ∧
    (tryBody v (withCreds c cr') b64 core listener).conn =
      withCreds (tryBody v (withCreds c cr) b64 core listener).conn cr' := by
  cases hp : core.prep with
  | error e => simp [tryBody, hp, withCreds]
  | ok req =>
    have hw := wbemRequest_creds v c.recorders cr cr' b64 core req listener hsend
    simp only [tryBody, hp, withCreds, hw]
    cases (wbemRequest v c.recorders cr' b64 core req listener).result with
    | error e => simp; exact ⟨rfl, rfl⟩
    | ok p =>
      obtain ⟨reply, srv⟩ := p
      simp only
      cases core.parse reply <;> simp <;> exact ⟨rfl, rfl⟩

theorem finallyPart_creds (v : Variant) (call : Call) (ev : List Event) (b : OpResult) (cr' : Creds) :
    (finallyPart v call ev ⟨withCreds b.conn cr', b.events, b.outcome, b.sent⟩).events =
      (finallyPart v call ev b).events ∧
    (finallyPart v call ev ⟨withCreds b.conn cr', b.events, b.outcome, b.sent⟩).outcome =
      (finallyPart v call ev b).outcome ∧
    (finallyPart v call ev ⟨withCreds b.conn cr', b.events, b.outcome, b.sent⟩).conn =
      withCreds (finallyPart v call ev b).conn cr' := by
  simp only [finallyPart, withCreds]
  cases b.conn.stats.stopTimer call.method b.conn.lastRequestLen b.conn.lastReplyLen b.conn.lastSrvTime
      (failedOf b.outcome) with
  | error e => refine ⟨?_, ?_, ?_⟩ <;> first | rfl | trivial
  | ok st =>
    simp only
    by_cases he : b.conn.recorders.isEmpty = true
    · simp only [he, if_true]
      refine ⟨?_, ?_, ?_⟩ <;> first | rfl | trivial
    · simp only [he, Bool.false_eq_true, if_false]
      rcases forRecs (stageResultOne v (retOf call b.outcome) (excOf b.outcome)) b.conn.recorders with ⟨r3, e3, x3⟩
      cases x3 <;> (refine ⟨?_, ?_, ?_⟩ <;> first | rfl | trivial)

theorem withCreds_step (c : Conn) (cr : Creds) (recs : List Recorder) (st : Stats) :
    ({ withCreds c cr with recorders := recs, stats := st } : Conn) = withCreds { c with recorders := recs, stats := st } cr :=
  rfl

theorem withCreds_stats (c : Conn) (cr : Creds) : (withCreds c cr).stats = c.stats := rfl

theorem runOp_unfold_ok (v : Variant) (c : Conn) (b64 : Str → Str) (call : Call) (core : Core)
    (recs1 : List Recorder) (ev1 : List Event) (h : prologue c call = (recs1, ev1, none)) :
    runOp v c b64 call core = finallyPart v call ev1
      (tryBody v { c with recorders := recs1, stats := c.stats.startTimer call.method } b64 core call.listener) := by
  simp only [runOp, h]

theorem runOp_unfold_err (v : Variant) (c : Conn) (b64 : Str → Str) (call : Call) (core : Core)
    (recs1 : List Recorder) (ev1 : List Event) (e : Exc) (h : prologue c call = (recs1, ev1, some e)) :
    runOp v c b64 call core = ⟨{ c with recorders := recs1 }, ev1, .error (raisedOf e), none⟩ := by
  simp only [runOp, h]

/-- an operation sees the credentials only through the Authorization header handed to the transport: if the
    transport answers alike, everything the observers emit and the outcome are alike -/
theorem runOp_creds (v : Variant) (c : Conn) (cr cr' : Creds) (b64 : Str → Str) (call : Call) (core : Core)
    (hsend : ∀ body hs, core.send body (hs ++ authHeader b64 cr) = core.send body (hs ++ authHeader b64 cr')) :
    (runOp v (withCreds c cr') b64 call core).events = (runOp v (withCreds c cr) b64 call core).events ∧
    (runOp v (withCreds c cr') b64 call core).outcome = (runOp v (withCreds c cr) b64 call core).outcome := by
  have hpro : prologue (withCreds c cr') call = prologue (withCreds c cr) call := rfl
  rcases hp2 : prologue (withCreds c cr) call with ⟨recs1, ev1, e1⟩
  rw [hp2] at hpro
  cases e1 with
  | some e =>
    rw [runOp_unfold_err v _ b64 call core recs1 ev1 e hpro, runOp_unfold_err v _ b64 call core recs1 ev1 e hp2]
    exact ⟨rfl, rfl⟩
  | none =>
    rw [runOp_unfold_ok v _ b64 call core recs1 ev1 hpro, runOp_unfold_ok v _ b64 call core recs1 ev1 hp2]
    rw [withCreds_step c cr' recs1, withCreds_step c cr recs1]
    simp only [withCreds_stats]
    generalize ({ c with recorders := recs1, stats := c.stats.startTimer call.method } : Conn) = c1
    obtain ⟨h1, h2, h3, h4⟩ := tryBody_creds v c1 cr cr' b64 core call.listener hsend
    have hf := finallyPart_creds v call ev1 (tryBody v (withCreds c1 cr) b64 core call.listener) cr'
    have heq : tryBody v (withCreds c1 cr') b64 core call.listener =
        ⟨withCreds (tryBody v (withCreds c1 cr) b64 core call.listener).conn cr',
         (tryBody v (withCreds c1 cr) b64 core call.listener).events,
         (tryBody v (withCreds c1 cr) b64 core call.listener).outcome,
         (tryBody v (withCreds c1 cr) b64 core call.listener).sent⟩ := by
      rw [← h1, ← h2, ← h3, ← h4]
    rw [heq]
    exact ⟨hf.1, hf.2.1⟩

theorem stopTimer_enabled (s : Stats) (name : Str) (a b : Nat) (srv : SrvTime) (f : Bool) (st : Stats)
    (h : s.stopTimer name a b srv f = .ok st) : st.enabled = s.enabled := by
  simp only [Stats.stopTimer] at h
  by_cases he : s.enabled = true
  · simp only [he, Bool.not_true, Bool.false_eq_true, if_false] at h
    split at h
    · simp [throw, throwThe, MonadExceptOf.throw] at h
    · by_cases hsus : (s.get name).srvSuspended = true
      · simp only [hsus, if_true, pure, Except.pure, Except.ok.injEq] at h
        rw [← h, he]
      · cases srv with
        | str t => simp [hsus, throw, throwThe, MonadExceptOf.throw] at h
        | none =>
          simp only [hsus, Bool.false_eq_true, if_false, pure, Except.pure, Except.ok.injEq] at h
          rw [← h, he]
        | num t =>
          simp only [hsus, Bool.false_eq_true, if_false, pure, Except.pure, Except.ok.injEq] at h
          rw [← h, he]
  · simp only [Bool.not_eq_true] at he
    simp only [he, Bool.not_false, if_true, pure, Except.pure, Except.ok.injEq] at h
    rw [← h]

/-! ### disabled recorders are silent -/

def disabledRec : Recorder → Prop
  | .log r => r.enabled = false
  | .tcr r => r.enabled = false

/-- a staged call that emits nothing, raises nothing and keeps recorders disabled, looped over disabled recorders -/
theorem forRecs_silent (f : Recorder → StageRes)
    (h : ∀ r, disabledRec r → (f r).2.1 = [] ∧ (f r).2.2 = none ∧ disabledRec (f r).1) :
    ∀ rs : List Recorder, (∀ r ∈ rs, disabledRec r) →
      (forRecs f rs).2.1 = [] ∧ (forRecs f rs).2.2 = none ∧ ∀ r ∈ (forRecs f rs).1, disabledRec r := by
  intro rs
  induction rs with
  | nil => intro _; simp [forRecs]
  | cons r rs ih =>
    intro hp
    have hr := h r (hp r (by simp))
    have ih' := ih (fun x hx => hp x (by simp [hx]))
    simp only [forRecs]
    rcases hf : f r with ⟨r', ev, e⟩
    rw [hf] at hr
    simp only at hr
    obtain ⟨hev, he, hd⟩ := hr
    subst hev; subst he
    simp only
    rcases hrs : forRecs f rs with ⟨rs', ev', e'⟩
    rw [hrs] at ih'
    simp only at ih' ⊢
    refine ⟨by simp [ih'.1], ih'.2.1, ?_⟩
    intro x hx
    simp only [List.mem_cons] at hx
    rcases hx with rfl | hx
    · exact hd
    · exact ih'.2.2 x hx

theorem resetOne_silent (pull : Bool) (r : Recorder) (h : disabledRec r) :
    (resetOne pull r).2.1 = [] ∧ (resetOne pull r).2.2 = none ∧ disabledRec (resetOne pull r).1 := by
  cases r with
  | log l => simp only [disabledRec] at h; simp [resetOne, disabledRec, h]
  | tcr t => simp only [disabledRec] at h; simp [resetOne, disabledRec, TcrRec.reset, h]

theorem stageArgsOne_silent (m : Str) (kw : List Kwarg) (r : Recorder) (h : disabledRec r) :
    (stageArgsOne m kw r).2.1 = [] ∧ (stageArgsOne m kw r).2.2 = none ∧ disabledRec (stageArgsOne m kw r).1 := by
  cases r with
  | log l => simp only [disabledRec] at h; simp [stageArgsOne, LogRec.stageArgs, disabledRec, h]
  | tcr t => simp only [disabledRec] at h; simp [stageArgsOne, disabledRec, h]

theorem stageRequestOne_silent (hs : List Hdr) (t : Str) (b : Bytes) (r : Recorder) (h : disabledRec r) :
    (stageRequestOne hs t b r).2.1 = [] ∧ (stageRequestOne hs t b r).2.2 = none ∧
    disabledRec (stageRequestOne hs t b r).1 := by
  cases r with
  | log l =>
    simp only [disabledRec] at h
    simp [stageRequestOne, LogRec.stageHttpRequest, LogRec.stageHttpResponse1, disabledRec, h, pure, Except.pure]
  | tcr t => simp only [disabledRec] at h; simp [stageRequestOne, disabledRec, h]

theorem stageResponse1One_silent (resp : HttpResp) (r : Recorder) (h : disabledRec r) :
    (stageResponse1One resp r).2.1 = [] ∧ (stageResponse1One resp r).2.2 = none ∧
    disabledRec (stageResponse1One resp r).1 := by
  cases r with
  | log l => simp only [disabledRec] at h; simp [stageResponse1One, LogRec.stageHttpResponse1, disabledRec, h]
  | tcr t => simp only [disabledRec] at h; simp [stageResponse1One, disabledRec, h]

theorem stageResponse2One_silent (v : Variant) (b : Bytes) (r : Recorder) (h : disabledRec r) :
    (stageResponse2One v b r).2.1 = [] ∧ (stageResponse2One v b r).2.2 = none ∧
    disabledRec (stageResponse2One v b r).1 := by
  cases r with
  | log l =>
    simp only [disabledRec] at h
    simp only [stageResponse2One, LogRec.stageHttpResponse2, h, Bool.false_and, Bool.false_eq_true, if_false]
    split <;> simp [Pywbem.Model.Observer.ofExcept, disabledRec, h, pure, Except.pure]
  | tcr t => simp only [disabledRec] at h; simp [stageResponse2One, disabledRec, h]

theorem stageResultOne_silent (v : Variant) (ret : Option RetInfo) (exc : Option Raised) (r : Recorder)
    (h : disabledRec r) :
    (stageResultOne v ret exc r).2.1 = [] ∧ (stageResultOne v ret exc r).2.2 = none ∧
    disabledRec (stageResultOne v ret exc r).1 := by
  cases r with
  | log l =>
    simp only [disabledRec] at h
    simp [stageResultOne, LogRec.stageResult, Pywbem.Model.Observer.ofExcept, disabledRec, h, pure, Except.pure]
  | tcr t => simp only [disabledRec] at h; simp [stageResultOne, disabledRec, h]

theorem wbemRequest_silent (v : Variant) (recs : List Recorder) (creds : Creds) (b64 : Str → Str) (core : Core)
    (req : Req) (listener : Bool) (hd : ∀ r ∈ recs, disabledRec r) :
    (wbemRequest v recs creds b64 core req listener).events = [] ∧
    ∀ r ∈ (wbemRequest v recs creds b64 core req listener).recorders, disabledRec r := by
  generalize hbody : xmlDecl ++ encode req.data = body
  generalize htarget : (if listener then ([] : Str) else "/cimom".toList) = target
  have h1 := forRecs_silent (stageRequestOne req.headers target body)
    (fun r hr => stageRequestOne_silent req.headers target body r hr) recs hd
  rcases hf1 : forRecs (stageRequestOne req.headers target body) recs with ⟨recs1, ev1, e1⟩
  rw [hf1] at h1
  simp only at h1
  obtain ⟨hev1, he1, hq1⟩ := h1
  subst hev1; subst he1
  simp only [wbemRequest, hbody, htarget, hf1]
  cases core.send body (req.headers ++ if listener = true then [] else authHeader b64 creds) with
  | raised e => exact ⟨rfl, hq1⟩
  | response resp =>
    have h2 := forRecs_silent (stageResponse1One resp) (fun r hr => stageResponse1One_silent resp r hr) recs1 hq1
    rcases hf2 : forRecs (stageResponse1One resp) recs1 with ⟨recs2, ev2, e2⟩
    rw [hf2] at h2
    simp only at h2
    obtain ⟨hev2, he2, hq2⟩ := h2
    subst hev2; subst he2
    simp only [hf2]
    by_cases hst : resp.status = 200
    · simp only [hst, ne_eq, not_true_eq_false, if_false]
      cases core.badContentType resp with
      | some e => simp only []; exact ⟨rfl, hq2⟩
      | none =>
        have h3 := forRecs_silent (stageResponse2One v resp.body)
          (fun r hr => stageResponse2One_silent v resp.body r hr) recs2 hq2
        rcases hf3 : forRecs (stageResponse2One v resp.body) recs2 with ⟨recs3, ev3, e3⟩
        rw [hf3] at h3
        simp only at h3
        obtain ⟨hev3, he3, hq3⟩ := h3
        subst hev3; subst he3
        simp only []
        exact ⟨rfl, hq3⟩
    · simp only [ne_eq, hst, not_false_eq_true, if_true]
      exact ⟨rfl, hq2⟩

theorem tryBody_silent (v : Variant) (c : Conn) (b64 : Str → Str) (core : Core) (listener : Bool)
    (hd : ∀ r ∈ c.recorders, disabledRec r) :
    (tryBody v c b64 core listener).events = [] ∧
    ∀ r ∈ (tryBody v c b64 core listener).conn.recorders, disabledRec r := by
  cases hp : core.prep with
  | error e => simp only [tryBody, hp]; exact ⟨by first | rfl | trivial, hd⟩
  | ok req =>
    obtain ⟨hev, hq⟩ := wbemRequest_silent v c.recorders c.info.creds b64 core req listener hd
    simp only [tryBody, hp]
    cases hr : (wbemRequest v c.recorders c.info.creds b64 core req listener).result with
    | error e => exact ⟨hev, hq⟩
    | ok p =>
      obtain ⟨reply, srv⟩ := p
      simp only []
      cases core.parse reply <;> exact ⟨hev, hq⟩

theorem finallyPart_silent (v : Variant) (call : Call) (b : OpResult) (hev : b.events = [])
    (hd : ∀ r ∈ b.conn.recorders, disabledRec r) : (finallyPart v call [] b).events = [] := by
  simp only [finallyPart]
  cases b.conn.stats.stopTimer call.method b.conn.lastRequestLen b.conn.lastReplyLen b.conn.lastSrvTime
      (failedOf b.outcome) with
  | error e => simp [hev]
  | ok st =>
    simp only []
    by_cases he : b.conn.recorders.isEmpty = true
    · simp [he, hev]
    · simp only [he, Bool.false_eq_true, if_false]
      have h3 := forRecs_silent (stageResultOne v (retOf call b.outcome) (excOf b.outcome))
        (fun r hr => stageResultOne_silent v _ _ r hr) b.conn.recorders hd
      rcases hf : forRecs (stageResultOne v (retOf call b.outcome) (excOf b.outcome)) b.conn.recorders with
        ⟨recs3, ev3, e3⟩
      rw [hf] at h3
      simp only at h3
      obtain ⟨hev3, he3, _⟩ := h3
      subst hev3; subst he3
      simp [hev]

/-- disabled recorders (recorder.disable() / operation_recorder_enabled = False) emit nothing during an operation,
    whatever the arguments, the responses and the code variant -/
theorem runOp_silent (v : Variant) (c : Conn) (b64 : Str → Str) (call : Call) (core : Core)
    (hd : ∀ r ∈ c.recorders, disabledRec r) : (runOp v c b64 call core).events = [] := by
  have hpro : (prologue c call).2.1 = [] ∧ ∀ r ∈ (prologue c call).1, disabledRec r := by
    simp only [prologue]
    by_cases he : c.recorders.isEmpty = true
    · simp only [he, if_true]; exact ⟨by first | rfl | trivial, hd⟩
    · simp only [he, Bool.false_eq_true, if_false]
      have h0 := forRecs_silent (resetOne call.pull) (fun r hr => resetOne_silent call.pull r hr) c.recorders hd
      by_cases hk : kwCollision call = true
      · simp only [hk, if_true]; exact ⟨by first | rfl | trivial, h0.2.2⟩
      · simp only [hk, Bool.false_eq_true, if_false]
        have h1 := forRecs_silent (stageArgsOne call.method call.kwargs)
          (fun r hr => stageArgsOne_silent call.method call.kwargs r hr) _ h0.2.2
        exact ⟨h1.1, h1.2.2⟩
  rcases hp : prologue c call with ⟨recs1, ev1, e1⟩
  rw [hp] at hpro
  simp only at hpro
  obtain ⟨hev1, hq1⟩ := hpro
  subst hev1
  cases e1 with
  | some e => rw [runOp_unfold_err v c b64 call core recs1 [] e hp]
  | none =>
    rw [runOp_unfold_ok v c b64 call core recs1 [] hp]
    obtain ⟨hev, hq⟩ := tryBody_silent v { c with recorders := recs1, stats := c.stats.startTimer call.method } b64 core
      call.listener hq1
    exact finallyPart_silent v call _ hev hq

/-! ### bookkeeping over histories, new connections -/

def bookOf (c : Conn) : Option Str × Option Bytes × Nat := (c.lastRawRequest, c.lastRawReply, c.lastReplyLen)

theorem tryBody_prep_error (v : Variant) (c : Conn) (b64 : Str → Str) (core : Core) (l : Bool) (e : Raised)
    (h : core.prep = .error e) : (tryBody v c b64 core l).conn = c := by
  simp [tryBody, h]

/-- one operation moves the bookkeeping triple by `bookStep` -/
theorem runOp_book (c : Conn) (b64 : Str → Str) (call : Call) (core : Core) (hs : Sane call core)
    (hsrv : srvOk c.lastSrvTime) :
    bookOf (runOp .fixed c b64 call core).conn = bookStep c.info.creds b64 (bookOf c) (call, core) := by
  obtain ⟨recs1, hrec1, h1, h2, h3, _⟩ := runOp_decompose c b64 call core hs hsrv
  simp only [bookOf, bookStep]
  rw [h1, h2, h3]
  cases hp : core.prep with
  | error e =>
    rw [tryBody_prep_error .fixed _ b64 core call.listener e hp]
  | ok req =>
    have hcr : ({ c with recorders := recs1, stats := c.stats.startTimer call.method } : Conn).info.creds = c.info.creds := rfl
    have hr1 : ∀ r ∈ ({ c with recorders := recs1, stats := c.stats.startTimer call.method } : Conn).recorders, RecOk r := hrec1
    generalize ({ c with recorders := recs1, stats := c.stats.startTimer call.method } : Conn) = c1 at *
    obtain ⟨b1, _, _, b4⟩ := tryBody_bookkeeping c1 b64 core call call.listener hs hr1 req hp
    rw [hcr] at b4
    cases hr : (wbemRequest .fixed [] c.info.creds b64 core req call.listener).result with
    | error e => rw [hr] at b4; simp only at b4; simp only [hr]; rw [b1, b4.1, b4.2]
    | ok q => rw [hr] at b4; simp only at b4; simp only [hr]; rw [b1, b4.1, b4.2]

theorem addRecorder_fields (c : Conn) (r : Recorder) :
    (c.addRecorder r).1.lastSrvTime = c.lastSrvTime ∧ (c.addRecorder r).1.info = c.info ∧
    (c.addRecorder r).1.stats = c.stats ∧ bookOf (c.addRecorder r).1 = bookOf c := by
  cases r <;> exact ⟨rfl, rfl, rfl, rfl⟩

theorem addRecorders_fields : ∀ (rs : List Recorder) (c : Conn),
    (c.addRecorders rs).lastSrvTime = c.lastSrvTime ∧ (c.addRecorders rs).info = c.info ∧
    (c.addRecorders rs).stats = c.stats ∧ bookOf (c.addRecorders rs) = bookOf c
  | [], _ => ⟨rfl, rfl, rfl, rfl⟩
  | r :: rs, c => by
    obtain ⟨a1, a2, a3, a4⟩ := addRecorder_fields c r
    obtain ⟨b1, b2, b3, b4⟩ := addRecorders_fields rs (c.addRecorder r).1
    simp only [Conn.addRecorders]
    exact ⟨b1.trans a1, b2.trans a2, b3.trans a3, b4.trans a4⟩

/-! ### request length and debug items -/

/-- the finally clause touches neither last_request_len nor the debug items -/
theorem finallyPart_keeps (v : Variant) (call : Call) (ev : List Event) (b : OpResult) :
    (finallyPart v call ev b).conn.lastRequestLen = b.conn.lastRequestLen ∧
    (finallyPart v call ev b).conn.lastRequestXmlSet = b.conn.lastRequestXmlSet ∧
    (finallyPart v call ev b).conn.lastReplyXmlSet = b.conn.lastReplyXmlSet ∧
    (finallyPart v call ev b).conn.debug = b.conn.debug := by
  simp only [finallyPart]
  cases b.conn.stats.stopTimer call.method b.conn.lastRequestLen b.conn.lastReplyLen b.conn.lastSrvTime
      (failedOf b.outcome) with
  | error e => (refine ⟨?_, ?_, ?_, ?_⟩ <;> first | rfl | trivial)
  | ok st =>
    simp only
    by_cases he : b.conn.recorders.isEmpty = true
    · simp only [he, if_true]; (refine ⟨?_, ?_, ?_, ?_⟩ <;> first | rfl | trivial)
    · simp only [he, Bool.false_eq_true, if_false]
      rcases forRecs (stageResultOne v (retOf call b.outcome) (excOf b.outcome)) b.conn.recorders with ⟨r3, e3, x3⟩
      cases x3 <;> (refine ⟨?_, ?_, ?_, ?_⟩ <;> first | rfl | trivial)

/-- what the try body does to last_request_len and the debug items (any variant, any recorders) -/
theorem tryBody_debug (v : Variant) (c : Conn) (b64 : Str → Str) (core : Core) (l : Bool) :
    (tryBody v c b64 core l).conn.debug = c.debug ∧
    (∀ e, core.prep = .error e →
      (tryBody v c b64 core l).conn.lastRequestLen = c.lastRequestLen ∧
      (tryBody v c b64 core l).conn.lastRequestXmlSet = c.lastRequestXmlSet ∧
      (tryBody v c b64 core l).conn.lastReplyXmlSet = c.lastReplyXmlSet) ∧
    (∀ req, core.prep = .ok req →
      (tryBody v c b64 core l).conn.lastRequestLen = req.data.length ∧
      (c.debug = false → (tryBody v c b64 core l).conn.lastRequestXmlSet = c.lastRequestXmlSet ∧
                         (tryBody v c b64 core l).conn.lastReplyXmlSet = c.lastReplyXmlSet) ∧
      (c.debug = true → (tryBody v c b64 core l).conn.lastRequestXmlSet = true)) := by
  cases hp : core.prep with
  | error e =>
    simp only [tryBody, hp]
    refine ⟨by first | rfl | trivial, ?_, ?_⟩
    · intro _ _; refine ⟨?_, ?_, ?_⟩ <;> first | rfl | trivial
    · intro _ h; cases h
  | ok req =>
    simp only [tryBody, hp]
    refine ⟨?_, ?_, ?_⟩
    · cases (wbemRequest v c.recorders c.info.creds b64 core req l).result with
      | error e => first | rfl | trivial
      | ok p => obtain ⟨reply, srv⟩ := p; simp only []; cases core.parse reply <;> first | rfl | trivial
    · intro e h; cases h
    · intro req' hreq
      simp only [Except.ok.injEq] at hreq
      subst hreq
      cases (wbemRequest v c.recorders c.info.creds b64 core req l).result with
      | error e =>
        refine ⟨by first | rfl | trivial, ?_, ?_⟩
        · intro hd; simp [hd]
        · intro hd; simp [hd]
      | ok p =>
        obtain ⟨reply, srv⟩ := p
        simp only []
        cases core.parse reply <;>
          (refine ⟨by first | rfl | trivial, ?_, ?_⟩
           · intro hd; simp [hd]
           · intro hd; simp [hd])

/-! ### inputs of the negation witnesses in Props/C19.lean -/

/-- a core that succeeds: request built, HTTP 200, reply parsed to `ret` -/
def okCore (ret : PyVal) : Core :=
  { prep := .ok { data := ['<', 'C', 'I', 'M', '/', '>'] },
    send := fun _ _ => .response { status := 200, body := [60, 62] },
    parseFloat := fun _ => none,
    statusError := fun _ => ⟨.named "HTTPError", []⟩,
    badContentType := fun _ => none,
    xmlOk := fun _ => true,
    parse := fun _ => .ok ⟨ret, noneView⟩ }

def connWith (recs : List Recorder) (stats : Bool) : Conn :=
  { info := ⟨.none, [], [], [], []⟩, recorders := recs, stats := { enabled := stats } }

end Proofs.Lemmas.ObserverOp
