/-
Helper lemmas for C20 (Model/ValueMap.lean).  Part 1: dictionaries, the table fold, tovalues on tables.
-/
import Pywbem.Model.ValueMap
import Proofs.Lemmas.IntLit

namespace Proofs.ValueMap
open Pywbem.Proto Pywbem.Model.IntLit Pywbem.Model.ValueMap Pywbem.Model.ValueMap.Spec Proofs.IntLit

/-- decidable equality of outcomes (for `decide` on closed instances) -/
instance instDecEqExcept {ε α} [DecidableEq ε] [DecidableEq α] : DecidableEq (Except ε α) := fun a b =>
  match a, b with
  | .ok x, .ok y => if h : x = y then isTrue (by rw [h]) else isFalse (by intro e; cases e; exact h rfl)
  | .error x, .error y => if h : x = y then isTrue (by rw [h]) else isFalse (by intro e; cases e; exact h rfl)
  | .ok _, .error _ => isFalse (by intro e; cases e)
  | .error _, .ok _ => isFalse (by intro e; cases e)

/-! ### dictionaries -/

theorem dictGet_dictSet {κ ν} [DecidableEq κ] (d : List (κ × ν)) (k k' : κ) (v : ν) :
    dictGet (dictSet d k v) k' = if k = k' then some v else dictGet d k' := by
  induction d with
  | nil => simp [dictSet, dictGet]
  | cons hd tl ih =>
    obtain ⟨a, b⟩ := hd
    by_cases h1 : a = k
    · subst h1
      by_cases h3 : a = k' <;> simp [dictSet, dictGet, h3]
    · by_cases h2 : a = k'
      · subst h2
        have : ¬ k = a := fun h => h1 h.symm
        simp [dictSet, dictGet, h1, this]
      · simp [dictSet, dictGet, h1, h2, ih]

/-! ### the table fold -/

/-- all table updates of the loop, given the resolved entries paired with their Values strings -/
def addAll (vm : VM) : List (Ent × Str) → VM
  | [] => vm
  | (e, s) :: r => addAll (addEnt vm e s) r

/-- value-level reading of `claims`: last exact pair -/
def lastV (p : Ent → Bool) : List (Ent × Str) → Option Str
  | [] => none
  | (e, s) :: r =>
    match lastV p r with
    | some t => some t
    | none => if p e then some s else none

def firstV (p : Ent → Bool) : List (Ent × Str) → Option Str
  | [] => none
  | (e, s) :: r => if p e then some s else firstV p r

def claimV (ps : List (Ent × Str)) (v : Int) : Except PyExc Str :=
  match lastV (isExact v) ps with
  | some s => .ok s
  | none =>
    match firstV (isRangeOf v) ps with
    | some s => .ok s
    | none =>
      match lastV isUnclaimed ps with
      | some s => .ok s
      | none => .error .valueError

theorem addEnt_single_get (vm : VM) (e : Ent) (s : Str) (v : Int) :
    dictGet (addEnt vm e s).single v = if isExact v e then some s else dictGet vm.single v := by
  cases e with
  | none => simp [addEnt, isExact]
  | some p =>
    obtain ⟨lo, hi⟩ := p
    by_cases h : lo = hi
    · subst h
      simp [addEnt, isExact, dictGet_dictSet]
    · simp [addEnt, isExact, h]

theorem addAll_single_get (ps : List (Ent × Str)) (vm : VM) (v : Int) :
    dictGet (addAll vm ps).single v =
      match lastV (isExact v) ps with
      | some s => some s
      | none => dictGet vm.single v := by
  induction ps generalizing vm with
  | nil => simp [addAll, lastV]
  | cons hd tl ih =>
    obtain ⟨e, s⟩ := hd
    simp only [addAll, lastV]
    rw [ih]
    cases h : lastV (isExact v) tl with
    | some t => simp
    | none =>
      simp only [addEnt_single_get]
      by_cases h2 : isExact v e <;> simp [h2]

/-- the (lo, hi, values) triple a pair contributes to the range list -/
def rangeTriple : Ent × Str → Option (Int × Int × Str)
  | (some (lo, hi), s) => if lo = hi then none else some (lo, hi, s)
  | (none, _) => none

theorem addEnt_ranges (vm : VM) (e : Ent) (s : Str) :
    (addEnt vm e s).ranges = vm.ranges ++ (rangeTriple (e, s)).toList := by
  cases e with
  | none => simp [addEnt, rangeTriple]
  | some p =>
    obtain ⟨lo, hi⟩ := p
    by_cases h : lo = hi <;> simp [addEnt, rangeTriple, h]

theorem addAll_ranges (ps : List (Ent × Str)) (vm : VM) :
    (addAll vm ps).ranges = vm.ranges ++ ps.filterMap rangeTriple := by
  induction ps generalizing vm with
  | nil => simp [addAll]
  | cons hd tl ih =>
    obtain ⟨e, s⟩ := hd
    simp only [addAll, ih, addEnt_ranges, List.filterMap_cons]
    cases h : rangeTriple (e, s) <;> simp

theorem addEnt_unclaimed (vm : VM) (e : Ent) (s : Str) :
    (addEnt vm e s).unclaimed = if isUnclaimed e then some s else vm.unclaimed := by
  cases e with
  | none => simp [addEnt, isUnclaimed]
  | some p =>
    obtain ⟨lo, hi⟩ := p
    by_cases h : lo = hi <;> simp [addEnt, isUnclaimed, h]

theorem addAll_unclaimed (ps : List (Ent × Str)) (vm : VM) :
    (addAll vm ps).unclaimed =
      match lastV isUnclaimed ps with
      | some s => some s
      | none => vm.unclaimed := by
  induction ps generalizing vm with
  | nil => simp [addAll, lastV]
  | cons hd tl ih =>
    obtain ⟨e, s⟩ := hd
    simp only [addAll, lastV]
    rw [ih]
    cases h : lastV isUnclaimed tl with
    | some t => simp
    | none =>
      simp only [addEnt_unclaimed]
      by_cases h2 : isUnclaimed e <;> simp [h2]

theorem addEnt_items (vm : VM) (e : Ent) (s : Str) :
    (addEnt vm e s).items = vm.items ++ [(entBin e, s)] := by
  cases e with
  | none => simp [addEnt, entBin]
  | some p =>
    obtain ⟨lo, hi⟩ := p
    by_cases h : lo = hi <;> simp [addEnt, entBin, h]

theorem addAll_items (ps : List (Ent × Str)) (vm : VM) :
    (addAll vm ps).items = vm.items ++ ps.map (fun p => (entBin p.1, p.2)) := by
  induction ps generalizing vm with
  | nil => simp [addAll]
  | cons hd tl ih =>
    obtain ⟨e, s⟩ := hd
    simp [addAll, ih, addEnt_items]

theorem addEnt_v2b (vm : VM) (e : Ent) (s : Str) :
    (addEnt vm e s).v2b = dictSet vm.v2b s (entBin e) := by
  cases e with
  | none => simp [addEnt, entBin]
  | some p =>
    obtain ⟨lo, hi⟩ := p
    by_cases h : lo = hi <;> simp [addEnt, entBin, h]

/-- Bin of the last pair whose Values string is `s` -/
def lastBin (s : Str) : List (Ent × Str) → Option Bin
  | [] => none
  | (e, t) :: r =>
    match lastBin s r with
    | some b => some b
    | none => if t = s then some (entBin e) else none

theorem addAll_v2b_get (ps : List (Ent × Str)) (vm : VM) (s : Str) :
    dictGet (addAll vm ps).v2b s =
      match lastBin s ps with
      | some b => some b
      | none => dictGet vm.v2b s := by
  induction ps generalizing vm with
  | nil => simp [addAll, lastBin]
  | cons hd tl ih =>
    obtain ⟨e, t⟩ := hd
    simp only [addAll, lastBin]
    rw [ih]
    cases h : lastBin s tl with
    | some b => simp
    | none =>
      simp only [addEnt_v2b, dictGet_dictSet]
      by_cases h2 : t = s <;> simp [h2]

theorem find_ranges (ps : List (Ent × Str)) (v : Int) :
    ((ps.filterMap rangeTriple).find? (fun r => decide (r.1 ≤ v) && decide (v ≤ r.2.1))).map (·.2.2) =
      firstV (isRangeOf v) ps := by
  induction ps with
  | nil => simp [firstV]
  | cons hd tl ih =>
    obtain ⟨e, s⟩ := hd
    cases e with
    | none => simpa [rangeTriple, firstV, isRangeOf] using ih
    | some p =>
      obtain ⟨lo, hi⟩ := p
      by_cases h : lo = hi
      · simpa [rangeTriple, firstV, isRangeOf, h] using ih
      · by_cases h2 : lo ≤ v ∧ v ≤ hi
        · simp [rangeTriple, firstV, isRangeOf, h, h2]
        · have h3 : ¬ (lo ≤ v ∧ v ≤ hi) := h2
          simp only [List.filterMap_cons, rangeTriple, h, if_false, List.find?_cons, firstV, isRangeOf]
          have : (decide (lo ≤ v) && decide (v ≤ hi)) = false := by
            simp only [Bool.and_eq_false_iff, decide_eq_false_iff_not]
            by_cases h4 : lo ≤ v
            · right; intro h5; exact h3 ⟨h4, h5⟩
            · left; exact h4
          simp [this]
          simpa using ih

/-- **tables = claims (value level)**: tovalues on the tables built from resolved entries -/
theorem tovalues_addAll (ps : List (Ent × Str)) (v : Int) :
    tovalues (addAll {} ps) v = claimV ps v := by
  unfold tovalues claimV
  rw [addAll_single_get, addAll_ranges, addAll_unclaimed]
  cases h1 : lastV (isExact v) ps with
  | some s => simp
  | none =>
    simp only [dictGet, List.nil_append]
    have hf := find_ranges ps v
    cases h2 : (ps.filterMap rangeTriple).find? (fun r => decide (r.1 ≤ v) && decide (v ≤ r.2.1)) with
    | some r =>
      rw [h2] at hf
      simp at hf
      rw [← hf]
    | none =>
      rw [h2] at hf
      simp at hf
      rw [← hf]
      cases h3 : lastV isUnclaimed ps <;> simp

/-! ### strings: the range pattern, endswith/startswith -/


theorem splitLastDots_eq {s a b : Str} (h : splitLastDots s = some (a, b)) : s = a ++ '.' :: '.' :: b := by
  induction s generalizing a b with
  | nil => simp [splitLastDots] at h
  | cons c rest ih =>
    simp only [splitLastDots] at h
    cases hr : splitLastDots rest with
    | some p =>
      obtain ⟨a', b'⟩ := p
      rw [hr] at h
      simp at h
      obtain ⟨rfl, rfl⟩ := h
      rw [ih hr]; simp
    | none =>
      rw [hr] at h
      simp only at h
      split at h
      · rename_i hc
        simp at h
        obtain ⟨rfl, rfl⟩ := h
        cases rest with
        | nil => simp at hc
        | cons d t => simp at hc; simp [hc.1, hc.2]
      · simp at h

theorem splitLastDots_noDot {s : Str} (h : NoDot s) : splitLastDots s = none := by
  induction s with
  | nil => simp [splitLastDots]
  | cons c rest ih =>
    have h1 : NoDot rest := fun x hx => h x (by simp [hx])
    have h2 : c ≠ '.' := h c (by simp)
    simp [splitLastDots, ih h1, h2]

theorem rangeMatch_eq {s a b : Str} (h : rangeMatch s = some (a, b)) : s = a ++ '.' :: '.' :: b := by
  unfold rangeMatch at h
  split at h
  · simp at h
  · exact splitLastDots_eq h

theorem rangeMatch_noDot {s : Str} (h : NoDot s) : rangeMatch s = none := by
  unfold rangeMatch
  split
  · rfl
  · exact splitLastDots_noDot h

theorem endsDots_append_dots (a : Str) : endsDots (a ++ ['.', '.']) = true := by
  have e : a ++ ['.', '.'] = (a ++ ['.']) ++ ['.'] := by simp
  rw [e]
  unfold endsDots
  rw [List.dropLast_concat, List.getLast?_concat, List.getLast?_concat]
  rfl

theorem endsDots_last {s : Str} (h : endsDots s = true) : s.getLast? = some '.' := by
  simp [endsDots] at h; exact h.1

theorem endsDots_append_noDot (a b : Str) (hb : b ≠ []) (hn : NoDot b) : endsDots (a ++ b) = false := by
  cases h : endsDots (a ++ b) with
  | false => rfl
  | true =>
    have h1 := endsDots_last h
    obtain ⟨ys, hy⟩ := List.getLast?_eq_some_iff.mp h1
    exfalso
    have : b.getLast? = some '.' := by
      have := h1
      simp [List.getLast?_append] at this
      cases hb' : b.getLast? with
      | none => simp [List.getLast?_eq_none_iff] at hb'; exact absurd hb' hb
      | some x =>
        rw [hb'] at this
        simp at this
        rcases this with e | e
        · rw [e]
        · exact absurd e.1 hb
    have hm : '.' ∈ b := List.mem_of_getLast? this
    exact hn '.' hm rfl

theorem endsDots_noDot {s : Str} (hn : NoDot s) : endsDots s = false := by
  cases s with
  | nil => simp [endsDots]
  | cons c t => simpa using endsDots_append_noDot [] (c :: t) (by simp) hn

theorem startsDots_dots (b : Str) : startsDots ('.' :: '.' :: b) = true := by simp [startsDots]

theorem startsDots_append_noDot (a b : Str) (ha : a ≠ []) (hn : NoDot a) : startsDots (a ++ b) = false := by
  cases a with
  | nil => exact absurd rfl ha
  | cons c t =>
    have : c ≠ '.' := hn c (by simp)
    cases h : t ++ b with
    | nil => simp [startsDots, h]
    | cons d u => simp [startsDots, h, this]

theorem startsDots_noDot {s : Str} (hn : NoDot s) : startsDots s = false := by
  cases s with
  | nil => simp [startsDots]
  | cons c t => simpa using startsDots_append_noDot (c :: t) [] (by simp) hn

/-! ### one step of _values_tuple -/


abbrev Rec := Nat → Except PyExc (Int × Int)

def LoShape (T : IntType) (vmap : List Str) (rec : Rec) (i : Nat) : Option Int → Int → Prop
  | some x, lo => lo = x
  | none, lo => (i = 0 ∧ lo = T.minv) ∨
      (i ≠ 0 ∧ ∃ p pl ph, vmap[i - 1]? = some p ∧ endsDots p = false ∧ rec (i - 1) = .ok (pl, ph) ∧ lo = ph + 1)

def HiShape (T : IntType) (vmap : List Str) (rec : Rec) (i : Nat) : Option Int → Int → Prop
  | some x, hi => hi = x
  | none, hi => (i + 1 = vmap.length ∧ hi = T.maxv) ∨
      (i + 1 ≠ vmap.length ∧ ∃ p nl nh, vmap[i + 1]? = some p ∧ startsDots p = false ∧ rec (i + 1) = .ok (nl, nh) ∧ hi = nl - 1)

def Shape (T : IntType) (vmap : List Str) (rec : Rec) (i : Nat) : Raw → Int → Int → Prop
  | .unclaimed, _, _ => False
  | .single n, lo, hi => lo = n ∧ hi = n
  | .range l h, lo, hi => LoShape T vmap rec i l lo ∧ HiShape T vmap rec i h hi

theorem toInt_ok_iff (s : Str) (v : Int) : toInt s = .ok v ↔ integerValueToInt s = some v := by
  unfold toInt
  cases integerValueToInt s <;> simp

theorem parseEnd_nil : parseEnd [] = some none := by simp [parseEnd]

theorem parseEnd_cons_iff (s : Str) (hs : s ≠ []) (l : Option Int) :
    parseEnd s = some l ↔ ∃ v, l = some v ∧ integerValueToInt s = some v := by
  unfold parseEnd
  simp only [hs, if_false]
  cases integerValueToInt s with
  | none => simp
  | some v => simp [eq_comm]

theorem loOpen_ok_iff (T : IntType) (vmap : List Str) (rec : Rec) (i : Nat) (lo : Int) :
    loOpen T vmap i rec = .ok lo ↔ LoShape T vmap rec i none lo := by
  unfold loOpen LoShape
  by_cases h0 : i = 0
  · subst h0
    simp only [if_true, Except.ok.injEq, true_and, ne_eq, not_true_eq_false, false_and, or_false]
    exact eq_comm
  · simp only [h0, if_false, false_and, false_or, ne_eq, not_false_eq_true, true_and]
    cases hp : vmap[i - 1]? with
    | none => simp
    | some p =>
      simp only
      by_cases he : endsDots p = true
      · simp [he]
      · have he' : endsDots p = false := by simpa using he
        simp only [he', Bool.false_eq_true, if_false]
        cases hr : rec (i - 1) with
        | error e => simp
        | ok q =>
          obtain ⟨pl, ph⟩ := q
          simp only [Except.ok.injEq]
          constructor
          · intro h; exact ⟨p, pl, ph, rfl, he', rfl, h.symm⟩
          · rintro ⟨p', pl', ph', h1, _, h3, h4⟩
            simp only [Prod.mk.injEq] at h3
            rw [h4, h3.2]

theorem hiOpen_ok_iff (T : IntType) (vmap : List Str) (rec : Rec) (i : Nat) (hi : Int) :
    hiOpen T vmap i rec = .ok hi ↔ HiShape T vmap rec i none hi := by
  unfold hiOpen HiShape
  by_cases h0 : i + 1 = vmap.length
  · simp only [h0, if_true, Except.ok.injEq, true_and, ne_eq, not_true_eq_false, false_and, or_false]
    exact eq_comm
  · simp only [h0, if_false, false_and, false_or, ne_eq, not_false_eq_true, true_and]
    cases hp : vmap[i + 1]? with
    | none => simp
    | some p =>
      simp only
      by_cases he : startsDots p = true
      · simp [he]
      · have he' : startsDots p = false := by simpa using he
        simp only [he', Bool.false_eq_true, if_false]
        cases hr : rec (i + 1) with
        | error e => simp
        | ok q =>
          obtain ⟨nl, nh⟩ := q
          simp only [Except.ok.injEq]
          constructor
          · intro h; exact ⟨p, nl, nh, rfl, he', rfl, h.symm⟩
          · rintro ⟨p', nl', nh', h1, _, h3, h4⟩
            simp only [Prod.mk.injEq] at h3
            rw [h4, h3.1]

theorem loPart_ok_iff (T : IntType) (vmap : List Str) (rec : Rec) (i : Nat) (a : Str) (lo : Int) :
    (if a = [] then loOpen T vmap i rec else toInt a) = .ok lo ↔
      ∃ l, parseEnd a = some l ∧ LoShape T vmap rec i l lo := by
  by_cases ha : a = []
  · subst ha
    simp only [if_true, parseEnd_nil, Option.some.injEq, exists_eq_left', loOpen_ok_iff]
  · simp only [ha, if_false, toInt_ok_iff]
    constructor
    · intro h
      exact ⟨some lo, (parseEnd_cons_iff a ha _).mpr ⟨lo, rfl, h⟩, rfl⟩
    · rintro ⟨l, h1, h2⟩
      obtain ⟨v, rfl, hv⟩ := (parseEnd_cons_iff a ha _).mp h1
      simp [LoShape] at h2
      rw [h2]; exact hv

theorem hiPart_ok_iff (T : IntType) (vmap : List Str) (rec : Rec) (i : Nat) (b : Str) (hi : Int) :
    (if b = [] then hiOpen T vmap i rec else toInt b) = .ok hi ↔
      ∃ h, parseEnd b = some h ∧ HiShape T vmap rec i h hi := by
  by_cases hb : b = []
  · subst hb
    simp only [if_true, parseEnd_nil, Option.some.injEq, exists_eq_left', hiOpen_ok_iff]
  · simp only [hb, if_false, toInt_ok_iff]
    constructor
    · intro h
      exact ⟨some hi, (parseEnd_cons_iff b hb _).mpr ⟨hi, rfl, h⟩, rfl⟩
    · rintro ⟨l, h1, h2⟩
      obtain ⟨v, rfl, hv⟩ := (parseEnd_cons_iff b hb _).mp h1
      simp [HiShape] at h2
      rw [h2]; exact hv

/-- **one step of _values_tuple, fully characterised** (for an entry that is not the unclaimed marker) -/
theorem tupleBody_ok_iff (T : IntType) (vmap : List Str) (rec : Rec) (i : Nat) (s : Str)
    (hs : vmap[i]? = some s) (hne : s ≠ ['.', '.']) (lo hi : Int) :
    tupleBody T vmap rec i = .ok (lo, hi) ↔ ∃ r, parseEntry s = some r ∧ Shape T vmap rec i r lo hi := by
  unfold tupleBody parseEntry
  simp only [hs, hne, if_false]
  cases hm : rangeMatch s with
  | none =>
    simp only
    cases hv : integerValueToInt s with
    | none => simp [toInt, hv]
    | some v =>
      simp only [toInt, hv, Except.ok.injEq, Prod.mk.injEq, Option.some.injEq, exists_eq_left', Shape]
      constructor
      · rintro ⟨rfl, rfl⟩; exact ⟨rfl, rfl⟩
      · rintro ⟨rfl, rfl⟩; exact ⟨rfl, rfl⟩
  | some ab =>
    obtain ⟨a, b⟩ := ab
    simp only
    constructor
    · intro h
      cases h1 : (if a = [] then loOpen T vmap i rec else toInt a) with
      | error e => rw [h1] at h; simp at h
      | ok lo' =>
        rw [h1] at h
        simp only at h
        cases h2 : (if b = [] then hiOpen T vmap i rec else toInt b) with
        | error e => rw [h2] at h; simp at h
        | ok hi' =>
          rw [h2] at h
          simp at h
          obtain ⟨rfl, rfl⟩ := h
          obtain ⟨l, hl1, hl2⟩ := (loPart_ok_iff T vmap rec i a lo').mp h1
          obtain ⟨hh, hh1, hh2⟩ := (hiPart_ok_iff T vmap rec i b hi').mp h2
          refine ⟨.range l hh, ?_, hl2, hh2⟩
          simp [hl1, hh1]
    · rintro ⟨r, hr, hshape⟩
      cases hl : parseEnd a with
      | none => simp [hl] at hr
      | some l =>
        cases hh : parseEnd b with
        | none => simp [hl, hh] at hr
        | some h =>
          simp [hl, hh] at hr
          subst hr
          obtain ⟨s1, s2⟩ := hshape
          have e1 := (loPart_ok_iff T vmap rec i a lo).mpr ⟨l, hl, s1⟩
          have e2 := (hiPart_ok_iff T vmap rec i b hi).mpr ⟨h, hh, s2⟩
          rw [e1]; simp only; rw [e2]

/-! ### termination of the neighbour recursion -/

def OkOrModel {α} (x : Except PyExc α) : Prop := ∀ e, x = .error e → e = .modelError

theorem toInt_okOrModel (s : Str) : OkOrModel (toInt s) := by
  intro e h
  unfold toInt at h
  cases hv : integerValueToInt s with
  | none => rw [hv] at h; simp at h; exact h.symm
  | some v => rw [hv] at h; simp at h

theorem loOpen_okOrModel (T : IntType) (vmap : List Str) (rec : Rec) (i : Nat) (hi : i < vmap.length)
    (hrec : i ≠ 0 → ∀ p, vmap[i - 1]? = some p → endsDots p = false → OkOrModel (rec (i - 1))) :
    OkOrModel (loOpen T vmap i rec) := by
  intro e h
  unfold loOpen at h
  by_cases h0 : i = 0
  · simp [h0] at h
  · simp only [h0, if_false] at h
    have hlt : i - 1 < vmap.length := by omega
    rw [List.getElem?_eq_getElem hlt] at h
    simp only at h
    by_cases he : endsDots vmap[i - 1] = true
    · simp [he] at h; exact h.symm
    · have he' : endsDots vmap[i - 1] = false := by simpa using he
      simp only [he', Bool.false_eq_true, if_false] at h
      have hr := hrec h0 _ (List.getElem?_eq_getElem hlt) he'
      cases hq : rec (i - 1) with
      | error e' => rw [hq] at h; simp at h; rw [← h]; exact hr e' hq
      | ok q => rw [hq] at h; simp at h

theorem hiOpen_okOrModel (T : IntType) (vmap : List Str) (rec : Rec) (i : Nat) (hi : i < vmap.length)
    (hrec : i + 1 ≠ vmap.length → ∀ p, vmap[i + 1]? = some p → startsDots p = false → OkOrModel (rec (i + 1))) :
    OkOrModel (hiOpen T vmap i rec) := by
  intro e h
  unfold hiOpen at h
  by_cases h0 : i + 1 = vmap.length
  · simp [h0] at h
  · simp only [h0, if_false] at h
    have hlt : i + 1 < vmap.length := by omega
    rw [List.getElem?_eq_getElem hlt] at h
    simp only at h
    by_cases he : startsDots vmap[i + 1] = true
    · simp [he] at h; exact h.symm
    · have he' : startsDots vmap[i + 1] = false := by simpa using he
      simp only [he', Bool.false_eq_true, if_false] at h
      have hr := hrec h0 _ (List.getElem?_eq_getElem hlt) he'
      cases hq : rec (i + 1) with
      | error e' => rw [hq] at h; simp at h; rw [← h]; exact hr e' hq
      | ok q => rw [hq] at h; simp at h

/-- one step of _values_tuple raises nothing but ModelError, provided the recursive calls it can
    make (only towards a neighbour that passed the guard) do not -/
theorem tupleBody_okOrModel (T : IntType) (vmap : List Str) (rec : Rec) (i : Nat) (hi : i < vmap.length)
    (hl : (∃ b, rangeMatch vmap[i] = some ([], b)) → i ≠ 0 →
            ∀ p, vmap[i - 1]? = some p → endsDots p = false → OkOrModel (rec (i - 1)))
    (hh : (∃ a, rangeMatch vmap[i] = some (a, [])) → i + 1 ≠ vmap.length →
            ∀ p, vmap[i + 1]? = some p → startsDots p = false → OkOrModel (rec (i + 1))) :
    OkOrModel (tupleBody T vmap rec i) := by
  intro e h
  unfold tupleBody at h
  rw [List.getElem?_eq_getElem hi] at h
  simp only at h
  cases hm : rangeMatch vmap[i] with
  | none =>
    rw [hm] at h
    simp only at h
    cases hv : toInt vmap[i] with
    | error e' => rw [hv] at h; simp at h; rw [← h]; exact toInt_okOrModel _ e' hv
    | ok v => rw [hv] at h; simp at h
  | some ab =>
    obtain ⟨a, b⟩ := ab
    rw [hm] at h
    simp only at h
    have hlo : OkOrModel (if a = [] then loOpen T vmap i rec else toInt a) := by
      by_cases ha : a = []
      · subst ha
        simp only [if_true]
        exact loOpen_okOrModel T vmap rec i hi (hl ⟨b, hm⟩)
      · simp only [ha, if_false]; exact toInt_okOrModel a
    have hhi : OkOrModel (if b = [] then hiOpen T vmap i rec else toInt b) := by
      by_cases hb : b = []
      · subst hb
        simp only [if_true]
        exact hiOpen_okOrModel T vmap rec i hi (hh ⟨a, hm⟩)
      · simp only [hb, if_false]; exact toInt_okOrModel b
    cases h1 : (if a = [] then loOpen T vmap i rec else toInt a) with
    | error e' => rw [h1] at h; simp at h; rw [← h]; exact hlo e' h1
    | ok lo =>
      rw [h1] at h
      simp only at h
      cases h2 : (if b = [] then hiOpen T vmap i rec else toInt b) with
      | error e' => rw [h2] at h; simp at h; rw [← h]; exact hhi e' h2
      | ok hi' => rw [h2] at h; simp at h

/-- left chain: an entry whose upper end is not open only ever recurses to the left -/
theorem tuple_left_okOrModel (T : IntType) (vmap : List Str) :
    ∀ (i fuel : Nat) (hi : i < vmap.length), endsDots vmap[i] = false → i < fuel →
      OkOrModel (valuesTuple T vmap fuel i) := by
  intro i
  induction i with
  | zero =>
    intro fuel hi he hf
    cases fuel with
    | zero => omega
    | succ f =>
      simp only [valuesTuple]
      apply tupleBody_okOrModel T vmap _ 0 hi
      · intro _ h0; exact absurd rfl h0
      · rintro ⟨a, ha⟩
        have := rangeMatch_eq ha
        have h2 : endsDots vmap[0] = true := by rw [this]; exact endsDots_append_dots a
        rw [he] at h2; cases h2
  | succ j ih =>
    intro fuel hi he hf
    cases fuel with
    | zero => omega
    | succ f =>
      simp only [valuesTuple]
      apply tupleBody_okOrModel T vmap _ (j + 1) hi
      · intro _ _ p hp hep
        simp only [Nat.add_sub_cancel] at hp ⊢
        have hj : j < vmap.length := by omega
        rw [List.getElem?_eq_getElem hj] at hp
        simp at hp
        subst hp
        exact ih f hj hep (by omega)
      · rintro ⟨a, ha⟩
        have := rangeMatch_eq ha
        have h2 : endsDots vmap[j + 1] = true := by rw [this]; exact endsDots_append_dots a
        rw [he] at h2; cases h2

/-- right chain: an entry whose lower end is not open only ever recurses to the right -/
theorem tuple_right_okOrModel (T : IntType) (vmap : List Str) :
    ∀ (fuel i : Nat) (hi : i < vmap.length), startsDots vmap[i] = false → vmap.length - i ≤ fuel →
      OkOrModel (valuesTuple T vmap fuel i) := by
  intro fuel
  induction fuel with
  | zero => intro i hi _ hf; omega
  | succ f ih =>
    intro i hi he hf
    simp only [valuesTuple]
    apply tupleBody_okOrModel T vmap _ i hi
    · rintro ⟨b, hb⟩
      have := rangeMatch_eq hb
      have h2 : startsDots vmap[i] = true := by rw [this]; exact startsDots_dots b
      rw [he] at h2; cases h2
    · intro _ hne p hp hsp
      have hj : i + 1 < vmap.length := by omega
      rw [List.getElem?_eq_getElem hj] at hp
      simp at hp
      subst hp
      exact ih (i + 1) hj hsp (by omega)

/-- **termination**: with a budget of length+1 frames `_values_tuple` never runs out of stack and never
    indexes outside the array: it returns or raises ModelError -/
theorem tuple_okOrModel (T : IntType) (vmap : List Str) (i fuel : Nat) (hi : i < vmap.length)
    (hf : vmap.length + 1 ≤ fuel) : OkOrModel (valuesTuple T vmap fuel i) := by
  cases fuel with
  | zero => omega
  | succ f =>
    simp only [valuesTuple]
    apply tupleBody_okOrModel T vmap _ i hi
    · intro _ h0 p hp hep
      have hj : i - 1 < vmap.length := by omega
      rw [List.getElem?_eq_getElem hj] at hp
      simp at hp
      subst hp
      exact tuple_left_okOrModel T vmap (i - 1) f hj hep (by omega)
    · intro _ hne p hp hsp
      have hj : i + 1 < vmap.length := by omega
      rw [List.getElem?_eq_getElem hj] at hp
      simp at hp
      subst hp
      exact tuple_right_okOrModel T vmap f (i + 1) hj hsp (by omega)

/-! ### guards = closed ends of the parsed neighbour; pointwise views -/

theorem parseEnd_some_none {s : Str} : parseEnd s = some none ↔ s = [] := by
  by_cases hs : s = []
  · simp [hs, parseEnd]
  · simp only [hs, iff_false]
    intro h
    obtain ⟨v, hv, _⟩ := (parseEnd_cons_iff s hs none).mp h
    cases hv

theorem parseEnd_some_some {s : Str} {v : Int} (h : parseEnd s = some (some v)) :
    s ≠ [] ∧ NoDot s := by
  by_cases hs : s = []
  · subst hs; simp [parseEnd] at h
  · obtain ⟨w, _, hw⟩ := (parseEnd_cons_iff s hs _).mp h
    exact ⟨hs, (intlit_noDot hw).1⟩

/-- shape of a successfully parsed entry -/
theorem parseEntry_cases {s : Str} {r : Raw} (h : parseEntry s = some r) :
    (s = ['.', '.'] ∧ r = .unclaimed) ∨
    (s ≠ ['.', '.'] ∧ ∃ n, r = .single n ∧ NoDot s) ∨
    (s ≠ ['.', '.'] ∧ ∃ a b l hh, r = .range l hh ∧ s = a ++ '.' :: '.' :: b ∧ parseEnd a = some l ∧ parseEnd b = some hh) := by
  unfold parseEntry at h
  by_cases hd : s = ['.', '.']
  · left; simp [hd] at h; exact ⟨hd, h.symm⟩
  · right
    simp only [hd, if_false] at h
    cases hm : rangeMatch s with
    | none =>
      left
      rw [hm] at h
      simp only at h
      cases hv : integerValueToInt s with
      | none => rw [hv] at h; simp at h
      | some v =>
        rw [hv] at h; simp at h
        exact ⟨hd, v, h.symm, (intlit_noDot hv).1⟩
    | some ab =>
      right
      obtain ⟨a, b⟩ := ab
      rw [hm] at h
      simp only at h
      cases hl : parseEnd a with
      | none => simp [hl] at h
      | some l =>
        cases hh : parseEnd b with
        | none => simp [hl, hh] at h
        | some h' =>
          simp [hl, hh] at h
          exact ⟨hd, a, b, l, h', h.symm, rangeMatch_eq hm, hl, hh⟩

/-- the guard `valuemap_list[i-1].endswith('..')` = "the left neighbour offers no closed upper end" -/
theorem endsDots_iff_closedHi {p : Str} {r : Raw} (h : parseEntry p = some r) :
    endsDots p = true ↔ closedHi r = none := by
  rcases parseEntry_cases h with ⟨rfl, rfl⟩ | ⟨_, n, rfl, hn⟩ | ⟨_, a, b, l, hh, rfl, rfl, hl, hb⟩
  · simp [closedHi]; decide
  · simp [closedHi, endsDots_noDot hn]
  · cases hh with
    | none =>
      have : b = [] := parseEnd_some_none.mp hb
      subst this
      simp [closedHi, endsDots_append_dots]
    | some v =>
      obtain ⟨hb1, hb2⟩ := parseEnd_some_some hb
      have : a ++ '.' :: '.' :: b = (a ++ ['.', '.']) ++ b := by simp
      rw [this, endsDots_append_noDot _ b hb1 hb2]
      simp [closedHi]

/-- the guard `valuemap_list[i+1].startswith('..')` = "the right neighbour offers no closed lower end" -/
theorem startsDots_iff_closedLo {p : Str} {r : Raw} (h : parseEntry p = some r) :
    startsDots p = true ↔ closedLo r = none := by
  rcases parseEntry_cases h with ⟨rfl, rfl⟩ | ⟨_, n, rfl, hn⟩ | ⟨_, a, b, l, hh, rfl, rfl, hl, hb⟩
  · simp [closedLo]; decide
  · simp [closedLo, startsDots_noDot hn]
  · cases l with
    | none =>
      have : a = [] := parseEnd_some_none.mp hl
      subst this
      simp [closedLo, startsDots_dots]
    | some v =>
      obtain ⟨ha1, ha2⟩ := parseEnd_some_some hl
      rw [startsDots_append_noDot a _ ha1 ha2]
      simp [closedLo]

theorem specHi_of_closedHi (T : IntType) (raws : List Raw) (i : Nat) {r : Raw} {h : Int}
    (hc : closedHi r = some h) : specHi T raws i r = some h := by
  cases r with
  | unclaimed => simp [closedHi] at hc
  | single n => simpa [closedHi, specHi] using hc
  | range l hh =>
    cases hh with
    | none => simp [closedHi] at hc
    | some x => simpa [closedHi, specHi] using hc

theorem specLo_of_closedLo (T : IntType) (raws : List Raw) (i : Nat) {r : Raw} {l : Int}
    (hc : closedLo r = some l) : specLo T raws i r = some l := by
  cases r with
  | unclaimed => simp [closedLo] at hc
  | single n => simpa [closedLo, specLo] using hc
  | range ll hh =>
    cases ll with
    | none => simp [closedLo] at hc
    | some x => simpa [closedLo, specLo] using hc

/-! ### pointwise views of parseAll / resolve / the loop -/

theorem parseAll_some_iff (vmap : List Str) (raws : List Raw) :
    parseAll vmap = some raws ↔
      raws.length = vmap.length ∧ ∀ (i : Nat) s, vmap[i]? = some s → ∃ r, raws[i]? = some r ∧ parseEntry s = some r := by
  induction vmap generalizing raws with
  | nil =>
    cases raws <;> simp [parseAll]
  | cons s rest ih =>
    simp only [parseAll]
    constructor
    · intro h
      cases hp : parseEntry s with
      | none => simp [hp] at h
      | some r =>
        cases hr : parseAll rest with
        | none => simp [hp, hr] at h
        | some rs =>
          simp [hp, hr] at h
          subst h
          obtain ⟨hlen, hpt⟩ := (ih rs).mp hr
          refine ⟨by simp [hlen], ?_⟩
          intro i s' hs'
          cases i with
          | zero => simp at hs'; subst hs'; exact ⟨r, by simp, hp⟩
          | succ j => simp at hs' ⊢; exact hpt j s' hs'
    · rintro ⟨hlen, hpt⟩
      cases raws with
      | nil => simp at hlen
      | cons r rs =>
        obtain ⟨r', hr1, hr2⟩ := hpt 0 s (by simp)
        simp at hr1; subst hr1
        have : parseAll rest = some rs := (ih rs).mpr ⟨by simpa using hlen, fun (i : Nat) s' hs' => by
          have := hpt (i + 1) s' (by simpa using hs'); simpa using this⟩
        simp [hr2, this]

theorem resolveFrom_some_iff (T : IntType) (raws : List Raw) (rest : List Raw) (i : Nat) (ents : List Ent) :
    resolveFrom T raws i rest = some ents ↔
      ents.length = rest.length ∧ ∀ (k : Nat) r, rest[k]? = some r → ∃ e, ents[k]? = some e ∧ resolveAt T raws (i + k) r = some e := by
  induction rest generalizing i ents with
  | nil => cases ents <;> simp [resolveFrom]
  | cons r rs ih =>
    simp only [resolveFrom]
    constructor
    · intro h
      cases h1 : resolveAt T raws i r with
      | none => simp [h1] at h
      | some e =>
        cases h2 : resolveFrom T raws (i + 1) rs with
        | none => simp [h1, h2] at h
        | some es =>
          simp [h1, h2] at h
          subst h
          obtain ⟨hlen, hpt⟩ := (ih (i + 1) es).mp h2
          refine ⟨by simp [hlen], ?_⟩
          intro k r' hk
          cases k with
          | zero => simp at hk; subst hk; exact ⟨e, by simp, by simpa using h1⟩
          | succ j =>
            simp at hk ⊢
            have := hpt j r' hk
            rwa [show i + 1 + j = i + (j + 1) by omega] at this
    · rintro ⟨hlen, hpt⟩
      cases ents with
      | nil => simp at hlen
      | cons e es =>
        obtain ⟨e', he1, he2⟩ := hpt 0 r (by simp)
        simp at he1; subst he1
        have : resolveFrom T raws (i + 1) rs = some es := (ih (i + 1) es).mpr ⟨by simpa using hlen, fun (k : Nat) r' hk => by
          have := hpt (k + 1) r' (by simpa using hk)
          rw [show i + (k + 1) = i + 1 + k by omega] at this
          simpa using this⟩
        simp at he2
        simp [he2, this]

/-- all entries from index i on, resolved the way the loop does it -/
def entsFrom (T : IntType) (vmap : List Str) : Nat → List Str → Except PyExc (List Ent)
  | _, [] => .ok []
  | i, s :: rest =>
    match entAt T vmap i s with
    | .error e => .error e
    | .ok en =>
      match entsFrom T vmap (i + 1) rest with
      | .error e => .error e
      | .ok es => .ok (en :: es)

theorem entsFrom_ok_iff (T : IntType) (vmap : List Str) (rest : List Str) (i : Nat) (ents : List Ent) :
    entsFrom T vmap i rest = .ok ents ↔
      ents.length = rest.length ∧ ∀ (k : Nat) s, rest[k]? = some s → ∃ e, ents[k]? = some e ∧ entAt T vmap (i + k) s = .ok e := by
  induction rest generalizing i ents with
  | nil => cases ents <;> simp [entsFrom]
  | cons s rs ih =>
    simp only [entsFrom]
    constructor
    · intro h
      cases h1 : entAt T vmap i s with
      | error x => simp [h1] at h
      | ok e =>
        cases h2 : entsFrom T vmap (i + 1) rs with
        | error x => simp [h1, h2] at h
        | ok es =>
          simp [h1, h2] at h
          subst h
          obtain ⟨hlen, hpt⟩ := (ih (i + 1) es).mp h2
          refine ⟨by simp [hlen], ?_⟩
          intro k s' hk
          cases k with
          | zero => simp at hk; subst hk; exact ⟨e, by simp, by simpa using h1⟩
          | succ j =>
            simp at hk ⊢
            have := hpt j s' hk
            rwa [show i + 1 + j = i + (j + 1) by omega] at this
    · rintro ⟨hlen, hpt⟩
      cases ents with
      | nil => simp at hlen
      | cons e es =>
        obtain ⟨e', he1, he2⟩ := hpt 0 s (by simp)
        simp at he1; subst he1
        have : entsFrom T vmap (i + 1) rs = .ok es := (ih (i + 1) es).mpr ⟨by simpa using hlen, fun (k : Nat) s' hk => by
          have := hpt (k + 1) s' (by simpa using hk)
          rw [show i + (k + 1) = i + 1 + k by omega] at this
          simpa using this⟩
        simp at he2
        simp [he2, this]

theorem entsFrom_error (T : IntType) (vmap : List Str) (rest : List Str) (i : Nat) (x : PyExc)
    (h : entsFrom T vmap i rest = .error x) : ∃ (k : Nat) (s : Str), rest[k]? = some s ∧ entAt T vmap (i + k) s = .error x := by
  induction rest generalizing i with
  | nil => simp [entsFrom] at h
  | cons s rs ih =>
    simp only [entsFrom] at h
    cases h1 : entAt T vmap i s with
    | error y => rw [h1] at h; simp at h; subst h; exact ⟨0, s, by simp, by simpa using h1⟩
    | ok e =>
      rw [h1] at h
      simp only at h
      cases h2 : entsFrom T vmap (i + 1) rs with
      | error y =>
        rw [h2] at h; simp at h; subst h
        obtain ⟨k, s', hk, he⟩ := ih (i + 1) h2
        exact ⟨k + 1, s', by simpa using hk, by rwa [show i + (k + 1) = i + 1 + k by omega]⟩
      | ok es => rw [h2] at h; simp at h

/-- the for loop = resolve every entry (first error wins), then do all table updates -/
theorem loop_eq (T : IntType) (vmap values : List Str) (rest : List Str) (i : Nat) (vm : VM)
    (hlen : i + rest.length ≤ values.length) :
    Pywbem.Model.ValueMap.loop T vmap values i rest vm =
      match entsFrom T vmap i rest with
      | .error e => .error e
      | .ok es => .ok (addAll vm (es.zip (values.drop i))) := by
  induction rest generalizing i vm with
  | nil => simp [Pywbem.Model.ValueMap.loop, entsFrom, addAll]
  | cons s rs ih =>
    simp only [Pywbem.Model.ValueMap.loop, entsFrom, stepEntry]
    have hi : i < values.length := by simp at hlen; omega
    rw [List.getElem?_eq_getElem hi]
    simp only
    cases h1 : entAt T vmap i s with
    | error x => simp
    | ok e =>
      simp only
      rw [ih (i + 1) _ (by simp at hlen ⊢; omega)]
      cases h2 : entsFrom T vmap (i + 1) rs with
      | error x => simp
      | ok es =>
        simp only
        rw [List.drop_eq_getElem_cons hi]
        rfl

end Proofs.ValueMap
